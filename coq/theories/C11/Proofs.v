(* C11 — lemmas about the JSON-RPC server model. *)
From Coq Require Import List Ascii Bool NArith ZArith Arith Lia.
From V Require Import C11.Model.
Import ListNotations.
Open Scope str_scope.

(* ---------- equality tests ---------- *)
Lemma list_eqb_refl {A : Type} (eqb : A -> A -> bool) :
  (forall x, eqb x x = true) -> forall l, list_eqb eqb l l = true.
Proof. intros H l. induction l as [|x r IH]; simpl; [reflexivity|]. now rewrite H, IH. Qed.

Lemma list_eqb_refl_forall {A : Type} (eqb : A -> A -> bool) (l : list A) :
  Forall (fun x => eqb x x = true) l -> list_eqb eqb l l = true.
Proof. induction 1 as [|x r Hx _ IH]; simpl; [reflexivity|]. now rewrite Hx, IH. Qed.

Lemma str_eqb_refl (s : str) : (s =? s) = true.
Proof. apply list_eqb_refl. apply Ascii.eqb_refl. Qed.

Lemma str_eqb_eq (a b : str) : (a =? b) = true <-> a = b.
Proof.
  split.
  - revert b. induction a as [|x a IH]; intros [|y b]; simpl; intro H; try discriminate; [reflexivity|].
    apply andb_true_iff in H as [H1 H2]. apply Ascii.eqb_eq in H1. subst. f_equal. now apply IH.
  - intros ->. apply str_eqb_refl.
Qed.

Lemma str_eqb_neq (a b : str) : (a =? b) = false <-> a <> b.
Proof.
  split.
  - intros H E. apply str_eqb_eq in E. congruence.
  - intro H. destruct (a =? b) eqn:E; [|reflexivity]. apply str_eqb_eq in E. contradiction.
Qed.

Lemma str_eqb_sym (a b : str) : (a =? b) = (b =? a).
Proof.
  destruct (a =? b) eqn:E.
  - apply str_eqb_eq in E. subst. symmetry. apply str_eqb_refl.
  - symmetry. apply str_eqb_neq. apply str_eqb_neq in E. congruence.
Qed.

(* induction principle for the nested type *)
Section JsonInd.
  Variable P : json -> Prop.
  Hypothesis HNull : P JNull.
  Hypothesis HBool : forall b, P (JBool b).
  Hypothesis HNum : forall s, P (JNum s).
  Hypothesis HStr : forall s, P (JStr s).
  Hypothesis HArr : forall l, Forall P l -> P (JArr l).
  Hypothesis HObj : forall kvs, Forall (fun kv => P (snd kv)) kvs -> P (JObj kvs).

  Fixpoint json_ind' (j : json) : P j :=
    match j with
    | JNull => HNull
    | JBool b => HBool b
    | JNum s => HNum s
    | JStr s => HStr s
    | JArr l =>
        HArr l ((fix go (l : list json) : Forall P l :=
                   match l with
                   | [] => Forall_nil _
                   | x :: r => Forall_cons x (json_ind' x) (go r)
                   end) l)
    | JObj kvs =>
        HObj kvs ((fix go (l : list (str * json)) : Forall (fun kv => P (snd kv)) l :=
                     match l with
                     | [] => Forall_nil _
                     | (k, v) :: r => Forall_cons (k, v) (json_ind' v) (go r)
                     end) kvs)
    end.
End JsonInd.

Lemma json_eqb_refl (j : json) : json_eqb j j = true.
Proof.
  induction j using json_ind'; simpl; auto using str_eqb_refl.
  - now destruct b.
  - induction H as [|x r Hx _ IH]; [reflexivity|]. now rewrite Hx, IH.
  - induction H as [|[k v] r Hx _ IH]; [reflexivity|]. simpl in Hx. now rewrite str_eqb_refl, Hx, IH.
Qed.

Lemma json_eqb_eq (a b : json) : json_eqb a b = true -> a = b.
Proof.
  revert b. induction a using json_ind'; intros [] E; simpl in E; try discriminate; try reflexivity.
  - f_equal. now apply Bool.eqb_prop.
  - f_equal. now apply str_eqb_eq.
  - f_equal. now apply str_eqb_eq.
  - f_equal. revert l0 E. induction H as [|x r Hx _ IH]; intros [|y s] E; try discriminate; [reflexivity|].
    apply andb_true_iff in E as [E1 E2]. f_equal; [now apply Hx | now apply IH].
  - f_equal. revert kv E. induction H as [|[k v] r Hx _ IH]; intros [|[k' v'] s] E; try discriminate; [reflexivity|].
    apply andb_true_iff in E as [E1 E3]. apply andb_true_iff in E1 as [E1 E2].
    apply str_eqb_eq in E1. simpl in Hx. apply Hx in E2. subst. f_equal. now apply IH.
Qed.

Lemma call_eqb_refl (c : call) : call_eqb c c = true.
Proof. unfold call_eqb. rewrite str_eqb_refl. simpl. apply list_eqb_refl. apply json_eqb_refl. Qed.

Lemma multiset_eqb_refl {A : Type} (eqb : A -> A -> bool) :
  (forall x, eqb x x = true) -> forall l, multiset_eqb eqb l l = true.
Proof. intros H l. induction l as [|x r IH]; simpl; [reflexivity|]. now rewrite H. Qed.

Lemma shape_eqb_refl (s : shape) : shape_eqb s s = true.
Proof. now destruct s. Qed.

(* ---------- request decoding: no id member => ID is nil ---------- *)
Lemma decode_step_id_inv (d : dreq) (kv : str * json) :
  (d_idpresent d = false -> d_id d = JNull) ->
  d_idpresent (decode_step d kv) = false -> d_id (decode_step d kv) = JNull.
Proof.
  intros H. destruct kv as [k v]. unfold decode_step.
  destruct (field_of_key k) as [[]|]; simpl; try exact H.
  - destruct (store_string (d_version d) v); simpl. exact H.
  - destruct (store_string (d_method d) v); simpl. exact H.
  - discriminate.
Qed.

Lemma decode_fold_id_inv (kvs : list (str * json)) (d : dreq) :
  (d_idpresent d = false -> d_id d = JNull) ->
  d_idpresent (fold_left decode_step kvs d) = false -> d_id (fold_left decode_step kvs d) = JNull.
Proof.
  revert d. induction kvs as [|kv r IH]; intros d H; simpl; [exact H|].
  apply IH. now apply decode_step_id_inv.
Qed.

Lemma decode_obj_id_inv (kvs : list (str * json)) :
  d_idpresent (decode_obj kvs) = false -> d_id (decode_obj kvs) = JNull.
Proof. apply decode_fold_id_inv. reflexivity. Qed.

Section Server.
  Variable coerce : ty -> json -> option json.
  Variable zero : ty -> json.
  Variable run : str -> list json -> hout.

  Notation handle_request := (handle_request coerce zero run).
  Notation handle_single := (handle_single coerce zero run).
  Notation handle_entry := (handle_entry coerce zero run).
  Notation handle := (handle coerce zero run).
  Notation spec_entry := (spec_entry coerce zero run).
  Notation spec_handle := (spec_handle coerce zero run).
  Notation build_args := (build_args coerce zero).
  Notation bind_pos := (bind_pos coerce zero).
  Notation bind_named := (bind_named coerce zero).
  Notation binds := (binds coerce zero).
  Notation dev_null_id_entry := (dev_null_id_entry coerce zero).
  Notation dev_notif_error_entry := (dev_notif_error_entry coerce zero).
  Notation dev_null_id := (dev_null_id coerce zero).
  Notation dev_notif_error := (dev_notif_error coerce zero).
  Notation no_deviation := (no_deviation coerce zero).

  (* ---------- well-formedness of everything the server emits ---------- *)
  Lemma mk_result_wf (id v : json) : resp_object_wf (mk_result id v) = true.
  Proof. reflexivity. Qed.

  Lemma mk_error_wf (id : json) (c m : str) : resp_object_wf (mk_error id c m) = true.
  Proof. reflexivity. Qed.

  Lemma resp_of_wf (id : json) (o : hout) : resp_object_wf (resp_of id o) = true.
  Proof. destruct o; reflexivity. Qed.

  Definition out_entry_wf (o : option json) : Prop :=
    match o with Some r => resp_object_wf r = true /\ is_arr r = false | None => True end.

  Lemma handle_request_wf (ms : methods) (d : dreq) : out_entry_wf (snd (handle_request ms d)).
  Proof.
    unfold Model.handle_request.
    destruct (is_sane d); simpl; try (split; reflexivity).
    destruct (find_method ms (d_method d)) as [m|]; simpl; try (split; reflexivity).
    destruct (Model.build_args coerce zero m (d_params d)) as [args|]; simpl; try (split; reflexivity).
    destruct (is_null (d_id d)); simpl; [exact I|].
    split; [apply resp_of_wf | now destruct (run (m_name m) args)].
  Qed.

  Lemma handle_entry_wf (ms : methods) (e : json) : out_entry_wf (snd (handle_entry ms e)).
  Proof.
    unfold Model.handle_entry. destruct (decode_request e); [apply handle_request_wf | split; reflexivity].
  Qed.

  Lemma handle_single_wf (ms : methods) (j : json) : out_entry_wf (snd (handle_single ms j)).
  Proof.
    unfold Model.handle_single. destruct (decode_request j); [apply handle_request_wf | split; reflexivity].
  Qed.

  Lemma somes_wf (f : json -> list call * option json) (es : list json) :
    (forall e, out_entry_wf (snd (f e))) ->
    forallb resp_object_wf (somes (map snd (map f es))) = true.
  Proof.
    intros H. induction es as [|e r IH]; [reflexivity|].
    unfold somes in *. simpl. specialize (H e). destruct (snd (f e)); simpl; [|exact IH].
    destruct H as [H _]. now rewrite H.
  Qed.

  Lemma batch_out_wf (f : json -> list call * option json) (es : list json) :
    (forall e, out_entry_wf (snd (f e))) -> resp_wellformed (snd (batch_out (map f es))) = true.
  Proof.
    intros H. unfold batch_out. simpl.
    pose proof (somes_wf f es H) as W.
    destruct (somes (map snd (map f es))) as [|x l]; [reflexivity|].
    simpl in *. exact W.
  Qed.

  Lemma entry_wf_wellformed (o : option json) : out_entry_wf o -> resp_wellformed o = true.
  Proof.
    destruct o as [r|]; [|reflexivity]. intros [H1 H2]. unfold resp_wellformed.
    destruct r; try exact H1. discriminate.
  Qed.

  Lemma handle_wellformed (ms : methods) (inp : input) : resp_wellformed (snd (handle ms inp)) = true.
  Proof.
    unfold Model.handle. destruct (i_bracket inp).
    - destruct (i_parsed inp) as [[| | | |[|e es]|]|]; try reflexivity.
      apply batch_out_wf. apply handle_entry_wf.
    - destruct (i_parsed inp) as [j|]; [|reflexivity].
      apply entry_wf_wellformed. apply handle_single_wf.
  Qed.

  (* ---------- the code against the specification, entry by entry ---------- *)
  Lemma handle_request_spec (ms : methods) (kvs : list (str * json)) :
    d_typeerr (decode_obj kvs) = false ->
    dev_null_id_entry ms (JObj kvs) = false ->
    dev_notif_error_entry ms (JObj kvs) = false ->
    handle_request ms (decode_obj kvs) = spec_entry ms (JObj kvs).
  Proof.
    intros Ht Hn He. unfold Model.spec_entry, Model.handle_request.
    unfold Model.dev_null_id_entry, Model.dev_notif_error_entry, Model.binds, sane_ok in *.
    pose proof (decode_obj_id_inv kvs) as Inv.
    set (d := decode_obj kvs) in *. rewrite Ht in *. simpl in Hn, He.
    destruct (is_sane d); try reflexivity.
    simpl in Hn, He.
    destruct (find_method ms (d_method d)) as [m|].
    - destruct (Model.build_args coerce zero m (d_params d)) as [args|].
      + destruct (d_idpresent d) eqn:Ep; simpl in *.
        * rewrite andb_true_r in Hn. rewrite Hn. reflexivity.
        * rewrite (Inv eq_refl). reflexivity.
      + rewrite andb_true_r in He. apply negb_false_iff in He. rewrite He. reflexivity.
    - rewrite andb_true_r in He. apply negb_false_iff in He. rewrite He. reflexivity.
  Qed.

  Lemma handle_entry_spec (ms : methods) (e : json) :
    dev_null_id_entry ms e = false -> dev_notif_error_entry ms e = false ->
    handle_entry ms e = spec_entry ms e.
  Proof.
    intros Hn He. destruct e; try reflexivity.
    unfold Model.handle_entry, decode_request.
    destruct (d_typeerr (decode_obj kv)) eqn:Ht.
    - unfold Model.spec_entry. now rewrite Ht.
    - now apply handle_request_spec.
  Qed.

  (* a single request: equal unless it is one of the two -32700-for--32600 situations *)
  Lemma handle_single_spec (ms : methods) (j : json) :
    is_arr j = false ->
    dev_null_id_entry ms j = false -> dev_notif_error_entry ms j = false ->
    (handle_single ms j = spec_entry ms j) \/
    (handle_single ms j = ([], Some parse_error) /\ spec_entry ms j = ([], Some (invalid_request JNull))
     /\ decode_request j = None).
  Proof.
    intros Ha Hn He. destruct j; try discriminate;
      try (right; repeat split; reflexivity); try (left; reflexivity).
    unfold Model.handle_single, decode_request.
    destruct (d_typeerr (decode_obj kv)) eqn:Ht.
    - right. unfold Model.spec_entry. rewrite Ht. repeat split.
    - left. now apply handle_request_spec.
  Qed.

  Lemma existsb_false_forall {A : Type} (f : A -> bool) (l : list A) :
    existsb f l = false -> forall x, In x l -> f x = false.
  Proof.
    intros H x Hx. destruct (f x) eqn:E; [|reflexivity].
    assert (existsb f l = true) by (apply existsb_exists; eauto). congruence.
  Qed.

  Lemma map_ext_in' {A B : Type} (f g : A -> B) (l : list A) :
    (forall x, In x l -> f x = g x) -> map f l = map g l.
  Proof. apply map_ext_in. Qed.

  (* the shape of the relation between [handle] and [spec_handle] when only the two "answering" deviations and
     the batch-window deviation are excluded *)
  Lemma handle_vs_spec (ms : methods) (inp : input) :
    grammar_ok inp = true -> dev_batch_window inp = false ->
    dev_null_id ms inp = false -> dev_notif_error ms inp = false ->
    handle ms inp = spec_handle ms inp \/
    (handle ms inp = ([], Some parse_error) /\ spec_handle ms inp = ([], Some (invalid_request JNull))
     /\ (dev_non_object inp || dev_ill_typed inp) = true).
  Proof.
    unfold grammar_ok, dev_batch_window, Model.dev_null_id, Model.dev_notif_error, entries,
      Model.handle, Model.spec_handle, dev_non_object, dev_ill_typed.
    destruct (i_parsed inp) as [j|] eqn:Ep.
    2:{ intros. left. now destruct (i_bracket inp). }
    destruct (is_arr j) eqn:Ea; intros Hg Hw Hn He.
    - (* a batch *)
      destruct j; try discriminate. apply negb_false_iff in Hw. rewrite Hw.
      destruct l as [|e es]; [left; reflexivity|]. left. f_equal.
      apply map_ext_in'. intros x Hx. apply handle_entry_spec.
      + now apply (existsb_false_forall _ _ Hn).
      + now apply (existsb_false_forall _ _ He).
    - (* a single request *)
      destruct (i_bracket inp); [simpl in Hg; discriminate|].
      assert (Hn' : dev_null_id_entry ms j = false).
      { destruct j; try discriminate; cbn [existsb] in Hn; now rewrite orb_false_r in Hn. }
      assert (He' : dev_notif_error_entry ms j = false).
      { destruct j; try discriminate; cbn [existsb] in He; now rewrite orb_false_r in He. }
      destruct (handle_single_spec ms j Ea Hn' He') as [H|(H1 & H2 & H3)].
      + left. rewrite H. destruct j; try reflexivity. discriminate.
      + right. rewrite H1. repeat split.
        * rewrite <- H2. destruct j; try reflexivity. discriminate.
        * destruct j; try reflexivity; try discriminate.
          unfold decode_request in H3. destruct (d_typeerr (decode_obj kv)); [reflexivity|discriminate].
  Qed.

  Lemma handle_refines_spec (ms : methods) (inp : input) :
    grammar_ok inp = true -> no_deviation ms inp = true -> handle ms inp = spec_handle ms inp.
  Proof.
    unfold Model.no_deviation. intros Hg H.
    repeat (apply andb_true_iff in H as [H ?]).
    repeat match goal with X : negb _ = true |- _ => apply negb_true_iff in X end.
    destruct (handle_vs_spec ms inp) as [E|(_ & _ & E)]; auto.
    rewrite H3, H2 in E. discriminate.
  Qed.

  (* ---------- the predicates hold of the specification's own answer ---------- *)
  Lemma resp_correlated_spec (ms : methods) (inp : input) :
    resp_correlated coerce zero run ms inp (snd (spec_handle ms inp)) = true.
  Proof.
    unfold resp_correlated. rewrite shape_eqb_refl. simpl.
    apply multiset_eqb_refl. apply json_eqb_refl.
  Qed.

  Lemma codes_spec (ms : methods) (inp : input) :
    codes coerce zero run ms inp (snd (spec_handle ms inp)) = true.
  Proof.
    unfold codes. rewrite shape_eqb_refl. simpl.
    apply multiset_eqb_refl. apply json_eqb_refl.
  Qed.

  Lemma calls_once_spec (ms : methods) (inp : input) :
    calls_once coerce zero run ms inp (fst (spec_handle ms inp)) = true.
  Proof. unfold calls_once. apply multiset_eqb_refl. apply call_eqb_refl. Qed.

  Lemma spec_ok_lemma (ms : methods) (inp : input) :
    grammar_ok inp = true -> no_deviation ms inp = true ->
    spec_ok coerce zero run ms inp (handle ms inp) = true.
  Proof.
    intros Hg H. unfold spec_ok. rewrite handle_wellformed.
    rewrite (handle_refines_spec ms inp Hg H).
    now rewrite resp_correlated_spec, codes_spec, calls_once_spec.
  Qed.

  (* correlation needs only the two deviations that change WHO is answered *)
  Lemma resp_correlated_lemma (ms : methods) (inp : input) :
    grammar_ok inp = true -> dev_batch_window inp = false ->
    dev_null_id ms inp = false -> dev_notif_error ms inp = false ->
    resp_correlated coerce zero run ms inp (snd (handle ms inp)) = true.
  Proof.
    intros Hg Hw Hn He.
    destruct (handle_vs_spec ms inp Hg Hw Hn He) as [E|(E1 & E2 & _)].
    - rewrite E. apply resp_correlated_spec.
    - unfold resp_correlated. rewrite E1, E2. reflexivity.
  Qed.

  Lemma codes_lemma (ms : methods) (inp : input) :
    grammar_ok inp = true -> no_deviation ms inp = true ->
    codes coerce zero run ms inp (snd (handle ms inp)) = true.
  Proof. intros Hg H. rewrite (handle_refines_spec ms inp Hg H). apply codes_spec. Qed.

  (* ---------- handler invocations: identical to the specification in every situation but the batch window ---------- *)
  Lemma handle_request_calls (ms : methods) (kvs : list (str * json)) :
    d_typeerr (decode_obj kvs) = false ->
    fst (handle_request ms (decode_obj kvs)) = fst (spec_entry ms (JObj kvs)).
  Proof.
    intros Ht. unfold Model.spec_entry, Model.handle_request. rewrite Ht.
    destruct (is_sane (decode_obj kvs)); try reflexivity.
    destruct (find_method ms (d_method (decode_obj kvs))) as [m|]; [|reflexivity].
    destruct (Model.build_args coerce zero m (d_params (decode_obj kvs))); reflexivity.
  Qed.

  Lemma handle_entry_calls (ms : methods) (e : json) : fst (handle_entry ms e) = fst (spec_entry ms e).
  Proof.
    destruct e; try reflexivity. unfold Model.handle_entry, decode_request.
    destruct (d_typeerr (decode_obj kv)) eqn:Ht.
    - unfold Model.spec_entry. now rewrite Ht.
    - now apply handle_request_calls.
  Qed.

  Lemma handle_single_calls (ms : methods) (j : json) : fst (handle_single ms j) = fst (spec_entry ms j).
  Proof.
    destruct j; try reflexivity. unfold Model.handle_single, decode_request.
    destruct (d_typeerr (decode_obj kv)) eqn:Ht.
    - unfold Model.spec_entry. now rewrite Ht.
    - now apply handle_request_calls.
  Qed.

  Lemma flat_map_fst_ext (f g : json -> list call * option json) (es : list json) :
    (forall e, fst (f e) = fst (g e)) -> flat_map fst (map f es) = flat_map fst (map g es).
  Proof. intros H. induction es as [|e r IH]; [reflexivity|]. simpl. now rewrite H, IH. Qed.

  Lemma handle_calls (ms : methods) (inp : input) :
    grammar_ok inp = true -> dev_batch_window inp = false ->
    fst (handle ms inp) = fst (spec_handle ms inp).
  Proof.
    unfold grammar_ok, dev_batch_window, Model.handle, Model.spec_handle. intros Hg Hw.
    destruct (i_parsed inp) as [j|]; [|now destruct (i_bracket inp)].
    destruct (is_arr j) eqn:Ea.
    - destruct j; try discriminate. apply negb_false_iff in Hw. rewrite Hw.
      destruct l as [|e es]; [reflexivity|]. unfold batch_out. cbn [fst].
      apply flat_map_fst_ext. apply handle_entry_calls.
    - destruct (i_bracket inp); [simpl in Hg; discriminate|].
      rewrite handle_single_calls. destruct j; try reflexivity. discriminate.
  Qed.

  Lemma calls_once_lemma (ms : methods) (inp : input) :
    grammar_ok inp = true -> dev_batch_window inp = false ->
    calls_once coerce zero run ms inp (fst (handle ms inp)) = true.
  Proof. intros Hg Hw. rewrite (handle_calls ms inp Hg Hw). apply calls_once_spec. Qed.

  (* ---------- what one decoded request does (the Prop reading of calls_once / codes) ---------- *)
  Lemma request_outcome (ms : methods) (d : dreq) :
    match is_sane d with
    | SaneOk =>
        match find_method ms (d_method d) with
        | None => handle_request ms d = ([], Some (method_not_found (d_id d)))
        | Some m =>
            match build_args m (d_params d) with
            | None => handle_request ms d = ([], Some (invalid_params (d_id d)))
            | Some args =>
                fst (handle_request ms d) = [(m_name m, args)] /\
                (d_id d <> JNull -> snd (handle_request ms d) = Some (resp_of (d_id d) (run (m_name m) args))) /\
                (d_id d = JNull -> snd (handle_request ms d) = None)
            end
        end
    | _ => exists id, handle_request ms d = ([], Some (invalid_request id))
    end.
  Proof.
    unfold Model.handle_request. destruct (is_sane d); try (eexists; reflexivity).
    destruct (find_method ms (d_method d)) as [m|]; [|reflexivity].
    destruct (Model.build_args coerce zero m (d_params d)) as [args|]; [|reflexivity].
    repeat split; simpl.
    - intros H. destruct (d_id d); try reflexivity. contradiction.
    - intros ->. reflexivity.
  Qed.

  Lemma unparsable_outcome (ms : methods) (b : bool) :
    handle ms (mk_input b None) = ([], Some parse_error).
  Proof. now destruct b. Qed.

  Lemma empty_batch_outcome (ms : methods) :
    handle ms (mk_input true (Some (JArr []))) = ([], Some (invalid_request JNull)).
  Proof. reflexivity. Qed.

  (* a batch is answered entry by entry: the calls are the concatenation, the output is the array of the
     entries' responses (absent when there is none) *)
  Lemma batch_outcome (ms : methods) (e : json) (es : list json) :
    handle ms (mk_input true (Some (JArr (e :: es)))) =
    (flat_map (fun x => fst (handle_entry ms x)) (e :: es),
     match somes (map (fun x => snd (handle_entry ms x)) (e :: es)) with
     | [] => None
     | l => Some (JArr l)
     end).
  Proof.
    unfold Model.handle, batch_out. cbn [i_bracket i_parsed].
    f_equal.
    - rewrite flat_map_concat_map, map_map, <- flat_map_concat_map. reflexivity.
    - now rewrite map_map.
  Qed.

  Lemma all_notifications_no_output (ms : methods) (e : json) (es : list json) :
    (forall x, In x (e :: es) -> snd (handle_entry ms x) = None) ->
    snd (handle ms (mk_input true (Some (JArr (e :: es))))) = None.
  Proof.
    intros H. rewrite batch_outcome. cbn [snd].
    assert (E : somes (map (fun x => snd (handle_entry ms x)) (e :: es)) = []).
    { induction (e :: es) as [|x r IH]; [reflexivity|].
      unfold somes in *. simpl. rewrite (H x (or_introl eq_refl)). simpl.
      apply IH. intros y Hy. apply H. now right. }
    now rewrite E.
  Qed.

  (* ---------- positional = named ---------- *)
  Lemma all_optional_tail (ps : list param) : forallb p_optional ps = true -> optional_tail ps = true.
  Proof.
    induction ps as [|p r IH]; [reflexivity|]. simpl. intro H. apply andb_true_iff in H as [H1 H2].
    now rewrite H1.
  Qed.

  Lemma all_optional_required (ps : list param) : forallb p_optional ps = true -> required_count ps = 0.
  Proof.
    unfold required_count. induction ps as [|p r IH]; [reflexivity|]. simpl. intro H.
    apply andb_true_iff in H as [H1 H2]. rewrite H1. simpl. now apply IH.
  Qed.

  Lemma lookup_last_notin (k : str) (ks : list str) (vs : list json) :
    ~ In k ks -> lookup_last k (combine ks vs) = None.
  Proof.
    revert vs. induction ks as [|k' ks IH]; intros vs H; [reflexivity|].
    destruct vs as [|v vs]; [reflexivity|]. simpl.
    rewrite IH by (intro; apply H; now right).
    destruct (k =? k') eqn:E; [|reflexivity]. apply str_eqb_eq in E. subst. exfalso. apply H. now left.
  Qed.

  Lemma remove_key_notin (k : str) (ks : list str) (vs : list json) :
    ~ In k ks -> remove_key k (combine ks vs) = combine ks vs.
  Proof.
    revert vs. induction ks as [|k' ks IH]; intros vs H; [reflexivity|].
    destruct vs as [|v vs]; [reflexivity|]. unfold remove_key in *. simpl.
    destruct (k' =? k) eqn:E.
    - apply str_eqb_eq in E. subst. exfalso. apply H. now left.
    - simpl. f_equal. apply IH. intro. apply H. now right.
  Qed.

  Lemma in_firstn {A : Type} (x : A) (n : nat) (l : list A) : In x (firstn n l) -> In x l.
  Proof.
    revert l. induction n as [|n IH]; intros [|y l] H; simpl in H; try contradiction.
    destruct H as [H|H]; [now left | right; now apply IH].
  Qed.

  Lemma required_count_cons (p : param) (ps : list param) :
    required_count (p :: ps) = (if p_optional p then 0 else 1) + required_count ps.
  Proof. unfold required_count. simpl. now destruct (p_optional p). Qed.

  Lemma bind_named_pos (ps : list param) : forall vs : list json,
    NoDup (map p_name ps) -> optional_tail ps = true -> length vs <= length ps ->
    bind_named ps (combine (map p_name (firstn (length vs) ps)) vs) =
    if length vs <? required_count ps then None else bind_pos ps vs.
  Proof.
    induction ps as [|p ps IH]; intros vs Hnd Hot Hlen.
    - destruct vs; [reflexivity|]. simpl in Hlen. lia.
    - inversion Hnd as [|? ? Hnotin Hnd']; subst.
      assert (Hot' : optional_tail ps = true).
      { simpl in Hot. destruct (p_optional p); [now apply all_optional_tail|exact Hot]. }
      rewrite required_count_cons.
      destruct vs as [|v vs].
      + (* no value left: every remaining parameter must be optional *)
        specialize (IH [] Hnd' Hot' (Nat.le_0_l _)). simpl in IH. simpl.
        destruct (p_optional p) eqn:Eo.
        * simpl in Hot. rewrite Eo in Hot. rewrite (all_optional_required ps Hot) in *. simpl in *.
          now rewrite IH.
        * reflexivity.
      + simpl in Hlen. assert (Hlen' : length vs <= length ps) by lia.
        specialize (IH vs Hnd' Hot' Hlen').
        cbn [length firstn map combine]. cbn [Model.bind_named Model.bind_pos].
        assert (Hnotin' : ~ In (p_name p) (map p_name (firstn (length vs) ps))).
        { intro Hin. apply Hnotin. apply in_map_iff in Hin as (q & Hq & Hin).
          apply in_map_iff. exists q. split; [exact Hq|]. eapply in_firstn; exact Hin. }
        cbn [lookup_last]. rewrite (lookup_last_notin _ _ _ Hnotin'). rewrite str_eqb_refl.
        destruct (coerce (p_ty p) v) as [a|].
        * unfold remove_key. cbn [filter fst]. rewrite str_eqb_refl. cbn [negb].
          fold (remove_key (p_name p) (combine (map p_name (firstn (length vs) ps)) vs)).
          rewrite (remove_key_notin _ _ _ Hnotin'). rewrite IH.
          destruct (p_optional p) eqn:Eo.
          -- simpl in Hot. rewrite Eo in Hot. rewrite (all_optional_required ps Hot). reflexivity.
          -- change (S (length vs) <? 1 + required_count ps) with (length vs <? required_count ps).
             now destruct (length vs <? required_count ps).
        * now destruct (S (length vs) <? (if p_optional p then 0 else 1) + required_count ps).
  Qed.

  Lemma positional_eq_named_lemma (m : method) (vs : list json) :
    NoDup (map p_name (m_params m)) -> optional_tail (m_params m) = true ->
    length vs <= length (m_params m) ->
    build_args m (JObj (combine (map p_name (firstn (length vs) (m_params m))) vs)) = build_args m (JArr vs).
  Proof.
    intros Hnd Hot Hlen. unfold Model.build_args.
    destruct vs as [|v vs]; [reflexivity|].
    destruct (m_params m) as [|p ps] eqn:Ep; [simpl in Hlen; lia|].
    cbn [length firstn map combine nil_or_empty].
    change (bind_named (p :: ps) ((p_name p, v) :: combine (map p_name (firstn (length vs) ps)) vs))
      with (bind_named (p :: ps) (combine (map p_name (firstn (length (v :: vs)) (p :: ps))) (v :: vs))).
    rewrite (bind_named_pos (p :: ps) (v :: vs) Hnd Hot Hlen).
    assert (E : (length (p :: ps) <? length (v :: vs)) = false) by (apply Nat.ltb_ge; exact Hlen).
    cbn [length] in E |- *. rewrite E, orb_false_r. reflexivity.
  Qed.

  (* the two requests get the same treatment end to end *)
  Lemma positional_eq_named_request (ms : methods) (m : method) (ver meth : str) (id : json) (ip te : bool)
        (vs : list json) :
    find_method ms meth = Some m ->
    NoDup (map p_name (m_params m)) -> optional_tail (m_params m) = true ->
    length vs <= length (m_params m) ->
    handle_request ms (mk_dreq ver meth (JObj (combine (map p_name (firstn (length vs) (m_params m))) vs)) id ip te) =
    handle_request ms (mk_dreq ver meth (JArr vs) id ip te).
  Proof.
    intros Hf Hnd Hot Hlen. unfold Model.handle_request, is_sane. cbn [d_version d_method d_params d_id].
    match goal with |- context [negb ?x] => destruct (negb x); [reflexivity|] end.
    destruct (meth =? []); [reflexivity|].
    destruct id; try reflexivity; try (destruct (contains_dot s); try reflexivity);
      rewrite Hf; rewrite (positional_eq_named_lemma m vs Hnd Hot Hlen); reflexivity.
  Qed.
End Server.
