(* C11 — from bytes: the parser of Json.v composed with the value-level theorems of Proofs.v.  The former
   hypothesis [grammar_ok] is a theorem about [input_of_bytes]; the batch-window deviation is characterised
   on the bytes. *)
From Coq Require Import String.
From Coq Require Import List Ascii Bool NArith ZArith Arith Lia ZifyN ZifyNat ZifyBool.
From V Require Import C11.Model C11.Proofs C11.Proofs_json_lex C11.Proofs_json_utf8 C11.Proofs_json
  C11.Proofs_json_print C11.Proofs_json_sound.
Import ListNotations.
Open Scope str_scope.

(* ---- grammar_ok is no longer an assumption ---- *)
Lemma grammar_ok_bytes (bs : str) : grammar_ok (input_of_bytes bs) = true.
Proof.
  unfold grammar_ok, input_of_bytes. cbn [i_parsed i_bracket].
  destruct (parse bs) as [j|] eqn:Ep; [|reflexivity].
  destruct (is_batch bs) eqn:Eb; [|reflexivity].
  destruct (batch_parses_to_array bs j Eb Ep) as [l ->]. reflexivity.
Qed.

Section Bytes.
  Variable coerce : ty -> json -> option json.
  Variable zero : ty -> json.
  Variable run : str -> list json -> hout.
  Variable ms : methods.

  Lemma bytes_wellformed (bs : str) : resp_wellformed (snd (handle_bytes coerce zero run ms bs)) = true.
  Proof. apply handle_wellformed. Qed.

  Lemma bytes_refines_spec (bs : str) :
    no_deviation coerce zero ms (input_of_bytes bs) = true ->
    handle_bytes coerce zero run ms bs = spec_bytes coerce zero run ms bs.
  Proof. intros H. apply handle_refines_spec; [apply grammar_ok_bytes|exact H]. Qed.

  Lemma bytes_spec_ok (bs : str) :
    no_deviation coerce zero ms (input_of_bytes bs) = true ->
    spec_ok coerce zero run ms (input_of_bytes bs) (handle_bytes coerce zero run ms bs) = true.
  Proof. intros H. apply spec_ok_lemma; [apply grammar_ok_bytes|exact H]. Qed.

  Lemma bytes_correlated (bs : str) :
    dev_batch_window (input_of_bytes bs) = false ->
    dev_null_id coerce zero ms (input_of_bytes bs) = false ->
    dev_notif_error coerce zero ms (input_of_bytes bs) = false ->
    resp_correlated coerce zero run ms (input_of_bytes bs) (snd (handle_bytes coerce zero run ms bs)) = true.
  Proof. intros. apply resp_correlated_lemma; try assumption. apply grammar_ok_bytes. Qed.

  Lemma bytes_codes (bs : str) :
    no_deviation coerce zero ms (input_of_bytes bs) = true ->
    codes coerce zero run ms (input_of_bytes bs) (snd (handle_bytes coerce zero run ms bs)) = true.
  Proof. intros H. apply codes_lemma; [apply grammar_ok_bytes|exact H]. Qed.

  Lemma bytes_calls_once (bs : str) :
    dev_batch_window (input_of_bytes bs) = false ->
    calls_once coerce zero run ms (input_of_bytes bs) (fst (handle_bytes coerce zero run ms bs)) = true.
  Proof. intros H. apply calls_once_lemma; [apply grammar_ok_bytes|exact H]. Qed.

  (* bytes the decoder rejects: one Parse error response with id null, no handler runs *)
  Lemma bytes_unparsable (bs : str) :
    parse bs = None -> handle_bytes coerce zero run ms bs = ([], Some parse_error).
  Proof.
    intros H. unfold handle_bytes, input_of_bytes. rewrite H. apply unparsable_outcome.
  Qed.
End Bytes.

(* ---- the batch-window deviation, on the bytes: an array whose '[' is preceded by 128 or more bytes of
   white space ---- *)
Lemma bytes_batch_window_iff (bs : str) :
  dev_batch_window (input_of_bytes bs) = true <->
  exists w r l, bs = w ++ byte_of 91 :: r /\ all_ws w = true /\ 128 <= List.length w /\ parse bs = Some (JArr l).
Proof.
  unfold dev_batch_window, input_of_bytes. cbn [i_parsed i_bracket]. split.
  - destruct (parse bs) as [j|] eqn:Ep; [|discriminate]. destruct j; try discriminate.
    intros Hb. apply negb_true_iff in Hb.
    unfold parse, parse_first in Ep.
    destruct (p_value (fuel_for bs) max_depth bs) as [v1 r1| |] eqn:E; try discriminate.
    simpl in Ep. inversion Ep; subst.
    destruct (p_value_array_bracket _ _ _ _ _ E) as [r Hs].
    destruct (is_batch_false_bracket bs (byte_of 91) r Hs eq_refl Hb) as (w & -> & Hw & Hl).
    exists w, r, l. repeat split; try assumption.
    all: unfold parse, parse_first; rewrite E; reflexivity.
  - intros (w & r & l & -> & Hw & Hl & Hp). rewrite Hp. apply negb_true_iff.
    destruct (is_batch (w ++ byte_of 91 :: r)) eqn:Eb; [|reflexivity].
    apply is_batch_iff in Eb as (w' & c & r' & He & Hw' & Hc & Hl').
    (* both decompositions skip the same white space *)
    assert (Hs1 : skip_ws (w ++ byte_of 91 :: r) = byte_of 91 :: r) by (apply skip_ws_ws_then; auto).
    assert (Hs2 : skip_ws (w' ++ c :: r') = c :: r') by (apply skip_ws_ws_then; [assumption|bytes]).
    assert (Hlen : List.length (w ++ byte_of 91 :: r) = List.length (w' ++ c :: r')) by (rewrite He; reflexivity).
    rewrite He in Hs1. rewrite Hs2 in Hs1. inversion Hs1; subst.
    rewrite !app_length in Hlen. simpl in Hlen. lia.
Qed.

(* ---- the value level and the byte level meet: the canonical text of a request value is read back as
   that value, and taken for a batch exactly when it is an array ---- *)
Lemma is_batch_print (v : json) : json_wf max_depth v = true -> is_batch (print v) = is_arr v.
Proof.
  intros Hwf. destruct v as [|[]|s|s|l|kvs]; try reflexivity.
  cbn [json_wf] in Hwf. apply number_ok_iff, number_head in Hwf as (c & r & -> & Hc).
  unfold print. cbn [bare print_wsj is_arr]. unfold is_batch, batch_window. cbn [is_batch_w].
  replace (is_ws c) with false by (symmetry; destruct Hc; bytes). destruct Hc; bytes.
Qed.

Lemma input_of_print (v : json) :
  json_wf max_depth v = true -> input_of_bytes (print v) = mk_input (is_arr v) (Some v).
Proof.
  intros Hwf. unfold input_of_bytes. rewrite is_batch_print, parse_print by assumption. reflexivity.
Qed.

Lemma handle_bytes_print coerce zero run ms (v : json) :
  json_wf max_depth v = true ->
  handle_bytes coerce zero run ms (print v) = handle coerce zero run ms (mk_input (is_arr v) (Some v)).
Proof. intros Hwf. unfold handle_bytes. rewrite input_of_print by assumption. reflexivity. Qed.

(* ---- what follows the first value of the stream does not matter ---- *)
Lemma is_batch_w_head n : forall w c x y,
  all_ws w = true -> is_ws c = false -> is_batch_w n (w ++ c :: x) = is_batch_w n (w ++ c :: y).
Proof.
  induction n as [|n IH]; intros w c x y Hw Hc; [reflexivity|].
  destruct w as [|a w]; cbn [app is_batch_w].
  - rewrite Hc. reflexivity.
  - simpl in Hw. apply andb_true_iff in Hw as [Ha Hw]. rewrite Ha. apply IH; assumption.
Qed.

Lemma input_trailing_ignored t w r r' :
  wsj_ok max_depth t = true -> all_ws w = true -> delim_ok t r -> delim_ok t r' ->
  input_of_bytes (w ++ print_wsj t ++ r) = input_of_bytes (w ++ print_wsj t ++ r').
Proof.
  intros Hok Hw Hd Hd'. unfold input_of_bytes, parse. rewrite !parse_first_text by assumption. cbn [option_map fst].
  f_equal. destruct (print_head _ t Hok) as (c & x & -> & Hc & _). cbn [app].
  apply is_batch_w_head; assumption.
Qed.

Lemma bytes_trailing_ignored coerce zero run ms bs v r r' :
  parse_first bs = Some (v, r) ->
  match v with JNum _ => number_delim r = true /\ number_delim r' = true | _ => True end ->
  exists p, bs = p ++ r /\
            handle_bytes coerce zero run ms (p ++ r') = handle_bytes coerce zero run ms bs.
Proof.
  intros Hp Hd. destruct (parse_first_sound bs v r Hp) as (w & t & Hw & Hok & -> & <-).
  exists (w ++ print_wsj t). split; [rewrite <- app_assoc; reflexivity|].
  unfold handle_bytes. rewrite <- app_assoc.
  rewrite (input_trailing_ignored t w r' r); try assumption; try reflexivity.
  - destruct t; cbn [delim_ok]; try exact I. apply Hd.
  - destruct t; cbn [delim_ok]; try exact I. apply Hd.
Qed.
