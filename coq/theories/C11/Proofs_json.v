(* C11 — byte level, part 3: the value parser.  Totality (enough fuel is never exhausted, the result does
   not depend on the fuel), every text of the grammar — with arbitrary insignificant white space — is
   accepted and denotes its value (hence parse . print = id), the values produced are well-formed, and a
   request that isBatch takes for a batch parses to an array or not at all. *)
From Coq Require Import String.
From Coq Require Import List Ascii Bool NArith ZArith Arith Lia ZifyN ZifyNat ZifyBool.
From V Require Import C11.Json C11.Proofs_json_lex C11.Proofs_json_utf8.
Import ListNotations.

Ltac anorm := repeat progress (rewrite <- ?app_assoc; cbn [app]).
Ltac len := repeat (rewrite ?app_length in *; cbn [length] in * ); lia.

(* ================= what the three mutually recursive functions return ================= *)
Lemma p_elems_arr (f : fuel) : forall d acc bs v r, p_elems f d acc bs = POk v r -> exists l, v = JArr l.
Proof.
  induction f as [|u f IH]; intros d acc bs v r H; [discriminate|]. cbn [p_elems] in H.
  destruct (p_value f d bs) as [v1 r1| |]; try discriminate.
  destruct (skip_ws r1) as [|c r']; [discriminate|].
  destruct (is_byte c 44); [eapply IH; eassumption|].
  destruct (is_byte c 93); [|discriminate]. inversion H; subst. eauto.
Qed.

Lemma p_members_obj (f : fuel) : forall d acc bs v r, p_members f d acc bs = POk v r -> exists l, v = JObj l.
Proof.
  induction f as [|u f IH]; intros d acc bs v r H; [discriminate|]. cbn [p_members] in H.
  destruct (skip_ws bs) as [|q r0]; [discriminate|].
  destruct (is_byte q 34); [|discriminate].
  destruct (lex_string r0) as [[k r1]|]; [|discriminate].
  destruct (skip_ws r1) as [|c r2]; [discriminate|].
  destruct (is_byte c 58); [|discriminate].
  destruct (p_value f d r2) as [v1 r3| |]; try discriminate.
  destruct (skip_ws r3) as [|c' r4]; [discriminate|].
  destruct (is_byte c' 44); [eapply IH; eassumption|].
  destruct (is_byte c' 125); [|discriminate]. inversion H; subst. eauto.
Qed.

Lemma lit_rest_length lit : forall bs r, lit_rest lit bs = Some r -> length r <= length bs.
Proof.
  induction lit as [|x lit IH]; intros bs r H; simpl in H.
  - inversion H; subst. lia.
  - destruct bs as [|c bs]; [discriminate|]. destruct (Ascii.eqb x c); [|discriminate].
    apply IH in H. simpl. lia.
Qed.

Lemma skip_ws_cons_length bs c r : skip_ws bs = c :: r -> length r < length bs.
Proof. intros H. pose proof (skip_ws_length bs) as Hl. rewrite H in Hl. simpl in Hl. lia. Qed.

(* ---- every successful call consumes at least one byte and returns a suffix length-wise ---- *)
Lemma p_shorter (f : fuel) :
  (forall d bs v r, p_value f d bs = POk v r -> length r < length bs) /\
  (forall d acc bs v r, p_elems f d acc bs = POk v r -> length r < length bs) /\
  (forall d acc bs v r, p_members f d acc bs = POk v r -> length r < length bs).
Proof.
  induction f as [|u f (IHv & IHe & IHm)]; [repeat split; intros; discriminate|].
  repeat split.
  - intros d bs v r H. cbn [p_value] in H.
    destruct (skip_ws bs) as [|c r0] eqn:Es; [discriminate|]. apply skip_ws_cons_length in Es.
    destruct (is_byte c 34).
    { destruct (lex_string r0) as [[s r1]|] eqn:El; [|discriminate]. inversion H; subst.
      apply lex_string_shorter in El. lia. }
    destruct (is_byte c 91).
    { destruct d as [|d']; [discriminate|]. destruct (skip_ws r0) as [|c2 r2] eqn:E2; [discriminate|].
      destruct (is_byte c2 93).
      - inversion H; subst. apply skip_ws_cons_length in E2. lia.
      - apply IHe in H. lia. }
    destruct (is_byte c 123).
    { destruct d as [|d']; [discriminate|]. destruct (skip_ws r0) as [|c2 r2] eqn:E2; [discriminate|].
      destruct (is_byte c2 125).
      - inversion H; subst. apply skip_ws_cons_length in E2. lia.
      - apply IHm in H. lia. }
    destruct (is_byte c 110).
    { destruct (lit_rest _ r0) as [r1|] eqn:El; [|discriminate]. inversion H; subst. apply lit_rest_length in El. lia. }
    destruct (is_byte c 116).
    { destruct (lit_rest _ r0) as [r1|] eqn:El; [|discriminate]. inversion H; subst. apply lit_rest_length in El. lia. }
    destruct (is_byte c 102).
    { destruct (lit_rest _ r0) as [r1|] eqn:El; [|discriminate]. inversion H; subst. apply lit_rest_length in El. lia. }
    destruct (lex_number (c :: r0)) as [[s r1]|] eqn:El; [|discriminate]. inversion H; subst.
    apply lex_number_shorter in El. simpl in El. lia.
  - intros d acc bs v r H. cbn [p_elems] in H.
    destruct (p_value f d bs) as [v1 r1| |] eqn:Ev; try discriminate. apply IHv in Ev.
    destruct (skip_ws r1) as [|c r'] eqn:Es; [discriminate|]. apply skip_ws_cons_length in Es.
    destruct (is_byte c 44); [apply IHe in H; lia|].
    destruct (is_byte c 93); [|discriminate]. inversion H; subst. lia.
  - intros d acc bs v r H. cbn [p_members] in H.
    destruct (skip_ws bs) as [|q r0] eqn:E0; [discriminate|]. apply skip_ws_cons_length in E0.
    destruct (is_byte q 34); [|discriminate].
    destruct (lex_string r0) as [[k r1]|] eqn:El; [|discriminate]. apply lex_string_shorter in El.
    destruct (skip_ws r1) as [|c r2] eqn:E1; [discriminate|]. apply skip_ws_cons_length in E1.
    destruct (is_byte c 58); [|discriminate].
    destruct (p_value f d r2) as [v1 r3| |] eqn:Ev; try discriminate. apply IHv in Ev.
    destruct (skip_ws r3) as [|c' r4] eqn:E3; [discriminate|]. apply skip_ws_cons_length in E3.
    destruct (is_byte c' 44); [apply IHm in H; lia|].
    destruct (is_byte c' 125); [|discriminate]. inversion H; subst. lia.
Qed.

(* ================= totality ================= *)
Lemma fuel_enough (f : fuel) :
  (forall d bs, 2 * length bs + 1 <= length f -> p_value f d bs <> PFuel) /\
  (forall d acc bs, 2 * length bs + 2 <= length f -> p_elems f d acc bs <> PFuel) /\
  (forall d acc bs, 2 * length bs + 2 <= length f -> p_members f d acc bs <> PFuel).
Proof.
  induction f as [|u f (IHv & IHe & IHm)]; [repeat split; intros; simpl in *; lia|].
  destruct (p_shorter f) as (Sv & Se & Sm).
  repeat split.
  - intros d bs Hf. cbn [p_value]. cbn [length] in Hf.
    destruct (skip_ws bs) as [|c r0] eqn:Es; [discriminate|]. apply skip_ws_cons_length in Es.
    destruct (is_byte c 34). { destruct (lex_string r0) as [[s r1]|]; discriminate. }
    destruct (is_byte c 91).
    { destruct d as [|d']; [discriminate|]. destruct (skip_ws r0) as [|c2 r2]; [discriminate|].
      destruct (is_byte c2 93); [discriminate|]. apply IHe. lia. }
    destruct (is_byte c 123).
    { destruct d as [|d']; [discriminate|]. destruct (skip_ws r0) as [|c2 r2]; [discriminate|].
      destruct (is_byte c2 125); [discriminate|]. apply IHm. lia. }
    destruct (is_byte c 110). { destruct (lit_rest _ r0); discriminate. }
    destruct (is_byte c 116). { destruct (lit_rest _ r0); discriminate. }
    destruct (is_byte c 102). { destruct (lit_rest _ r0); discriminate. }
    destruct (lex_number (c :: r0)) as [[s r1]|]; discriminate.
  - intros d acc bs Hf. cbn [p_elems]. cbn [length] in Hf.
    destruct (p_value f d bs) as [v1 r1| |] eqn:Ev; [|discriminate|exfalso; revert Ev; apply IHv; lia].
    apply Sv in Ev. destruct (skip_ws r1) as [|c r'] eqn:Es; [discriminate|]. apply skip_ws_cons_length in Es.
    destruct (is_byte c 44); [apply IHe; lia|]. destruct (is_byte c 93); discriminate.
  - intros d acc bs Hf. cbn [p_members]. cbn [length] in Hf.
    destruct (skip_ws bs) as [|q r0] eqn:E0; [discriminate|]. apply skip_ws_cons_length in E0.
    destruct (is_byte q 34); [|discriminate].
    destruct (lex_string r0) as [[k r1]|] eqn:El; [|discriminate]. apply lex_string_shorter in El.
    destruct (skip_ws r1) as [|c r2] eqn:E1; [discriminate|]. apply skip_ws_cons_length in E1.
    destruct (is_byte c 58); [|discriminate].
    destruct (p_value f d r2) as [v1 r3| |] eqn:Ev; [|discriminate|exfalso; revert Ev; apply IHv; lia].
    apply Sv in Ev. destruct (skip_ws r3) as [|c' r4] eqn:E3; [discriminate|]. apply skip_ws_cons_length in E3.
    destruct (is_byte c' 44); [apply IHm; lia|]. destruct (is_byte c' 125); discriminate.
Qed.

Lemma fuel_for_acc_length bs : forall acc, length (fuel_for_acc acc bs) = 2 * length bs + 2 + length acc.
Proof. induction bs as [|c r IH]; intros acc; simpl; [lia|]. rewrite IH. simpl. lia. Qed.

Lemma fuel_for_length bs : length (fuel_for bs) = 2 * length bs + 2.
Proof. unfold fuel_for. rewrite fuel_for_acc_length. simpl. lia. Qed.

(* ---- more fuel never changes a result ---- *)
Lemma fuel_mono (f1 : fuel) : forall f2, length f1 <= length f2 ->
  (forall d bs, p_value f1 d bs <> PFuel -> p_value f2 d bs = p_value f1 d bs) /\
  (forall d acc bs, p_elems f1 d acc bs <> PFuel -> p_elems f2 d acc bs = p_elems f1 d acc bs) /\
  (forall d acc bs, p_members f1 d acc bs <> PFuel -> p_members f2 d acc bs = p_members f1 d acc bs).
Proof.
  induction f1 as [|u f1 IH]; intros f2 Hl; [repeat split; intros; simpl in *; congruence|].
  destruct f2 as [|u2 f2]; [simpl in Hl; lia|]. simpl in Hl. apply le_S_n in Hl.
  destruct (IH f2 Hl) as (IHv & IHe & IHm). repeat split.
  - intros d bs H. cbn [p_value] in *.
    destruct (skip_ws bs) as [|c r0]; [reflexivity|].
    destruct (is_byte c 34); [reflexivity|].
    destruct (is_byte c 91).
    { destruct d as [|d']; [reflexivity|]. destruct (skip_ws r0) as [|c2 r2]; [reflexivity|].
      destruct (is_byte c2 93); [reflexivity|]. apply IHe. exact H. }
    destruct (is_byte c 123).
    { destruct d as [|d']; [reflexivity|]. destruct (skip_ws r0) as [|c2 r2]; [reflexivity|].
      destruct (is_byte c2 125); [reflexivity|]. apply IHm. exact H. }
    reflexivity.
  - intros d acc bs H. cbn [p_elems] in *.
    destruct (p_value f1 d bs) as [v1 r1| |] eqn:Ev; [| |congruence].
    + rewrite IHv by congruence. rewrite Ev.
      destruct (skip_ws r1) as [|c r']; [reflexivity|].
      destruct (is_byte c 44); [apply IHe; exact H|reflexivity].
    + rewrite IHv by congruence. rewrite Ev. reflexivity.
  - intros d acc bs H. cbn [p_members] in *.
    destruct (skip_ws bs) as [|q r0]; [reflexivity|].
    destruct (is_byte q 34); [|reflexivity].
    destruct (lex_string r0) as [[k r1]|]; [|reflexivity].
    destruct (skip_ws r1) as [|c r2]; [reflexivity|].
    destruct (is_byte c 58); [|reflexivity].
    destruct (p_value f1 d r2) as [v1 r3| |] eqn:Ev; [| |congruence].
    + rewrite IHv by congruence. rewrite Ev.
      destruct (skip_ws r3) as [|c' r4]; [reflexivity|].
      destruct (is_byte c' 44); [apply IHm; exact H|reflexivity].
    + rewrite IHv by congruence. rewrite Ev. reflexivity.
Qed.

(* the parser is total, and the verdict is the same for every sufficient amount of fuel *)
Lemma p_value_total f d bs : 2 * length bs + 1 <= length f -> p_value f d bs <> PFuel.
Proof. apply (fuel_enough f). Qed.

Lemma p_value_fuel_indep f1 f2 d bs :
  2 * length bs + 1 <= length f1 -> 2 * length bs + 1 <= length f2 -> p_value f1 d bs = p_value f2 d bs.
Proof.
  intros H1 H2. destruct (le_ge_dec (length f1) (length f2)) as [Hle|Hle].
  - symmetry. apply (fuel_mono f1 f2 Hle). apply p_value_total. exact H1.
  - apply (fuel_mono f2 f1 Hle). apply p_value_total. exact H2.
Qed.

Lemma parse_first_fuel f bs :
  2 * length bs + 1 <= length f ->
  parse_first bs = match p_value f max_depth bs with POk v r => Some (v, r) | _ => None end.
Proof.
  intros H. unfold parse_first. rewrite (p_value_fuel_indep (fuel_for bs) f); [reflexivity| |exact H].
  rewrite fuel_for_length. lia.
Qed.

Lemma parse_first_total bs : p_value (fuel_for bs) max_depth bs <> PFuel.
Proof. apply p_value_total. rewrite fuel_for_length. lia. Qed.

Lemma parse_first_suffix bs v r : parse_first bs = Some (v, r) -> length r < length bs.
Proof.
  unfold parse_first. destruct (p_value (fuel_for bs) max_depth bs) as [v1 r1| |] eqn:E; try discriminate.
  intros H; inversion H; subst. destruct (p_shorter (fuel_for bs)) as (Sv & _ & _). eapply Sv; eassumption.
Qed.

(* ================= a request taken for a batch is an array or does not parse ================= *)
Lemma p_value_bracket f d bs c r v rest :
  skip_ws bs = c :: r -> is_byte c 91 = true -> p_value f d bs = POk v rest -> exists l, v = JArr l.
Proof.
  intros Hs Hc H. destruct f as [|u f]; [discriminate|]. cbn [p_value] in H. rewrite Hs in H.
  replace (is_byte c 34) with false in H by (symmetry; bytes). rewrite Hc in H.
  destruct d as [|d']; [discriminate|]. destruct (skip_ws r) as [|c2 r2]; [discriminate|].
  destruct (is_byte c2 93).
  - inversion H; subst. eauto.
  - eapply p_elems_arr; eassumption.
Qed.

Lemma batch_parses_to_array bs v :
  is_batch bs = true -> parse bs = Some v -> exists l, v = JArr l.
Proof.
  intros Hb Hp. apply is_batch_skip_ws in Hb as (c & r & Hs & Hc).
  unfold parse, parse_first in Hp.
  destruct (p_value (fuel_for bs) max_depth bs) as [v1 r1| |] eqn:E; try discriminate.
  simpl in Hp. inversion Hp; subst. eapply p_value_bracket; eassumption.
Qed.

(* conversely: an array text always starts (after white space) with '[' *)
Lemma p_value_array_bracket f d bs l rest :
  p_value f d bs = POk (JArr l) rest -> exists r, skip_ws bs = byte_of 91 :: r.
Proof.
  intros H. destruct f as [|u f]; [discriminate|]. cbn [p_value] in H.
  destruct (skip_ws bs) as [|c r0]; [discriminate|].
  destruct (is_byte c 34). { destruct (lex_string r0) as [[s r1]|]; [inversion H|discriminate]. }
  destruct (is_byte c 91) eqn:E91. { apply is_byte_eq in E91. subst. eauto. }
  destruct (is_byte c 123).
  { destruct d as [|d']; [discriminate|]. destruct (skip_ws r0) as [|c2 r2]; [discriminate|].
    destruct (is_byte c2 125); [inversion H|]. apply p_members_obj in H as [l' Hl]. discriminate. }
  destruct (is_byte c 110). { destruct (lit_rest _ r0); [inversion H|discriminate]. }
  destruct (is_byte c 116). { destruct (lit_rest _ r0); [inversion H|discriminate]. }
  destruct (is_byte c 102). { destruct (lit_rest _ r0); [inversion H|discriminate]. }
  destruct (lex_number (c :: r0)) as [[s r1]|]; [inversion H|discriminate].
Qed.

(* ================= the values produced are well-formed ================= *)
Lemma forallb_rev {A : Type} (p : A -> bool) (l : list A) : forallb p (rev l) = forallb p l.
Proof.
  induction l as [|x l IH]; [reflexivity|]. simpl. rewrite forallb_app, IH. simpl.
  rewrite andb_true_r. apply andb_comm.
Qed.

Lemma p_wf (f : fuel) :
  (forall d bs v r, p_value f d bs = POk v r -> json_wf d v = true) /\
  (forall d acc bs v r, p_elems f d acc bs = POk v r -> forallb (json_wf d) acc = true -> json_wf (S d) v = true) /\
  (forall d acc bs v r, p_members f d acc bs = POk v r ->
     forallb (fun kv : str * json => utf8_ok (fst kv) && json_wf d (snd kv)) acc = true -> json_wf (S d) v = true).
Proof.
  induction f as [|u f (IHv & IHe & IHm)]; [repeat split; intros; discriminate|].
  repeat split.
  - intros d bs v r H. cbn [p_value] in H.
    destruct (skip_ws bs) as [|c r0]; [discriminate|].
    destruct (is_byte c 34).
    { destruct (lex_string r0) as [[s r1]|] eqn:El; [|discriminate]. inversion H; subst.
      apply lex_string_sound in El as (body & q & _ & _ & _ & ->). cbn [json_wf].
      apply utf8_ok_iff, unquote_utf8. }
    destruct (is_byte c 91).
    { destruct d as [|d']; [discriminate|]. destruct (skip_ws r0) as [|c2 r2]; [discriminate|].
      destruct (is_byte c2 93); [inversion H; reflexivity|]. eapply IHe; [eassumption|reflexivity]. }
    destruct (is_byte c 123).
    { destruct d as [|d']; [discriminate|]. destruct (skip_ws r0) as [|c2 r2]; [discriminate|].
      destruct (is_byte c2 125); [inversion H; reflexivity|]. eapply IHm; [eassumption|reflexivity]. }
    destruct (is_byte c 110). { destruct (lit_rest _ r0); [inversion H; reflexivity|discriminate]. }
    destruct (is_byte c 116). { destruct (lit_rest _ r0); [inversion H; reflexivity|discriminate]. }
    destruct (is_byte c 102). { destruct (lit_rest _ r0); [inversion H; reflexivity|discriminate]. }
    destruct (lex_number (c :: r0)) as [[s r1]|] eqn:El; [|discriminate]. inversion H; subst.
    apply lex_number_sound in El as [Hn _]. cbn [json_wf]. apply number_ok_iff. exact Hn.
  - intros d acc bs v r H Hacc. cbn [p_elems] in H.
    destruct (p_value f d bs) as [v1 r1| |] eqn:Ev; try discriminate. apply IHv in Ev.
    destruct (skip_ws r1) as [|c r']; [discriminate|].
    destruct (is_byte c 44).
    { eapply IHe; [eassumption|]. simpl. rewrite Ev, Hacc. reflexivity. }
    destruct (is_byte c 93); [|discriminate]. inversion H; subst.
    cbn [json_wf]. rewrite rev'_rev, forallb_rev. simpl. rewrite Ev, Hacc. reflexivity.
  - intros d acc bs v r H Hacc. cbn [p_members] in H.
    destruct (skip_ws bs) as [|q r0]; [discriminate|].
    destruct (is_byte q 34); [|discriminate].
    destruct (lex_string r0) as [[k r1]|] eqn:El; [|discriminate].
    apply lex_string_sound in El as (body & q' & _ & _ & _ & ->).
    assert (Hk : utf8_ok (unquote body) = true) by apply utf8_ok_iff, unquote_utf8.
    destruct (skip_ws r1) as [|c r2]; [discriminate|].
    destruct (is_byte c 58); [|discriminate].
    destruct (p_value f d r2) as [v1 r3| |] eqn:Ev; try discriminate. apply IHv in Ev.
    destruct (skip_ws r3) as [|c' r4]; [discriminate|].
    destruct (is_byte c' 44).
    { eapply IHm; [eassumption|]. simpl. rewrite Hk, Ev, Hacc. reflexivity. }
    destruct (is_byte c' 125); [|discriminate]. inversion H; subst.
    cbn [json_wf]. rewrite rev'_rev, forallb_rev. simpl. rewrite Hk, Ev, Hacc. reflexivity.
Qed.

Lemma parse_first_wf bs v r : parse_first bs = Some (v, r) -> json_wf max_depth v = true.
Proof.
  unfold parse_first. destruct (p_value (fuel_for bs) max_depth bs) as [v1 r1| |] eqn:E; try discriminate.
  intros H; inversion H; subst. destruct (p_wf (fuel_for bs)) as (Sv & _ & _). eapply Sv; eassumption.
Qed.

(* ================= every text of the grammar is accepted and denotes its value ================= *)
Definition elem_txt (e : str * wsj * str) : str := fst (fst e) ++ print_wsj (snd (fst e)) ++ snd e.
Definition mem_txt (m : (str * str * str) * (str * wsj * str)) : str :=
  fst (fst (fst m)) ++ q34 :: snd (fst (fst m)) ++ q34 :: snd (fst m) ++ byte_of 58 ::
  fst (fst (snd m)) ++ print_wsj (snd (fst (snd m))) ++ snd (snd m).
Definition elem_ok (d : nat) (e : str * wsj * str) : bool :=
  all_ws (fst (fst e)) && wsj_ok d (snd (fst e)) && all_ws (snd e).
Definition mem_ok (d : nat) (m : (str * str * str) * (str * wsj * str)) : bool :=
  all_ws (fst (fst (fst m))) && body_ok (snd (fst (fst m))) && all_ws (snd (fst m))
  && all_ws (fst (fst (snd m))) && wsj_ok d (snd (fst (snd m))) && all_ws (snd (snd m)).

Lemma print_arr w es :
  print_wsj (WArr w es) = byte_of 91 :: w ++ join_with (byte_of 44) (map elem_txt es) ++ [byte_of 93].
Proof. reflexivity. Qed.
Lemma print_obj w ms :
  print_wsj (WObj w ms) = byte_of 123 :: w ++ join_with (byte_of 44) (map mem_txt ms) ++ [byte_of 125].
Proof. reflexivity. Qed.
Lemma wsj_ok_arr d w es : wsj_ok (S d) (WArr w es) = all_ws w && forallb (elem_ok d) es.
Proof. reflexivity. Qed.
Lemma wsj_ok_obj d w ms : wsj_ok (S d) (WObj w ms) = all_ws w && forallb (mem_ok d) ms.
Proof. reflexivity. Qed.

Lemma p_value_eq u f d bs :
  p_value (u :: f) d bs =
  match skip_ws bs with
  | [] => PBad
  | c :: r =>
      if is_byte c 34 then match lex_string r with Some (s, r') => POk (JStr s) r' | None => PBad end
      else if is_byte c 91 then
        match d with
        | O => PBad
        | S d' => match skip_ws r with
                  | c2 :: r2 => if is_byte c2 93 then POk (JArr []) r2 else p_elems f d' [] r
                  | [] => PBad
                  end
        end
      else if is_byte c 123 then
        match d with
        | O => PBad
        | S d' => match skip_ws r with
                  | c2 :: r2 => if is_byte c2 125 then POk (JObj []) r2 else p_members f d' [] r
                  | [] => PBad
                  end
        end
      else if is_byte c 110 then match lit_rest L"ull" r with Some r' => POk JNull r' | None => PBad end
      else if is_byte c 116 then match lit_rest L"rue" r with Some r' => POk (JBool true) r' | None => PBad end
      else if is_byte c 102 then match lit_rest L"alse" r with Some r' => POk (JBool false) r' | None => PBad end
      else match lex_number (c :: r) with Some (s, r') => POk (JNum s) r' | None => PBad end
  end.
Proof. reflexivity. Qed.

Lemma p_elems_eq u f d acc bs :
  p_elems (u :: f) d acc bs =
  match p_value f d bs with
  | POk v r =>
      match skip_ws r with
      | c :: r' => if is_byte c 44 then p_elems f d (v :: acc) r'
                   else if is_byte c 93 then POk (JArr (rev' (v :: acc))) r' else PBad
      | [] => PBad
      end
  | PBad => PBad
  | PFuel => PFuel
  end.
Proof. reflexivity. Qed.

Lemma p_members_eq u f d acc bs :
  p_members (u :: f) d acc bs =
  match skip_ws bs with
  | q :: r =>
      if is_byte q 34 then
        match lex_string r with
        | Some (k, r1) =>
            match skip_ws r1 with
            | c :: r2 =>
                if is_byte c 58 then
                  match p_value f d r2 with
                  | POk v r3 =>
                      match skip_ws r3 with
                      | c' :: r4 => if is_byte c' 44 then p_members f d ((k, v) :: acc) r4
                                    else if is_byte c' 125 then POk (JObj (rev' ((k, v) :: acc))) r4 else PBad
                      | [] => PBad
                      end
                  | PBad => PBad
                  | PFuel => PFuel
                  end
                else PBad
            | [] => PBad
            end
        | None => PBad
        end
      else PBad
  | [] => PBad
  end.
Proof. reflexivity. Qed.

Definition delim_ok (t : wsj) (rest : str) : Prop :=
  match t with WNum _ => number_delim rest = true | _ => True end.

Lemma all_ws_app a b : all_ws (a ++ b) = all_ws a && all_ws b.
Proof. apply forallb_app. Qed.

(* white space followed by a structural byte ends a number *)
Lemma number_delim_ws b c r :
  all_ws b = true -> (is_digit c || is_byte c 46 || is_e c) = false -> number_delim (b ++ c :: r) = true.
Proof.
  intros Hb Hc. destruct b as [|x b]; simpl.
  - rewrite Hc. reflexivity.
  - simpl in Hb. apply andb_true_iff in Hb as [Hx _]. rewrite negb_true_iff. bytes.
Qed.

(* the first byte of a text: not white space, not a closing bracket *)
Lemma print_head d t : wsj_ok d t = true ->
  exists c r, print_wsj t = c :: r /\ is_ws c = false /\ is_byte c 93 = false /\ is_byte c 125 = false.
Proof.
  destruct t as [| | |s|body|w es|w ms]; intros H;
    try (eexists _, _; split; [reflexivity|repeat split; reflexivity]).
  cbn [wsj_ok] in H. apply number_ok_iff, number_head in H as (c & r & -> & Hc).
  exists c, r. split; [reflexivity|]. destruct Hc; repeat split; bytes.
Qed.

Definition Pv (t : wsj) : Prop :=
  forall d, wsj_ok d t = true -> forall f w rest, all_ws w = true -> delim_ok t rest ->
    2 * length (w ++ print_wsj t ++ rest) + 1 <= length f ->
    p_value f d (w ++ print_wsj t ++ rest) = POk (erase t) rest.

Lemma skip_ws_ws_then b c r : all_ws b = true -> is_ws c = false -> skip_ws (b ++ c :: r) = c :: r.
Proof. intros Hb Hc. rewrite skip_ws_app by assumption. apply skip_ws_nonws. assumption. Qed.

Lemma p_elems_complete d es :
  Forall (fun e : str * wsj * str => Pv (snd (fst e))) es ->
  forallb (elem_ok d) es = true -> es <> [] ->
  forall f acc w rest, all_ws w = true ->
    2 * length (w ++ join_with (byte_of 44) (map elem_txt es) ++ byte_of 93 :: rest) + 2 <= length f ->
    p_elems f d acc (w ++ join_with (byte_of 44) (map elem_txt es) ++ byte_of 93 :: rest)
    = POk (JArr (rev acc ++ map (fun e : str * wsj * str => erase (snd (fst e))) es)) rest.
Proof.
  induction 1 as [|[[a v] b] es Hv Hes IH]; intros Hok Hne f acc w rest Hw Hf; [congruence|].
  cbn [forallb] in Hok. apply andb_true_iff in Hok as [He Hok]. unfold elem_ok in He. cbn [fst snd] in He, Hv.
  apply andb_true_iff in He as [He Hb]. apply andb_true_iff in He as [Ha Hvok].
  destruct f as [|u f]; [simpl in Hf; lia|]. rewrite p_elems_eq.
  destruct es as [|e2 es].
  - cbn [map join_with]. unfold elem_txt. cbn [fst snd].
    anorm. rewrite (app_assoc w a).
    rewrite (Hv d Hvok f (w ++ a) (b ++ byte_of 93 :: rest)).
    + rewrite skip_ws_ws_then by (assumption || reflexivity).
      change (is_byte (byte_of 93) 44) with false. change (is_byte (byte_of 93) 93) with true. cbv iota.
      rewrite rev'_rev. cbn [map rev]. reflexivity.
    + rewrite all_ws_app, Hw, Ha. reflexivity.
    + destruct v; cbn [delim_ok]; try exact I. apply number_delim_ws; [assumption|reflexivity].
    + revert Hf. cbn [map join_with]. unfold elem_txt. cbn [fst snd]. len.
  - change (join_with (byte_of 44) (map elem_txt ((a, v, b) :: e2 :: es)))
      with (elem_txt (a, v, b) ++ byte_of 44 :: join_with (byte_of 44) (map elem_txt (e2 :: es))) in *.
    unfold elem_txt at 1. unfold elem_txt at 1 in Hf. cbn [fst snd] in *.
    anorm. rewrite (app_assoc w a).
    rewrite (Hv d Hvok f (w ++ a) (b ++ byte_of 44 :: join_with (byte_of 44) (map elem_txt (e2 :: es)) ++ byte_of 93 :: rest)).
    + rewrite skip_ws_ws_then by (assumption || reflexivity).
      change (is_byte (byte_of 44) 44) with true. cbv iota.
      pose proof (IH Hok ltac:(congruence) f (erase v :: acc) [] rest eq_refl) as Hx. cbn [app] in Hx. rewrite Hx.
      * cbn [rev map app]. rewrite <- app_assoc. reflexivity.
      * revert Hf. len.
    + rewrite all_ws_app, Hw, Ha. reflexivity.
    + destruct v; cbn [delim_ok]; try exact I. apply number_delim_ws; [assumption|reflexivity].
    + revert Hf. len.
Qed.

Lemma p_members_complete d ms :
  Forall (fun m : (str * str * str) * (str * wsj * str) => Pv (snd (fst (snd m)))) ms ->
  forallb (mem_ok d) ms = true -> ms <> [] ->
  forall f acc w rest, all_ws w = true ->
    2 * length (w ++ join_with (byte_of 44) (map mem_txt ms) ++ byte_of 125 :: rest) + 2 <= length f ->
    p_members f d acc (w ++ join_with (byte_of 44) (map mem_txt ms) ++ byte_of 125 :: rest)
    = POk (JObj (rev acc ++ map (fun m : (str * str * str) * (str * wsj * str) =>
                                   (unquote (snd (fst (fst m))), erase (snd (fst (snd m))))) ms)) rest.
Proof.
  induction 1 as [|[[[a k] b] [[c v] dd]] ms Hv Hms IH]; intros Hok Hne f acc w rest Hw Hf; [congruence|].
  cbn [forallb] in Hok. apply andb_true_iff in Hok as [He Hok]. unfold mem_ok in He. cbn [fst snd] in He, Hv.
  apply andb_true_iff in He as [He Hdd]. apply andb_true_iff in He as [He Hvok].
  apply andb_true_iff in He as [He Hc]. apply andb_true_iff in He as [He Hb]. apply andb_true_iff in He as [Ha Hk].
  apply body_ok_iff in Hk.
  destruct f as [|u f]; [simpl in Hf; lia|]. rewrite p_members_eq.
  destruct ms as [|m2 ms].
  - cbn [map join_with]. unfold mem_txt. cbn [fst snd].
    anorm.
    rewrite (app_assoc w a). rewrite skip_ws_ws_then by (rewrite ?all_ws_app, ?Hw, ?Ha; reflexivity).
    change (is_byte q34 34) with true. cbv iota.
    rewrite (lex_string_accept k q34 _ Hk q34_quote).
    rewrite skip_ws_ws_then by (assumption || reflexivity).
    change (is_byte (byte_of 58) 58) with true. cbv iota.
    rewrite (Hv d Hvok f c (dd ++ byte_of 125 :: rest)).
    + rewrite skip_ws_ws_then by (assumption || reflexivity).
      change (is_byte (byte_of 125) 44) with false. change (is_byte (byte_of 125) 125) with true. cbv iota.
      rewrite rev'_rev. cbn [map rev]. reflexivity.
    + assumption.
    + destruct v; cbn [delim_ok]; try exact I. apply number_delim_ws; [assumption|reflexivity].
    + revert Hf. cbn [map join_with]. unfold mem_txt. cbn [fst snd]. len.
  - change (join_with (byte_of 44) (map mem_txt ((a, k, b, (c, v, dd)) :: m2 :: ms)))
      with (mem_txt (a, k, b, (c, v, dd)) ++ byte_of 44 :: join_with (byte_of 44) (map mem_txt (m2 :: ms))) in *.
    unfold mem_txt at 1. unfold mem_txt at 1 in Hf. cbn [fst snd] in *.
    anorm.
    rewrite (app_assoc w a). rewrite skip_ws_ws_then by (rewrite ?all_ws_app, ?Hw, ?Ha; reflexivity).
    change (is_byte q34 34) with true. cbv iota.
    rewrite (lex_string_accept k q34 _ Hk q34_quote).
    rewrite skip_ws_ws_then by (assumption || reflexivity).
    change (is_byte (byte_of 58) 58) with true. cbv iota.
    rewrite (Hv d Hvok f c (dd ++ byte_of 44 :: join_with (byte_of 44) (map mem_txt (m2 :: ms)) ++ byte_of 125 :: rest)).
    + rewrite skip_ws_ws_then by (assumption || reflexivity).
      change (is_byte (byte_of 44) 44) with true. cbv iota.
      pose proof (IH Hok ltac:(congruence) f ((unquote k, erase v) :: acc) [] rest eq_refl) as Hx. cbn [app] in Hx. rewrite Hx.
      * cbn [rev map app fst snd]. rewrite <- app_assoc. reflexivity.
      * revert Hf. len.
    + assumption.
    + destruct v; cbn [delim_ok]; try exact I. apply number_delim_ws; [assumption|reflexivity].
    + revert Hf. len.
Qed.

(* induction principle for the nested type of texts *)
Section WsjInd.
  Variable P : wsj -> Prop.
  Hypothesis HNull : P WNull.
  Hypothesis HTrue : P WTrue.
  Hypothesis HFalse : P WFalse.
  Hypothesis HNum : forall s, P (WNum s).
  Hypothesis HStr : forall s, P (WStr s).
  Hypothesis HArr : forall w es, Forall (fun e : str * wsj * str => P (snd (fst e))) es -> P (WArr w es).
  Hypothesis HObj : forall w ms,
    Forall (fun m : (str * str * str) * (str * wsj * str) => P (snd (fst (snd m)))) ms -> P (WObj w ms).

  Fixpoint wsj_ind' (t : wsj) : P t :=
    match t with
    | WNull => HNull
    | WTrue => HTrue
    | WFalse => HFalse
    | WNum s => HNum s
    | WStr s => HStr s
    | WArr w es =>
        HArr w es ((fix go (l : list (str * wsj * str)) : Forall (fun e : str * wsj * str => P (snd (fst e))) l :=
                      match l with
                      | [] => Forall_nil _
                      | e :: r => Forall_cons e (wsj_ind' (snd (fst e))) (go r)
                      end) es)
    | WObj w ms =>
        HObj w ms ((fix go (l : list ((str * str * str) * (str * wsj * str)))
                      : Forall (fun m : (str * str * str) * (str * wsj * str) => P (snd (fst (snd m)))) l :=
                      match l with
                      | [] => Forall_nil _
                      | m :: r => Forall_cons m (wsj_ind' (snd (fst (snd m)))) (go r)
                      end) ms)
    end.
End WsjInd.

Lemma p_value_complete t : Pv t.
Proof.
  induction t as [| | |s|body|w1 es IH|w1 ms IH] using wsj_ind'; intros d Hok f w rest Hw Hd Hf;
    (destruct f as [|u f]; [simpl in Hf; lia|]); rewrite p_value_eq.
  - cbn [print_wsj app]. rewrite skip_ws_ws_then by (assumption || reflexivity). reflexivity.
  - cbn [print_wsj app]. rewrite skip_ws_ws_then by (assumption || reflexivity). reflexivity.
  - cbn [print_wsj app]. rewrite skip_ws_ws_then by (assumption || reflexivity). reflexivity.
  - cbn [print_wsj erase]. cbn [wsj_ok] in Hok. apply number_ok_iff in Hok.
    destruct (number_head s Hok) as (c & r & Hs & Hc). rewrite Hs. cbn [app].
    rewrite skip_ws_ws_then by (assumption || (destruct Hc; bytes)).
    replace (is_byte c 34) with false by (symmetry; destruct Hc; bytes).
    replace (is_byte c 91) with false by (symmetry; destruct Hc; bytes).
    replace (is_byte c 123) with false by (symmetry; destruct Hc; bytes).
    replace (is_byte c 110) with false by (symmetry; destruct Hc; bytes).
    replace (is_byte c 116) with false by (symmetry; destruct Hc; bytes).
    replace (is_byte c 102) with false by (symmetry; destruct Hc; bytes).
    change (c :: r ++ rest) with ((c :: r) ++ rest). rewrite <- Hs.
    rewrite (lex_number_accept s rest Hok Hd). reflexivity.
  - cbn [print_wsj erase]. cbn [wsj_ok] in Hok. apply body_ok_iff in Hok.
    anorm.
    rewrite skip_ws_ws_then by (assumption || reflexivity).
    change (is_byte q34 34) with true. cbv iota.
    rewrite (lex_string_accept body q34 rest Hok q34_quote). reflexivity.
  - destruct d as [|d]; [discriminate|]. rewrite wsj_ok_arr in Hok. apply andb_true_iff in Hok as [Hw1 Hes].
    rewrite print_arr in *. anorm.
    rewrite skip_ws_ws_then by (assumption || reflexivity).
    change (is_byte (byte_of 91) 34) with false. change (is_byte (byte_of 91) 91) with true. cbv iota.
    destruct es as [|e es].
    + cbn [map join_with app]. rewrite skip_ws_ws_then by (assumption || reflexivity).
      change (is_byte (byte_of 93) 93) with true. reflexivity.
    + assert (Hsk : exists c2 r2, skip_ws (w1 ++ join_with (byte_of 44) (map elem_txt (e :: es)) ++ byte_of 93 :: rest) = c2 :: r2
                                  /\ is_byte c2 93 = false).
      { destruct e as [[a v] b]. cbn [forallb] in Hes. apply andb_true_iff in Hes as [He _].
        unfold elem_ok in He. cbn [fst snd] in He.
        apply andb_true_iff in He as [He _]. apply andb_true_iff in He as [Ha Hv].
        destruct (print_head d v Hv) as (c2 & r2 & Hp & Hc2 & H93 & _).
        assert (Hj : exists tl, join_with (byte_of 44) (map elem_txt ((a, v, b) :: es)) = a ++ c2 :: tl).
        { destruct es; cbn [map join_with]; unfold elem_txt at 1; cbn [fst snd]; rewrite Hp; cbn [app];
            eexists; rewrite <- ?app_assoc; cbn [app]; reflexivity. }
        destruct Hj as [tl ->]. rewrite <- app_assoc. cbn [app]. rewrite (app_assoc w1 a).
        rewrite skip_ws_ws_then by (rewrite ?all_ws_app, ?Hw1, ?Ha; auto). eauto. }
      destruct Hsk as (c2 & r2 & -> & ->).
      rewrite (p_elems_complete d (e :: es) IH Hes ltac:(congruence) f [] w1 rest Hw1).
      * reflexivity.
      * revert Hf. len.
  - destruct d as [|d]; [discriminate|]. rewrite wsj_ok_obj in Hok. apply andb_true_iff in Hok as [Hw1 Hms].
    rewrite print_obj in *. anorm.
    rewrite skip_ws_ws_then by (assumption || reflexivity).
    change (is_byte (byte_of 123) 34) with false. change (is_byte (byte_of 123) 91) with false.
    change (is_byte (byte_of 123) 123) with true. cbv iota.
    destruct ms as [|m ms].
    + cbn [map join_with app]. rewrite skip_ws_ws_then by (assumption || reflexivity).
      change (is_byte (byte_of 125) 125) with true. reflexivity.
    + assert (Hsk : exists c2 r2, skip_ws (w1 ++ join_with (byte_of 44) (map mem_txt (m :: ms)) ++ byte_of 125 :: rest) = c2 :: r2
                                  /\ is_byte c2 125 = false).
      { destruct m as [[[a k] b] [[c v] dd]]. cbn [forallb] in Hms. apply andb_true_iff in Hms as [He _].
        unfold mem_ok in He. cbn [fst snd] in He. repeat (apply andb_true_iff in He as [He _]).
        assert (Hj : exists tl, join_with (byte_of 44) (map mem_txt ((a, k, b, (c, v, dd)) :: ms)) = a ++ q34 :: tl).
        { destruct ms; cbn [map join_with]; unfold mem_txt at 1; cbn [fst snd];
            eexists; rewrite <- ?app_assoc; cbn [app]; reflexivity. }
        destruct Hj as [tl ->]. rewrite <- app_assoc. cbn [app]. rewrite (app_assoc w1 a).
        rewrite skip_ws_ws_then by (rewrite ?all_ws_app, ?Hw1, ?He; auto). eauto. }
      destruct Hsk as (c2 & r2 & -> & ->).
      rewrite (p_members_complete d (m :: ms) IH Hms ltac:(congruence) f [] w1 rest Hw1).
      * reflexivity.
      * revert Hf. len.
Qed.

(* ---- top level ---- *)
Theorem parse_first_text t w rest :
  wsj_ok max_depth t = true -> all_ws w = true -> delim_ok t rest ->
  parse_first (w ++ print_wsj t ++ rest) = Some (erase t, rest).
Proof.
  intros Hok Hw Hd. unfold parse_first.
  rewrite (p_value_complete t max_depth Hok (fuel_for _) w rest Hw Hd); [reflexivity|].
  rewrite fuel_for_length. lia.
Qed.

(* any amount of insignificant white space, anywhere the grammar allows it, before and after *)
Lemma delim_ok_ws t w' : all_ws w' = true -> delim_ok t w'.
Proof.
  intros H. destruct t; cbn [delim_ok]; try exact I. destruct w' as [|c r]; [reflexivity|].
  simpl in H. apply andb_true_iff in H as [Hc _]. cbn [number_delim]. rewrite negb_true_iff. bytes.
Qed.

Theorem parse_text_ws t w w' :
  wsj_ok max_depth t = true -> all_ws w = true -> all_ws w' = true ->
  parse (w ++ print_wsj t ++ w') = Some (erase t).
Proof.
  intros Hok Hw Hw'. unfold parse. rewrite parse_first_text by (assumption || apply delim_ok_ws; assumption).
  reflexivity.
Qed.

(* two layouts of the same value parse alike *)
Theorem parse_ws_insensitive t1 t2 w1 w1' w2 w2' :
  wsj_ok max_depth t1 = true -> wsj_ok max_depth t2 = true -> erase t1 = erase t2 ->
  all_ws w1 = true -> all_ws w1' = true -> all_ws w2 = true -> all_ws w2' = true ->
  parse (w1 ++ print_wsj t1 ++ w1') = parse (w2 ++ print_wsj t2 ++ w2').
Proof. intros. rewrite !parse_text_ws by assumption. congruence. Qed.
