(* C11 — byte level, part 1: byte classes, white space, the number lexer and the string scanner accept
   exactly their grammars, the batch-detection function is exact. *)
From Coq Require Import List Ascii Bool NArith Arith Lia ZifyN ZifyNat ZifyBool.
From V Require Import C11.Json.
Import ListNotations.

Ltac cls := unfold is_ws, is_digit, is_digit19, is_hex, is_e, is_sign, in_range, is_byte in *.
Ltac bytes := cls; lia.
Ltac lnorm := simpl; repeat (rewrite ?rev_app_distr, <- ?app_assoc; simpl); try reflexivity.

(* ---------- generic ---------- *)
Lemma rev'_rev {A : Type} (l : list A) : rev' l = rev l.
Proof. unfold rev'. rewrite rev_append_rev. apply app_nil_r. Qed.

Lemma is_byte_eq (c : ascii) (n : N) : is_byte c n = true -> c = ascii_of_N n.
Proof.
  unfold is_byte. intros H. apply N.eqb_eq in H. rewrite <- H. symmetry. apply ascii_N_embedding.
Qed.

Lemma byte_of_N (n : N) : (n < 256)%N -> N_of_ascii (byte_of n) = n.
Proof. intros. unfold byte_of. apply N_ascii_embedding. assumption. Qed.

Lemma N_of_ascii_lt (c : ascii) : (N_of_ascii c < 256)%N.
Proof. apply N_ascii_bounded. Qed.

(* ---------- white space ---------- *)
Lemma skip_ws_app (w r : str) : all_ws w = true -> skip_ws (w ++ r) = skip_ws r.
Proof.
  induction w as [|c w IH]; simpl; [reflexivity|].
  intros H. apply andb_true_iff in H as [Hc Hw]. rewrite Hc. auto.
Qed.

Lemma skip_ws_nonws (c : ascii) (r : str) : is_ws c = false -> skip_ws (c :: r) = c :: r.
Proof. intros H. simpl. rewrite H. reflexivity. Qed.

Lemma skip_ws_decomp (bs : str) :
  exists w, all_ws w = true /\ bs = w ++ skip_ws bs /\
            match skip_ws bs with [] => True | c :: _ => is_ws c = false end.
Proof.
  induction bs as [|c r IH]; simpl.
  - exists []. auto.
  - destruct (is_ws c) eqn:E.
    + destruct IH as (w & Hw & He & Hh). exists (c :: w). simpl. rewrite E, Hw.
      split; [reflexivity|]. split; [f_equal; exact He | exact Hh].
    + exists []. simpl. rewrite E. auto.
Qed.

Lemma skip_ws_length (bs : str) : length (skip_ws bs) <= length bs.
Proof. induction bs as [|c r IH]; simpl; [lia|]. destruct (is_ws c); simpl; lia. Qed.

Lemma skip_ws_idem (bs : str) : skip_ws (skip_ws bs) = skip_ws bs.
Proof.
  induction bs as [|c r IH]; simpl; [reflexivity|].
  destruct (is_ws c) eqn:E; [exact IH|]. simpl. rewrite E. reflexivity.
Qed.

(* ================= numbers ================= *)
Definition no_digit (rest : str) : Prop := match rest with [] => True | c :: _ => is_digit c = false end.

Lemma scan_digits_accept (ds : str) : forall acc rest,
  digits ds -> no_digit rest -> scan_digits acc (ds ++ rest) = (rev ds ++ acc, rest).
Proof.
  unfold digits. induction ds as [|c ds IH]; intros acc rest Hd Hr; simpl in *.
  - destruct rest as [|x r]; [reflexivity|]. simpl in *. rewrite Hr. reflexivity.
  - apply andb_true_iff in Hd as [Hc Hd]. rewrite Hc. rewrite IH by assumption.
    rewrite <- app_assoc. reflexivity.
Qed.

Lemma scan_digits_sound (bs : str) : forall acc acc' rest,
  scan_digits acc bs = (acc', rest) ->
  exists ds, digits ds /\ acc' = rev ds ++ acc /\ bs = ds ++ rest /\ no_digit rest.
Proof.
  induction bs as [|c r IH]; intros acc acc' rest H; simpl in H.
  - inversion H; subst. exists []. unfold digits, no_digit. simpl. auto.
  - destruct (is_digit c) eqn:E.
    + apply IH in H as (ds & Hd & Ha & Hb & Hn). exists (c :: ds). unfold digits in *. simpl.
      rewrite E, Hd. split; [reflexivity|]. subst. rewrite <- app_assoc. auto.
    + inversion H; subst. exists []. unfold digits, no_digit. simpl. auto.
Qed.

Lemma scan_digits1_accept (d : ascii) (ds : str) acc rest :
  is_digit d = true -> digits ds -> no_digit rest ->
  scan_digits1 acc (d :: ds ++ rest) = Some (rev (d :: ds) ++ acc, rest).
Proof.
  intros Hd Hds Hr. unfold scan_digits1. rewrite Hd. rewrite scan_digits_accept by assumption.
  simpl. rewrite <- app_assoc. reflexivity.
Qed.

Lemma scan_digits1_sound bs acc acc' rest :
  scan_digits1 acc bs = Some (acc', rest) ->
  exists d ds, is_digit d = true /\ digits ds /\ acc' = rev (d :: ds) ++ acc /\ bs = d :: ds ++ rest /\ no_digit rest.
Proof.
  unfold scan_digits1. destruct bs as [|c r]; [discriminate|].
  destruct (is_digit c) eqn:E; [|discriminate]. intros H. inversion H as [H1]. clear H.
  apply scan_digits_sound in H1 as (ds & Hd & Ha & Hb & Hn).
  exists c, ds. subst. simpl. rewrite <- app_assoc. auto.
Qed.

Definition no_e (rest : str) : Prop := match rest with [] => True | c :: _ => is_e c = false end.
Definition no_dot (rest : str) : Prop := match rest with [] => True | c :: _ => is_byte c 46 = false end.

Lemma number_delim_parts rest : number_delim rest = true <-> no_digit rest /\ no_dot rest /\ no_e rest.
Proof.
  unfold number_delim, no_digit, no_dot, no_e. destruct rest as [|c r]; [tauto|].
  rewrite negb_true_iff, !orb_false_iff. tauto.
Qed.

Lemma scan_exp_accept e acc rest :
  ExpPart e -> no_digit rest -> no_e rest -> scan_exp acc (e ++ rest) = Some (rev e ++ acc, rest).
Proof.
  intros He Hr Hn. destruct He as [|e d ds He Hd Hds|e s d ds He Hs Hd Hds].
  - simpl. unfold scan_exp. destruct rest as [|c r]; [reflexivity|]. simpl in Hn. rewrite Hn. reflexivity.
  - cbn [app]. unfold scan_exp. rewrite He.
    replace (is_sign d) with false by (symmetry; bytes).
    rewrite scan_digits1_accept by assumption. simpl. rewrite <- !app_assoc. reflexivity.
  - cbn [app]. unfold scan_exp. rewrite He, Hs.
    rewrite scan_digits1_accept by assumption. simpl. rewrite <- !app_assoc. reflexivity.
Qed.

Lemma scan_exp_sound bs acc acc' rest :
  scan_exp acc bs = Some (acc', rest) ->
  exists e, ExpPart e /\ acc' = rev e ++ acc /\ bs = e ++ rest.
Proof.
  unfold scan_exp. destruct bs as [|c r].
  - intros H; inversion H; subst. exists []. split; [constructor|auto].
  - destruct (is_e c) eqn:E.
    + destruct r as [|s r']; [discriminate|]. destruct (is_sign s) eqn:Es; intros H.
      * apply scan_digits1_sound in H as (d & ds & Hd & Hds & Ha & Hb & _).
        exists (c :: s :: d :: ds). split; [constructor; assumption|]. subst. simpl.
        rewrite <- !app_assoc. auto.
      * apply scan_digits1_sound in H as (d & ds & Hd & Hds & Ha & Hb & _).
        exists (c :: d :: ds). split; [constructor; assumption|]. subst. simpl. inversion Hb; subst.
        rewrite <- !app_assoc. auto.
    + intros H; inversion H; subst. exists []. split; [constructor|auto].
Qed.

Lemma scan_frac_accept f e acc rest :
  FracPart f -> ExpPart e -> number_delim rest = true ->
  scan_frac acc (f ++ e ++ rest) = Some (rev (f ++ e) ++ acc, rest).
Proof.
  intros Hf He Hr. apply number_delim_parts in Hr as (Hnd & Hdot & Hne).
  destruct Hf as [|p d ds Hp Hd Hds].
  - simpl. unfold scan_frac.
    destruct (e ++ rest) as [|c r] eqn:Eer.
    + destruct e; [|discriminate]. simpl in Eer. subst. reflexivity.
    + assert (Hc : is_byte c 46 = false).
      { destruct He; simpl in Eer.
        - subst rest. exact Hdot.
        - inversion Eer; subst. bytes.
        - inversion Eer; subst. bytes. }
      rewrite Hc. rewrite <- Eer. apply scan_exp_accept; assumption.
  - cbn [app]. unfold scan_frac. rewrite Hp.
    assert (Hne' : no_digit (e ++ rest)).
    { destruct He; simpl; [exact Hnd | bytes | bytes]. }
    rewrite scan_digits1_accept by assumption.
    rewrite scan_exp_accept by assumption.
    f_equal. f_equal. lnorm.
Qed.

Lemma scan_frac_sound bs acc acc' rest :
  scan_frac acc bs = Some (acc', rest) ->
  exists f e, FracPart f /\ ExpPart e /\ acc' = rev (f ++ e) ++ acc /\ bs = f ++ e ++ rest.
Proof.
  unfold scan_frac. destruct bs as [|c r].
  - intros H; inversion H; subst. exists [], []. repeat split; constructor.
  - destruct (is_byte c 46) eqn:E.
    + destruct (scan_digits1 (c :: acc) r) as [[a1 r1]|] eqn:E1; [|discriminate].
      intros H. apply scan_digits1_sound in E1 as (d & ds & Hd & Hds & Ha & Hb & _).
      apply scan_exp_sound in H as (e & He & Ha' & Hb').
      exists (c :: d :: ds), e. split; [constructor; assumption|]. split; [assumption|].
      subst. split.
      * lnorm.
      * lnorm.
    + intros H. apply scan_exp_sound in H as (e & He & Ha & Hb).
      exists [], e. split; [constructor|]. split; [assumption|]. simpl. auto.
Qed.

Lemma scan_int_accept i f e acc rest :
  IntPart i -> FracPart f -> ExpPart e -> number_delim rest = true ->
  scan_int acc (i ++ f ++ e ++ rest) = Some (rev (i ++ f ++ e) ++ acc, rest).
Proof.
  intros Hi Hf He Hr. destruct Hi as [c Hc|c ds Hc Hds].
  - cbn [app]. unfold scan_int. rewrite Hc. rewrite scan_frac_accept by assumption.
    f_equal. f_equal. lnorm.
  - cbn [app]. unfold scan_int.
    replace (is_byte c 48) with false by (symmetry; bytes). rewrite Hc.
    assert (Hnd : no_digit (f ++ e ++ rest)).
    { apply number_delim_parts in Hr as (Hnd & Hdot & Hne).
      destruct Hf; simpl; [destruct He; simpl; [exact Hnd | bytes | bytes] | bytes]. }
    rewrite (scan_digits_accept ds (c :: acc)) by assumption.
    rewrite scan_frac_accept by assumption.
    f_equal. f_equal. lnorm.
Qed.

Lemma scan_int_sound bs acc acc' rest :
  scan_int acc bs = Some (acc', rest) ->
  exists i f e, IntPart i /\ FracPart f /\ ExpPart e /\ acc' = rev (i ++ f ++ e) ++ acc /\ bs = i ++ f ++ e ++ rest.
Proof.
  unfold scan_int. destruct bs as [|c r]; [discriminate|].
  destruct (is_byte c 48) eqn:E0.
  - intros H. apply scan_frac_sound in H as (f & e & Hf & He & Ha & Hb).
    exists [c], f, e. split; [constructor; assumption|]. repeat (split; [assumption|]).
    subst. simpl. rewrite <- app_assoc. auto.
  - destruct (is_digit19 c) eqn:E1; [|discriminate].
    destruct (scan_digits (c :: acc) r) as [a1 r1] eqn:Es. intros H.
    apply scan_digits_sound in Es as (ds & Hds & Ha & Hb & _).
    apply scan_frac_sound in H as (f & e & Hf & He & Ha' & Hb').
    exists (c :: ds), f, e. split; [constructor; assumption|]. repeat (split; [assumption|]).
    subst. split.
    + lnorm.
    + lnorm.
Qed.

Lemma int_part_head i : IntPart i -> exists c r, i = c :: r /\ is_digit c = true.
Proof. intros [c Hc|c ds Hc _]; eexists _, _; (split; [reflexivity|bytes]). Qed.

(* ---- the number lexer accepts exactly the grammar ---- *)
Lemma lex_number_accept s rest :
  Number s -> number_delim rest = true -> lex_number (s ++ rest) = Some (s, rest).
Proof.
  intros Hn Hr. destruct Hn as [i f e Hi Hf He | m i f e Hm Hi Hf He].
  - destruct (int_part_head i Hi) as (c & r & -> & Hc).
    rewrite <- !app_assoc. cbn [app]. unfold lex_number.
    replace (is_byte c 45) with false by (symmetry; bytes).
    change (c :: r ++ f ++ e ++ rest) with ((c :: r) ++ f ++ e ++ rest).
    rewrite scan_int_accept by assumption. unfold fin_num. rewrite rev'_rev.
    rewrite app_nil_r, rev_involutive. reflexivity.
  - cbn [app]. unfold lex_number. rewrite Hm. rewrite <- !app_assoc.
    rewrite scan_int_accept by assumption. unfold fin_num. rewrite rev'_rev.
    rewrite rev_app_distr, rev_involutive. reflexivity.
Qed.

Lemma lex_number_sound bs s rest :
  lex_number bs = Some (s, rest) -> Number s /\ bs = s ++ rest.
Proof.
  unfold lex_number. destruct bs as [|c r]; [discriminate|].
  destruct (is_byte c 45) eqn:E.
  - destruct (scan_int [c] r) as [[a r1]|] eqn:Es; [|discriminate]. simpl. intros H. inversion H; subst.
    apply scan_int_sound in Es as (i & f & e & Hi & Hf & He & Ha & Hb). subst.
    rewrite rev'_rev, rev_app_distr, rev_involutive. simpl.
    split; [constructor; assumption|]. rewrite <- !app_assoc. reflexivity.
  - destruct (scan_int [] (c :: r)) as [[a r1]|] eqn:Es; [|discriminate]. simpl. intros H. inversion H; subst.
    apply scan_int_sound in Es as (i & f & e & Hi & Hf & He & Ha & Hb). subst.
    rewrite rev'_rev, app_nil_r, rev_involutive.
    split; [constructor; assumption|]. rewrite Hb. rewrite <- !app_assoc. reflexivity.
Qed.

Lemma number_ok_iff s : number_ok s = true <-> Number s.
Proof.
  unfold number_ok. split.
  - destruct (lex_number s) as [[s' r]|] eqn:E; [|discriminate]. destruct r; [|discriminate]. intros _.
    apply lex_number_sound in E as [Hn He]. rewrite app_nil_r in He. subst. exact Hn.
  - intros Hn. pose proof (lex_number_accept s [] Hn eq_refl) as H. rewrite app_nil_r in H. rewrite H. reflexivity.
Qed.

(* a number literal never is empty and starts with '-' or a digit *)
Lemma number_head s : Number s -> exists c r, s = c :: r /\ (is_byte c 45 = true \/ is_digit c = true).
Proof.
  intros [i f e Hi _ _|m i f e Hm _ _ _].
  - destruct (int_part_head i Hi) as (c & r & -> & Hc). eexists _, _. split; [reflexivity|auto].
  - eexists _, _. split; [reflexivity|auto].
Qed.

(* the lexer consumes at least one byte and returns a suffix *)
Lemma lex_number_shorter bs s rest : lex_number bs = Some (s, rest) -> length rest < length bs.
Proof.
  intros H. apply lex_number_sound in H as [Hn ->]. destruct (number_head s Hn) as (c & r & -> & _).
  simpl. rewrite app_length. lia.
Qed.

(* ================= string literals: recognition =================
   RFC 8259 section 7 as encoding/json's scanner implements it: any byte except the quote, the backslash and
   the control characters below 0x20 (bytes >= 0x80 are not looked at by the scanner), the eight
   two-character escapes, \u followed by four hexadecimal digits. *)
Lemma simple_escape_not_u e x : simple_escape e = Some x -> is_byte e 117 = false.
Proof.
  unfold simple_escape, is_byte.
  destruct (N_of_ascii e =? 117)%N eqn:E; [|reflexivity]. apply N.eqb_eq in E. rewrite E. simpl. discriminate.
Qed.

Lemma scan_string_accept body : StrBody body -> forall acc q rest,
  is_byte q 34 = true -> scan_string acc (body ++ q :: rest) = Some (rev acc ++ body, rest).
Proof.
  induction 1 as [|c r H34 H92 H32 Hr IH|b e x r Hb He Hr IH|b u h1 h2 h3 h4 r Hb Hu H1 H2 H3 H4 Hr IH];
    intros acc q rest Hq.
  - simpl. rewrite Hq. rewrite rev'_rev, app_nil_r. reflexivity.
  - cbn [app scan_string]. rewrite H34, H92.
    replace (N_of_ascii c <? 32)%N with false by lia.
    rewrite IH by assumption. lnorm.
  - cbn [app scan_string].
    replace (is_byte b 34) with false by (symmetry; bytes). rewrite Hb.
    rewrite (simple_escape_not_u e x He), He. rewrite IH by assumption. lnorm.
  - cbn [app scan_string].
    replace (is_byte b 34) with false by (symmetry; bytes). rewrite Hb, Hu, H1, H2, H3, H4. cbn [andb].
    rewrite IH by assumption. lnorm.
Qed.

Lemma scan_string_sound_n (n : nat) : forall bs, length bs <= n -> forall acc out rest,
  scan_string acc bs = Some (out, rest) ->
  exists body q, StrBody body /\ is_byte q 34 = true /\ bs = body ++ q :: rest /\ out = rev acc ++ body.
Proof.
  induction n as [|n IH]; intros bs Hlen acc out rest H.
  - destruct bs; [discriminate|simpl in Hlen; lia].
  - destruct bs as [|c r]; [discriminate|]. simpl in Hlen. cbn [scan_string] in H.
    destruct (is_byte c 34) eqn:E34.
    { inversion H; subst. exists [], c. rewrite rev'_rev, app_nil_r. repeat split; [constructor|assumption]. }
    destruct (is_byte c 92) eqn:E92.
    + destruct r as [|e r1]; [discriminate|].
      destruct (is_byte e 117) eqn:Eu.
      * destruct r1 as [|h1 [|h2 [|h3 [|h4 r2]]]]; try discriminate.
        destruct (is_hex h1) eqn:E1; [|discriminate]. destruct (is_hex h2) eqn:E2; [|discriminate].
        destruct (is_hex h3) eqn:E3; [|discriminate]. destruct (is_hex h4) eqn:E4; [|discriminate].
        cbn [andb] in H. apply IH in H; [|simpl in *; lia].
        destruct H as (body & q & Hb & Hq & He & Ho).
        exists (c :: e :: h1 :: h2 :: h3 :: h4 :: body), q.
        split; [constructor; assumption|]. split; [assumption|]. subst. split; lnorm.
      * destruct (simple_escape e) as [x|] eqn:Ee; [|discriminate].
        apply IH in H; [|simpl in *; lia]. destruct H as (body & q & Hb & Hq & He & Ho).
        exists (c :: e :: body), q. split; [econstructor; eassumption|]. split; [assumption|].
        subst. split; lnorm.
    + destruct (N_of_ascii c <? 32)%N eqn:E32; [discriminate|].
      apply IH in H; [|lia]. destruct H as (body & q & Hb & Hq & He & Ho).
      exists (c :: body), q. split; [constructor; try assumption; lia|]. split; [assumption|].
      subst. split; lnorm.
Qed.

Lemma scan_string_sound bs acc out rest :
  scan_string acc bs = Some (out, rest) ->
  exists body q, StrBody body /\ is_byte q 34 = true /\ bs = body ++ q :: rest /\ out = rev acc ++ body.
Proof. apply (scan_string_sound_n (length bs)). lia. Qed.

Lemma str_eqb_true_eq (a b : str) : list_eqb Ascii.eqb a b = true <-> a = b.
Proof.
  revert b. induction a as [|x a IH]; destruct b as [|y b]; simpl; split; intros H; try discriminate; try reflexivity.
  - apply andb_true_iff in H as [H1 H2]. apply Ascii.eqb_eq in H1. apply IH in H2. subst. reflexivity.
  - inversion H; subst. rewrite Ascii.eqb_refl. simpl. apply IH. reflexivity.
Qed.

Lemma q34_quote : is_byte q34 34 = true.
Proof. reflexivity. Qed.

(* no body contains an unescaped quote: the decomposition body ++ quote :: rest is unique *)
Lemma str_body_split body : StrBody body -> forall q rest body' q' rest',
  is_byte q 34 = true -> is_byte q' 34 = true -> StrBody body' ->
  body ++ q :: rest = body' ++ q' :: rest' -> body = body' /\ rest = rest'.
Proof.
  induction 1 as [|c r H34 H92 H32 Hr IH|b e x r Hb He Hr IH|b u h1 h2 h3 h4 r Hb Hu H1 H2 H3 H4 Hr IH];
    intros q rest body' q' rest' Hq Hq' Hb' Heq.
  - destruct Hb' as [|c r H34 _ _ _|b e x r Hb' _ _|b u h1 h2 h3 h4 r Hb' _ _ _ _ _ _]; simpl in Heq; inversion Heq; subst.
    + auto.
    + congruence.
    + bytes.
    + bytes.
  - destruct Hb' as [|c' r' H34' _ _ Hr'|b e x r' Hb' _ Hr'|b u h1 h2 h3 h4 r' Hb' _ _ _ _ _ Hr']; simpl in Heq; inversion Heq; subst.
    + congruence.
    + match goal with Hx : _ ++ q :: rest = _ |- _ => destruct (IH _ _ _ _ _ Hq Hq' Hr' Hx) as [-> ->] end. auto.
    + congruence.
    + congruence.
  - destruct Hb' as [|c' r' H34' H92' _ Hr'|b' e' x' r' Hb' _ Hr'|b' u h1 h2 h3 h4 r' Hb' Hu _ _ _ _ Hr']; simpl in Heq; inversion Heq; subst.
    + bytes.
    + congruence.
    + match goal with Hx : _ ++ q :: rest = _ |- _ => destruct (IH _ _ _ _ _ Hq Hq' Hr' Hx) as [-> ->] end. auto.
    + apply simple_escape_not_u in He. congruence.
  - destruct Hb' as [|c' r' H34' H92' _ Hr'|b' e' x' r' Hb' He' Hr'|b' u' g1 g2 g3 g4 r' Hb' Hu' _ _ _ _ Hr']; simpl in Heq; inversion Heq; subst.
    + bytes.
    + congruence.
    + apply simple_escape_not_u in He'. congruence.
    + match goal with Hx : _ ++ q :: rest = _ |- _ => destruct (IH _ _ _ _ _ Hq Hq' Hr' Hx) as [-> ->] end. auto.
Qed.

Lemma body_ok_iff body : body_ok body = true <-> StrBody body.
Proof.
  unfold body_ok. split.
  - destruct (scan_string [] (body ++ [q34])) as [[b r]|] eqn:E; [|discriminate].
    destruct r; [|discriminate]. intros Hb. apply str_eqb_true_eq in Hb. subst b.
    apply scan_string_sound in E as (body' & q & Hb' & Hq & He & Ho). simpl in Ho. subst body'. exact Hb'.
  - intros Hb. rewrite (scan_string_accept body Hb [] q34 [] q34_quote). simpl.
    apply str_eqb_true_eq. reflexivity.
Qed.

Lemma scan_string_shorter bs acc out rest : scan_string acc bs = Some (out, rest) -> length rest < length bs.
Proof.
  intros H. apply scan_string_sound in H as (body & q & _ & _ & -> & _). rewrite app_length. simpl. lia.
Qed.

Lemma lex_string_shorter bs s rest : lex_string bs = Some (s, rest) -> length rest < length bs.
Proof.
  unfold lex_string. destruct (scan_string [] bs) as [[b r]|] eqn:E; [|discriminate].
  intros H; inversion H; subst. eapply scan_string_shorter; eassumption.
Qed.

(* ---- the string lexer: exactly the literals of the grammar, decoded by [unquote] ---- *)
Lemma lex_string_accept body q rest :
  StrBody body -> is_byte q 34 = true -> lex_string (body ++ q :: rest) = Some (unquote body, rest).
Proof. intros Hb Hq. unfold lex_string. rewrite (scan_string_accept body Hb [] q rest Hq). reflexivity. Qed.

Lemma lex_string_sound bs s rest :
  lex_string bs = Some (s, rest) ->
  exists body q, StrBody body /\ is_byte q 34 = true /\ bs = body ++ q :: rest /\ s = unquote body.
Proof.
  unfold lex_string. destruct (scan_string [] bs) as [[b r]|] eqn:E; [|discriminate].
  intros H; inversion H; subst. apply scan_string_sound in E as (body & q & Hb & Hq & He & Ho).
  simpl in Ho. subst. eauto 6.
Qed.

(* ================= isBatch ================= *)
Lemma is_batch_w_iff (n : nat) : forall bs,
  is_batch_w n bs = true <->
  exists w c r, bs = w ++ c :: r /\ all_ws w = true /\ is_byte c 91 = true /\ length w < n.
Proof.
  induction n as [|n IH]; intros bs.
  - simpl. split; [discriminate|]. intros (w & c & r & _ & _ & _ & H). lia.
  - destruct bs as [|c r]; simpl.
    + split; [discriminate|]. intros (w & c & r & H & _). destruct w; discriminate.
    + destruct (is_ws c) eqn:E.
      * rewrite IH. split.
        -- intros (w & c' & r' & -> & Hw & Hc & Hl). exists (c :: w), c', r'. simpl. rewrite E, Hw.
           repeat split; [assumption|lia].
        -- intros (w & c' & r' & He & Hw & Hc & Hl). destruct w as [|x w]; simpl in *.
           ++ inversion He; subst. bytes.
           ++ inversion He; subst. apply andb_true_iff in Hw as [_ Hw]. exists w, c', r'. repeat split; try assumption. lia.
      * split.
        -- intros Hc. exists [], c, r. simpl. repeat split; [assumption|lia].
        -- intros (w & c' & r' & He & Hw & Hc & Hl). destruct w as [|x w]; simpl in *.
           ++ inversion He; subst. assumption.
           ++ inversion He; subst. rewrite E in Hw. discriminate.
Qed.

(* the batch-detection function is exact: the first non-space byte is '[' and lies within the first 128 bytes *)
Lemma is_batch_iff bs :
  is_batch bs = true <->
  exists w c r, bs = w ++ c :: r /\ all_ws w = true /\ is_byte c 91 = true /\ length w < 128.
Proof. apply is_batch_w_iff. Qed.

Lemma is_batch_skip_ws bs : is_batch bs = true -> exists c r, skip_ws bs = c :: r /\ is_byte c 91 = true.
Proof.
  intros H. apply is_batch_iff in H as (w & c & r & -> & Hw & Hc & _).
  rewrite skip_ws_app by assumption. exists c, r. split; [|assumption].
  apply skip_ws_nonws. bytes.
Qed.

(* the only way to miss a leading '[' is the window *)
Lemma is_batch_false_bracket bs c r :
  skip_ws bs = c :: r -> is_byte c 91 = true -> is_batch bs = false ->
  exists w, bs = w ++ c :: r /\ all_ws w = true /\ 128 <= length w.
Proof.
  intros Hs Hc Hb. destruct (skip_ws_decomp bs) as (w & Hw & He & _). rewrite Hs in He.
  exists w. repeat split; try assumption.
  destruct (le_lt_dec 128 (length w)) as [|Hlt]; [assumption|].
  assert (is_batch bs = true) by (apply is_batch_iff; exists w, c, r; auto). congruence.
Qed.
