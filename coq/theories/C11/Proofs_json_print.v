(* C11 — byte level, part 4: the canonical printer.  parse (print v) = v for every value the parser can
   produce (number literals of the grammar, well-formed UTF-8 strings, nesting within the limit). *)
From Coq Require Import String.
From Coq Require Import List Ascii Bool NArith ZArith Arith Lia ZifyN ZifyNat ZifyBool.
From V Require Import C11.Model C11.Proofs C11.Proofs_json_lex C11.Proofs_json_utf8 C11.Proofs_json.
Import ListNotations.

Lemma bare_ok v : forall d, json_wf d v = true -> wsj_ok d (bare v) = true.
Proof.
  induction v as [|b|s|s|l IH|kvs IH] using json_ind'; intros d H; cbn [bare].
  - reflexivity.
  - destruct b; reflexivity.
  - exact H.
  - cbn [wsj_ok]. apply body_ok_iff, quote_body_ok.
  - destruct d as [|d]; [discriminate|]. cbn [json_wf] in H. rewrite wsj_ok_arr. cbn [all_ws forallb andb].
    induction IH as [|x l Hx _ IHl]; [reflexivity|]. cbn [forallb] in H. apply andb_true_iff in H as [H1 H2].
    cbn [map forallb]. unfold elem_ok at 1. cbn [fst snd all_ws forallb andb].
    rewrite (Hx d H1). cbn [andb]. apply IHl. exact H2.
  - destruct d as [|d]; [discriminate|]. cbn [json_wf] in H. rewrite wsj_ok_obj. cbn [all_ws forallb andb].
    induction IH as [|[k x] l Hx _ IHl]; [reflexivity|]. cbn [forallb fst snd] in H. apply andb_true_iff in H as [H1 H2].
    apply andb_true_iff in H1 as [Hk H1].
    cbn [map forallb]. unfold mem_ok at 1. cbn [fst snd all_ws forallb andb].
    replace (body_ok (quote_body k)) with true by (symmetry; apply body_ok_iff, quote_body_ok).
    cbn [snd] in Hx. rewrite (Hx d H1). cbn [andb]. apply IHl. exact H2.
Qed.

Lemma erase_bare v : forall d, json_wf d v = true -> erase (bare v) = v.
Proof.
  induction v as [|b|s|s|l IH|kvs IH] using json_ind'; intros d H; cbn [bare].
  - reflexivity.
  - destruct b; reflexivity.
  - reflexivity.
  - cbn [erase]. cbn [json_wf] in H. apply utf8_ok_iff in H. rewrite unquote_quote_body by assumption. reflexivity.
  - destruct d as [|d]; [discriminate|]. cbn [json_wf] in H. cbn [erase]. f_equal.
    induction IH as [|x l Hx _ IHl]; [reflexivity|]. cbn [forallb] in H. apply andb_true_iff in H as [H1 H2].
    cbn [map fst snd]. rewrite (Hx d H1). f_equal. apply IHl. exact H2.
  - destruct d as [|d]; [discriminate|]. cbn [json_wf] in H. cbn [erase]. f_equal.
    induction IH as [|[k x] l Hx _ IHl]; [reflexivity|]. cbn [forallb fst snd] in H. apply andb_true_iff in H as [H1 H2].
    apply andb_true_iff in H1 as [Hk H1]. apply utf8_ok_iff in Hk.
    cbn [map fst snd]. cbn [snd] in Hx. rewrite (Hx d H1). rewrite unquote_quote_body by assumption.
    f_equal. apply IHl. exact H2.
Qed.

Definition value_delim (v : json) (rest : str) : Prop :=
  match v with JNum _ => number_delim rest = true | _ => True end.

Lemma delim_bare v rest : value_delim v rest -> delim_ok (bare v) rest.
Proof. destruct v as [|[]| | | |]; cbn; auto. Qed.

(* ---- parse . print = id, also in front of arbitrary trailing bytes ---- *)
Theorem parse_first_print v rest :
  json_wf max_depth v = true -> value_delim v rest -> parse_first (print v ++ rest) = Some (v, rest).
Proof.
  intros Hwf Hd. unfold print.
  pose proof (parse_first_text (bare v) [] rest (bare_ok v _ Hwf) eq_refl (delim_bare v rest Hd)) as H.
  cbn [app] in H. rewrite H. rewrite (erase_bare v _ Hwf). reflexivity.
Qed.

Theorem parse_print v : json_wf max_depth v = true -> parse (print v) = Some v.
Proof.
  intros Hwf. unfold parse. rewrite <- (app_nil_r (print v)).
  rewrite parse_first_print; [reflexivity|assumption|]. destruct v; cbn; auto.
Qed.

(* the hypothesis is exactly "v is a value the parser can produce" *)
Theorem parse_print_fixpoint bs v r : parse_first bs = Some (v, r) -> parse (print v) = Some v.
Proof. intros H. apply parse_print. eapply parse_first_wf. eassumption. Qed.

(* with white space: any layout [t] of the value *)
Theorem parse_layout v t w w' :
  wsj_ok max_depth t = true -> erase t = v -> all_ws w = true -> all_ws w' = true ->
  parse (w ++ print_wsj t ++ w') = Some v.
Proof. intros Hok <- Hw Hw'. apply parse_text_ws; assumption. Qed.
