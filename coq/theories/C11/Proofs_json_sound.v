(* C11 — byte level, part 5: the parser accepts ONLY texts of the grammar: whatever it returns comes with
   a text tree (white space, literals as written, nesting within the limit) whose bytes are exactly what
   was consumed and whose value is the one returned.  With Proofs_json.p_value_complete: exactly the
   grammar. *)
From Coq Require Import String.
From Coq Require Import List Ascii Bool NArith ZArith Arith Lia ZifyN ZifyNat ZifyBool.
From V Require Import C11.Json C11.Proofs_json_lex C11.Proofs_json_utf8 C11.Proofs_json.
Import ListNotations.

Lemma lit_rest_sound lit : forall bs r, lit_rest lit bs = Some r -> bs = lit ++ r.
Proof.
  induction lit as [|x lit IH]; intros bs r H; simpl in H.
  - inversion H. reflexivity.
  - destruct bs as [|c bs]; [discriminate|]. destruct (Ascii.eqb x c) eqn:E; [|discriminate].
    apply Ascii.eqb_eq in E. subst. simpl. f_equal. apply IH. exact H.
Qed.

Lemma skip_ws_split bs c r :
  skip_ws bs = c :: r -> exists w, all_ws w = true /\ bs = w ++ c :: r.
Proof.
  intros H. destruct (skip_ws_decomp bs) as (w & Hw & He & _). rewrite H in He. eauto.
Qed.

Lemma join_cons_ne (x : str) (l : list str) :
  l <> [] -> join_with (byte_of 44) (x :: l) = x ++ byte_of 44 :: join_with (byte_of 44) l.
Proof. destruct l; [congruence|reflexivity]. Qed.

Definition erase_mem (m : (str * str * str) * (str * wsj * str)) : str * json :=
  (unquote (snd (fst (fst m))), erase (snd (fst (snd m)))).

Lemma p_sound (f : fuel) :
  (forall d bs v r, p_value f d bs = POk v r ->
     exists w t, all_ws w = true /\ wsj_ok d t = true /\ bs = w ++ print_wsj t ++ r /\ erase t = v) /\
  (forall d acc bs v r, p_elems f d acc bs = POk v r ->
     exists es, es <> [] /\ forallb (elem_ok d) es = true /\
       bs = join_with (byte_of 44) (map elem_txt es) ++ byte_of 93 :: r /\
       v = JArr (rev acc ++ map (fun e : str * wsj * str => erase (snd (fst e))) es)) /\
  (forall d acc bs v r, p_members f d acc bs = POk v r ->
     exists ms, ms <> [] /\ forallb (mem_ok d) ms = true /\
       bs = join_with (byte_of 44) (map mem_txt ms) ++ byte_of 125 :: r /\
       v = JObj (rev acc ++ map erase_mem ms)).
Proof.
  induction f as [|u f (IHv & IHe & IHm)]; [repeat split; intros; discriminate|].
  repeat split.
  - intros d bs v r H. rewrite p_value_eq in H.
    destruct (skip_ws bs) as [|c r0] eqn:Es; [discriminate|].
    apply skip_ws_split in Es as (w & Hw & ->).
    destruct (is_byte c 34) eqn:E34.
    { destruct (lex_string r0) as [[s r1]|] eqn:El; [|discriminate]. inversion H; subst.
      apply lex_string_sound in El as (body & q & Hb & Hq & -> & ->).
      apply is_byte_eq in E34, Hq. subst.
      exists w, (WStr body). repeat split; try assumption.
      - cbn [wsj_ok]. apply body_ok_iff. assumption.
      - cbn [print_wsj]. cbn [app]. rewrite <- app_assoc. reflexivity. }
    destruct (is_byte c 91) eqn:E91.
    { apply is_byte_eq in E91. subst c.
      destruct d as [|d']; [discriminate|]. destruct (skip_ws r0) as [|c2 r2] eqn:E2; [discriminate|].
      destruct (is_byte c2 93) eqn:E93.
      - inversion H; subst. apply is_byte_eq in E93. subst c2.
        apply skip_ws_split in E2 as (w1 & Hw1 & ->).
        exists w, (WArr w1 []). repeat split; try assumption.
        + rewrite wsj_ok_arr, Hw1. reflexivity.
        + rewrite print_arr. cbn [map join_with app]. rewrite <- app_assoc. reflexivity.
      - apply IHe in H as (es & Hne & Hok & -> & ->).
        exists w, (WArr [] es). repeat split; try assumption.
        rewrite print_arr. cbn [app]. rewrite <- app_assoc. reflexivity. }
    destruct (is_byte c 123) eqn:E123.
    { apply is_byte_eq in E123. subst c.
      destruct d as [|d']; [discriminate|]. destruct (skip_ws r0) as [|c2 r2] eqn:E2; [discriminate|].
      destruct (is_byte c2 125) eqn:E125.
      - inversion H; subst. apply is_byte_eq in E125. subst c2.
        apply skip_ws_split in E2 as (w1 & Hw1 & ->).
        exists w, (WObj w1 []). repeat split; try assumption.
        + rewrite wsj_ok_obj, Hw1. reflexivity.
        + rewrite print_obj. cbn [map join_with app]. rewrite <- app_assoc. reflexivity.
      - apply IHm in H as (ms & Hne & Hok & -> & ->).
        exists w, (WObj [] ms). repeat split; try assumption.
        rewrite print_obj. cbn [app]. rewrite <- app_assoc. reflexivity. }
    destruct (is_byte c 110) eqn:E110.
    { destruct (lit_rest _ r0) as [r1|] eqn:El; [|discriminate]. inversion H; subst.
      apply lit_rest_sound in El. apply is_byte_eq in E110. subst.
      exists w, WNull. repeat split; assumption. }
    destruct (is_byte c 116) eqn:E116.
    { destruct (lit_rest _ r0) as [r1|] eqn:El; [|discriminate]. inversion H; subst.
      apply lit_rest_sound in El. apply is_byte_eq in E116. subst.
      exists w, WTrue. repeat split; assumption. }
    destruct (is_byte c 102) eqn:E102.
    { destruct (lit_rest _ r0) as [r1|] eqn:El; [|discriminate]. inversion H; subst.
      apply lit_rest_sound in El. apply is_byte_eq in E102. subst.
      exists w, WFalse. repeat split; assumption. }
    destruct (lex_number (c :: r0)) as [[s r1]|] eqn:El; [|discriminate]. inversion H; subst.
    apply lex_number_sound in El as [Hn He].
    exists w, (WNum s). repeat split; try assumption.
    + cbn [wsj_ok]. apply number_ok_iff. assumption.
    + cbn [print_wsj]. rewrite He. reflexivity.
  - intros d acc bs v r H. rewrite p_elems_eq in H.
    destruct (p_value f d bs) as [v1 r1| |] eqn:Ev; try discriminate.
    apply IHv in Ev as (w & t & Hw & Hok & -> & <-).
    destruct (skip_ws r1) as [|c r'] eqn:Es; [discriminate|].
    apply skip_ws_split in Es as (b & Hb & ->).
    destruct (is_byte c 44) eqn:E44.
    + apply is_byte_eq in E44. subst c.
      apply IHe in H as (es & Hne & Hes & -> & ->).
      exists ((w, t, b) :: es). split; [congruence|]. split; [|split].
      * cbn [forallb]. unfold elem_ok at 1. cbn [fst snd]. rewrite Hw, Hok, Hb, Hes. reflexivity.
      * cbn [map]. rewrite join_cons_ne by (destruct es; [congruence|discriminate]).
        change (elem_txt (w, t, b)) with (w ++ print_wsj t ++ b). anorm. reflexivity.
      * cbn [rev map fst snd]. rewrite <- app_assoc. reflexivity.
    + destruct (is_byte c 93) eqn:E93; [|discriminate]. apply is_byte_eq in E93. subst c. inversion H; subst.
      exists [(w, t, b)]. split; [congruence|]. split; [|split].
      * cbn [forallb]. unfold elem_ok. cbn [fst snd]. rewrite Hw, Hok, Hb. reflexivity.
      * cbn [map join_with]. change (elem_txt (w, t, b)) with (w ++ print_wsj t ++ b). anorm. reflexivity.
      * rewrite rev'_rev. reflexivity.
  - intros d acc bs v r H. rewrite p_members_eq in H.
    destruct (skip_ws bs) as [|q r0] eqn:E0; [discriminate|].
    apply skip_ws_split in E0 as (a & Ha & ->).
    destruct (is_byte q 34) eqn:E34; [|discriminate].
    destruct (lex_string r0) as [[k r1]|] eqn:El; [|discriminate].
    apply lex_string_sound in El as (body & q' & Hbody & Hq' & -> & ->).
    apply is_byte_eq in E34, Hq'. subst q q'.
    destruct (skip_ws r1) as [|c r2] eqn:E1; [discriminate|].
    apply skip_ws_split in E1 as (b & Hb & ->).
    destruct (is_byte c 58) eqn:E58; [|discriminate]. apply is_byte_eq in E58. subst c.
    destruct (p_value f d r2) as [v1 r3| |] eqn:Ev; try discriminate.
    apply IHv in Ev as (c & t & Hc & Hok & -> & <-).
    destruct (skip_ws r3) as [|c' r4] eqn:E3; [discriminate|].
    apply skip_ws_split in E3 as (dd & Hdd & ->).
    apply body_ok_iff in Hbody.
    destruct (is_byte c' 44) eqn:E44.
    + apply is_byte_eq in E44. subst c'.
      apply IHm in H as (ms & Hne & Hms & -> & ->).
      exists ((a, body, b, (c, t, dd)) :: ms). split; [congruence|]. split; [|split].
      * cbn [forallb]. unfold mem_ok at 1. cbn [fst snd]. rewrite Ha, Hbody, Hb, Hc, Hok, Hdd, Hms. reflexivity.
      * cbn [map]. rewrite join_cons_ne by (destruct ms; [congruence|discriminate]).
        change (mem_txt (a, body, b, (c, t, dd))) with (a ++ q34 :: body ++ q34 :: b ++ byte_of 58 :: c ++ print_wsj t ++ dd).
        anorm. reflexivity.
      * cbn [rev map]. unfold erase_mem at 2. cbn [fst snd]. rewrite <- app_assoc. reflexivity.
    + destruct (is_byte c' 125) eqn:E125; [|discriminate]. apply is_byte_eq in E125. subst c'. inversion H; subst.
      exists [(a, body, b, (c, t, dd))]. split; [congruence|]. split; [|split].
      * cbn [forallb]. unfold mem_ok. cbn [fst snd]. rewrite Ha, Hbody, Hb, Hc, Hok, Hdd. reflexivity.
      * cbn [map join_with].
        change (mem_txt (a, body, b, (c, t, dd))) with (a ++ q34 :: body ++ q34 :: b ++ byte_of 58 :: c ++ print_wsj t ++ dd).
        anorm. reflexivity.
      * rewrite rev'_rev. reflexivity.
Qed.

(* ---- exactly the grammar ---- *)
Theorem parse_first_sound bs v r :
  parse_first bs = Some (v, r) ->
  exists w t, all_ws w = true /\ wsj_ok max_depth t = true /\ bs = w ++ print_wsj t ++ r /\ erase t = v.
Proof.
  unfold parse_first. destruct (p_value (fuel_for bs) max_depth bs) as [v1 r1| |] eqn:E; try discriminate.
  intros H; inversion H; subst. destruct (p_sound (fuel_for bs)) as (Sv & _ & _). eapply Sv. eassumption.
Qed.

(* the byte strings that parse with nothing but white space left over are exactly the JSON texts of the
   grammar (nested at most 10000 deep), and the value is the one the text denotes *)
Theorem parse_document_iff bs v :
  (exists r, parse_first bs = Some (v, r) /\ all_ws r = true) <->
  (exists w t w', all_ws w = true /\ all_ws w' = true /\ wsj_ok max_depth t = true /\
                  bs = w ++ print_wsj t ++ w' /\ erase t = v).
Proof.
  split.
  - intros (r & H & Hr). destruct (parse_first_sound bs v r H) as (w & t & Hw & Hok & He & Hv).
    exists w, t, r. auto.
  - intros (w & t & w' & Hw & Hw' & Hok & -> & <-). exists w'. split; [|assumption].
    apply parse_first_text; try assumption. apply delim_ok_ws. assumption.
Qed.
