(* C11 — byte level, part 2: UTF-8 well-formedness (Unicode table 3-7) against [utf8_len] / [utf8_ok],
   what [unquote] does with every kind of body item (escapes, surrogate pairs, lone surrogates, well-formed
   and ill-formed raw bytes), its output is always well-formed UTF-8, and the canonical quoting is undone
   by it. *)
From Coq Require Import List Ascii Bool NArith ZArith Arith Lia ZifyN ZifyNat ZifyBool.
From V Require Import C11.Json C11.Proofs_json_lex.
Import ListNotations.
Ltac Zify.zify_post_hook ::= Z.div_mod_to_equations.

Ltac ifs := repeat match goal with
  | |- context[if ?b then _ else _] => destruct b eqn:?
  | H : context[if ?b then _ else _] |- _ => destruct b eqn:?
  end.

Lemma byte_of_ascii' c : byte_of (N_of_ascii c) = c.
Proof. apply ascii_N_embedding. Qed.

(* ================= well-formed UTF-8 ================= *)
Lemma utf8_app a b : Utf8 a -> Utf8 b -> Utf8 (a ++ b).
Proof. induction 1; simpl; auto. intros. rewrite <- app_assoc. constructor; auto. Qed.

Lemma utf8_seq_utf8 q : Utf8Seq q -> Utf8 q.
Proof. intros. rewrite <- (app_nil_r q). constructor; [assumption|constructor]. Qed.

Lemma utf8_seq_nonempty q : Utf8Seq q -> exists a q', q = a :: q'.
Proof. intros []; eauto. Qed.

Lemma utf8_len_seq q r : Utf8Seq q -> utf8_len (q ++ r) = length q.
Proof.
  intros [a Ha|a b Ha Hb|a b c Ha Hc|a b c d Ha Hc Hd]; cbn [app length utf8_len]; unfold in_range;
    ifs; try reflexivity; lia.
Qed.

Lemma utf8_len_le bs : utf8_len bs <= length bs.
Proof.
  destruct bs as [|a [|b [|c [|d r]]]]; cbn [utf8_len length]; ifs; lia.
Qed.

Lemma utf8_len_le4 bs : utf8_len bs <= 4.
Proof.
  destruct bs as [|a [|b [|c [|d r]]]]; cbn [utf8_len length]; ifs; lia.
Qed.

Lemma utf8_len_sound bs k : utf8_len bs = S k -> Utf8Seq (firstn (S k) bs).
Proof.
  destruct bs as [|a [|b [|c [|d r]]]]; cbn [utf8_len]; unfold in_range; intros H; ifs;
    try discriminate; inversion H; subst; cbn [firstn]; constructor; lia.
Qed.

(* ---- the boolean check ---- *)
Lemma utf8_ok_skip p : forall s, utf8_ok_from (length p) (p ++ s) = utf8_ok_from 0 s.
Proof. induction p as [|x p IH]; intros s; [reflexivity|]. cbn [length app utf8_ok_from]. apply IH. Qed.

Lemma utf8_ok_complete s : Utf8 s -> utf8_ok s = true.
Proof.
  unfold utf8_ok. induction 1 as [|q s Hq Hs IH]; [reflexivity|].
  destruct (utf8_seq_nonempty q Hq) as (a & q' & ->).
  cbn [app utf8_ok_from]. change (a :: q' ++ s) with ((a :: q') ++ s).
  rewrite (utf8_len_seq _ s Hq). cbn [length]. rewrite utf8_ok_skip. exact IH.
Qed.

Lemma utf8_ok_sound_n n : forall s, length s <= n -> utf8_ok s = true -> Utf8 s.
Proof.
  unfold utf8_ok. induction n as [|n IH]; intros s Hl H.
  - destruct s; [constructor|simpl in Hl; lia].
  - destruct s as [|a r]; [constructor|]. cbn [utf8_ok_from] in H.
    destruct (utf8_len (a :: r)) as [|k] eqn:E; [discriminate|].
    pose proof (utf8_len_sound _ _ E) as Hq. pose proof (utf8_len_le (a :: r)) as Hle. rewrite E in Hle.
    cbn [firstn] in Hq. cbn [length] in Hle.
    rewrite <- (firstn_skipn k r) in H. rewrite <- (firstn_skipn k r).
    assert (Hk : length (firstn k r) = k) by (rewrite firstn_length; lia).
    rewrite <- Hk in H at 1. rewrite utf8_ok_skip in H.
    change (a :: firstn k r ++ skipn k r) with ((a :: firstn k r) ++ skipn k r).
    constructor; [assumption|]. apply IH; [|assumption]. rewrite skipn_length. simpl in Hl. lia.
Qed.

Lemma utf8_ok_iff s : utf8_ok s = true <-> Utf8 s.
Proof. split; [apply (utf8_ok_sound_n (length s)); lia | apply utf8_ok_complete]. Qed.

(* ================= utf8.EncodeRune produces well-formed sequences ================= *)
Lemma utf8_encode_seq cp :
  (cp < 1114112)%N -> ~ (55296 <= cp < 57344)%N -> Utf8Seq (utf8_encode cp).
Proof.
  intros Hlt Hs. unfold utf8_encode. ifs; constructor; rewrite ?byte_of_N by lia; lia.
Qed.

Lemma repl_seq : Utf8Seq repl.
Proof. unfold repl. constructor; rewrite ?byte_of_N by lia; lia. Qed.

(* DecodeRune followed by EncodeRune reproduces a well-formed sequence (so copying it is what unquoteBytes
   does), and the decoded value is a Unicode scalar value *)
Lemma utf8_reencode q : Utf8Seq q -> utf8_encode (utf8_decode_seq q) = q.
Proof.
  intros [a Ha|a b Ha Hb|a b c Ha Hc|a b c d Ha Hc Hd]; unfold utf8_decode_seq, utf8_encode.
  - replace (N_of_ascii a <? 128)%N with true by lia. rewrite byte_of_ascii'. reflexivity.
  - set (x := N_of_ascii a) in *. set (y := N_of_ascii b) in *.
    replace ((x - 192) * 64 + (y - 128) <? 128)%N with false by lia.
    replace ((x - 192) * 64 + (y - 128) <? 2048)%N with true by lia.
    replace (192 + ((x - 192) * 64 + (y - 128)) / 64)%N with x by lia.
    replace (128 + ((x - 192) * 64 + (y - 128)) mod 64)%N with y by lia.
    subst x y. rewrite !byte_of_ascii'. reflexivity.
  - set (x := N_of_ascii a) in *. set (y := N_of_ascii b) in *. set (z := N_of_ascii c) in *.
    set (cp := (((x - 224) * 64 + (y - 128)) * 64 + (z - 128))%N).
    assert (Hcp : (cp = (x - 224) * 4096 + (y - 128) * 64 + (z - 128))%N) by (unfold cp; lia).
    replace (cp <? 128)%N with false by lia. replace (cp <? 2048)%N with false by lia.
    replace (cp <? 65536)%N with true by lia.
    replace (224 + cp / 4096)%N with x by lia.
    replace (128 + (cp / 64) mod 64)%N with y by lia.
    replace (128 + cp mod 64)%N with z by lia.
    subst x y z. rewrite !byte_of_ascii'. reflexivity.
  - set (x := N_of_ascii a) in *. set (y := N_of_ascii b) in *. set (z := N_of_ascii c) in *. set (t := N_of_ascii d) in *.
    set (cp := ((((x - 240) * 64 + (y - 128)) * 64 + (z - 128)) * 64 + (t - 128))%N).
    assert (Hcp : (cp = (x - 240) * 262144 + (y - 128) * 4096 + (z - 128) * 64 + (t - 128))%N) by (unfold cp; lia).
    replace (cp <? 128)%N with false by lia. replace (cp <? 2048)%N with false by lia.
    replace (cp <? 65536)%N with false by lia.
    replace (240 + cp / 262144)%N with x by lia.
    replace (128 + (cp / 4096) mod 64)%N with y by lia.
    replace (128 + (cp / 64) mod 64)%N with z by lia.
    replace (128 + cp mod 64)%N with t by lia.
    subst x y z t. rewrite !byte_of_ascii'. reflexivity.
Qed.

Lemma utf8_decode_scalar q :
  Utf8Seq q -> (utf8_decode_seq q < 1114112)%N /\ is_surrogate (utf8_decode_seq q) = false.
Proof.
  intros [a Ha|a b Ha Hb|a b c Ha Hc|a b c d Ha Hc Hd]; unfold utf8_decode_seq, is_surrogate.
  - pose proof (N_of_ascii_lt a). lia.
  - lia.
  - lia.
  - lia.
Qed.

Lemma utf8_reencode_scalar q :
  Utf8Seq q ->
  utf8_encode (utf8_decode_seq q) = q /\ (utf8_decode_seq q < 1114112)%N /\ is_surrogate (utf8_decode_seq q) = false.
Proof. intros H. split; [apply utf8_reencode|apply utf8_decode_scalar]; assumption. Qed.

(* ================= unquote, item by item ================= *)
Lemma unq_skip p : forall acc s, unq (length p) acc (p ++ s) = unq 0 acc s.
Proof. induction p as [|x p IH]; intros acc s; [reflexivity|]. cbn [length app unq]. apply IH. Qed.

Lemma rev_rev_append {A : Type} (d acc : list A) : rev (rev_append d acc) = rev acc ++ d.
Proof. rewrite rev_append_rev, rev_app_distr, rev_involutive. reflexivity. Qed.

Lemma unq_acc bs : forall k acc, unq k acc bs = rev acc ++ unq k [] bs.
Proof.
  induction bs as [|c r IH]; intros k acc.
  - cbn [unq]. rewrite !rev'_rev. simpl. rewrite app_nil_r. reflexivity.
  - cbn [unq]. destruct k as [|k]; [|apply IH].
    destruct (unq_step (c :: r)) as [d k']. rewrite IH. rewrite (IH _ (rev_append d [])).
    rewrite !rev_rev_append. simpl. rewrite <- app_assoc. reflexivity.
Qed.

Lemma unq_step_prefix p rest d acc :
  p <> [] -> unq_step (p ++ rest) = (d, length p) -> unq 0 acc (p ++ rest) = unq 0 (rev_append d acc) rest.
Proof.
  destruct p as [|x p]; [congruence|]. intros _ H. cbn [app unq]. cbn [app] in H. rewrite H.
  cbn [length pred]. apply unq_skip.
Qed.

Lemma pair_after_len cp r x : pair_after cp r = Some x -> 6 <= length r.
Proof.
  unfold pair_after. destruct (cp <? 56320)%N; [|discriminate].
  destruct r as [|b [|u [|g1 [|g2 [|g3 [|g4 r]]]]]]; try discriminate. simpl. lia.
Qed.

Lemma unq_step_bounds bs : bs <> [] -> 1 <= snd (unq_step bs) <= length bs.
Proof.
  destruct bs as [|c r]; [congruence|]. intros _. unfold unq_step.
  destruct (is_byte c 92).
  - destruct r as [|e r1]; [simpl; lia|]. destruct (is_byte e 117).
    + destruct r1 as [|h1 [|h2 [|h3 [|h4 r2]]]]; try (simpl; lia).
      destruct (is_hex h1 && is_hex h2 && is_hex h3 && is_hex h4); [|simpl; lia].
      cbv zeta. destruct ((55296 <=? hex4 h1 h2 h3 h4)%N && (hex4 h1 h2 h3 h4 <? 57344)%N); [|simpl; lia].
      destruct (pair_after (hex4 h1 h2 h3 h4) r2) eqn:E; [|simpl; lia].
      apply pair_after_len in E. simpl. lia.
    + destruct (simple_escape e); simpl; lia.
  - destruct (N_of_ascii c <? 128)%N; [simpl; lia|].
    pose proof (utf8_len_le (c :: r)). destruct (utf8_len (c :: r)); simpl in *; lia.
Qed.

(* the defining equation of [unquote]: decode one item, go on after it *)
Lemma unquote_step bs d k :
  bs <> [] -> unq_step bs = (d, k) -> unquote bs = d ++ unquote (skipn k bs).
Proof.
  intros Hne H. pose proof (unq_step_bounds bs Hne) as Hb. rewrite H in Hb. cbn [snd] in Hb.
  unfold unquote. rewrite <- (firstn_skipn k bs) at 1.
  assert (Hl : length (firstn k bs) = k) by (rewrite firstn_length; lia).
  rewrite (unq_step_prefix (firstn k bs) (skipn k bs) d []).
  - rewrite unq_acc. rewrite rev_rev_append. reflexivity.
  - intros E. rewrite E in Hl. simpl in Hl. lia.
  - rewrite firstn_skipn, Hl. exact H.
Qed.

Lemma simple_escape_ascii e x : simple_escape e = Some x -> (N_of_ascii x < 128)%N.
Proof.
  unfold simple_escape. cbv zeta. ifs; intros H; inversion H; subst; try lia; vm_compute; reflexivity.
Qed.

Lemma hexval_lt c : is_hex c = true -> (hexval c < 16)%N.
Proof. intros H. unfold hexval. cls. ifs; lia. Qed.

Lemma hex4_lt h1 h2 h3 h4 :
  is_hex h1 = true -> is_hex h2 = true -> is_hex h3 = true -> is_hex h4 = true -> (hex4 h1 h2 h3 h4 < 65536)%N.
Proof. intros A B C D. apply hexval_lt in A, B, C, D. unfold hex4. lia. Qed.

Lemma some_inj {A : Type} (a b : A) : Some a = Some b -> a = b.
Proof. congruence. Qed.

Lemma pair_after_range cp r x :
  (55296 <= cp)%N -> pair_after cp r = Some x -> (65536 <= x < 1114112)%N.
Proof.
  unfold pair_after. intros Hc. destruct (cp <? 56320)%N eqn:E; [|discriminate].
  destruct r as [|b [|u [|g1 [|g2 [|g3 [|g4 r]]]]]]; try discriminate.
  destruct (is_byte b 92 && is_byte u 117 && is_hex g1 && is_hex g2 && is_hex g3 && is_hex g4); [|discriminate].
  cbv zeta. destruct ((56320 <=? hex4 g1 g2 g3 g4)%N && (hex4 g1 g2 g3 g4 <? 57344)%N) eqn:E2; [|discriminate].
  intros H. apply some_inj in H. subst x. lia.
Qed.

(* every item decodes to well-formed UTF-8 *)
Lemma unq_step_utf8 bs : Utf8 (fst (unq_step bs)).
Proof.
  destruct bs as [|c r]; [constructor|]. unfold unq_step.
  destruct (is_byte c 92).
  - destruct r as [|e r1]; [constructor|]. destruct (is_byte e 117).
    + destruct r1 as [|h1 [|h2 [|h3 [|h4 r2]]]]; try constructor.
      destruct (is_hex h1 && is_hex h2 && is_hex h3 && is_hex h4) eqn:Eh; [|constructor].
      apply andb_true_iff in Eh as [Eh E4]. apply andb_true_iff in Eh as [Eh E3]. apply andb_true_iff in Eh as [E1 E2].
      pose proof (hex4_lt _ _ _ _ E1 E2 E3 E4) as Hlt. cbv zeta.
      destruct ((55296 <=? hex4 h1 h2 h3 h4)%N && (hex4 h1 h2 h3 h4 <? 57344)%N) eqn:Es.
      * destruct (pair_after (hex4 h1 h2 h3 h4) r2) as [x|] eqn:Ep; cbn [fst].
        -- apply utf8_seq_utf8, utf8_encode_seq; apply pair_after_range in Ep; lia.
        -- apply utf8_seq_utf8, repl_seq.
      * cbn [fst]. apply utf8_seq_utf8, utf8_encode_seq; lia.
    + destruct (simple_escape e) as [x|] eqn:Ee; [|constructor]. cbn [fst].
      apply utf8_seq_utf8. constructor. eapply simple_escape_ascii; eassumption.
  - destruct (N_of_ascii c <? 128)%N eqn:E.
    + cbn [fst]. apply utf8_seq_utf8. constructor. lia.
    + destruct (utf8_len (c :: r)) as [|k] eqn:El; cbn [fst].
      * apply utf8_seq_utf8, repl_seq.
      * apply utf8_seq_utf8. apply utf8_len_sound. exact El.
Qed.

Lemma unquote_nil : unquote [] = [].
Proof. reflexivity. Qed.

(* ---- whatever the literal, the decoded string is well-formed UTF-8 ---- *)
Lemma unquote_utf8_n n : forall bs, length bs <= n -> Utf8 (unquote bs).
Proof.
  induction n as [|n IH]; intros bs Hl.
  - destruct bs; [constructor|simpl in Hl; lia].
  - destruct bs as [|c r]; [constructor|].
    destruct (unq_step (c :: r)) as [d k] eqn:E.
    rewrite (unquote_step (c :: r) d k) by (congruence || assumption).
    pose proof (unq_step_bounds (c :: r)) as Hb. rewrite E in Hb. cbn [snd] in Hb.
    apply utf8_app.
    + pose proof (unq_step_utf8 (c :: r)) as Hu. rewrite E in Hu. exact Hu.
    + apply IH. rewrite skipn_length. assert (c :: r <> []) by congruence. specialize (Hb H). lia.
Qed.

Lemma unquote_utf8 bs : Utf8 (unquote bs).
Proof. apply (unquote_utf8_n (length bs)). lia. Qed.

(* ---- the rules of unquoteBytes, one by one ---- *)
Lemma unquote_ascii c r :
  is_byte c 92 = false -> (N_of_ascii c < 128)%N -> unquote (c :: r) = c :: unquote r.
Proof.
  intros Hb Hc. erewrite unquote_step; [| congruence |].
  2:{ unfold unq_step. rewrite Hb. replace (N_of_ascii c <? 128)%N with true by lia. reflexivity. }
  reflexivity.
Qed.

Lemma unquote_simple_escape b e x r :
  is_byte b 92 = true -> simple_escape e = Some x -> unquote (b :: e :: r) = x :: unquote r.
Proof.
  intros Hb He. erewrite unquote_step; [| congruence |].
  2:{ unfold unq_step. rewrite Hb, (simple_escape_not_u e x He), He. reflexivity. }
  reflexivity.
Qed.

(* \uXXXX outside the surrogate range: the code point, UTF-8 encoded *)
Lemma unquote_u_scalar b u h1 h2 h3 h4 r :
  is_byte b 92 = true -> is_byte u 117 = true ->
  is_hex h1 = true -> is_hex h2 = true -> is_hex h3 = true -> is_hex h4 = true ->
  is_surrogate (hex4 h1 h2 h3 h4) = false ->
  unquote (b :: u :: h1 :: h2 :: h3 :: h4 :: r) = utf8_encode (hex4 h1 h2 h3 h4) ++ unquote r.
Proof.
  intros Hb Hu H1 H2 H3 H4 Hs. erewrite unquote_step; [| congruence |].
  2:{ unfold unq_step. rewrite Hb, Hu, H1, H2, H3, H4. cbn [andb]. cbv zeta.
      unfold is_surrogate in Hs. rewrite Hs. reflexivity. }
  reflexivity.
Qed.

(* a high surrogate escape immediately followed by a low surrogate escape: one supplementary code point *)
Lemma unquote_u_pair b u h1 h2 h3 h4 r x :
  is_byte b 92 = true -> is_byte u 117 = true ->
  is_hex h1 = true -> is_hex h2 = true -> is_hex h3 = true -> is_hex h4 = true ->
  is_surrogate (hex4 h1 h2 h3 h4) = true -> pair_after (hex4 h1 h2 h3 h4) r = Some x ->
  unquote (b :: u :: h1 :: h2 :: h3 :: h4 :: r) = utf8_encode x ++ unquote (skipn 6 r).
Proof.
  intros Hb Hu H1 H2 H3 H4 Hs Hp. erewrite unquote_step; [| congruence |].
  2:{ unfold unq_step. rewrite Hb, Hu, H1, H2, H3, H4. cbn [andb]. cbv zeta.
      unfold is_surrogate in Hs. rewrite Hs, Hp. reflexivity. }
  reflexivity.
Qed.

(* any other surrogate escape (a low one, or a high one not followed by a low one): U+FFFD, and only the
   one escape is consumed *)
Lemma unquote_u_lone b u h1 h2 h3 h4 r :
  is_byte b 92 = true -> is_byte u 117 = true ->
  is_hex h1 = true -> is_hex h2 = true -> is_hex h3 = true -> is_hex h4 = true ->
  is_surrogate (hex4 h1 h2 h3 h4) = true -> pair_after (hex4 h1 h2 h3 h4) r = None ->
  unquote (b :: u :: h1 :: h2 :: h3 :: h4 :: r) = repl ++ unquote r.
Proof.
  intros Hb Hu H1 H2 H3 H4 Hs Hp. erewrite unquote_step; [| congruence |].
  2:{ unfold unq_step. rewrite Hb, Hu, H1, H2, H3, H4. cbn [andb]. cbv zeta.
      unfold is_surrogate in Hs. rewrite Hs, Hp. reflexivity. }
  reflexivity.
Qed.

(* a well-formed multi-byte sequence is copied *)
Lemma unquote_seq q r :
  Utf8Seq q -> (match q with a :: _ => is_byte a 92 = false | [] => True end) -> unquote (q ++ r) = q ++ unquote r.
Proof.
  intros Hq Hb. destruct (utf8_seq_nonempty q Hq) as (a & q' & ->).
  destruct (N_of_ascii a <? 128)%N eqn:Ea.
  - inversion Hq; subst; try lia. cbn [app]. apply unquote_ascii; [assumption|lia].
  - erewrite unquote_step; [| simpl; congruence |].
    2:{ cbn [app]. unfold unq_step. rewrite Hb, Ea. change (a :: q' ++ r) with ((a :: q') ++ r).
        rewrite (utf8_len_seq _ r Hq). cbn [length]. reflexivity. }
    change (S (length q')) with (length (a :: q')).
    rewrite firstn_app, Nat.sub_diag, firstn_all, skipn_app, Nat.sub_diag, skipn_all. simpl.
    rewrite app_nil_r. reflexivity.
Qed.

(* a byte >= 0x80 that does not start a well-formed sequence: U+FFFD, one byte consumed *)
Lemma unquote_invalid_byte c r :
  (128 <= N_of_ascii c)%N -> utf8_len (c :: r) = 0 -> unquote (c :: r) = repl ++ unquote r.
Proof.
  intros Hc Hl. erewrite unquote_step; [| congruence |].
  2:{ unfold unq_step. replace (is_byte c 92) with false by (symmetry; bytes).
      replace (N_of_ascii c <? 128)%N with false by lia. rewrite Hl. reflexivity. }
  reflexivity.
Qed.

(* ================= the canonical quoting ================= *)
Lemma hexdig_N x : (x < 16)%N -> N_of_ascii (hexdig x) = (if x <? 10 then 48 + x else 87 + x)%N.
Proof. intros. unfold hexdig. apply byte_of_N. ifs; lia. Qed.

Lemma hexdig_hex x : (x < 16)%N -> is_hex (hexdig x) = true.
Proof. intros H. cls. rewrite (hexdig_N x H). ifs; lia. Qed.

Lemma hexdig_val x : (x < 16)%N -> hexval (hexdig x) = x.
Proof. intros H. unfold hexval. rewrite (hexdig_N x H). ifs; lia. Qed.

Lemma quote_byte_high c : (128 <= N_of_ascii c)%N -> quote_byte c = [c].
Proof. intros H. unfold quote_byte. ifs; try reflexivity; lia. Qed.

Lemma byte_of_ascii c : byte_of (N_of_ascii c) = c.
Proof. apply ascii_N_embedding. Qed.

Lemma b92 : is_byte (byte_of 92) 92 = true. Proof. reflexivity. Qed.
Lemma b117 : is_byte (byte_of 117) 117 = true. Proof. reflexivity. Qed.
Lemma b48_hex : is_hex (byte_of 48) = true. Proof. reflexivity. Qed.
Lemma b48_val : hexval (byte_of 48) = 0%N. Proof. reflexivity. Qed.

Lemma quote_byte_body a r : StrBody r -> StrBody (quote_byte a ++ r).
Proof.
  intros Hr. unfold quote_byte.
  destruct ((N_of_ascii a =? 34)%N || (N_of_ascii a =? 92)%N) eqn:E1.
  - cbn [app]. apply (sb_esc _ _ a); [exact b92 | | assumption].
    unfold simple_escape. cbv zeta. ifs; try reflexivity; lia.
  - destruct (N_of_ascii a <? 32)%N eqn:E2.
    + cbn [app]. apply sb_u; try assumption; try reflexivity; apply hexdig_hex; lia.
    + cbn [app]. constructor; try assumption; bytes.
Qed.

Lemma quote_body_ok s : StrBody (quote_body s).
Proof.
  induction s as [|a s IH]; [constructor|]. unfold quote_body. cbn [flat_map]. apply quote_byte_body. exact IH.
Qed.

Lemma unquote_quote_byte a r :
  (N_of_ascii a < 128)%N -> unquote (quote_byte a ++ r) = a :: unquote r.
Proof.
  intros Ha. unfold quote_byte.
  destruct ((N_of_ascii a =? 34)%N || (N_of_ascii a =? 92)%N) eqn:E1.
  - cbn [app]. apply unquote_simple_escape; [exact b92|]. unfold simple_escape. cbv zeta. ifs; try reflexivity; lia.
  - destruct (N_of_ascii a <? 32)%N eqn:E2.
    + cbn [app]. rewrite unquote_u_scalar; try reflexivity; try (apply hexdig_hex; lia).
      * unfold hex4. rewrite b48_val, !hexdig_val by lia.
        replace ((0 * 16 + 0) * 16 + N_of_ascii a / 16)%N with (N_of_ascii a / 16)%N by lia.
        replace (N_of_ascii a / 16 * 16 + N_of_ascii a mod 16)%N with (N_of_ascii a) by lia.
        unfold utf8_encode. replace (N_of_ascii a <? 128)%N with true by lia. rewrite byte_of_ascii. reflexivity.
      * unfold hex4, is_surrogate. rewrite b48_val, !hexdig_val by lia. lia.
    + cbn [app]. apply unquote_ascii; [bytes|assumption].
Qed.

(* ---- unquote undoes the canonical quoting of every well-formed UTF-8 string ---- *)
Lemma unquote_quote_body s : Utf8 s -> unquote (quote_body s) = s.
Proof.
  induction 1 as [|q s Hq Hs IH]; [reflexivity|].
  unfold quote_body. rewrite flat_map_app. fold (quote_body q) (quote_body s).
  destruct Hq as [a Ha|a b Ha Hb|a b c Ha Hc|a b c d Ha Hc Hd].
  - unfold quote_body at 1. cbn [flat_map]. rewrite app_nil_r. rewrite unquote_quote_byte by assumption. rewrite IH. reflexivity.
  - assert (Hq : Utf8Seq [a; b]) by (constructor; assumption).
    unfold quote_body at 1. cbn [flat_map]. rewrite !quote_byte_high by lia. cbn [app].
    change (a :: b :: quote_body s) with ([a; b] ++ quote_body s).
    rewrite unquote_seq; [rewrite IH; reflexivity|assumption|bytes].
  - assert (Hq : Utf8Seq [a; b; c]) by (constructor; assumption).
    unfold quote_body at 1. cbn [flat_map]. rewrite !quote_byte_high by lia. cbn [app].
    change (a :: b :: c :: quote_body s) with ([a; b; c] ++ quote_body s).
    rewrite unquote_seq; [rewrite IH; reflexivity|assumption|bytes].
  - assert (Hq : Utf8Seq [a; b; c; d]) by (constructor; assumption).
    unfold quote_body at 1. cbn [flat_map]. rewrite !quote_byte_high by lia. cbn [app].
    change (a :: b :: c :: d :: quote_body s) with ([a; b; c; d] ++ quote_body s).
    rewrite unquote_seq; [rewrite IH; reflexivity|assumption|bytes].
Qed.

Lemma lex_string_quote s rest :
  Utf8 s -> lex_string (quote_body s ++ q34 :: rest) = Some (s, rest).
Proof.
  intros Hs. rewrite (lex_string_accept _ q34 rest (quote_body_ok s) q34_quote).
  rewrite unquote_quote_body by assumption. reflexivity.
Qed.
