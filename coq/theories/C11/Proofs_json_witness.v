(* C11 — byte level: concrete witnesses (vm_compute). *)
From Coq Require Import String.
From Coq Require Import List Ascii Bool NArith.
From V Require Import C11.Model C11.Proofs_witness.
Import ListNotations.
Open Scope str_scope.

(* outside json_wf the round trip fails: ill-formed UTF-8 comes back as U+FFFD, `01` is the number 0 followed
   by trailing data, `1.` is no number, and a nesting deeper than the budget is refused *)
Lemma print_parse_needed :
  parse (print (JStr [byte_of 255])) = Some (JStr repl) /\
  parse (print (JNum L"01")) = Some (JNum L"0") /\
  parse (print (JNum L"1.")) = None /\
  json_wf 1 (JArr [JArr []]) = false /\ p_value (fuel_for (print (JArr [JArr []]))) 1 (print (JArr [JArr []])) = PBad.
Proof. vm_compute. repeat split. Qed.

(* 128 spaces in front of a one-entry batch: taken for a single request; with 127 spaces it is served *)
Definition w_window_bytes : str := repeat " "%char 128 ++ print (JArr [req_add [(L"id", JNum L"7")]]).

Lemma window_bytes_refuted :
  dev_batch_window (input_of_bytes w_window_bytes) = true /\
  handle_bytes coerce_go zero_go run_echo ms_demo w_window_bytes = ([], Some parse_error) /\
  spec_bytes coerce_go zero_go run_echo ms_demo w_window_bytes =
    ([(L"add", [JNum L"1"; JNum L"2"])], Some (JArr [mk_result (JNum L"7") (JArr [JNum L"1"; JNum L"2"])])) /\
  handle_bytes coerce_go zero_go run_echo ms_demo (skipn 1 w_window_bytes) =
    spec_bytes coerce_go zero_go run_echo ms_demo (skipn 1 w_window_bytes).
Proof. vm_compute. repeat split. Qed.

Definition w_mixed_value : json := match i_parsed w_mixed with Some v => v | None => JNull end.

Lemma bytes_mixed_example :
  json_wf max_depth w_mixed_value = true /\
  input_of_bytes (print w_mixed_value) = w_mixed /\
  no_deviation coerce_go zero_go ms_demo (input_of_bytes (print w_mixed_value)) = true /\
  handle_bytes coerce_go zero_go run_echo ms_demo (print w_mixed_value) = hdl w_mixed.
Proof. vm_compute. repeat split. Qed.
