(* C11 — concrete witnesses (vm_compute): the situations in which the faithful model leaves the
   specification, and non-vacuity of the hypotheses. *)
From Coq Require Import String.
From Coq Require Import List Ascii Bool.
From V Require Import C11.Model.
Import ListNotations.
Open Scope str_scope.

Definition ms_demo : methods :=
  [ mk_method L"add" [mk_param L"a" false TInt; mk_param L"b" false TInt];
    mk_method L"opt" [mk_param L"a" false TInt; mk_param L"b" true TOptInt; mk_param L"c" true TStr];
    mk_method L"mid" [mk_param L"a" true TOptInt; mk_param L"b" false TInt] ].

Definition num (s : str) : json := JNum s.
Definition req_add (id : list (str * json)) : json :=
  JObj ([(L"jsonrpc", JStr L"2.0"); (L"method", JStr L"add"); (L"params", JArr [JNum L"1"; JNum L"2"])] ++ id).

Definition hdl := handle coerce_go zero_go run_echo ms_demo.
Definition spc := spec_handle coerce_go zero_go run_echo ms_demo.

(* `1` : -32700 instead of -32600 *)
Definition w_non_object : input := mk_input false (Some (JNum L"1")).
Lemma non_object_refuted :
  grammar_ok w_non_object = true /\ dev_non_object w_non_object = true /\
  snd (hdl w_non_object) = Some parse_error /\ snd (spc w_non_object) = Some (invalid_request JNull) /\
  codes coerce_go zero_go run_echo ms_demo w_non_object (snd (hdl w_non_object)) = false.
Proof. vm_compute. repeat split. Qed.

(* {"jsonrpc":2.0,"method":"add","params":[1,2],"id":1} : -32700 instead of -32600 *)
Definition w_ill_typed : input :=
  mk_input false (Some (JObj [(L"jsonrpc", JNum L"2.0"); (L"method", JStr L"add");
                              (L"params", JArr [JNum L"1"; JNum L"2"]); (L"id", JNum L"1")])).
Lemma ill_typed_refuted :
  grammar_ok w_ill_typed = true /\ dev_ill_typed w_ill_typed = true /\
  snd (hdl w_ill_typed) = Some parse_error /\ snd (spc w_ill_typed) = Some (invalid_request JNull) /\
  codes coerce_go zero_go run_echo ms_demo w_ill_typed (snd (hdl w_ill_typed)) = false.
Proof. vm_compute. repeat split. Qed.

(* {"jsonrpc":"2.0","method":"add","params":[1,2],"id":null} : the handler runs, nothing is answered *)
Definition w_null_id : input := mk_input false (Some (req_add [(L"id", JNull)])).
Lemma null_id_refuted :
  grammar_ok w_null_id = true /\ dev_null_id coerce_go zero_go ms_demo w_null_id = true /\
  hdl w_null_id = ([(L"add", [JNum L"1"; JNum L"2"])], None) /\
  snd (spc w_null_id) = Some (mk_result JNull (JArr [JNum L"1"; JNum L"2"])) /\
  resp_correlated coerce_go zero_go run_echo ms_demo w_null_id (snd (hdl w_null_id)) = false.
Proof. vm_compute. repeat split. Qed.

(* {"jsonrpc":"2.0","method":"nope"} : a notification is answered with an error *)
Definition w_notif_error : input :=
  mk_input false (Some (JObj [(L"jsonrpc", JStr L"2.0"); (L"method", JStr L"nope")])).
Lemma notif_error_refuted :
  grammar_ok w_notif_error = true /\ dev_notif_error coerce_go zero_go ms_demo w_notif_error = true /\
  snd (hdl w_notif_error) = Some (method_not_found JNull) /\ snd (spc w_notif_error) = None /\
  resp_correlated coerce_go zero_go run_echo ms_demo w_notif_error (snd (hdl w_notif_error)) = false.
Proof. vm_compute. repeat split. Qed.

(* a batch after >= 128 bytes of white space: isBatch says "single", the array fails to decode *)
Definition w_window : input := mk_input false (Some (JArr [req_add [(L"id", JNum L"7")]])).
Lemma batch_window_refuted :
  grammar_ok w_window = true /\ dev_batch_window w_window = true /\
  hdl w_window = ([], Some parse_error) /\
  spc w_window = ([(L"add", [JNum L"1"; JNum L"2"])], Some (JArr [mk_result (JNum L"7") (JArr [JNum L"1"; JNum L"2"])])) /\
  calls_once coerce_go zero_go run_echo ms_demo w_window (fst (hdl w_window)) = false.
Proof. vm_compute. repeat split. Qed.

(* positional = named needs the optional parameters to be a tail: "mid" = (a optional, b required) *)
Definition m_mid : method := mk_method L"mid" [mk_param L"a" true TOptInt; mk_param L"b" false TInt].
Lemma positional_eq_named_needed_lemma :
  optional_tail (m_params m_mid) = false /\ NoDup (map p_name (m_params m_mid)) /\
  build_args coerce_go zero_go m_mid (JArr [JNum L"5"]) = Some [JNum L"5"; JNum L"0"] /\
  build_args coerce_go zero_go m_mid (JObj [(L"a", JNum L"5")]) = None.
Proof.
  repeat split; try (vm_compute; reflexivity).
  repeat constructor; simpl; intuition discriminate.
Qed.

(* the hypotheses of the refinement theorem are met by a batch that mixes a call, a notification, a call by
   name with an optional parameter left out, an unknown method, bad params and two invalid entries *)
Definition w_mixed : input :=
  mk_input true (Some (JArr [
    req_add [(L"id", JNum L"1")];
    req_add [];
    JObj [(L"jsonrpc", JStr L"2.0"); (L"method", JStr L"opt"); (L"params", JObj [(L"a", JNum L"3")]); (L"id", JStr L"x")];
    JObj [(L"jsonrpc", JStr L"2.0"); (L"method", JStr L"nope"); (L"id", JNum L"2")];
    JObj [(L"jsonrpc", JStr L"2.0"); (L"method", JStr L"add"); (L"params", JArr [JStr L"q"; JNum L"2"]); (L"id", JNum L"3")];
    JNum L"7";
    JObj [(L"jsonrpc", JStr L"1.0"); (L"method", JStr L"add"); (L"id", JNum L"4")] ])).

Lemma mixed_meets_hypotheses :
  grammar_ok w_mixed = true /\ no_deviation coerce_go zero_go ms_demo w_mixed = true /\
  hdl w_mixed =
  ([(L"add", [JNum L"1"; JNum L"2"]); (L"add", [JNum L"1"; JNum L"2"]); (L"opt", [JNum L"3"; JNull; JStr []])],
   Some (JArr [ mk_result (JNum L"1") (JArr [JNum L"1"; JNum L"2"]);
                mk_result (JStr L"x") (JArr [JNum L"3"; JNull; JStr []]);
                method_not_found (JNum L"2");
                invalid_params (JNum L"3");
                invalid_request JNull;
                invalid_request (JNum L"4") ])).
Proof. vm_compute. repeat split. Qed.

(* positional and named forms of one call: same arguments, same response *)
Lemma positional_named_example :
  let pos := JObj [(L"jsonrpc", JStr L"2.0"); (L"method", JStr L"opt"); (L"params", JArr [JNum L"3"; JNum L"4"]); (L"id", JNum L"1")] in
  let named := JObj [(L"jsonrpc", JStr L"2.0"); (L"method", JStr L"opt");
                     (L"params", JObj [(L"b", JNum L"4"); (L"a", JNum L"3")]); (L"id", JNum L"1")] in
  hdl (mk_input false (Some pos)) = hdl (mk_input false (Some named)) /\
  fst (hdl (mk_input false (Some pos))) = [(L"opt", [JNum L"3"; JNum L"4"; JStr []])].
Proof. vm_compute. repeat split. Qed.
