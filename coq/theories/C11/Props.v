(* C11 — property theorems only. Each is closed by [exact] of a lemma from Proofs.v / Proofs_witness.v and
   followed by Print Assumptions.
   Reading guide.  [handle coerce zero run ms inp] is the model of Server.HandleReader on the parsed input
   [inp] = (isBatch's verdict, what encoding/json makes of the bytes); it returns the handler invocations
   and the output.  [spec_handle] is what JSON-RPC 2.0 prescribes.  The theorems quantify over ALL JSON
   values, ALL method tables and ALL coercion / zero-value / handler functions. *)
From Coq Require Import String.
From Coq Require Import List Ascii Bool.
From V Require Import C11.Model C11.Proofs C11.Proofs_witness.
Import ListNotations.
Open Scope str_scope.

(* ---- well-formedness: every output is absent, one response object, or a non-empty array of response
   objects; each has jsonrpc "2.0", an id, exactly one of result / error and nothing else.  No hypothesis. *)
Theorem C11_resp_wellformed :
  forall coerce zero run (ms : methods) (inp : input),
    resp_wellformed (snd (handle coerce zero run ms inp)) = true.
Proof. exact handle_wellformed. Qed.
Print Assumptions C11_resp_wellformed.

(* ---- outside the five situations [no_deviation] excludes, the server does exactly what JSON-RPC 2.0
   prescribes: same invocations, same output (responses in request order) *)
Theorem C11_refines_spec :
  forall coerce zero run (ms : methods) (inp : input),
    grammar_ok inp = true -> no_deviation coerce zero ms inp = true ->
    handle coerce zero run ms inp = spec_handle coerce zero run ms inp.
Proof. exact handle_refines_spec. Qed.
Print Assumptions C11_refines_spec.

(* ... hence all four predicates the harness evaluates hold of it *)
Theorem C11_spec_ok :
  forall coerce zero run (ms : methods) (inp : input),
    grammar_ok inp = true -> no_deviation coerce zero ms inp = true ->
    spec_ok coerce zero run ms inp (handle coerce zero run ms inp) = true.
Proof. exact spec_ok_lemma. Qed.
Print Assumptions C11_spec_ok.

(* ---- correlation: no output iff nothing is to be answered, an array iff a batch, and the multiset of
   response ids is the multiset of ids of the requests to be answered (null for invalid ones).  The two
   error-code deviations do not matter here. *)
Theorem C11_resp_correlated :
  forall coerce zero run (ms : methods) (inp : input),
    grammar_ok inp = true -> dev_batch_window inp = false ->
    dev_null_id coerce zero ms inp = false -> dev_notif_error coerce zero ms inp = false ->
    resp_correlated coerce zero run ms inp (snd (handle coerce zero run ms inp)) = true.
Proof. exact resp_correlated_lemma. Qed.
Print Assumptions C11_resp_correlated.

(* ---- codes: each answered request gets, under its id, its handler's outcome or the standard error *)
Theorem C11_codes :
  forall coerce zero run (ms : methods) (inp : input),
    grammar_ok inp = true -> no_deviation coerce zero ms inp = true ->
    codes coerce zero run ms inp (snd (handle coerce zero run ms inp)) = true.
Proof. exact codes_lemma. Qed.
Print Assumptions C11_codes.

(* ---- invocations: exactly those the specification demands — one per valid request with a registered
   method and bindable params, with the bound arguments — whatever the ids / notification status are *)
Theorem C11_calls_once :
  forall coerce zero run (ms : methods) (inp : input),
    grammar_ok inp = true -> dev_batch_window inp = false ->
    calls_once coerce zero run ms inp (fst (handle coerce zero run ms inp)) = true.
Proof. exact calls_once_lemma. Qed.
Print Assumptions C11_calls_once.

(* ---- the same facts spelled out for one decoded request *)
Theorem C11_request_outcome :
  forall coerce zero run (ms : methods) (d : dreq),
    match is_sane d with
    | SaneOk =>
        match find_method ms (d_method d) with
        | None => handle_request coerce zero run ms d = ([], Some (method_not_found (d_id d)))         (* -32601 *)
        | Some m =>
            match build_args coerce zero m (d_params d) with
            | None => handle_request coerce zero run ms d = ([], Some (invalid_params (d_id d)))      (* -32602 *)
            | Some args =>
                fst (handle_request coerce zero run ms d) = [(m_name m, args)] /\                     (* exactly once *)
                (d_id d <> JNull ->
                 snd (handle_request coerce zero run ms d) = Some (resp_of (d_id d) (run (m_name m) args))) /\
                (d_id d = JNull -> snd (handle_request coerce zero run ms d) = None)
            end
        end
    | _ => exists id, handle_request coerce zero run ms d = ([], Some (invalid_request id))            (* -32600 *)
    end.
Proof. exact request_outcome. Qed.
Print Assumptions C11_request_outcome.

Theorem C11_unparsable_is_parse_error :                                                                  (* -32700 *)
  forall coerce zero run (ms : methods) (b : bool),
    handle coerce zero run ms (mk_input b None) = ([], Some parse_error).
Proof. exact unparsable_outcome. Qed.
Print Assumptions C11_unparsable_is_parse_error.

Theorem C11_empty_batch_is_invalid_request :
  forall coerce zero run (ms : methods),
    handle coerce zero run ms (mk_input true (Some (JArr []))) = ([], Some (invalid_request JNull)).
Proof. exact empty_batch_outcome. Qed.
Print Assumptions C11_empty_batch_is_invalid_request.

(* a batch is answered entry by entry: one response per entry that has one, in an array; no array at all
   when no entry has one *)
Theorem C11_batch_pointwise :
  forall coerce zero run (ms : methods) (e : json) (es : list json),
    handle coerce zero run ms (mk_input true (Some (JArr (e :: es)))) =
    (flat_map (fun x => fst (handle_entry coerce zero run ms x)) (e :: es),
     match somes (map (fun x => snd (handle_entry coerce zero run ms x)) (e :: es)) with
     | [] => None
     | l => Some (JArr l)
     end).
Proof. exact batch_outcome. Qed.
Print Assumptions C11_batch_pointwise.

Theorem C11_all_notifications_no_output :
  forall coerce zero run (ms : methods) (e : json) (es : list json),
    (forall x, In x (e :: es) -> snd (handle_entry coerce zero run ms x) = None) ->
    snd (handle coerce zero run ms (mk_input true (Some (JArr (e :: es))))) = None.
Proof. exact all_notifications_no_output. Qed.
Print Assumptions C11_all_notifications_no_output.

(* ---- positional = named: the first k parameters given by position or by name bind identically, provided
   the parameter names are distinct and the optional parameters form a tail *)
Theorem C11_positional_eq_named :
  forall coerce zero (m : method) (vs : list json),
    NoDup (map p_name (m_params m)) -> optional_tail (m_params m) = true ->
    length vs <= length (m_params m) ->
    build_args coerce zero m (JObj (combine (map p_name (firstn (length vs) (m_params m))) vs)) =
    build_args coerce zero m (JArr vs).
Proof. exact positional_eq_named_lemma. Qed.
Print Assumptions C11_positional_eq_named.

Theorem C11_positional_eq_named_request :
  forall coerce zero run (ms : methods) (m : method) (ver meth : str) (id : json) (ip te : bool) (vs : list json),
    find_method ms meth = Some m ->
    NoDup (map p_name (m_params m)) -> optional_tail (m_params m) = true ->
    length vs <= length (m_params m) ->
    handle_request coerce zero run ms
      (mk_dreq ver meth (JObj (combine (map p_name (firstn (length vs) (m_params m))) vs)) id ip te) =
    handle_request coerce zero run ms (mk_dreq ver meth (JArr vs) id ip te).
Proof. exact positional_eq_named_request. Qed.
Print Assumptions C11_positional_eq_named_request.

(* ---- the hypotheses are not decorative: one witness per excluded situation (concrete Go-like coercion,
   echo handlers, three-method table), each computed by vm_compute in Proofs_witness.v *)
Theorem C11_non_object_code_refuted :
  grammar_ok w_non_object = true /\ dev_non_object w_non_object = true /\
  snd (hdl w_non_object) = Some parse_error /\ snd (spc w_non_object) = Some (invalid_request JNull) /\
  codes coerce_go zero_go run_echo ms_demo w_non_object (snd (hdl w_non_object)) = false.
Proof. exact non_object_refuted. Qed.
Print Assumptions C11_non_object_code_refuted.

Theorem C11_ill_typed_member_code_refuted :
  grammar_ok w_ill_typed = true /\ dev_ill_typed w_ill_typed = true /\
  snd (hdl w_ill_typed) = Some parse_error /\ snd (spc w_ill_typed) = Some (invalid_request JNull) /\
  codes coerce_go zero_go run_echo ms_demo w_ill_typed (snd (hdl w_ill_typed)) = false.
Proof. exact ill_typed_refuted. Qed.
Print Assumptions C11_ill_typed_member_code_refuted.

Theorem C11_null_id_refuted :
  grammar_ok w_null_id = true /\ dev_null_id coerce_go zero_go ms_demo w_null_id = true /\
  hdl w_null_id = ([(L"add", [JNum L"1"; JNum L"2"])], None) /\
  snd (spc w_null_id) = Some (mk_result JNull (JArr [JNum L"1"; JNum L"2"])) /\
  resp_correlated coerce_go zero_go run_echo ms_demo w_null_id (snd (hdl w_null_id)) = false.
Proof. exact null_id_refuted. Qed.
Print Assumptions C11_null_id_refuted.

Theorem C11_notification_error_refuted :
  grammar_ok w_notif_error = true /\ dev_notif_error coerce_go zero_go ms_demo w_notif_error = true /\
  snd (hdl w_notif_error) = Some (method_not_found JNull) /\ snd (spc w_notif_error) = None /\
  resp_correlated coerce_go zero_go run_echo ms_demo w_notif_error (snd (hdl w_notif_error)) = false.
Proof. exact notif_error_refuted. Qed.
Print Assumptions C11_notification_error_refuted.

Theorem C11_batch_window_refuted :
  grammar_ok w_window = true /\ dev_batch_window w_window = true /\
  hdl w_window = ([], Some parse_error) /\
  spc w_window = ([(L"add", [JNum L"1"; JNum L"2"])],
                  Some (JArr [mk_result (JNum L"7") (JArr [JNum L"1"; JNum L"2"])])) /\
  calls_once coerce_go zero_go run_echo ms_demo w_window (fst (hdl w_window)) = false.
Proof. exact batch_window_refuted. Qed.
Print Assumptions C11_batch_window_refuted.

Theorem C11_positional_eq_named_needed :
  optional_tail (m_params m_mid) = false /\ NoDup (map p_name (m_params m_mid)) /\
  build_args coerce_go zero_go m_mid (JArr [JNum L"5"]) = Some [JNum L"5"; JNum L"0"] /\
  build_args coerce_go zero_go m_mid (JObj [(L"a", JNum L"5")]) = None.
Proof. exact positional_eq_named_needed_lemma. Qed.
Print Assumptions C11_positional_eq_named_needed.

(* ---------- the statements are not vacuous ---------- *)
Example hypotheses_satisfiable :
  grammar_ok w_mixed = true /\ no_deviation coerce_go zero_go ms_demo w_mixed = true /\
  hdl w_mixed =
  ([(L"add", [JNum L"1"; JNum L"2"]); (L"add", [JNum L"1"; JNum L"2"]); (L"opt", [JNum L"3"; JNull; JStr []])],
   Some (JArr [ mk_result (JNum L"1") (JArr [JNum L"1"; JNum L"2"]);
                mk_result (JStr L"x") (JArr [JNum L"3"; JNull; JStr []]);
                method_not_found (JNum L"2");
                invalid_params (JNum L"3");
                invalid_request JNull;
                invalid_request (JNum L"4") ])).
Proof. exact mixed_meets_hypotheses. Qed.

Example positional_named_concrete :
  let pos := JObj [(L"jsonrpc", JStr L"2.0"); (L"method", JStr L"opt"); (L"params", JArr [JNum L"3"; JNum L"4"]); (L"id", JNum L"1")] in
  let named := JObj [(L"jsonrpc", JStr L"2.0"); (L"method", JStr L"opt");
                     (L"params", JObj [(L"b", JNum L"4"); (L"a", JNum L"3")]); (L"id", JNum L"1")] in
  hdl (mk_input false (Some pos)) = hdl (mk_input false (Some named)) /\
  fst (hdl (mk_input false (Some pos))) = [(L"opt", [JNum L"3"; JNum L"4"; JStr []])].
Proof. exact positional_named_example. Qed.

Example optional_tail_holds_of_demo_methods :
  forallb (fun m => optional_tail (m_params m)) (firstn 2 ms_demo) = true.
Proof. vm_compute. reflexivity. Qed.
