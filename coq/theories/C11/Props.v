(* C11 — property theorems only. Each is closed by [exact] of a lemma from Proofs.v / Proofs_witness.v and
   followed by Print Assumptions.
   Reading guide.  [handle coerce zero run ms inp] is the model of Server.HandleReader on the parsed input
   [inp] = (isBatch's verdict, what encoding/json makes of the bytes); it returns the handler invocations
   and the output.  [spec_handle] is what JSON-RPC 2.0 prescribes.  The theorems quantify over ALL JSON
   values, ALL method tables and ALL coercion / zero-value / handler functions. *)
From Coq Require Import String.
From Coq Require Import List Ascii Bool NArith.
From V Require Import C11.Model C11.Proofs C11.Proofs_witness.
From V Require Import C11.Proofs_json_lex C11.Proofs_json_utf8 C11.Proofs_json C11.Proofs_json_print
  C11.Proofs_json_sound C11.Proofs_bytes C11.Proofs_json_witness.
Import ListNotations.
Open Scope str_scope.

(* ---- well-formedness: every output is absent, one response object, or a non-empty array of response
   objects; each has jsonrpc "2.0", an id, exactly one of result / error and nothing else.  No hypothesis. *)
Theorem C11_resp_wellformed :
  forall coerce zero run (ms : methods) (inp : input),
    resp_wellformed (snd (handle coerce zero run ms inp)) = true.
Proof. exact handle_wellformed. Qed.
Print Assumptions C11_resp_wellformed.

(* ---- outside the five situations [no_deviation] excludes, the server does exactly what JSON-RPC 2.0
   prescribes: same invocations, same output (responses in request order) *)
Theorem C11_refines_spec :
  forall coerce zero run (ms : methods) (inp : input),
    grammar_ok inp = true -> no_deviation coerce zero ms inp = true ->
    handle coerce zero run ms inp = spec_handle coerce zero run ms inp.
Proof. exact handle_refines_spec. Qed.
Print Assumptions C11_refines_spec.

(* ... hence all four predicates the harness evaluates hold of it *)
Theorem C11_spec_ok :
  forall coerce zero run (ms : methods) (inp : input),
    grammar_ok inp = true -> no_deviation coerce zero ms inp = true ->
    spec_ok coerce zero run ms inp (handle coerce zero run ms inp) = true.
Proof. exact spec_ok_lemma. Qed.
Print Assumptions C11_spec_ok.

(* ---- correlation: no output iff nothing is to be answered, an array iff a batch, and the multiset of
   response ids is the multiset of ids of the requests to be answered (null for invalid ones).  The two
   error-code deviations do not matter here. *)
Theorem C11_resp_correlated :
  forall coerce zero run (ms : methods) (inp : input),
    grammar_ok inp = true -> dev_batch_window inp = false ->
    dev_null_id coerce zero ms inp = false -> dev_notif_error coerce zero ms inp = false ->
    resp_correlated coerce zero run ms inp (snd (handle coerce zero run ms inp)) = true.
Proof. exact resp_correlated_lemma. Qed.
Print Assumptions C11_resp_correlated.

(* ---- codes: each answered request gets, under its id, its handler's outcome or the standard error *)
Theorem C11_codes :
  forall coerce zero run (ms : methods) (inp : input),
    grammar_ok inp = true -> no_deviation coerce zero ms inp = true ->
    codes coerce zero run ms inp (snd (handle coerce zero run ms inp)) = true.
Proof. exact codes_lemma. Qed.
Print Assumptions C11_codes.

(* ---- invocations: exactly those the specification demands — one per valid request with a registered
   method and bindable params, with the bound arguments — whatever the ids / notification status are *)
Theorem C11_calls_once :
  forall coerce zero run (ms : methods) (inp : input),
    grammar_ok inp = true -> dev_batch_window inp = false ->
    calls_once coerce zero run ms inp (fst (handle coerce zero run ms inp)) = true.
Proof. exact calls_once_lemma. Qed.
Print Assumptions C11_calls_once.

(* ---- the same facts spelled out for one decoded request *)
Theorem C11_request_outcome :
  forall coerce zero run (ms : methods) (d : dreq),
    match is_sane d with
    | SaneOk =>
        match find_method ms (d_method d) with
        | None => handle_request coerce zero run ms d = ([], Some (method_not_found (d_id d)))         (* -32601 *)
        | Some m =>
            match build_args coerce zero m (d_params d) with
            | None => handle_request coerce zero run ms d = ([], Some (invalid_params (d_id d)))      (* -32602 *)
            | Some args =>
                fst (handle_request coerce zero run ms d) = [(m_name m, args)] /\                     (* exactly once *)
                (d_id d <> JNull ->
                 snd (handle_request coerce zero run ms d) = Some (resp_of (d_id d) (run (m_name m) args))) /\
                (d_id d = JNull -> snd (handle_request coerce zero run ms d) = None)
            end
        end
    | _ => exists id, handle_request coerce zero run ms d = ([], Some (invalid_request id))            (* -32600 *)
    end.
Proof. exact request_outcome. Qed.
Print Assumptions C11_request_outcome.

Theorem C11_unparsable_is_parse_error :                                                                  (* -32700 *)
  forall coerce zero run (ms : methods) (b : bool),
    handle coerce zero run ms (mk_input b None) = ([], Some parse_error).
Proof. exact unparsable_outcome. Qed.
Print Assumptions C11_unparsable_is_parse_error.

Theorem C11_empty_batch_is_invalid_request :
  forall coerce zero run (ms : methods),
    handle coerce zero run ms (mk_input true (Some (JArr []))) = ([], Some (invalid_request JNull)).
Proof. exact empty_batch_outcome. Qed.
Print Assumptions C11_empty_batch_is_invalid_request.

(* a batch is answered entry by entry: one response per entry that has one, in an array; no array at all
   when no entry has one *)
Theorem C11_batch_pointwise :
  forall coerce zero run (ms : methods) (e : json) (es : list json),
    handle coerce zero run ms (mk_input true (Some (JArr (e :: es)))) =
    (flat_map (fun x => fst (handle_entry coerce zero run ms x)) (e :: es),
     match somes (map (fun x => snd (handle_entry coerce zero run ms x)) (e :: es)) with
     | [] => None
     | l => Some (JArr l)
     end).
Proof. exact batch_outcome. Qed.
Print Assumptions C11_batch_pointwise.

Theorem C11_all_notifications_no_output :
  forall coerce zero run (ms : methods) (e : json) (es : list json),
    (forall x, In x (e :: es) -> snd (handle_entry coerce zero run ms x) = None) ->
    snd (handle coerce zero run ms (mk_input true (Some (JArr (e :: es))))) = None.
Proof. exact all_notifications_no_output. Qed.
Print Assumptions C11_all_notifications_no_output.

(* ---- positional = named: the first k parameters given by position or by name bind identically, provided
   the parameter names are distinct and the optional parameters form a tail *)
Theorem C11_positional_eq_named :
  forall coerce zero (m : method) (vs : list json),
    NoDup (map p_name (m_params m)) -> optional_tail (m_params m) = true ->
    length vs <= length (m_params m) ->
    build_args coerce zero m (JObj (combine (map p_name (firstn (length vs) (m_params m))) vs)) =
    build_args coerce zero m (JArr vs).
Proof. exact positional_eq_named_lemma. Qed.
Print Assumptions C11_positional_eq_named.

Theorem C11_positional_eq_named_request :
  forall coerce zero run (ms : methods) (m : method) (ver meth : str) (id : json) (ip te : bool) (vs : list json),
    find_method ms meth = Some m ->
    NoDup (map p_name (m_params m)) -> optional_tail (m_params m) = true ->
    length vs <= length (m_params m) ->
    handle_request coerce zero run ms
      (mk_dreq ver meth (JObj (combine (map p_name (firstn (length vs) (m_params m))) vs)) id ip te) =
    handle_request coerce zero run ms (mk_dreq ver meth (JArr vs) id ip te).
Proof. exact positional_eq_named_request. Qed.
Print Assumptions C11_positional_eq_named_request.

(* ---- the hypotheses are not decorative: one witness per excluded situation (concrete Go-like coercion,
   echo handlers, three-method table), each computed by vm_compute in Proofs_witness.v *)
Theorem C11_non_object_code_refuted :
  grammar_ok w_non_object = true /\ dev_non_object w_non_object = true /\
  snd (hdl w_non_object) = Some parse_error /\ snd (spc w_non_object) = Some (invalid_request JNull) /\
  codes coerce_go zero_go run_echo ms_demo w_non_object (snd (hdl w_non_object)) = false.
Proof. exact non_object_refuted. Qed.
Print Assumptions C11_non_object_code_refuted.

Theorem C11_ill_typed_member_code_refuted :
  grammar_ok w_ill_typed = true /\ dev_ill_typed w_ill_typed = true /\
  snd (hdl w_ill_typed) = Some parse_error /\ snd (spc w_ill_typed) = Some (invalid_request JNull) /\
  codes coerce_go zero_go run_echo ms_demo w_ill_typed (snd (hdl w_ill_typed)) = false.
Proof. exact ill_typed_refuted. Qed.
Print Assumptions C11_ill_typed_member_code_refuted.

Theorem C11_null_id_refuted :
  grammar_ok w_null_id = true /\ dev_null_id coerce_go zero_go ms_demo w_null_id = true /\
  hdl w_null_id = ([(L"add", [JNum L"1"; JNum L"2"])], None) /\
  snd (spc w_null_id) = Some (mk_result JNull (JArr [JNum L"1"; JNum L"2"])) /\
  resp_correlated coerce_go zero_go run_echo ms_demo w_null_id (snd (hdl w_null_id)) = false.
Proof. exact null_id_refuted. Qed.
Print Assumptions C11_null_id_refuted.

Theorem C11_notification_error_refuted :
  grammar_ok w_notif_error = true /\ dev_notif_error coerce_go zero_go ms_demo w_notif_error = true /\
  snd (hdl w_notif_error) = Some (method_not_found JNull) /\ snd (spc w_notif_error) = None /\
  resp_correlated coerce_go zero_go run_echo ms_demo w_notif_error (snd (hdl w_notif_error)) = false.
Proof. exact notif_error_refuted. Qed.
Print Assumptions C11_notification_error_refuted.

Theorem C11_batch_window_refuted :
  grammar_ok w_window = true /\ dev_batch_window w_window = true /\
  hdl w_window = ([], Some parse_error) /\
  spc w_window = ([(L"add", [JNum L"1"; JNum L"2"])],
                  Some (JArr [mk_result (JNum L"7") (JArr [JNum L"1"; JNum L"2"])])) /\
  calls_once coerce_go zero_go run_echo ms_demo w_window (fst (hdl w_window)) = false.
Proof. exact batch_window_refuted. Qed.
Print Assumptions C11_batch_window_refuted.

Theorem C11_positional_eq_named_needed :
  optional_tail (m_params m_mid) = false /\ NoDup (map p_name (m_params m_mid)) /\
  build_args coerce_go zero_go m_mid (JArr [JNum L"5"]) = Some [JNum L"5"; JNum L"0"] /\
  build_args coerce_go zero_go m_mid (JObj [(L"a", JNum L"5")]) = None.
Proof. exact positional_eq_named_needed_lemma. Qed.
Print Assumptions C11_positional_eq_named_needed.

(* =====================================================================================================
   THE BYTE LEVEL (Json.v).  [parse_first bs] is what json.Decoder.Decode makes of the request bytes: the
   first JSON value of the stream and the bytes after it (None = Decode reports a syntax error);
   [is_batch bs] is isBatch's verdict through the 128-byte bufio window; [input_of_bytes] pairs them;
   [handle_bytes] is HandleReader on raw bytes.  Grammars ([Number], [StrBody], [Utf8]) and text trees
   ([wsj], [print_wsj], [erase], [wsj_ok]) are defined in Json.v.
   ===================================================================================================== *)

(* ---- the number lexer accepts exactly RFC 8259's number grammar (as a prefix lexer: maximal munch, no
   back-tracking) ---- *)
Theorem C11_json_number_accept :
  forall s rest, Number s -> number_delim rest = true -> lex_number (s ++ rest) = Some (s, rest).
Proof. exact lex_number_accept. Qed.
Print Assumptions C11_json_number_accept.

Theorem C11_json_number_reject :                       (* whatever is returned is a number of the grammar, verbatim *)
  forall bs s rest, lex_number bs = Some (s, rest) -> Number s /\ bs = s ++ rest.
Proof. exact lex_number_sound. Qed.
Print Assumptions C11_json_number_reject.

Theorem C11_json_number_exact : forall s, number_ok s = true <-> Number s.
Proof. exact number_ok_iff. Qed.
Print Assumptions C11_json_number_exact.

(* ---- the string lexer accepts exactly the literals of the scanner's grammar and decodes them with
   [unquote] ---- *)
Theorem C11_json_string_accept :
  forall body q rest, StrBody body -> is_byte q 34 = true ->
    lex_string (body ++ q :: rest) = Some (unquote body, rest).
Proof. exact lex_string_accept. Qed.
Print Assumptions C11_json_string_accept.

Theorem C11_json_string_reject :
  forall bs s rest, lex_string bs = Some (s, rest) ->
    exists body q, StrBody body /\ is_byte q 34 = true /\ bs = body ++ q :: rest /\ s = unquote body.
Proof. exact lex_string_sound. Qed.
Print Assumptions C11_json_string_reject.

(* ---- decoding: whatever the literal, the result is well-formed UTF-8; and the rules one by one ---- *)
Theorem C11_json_unquote_utf8 : forall body, Utf8 (unquote body).
Proof. exact unquote_utf8. Qed.
Print Assumptions C11_json_unquote_utf8.

Theorem C11_json_utf8_check_exact : forall s, utf8_ok s = true <-> Utf8 s.
Proof. exact utf8_ok_iff. Qed.
Print Assumptions C11_json_utf8_check_exact.

Theorem C11_json_unquote_ascii :
  forall c r, is_byte c 92 = false -> (N_of_ascii c < 128)%N -> unquote (c :: r) = c :: unquote r.
Proof. exact unquote_ascii. Qed.
Print Assumptions C11_json_unquote_ascii.

Theorem C11_json_unquote_escape :
  forall b e x r, is_byte b 92 = true -> simple_escape e = Some x -> unquote (b :: e :: r) = x :: unquote r.
Proof. exact unquote_simple_escape. Qed.
Print Assumptions C11_json_unquote_escape.

Theorem C11_json_unquote_u_scalar :                    (* \uXXXX outside D800..DFFF: the code point in UTF-8 *)
  forall b u h1 h2 h3 h4 r,
    is_byte b 92 = true -> is_byte u 117 = true ->
    is_hex h1 = true -> is_hex h2 = true -> is_hex h3 = true -> is_hex h4 = true ->
    is_surrogate (hex4 h1 h2 h3 h4) = false ->
    unquote (b :: u :: h1 :: h2 :: h3 :: h4 :: r) = utf8_encode (hex4 h1 h2 h3 h4) ++ unquote r.
Proof. exact unquote_u_scalar. Qed.
Print Assumptions C11_json_unquote_u_scalar.

Theorem C11_json_unquote_u_pair :                      (* high surrogate escape + low surrogate escape: one code point *)
  forall b u h1 h2 h3 h4 r x,
    is_byte b 92 = true -> is_byte u 117 = true ->
    is_hex h1 = true -> is_hex h2 = true -> is_hex h3 = true -> is_hex h4 = true ->
    is_surrogate (hex4 h1 h2 h3 h4) = true -> pair_after (hex4 h1 h2 h3 h4) r = Some x ->
    unquote (b :: u :: h1 :: h2 :: h3 :: h4 :: r) = utf8_encode x ++ unquote (skipn 6 r).
Proof. exact unquote_u_pair. Qed.
Print Assumptions C11_json_unquote_u_pair.

Theorem C11_json_unquote_u_lone :                      (* any other surrogate escape: U+FFFD, only it is consumed *)
  forall b u h1 h2 h3 h4 r,
    is_byte b 92 = true -> is_byte u 117 = true ->
    is_hex h1 = true -> is_hex h2 = true -> is_hex h3 = true -> is_hex h4 = true ->
    is_surrogate (hex4 h1 h2 h3 h4) = true -> pair_after (hex4 h1 h2 h3 h4) r = None ->
    unquote (b :: u :: h1 :: h2 :: h3 :: h4 :: r) = repl ++ unquote r.
Proof. exact unquote_u_lone. Qed.
Print Assumptions C11_json_unquote_u_lone.

Theorem C11_json_unquote_wellformed_bytes :            (* a well-formed UTF-8 sequence is copied *)
  forall q r, Utf8Seq q -> (match q with a :: _ => is_byte a 92 = false | [] => True end) ->
    unquote (q ++ r) = q ++ unquote r.
Proof. exact unquote_seq. Qed.
Print Assumptions C11_json_unquote_wellformed_bytes.

Theorem C11_json_utf8_reencode :                       (* ... which is what DecodeRune + EncodeRune amount to *)
  forall q, Utf8Seq q ->
    utf8_encode (utf8_decode_seq q) = q /\
    (utf8_decode_seq q < 1114112)%N /\ is_surrogate (utf8_decode_seq q) = false.
Proof. exact utf8_reencode_scalar. Qed.
Print Assumptions C11_json_utf8_reencode.

Theorem C11_json_unquote_illformed_byte :              (* a byte that starts no well-formed sequence: U+FFFD *)
  forall c r, (128 <= N_of_ascii c)%N -> utf8_len (c :: r) = 0 -> unquote (c :: r) = repl ++ unquote r.
Proof. exact unquote_invalid_byte. Qed.
Print Assumptions C11_json_unquote_illformed_byte.

Theorem C11_json_unquote_quote : forall s, Utf8 s -> unquote (quote_body s) = s.
Proof. exact unquote_quote_body. Qed.
Print Assumptions C11_json_unquote_quote.

(* ---- the parser is total (enough fuel is never exhausted; parse_first supplies 2 * length + 2) and its
   verdict does not depend on the amount of fuel; being a Gallina function it is deterministic ---- *)
Theorem C11_json_parse_total :
  forall f d bs, 2 * length bs + 1 <= length f -> p_value f d bs <> PFuel.
Proof. exact p_value_total. Qed.
Print Assumptions C11_json_parse_total.

Theorem C11_json_parse_fuel_independent :
  forall f1 f2 d bs, 2 * length bs + 1 <= length f1 -> 2 * length bs + 1 <= length f2 ->
    p_value f1 d bs = p_value f2 d bs.
Proof. exact p_value_fuel_indep. Qed.
Print Assumptions C11_json_parse_fuel_independent.

Theorem C11_json_parse_first_never_out_of_fuel : forall bs, p_value (fuel_for bs) max_depth bs <> PFuel.
Proof. exact parse_first_total. Qed.
Print Assumptions C11_json_parse_first_never_out_of_fuel.

(* ---- completeness: every text of the grammar, with arbitrary insignificant white space wherever the
   grammar allows it (the strings w.. inside [t]) and in front, nested at most 10000 deep, is accepted and
   denotes [erase t], whatever follows (a number must not be continued by what follows) ---- *)
Theorem C11_json_parse_text :
  forall t w rest, wsj_ok max_depth t = true -> all_ws w = true ->
    match t with WNum _ => number_delim rest = true | _ => True end ->
    parse_first (w ++ print_wsj t ++ rest) = Some (erase t, rest).
Proof. exact parse_first_text. Qed.
Print Assumptions C11_json_parse_text.

(* ---- white-space insensitivity: two layouts of the same value parse alike ---- *)
Theorem C11_json_whitespace_insensitive :
  forall t1 t2 w1 w1' w2 w2',
    wsj_ok max_depth t1 = true -> wsj_ok max_depth t2 = true -> erase t1 = erase t2 ->
    all_ws w1 = true -> all_ws w1' = true -> all_ws w2 = true -> all_ws w2' = true ->
    parse (w1 ++ print_wsj t1 ++ w1') = parse (w2 ++ print_wsj t2 ++ w2').
Proof. exact parse_ws_insensitive. Qed.
Print Assumptions C11_json_whitespace_insensitive.

Theorem C11_json_parse_layout :
  forall v t w w', wsj_ok max_depth t = true -> erase t = v -> all_ws w = true -> all_ws w' = true ->
    parse (w ++ print_wsj t ++ w') = Some v.
Proof. exact parse_layout. Qed.
Print Assumptions C11_json_parse_layout.

(* ---- parse . print = id on the values the parser can produce ---- *)
Theorem C11_json_print_parse : forall v, json_wf max_depth v = true -> parse (print v) = Some v.
Proof. exact parse_print. Qed.
Print Assumptions C11_json_print_parse.

Theorem C11_json_print_parse_trailing :
  forall v rest, json_wf max_depth v = true ->
    match v with JNum _ => number_delim rest = true | _ => True end ->
    parse_first (print v ++ rest) = Some (v, rest).
Proof. exact parse_first_print. Qed.
Print Assumptions C11_json_print_parse_trailing.

Theorem C11_json_parse_wf :                            (* ... and those are the values [json_wf] describes *)
  forall bs v r, parse_first bs = Some (v, r) -> json_wf max_depth v = true.
Proof. exact parse_first_wf. Qed.
Print Assumptions C11_json_parse_wf.

Theorem C11_json_print_parse_needed :                  (* outside json_wf the round trip fails *)
  parse (print (JStr [byte_of 255])) = Some (JStr repl) /\
  parse (print (JNum L"01")) = Some (JNum L"0") /\
  parse (print (JNum L"1.")) = None /\
  json_wf 1 (JArr [JArr []]) = false /\ p_value (fuel_for (print (JArr [JArr []]))) 1 (print (JArr [JArr []])) = PBad.
Proof. exact print_parse_needed. Qed.
Print Assumptions C11_json_print_parse_needed.

(* ---- soundness: only texts of the grammar are accepted; the documents are exactly the grammar ---- *)
Theorem C11_json_parse_sound :
  forall bs v r, parse_first bs = Some (v, r) ->
    exists w t, all_ws w = true /\ wsj_ok max_depth t = true /\ bs = w ++ print_wsj t ++ r /\ erase t = v.
Proof. exact parse_first_sound. Qed.
Print Assumptions C11_json_parse_sound.

Theorem C11_json_document_exact :
  forall bs v,
    (exists r, parse_first bs = Some (v, r) /\ all_ws r = true) <->
    (exists w t w', all_ws w = true /\ all_ws w' = true /\ wsj_ok max_depth t = true /\
                    bs = w ++ print_wsj t ++ w' /\ erase t = v).
Proof. exact parse_document_iff. Qed.
Print Assumptions C11_json_document_exact.

(* ---- batch detection is exact: the first non-space byte is '[' and lies within the first 128 bytes ---- *)
Theorem C11_json_batch_detection_exact :
  forall bs, is_batch bs = true <->
    exists w c r, bs = w ++ c :: r /\ all_ws w = true /\ is_byte c 91 = true /\ length w < 128.
Proof. exact is_batch_iff. Qed.
Print Assumptions C11_json_batch_detection_exact.

Theorem C11_json_batch_is_array :
  forall bs v, is_batch bs = true -> parse bs = Some v -> exists l, v = JArr l.
Proof. exact batch_parses_to_array. Qed.
Print Assumptions C11_json_batch_is_array.

(* ---- hence the hypothesis [grammar_ok] of the value-level theorems holds of every byte sequence ---- *)
Theorem C11_json_grammar_ok : forall bs, grammar_ok (input_of_bytes bs) = true.
Proof. exact grammar_ok_bytes. Qed.
Print Assumptions C11_json_grammar_ok.

(* =====================================================================================================
   THE HEADLINE THEOREMS FROM BYTES: for every byte sequence [bs] ...
   ===================================================================================================== *)
Theorem C11_bytes_resp_wellformed :
  forall coerce zero run (ms : methods) (bs : str),
    resp_wellformed (snd (handle_bytes coerce zero run ms bs)) = true.
Proof. exact bytes_wellformed. Qed.
Print Assumptions C11_bytes_resp_wellformed.

Theorem C11_bytes_refines_spec :
  forall coerce zero run (ms : methods) (bs : str),
    no_deviation coerce zero ms (input_of_bytes bs) = true ->
    handle_bytes coerce zero run ms bs = spec_bytes coerce zero run ms bs.
Proof. exact bytes_refines_spec. Qed.
Print Assumptions C11_bytes_refines_spec.

Theorem C11_bytes_spec_ok :
  forall coerce zero run (ms : methods) (bs : str),
    no_deviation coerce zero ms (input_of_bytes bs) = true ->
    spec_ok coerce zero run ms (input_of_bytes bs) (handle_bytes coerce zero run ms bs) = true.
Proof. exact bytes_spec_ok. Qed.
Print Assumptions C11_bytes_spec_ok.

Theorem C11_bytes_resp_correlated :
  forall coerce zero run (ms : methods) (bs : str),
    dev_batch_window (input_of_bytes bs) = false ->
    dev_null_id coerce zero ms (input_of_bytes bs) = false ->
    dev_notif_error coerce zero ms (input_of_bytes bs) = false ->
    resp_correlated coerce zero run ms (input_of_bytes bs) (snd (handle_bytes coerce zero run ms bs)) = true.
Proof. exact bytes_correlated. Qed.
Print Assumptions C11_bytes_resp_correlated.

Theorem C11_bytes_codes :
  forall coerce zero run (ms : methods) (bs : str),
    no_deviation coerce zero ms (input_of_bytes bs) = true ->
    codes coerce zero run ms (input_of_bytes bs) (snd (handle_bytes coerce zero run ms bs)) = true.
Proof. exact bytes_codes. Qed.
Print Assumptions C11_bytes_codes.

Theorem C11_bytes_calls_once :
  forall coerce zero run (ms : methods) (bs : str),
    dev_batch_window (input_of_bytes bs) = false ->
    calls_once coerce zero run ms (input_of_bytes bs) (fst (handle_bytes coerce zero run ms bs)) = true.
Proof. exact bytes_calls_once. Qed.
Print Assumptions C11_bytes_calls_once.

Theorem C11_bytes_unparsable_is_parse_error :                                                            (* -32700 *)
  forall coerce zero run (ms : methods) (bs : str),
    parse bs = None -> handle_bytes coerce zero run ms bs = ([], Some parse_error).
Proof. exact bytes_unparsable. Qed.
Print Assumptions C11_bytes_unparsable_is_parse_error.

(* only the first JSON value of the stream counts: the bytes after it can be replaced by anything (after a
   top-level number: by anything that does not continue the number) *)
Theorem C11_bytes_trailing_ignored :
  forall coerce zero run (ms : methods) (bs : str) (v : json) (r r' : str),
    parse_first bs = Some (v, r) ->
    match v with JNum _ => number_delim r = true /\ number_delim r' = true | _ => True end ->
    exists p, bs = p ++ r /\
              handle_bytes coerce zero run ms (p ++ r') = handle_bytes coerce zero run ms bs.
Proof. exact bytes_trailing_ignored. Qed.
Print Assumptions C11_bytes_trailing_ignored.

(* the batch-window deviation, stated on the bytes: an array whose '[' comes after >= 128 white-space bytes *)
Theorem C11_bytes_batch_window_exact :
  forall bs, dev_batch_window (input_of_bytes bs) = true <->
    exists w r l, bs = w ++ byte_of 91 :: r /\ all_ws w = true /\ 128 <= length w /\ parse bs = Some (JArr l).
Proof. exact bytes_batch_window_iff. Qed.
Print Assumptions C11_bytes_batch_window_exact.

(* value level and byte level meet: on the canonical text of a request value the byte-level server is the
   value-level model (so every value-level theorem above is a statement about those bytes) *)
Theorem C11_bytes_of_value :
  forall coerce zero run (ms : methods) (v : json),
    json_wf max_depth v = true ->
    handle_bytes coerce zero run ms (print v) = handle coerce zero run ms (mk_input (is_arr v) (Some v)).
Proof. exact handle_bytes_print. Qed.
Print Assumptions C11_bytes_of_value.

Theorem C11_bytes_batch_window_refuted :               (* the window deviation replayed from bytes (vm_compute) *)
  dev_batch_window (input_of_bytes w_window_bytes) = true /\
  handle_bytes coerce_go zero_go run_echo ms_demo w_window_bytes = ([], Some parse_error) /\
  spec_bytes coerce_go zero_go run_echo ms_demo w_window_bytes =
    ([(L"add", [JNum L"1"; JNum L"2"])], Some (JArr [mk_result (JNum L"7") (JArr [JNum L"1"; JNum L"2"])])) /\
  handle_bytes coerce_go zero_go run_echo ms_demo (skipn 1 w_window_bytes) =
    spec_bytes coerce_go zero_go run_echo ms_demo (skipn 1 w_window_bytes).
Proof. exact window_bytes_refuted. Qed.
Print Assumptions C11_bytes_batch_window_refuted.

(* ---------- the statements are not vacuous ---------- *)
Example hypotheses_satisfiable :
  grammar_ok w_mixed = true /\ no_deviation coerce_go zero_go ms_demo w_mixed = true /\
  hdl w_mixed =
  ([(L"add", [JNum L"1"; JNum L"2"]); (L"add", [JNum L"1"; JNum L"2"]); (L"opt", [JNum L"3"; JNull; JStr []])],
   Some (JArr [ mk_result (JNum L"1") (JArr [JNum L"1"; JNum L"2"]);
                mk_result (JStr L"x") (JArr [JNum L"3"; JNull; JStr []]);
                method_not_found (JNum L"2");
                invalid_params (JNum L"3");
                invalid_request JNull;
                invalid_request (JNum L"4") ])).
Proof. exact mixed_meets_hypotheses. Qed.

Example positional_named_concrete :
  let pos := JObj [(L"jsonrpc", JStr L"2.0"); (L"method", JStr L"opt"); (L"params", JArr [JNum L"3"; JNum L"4"]); (L"id", JNum L"1")] in
  let named := JObj [(L"jsonrpc", JStr L"2.0"); (L"method", JStr L"opt");
                     (L"params", JObj [(L"b", JNum L"4"); (L"a", JNum L"3")]); (L"id", JNum L"1")] in
  hdl (mk_input false (Some pos)) = hdl (mk_input false (Some named)) /\
  fst (hdl (mk_input false (Some pos))) = [(L"opt", [JNum L"3"; JNum L"4"; JStr []])].
Proof. exact positional_named_example. Qed.

Example optional_tail_holds_of_demo_methods :
  forallb (fun m => optional_tail (m_params m)) (firstn 2 ms_demo) = true.
Proof. vm_compute. reflexivity. Qed.

(* ---------- byte level: concrete instances (vm_compute) ---------- *)
Example bytes_mixed_batch :                            (* the 7-entry mixed batch of [hypotheses_satisfiable], from its text *)
  json_wf max_depth w_mixed_value = true /\
  input_of_bytes (print w_mixed_value) = w_mixed /\
  no_deviation coerce_go zero_go ms_demo (input_of_bytes (print w_mixed_value)) = true /\
  handle_bytes coerce_go zero_go run_echo ms_demo (print w_mixed_value) = hdl w_mixed.
Proof. exact bytes_mixed_example. Qed.

Example json_text_with_whitespace_and_escapes :
  parse_first (L" [1 , -2.5e+3,	""a\u00e9\ud83d\ude00\ud800x"" , {""k"" : null, ""k"":[ ]}]]tail") =
  Some (JArr [JNum L"1"; JNum L"-2.5e+3";
              JStr (L"a" ++ [byte_of 195; byte_of 169; byte_of 240; byte_of 159; byte_of 152; byte_of 128;
                             byte_of 239; byte_of 191; byte_of 189] ++ L"x");
              JObj [(L"k", JNull); (L"k", JArr [])]], L"]tail").
Proof. vm_compute. reflexivity. Qed.

Example json_first_value_only :
  parse_first L"01" = Some (JNum L"0", L"1") /\ parse_first L"nullx" = Some (JNull, L"x") /\
  parse_first L"{}{}" = Some (JObj [], L"{}") /\ parse_first L"1.x" = None /\ parse_first L"[1,]" = None /\
  parse_first L"-" = None /\ parse_first L"" = None.
Proof. vm_compute. repeat split; reflexivity. Qed.
