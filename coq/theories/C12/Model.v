(* C12 — executable model of juno's Tendermint state machine and vote counter.
   Transcribed from /repo/consensus/votecounter/{ballot,round_data,vote_counter}.go and
   /repo/consensus/tendermint/{tendermint,process,broadcast,timeout,rule_*}.go.
   No proofs in this file; it is extracted to OCaml and run against the Go code.
   ProcessWAL / ProcessSync (process.go), calls of all seven methods, the log a run writes and its replay, and
   the state comparison st_sim_b are in the last part of the file.

   Conventions: heights / voting powers / addresses / hashes / values are N, rounds are Z (Go int; -1 is the
   "no round" marker, Byzantine messages may carry any round).  The threshold formulas f and q are written
   with explicit uint64 wrap-around exactly as in vote_counter.go; sums of voting powers inside ballot sets
   are NOT wrapped (every address is counted once per ballot set, so they are bounded by the sum of all
   powers; stated in checks/C12.json).  Go maps are association lists; only look-ups are observable. *)
From Coq Require Import List NArith ZArith Bool.
Import ListNotations.
Open Scope N_scope.

Definition addr := N.
Definition hash := N.
Definition value := N.

(* ---------- thresholds: vote_counter.go f, q on uint (64 bit) ---------- *)
Definition W : N := 18446744073709551616.  (* 2^64 *)
(* return (totalVotingPower - 1) / 3 *)
Definition f_of (n : N) : N := ((n + W - 1) mod W) / 3.
(* d := total*2; q := d/3; r := d%3; if r > 0 { q++ }; return q *)
Definition q_of (n : N) : N :=
  let d := (n * 2) mod W in
  let q := d / 3 in
  let r := d mod 3 in
  if 0 <? r then (q + 1) mod W else q.

(* ---------- messages ---------- *)
Record proposal := mkP { p_h : N; p_r : Z; p_from : addr; p_vr : Z; p_val : value }.
Record vote := mkV { v_h : N; v_r : Z; v_from : addr; v_id : option hash }.
Inductive vkind := Prevote | Precommit.
Inductive phase := SPropose | SPrevote | SPrecommit.

Definition vkind_eqb (a b : vkind) : bool :=
  match a, b with Prevote, Prevote | Precommit, Precommit => true | _, _ => false end.
Definition step_eqb (a b : phase) : bool :=
  match a, b with SPropose, SPropose | SPrevote, SPrevote | SPrecommit, SPrecommit => true | _, _ => false end.
Definition oid_eqb (a b : option hash) : bool :=
  match a, b with None, None => true | Some x, Some y => x =? y | _, _ => false end.
Definition proposal_eqb (a b : proposal) : bool :=
  (p_h a =? p_h b) && (p_r a =? p_r b)%Z && (p_from a =? p_from b) && (p_vr a =? p_vr b)%Z && (p_val a =? p_val b).

(* the environment of one validator: Validators interface, Application interface, own address *)
Record cfg := mkCfg {
  c_self : addr;
  c_total : N -> N;              (* TotalVotingPower(height) *)
  c_power : N -> addr -> N;      (* ValidatorVotingPower(height, addr) *)
  c_proposer : N -> Z -> addr;   (* Proposer(height, round) *)
  c_valid : value -> bool;       (* Application.Valid *)
  c_vid : value -> hash;         (* V.Hash() *)
  c_value_at : N -> value        (* k-th call of Application.Value() *)
}.

(* ---------- association lists (Go maps) ---------- *)
Section Assoc.
  Context {K V : Type} (eqb : K -> K -> bool).
  Fixpoint aget (l : list (K * V)) (k : K) : option V :=
    match l with
    | [] => None
    | (k', v) :: r => if eqb k k' then Some v else aget r k
    end.
  Fixpoint aset (l : list (K * V)) (k : K) (v : V) : list (K * V) :=
    match l with
    | [] => [(k, v)]
    | (k', v') :: r => if eqb k k' then (k, v) :: r else (k', v') :: aset r k v
    end.
  Fixpoint adel (l : list (K * V)) (k : K) : list (K * V) :=
    match l with
    | [] => []
    | (k', v') :: r => if eqb k k' then adel r k else (k', v') :: adel r k
    end.
End Assoc.

(* ---------- ballot.go ---------- *)
Definition ballot := (bool * bool)%type.   (* [Prevote, Precommit] *)
Definition bit (x : ballot) (k : vkind) : bool := match k with Prevote => fst x | Precommit => snd x end.
Definition setbit (x : ballot) (k : vkind) : ballot :=
  match k with Prevote => (true, snd x) | Precommit => (fst x, true) end.

Record bset := mkB { b_bal : list (addr * ballot); b_pv : N; b_pc : N; b_tot : N }.
Definition b_empty : bset := mkB [] 0 0 0.
Definition b_count (b : bset) (k : vkind) : N := match k with Prevote => b_pv b | Precommit => b_pc b end.

Definition b_add (b : bset) (a : addr) (pw : N) (k : vkind) : bset * bool :=
  let b1 := match aget N.eqb (b_bal b) a with
            | Some _ => b
            | None => mkB (aset N.eqb (b_bal b) a (false, false)) (b_pv b) (b_pc b) (b_tot b + pw)
            end in
  let cur := match aget N.eqb (b_bal b1) a with Some x => x | None => (false, false) end in
  if bit cur k then (b1, false)
  else (mkB (aset N.eqb (b_bal b1) a (setbit cur k))
            (match k with Prevote => b_pv b1 + pw | Precommit => b_pv b1 end)
            (match k with Prevote => b_pc b1 | Precommit => b_pc b1 + pw end)
            (b_tot b1), true).

(* ---------- round_data.go ---------- *)
Record rdata := mkR { r_prop : option proposal; r_unc : N; r_ids : list (hash * bset); r_nil : bset; r_all : bset }.
Definition r_empty : rdata := mkR None 0 [] b_empty b_empty.

Definition r_set_proposal (rd : rdata) (p : proposal) (pw : N) : rdata * bool :=
  match r_prop rd with
  | Some _ => (rd, false)
  | None =>
      let notvoted := match aget N.eqb (b_bal (r_all rd)) (p_from p) with
                      | None => true
                      | Some x => negb (fst x) && negb (snd x)
                      end in
      (mkR (Some p) (if notvoted then pw else r_unc rd) (r_ids rd) (r_nil rd) (r_all rd), true)
  end.

Definition r_add_vote (rd : rdata) (v : vote) (pw : N) (k : vkind) : rdata * bool :=
  let unc := if (0 <? r_unc rd) && (match r_prop rd with Some p => p_from p =? v_from v | None => false end)
             then 0 else r_unc rd in
  let all' := fst (b_add (r_all rd) (v_from v) pw k) in
  match v_id v with
  | Some id =>
      let pv := match aget N.eqb (r_ids rd) id with Some b => b | None => b_empty end in
      let '(pv', ok) := b_add pv (v_from v) pw k in
      (mkR (r_prop rd) unc (aset N.eqb (r_ids rd) id pv') (r_nil rd) all', ok)
  | None =>
      let '(n', ok) := b_add (r_nil rd) (v_from v) pw k in
      (mkR (r_prop rd) unc (r_ids rd) n' all', ok)
  end.

Definition r_count_vote (rd : rdata) (k : vkind) (id : option hash) : N :=
  match id with
  | Some i => match aget N.eqb (r_ids rd) i with Some b => b_count b k | None => 0 end
  | None => b_count (r_nil rd) k
  end.
Definition r_count_any (rd : rdata) (k : vkind) : N := b_count (r_all rd) k.
Definition r_count_future (rd : rdata) : N := b_tot (r_all rd) + r_unc rd.

(* ---------- vote_counter.go ---------- *)
Definition rmap := list (Z * rdata).
Record vcounter := mkVC { vc_h : N; vc_rounds : rmap; vc_future : list (N * rmap) }.
Definition vc_new (h : N) : vcounter := mkVC h [] [].

Definition rm_get (m : rmap) (r : Z) : rdata := match aget Z.eqb m r with Some x => x | None => r_empty end.

(* getRoundData (get-or-create) followed by an update of the entry; false without any effect below the
   current height *)
Definition vc_with (vc : vcounter) (h : N) (r : Z) (f : rdata -> rdata * bool) : vcounter * bool :=
  if h <? vc_h vc then (vc, false)
  else if h =? vc_h vc then
    let '(rd', ok) := f (rm_get (vc_rounds vc) r) in
    (mkVC (vc_h vc) (aset Z.eqb (vc_rounds vc) r rd') (vc_future vc), ok)
  else
    let m := match aget N.eqb (vc_future vc) h with Some m => m | None => [] end in
    let '(rd', ok) := f (rm_get m r) in
    (mkVC (vc_h vc) (vc_rounds vc) (aset N.eqb (vc_future vc) h (aset Z.eqb m r rd')), ok).

Definition vc_add_proposal (c : cfg) (vc : vcounter) (p : proposal) : vcounter * bool :=
  vc_with vc (p_h p) (p_r p) (fun rd =>
    if negb (p_from p =? c_proposer c (p_h p) (p_r p)) then (rd, false)
    else r_set_proposal rd p (c_power c (p_h p) (p_from p))).

Definition vc_add_vote (c : cfg) (vc : vcounter) (k : vkind) (v : vote) : vcounter * bool :=
  vc_with vc (v_h v) (v_r v) (fun rd => r_add_vote rd v (c_power c (v_h v) (v_from v)) k).

Definition vc_start_new_height (vc : vcounter) : vcounter :=
  let h := vc_h vc + 1 in
  mkVC h (match aget N.eqb (vc_future vc) h with Some m => m | None => [] end) (adel N.eqb (vc_future vc) h).

Definition vc_proposal (vc : vcounter) (r : Z) : option proposal :=
  match aget Z.eqb (vc_rounds vc) r with Some rd => r_prop rd | None => None end.

Definition vc_quorum (c : cfg) (vc : vcounter) : N := q_of (c_total c (vc_h vc)).
Definition vc_faulty (c : cfg) (vc : vcounter) : N := f_of (c_total c (vc_h vc)).

Definition vc_has_quorum_vote (c : cfg) (vc : vcounter) (r : Z) (k : vkind) (id : option hash) : bool :=
  match aget Z.eqb (vc_rounds vc) r with
  | Some rd => vc_quorum c vc <=? r_count_vote rd k id
  | None => false
  end.
Definition vc_has_quorum_any (c : cfg) (vc : vcounter) (r : Z) (k : vkind) : bool :=
  match aget Z.eqb (vc_rounds vc) r with
  | Some rd => vc_quorum c vc <=? r_count_any rd k
  | None => false
  end.
Definition vc_has_nonfaulty_future (c : cfg) (vc : vcounter) (r : Z) : bool :=
  match aget Z.eqb (vc_rounds vc) r with
  | Some rd => vc_faulty c vc <? r_count_future rd
  | None => false
  end.
(* HasFuturePrecommitQuorum(height, round, id): only called directly after AddPrecommit of the same
   (height, round) succeeded, so the get-or-create inside never creates; modelled as a read.
   The threshold is the CURRENT height's quorum (as in the code). *)
Definition vc_has_future_precommit_quorum (c : cfg) (vc : vcounter) (h : N) (r : Z) (id : hash) : bool :=
  if h <? vc_h vc then false
  else
    let m := if h =? vc_h vc then vc_rounds vc
             else match aget N.eqb (vc_future vc) h with Some m => m | None => [] end in
    vc_quorum c vc <=? r_count_vote (rm_get m r) Precommit (Some id).

(* ---------- tendermint.go: the state ---------- *)
Record state := mkS {
  s_h : N; s_r : Z; s_step : phase;
  s_lv : option value; s_lr : Z; s_vv : option value; s_vr : Z;
  s_tpv : bool;   (* timeoutPrevoteScheduled *)
  s_tpc : bool;   (* timeoutPrecommitScheduled *)
  s_lvs : bool;   (* lockedValueAndOrValidValueSet *)
  s_started : bool; (* isHeightStarted *)
  s_vc : vcounter;
  s_lts : N;      (* lastTriggerSync *)
  s_lq : N;       (* lastQuorum *)
  s_nval : N      (* number of Application.Value() calls so far *)
}.

Definition init_state (h : N) : state :=
  mkS h 0%Z SPropose None (-1)%Z None (-1)%Z false false false false (vc_new h) 0 0 0.

Inductive input :=
| IStart (r : Z)
| IProposal (p : proposal)
| IPrevote (v : vote)
| IPrecommit (v : vote)
| ITimeout (k : phase) (h : N) (r : Z).

Inductive action :=
| AWalStart (h : N)
| AWalProposal (p : proposal)
| AWalPrevote (v : vote)
| AWalPrecommit (v : vote)
| AWalTimeout (k : phase) (h : N) (r : Z)
| ABroadcastProposal (p : proposal)
| ABroadcastPrevote (v : vote)
| ABroadcastPrecommit (v : vote)
| ASchedule (k : phase) (h : N) (r : Z)
| ACommit (p : proposal)
| ATriggerSync (s e : N).

Definition set_vc (s : state) (vc : vcounter) : state :=
  mkS (s_h s) (s_r s) (s_step s) (s_lv s) (s_lr s) (s_vv s) (s_vr s) (s_tpv s) (s_tpc s) (s_lvs s)
      (s_started s) vc (s_lts s) (s_lq s) (s_nval s).
Definition set_step (s : state) (st : phase) : state :=
  mkS (s_h s) (s_r s) st (s_lv s) (s_lr s) (s_vv s) (s_vr s) (s_tpv s) (s_tpc s) (s_lvs s)
      (s_started s) (s_vc s) (s_lts s) (s_lq s) (s_nval s).
Definition set_started (s : state) (b : bool) : state :=
  mkS (s_h s) (s_r s) (s_step s) (s_lv s) (s_lr s) (s_vv s) (s_vr s) (s_tpv s) (s_tpc s) (s_lvs s)
      b (s_vc s) (s_lts s) (s_lq s) (s_nval s).

(* resetState *)
Definition reset_state (s : state) (r : Z) : state :=
  mkS (s_h s) r SPropose (s_lv s) (s_lr s) (s_vv s) (s_vr s) false false false
      (s_started s) (s_vc s) (s_lts s) (s_lq s) (s_nval s).

(* ---------- broadcast.go ---------- *)
Definition send_proposal (c : cfg) (s : state) (v : value) : state * action :=
  let p := mkP (s_h s) (s_r s) (c_self c) (s_vr s) v in
  (set_vc s (fst (vc_add_proposal c (s_vc s) p)), ABroadcastProposal p).

Definition send_prevote (c : cfg) (s : state) (id : option hash) : state * action :=
  let v := mkV (s_h s) (s_r s) (c_self c) id in
  (set_step (set_vc s (fst (vc_add_vote c (s_vc s) Prevote v))) SPrevote, ABroadcastPrevote v).

Definition send_precommit (c : cfg) (s : state) (id : option hash) : state * action :=
  let v := mkV (s_h s) (s_r s) (c_self c) id in
  (set_step (set_vc s (fst (vc_add_vote c (s_vc s) Precommit v))) SPrecommit, ABroadcastPrecommit v).

(* startRound *)
Definition start_round (c : cfg) (s : state) (r : Z) : state * action :=
  let s1 := reset_state s r in
  if c_proposer c (vc_h (s_vc s1)) r =? c_self c then
    match s_vv s1 with
    | Some v => send_proposal c s1 v
    | None =>
        let v := c_value_at c (s_nval s1) in
        let s2 := mkS (s_h s1) (s_r s1) (s_step s1) (s_lv s1) (s_lr s1) (s_vv s1) (s_vr s1) (s_tpv s1) (s_tpc s1)
                      (s_lvs s1) (s_started s1) (s_vc s1) (s_lts s1) (s_lq s1) (s_nval s1 + 1) in
        send_proposal c s2 v
    end
  else (s1, ASchedule SPropose (s_h s1) (s_r s1)).

(* ---------- the upon rules (rule_*.go) ---------- *)
Definition pid (c : cfg) (p : proposal) : hash := c_vid c (p_val p).
Definition lock_matches (c : cfg) (s : state) (id : hash) : bool :=
  match s_lv s with Some lv => c_vid c lv =? id | None => false end.

(* line 22 *)
Definition upon22 (s : state) (p : proposal) : bool := (p_vr p =? -1)%Z && step_eqb (s_step s) SPropose.
Definition do22 (c : cfg) (s : state) (p : proposal) : state * action :=
  let should := c_valid c (p_val p) && ((s_lr s =? -1)%Z || lock_matches c s (pid c p)) in
  send_prevote c s (if should then Some (pid c p) else None).

(* line 28 *)
Definition upon28 (c : cfg) (s : state) (p : proposal) : bool :=
  vc_has_quorum_vote c (s_vc s) (p_vr p) Prevote (Some (pid c p))
  && step_eqb (s_step s) SPropose && (0 <=? p_vr p)%Z && (p_vr p <? s_r s)%Z.
Definition do28 (c : cfg) (s : state) (p : proposal) : state * action :=
  let should := c_valid c (p_val p) && ((s_lr s <=? p_vr p)%Z || lock_matches c s (pid c p)) in
  send_prevote c s (if should then Some (pid c p) else None).

(* line 34 *)
Definition upon34 (c : cfg) (s : state) : bool :=
  step_eqb (s_step s) SPrevote && vc_has_quorum_any c (s_vc s) (s_r s) Prevote && negb (s_tpv s).
Definition do34 (s : state) : state * action :=
  (mkS (s_h s) (s_r s) (s_step s) (s_lv s) (s_lr s) (s_vv s) (s_vr s) true (s_tpc s) (s_lvs s)
       (s_started s) (s_vc s) (s_lts s) (s_lq s) (s_nval s),
   ASchedule SPrevote (s_h s) (s_r s)).

(* line 36 *)
Definition upon36 (c : cfg) (s : state) (p : proposal) : bool :=
  vc_has_quorum_vote c (s_vc s) (s_r s) Prevote (Some (pid c p))
  && c_valid c (p_val p) && negb (step_eqb (s_step s) SPropose) && negb (s_lvs s).
Definition set_valid (s : state) (v : value) : state :=
  mkS (s_h s) (s_r s) (s_step s) (s_lv s) (s_lr s) (Some v) (s_r s) (s_tpv s) (s_tpc s) true
      (s_started s) (s_vc s) (s_lts s) (s_lq s) (s_nval s).
Definition set_lock (s : state) (v : value) : state :=
  mkS (s_h s) (s_r s) (s_step s) (Some v) (s_r s) (s_vv s) (s_vr s) (s_tpv s) (s_tpc s) (s_lvs s)
      (s_started s) (s_vc s) (s_lts s) (s_lq s) (s_nval s).
Definition do36 (c : cfg) (s : state) (p : proposal) : state * option action :=
  if step_eqb (s_step s) SPrevote then
    let '(s1, a) := send_precommit c (set_lock s (p_val p)) (Some (pid c p)) in
    (set_valid s1 (p_val p), Some a)
  else (set_valid s (p_val p), None).

(* line 44 *)
Definition upon44 (c : cfg) (s : state) : bool :=
  vc_has_quorum_vote c (s_vc s) (s_r s) Prevote None && step_eqb (s_step s) SPrevote.

(* line 47 *)
Definition upon47 (c : cfg) (s : state) : bool :=
  negb (s_tpc s) && vc_has_quorum_any c (s_vc s) (s_r s) Precommit.
Definition do47 (s : state) : state * action :=
  (mkS (s_h s) (s_r s) (s_step s) (s_lv s) (s_lr s) (s_vv s) (s_vr s) (s_tpv s) true (s_lvs s)
       (s_started s) (s_vc s) (s_lts s) (s_lq s) (s_nval s),
   ASchedule SPrecommit (s_h s) (s_r s)).

(* line 49 *)
Definition upon49 (c : cfg) (s : state) (p : proposal) : bool :=
  vc_has_quorum_vote c (s_vc s) (p_r p) Precommit (Some (pid c p)) && c_valid c (p_val p).
Definition do49 (s : state) (p : proposal) : state * action :=
  (mkS (s_h s + 1) 0%Z SPropose None (-1)%Z None (-1)%Z false false false false
       (vc_start_new_height (s_vc s)) (s_lts s) (s_lq s) (s_nval s),
   ACommit p).

(* line 55 *)
Definition upon55 (c : cfg) (s : state) (fr : Z) : bool :=
  (s_r s <? fr)%Z && vc_has_nonfaulty_future c (s_vc s) fr.

(* ---------- process.go: one evaluation of the switch ---------- *)
Inductive rule :=
| R22 (p : proposal) | R28 (p : proposal) | R34 | R36 (p : proposal) | R44 | R47
| R49 (p : proposal) | R55 (r : Z) | RNone.

Definition otest {A} (o : option A) (f : A -> bool) : bool := match o with Some x => f x | None => false end.

Definition select (c : cfg) (s : state) (rr : option Z) : rule :=
  let cp := vc_proposal (s_vc s) (s_r s) in
  let rcp := match rr with Some r => vc_proposal (s_vc s) r | None => cp end in
  match cp with
  | Some p =>
      if upon22 s p then R22 p
      else if upon28 c s p then R28 p
      else if upon34 c s then R34
      else if upon36 c s p then R36 p
      else if upon44 c s then R44
      else if upon47 c s then R47
      else if otest rcp (upon49 c s) then match rcp with Some q => R49 q | None => RNone end
      else if otest rr (upon55 c s) then match rr with Some r => R55 r | None => RNone end
      else RNone
  | None =>
      if upon34 c s then R34
      else if upon44 c s then R44
      else if upon47 c s then R47
      else if otest rcp (upon49 c s) then match rcp with Some q => R49 q | None => RNone end
      else if otest rr (upon55 c s) then match rr with Some r => R55 r | None => RNone end
      else RNone
  end.

(* (new state, emitted action, shouldContinue) *)
Definition apply_rule (c : cfg) (s : state) (ru : rule) : state * option action * bool :=
  match ru with
  | R22 p => let '(s', a) := do22 c s p in (s', Some a, true)
  | R28 p => let '(s', a) := do28 c s p in (s', Some a, true)
  | R34 => let '(s', a) := do34 s in (s', Some a, true)
  | R36 p => let '(s', oa) := do36 c s p in (s', oa, true)
  | R44 => let '(s', a) := send_precommit c s None in (s', Some a, true)
  | R47 => let '(s', a) := do47 s in (s', Some a, true)
  | R49 p => let '(s', a) := do49 s p in (s', Some a, false)
  | R55 r => let '(s', a) := start_round c s r in (s', Some a, true)
  | RNone => (s, None, false)
  end.

Definition olist {A} (o : option A) : list A := match o with Some a => [a] | None => [] end.

(* processLoop; the boolean says the fuel ran out (never, for fuel >= 13: Proofs.loop_fuel_enough) *)
Fixpoint loop (c : cfg) (fuel : nat) (s : state) (rr : option Z) : state * list action * bool :=
  match fuel with
  | O => (s, [], true)
  | S n =>
      let '(s', oa, cont) := apply_rule c s (select c s rr) in
      if cont then
        let '(s'', more, ex) := loop c n s' rr in (s'', olist oa ++ more, ex)
      else (s', olist oa, false)
  end.

Definition FUEL : nat := 16.

(* ---------- timeout.go ---------- *)
Definition on_timeout (c : cfg) (s : state) (k : phase) (h : N) (r : Z) : state * list action :=
  let same := (s_h s =? h) && (s_r s =? r)%Z in
  match k with
  | SPropose =>
      if same && step_eqb (s_step s) SPropose then
        let '(s', a) := send_prevote c s None in (s', [AWalTimeout k h r; a])
      else (s, [])
  | SPrevote =>
      if same && step_eqb (s_step s) SPrevote then
        let '(s', a) := send_precommit c s None in (s', [AWalTimeout k h r; a])
      else (s, [])
  | SPrecommit =>
      if same then
        let '(s', a) := start_round c s (r + 1)%Z in (s', [AWalTimeout k h r; a])
      else (s, [])
  end.

(* processMessage *)
Definition process_message (c : cfg) (s : state) (w : action) (h : N) (r : Z) : state * list action * bool :=
  if negb (h =? s_h s) then (s, [w], false)
  else let '(s', acts, ex) := loop c FUEL s (Some r) in (s', w :: acts, ex).

(* triggerSync *)
Definition trigger_sync (s : state) (h : N) : state * list action :=
  let lq := N.max (s_lq s) h in
  let st := N.max (s_lts s + 1) (s_h s) in
  (mkS (s_h s) (s_r s) (s_step s) (s_lv s) (s_lr s) (s_vv s) (s_vr s) (s_tpv s) (s_tpc s) (s_lvs s)
       (s_started s) (s_vc s) lq lq (s_nval s),
   [ATriggerSync st lq]).

(* Process{Start,Proposal,Prevote,Precommit,Timeout}; third component: fuel exhausted *)
Definition step_x (c : cfg) (s : state) (i : input) : state * list action * bool :=
  match i with
  | IStart r =>
      if s_started s then (s, [], false)
      else
        let '(s1, a) := start_round c (set_started s true) r in
        let '(s2, acts, ex) := loop c FUEL s1 None in
        (* the WAL entry is a pointer to state.height: whoever reads the returned action sees the height
           as it is when ProcessStart returns *)
        (s2, AWalStart (s_h s2) :: a :: acts, ex)
  | IProposal p =>
      let '(vc, ok) := vc_add_proposal c (s_vc s) p in
      let s1 := set_vc s vc in
      if negb ok || negb (s_started s1) then (s1, [], false)
      else process_message c s1 (AWalProposal p) (p_h p) (p_r p)
  | IPrevote v =>
      let '(vc, ok) := vc_add_vote c (s_vc s) Prevote v in
      let s1 := set_vc s vc in
      if negb ok || negb (s_started s1) then (s1, [], false)
      else process_message c s1 (AWalPrevote v) (v_h v) (v_r v)
  | IPrecommit v =>
      let '(vc, ok) := vc_add_vote c (s_vc s) Precommit v in
      let s1 := set_vc s vc in
      if negb ok || negb (s_started s1) then (s1, [], false)
      else if (match v_id v with
               | Some id => (s_h s1 <? v_h v) && (s_lts s1 <? v_h v)
                            && vc_has_future_precommit_quorum c (s_vc s1) (v_h v) (v_r v) id
               | None => false end)
      then let '(s2, acts) := trigger_sync s1 (v_h v) in (s2, acts, false)
      else process_message c s1 (AWalPrecommit v) (v_h v) (v_r v)
  | ITimeout k h r =>
      let '(s1, acts0) := on_timeout c s k h r in
      let '(s2, acts, ex) := loop c FUEL s1 None in
      (s2, acts0 ++ acts, ex)
  end.

Definition step (c : cfg) (s : state) (i : input) : state * list action :=
  let '(s', acts, _) := step_x c s i in (s', acts).

(* an event = one call of the state machine and what it returned *)
Definition event := (input * list action)%type.

Fixpoint run (c : cfg) (s : state) (ins : list input) : state * list event :=
  match ins with
  | [] => (s, [])
  | i :: rest =>
      let '(s', acts) := step c s i in
      let '(s'', evs) := run c s' rest in
      (s'', (i, acts) :: evs)
  end.

(* The calling discipline of consensus/driver: ProcessStart(0) is the first call of every height (it
   follows New / a Commit action immediately), so no timeout is ever processed while the height is not
   started; rounds passed to ProcessStart are non-negative. *)
Definition ok_input (s : state) (i : input) : bool :=
  match i with
  | ITimeout _ _ _ => s_started s
  | IStart r => (0 <=? r)%Z
  | _ => true
  end.
Fixpoint disciplined (c : cfg) (s : state) (ins : list input) : bool :=
  match ins with
  | [] => true
  | i :: rest => ok_input s i && disciplined c (fst (step c s i)) rest
  end.

(* ---------- the monitor: the local safety predicates, evaluated on what a validator was given and
   what it emitted.  It keeps its own vote counter (fed with the delivered messages and the validator's
   own broadcasts), the lock implied by the validator's own precommits, and the position of its last
   vote.  Failure codes:
     1 a vote that is not strictly after the previous one in (height, round, prevote<precommit) order
       (so: two votes of one kind in one height/round, or a vote for an earlier round/height)
     2 a prevote for a value id that conflicts with the lock although no polka for that id was
       received at a round vr with lockedRound <= vr < round
     3 a precommit for a value id without a polka for it in that round
     4 a commit without: stored proposal of that round from that round's proposer, judged valid, and a
       precommit quorum for its id in that round
     5 a broadcast that does not carry the validator's own address / current height *)
Record mon := mkMon { m_vc : vcounter; m_lock : option (Z * hash); m_last : option (N * Z * vkind) }.
Definition mon_init (h : N) : mon := mkMon (vc_new h) None None.

Definition kind_num (k : vkind) : N := match k with Prevote => 0 | Precommit => 1 end.
Definition pos_lt (a b : N * Z * vkind) : bool :=
  let '(h1, r1, k1) := a in let '(h2, r2, k2) := b in
  (h1 <? h2) || ((h1 =? h2) && ((r1 <? r2)%Z || ((r1 =? r2)%Z && (kind_num k1 <? kind_num k2)))).
Definition after_last (m : mon) (p : N * Z * vkind) : bool :=
  match m_last m with None => true | Some l => pos_lt l p end.

Definition polka_between (c : cfg) (vc : vcounter) (lo hi : Z) (id : hash) : bool :=
  existsb (fun e => (lo <=? fst e)%Z && (fst e <? hi)%Z && vc_has_quorum_vote c vc (fst e) Prevote (Some id))
          (vc_rounds vc).

Definition chk (b : bool) (code : N) : list N := if b then [] else [code].

Definition mon_input (c : cfg) (m : mon) (i : input) : mon :=
  match i with
  | IProposal p => mkMon (fst (vc_add_proposal c (m_vc m) p)) (m_lock m) (m_last m)
  | IPrevote v => mkMon (fst (vc_add_vote c (m_vc m) Prevote v)) (m_lock m) (m_last m)
  | IPrecommit v => mkMon (fst (vc_add_vote c (m_vc m) Precommit v)) (m_lock m) (m_last m)
  | _ => m
  end.

Definition mon_action (c : cfg) (m : mon) (a : action) : mon * list N :=
  match a with
  | ABroadcastProposal p =>
      (mkMon (fst (vc_add_proposal c (m_vc m) p)) (m_lock m) (m_last m),
       chk ((p_from p =? c_self c) && (p_h p =? vc_h (m_vc m))) 5)
  | ABroadcastPrevote v =>
      let pos := (v_h v, v_r v, Prevote) in
      let lock_ok := match v_id v, m_lock m with
                     | None, _ => true
                     | Some _, None => true
                     | Some id, Some (lr, lid) => (lid =? id) || polka_between c (m_vc m) lr (v_r v) id
                     end in
      (mkMon (fst (vc_add_vote c (m_vc m) Prevote v)) (m_lock m) (Some pos),
       chk ((v_from v =? c_self c) && (v_h v =? vc_h (m_vc m))) 5 ++ chk (after_last m pos) 1 ++ chk lock_ok 2)
  | ABroadcastPrecommit v =>
      let pos := (v_h v, v_r v, Precommit) in
      let polka_ok := match v_id v with
                      | None => true
                      | Some id => vc_has_quorum_vote c (m_vc m) (v_r v) Prevote (Some id)
                      end in
      (mkMon (fst (vc_add_vote c (m_vc m) Precommit v))
             (match v_id v with Some id => Some (v_r v, id) | None => m_lock m end) (Some pos),
       chk ((v_from v =? c_self c) && (v_h v =? vc_h (m_vc m))) 5 ++ chk (after_last m pos) 1 ++ chk polka_ok 3)
  | ACommit p =>
      let ok := (p_h p =? vc_h (m_vc m))
                && (p_from p =? c_proposer c (p_h p) (p_r p))
                && c_valid c (p_val p)
                && (match vc_proposal (m_vc m) (p_r p) with Some p' => proposal_eqb p' p | None => false end)
                && vc_has_quorum_vote c (m_vc m) (p_r p) Precommit (Some (pid c p)) in
      (mkMon (vc_start_new_height (m_vc m)) None (m_last m), chk ok 4)
  | _ => (m, [])
  end.

Fixpoint mon_actions (c : cfg) (m : mon) (acts : list action) : mon * list N :=
  match acts with
  | [] => (m, [])
  | a :: rest =>
      let '(m1, e1) := mon_action c m a in
      let '(m2, e2) := mon_actions c m1 rest in (m2, e1 ++ e2)
  end.

Fixpoint mon_events (c : cfg) (m : mon) (evs : list event) : mon * list N :=
  match evs with
  | [] => (m, [])
  | (i, acts) :: rest =>
      let '(m1, e1) := mon_actions c (mon_input c m i) acts in
      let '(m2, e2) := mon_events c m1 rest in (m2, e1 ++ e2)
  end.

(* all failure codes of a history that started at height h *)
Definition audit (c : cfg) (h : N) (evs : list event) : list N := snd (mon_events c (mon_init h) evs).
Definition audit_has (code : N) (errs : list N) : bool := existsb (N.eqb code) errs.

(* ---------- the property text, on the bare list of emitted actions ---------- *)
Definition all_actions (evs : list event) : list action := flat_map snd evs.

Definition votes_of (k : vkind) (acts : list action) : list vote :=
  flat_map (fun a => match a, k with
                     | ABroadcastPrevote v, Prevote => [v]
                     | ABroadcastPrecommit v, Precommit => [v]
                     | _, _ => [] end) acts.

Definition same_slot (a b : vote) : bool := (v_h a =? v_h b) && (v_r a =? v_r b)%Z.

(* at most one vote of each kind per (height, round) *)
Fixpoint one_per_slot (l : list vote) : bool :=
  match l with
  | [] => true
  | v :: r => negb (existsb (same_slot v) r) && one_per_slot r
  end.
Definition no_double_vote (acts : list action) : bool :=
  one_per_slot (votes_of Prevote acts) && one_per_slot (votes_of Precommit acts).

(* agreement predicate on decisions (height, value id) gathered from several validators *)
Fixpoint decisions_agree (l : list (N * hash)) : bool :=
  match l with
  | [] => true
  | (h, i) :: r => forallb (fun e => negb (fst e =? h) || (snd e =? i)) r && decisions_agree r
  end.

(* ====================================================================================================
   process.go: ProcessWAL and ProcessSync, the WAL entries a run writes, and calls of all seven Process*
   methods.  (Names in this part are chosen not to clash with C13.Model, which imports this file.)
   ==================================================================================================== *)

(* consensus/types/wal: the five entry kinds *)
Inductive wentry :=
| WStart (h : N)
| WProposal (p : proposal)
| WPrevote (v : vote)
| WPrecommit (v : vote)
| WTimeout (k : phase) (h : N) (r : Z).

(* ProcessWAL: a type switch that hands the entry to the Process* method of its kind.  It suppresses
   NOTHING itself: the returned actions are the ones the live call returns, WriteWAL included (it is
   consensus/driver.execute(isReplaying = true) that skips WriteWAL and the flushes).  A Start entry is
   replayed as ProcessStart(0) whatever height it carries. *)
Definition process_wal_x (c : cfg) (s : state) (e : wentry) : state * list action * bool :=
  match e with
  | WStart _ => step_x c s (IStart 0)
  | WProposal p => step_x c s (IProposal p)
  | WPrevote v => step_x c s (IPrevote v)
  | WPrecommit v => step_x c s (IPrecommit v)
  | WTimeout k h r => step_x c s (ITimeout k h r)
  end.
Definition process_wal (c : cfg) (s : state) (e : wentry) : state * list action := fst (process_wal_x c s e).

(* ProcessSync(proposal, precommits):
     actions := s.ProcessProposal(proposal)
     for _, precommit := range precommits { actions = append(actions, s.ProcessPrecommit(&precommit)...) }
   No check of its own (height, round, sender, quorum): everything is left to ProcessProposal /
   ProcessPrecommit, i.e. to the vote counter and the rules. *)
Fixpoint sync_precommits (c : cfg) (s : state) (acts : list action) (ex : bool) (pcs : list vote)
  : state * list action * bool :=
  match pcs with
  | [] => (s, acts, ex)
  | v :: rest =>
      let '(s', a, x) := step_x c s (IPrecommit v) in
      sync_precommits c s' (acts ++ a) (ex || x) rest
  end.
Definition process_sync_x (c : cfg) (s : state) (p : proposal) (pcs : list vote) : state * list action * bool :=
  let '(s1, a1, x1) := step_x c s (IProposal p) in sync_precommits c s1 a1 x1 pcs.
Definition process_sync (c : cfg) (s : state) (p : proposal) (pcs : list vote) : state * list action :=
  fst (process_sync_x c s p pcs).

(* one call of the StateMachine interface *)
Inductive call :=
| KIn (i : input)                              (* ProcessStart / Proposal / Prevote / Precommit / Timeout *)
| KWal (e : wentry)                            (* ProcessWAL *)
| KSync (p : proposal) (pcs : list vote).      (* ProcessSync *)

Definition wentry_input (e : wentry) : input :=
  match e with
  | WStart _ => IStart 0
  | WProposal p => IProposal p
  | WPrevote v => IPrevote v
  | WPrecommit v => IPrecommit v
  | WTimeout k h r => ITimeout k h r
  end.

(* the Process{Start,Proposal,Prevote,Precommit,Timeout} calls a call is made of, in order *)
Definition call_inputs (x : call) : list input :=
  match x with
  | KIn i => [i]
  | KWal e => [wentry_input e]
  | KSync p pcs => IProposal p :: map IPrecommit pcs
  end.

Definition call_step_x (c : cfg) (s : state) (x : call) : state * list action * bool :=
  match x with
  | KIn i => step_x c s i
  | KWal e => process_wal_x c s e
  | KSync p pcs => process_sync_x c s p pcs
  end.
Definition call_step (c : cfg) (s : state) (x : call) : state * list action := fst (call_step_x c s x).

(* what the call did, call by inner call (the monitor sees the messages in the order the state machine does) *)
Definition call_events (c : cfg) (s : state) (x : call) : list event := snd (run c s (call_inputs x)).

Fixpoint run_calls (c : cfg) (s : state) (xs : list call) : state * list (call * list action) :=
  match xs with
  | [] => (s, [])
  | x :: rest =>
      let '(s', acts) := call_step c s x in
      let '(s'', l) := run_calls c s' rest in
      (s'', (x, acts) :: l)
  end.
Fixpoint calls_events (c : cfg) (s : state) (xs : list call) : list event :=
  match xs with
  | [] => []
  | x :: rest => call_events c s x ++ calls_events c (fst (call_step c s x)) rest
  end.
Definition calls_actions (l : list (call * list action)) : list action := flat_map snd l.

(* the calling discipline for calls: as ok_input; ProcessWAL of a Timeout entry only while the height is
   started (the log holds the Start entry of a height before its timeouts); ProcessSync needs nothing *)
Definition ok_call (s : state) (x : call) : bool :=
  match x with
  | KIn i => ok_input s i
  | KWal e => ok_input s (wentry_input e)
  | KSync _ _ => true
  end.
Fixpoint disciplined_calls (c : cfg) (s : state) (xs : list call) : bool :=
  match xs with
  | [] => true
  | x :: rest => ok_call s x && disciplined_calls c (fst (call_step c s x)) rest
  end.

(* split the action list a call returned into the lists of its inner calls, given their lengths (the harness
   has the concatenation only; the lengths are the model's) *)
Fixpoint split_by (lens : list nat) (acts : list action) : list (list action) :=
  match lens with
  | [] => []
  | [_] => [acts]
  | n :: rest => firstn n acts :: split_by rest (skipn n acts)
  end.
Definition call_impl_events (c : cfg) (s : state) (x : call) (impl : list action) : list event :=
  let evs := call_events c s x in
  combine (map fst evs) (split_by (map (fun e => length (snd e)) evs) impl).

(* ---------- the log a run writes, and its replay ---------- *)
Definition wal_of_action (a : action) : list wentry :=
  match a with
  | AWalStart h => [WStart h]
  | AWalProposal p => [WProposal p]
  | AWalPrevote v => [WPrevote v]
  | AWalPrecommit v => [WPrecommit v]
  | AWalTimeout k h r => [WTimeout k h r]
  | _ => []
  end.
Definition wlog_of (acts : list action) : list wentry := flat_map wal_of_action acts.
(* the entries a history wrote, in order *)
Definition wal_written (evs : list event) : list wentry := wlog_of (all_actions evs).

Fixpoint replay_wal (c : cfg) (s : state) (es : list wentry) : state * list (wentry * list action) :=
  match es with
  | [] => (s, [])
  | e :: rest =>
      let '(s', acts) := process_wal c s e in
      let '(s'', l) := replay_wal c s' rest in
      (s'', (e, acts) :: l)
  end.
Definition replay_actions (l : list (wentry * list action)) : list action := flat_map snd l.

(* The discipline under which the log determines the state (each clause is shown necessary in Props.v):
   - ProcessStart(r) has r >= 0 (ok_input), and r = 0 when the height is not started (ProcessWAL replays a Start
     entry as ProcessStart(0));
   - a message arrives while the height is started (otherwise it is counted but not logged);
   - a precommit does not take the TriggerSync path (counted, lastTriggerSync moved, not logged);
   - a timeout arrives while the height is started, and if it is stale (it matches nothing, so it is not
     logged) no rule is pending (processLoop runs even for a stale timeout). *)
Definition timeout_live (s : state) (k : phase) (h : N) (r : Z) : bool :=
  (s_h s =? h) && (s_r s =? r)%Z &&
  match k with
  | SPropose => step_eqb (s_step s) SPropose
  | SPrevote => step_eqb (s_step s) SPrevote
  | SPrecommit => true
  end.
Definition rule_none (ru : rule) : bool := match ru with RNone => true | _ => false end.
Definition has_trigger_sync (acts : list action) : bool :=
  existsb (fun a => match a with ATriggerSync _ _ => true | _ => false end) acts.
Definition wal_ok_input (c : cfg) (s : state) (i : input) : bool :=
  match i with
  | IStart r => (0 <=? r)%Z && (s_started s || (r =? 0)%Z)
  | IProposal _ => s_started s
  | IPrevote _ => s_started s
  | IPrecommit _ => s_started s && negb (has_trigger_sync (snd (step c s i)))
  | ITimeout k h r => s_started s && (timeout_live s k h r || rule_none (select c s None))
  end.
Fixpoint wal_disciplined (c : cfg) (s : state) (ins : list input) : bool :=
  match ins with
  | [] => true
  | i :: rest => wal_ok_input c s i && wal_disciplined c (fst (step c s i)) rest
  end.

(* ---------- "the same state": all consensus variables and the sync bookkeeping equal, and the vote
   counters hold the same round data in every cell (height >= current height, round).  Not compared: the
   order of Go map entries and empty map entries (getRoundData creates one for a rejected message). ---------- *)
Definition vfut (vc : vcounter) (h : N) : rmap :=
  match aget N.eqb (vc_future vc) h with Some m => m | None => [] end.
Definition vcell (vc : vcounter) (h : N) (r : Z) : rdata :=
  rm_get (if h =? vc_h vc then vc_rounds vc else vfut vc h) r.

Fixpoint leqb {A : Type} (eqb : A -> A -> bool) (l1 l2 : list A) : bool :=
  match l1, l2 with
  | [], [] => true
  | x :: r1, y :: r2 => eqb x y && leqb eqb r1 r2
  | _, _ => false
  end.
Definition bal_eqb (a b : ballot) : bool := Bool.eqb (fst a) (fst b) && Bool.eqb (snd a) (snd b).
Definition bs_eqb (a b : bset) : bool :=
  leqb (fun x y => (fst x =? fst y) && bal_eqb (snd x) (snd y)) (b_bal a) (b_bal b) &&
  (b_pv a =? b_pv b) && (b_pc a =? b_pc b) && (b_tot a =? b_tot b).
Definition opr_eqb (a b : option proposal) : bool :=
  match a, b with Some p, Some q => proposal_eqb p q | None, None => true | _, _ => false end.
Definition rd_eqb (a b : rdata) : bool :=
  opr_eqb (r_prop a) (r_prop b) && (r_unc a =? r_unc b) &&
  leqb (fun x y => (fst x =? fst y) && bs_eqb (snd x) (snd y)) (r_ids a) (r_ids b) &&
  bs_eqb (r_nil a) (r_nil b) && bs_eqb (r_all a) (r_all b).

Definition vc_keys (vc : vcounter) : list (N * Z) :=
  map (fun e => (vc_h vc, fst e)) (vc_rounds vc) ++
  flat_map (fun hm => map (fun e => (fst hm, fst e)) (snd hm)) (vc_future vc).
Definition vc_sim_b (a b : vcounter) : bool :=
  (vc_h a =? vc_h b) &&
  forallb (fun k => (fst k <? vc_h a) || rd_eqb (vcell a (fst k) (snd k)) (vcell b (fst k) (snd k)))
          (vc_keys a ++ vc_keys b).
Definition oval_eqb (a b : option value) : bool :=
  match a, b with Some x, Some y => x =? y | None, None => true | _, _ => false end.
Definition st_sim_b (s s' : state) : bool :=
  (s_h s =? s_h s') && (s_r s =? s_r s')%Z && step_eqb (s_step s) (s_step s') &&
  oval_eqb (s_lv s) (s_lv s') && (s_lr s =? s_lr s')%Z && oval_eqb (s_vv s) (s_vv s') && (s_vr s =? s_vr s')%Z &&
  Bool.eqb (s_tpv s) (s_tpv s') && Bool.eqb (s_tpc s) (s_tpc s') && Bool.eqb (s_lvs s) (s_lvs s') &&
  Bool.eqb (s_started s) (s_started s') && (s_lts s =? s_lts s') && (s_lq s =? s_lq s') && (s_nval s =? s_nval s') &&
  vc_sim_b (s_vc s) (s_vc s').

Fixpoint acts_eqb (a b : list action) : bool :=
  match a, b with
  | [], [] => true
  | x :: r1, y :: r2 =>
      (match x, y with
       | AWalStart h, AWalStart h' => h =? h'
       | AWalProposal p, AWalProposal q | ABroadcastProposal p, ABroadcastProposal q | ACommit p, ACommit q => proposal_eqb p q
       | AWalPrevote v, AWalPrevote u | AWalPrecommit v, AWalPrecommit u
       | ABroadcastPrevote v, ABroadcastPrevote u | ABroadcastPrecommit v, ABroadcastPrecommit u =>
           (v_h v =? v_h u) && (v_r v =? v_r u)%Z && (v_from v =? v_from u) && oid_eqb (v_id v) (v_id u)
       | AWalTimeout k h r, AWalTimeout k' h' r' | ASchedule k h r, ASchedule k' h' r' =>
           step_eqb k k' && (h =? h') && (r =? r')%Z
       | ATriggerSync s e, ATriggerSync s' e' => (s =? s') && (e =? e')
       | _, _ => false
       end) && acts_eqb r1 r2
  | _, _ => false
  end.

(* the conclusion of C12_wal_replay_same_state as one boolean on a history: replaying what it logged
   reaches the same state and returns the same actions *)
Definition wal_replay_same (c : cfg) (s0 : state) (ins : list input) : bool :=
  let r := run c s0 ins in
  let w := replay_wal c s0 (wal_written (snd r)) in
  st_sim_b (fst w) (fst r) && acts_eqb (replay_actions (snd w)) (all_actions (snd r)).
