(* C12 — lemmas: threshold arithmetic. *)
From Coq Require Import List NArith ZArith Bool Lia ZifyN ZifyBool.
From V Require Import C12.Model.
Import ListNotations.
Open Scope N_scope.

Ltac Zify.zify_post_hook ::= Z.div_mod_to_equations.

Lemma f_of_exact : forall n, 1 <= n < W -> f_of n = (n - 1) / 3.
Proof. intros n H. unfold f_of, W in *. f_equal. lia. Qed.

Lemma q_of_exact : forall n, n < W / 2 -> q_of n = (2 * n + 2) / 3.
Proof.
  intros n H. unfold q_of, W in *.
  replace ((n * 2) mod 18446744073709551616) with (n * 2) by lia.
  destruct (0 <? (n * 2) mod 3) eqn:E; lia.
Qed.

Lemma quorum_intersect_lemma : forall n, 1 <= n < W / 2 ->
  f_of n + n < 2 * q_of n /\ 3 * f_of n < n.
Proof.
  intros n H. rewrite f_of_exact, q_of_exact by (unfold W in *; lia). lia.
Qed.

(* ================= association lists ================= *)
Section AssocLemmas.
  Context {K V : Type} (eqb : K -> K -> bool).
  Hypothesis eqb_eq : forall a b, eqb a b = true <-> a = b.

  Lemma eqb_refl' : forall a, eqb a a = true.
  Proof. intro a. apply eqb_eq. reflexivity. Qed.
  Lemma eqb_neq' : forall a b, a <> b -> eqb a b = false.
  Proof. intros a b H. destruct (eqb a b) eqn:E; [apply eqb_eq in E; contradiction|reflexivity]. Qed.

  Lemma aget_aset_same : forall (l : list (K * V)) k v, aget eqb (aset eqb l k v) k = Some v.
  Proof.
    induction l as [|[k' v'] l IH]; intros k v; simpl.
    - rewrite eqb_refl'. reflexivity.
    - destruct (eqb k k') eqn:E; simpl.
      + rewrite eqb_refl'. reflexivity.
      + rewrite E. apply IH.
  Qed.

  Lemma aget_aset_other : forall (l : list (K * V)) k k' v, k <> k' -> aget eqb (aset eqb l k v) k' = aget eqb l k'.
  Proof.
    induction l as [|[k0 v0] l IH]; intros k k' v Hne; simpl.
    - rewrite eqb_neq' by (intro; subst; contradiction). reflexivity.
    - destruct (eqb k k0) eqn:E; simpl.
      + apply eqb_eq in E. subst k0.
        rewrite !eqb_neq' by (intro; subst; contradiction). reflexivity.
      + destruct (eqb k' k0); [reflexivity|]. apply IH. assumption.
  Qed.

  Lemma aget_aset : forall (l : list (K * V)) k k' v,
    aget eqb (aset eqb l k v) k' = if eqb k k' then Some v else aget eqb l k'.
  Proof.
    intros. destruct (eqb k k') eqn:E.
    - apply eqb_eq in E. subst. apply aget_aset_same.
    - apply aget_aset_other. intro; subst. rewrite eqb_refl' in E. discriminate.
  Qed.

  Lemma aget_adel : forall (l : list (K * V)) k k',
    aget eqb (adel eqb l k) k' = if eqb k k' then None else aget eqb l k'.
  Proof.
    induction l as [|[k0 v0] l IH]; intros k k'; simpl.
    - destruct (eqb k k'); reflexivity.
    - destruct (eqb k k0) eqn:E.
      + apply eqb_eq in E. subst k0. rewrite IH.
        destruct (eqb k k') eqn:E2; [reflexivity|].
        rewrite eqb_neq'; [reflexivity|]. intro; subst. rewrite eqb_refl' in E2. discriminate.
      + simpl. destruct (eqb k' k0) eqn:E3.
        * apply eqb_eq in E3. subst k0. rewrite E. reflexivity.
        * apply IH.
  Qed.

  Lemma aget_In : forall (l : list (K * V)) k v, aget eqb l k = Some v -> In (k, v) l.
  Proof.
    induction l as [|[k0 v0] l IH]; intros k v H; simpl in *; [discriminate|].
    destruct (eqb k k0) eqn:E.
    - apply eqb_eq in E. inversion H. subst. left. reflexivity.
    - right. apply IH. assumption.
  Qed.
End AssocLemmas.

Lemma Neqb_eq : forall a b : N, (a =? b) = true <-> a = b.
Proof. intros. apply N.eqb_eq. Qed.
Lemma Zeqb_eq : forall a b : Z, (a =? b)%Z = true <-> a = b.
Proof. intros. apply Z.eqb_eq. Qed.

(* ================= well-formed stored proposals ================= *)
Definition rd_ok (c : cfg) (h : N) (r : Z) (rd : rdata) : Prop :=
  forall p, r_prop rd = Some p -> p_h p = h /\ p_r p = r /\ p_from p = c_proposer c h r.
Definition rm_ok (c : cfg) (h : N) (m : rmap) : Prop :=
  forall r rd, aget Z.eqb m r = Some rd -> rd_ok c h r rd.
Definition vc_props_ok (c : cfg) (vc : vcounter) : Prop :=
  rm_ok c (vc_h vc) (vc_rounds vc) /\
  forall h m, aget N.eqb (vc_future vc) h = Some m -> rm_ok c h m.

Lemma rd_ok_empty : forall c h r, rd_ok c h r r_empty.
Proof. intros c h r p H. discriminate. Qed.

Lemma rm_ok_nil : forall c h, rm_ok c h [].
Proof. intros c h r rd H. discriminate. Qed.

Lemma rm_get_ok : forall c h m r, rm_ok c h m -> rd_ok c h r (rm_get m r).
Proof.
  intros c h m r H. unfold rm_get. destruct (aget Z.eqb m r) eqn:E.
  - eapply H; eauto.
  - apply rd_ok_empty.
Qed.

Lemma rm_ok_aset : forall c h m r rd, rm_ok c h m -> rd_ok c h r rd -> rm_ok c h (aset Z.eqb m r rd).
Proof.
  intros c h m r rd Hm Hrd r' rd' H.
  rewrite (aget_aset Z.eqb Zeqb_eq) in H. destruct (r =? r')%Z eqn:E.
  - apply Z.eqb_eq in E. subst. inversion H. subst. assumption.
  - eapply Hm; eauto.
Qed.

Lemma vc_with_h : forall vc h r f, vc_h (fst (vc_with vc h r f)) = vc_h vc.
Proof.
  intros. unfold vc_with. destruct (h <? vc_h vc); [reflexivity|].
  destruct (h =? vc_h vc).
  - destruct (f (rm_get (vc_rounds vc) r)). reflexivity.
  - destruct (f _). reflexivity.
Qed.

Lemma vc_with_ok : forall c vc h r f,
  (forall rd, rd_ok c h r rd -> rd_ok c h r (fst (f rd))) ->
  vc_props_ok c vc -> vc_props_ok c (fst (vc_with vc h r f)).
Proof.
  intros c vc h r f Hf [Hc Hfu]. unfold vc_with.
  destruct (h <? vc_h vc); [split; assumption|].
  destruct (h =? vc_h vc) eqn:E.
  - apply N.eqb_eq in E. subst h.
    pose proof (Hf _ (rm_get_ok c _ _ r Hc)) as H1.
    destruct (f (rm_get (vc_rounds vc) r)) as [rd' ok]. simpl in *.
    split; simpl; [apply rm_ok_aset; assumption|assumption].
  - set (m := match aget N.eqb (vc_future vc) h with Some m => m | None => [] end).
    assert (Hm : rm_ok c h m).
    { unfold m. destruct (aget N.eqb (vc_future vc) h) eqn:E2; [eapply Hfu; eauto|apply rm_ok_nil]. }
    pose proof (Hf _ (rm_get_ok c _ _ r Hm)) as H1.
    destruct (f (rm_get m r)) as [rd' ok]. simpl in *.
    split; simpl; [assumption|].
    intros h' m' H. rewrite (aget_aset N.eqb Neqb_eq) in H. destruct (h =? h') eqn:E3.
    + apply N.eqb_eq in E3. subst h'. inversion H. subst. apply rm_ok_aset; assumption.
    + eapply Hfu; eauto.
Qed.

Lemma vc_add_proposal_h : forall c vc p, vc_h (fst (vc_add_proposal c vc p)) = vc_h vc.
Proof. intros. apply vc_with_h. Qed.
Lemma vc_add_vote_h : forall c vc k v, vc_h (fst (vc_add_vote c vc k v)) = vc_h vc.
Proof. intros. apply vc_with_h. Qed.

Lemma vc_add_proposal_ok : forall c vc p, vc_props_ok c vc -> vc_props_ok c (fst (vc_add_proposal c vc p)).
Proof.
  intros c vc p H. apply vc_with_ok; [|assumption].
  intros rd Hrd. destruct (negb (p_from p =? c_proposer c (p_h p) (p_r p))) eqn:E; [assumption|].
  apply negb_false_iff, N.eqb_eq in E.
  unfold r_set_proposal. destruct (r_prop rd) eqn:E2; [assumption|]. simpl.
  intros p' Hp'. simpl in Hp'. inversion Hp'. subst. auto.
Qed.

Lemma r_add_vote_prop : forall rd v pw k, r_prop (fst (r_add_vote rd v pw k)) = r_prop rd.
Proof.
  intros. unfold r_add_vote. destruct (v_id v).
  - destruct (b_add _ _ _ _). reflexivity.
  - destruct (b_add _ _ _ _). reflexivity.
Qed.

Lemma vc_add_vote_ok : forall c vc k v, vc_props_ok c vc -> vc_props_ok c (fst (vc_add_vote c vc k v)).
Proof.
  intros c vc k v H. apply vc_with_ok; [|assumption].
  intros rd Hrd p Hp. rewrite r_add_vote_prop in Hp. apply Hrd. assumption.
Qed.

Lemma vc_start_new_height_ok : forall c vc, vc_props_ok c vc -> vc_props_ok c (vc_start_new_height vc).
Proof.
  intros c vc [Hc Hf]. unfold vc_start_new_height. split; simpl.
  - destruct (aget N.eqb (vc_future vc) (vc_h vc + 1)) eqn:E; [eapply Hf; eauto|apply rm_ok_nil].
  - intros h m H. rewrite (aget_adel N.eqb Neqb_eq) in H.
    destruct (vc_h vc + 1 =? h); [discriminate|]. eapply Hf; eauto.
Qed.

Lemma vc_proposal_ok : forall c vc r p, vc_props_ok c vc -> vc_proposal vc r = Some p ->
  p_h p = vc_h vc /\ p_r p = r /\ p_from p = c_proposer c (vc_h vc) r.
Proof.
  intros c vc r p [Hc _] H. unfold vc_proposal in H.
  destruct (aget Z.eqb (vc_rounds vc) r) eqn:E; [|discriminate]. eapply Hc; eauto.
Qed.

(* ================= the monitor simulates the state machine ================= *)
Definition phase_num (p : phase) : N := match p with SPropose => 0 | SPrevote => 1 | SPrecommit => 2 end.

(* (height, round, step) never goes back *)
Definition spos_le (s s' : state) : Prop :=
  s_h s < s_h s' \/
  (s_h s = s_h s' /\ ((s_r s < s_r s')%Z \/ (s_r s = s_r s' /\ phase_num (s_step s) <= phase_num (s_step s')))).

Lemma spos_le_refl : forall s, spos_le s s.
Proof. intro s. right. split; [reflexivity|]. right. split; [reflexivity|lia]. Qed.
Lemma spos_le_trans : forall a b c, spos_le a b -> spos_le b c -> spos_le a c.
Proof. unfold spos_le. intros a b c H1 H2. lia. Qed.

Record Rel (c : cfg) (s : state) (m : mon) : Prop := mkRel {
  R_vc : m_vc m = s_vc s;
  R_h : vc_h (s_vc s) = s_h s;
  R_round : (0 <= s_r s)%Z;
  R_lock : match m_lock m with
           | None => s_lr s = (-1)%Z
           | Some (r, id) => s_lr s = r /\ (0 <= r)%Z /\ exists v, s_lv s = Some v /\ c_vid c v = id
           end;
  R_last : match m_last m with
           | None => True
           | Some (h, r, k) =>
               h < s_h s \/
               (h = s_h s /\ s_started s = true /\
                ((r < s_r s)%Z \/
                 (r = s_r s /\ match k with Prevote => s_step s <> SPropose | Precommit => s_step s = SPrecommit end)))
           end;
  R_idle : s_started s = false -> s_r s = 0%Z /\ s_step s = SPropose /\ m_lock m = None;
  R_props : vc_props_ok c (s_vc s)
}.

Lemma Rel_init : forall c h, Rel c (init_state h) (mon_init h).
Proof.
  intros c h. constructor; simpl; auto; try lia.
  split; simpl; [apply rm_ok_nil|]. intros h' m H. discriminate.
Qed.

Lemma step_eqb_eq : forall a b, step_eqb a b = true <-> a = b.
Proof. intros [] []; simpl; split; intro H; try reflexivity; try discriminate. Qed.

Lemma proposal_eqb_refl : forall p, proposal_eqb p p = true.
Proof. intro p. unfold proposal_eqb. rewrite !N.eqb_refl, !Z.eqb_refl. reflexivity. Qed.

Lemma mon_actions_app : forall c a b m,
  mon_actions c m (a ++ b) =
  let '(m1, e1) := mon_actions c m a in let '(m2, e2) := mon_actions c m1 b in (m2, e1 ++ e2).
Proof.
  intros c a. induction a as [|x a IH]; intros b m; simpl.
  - destruct (mon_actions c m b). reflexivity.
  - destruct (mon_action c m x) as [m1 e1]. rewrite IH.
    destruct (mon_actions c m1 a) as [m2 e2]. destruct (mon_actions c m2 b) as [m3 e3].
    rewrite app_assoc. reflexivity.
Qed.

Lemma polka_between_intro : forall c vc lo hi vr id,
  (lo <= vr)%Z -> (vr < hi)%Z -> vc_has_quorum_vote c vc vr Prevote (Some id) = true ->
  polka_between c vc lo hi id = true.
Proof.
  intros c vc lo hi vr id H1 H2 H3. unfold polka_between. apply existsb_exists.
  unfold vc_has_quorum_vote in H3. destruct (aget Z.eqb (vc_rounds vc) vr) eqn:E; [|discriminate].
  exists (vr, r). split; [eapply aget_In; eauto using Zeqb_eq|]. simpl.
  unfold vc_has_quorum_vote. rewrite E, H3.
  apply Z.leb_le in H1. apply Z.ltb_lt in H2. rewrite H1, H2. reflexivity.
Qed.

Ltac relfin := try solve [ assumption | rewrite vc_add_proposal_h; assumption | rewrite vc_add_vote_h; assumption
  | apply vc_add_proposal_ok; assumption | apply vc_add_vote_ok; assumption | intro; discriminate | intro; congruence ].

(* ---- broadcasting a prevote ---- *)
Lemma sim_send_prevote : forall c s m id,
  Rel c s m -> s_started s = true -> s_step s = SPropose ->
  (forall i, id = Some i ->
     match m_lock m with
     | None => True
     | Some (lr, lid) => lid = i \/ polka_between c (m_vc m) lr (s_r s) i = true
     end) ->
  exists m', mon_action c m (snd (send_prevote c s id)) = (m', []) /\
             Rel c (fst (send_prevote c s id)) m' /\
             s_started (fst (send_prevote c s id)) = true /\ spos_le s (fst (send_prevote c s id)).
Proof.
  intros c s m id R Hst Hstep Hlock. destruct R as [Rvc Rh Rr Rl Rla Ri Rp].
  unfold send_prevote. simpl.
  eexists. split; [|split; [|split]].
  - rewrite Rvc, Rh, !N.eqb_refl. simpl.
    replace (after_last m (s_h s, s_r s, Prevote)) with true.
    2:{ unfold after_last. destruct (m_last m) as [[[h r] k]|]; [|reflexivity]. unfold pos_lt.
        destruct Rla as [H|[H1 [_ [H|[H2 H3]]]]].
        - apply N.ltb_lt in H. rewrite H. reflexivity.
        - subst h. apply Z.ltb_lt in H. rewrite N.eqb_refl, H. rewrite orb_true_r. reflexivity.
        - destruct k; [contradiction|rewrite Hstep in H3; discriminate]. }
    simpl.
    match goal with |- (_, chk ?b 2) = _ => replace b with true end.
    2:{ destruct id as [i|]; [|reflexivity]. specialize (Hlock i eq_refl).
        destruct (m_lock m) as [[lr lid]|]; [|reflexivity].
        destruct Hlock as [H|H]; [subst; rewrite N.eqb_refl; reflexivity|].
        rewrite <- Rvc, H. rewrite orb_true_r. reflexivity. }
    simpl. reflexivity.
  - constructor; simpl; auto.
    + rewrite vc_add_vote_h. assumption.
    + right. split; [reflexivity|]. split; [assumption|]. right. split; [reflexivity|discriminate].
    + intro H. rewrite Hst in H. discriminate.
    + apply vc_add_vote_ok. assumption.
  - assumption.
  - right. simpl. split; [reflexivity|]. right. split; [reflexivity|]. rewrite Hstep. simpl. lia.
Qed.

(* ---- broadcasting a precommit (nil, or the value just locked by line 36) ---- *)
Lemma sim_send_precommit : forall c s0 s m id,
  Rel c s0 m -> s_started s0 = true -> s_step s0 = SPrevote ->
  ((s = s0 /\ id = None) \/
   (exists v, s = set_lock s0 v /\ id = Some (c_vid c v) /\
              vc_has_quorum_vote c (s_vc s0) (s_r s0) Prevote (Some (c_vid c v)) = true)) ->
  exists m', mon_action c m (snd (send_precommit c s id)) = (m', []) /\
             Rel c (fst (send_precommit c s id)) m' /\
             s_started (fst (send_precommit c s id)) = true /\ spos_le s0 (fst (send_precommit c s id)).
Proof.
  intros c s0 s m id R Hst Hstep Hcase. destruct R as [Rvc Rh Rr Rl Rla Ri Rp].
  assert (Hal : after_last m (s_h s0, s_r s0, Precommit) = true).
  { unfold after_last. destruct (m_last m) as [[[h r] k]|]; [|reflexivity]. unfold pos_lt.
    destruct Rla as [H|[H1 [_ [H|[H2 H3]]]]].
    - apply N.ltb_lt in H. rewrite H. reflexivity.
    - subst h. apply Z.ltb_lt in H. rewrite N.eqb_refl, H. rewrite orb_true_r. reflexivity.
    - subst h r. rewrite N.eqb_refl, Z.eqb_refl. destruct k; simpl.
      + rewrite !orb_true_r. reflexivity.
      + rewrite Hstep in H3. discriminate. }
  destruct Hcase as [[-> ->]|[v [-> [-> Hq]]]]; unfold send_precommit; simpl.
  - eexists. split; [|split; [|split]].
    + rewrite Rvc, Rh, !N.eqb_refl, Hal. simpl. reflexivity.
    + constructor; simpl; auto.
      * rewrite vc_add_vote_h. assumption.
      * right. split; [reflexivity|]. split; [assumption|]. right. split; reflexivity.
      * intro H. rewrite Hst in H. discriminate.
      * apply vc_add_vote_ok. assumption.
    + assumption.
    + right. simpl. split; [reflexivity|]. right. split; [reflexivity|]. rewrite Hstep. simpl. lia.
  - eexists. split; [|split; [|split]].
    + rewrite Rvc, Rh, !N.eqb_refl, Hal, Hq. simpl. reflexivity.
    + constructor; simpl; auto.
      * rewrite vc_add_vote_h. assumption.
      * split; [reflexivity|]. split; [assumption|]. exists v. split; reflexivity.
      * right. split; [reflexivity|]. split; [assumption|]. right. split; reflexivity.
      * intro H. rewrite Hst in H. discriminate.
      * apply vc_add_vote_ok. assumption.
    + assumption.
    + right. simpl. split; [reflexivity|]. right. split; [reflexivity|]. rewrite Hstep. simpl. lia.
Qed.

Lemma Rel_set_valid : forall c s m v, Rel c s m -> Rel c (set_valid s v) m.
Proof. intros c s m v [Rvc Rh Rr Rl Rla Ri Rp]. constructor; simpl; auto. Qed.

(* ---- startRound ---- *)
Lemma sim_start_round : forall c s m r,
  Rel c s m -> s_started s = true -> (0 <= r)%Z ->
  match m_last m with
  | None => True
  | Some (h, r0, k) => h < s_h s \/ (h = s_h s /\ (r0 < r)%Z)
  end ->
  exists m', mon_action c m (snd (start_round c s r)) = (m', []) /\
             Rel c (fst (start_round c s r)) m' /\
             s_started (fst (start_round c s r)) = true /\
             s_h (fst (start_round c s r)) = s_h s /\ s_r (fst (start_round c s r)) = r /\
             s_step (fst (start_round c s r)) = SPropose.
Proof.
  intros c s m r R Hst Hr Hlast. destruct R as [Rvc Rh Rr Rl Rla Ri Rp].
  assert (Hla' : match m_last m with
           | None => True
           | Some (h, r0, k) =>
               h < s_h s \/
               (h = s_h s /\ true = true /\
                ((r0 < r)%Z \/
                 (r0 = r /\ match k with Prevote => SPropose <> SPropose | Precommit => SPropose = SPrecommit end)))
           end).
  { destruct (m_last m) as [[[h r0] k]|]; [|exact I]. destruct Hlast as [H|[H1 H2]]; [left; assumption|].
    right. split; [assumption|]. split; [reflexivity|]. left. assumption. }
  unfold start_round. simpl.
  destruct (c_proposer c (vc_h (s_vc s)) r =? c_self c) eqn:Ep.
  - destruct (s_vv s) as [vv|]; unfold send_proposal; simpl.
    + eexists. split; [|split; [|repeat split]].
      * rewrite Rvc, Rh, !N.eqb_refl. simpl. reflexivity.
      * constructor; simpl; try rewrite Hst; auto; relfin.
      * assumption.
    + eexists. split; [|split; [|repeat split]].
      * rewrite Rvc, Rh, !N.eqb_refl. simpl. reflexivity.
      * constructor; simpl; try rewrite Hst; auto; relfin.
      * assumption.
  - eexists. split; [|split; [|repeat split]].
    + simpl. reflexivity.
    + constructor; simpl; try rewrite Hst; auto; relfin.
    + assumption.
Qed.

(* ---- what the selected rule guarantees ---- *)
Lemma select_spec : forall c s rr,
  match select c s rr with
  | R22 p => vc_proposal (s_vc s) (s_r s) = Some p /\ upon22 s p = true
  | R28 p => vc_proposal (s_vc s) (s_r s) = Some p /\ upon28 c s p = true
  | R34 => upon34 c s = true
  | R36 p => vc_proposal (s_vc s) (s_r s) = Some p /\ upon36 c s p = true
  | R44 => upon44 c s = true
  | R47 => upon47 c s = true
  | R49 q => match rr with Some r => vc_proposal (s_vc s) r | None => vc_proposal (s_vc s) (s_r s) end = Some q
             /\ upon49 c s q = true
  | R55 r => rr = Some r /\ upon55 c s r = true
  | RNone => True
  end.
Proof.
  intros c s rr. unfold select.
  set (rcp := match rr with Some r => vc_proposal (s_vc s) r | None => vc_proposal (s_vc s) (s_r s) end).
  assert (Htail :
    match (if otest rcp (upon49 c s) then match rcp with Some q => R49 q | None => RNone end
           else if otest rr (upon55 c s) then match rr with Some r => R55 r | None => RNone end
           else RNone) with
    | R49 q => rcp = Some q /\ upon49 c s q = true
    | R55 r => rr = Some r /\ upon55 c s r = true
    | RNone => True
    | _ => False
    end).
  { destruct (otest rcp (upon49 c s)) eqn:E1.
    - destruct rcp as [q|]; simpl in E1; [auto|discriminate].
    - destruct (otest rr (upon55 c s)) eqn:E2; [|exact I].
      destruct rr as [r|]; simpl in E2; [auto|discriminate]. }
  destruct (vc_proposal (s_vc s) (s_r s)) as [p|] eqn:Ecp.
  - destruct (upon22 s p) eqn:E22; [auto|].
    destruct (upon28 c s p) eqn:E28; [auto|].
    destruct (upon34 c s) eqn:E34; [auto|].
    destruct (upon36 c s p) eqn:E36; [auto|].
    destruct (upon44 c s) eqn:E44; [auto|].
    destruct (upon47 c s) eqn:E47; [auto|].
    fold rcp.
    destruct (if otest rcp (upon49 c s) then _ else _); try contradiction; auto.
  - destruct (upon34 c s) eqn:E34; [auto|].
    destruct (upon44 c s) eqn:E44; [auto|].
    destruct (upon47 c s) eqn:E47; [auto|].
    fold rcp.
    destruct (if otest rcp (upon49 c s) then _ else _); try contradiction; auto.
Qed.

Lemma andb4 : forall a b c d, a && b && c && d = true -> a = true /\ b = true /\ c = true /\ d = true.
Proof. intros [] [] [] []; simpl; intro H; try discriminate; auto. Qed.
Lemma andb3 : forall a b c, a && b && c = true -> a = true /\ b = true /\ c = true.
Proof. intros [] [] []; simpl; intro H; try discriminate; auto. Qed.

(* ---- one iteration of the loop ---- *)
Lemma apply_rule_sim : forall c s m rr s' oa cont,
  Rel c s m -> s_started s = true ->
  apply_rule c s (select c s rr) = (s', oa, cont) ->
  exists m', mon_actions c m (olist oa) = (m', []) /\ Rel c s' m' /\
             (cont = true -> s_started s' = true) /\ spos_le s s'.
Proof.
  intros c s m rr s' oa cont R Hst Happ.
  pose proof (select_spec c s rr) as Hsel.
  destruct (select c s rr) as [p|p| |p| | |q|r| ]; unfold apply_rule in Happ.
  - (* line 22 *)
    destruct Hsel as [Hcp Hup]. unfold upon22 in Hup. apply andb_prop in Hup. destruct Hup as [_ Hstep].
    apply step_eqb_eq in Hstep.
    unfold do22 in Happ.
    match type of Happ with (let '(_, _) := send_prevote c s ?id in _) = _ =>
      destruct (sim_send_prevote c s m id R Hst Hstep) as [m' [H1 [H2 [H3 H4]]]] end.
    { intros i Hi. destruct (c_valid c (p_val p) && ((s_lr s =? -1)%Z || lock_matches c s (pid c p))) eqn:E; [|discriminate].
      inversion Hi. subst i. apply andb_prop in E. destruct E as [_ E].
      destruct R as [_ _ _ Rl _ _ _]. destruct (m_lock m) as [[lr lid]|]; [|exact I].
      destruct Rl as [Hlr [Hge [v [Hlv Hvid]]]].
      apply orb_prop in E. destruct E as [E|E].
      - apply Z.eqb_eq in E. lia.
      - unfold lock_matches in E. rewrite Hlv in E. apply N.eqb_eq in E. left. congruence. }
    destruct (send_prevote c s _) as [s1 a]. inversion Happ. subst. simpl in *.
    exists m'. rewrite H1. auto.
  - (* line 28 *)
    destruct Hsel as [Hcp Hup]. unfold upon28 in Hup. apply andb4 in Hup.
    destruct Hup as [Hq [Hstep [Hvr0 Hvr1]]]. apply step_eqb_eq in Hstep.
    unfold do28 in Happ.
    match type of Happ with (let '(_, _) := send_prevote c s ?id in _) = _ =>
      destruct (sim_send_prevote c s m id R Hst Hstep) as [m' [H1 [H2 [H3 H4]]]] end.
    { intros i Hi. destruct (c_valid c (p_val p) && ((s_lr s <=? p_vr p)%Z || lock_matches c s (pid c p))) eqn:E; [|discriminate].
      inversion Hi. subst i. apply andb_prop in E. destruct E as [_ E].
      destruct R as [Rvc _ _ Rl _ _ _]. destruct (m_lock m) as [[lr lid]|]; [|exact I].
      destruct Rl as [Hlr [Hge [v [Hlv Hvid]]]].
      apply orb_prop in E. destruct E as [E|E].
      - right. apply Z.leb_le in E. apply Z.ltb_lt in Hvr1. rewrite Rvc.
        eapply polka_between_intro; [| |exact Hq]; lia.
      - unfold lock_matches in E. rewrite Hlv in E. apply N.eqb_eq in E. left. congruence. }
    destruct (send_prevote c s _) as [s1 a]. inversion Happ. subst. simpl in *.
    exists m'. rewrite H1. auto.
  - (* line 34 *)
    unfold do34 in Happ. inversion Happ. subst. simpl. exists m. split; [reflexivity|].
    destruct R as [Rvc Rh Rr Rl Rla Ri Rp]. split; [constructor; simpl; auto|]. split; [auto|].
    right. simpl. split; [reflexivity|]. right. split; [reflexivity|lia].
  - (* line 36 *)
    destruct Hsel as [Hcp Hup]. unfold upon36 in Hup. apply andb4 in Hup.
    destruct Hup as [Hq [Hval [Hstep _]]].
    unfold do36 in Happ. destruct (step_eqb (s_step s) SPrevote) eqn:Est.
    + apply step_eqb_eq in Est.
      destruct (sim_send_precommit c s (set_lock s (p_val p)) m (Some (pid c p)) R Hst Est) as [m' [H1 [H2 [H3 H4]]]].
      { right. exists (p_val p). split; [reflexivity|]. split; [reflexivity|]. exact Hq. }
      destruct (send_precommit c (set_lock s (p_val p)) (Some (pid c p))) as [s1 a].
      inversion Happ. subst. simpl in *. exists m'. rewrite H1. split; [reflexivity|].
      split; [apply Rel_set_valid; assumption|]. split; [auto|].
      unfold spos_le in *. simpl. assumption.
    + inversion Happ. subst. simpl. exists m. split; [reflexivity|].
      split; [apply Rel_set_valid; assumption|]. split; [auto|].
      right. simpl. split; [reflexivity|]. right. split; [reflexivity|lia].
  - (* line 44 *)
    unfold upon44 in Hsel. apply andb_prop in Hsel. destruct Hsel as [_ Est]. apply step_eqb_eq in Est.
    destruct (sim_send_precommit c s s m None R Hst Est) as [m' [H1 [H2 [H3 H4]]]]; [left; auto|].
    destruct (send_precommit c s None) as [s1 a]. inversion Happ. subst. simpl in *.
    exists m'. rewrite H1. auto.
  - (* line 47 *)
    unfold do47 in Happ. inversion Happ. subst. simpl. exists m. split; [reflexivity|].
    destruct R as [Rvc Rh Rr Rl Rla Ri Rp]. split; [constructor; simpl; auto|]. split; [auto|].
    right. simpl. split; [reflexivity|]. right. split; [reflexivity|lia].
  - (* line 49 *)
    destruct Hsel as [Hrcp Hup]. unfold upon49 in Hup. apply andb_prop in Hup. destruct Hup as [Hq Hval].
    unfold do49 in Happ. inversion Happ. subst. clear Happ.
    destruct R as [Rvc Rh Rr Rl Rla Ri Rp].
    assert (Hp : exists r0, vc_proposal (s_vc s) r0 = Some q).
    { destruct rr as [r0|]; eauto. }
    destruct Hp as [r0 Hp].
    destruct (vc_proposal_ok c _ _ _ Rp Hp) as [Hh [Hr Hfrom]]. subst r0.
    assert (Hm : mon_action c m (ACommit q) = (mkMon (vc_start_new_height (m_vc m)) None (m_last m), [])).
    { unfold mon_action. rewrite Rvc.
      replace (p_h q =? vc_h (s_vc s)) with true by (symmetry; apply N.eqb_eq; assumption).
      replace (p_from q =? c_proposer c (p_h q) (p_r q)) with true
        by (symmetry; apply N.eqb_eq; rewrite Hh; assumption).
      rewrite Hval, Hp, proposal_eqb_refl, Hq. reflexivity. }
    exists (mkMon (vc_start_new_height (m_vc m)) None (m_last m)).
    split; [unfold olist, mon_actions; rewrite Hm; reflexivity|]. split.
    + constructor; simpl; auto; try (rewrite Rvc; reflexivity); try (rewrite Rh; reflexivity); try lia;
        try (apply vc_start_new_height_ok; assumption).
      destruct (m_last m) as [[[h r] k]|]; [|exact I]. left. destruct Rla as [H|[H _]]; lia.
    + split; [discriminate|]. left. simpl. lia.
  - (* line 55 *)
    destruct Hsel as [Hrr Hup]. unfold upon55 in Hup. apply andb_prop in Hup. destruct Hup as [Hlt _].
    apply Z.ltb_lt in Hlt.
    destruct (sim_start_round c s m r R Hst) as [m' [H1 [H2 [H3 [H4 [H5 H6]]]]]].
    { destruct R. lia. }
    { destruct R as [_ _ _ _ Rla _ _]. destruct (m_last m) as [[[h r0] k]|]; [|exact I].
      destruct Rla as [H|[Ha [_ [H|[H _]]]]]; [left; assumption|right; split; [assumption|lia]..]. }
    destruct (start_round c s r) as [s1 a]. inversion Happ. subst. simpl in *.
    exists m'. rewrite H1. split; [reflexivity|]. split; [assumption|]. split; [auto|].
    right. split; [congruence|]. left. lia.
  - inversion Happ. subst. exists m. simpl. split; [reflexivity|]. split; [assumption|].
    split; [discriminate|apply spos_le_refl].
Qed.

(* ---- processLoop ---- *)
Lemma loop_sim : forall c fuel s m rr s' acts ex,
  Rel c s m -> s_started s = true ->
  loop c fuel s rr = (s', acts, ex) ->
  exists m', mon_actions c m acts = (m', []) /\ Rel c s' m' /\ spos_le s s'.
Proof.
  intros c fuel. induction fuel as [|n IH]; intros s m rr s' acts ex R Hst Hl; simpl in Hl.
  - inversion Hl. subst. exists m. split; [reflexivity|]. split; [assumption|apply spos_le_refl].
  - destruct (apply_rule c s (select c s rr)) as [[s1 oa] cont] eqn:Ea.
    destruct (apply_rule_sim c s m rr s1 oa cont R Hst Ea) as [m1 [H1 [H2 [H3 H4]]]].
    destruct cont.
    + destruct (loop c n s1 rr) as [[s2 more] ex2] eqn:El. inversion Hl. subst.
      destruct (IH s1 m1 rr s' more ex H2 (H3 eq_refl) El) as [m2 [G1 [G2 G3]]].
      exists m2. rewrite mon_actions_app, H1, G1. split; [reflexivity|]. split; [assumption|].
      eapply spos_le_trans; eauto.
    + inversion Hl. subst. exists m1. auto.
Qed.

(* ---- one call of the state machine ---- *)
Lemma Rel_set_started : forall c s m, Rel c s m -> s_started s = false -> Rel c (set_started s true) m.
Proof.
  intros c s m [Rvc Rh Rr Rl Rla Ri Rp] Hst. constructor; simpl; auto; try (intro; discriminate).
  all: try (destruct (m_last m) as [[[h r] k]|]; [|exact I]; destruct Rla as [H|[_ [H _]]]; [left; assumption|congruence]).
Qed.

Lemma Rel_add_proposal : forall c s m p, Rel c s m ->
  Rel c (set_vc s (fst (vc_add_proposal c (s_vc s) p)))
        (mkMon (fst (vc_add_proposal c (m_vc m) p)) (m_lock m) (m_last m)).
Proof.
  intros c s m p [Rvc Rh Rr Rl Rla Ri Rp]. constructor; simpl; auto; relfin.
  all: try (rewrite Rvc; reflexivity).
Qed.

Lemma Rel_add_vote : forall c s m k v, Rel c s m ->
  Rel c (set_vc s (fst (vc_add_vote c (s_vc s) k v)))
        (mkMon (fst (vc_add_vote c (m_vc m) k v)) (m_lock m) (m_last m)).
Proof.
  intros c s m k v [Rvc Rh Rr Rl Rla Ri Rp]. constructor; simpl; auto; relfin.
  all: try (rewrite Rvc; reflexivity).
Qed.

Lemma process_message_sim : forall c s m w h r s' acts ex,
  Rel c s m -> s_started s = true -> mon_action c m w = (m, []) ->
  process_message c s w h r = (s', acts, ex) ->
  exists m', mon_actions c m acts = (m', []) /\ Rel c s' m' /\ spos_le s s'.
Proof.
  intros c s m w h r s' acts ex R Hst Hw Hpm. unfold process_message in Hpm.
  destruct (negb (h =? s_h s)).
  - inversion Hpm. subst. exists m. simpl. rewrite Hw. split; [reflexivity|]. split; [assumption|apply spos_le_refl].
  - destruct (loop c FUEL s (Some r)) as [[s1 a1] e1] eqn:El. inversion Hpm. subst.
    destruct (loop_sim c FUEL s m (Some r) s' a1 ex R Hst El) as [m' [H1 [H2 H3]]].
    exists m'. simpl. rewrite Hw, H1. auto.
Qed.

Lemma spos_le_same : forall s s', s_h s = s_h s' -> s_r s = s_r s' -> s_step s = s_step s' -> spos_le s s'.
Proof. intros s s' H1 H2 H3. right. split; [assumption|]. right. split; [assumption|]. rewrite H3. lia. Qed.

Lemma step_sim : forall c s m i s' acts ex,
  Rel c s m -> ok_input s i = true ->
  step_x c s i = (s', acts, ex) ->
  exists m', mon_actions c (mon_input c m i) acts = (m', []) /\ Rel c s' m' /\ spos_le s s'.
Proof.
  intros c s m i s' acts ex R Hok Hs. destruct i as [r|p|v|v|k h r]; unfold step_x in Hs; unfold ok_input in Hok.
  - (* Start *)
    destruct (s_started s) eqn:Hst.
    + inversion Hs. subst. exists m. simpl. split; [reflexivity|]. split; [assumption|apply spos_le_refl].
    + apply Z.leb_le in Hok.
      pose proof (Rel_set_started c s m R Hst) as R1.
      destruct (sim_start_round c (set_started s true) m r R1 eq_refl Hok) as [m1 [H1 [H2 [H3 [H4 [H5 H6]]]]]].
      { destruct R as [_ _ _ _ Rla _ _]. destruct (m_last m) as [[[h r0] k]|]; [|exact I].
        destruct Rla as [H|[_ [H _]]]; [left; assumption|congruence]. }
      destruct (start_round c (set_started s true) r) as [s1 a] eqn:Esr. cbn [fst snd] in *.
      destruct (loop c FUEL s1 None) as [[s2 a2] e2] eqn:El. inversion Hs. subst.
      destruct (loop_sim c FUEL s1 m1 None s' a2 ex H2 H3 El) as [m2 [G1 [G2 G3]]].
      exists m2. simpl. rewrite H1, G1. split; [reflexivity|]. split; [assumption|].
      eapply spos_le_trans; [|exact G3].
      destruct R as [_ _ _ _ _ Ri _]. destruct (Ri Hst) as [Hr0 [Hsp _]].
      simpl in H4. right. split; [congruence|]. destruct (Z.eq_dec (s_r s1) 0) as [E0|Hne].
      * right. split; [congruence|]. rewrite Hsp, H6. lia.
      * left. lia.
  - (* Proposal *)
    pose proof (Rel_add_proposal c s m p R) as R1.
    destruct (vc_add_proposal c (s_vc s) p) as [vc ok] eqn:Ev. cbn [fst snd] in R1.
    destruct (negb ok || negb (s_started (set_vc s vc))) eqn:Eg.
    + inversion Hs. subst. eexists. split; [reflexivity|]. split; [exact R1|]. apply spos_le_same; reflexivity.
    + apply orb_false_elim in Eg. destruct Eg as [_ Eg]. apply negb_false_iff in Eg.
      destruct (process_message_sim c _ _ (AWalProposal p) _ _ _ _ _ R1 Eg eq_refl Hs) as [m' [H1 [H2 H3]]].
      exists m'. simpl. auto.
  - (* Prevote *)
    pose proof (Rel_add_vote c s m Prevote v R) as R1.
    destruct (vc_add_vote c (s_vc s) Prevote v) as [vc ok] eqn:Ev. cbn [fst snd] in R1.
    destruct (negb ok || negb (s_started (set_vc s vc))) eqn:Eg.
    + inversion Hs. subst. eexists. split; [reflexivity|]. split; [exact R1|]. apply spos_le_same; reflexivity.
    + apply orb_false_elim in Eg. destruct Eg as [_ Eg]. apply negb_false_iff in Eg.
      destruct (process_message_sim c _ _ (AWalPrevote v) _ _ _ _ _ R1 Eg eq_refl Hs) as [m' [H1 [H2 H3]]].
      exists m'. simpl. auto.
  - (* Precommit *)
    pose proof (Rel_add_vote c s m Precommit v R) as R1.
    destruct (vc_add_vote c (s_vc s) Precommit v) as [vc ok] eqn:Ev. cbn [fst snd] in R1.
    destruct (negb ok || negb (s_started (set_vc s vc))) eqn:Eg.
    + inversion Hs. subst. eexists. split; [reflexivity|]. split; [exact R1|]. apply spos_le_same; reflexivity.
    + apply orb_false_elim in Eg. destruct Eg as [_ Eg]. apply negb_false_iff in Eg.
      match type of Hs with (if ?g then _ else _) = _ => destruct g end.
      * unfold trigger_sync in Hs. inversion Hs. subst. eexists. split; [reflexivity|]. simpl.
        split; [|apply spos_le_same; reflexivity].
        destruct R1 as [Rvc Rh Rr Rl Rla Ri Rp]. constructor; simpl in *; auto.
      * destruct (process_message_sim c _ _ (AWalPrecommit v) _ _ _ _ _ R1 Eg eq_refl Hs) as [m' [H1 [H2 H3]]].
        exists m'. simpl. auto.
  - (* Timeout *)
    assert (Hot : exists m1, mon_actions c m (snd (on_timeout c s k h r)) = (m1, []) /\
                             Rel c (fst (on_timeout c s k h r)) m1 /\
                             s_started (fst (on_timeout c s k h r)) = true /\
                             spos_le s (fst (on_timeout c s k h r))).
    { unfold on_timeout. destruct k.
      - destruct ((s_h s =? h) && (s_r s =? r)%Z && step_eqb (s_step s) SPropose) eqn:E.
        + apply andb_prop in E. destruct E as [_ E]. apply step_eqb_eq in E.
          destruct (sim_send_prevote c s m None R Hok E) as [m1 [H1 [H2 [H3 H4]]]]; [intros; discriminate|].
          destruct (send_prevote c s None) as [s1 a]. cbn [fst snd mon_actions mon_action app] in *. exists m1. rewrite H1. auto.
        + exists m. simpl. split; [reflexivity|]. split; [assumption|]. split; [assumption|apply spos_le_refl].
      - destruct ((s_h s =? h) && (s_r s =? r)%Z && step_eqb (s_step s) SPrevote) eqn:E.
        + apply andb_prop in E. destruct E as [_ E]. apply step_eqb_eq in E.
          destruct (sim_send_precommit c s s m None R Hok E) as [m1 [H1 [H2 [H3 H4]]]]; [left; auto|].
          destruct (send_precommit c s None) as [s1 a]. cbn [fst snd mon_actions mon_action app] in *. exists m1. rewrite H1. auto.
        + exists m. simpl. split; [reflexivity|]. split; [assumption|]. split; [assumption|apply spos_le_refl].
      - destruct ((s_h s =? h) && (s_r s =? r)%Z) eqn:E.
        + apply andb_prop in E. destruct E as [_ E]. apply Z.eqb_eq in E. subst r.
          destruct (sim_start_round c s m (s_r s + 1)%Z R Hok) as [m1 [H1 [H2 [H3 [H4 [H5 H6]]]]]].
          { destruct R. lia. }
          { destruct R as [_ _ _ _ Rla _ _]. destruct (m_last m) as [[[h0 r0] k0]|]; [|exact I].
            destruct Rla as [H|[Ha [_ [H|[H _]]]]]; [left; assumption|right; split; [assumption|lia]..]. }
          destruct (start_round c s (s_r s + 1)%Z) as [s1 a]. cbn [fst snd mon_actions mon_action app] in *. exists m1. rewrite H1.
          split; [reflexivity|]. split; [assumption|]. split; [assumption|].
          right. split; [congruence|]. left. lia.
        + exists m. simpl. split; [reflexivity|]. split; [assumption|]. split; [assumption|apply spos_le_refl]. }
    destruct (on_timeout c s k h r) as [s1 a0]. cbn [fst snd] in Hot. destruct Hot as [m1 [H1 [H2 [H3 H4]]]].
    destruct (loop c FUEL s1 None) as [[s2 a2] e2] eqn:El. inversion Hs. subst.
    destruct (loop_sim c FUEL s1 m1 None s' a2 ex H2 H3 El) as [m2 [G1 [G2 G3]]].
    exists m2. simpl. rewrite mon_actions_app, H1, G1. split; [reflexivity|]. split; [assumption|].
    eapply spos_le_trans; eauto.
Qed.

(* ---- whole histories ---- *)
Lemma step_step_x : forall c s i, step c s i = fst (step_x c s i).
Proof. intros. unfold step. destruct (step_x c s i) as [[s' a] e]. reflexivity. Qed.

Lemma run_sim : forall c ins s m,
  Rel c s m -> disciplined c s ins = true ->
  exists m', mon_events c m (snd (run c s ins)) = (m', []) /\ Rel c (fst (run c s ins)) m'.
Proof.
  intros c ins. induction ins as [|i rest IH]; intros s m R Hd; simpl in *.
  - exists m. auto.
  - apply andb_prop in Hd. destruct Hd as [Hok Hd].
    rewrite step_step_x in *. destruct (step_x c s i) as [[s1 acts] ex] eqn:Es. simpl in *.
    destruct (step_sim c s m i s1 acts ex R Hok Es) as [m1 [H1 [H2 _]]].
    destruct (IH s1 m1 H2 Hd) as [m2 [G1 G2]].
    destruct (run c s1 rest) as [s2 evs]. simpl in *.
    exists m2. rewrite H1, G1. auto.
Qed.

Lemma local_safety_lemma : forall c h ins,
  disciplined c (init_state h) ins = true -> audit c h (snd (run c (init_state h) ins)) = [].
Proof.
  intros c h ins Hd. unfold audit.
  destruct (run_sim c ins _ _ (Rel_init c h) Hd) as [m' [H _]]. rewrite H. reflexivity.
Qed.

(* reachable states (under the calling discipline) and monotonicity of (height, round, step) *)
Inductive reach (c : cfg) (h0 : N) : state -> Prop :=
| reach_init : reach c h0 (init_state h0)
| reach_step : forall s i, reach c h0 s -> ok_input s i = true -> reach c h0 (fst (step c s i)).

Lemma reach_Rel : forall c h0 s, reach c h0 s -> exists m, Rel c s m.
Proof.
  intros c h0 s H. induction H as [|s i Hr [m R] Hok].
  - eexists. apply Rel_init.
  - rewrite step_step_x. destruct (step_x c s i) as [[s1 acts] ex] eqn:Es.
    destruct (step_sim c s m i s1 acts ex R Hok Es) as [m1 [_ [H2 _]]]. exists m1. assumption.
Qed.

Lemma step_monotone_lemma : forall c h0 s i, reach c h0 s -> ok_input s i = true -> spos_le s (fst (step c s i)).
Proof.
  intros c h0 s i Hr Hok. destruct (reach_Rel c h0 s Hr) as [m R].
  rewrite step_step_x. destruct (step_x c s i) as [[s1 acts] ex] eqn:Es.
  destruct (step_sim c s m i s1 acts ex R Hok Es) as [m1 [_ [_ H3]]]. assumption.
Qed.

(* ================= the loop terminates within the fuel ================= *)
Definition b2n (b : bool) : nat := if b then 1%nat else 0%nat.
Definition phase_nat (p : phase) : nat := match p with SPropose => 0 | SPrevote => 1 | SPrecommit => 2 end%nat.
Definition rmeasure (s : state) : nat :=
  ((2 - phase_nat (s_step s)) + b2n (negb (s_tpv s)) + b2n (negb (s_lvs s)) + b2n (negb (s_tpc s)))%nat.
Definition lmeasure (s : state) (rr : option Z) : nat :=
  ((match rr with Some r => if (s_r s <? r)%Z then 6 else 0 | None => 0 end) + rmeasure s)%nat.

Lemma rmeasure_le : forall s, (rmeasure s <= 5)%nat.
Proof. intro s. unfold rmeasure. destruct (s_step s), (s_tpv s), (s_lvs s), (s_tpc s); simpl; lia. Qed.

Lemma start_round_shape : forall c s r,
  s_r (fst (start_round c s r)) = r /\ s_step (fst (start_round c s r)) = SPropose /\
  s_tpv (fst (start_round c s r)) = false /\ s_lvs (fst (start_round c s r)) = false /\
  s_tpc (fst (start_round c s r)) = false.
Proof.
  intros c s r. unfold start_round.
  destruct (c_proposer c (vc_h (s_vc (reset_state s r))) r =? c_self c); [|simpl; auto].
  destruct (s_vv (reset_state s r)); simpl; auto.
Qed.

Lemma apply_rule_measure : forall c s rr s' oa,
  apply_rule c s (select c s rr) = (s', oa, true) -> (lmeasure s' rr < lmeasure s rr)%nat.
Proof.
  intros c s rr s' oa Happ. pose proof (select_spec c s rr) as Hsel.
  destruct (select c s rr) as [p|p| |p| | |q|r| ]; unfold apply_rule in Happ.
  - destruct Hsel as [_ Hup]. unfold upon22 in Hup. apply andb_prop in Hup. destruct Hup as [_ Hstep].
    apply step_eqb_eq in Hstep. unfold do22, send_prevote in Happ. inversion Happ. subst. clear Happ.
    unfold lmeasure, rmeasure. simpl. rewrite Hstep. simpl. lia.
  - destruct Hsel as [_ Hup]. unfold upon28 in Hup. apply andb4 in Hup. destruct Hup as [_ [Hstep _]].
    apply step_eqb_eq in Hstep. unfold do28, send_prevote in Happ. inversion Happ. subst. clear Happ.
    unfold lmeasure, rmeasure. simpl. rewrite Hstep. simpl. lia.
  - unfold upon34 in Hsel. apply andb3 in Hsel. destruct Hsel as [_ [_ Ht]]. apply negb_true_iff in Ht.
    unfold do34 in Happ. inversion Happ. subst. clear Happ.
    unfold lmeasure, rmeasure. simpl. rewrite Ht. simpl. lia.
  - destruct Hsel as [_ Hup]. unfold upon36 in Hup. apply andb4 in Hup. destruct Hup as [_ [_ [_ Ht]]].
    apply negb_true_iff in Ht. unfold do36 in Happ.
    destruct (step_eqb (s_step s) SPrevote) eqn:Est.
    + apply step_eqb_eq in Est. unfold send_precommit in Happ. inversion Happ. subst. clear Happ.
      unfold lmeasure, rmeasure. simpl. rewrite Ht, Est. simpl. lia.
    + inversion Happ. subst. clear Happ. unfold lmeasure, rmeasure. simpl. rewrite Ht. simpl. lia.
  - unfold upon44 in Hsel. apply andb_prop in Hsel. destruct Hsel as [_ Est]. apply step_eqb_eq in Est.
    unfold send_precommit in Happ. inversion Happ. subst. clear Happ.
    unfold lmeasure, rmeasure. simpl. rewrite Est. simpl. lia.
  - unfold upon47 in Hsel. apply andb_prop in Hsel. destruct Hsel as [Ht _]. apply negb_true_iff in Ht.
    unfold do47 in Happ. inversion Happ. subst. clear Happ.
    unfold lmeasure, rmeasure. simpl. rewrite Ht. simpl. lia.
  - unfold do49 in Happ. inversion Happ.
  - destruct Hsel as [Hrr Hup]. subst rr. unfold upon55 in Hup. apply andb_prop in Hup. destruct Hup as [Hlt _].
    destruct (start_round_shape c s r) as [H1 [H2 [H3 [H4 H5]]]].
    destruct (start_round c s r) as [s1 a]. cbn [fst] in H1. inversion Happ as [[E1 E2]]. rewrite <- E1.
    unfold lmeasure. rewrite Hlt, H1, Z.ltb_irrefl.
    pose proof (rmeasure_le s1). lia.
  - inversion Happ.
Qed.

Lemma loop_fuel : forall c fuel s rr, (lmeasure s rr < fuel)%nat -> snd (loop c fuel s rr) = false.
Proof.
  intros c fuel. induction fuel as [|n IH]; intros s rr Hm; [lia|]. simpl.
  destruct (apply_rule c s (select c s rr)) as [[s1 oa] cont] eqn:Ea. destruct cont; [|reflexivity].
  apply apply_rule_measure in Ea. specialize (IH s1 rr ltac:(lia)).
  destruct (loop c n s1 rr) as [[s2 more] ex]. simpl in *. assumption.
Qed.

Lemma loop_fuel_enough : forall c s rr, snd (loop c FUEL s rr) = false.
Proof.
  intros c s rr. apply loop_fuel. unfold lmeasure, FUEL. pose proof (rmeasure_le s).
  destruct rr as [r|]; [destruct (s_r s <? r)%Z|]; lia.
Qed.

Lemma step_fuel_enough : forall c s i, snd (step_x c s i) = false.
Proof.
  intros c s i. assert (Hpm : forall s w h r, snd (process_message c s w h r) = false).
  { intros s0 w h r. unfold process_message. destruct (negb (h =? s_h s0)); [reflexivity|].
    pose proof (loop_fuel_enough c s0 (Some r)). destruct (loop c FUEL s0 (Some r)) as [[a b] e]. assumption. }
  destruct i as [r|p|v|v|k h r]; unfold step_x.
  - destruct (s_started s); [reflexivity|]. destruct (start_round c (set_started s true) r) as [s1 a].
    pose proof (loop_fuel_enough c s1 None). destruct (loop c FUEL s1 None) as [[a1 b] e]. assumption.
  - destruct (vc_add_proposal c (s_vc s) p) as [vc ok]. destruct (negb ok || _); [reflexivity|apply Hpm].
  - destruct (vc_add_vote c (s_vc s) Prevote v) as [vc ok]. destruct (negb ok || _); [reflexivity|apply Hpm].
  - destruct (vc_add_vote c (s_vc s) Precommit v) as [vc ok]. destruct (negb ok || _); [reflexivity|].
    match goal with |- snd (if ?g then _ else _) = _ => destruct g end; [|apply Hpm].
    destruct (trigger_sync _ _). reflexivity.
  - destruct (on_timeout c s k h r) as [s1 a0].
    pose proof (loop_fuel_enough c s1 None). destruct (loop c FUEL s1 None) as [[a1 b] e]. assumption.
Qed.

(* ================= votes are emitted in strictly increasing (height, round, kind) order ================= *)
Definition vpos := (N * Z * vkind)%type.
Definition apos (a : action) : list vpos :=
  match a with
  | ABroadcastPrevote v => [(v_h v, v_r v, Prevote)]
  | ABroadcastPrecommit v => [(v_h v, v_r v, Precommit)]
  | _ => []
  end.
Fixpoint chain (o : option vpos) (l : list vpos) : Prop :=
  match l with
  | [] => True
  | p :: r => match o with None => True | Some x => pos_lt x p = true end /\ chain (Some p) r
  end.
Fixpoint lastp (o : option vpos) (l : list vpos) : option vpos :=
  match l with [] => o | p :: r => lastp (Some p) r end.

Lemma chain_app : forall l1 l2 o, chain o (l1 ++ l2) <-> chain o l1 /\ chain (lastp o l1) l2.
Proof.
  induction l1 as [|p l1 IH]; intros l2 o; simpl.
  - tauto.
  - rewrite IH. tauto.
Qed.
Lemma lastp_app : forall l1 l2 o, lastp o (l1 ++ l2) = lastp (lastp o l1) l2.
Proof. induction l1 as [|p l1 IH]; intros; simpl; [reflexivity|apply IH]. Qed.

Lemma chk_nil : forall b n, chk b n = [] -> b = true.
Proof. intros [] n H; [reflexivity|discriminate]. Qed.

Lemma mon_action_chain : forall c m a m',
  mon_action c m a = (m', []) -> chain (m_last m) (apos a) /\ m_last m' = lastp (m_last m) (apos a).
Proof.
  intros c m a m' H. destruct a; simpl in *; try (inversion H; subst; simpl; auto; fail).
  - inversion H as [[H1 H2]]. apply app_eq_nil in H2. destruct H2 as [_ H2]. apply app_eq_nil in H2.
    destruct H2 as [H2 _]. apply chk_nil in H2. unfold after_last in H2. simpl.
    split; [|reflexivity]. split; [|exact I]. destruct (m_last m); [assumption|exact I].
  - inversion H as [[H1 H2]]. apply app_eq_nil in H2. destruct H2 as [_ H2]. apply app_eq_nil in H2.
    destruct H2 as [H2 _]. apply chk_nil in H2. unfold after_last in H2. simpl.
    split; [|reflexivity]. split; [|exact I]. destruct (m_last m); [assumption|exact I].
Qed.

Lemma mon_actions_chain : forall c acts m m',
  mon_actions c m acts = (m', []) ->
  chain (m_last m) (flat_map apos acts) /\ m_last m' = lastp (m_last m) (flat_map apos acts).
Proof.
  intros c acts. induction acts as [|a rest IH]; intros m m' H; simpl in *.
  - inversion H. subst. auto.
  - destruct (mon_action c m a) as [m1 e1] eqn:E1. destruct (mon_actions c m1 rest) as [m2 e2] eqn:E2.
    inversion H as [[H1 H2]]. apply app_eq_nil in H2. destruct H2 as [-> ->]. subst m2.
    destruct (mon_action_chain c m a m1 E1) as [A1 A2]. destruct (IH m1 m' E2) as [B1 B2].
    rewrite chain_app, lastp_app, <- A2. auto.
Qed.

Lemma mon_input_last : forall c m i, m_last (mon_input c m i) = m_last m.
Proof. intros c m []; reflexivity. Qed.

Lemma mon_events_chain : forall c evs m m',
  mon_events c m evs = (m', []) ->
  chain (m_last m) (flat_map apos (all_actions evs)) /\ m_last m' = lastp (m_last m) (flat_map apos (all_actions evs)).
Proof.
  intros c evs. induction evs as [|[i acts] rest IH]; intros m m' H; simpl in *.
  - inversion H. subst. auto.
  - destruct (mon_actions c (mon_input c m i) acts) as [m1 e1] eqn:E1.
    destruct (mon_events c m1 rest) as [m2 e2] eqn:E2.
    inversion H as [[H1 H2]]. apply app_eq_nil in H2. destruct H2 as [-> ->]. subst m2.
    destruct (mon_actions_chain c acts _ m1 E1) as [A1 A2]. rewrite mon_input_last in *.
    destruct (IH m1 m' E2) as [B1 B2].
    unfold all_actions in *. simpl. rewrite flat_map_app, chain_app, lastp_app, <- A2. auto.
Qed.

Lemma pos_lt_trans : forall a b c, pos_lt a b = true -> pos_lt b c = true -> pos_lt a c = true.
Proof.
  intros [[h1 r1] k1] [[h2 r2] k2] [[h3 r3] k3]. unfold pos_lt.
  destruct k1, k2, k3; simpl; lia.
Qed.

Lemma chain_forall : forall l p, chain (Some p) l -> Forall (fun x => pos_lt p x = true) l.
Proof.
  induction l as [|q l IH]; intros p H; simpl in *; constructor.
  - tauto.
  - destruct H as [H1 H2]. specialize (IH q H2). eapply Forall_impl; [|exact IH].
    intros x Hx. eapply pos_lt_trans; eauto.
Qed.

Lemma chain_weaken : forall l o, chain o l -> chain None l.
Proof. destruct l; simpl; tauto. Qed.

Lemma votes_of_pos : forall k acts v, In v (votes_of k acts) -> In (v_h v, v_r v, k) (flat_map apos acts).
Proof.
  intros k acts. induction acts as [|a rest IH]; intros v H; simpl in *; [contradiction|].
  apply in_or_app. apply in_app_or in H. destruct H as [H|H]; [left|right; auto].
  destruct a, k; simpl in *; try contradiction; destruct H as [<-|[]]; left; reflexivity.
Qed.

Lemma chain_one_per_slot : forall k acts o, chain o (flat_map apos acts) -> one_per_slot (votes_of k acts) = true.
Proof.
  intros k acts. induction acts as [|a rest IH]; intros o H; simpl in *; [reflexivity|].
  apply chain_app in H. destruct H as [H1 H2].
  assert (Hrest : one_per_slot (votes_of k rest) = true) by (eapply IH; eauto).
  assert (Hgen : forall v, apos a = [(v_h v, v_r v, k)] ->
            negb (existsb (same_slot v) (votes_of k rest)) = true).
  { intros v Hv. rewrite Hv in H2. simpl in H2. apply chain_forall in H2.
    apply negb_true_iff. apply not_true_is_false. intro He. apply existsb_exists in He.
    destruct He as [v' [Hin Hs]]. apply votes_of_pos in Hin.
    rewrite Forall_forall in H2. specialize (H2 _ Hin). unfold same_slot in Hs. unfold pos_lt in H2.
    destruct k; simpl in H2; lia. }
  destruct a, k; simpl; try assumption; rewrite Hrest, Hgen; reflexivity.
Qed.

Lemma no_double_vote_lemma : forall c h ins,
  disciplined c (init_state h) ins = true ->
  no_double_vote (all_actions (snd (run c (init_state h) ins))) = true.
Proof.
  intros c h ins Hd. destruct (run_sim c ins _ _ (Rel_init c h) Hd) as [m' [H _]].
  apply mon_events_chain in H. destruct H as [H _]. unfold no_double_vote.
  rewrite !(chain_one_per_slot _ _ _ H). reflexivity.
Qed.

(* ================= the rules, one at a time (any state) ================= *)
Lemma start_round_no_vote : forall c s r v,
  snd (start_round c s r) <> ABroadcastPrevote v /\ snd (start_round c s r) <> ABroadcastPrecommit v /\
  forall p, snd (start_round c s r) <> ACommit p.
Proof.
  intros c s r v. unfold start_round.
  destruct (c_proposer c (vc_h (s_vc (reset_state s r))) r =? c_self c).
  - destruct (s_vv (reset_state s r)); simpl; repeat split; try discriminate; intros; discriminate.
  - simpl. repeat split; try discriminate; intros; discriminate.
Qed.

(* a value id that the current round's stored proposal carries and the application judged valid *)
Definition c_valid_id (c : cfg) (s : state) (id : hash) : Prop :=
  exists p, vc_proposal (s_vc s) (s_r s) = Some p /\ pid c p = id /\ c_valid c (p_val p) = true.

Lemma prevote_respects_lock_lemma : forall c s rr s' v cont id,
  apply_rule c s (select c s rr) = (s', Some (ABroadcastPrevote v), cont) -> v_id v = Some id ->
  c_valid_id c s id /\
  (s_lr s = (-1)%Z \/ lock_matches c s id = true \/
   exists vr, (s_lr s <= vr)%Z /\ (0 <= vr)%Z /\ (vr < s_r s)%Z /\
              vc_has_quorum_vote c (s_vc s) vr Prevote (Some id) = true).
Proof.
  intros c s rr s' v cont id Happ Hid. pose proof (select_spec c s rr) as Hsel.
  destruct (select c s rr) as [p|p| |p| | |q|r| ]; unfold apply_rule in Happ.
  - destruct Hsel as [Hcp _]. unfold do22, send_prevote in Happ. inversion Happ. subst. simpl in Hid.
    destruct (c_valid c (p_val p) && ((s_lr s =? -1)%Z || lock_matches c s (pid c p))) eqn:E; [|discriminate].
    inversion Hid. subst. apply andb_prop in E. destruct E as [Hv E]. split.
    { exists p. auto. }
    apply orb_prop in E. destruct E as [E|E]; [left; apply Z.eqb_eq; assumption|right; left; assumption].
  - destruct Hsel as [Hcp Hup]. unfold upon28 in Hup. apply andb4 in Hup. destruct Hup as [Hq [_ [H0 H1]]].
    unfold do28, send_prevote in Happ. inversion Happ. subst. simpl in Hid.
    destruct (c_valid c (p_val p) && ((s_lr s <=? p_vr p)%Z || lock_matches c s (pid c p))) eqn:E; [|discriminate].
    inversion Hid. subst. apply andb_prop in E. destruct E as [Hv E]. split.
    { exists p. auto. }
    apply orb_prop in E. destruct E as [E|E]; [|right; left; assumption].
    right. right. exists (p_vr p). apply Z.leb_le in E, H0. apply Z.ltb_lt in H1. auto.
  - unfold do34 in Happ. inversion Happ.
  - unfold do36 in Happ. destruct (step_eqb (s_step s) SPrevote); [|inversion Happ].
    unfold send_precommit in Happ. inversion Happ.
  - unfold send_precommit in Happ. inversion Happ.
  - unfold do47 in Happ. inversion Happ.
  - unfold do49 in Happ. inversion Happ.
  - destruct (start_round_no_vote c s r v) as [H _]. destruct (start_round c s r) as [s1 a].
    inversion Happ. subst. contradiction.
  - inversion Happ.
Qed.

Lemma timeout_votes_nil : forall c s k h r v,
  (In (ABroadcastPrevote v) (snd (on_timeout c s k h r)) \/ In (ABroadcastPrecommit v) (snd (on_timeout c s k h r))) ->
  v_id v = None.
Proof.
  intros c s k h r v H. unfold on_timeout in H. destruct k.
  - destruct (_ && _ && _); simpl in H; [|tauto]. unfold send_prevote in H. simpl in H.
    destruct H as [[H|[H|[]]]|[H|[H|[]]]]; inversion H; reflexivity.
  - destruct (_ && _ && _); simpl in H; [|tauto]. unfold send_precommit in H. simpl in H.
    destruct H as [[H|[H|[]]]|[H|[H|[]]]]; inversion H; reflexivity.
  - destruct (_ && _); simpl in H; [|tauto].
    destruct (start_round_no_vote c s (r + 1)%Z v) as [H1 [H2 _]].
    destruct (start_round c s (r + 1)%Z) as [s1 a]. simpl in *.
    destruct H as [[H|[H|[]]]|[H|[H|[]]]]; try discriminate; subst; contradiction.
Qed.

Lemma precommit_needs_polka_lemma : forall c s rr s' v cont id,
  apply_rule c s (select c s rr) = (s', Some (ABroadcastPrecommit v), cont) -> v_id v = Some id ->
  vc_has_quorum_vote c (s_vc s) (s_r s) Prevote (Some id) = true /\
  s_step s = SPrevote /\
  (* lock_set_with_precommit *)
  s_lr s' = s_r s /\ exists val, s_lv s' = Some val /\ c_vid c val = id /\ c_valid c val = true.
Proof.
  intros c s rr s' v cont id Happ Hid. pose proof (select_spec c s rr) as Hsel.
  destruct (select c s rr) as [p|p| |p| | |q|r| ]; unfold apply_rule in Happ.
  - unfold do22, send_prevote in Happ. inversion Happ.
  - unfold do28, send_prevote in Happ. inversion Happ.
  - unfold do34 in Happ. inversion Happ.
  - destruct Hsel as [_ Hup]. unfold upon36 in Hup. apply andb4 in Hup. destruct Hup as [Hq [Hv _]].
    unfold do36 in Happ. destruct (step_eqb (s_step s) SPrevote) eqn:Est; [|inversion Happ].
    apply step_eqb_eq in Est.
    unfold send_precommit in Happ. inversion Happ. subst. simpl in *. inversion Hid. subst.
    split; [assumption|]. split; [assumption|]. split; [reflexivity|]. exists (p_val p). auto.
  - unfold send_precommit in Happ. inversion Happ. subst. discriminate.
  - unfold do47 in Happ. inversion Happ.
  - unfold do49 in Happ. inversion Happ.
  - destruct (start_round_no_vote c s r v) as [_ [H _]]. destruct (start_round c s r) as [s1 a].
    inversion Happ. subst. contradiction.
  - inversion Happ.
Qed.

Lemma commit_needs_quorum_lemma : forall c s rr s' p cont,
  vc_props_ok c (s_vc s) ->
  apply_rule c s (select c s rr) = (s', Some (ACommit p), cont) ->
  c_valid c (p_val p) = true /\
  vc_has_quorum_vote c (s_vc s) (p_r p) Precommit (Some (pid c p)) = true /\
  vc_proposal (s_vc s) (p_r p) = Some p /\
  p_h p = vc_h (s_vc s) /\ p_from p = c_proposer c (vc_h (s_vc s)) (p_r p) /\
  s_h s' = s_h s + 1.
Proof.
  intros c s rr s' p cont Hok Happ. pose proof (select_spec c s rr) as Hsel.
  destruct (select c s rr) as [p0|p0| |p0| | |q|r| ]; unfold apply_rule in Happ.
  - unfold do22, send_prevote in Happ. inversion Happ.
  - unfold do28, send_prevote in Happ. inversion Happ.
  - unfold do34 in Happ. inversion Happ.
  - unfold do36 in Happ. destruct (step_eqb (s_step s) SPrevote); [|inversion Happ].
    unfold send_precommit in Happ. inversion Happ.
  - unfold send_precommit in Happ. inversion Happ.
  - unfold do47 in Happ. inversion Happ.
  - destruct Hsel as [Hrcp Hup]. unfold upon49 in Hup. apply andb_prop in Hup. destruct Hup as [Hq Hv].
    unfold do49 in Happ. inversion Happ. subst. simpl.
    assert (Hp : exists r0, vc_proposal (s_vc s) r0 = Some p) by (destruct rr as [r0|]; eauto).
    destruct Hp as [r0 Hp]. destruct (vc_proposal_ok c _ _ _ Hok Hp) as [Hh [Hr Hf]]. subst r0. auto 10.
  - destruct (start_round_no_vote c s r (mkV 0 0 0 None)) as [_ [_ H]]. destruct (start_round c s r) as [s1 a].
    inversion Happ. subst. exfalso. eapply H. reflexivity.
  - inversion Happ.
Qed.
