(* C12 — the agreement argument on sets of messages (Appendix B, I6), independent of the state machine.
   Votes of one height are given as boolean relations; voting power of a set of senders is a sum over
   the validator list. *)
From Coq Require Import List NArith ZArith Bool Lia ZifyN ZifyBool.
From V Require Import C12.Model.
Import ListNotations.
Open Scope N_scope.

(* voting power of the validators satisfying P *)
Fixpoint pw_sum (power : addr -> N) (P : addr -> bool) (l : list addr) : N :=
  match l with
  | [] => 0
  | a :: r => (if P a then power a else 0) + pw_sum power P r
  end.

Lemma pw_sum_mono : forall power (P Q : addr -> bool) l,
  (forall a, In a l -> P a = true -> Q a = true) -> pw_sum power P l <= pw_sum power Q l.
Proof.
  intros power P Q l. induction l as [|a r IH]; intro H; simpl; [lia|].
  assert (IH' : pw_sum power P r <= pw_sum power Q r) by (apply IH; intros; apply H; simpl; auto).
  destruct (P a) eqn:EP.
  - rewrite (H a (or_introl eq_refl) EP). lia.
  - destruct (Q a); lia.
Qed.

Lemma pw_sum_inter : forall power (P Q : addr -> bool) l,
  pw_sum power P l + pw_sum power Q l <= pw_sum power (fun _ => true) l + pw_sum power (fun a => P a && Q a) l.
Proof.
  intros power P Q l. induction l as [|a r IH]; simpl; [lia|].
  destruct (P a), (Q a); simpl; lia.
Qed.

Lemma pw_sum_pos : forall power (P : addr -> bool) l, 0 < pw_sum power P l -> exists a, In a l /\ P a = true.
Proof.
  intros power P l. induction l as [|a r IH]; simpl; intro H; [lia|].
  destruct (P a) eqn:E.
  - exists a. auto.
  - destruct IH as [b [H1 H2]]; [lia|]. exists b. auto.
Qed.

Lemma pw_sum_split : forall power (P B : addr -> bool) l,
  pw_sum power P l <= pw_sum power (fun a => P a && negb (B a)) l + pw_sum power B l.
Proof.
  intros power P B l. induction l as [|a r IH]; simpl; [lia|].
  destruct (P a), (B a); simpl; lia.
Qed.

Section Abstract.
  Variable vals : list addr.
  Variable power : addr -> N.
  Variable byz : addr -> bool.
  Variables q f total : N.
  Hypothesis Htotal : total = pw_sum power (fun _ => true) vals.
  Hypothesis Hbyz : pw_sum power byz vals <= f.
  Hypothesis Hinter : f + total < 2 * q.

  Definition pw (P : addr -> bool) : N := pw_sum power P vals.

  (* two quorums share a correct validator *)
  Lemma two_quorums_correct : forall P Q : addr -> bool,
    q <= pw P -> q <= pw Q -> exists a, In a vals /\ byz a = false /\ P a = true /\ Q a = true.
  Proof.
    intros P Q HP HQ. unfold pw in *.
    pose proof (pw_sum_inter power P Q vals) as H1.
    pose proof (pw_sum_split power (fun a => P a && Q a) byz vals) as H2.
    destruct (pw_sum_pos power (fun a => P a && Q a && negb (byz a)) vals) as [a [Ha Hb]]; [lia|].
    exists a. apply andb_prop in Hb. destruct Hb as [Hb Hc]. apply andb_prop in Hb. destruct Hb as [Hb1 Hb2].
    apply negb_true_iff in Hc. auto.
  Qed.

  (* votes of one height *)
  Variable pv pc : Z -> addr -> option hash -> bool.
  Definition polka (r : Z) (id : hash) : Prop := q <= pw (fun a => pv r a (Some id)).
  Definition pcq (r : Z) (id : hash) : Prop := q <= pw (fun a => pc r a (Some id)).

  Hypothesis U_pv : forall r a i1 i2, In a vals -> byz a = false ->
    pv r a i1 = true -> pv r a i2 = true -> i1 = i2.
  Hypothesis U_pc : forall r a i1 i2, In a vals -> byz a = false ->
    pc r a i1 = true -> pc r a i2 = true -> i1 = i2.
  Hypothesis PC : forall r a id, In a vals -> byz a = false ->
    pc r a (Some id) = true -> polka r id.
  Hypothesis LK : forall r r' a id id', In a vals -> byz a = false ->
    pv r a (Some id) = true -> pc r' a (Some id') = true -> (r' < r)%Z ->
    id' = id \/ exists vr, (r' <= vr)%Z /\ (vr < r)%Z /\ polka vr id.

  (* once a quorum precommitted v in round r0, no other value gets a polka in any later round *)
  Lemma no_other_polka : forall r0 v, pcq r0 v ->
    forall n r id, (r0 <= r)%Z -> (Z.to_nat (r - r0) < n)%nat -> polka r id -> id = v.
  Proof.
    intros r0 v Hq n. induction n as [|n IH]; intros r id Hge Hn Hp; [lia|].
    destruct (two_quorums_correct _ _ Hp Hq) as [a [Ha [Hc [Hpv Hpc]]]].
    destruct (Z.eq_dec r r0) as [->|Hne].
    - pose proof (PC _ _ _ Ha Hc Hpc) as Hp0.
      destruct (two_quorums_correct _ _ Hp Hp0) as [b [Hb [Hcb [H1 H2]]]].
      pose proof (U_pv _ _ _ _ Hb Hcb H1 H2) as E. inversion E. reflexivity.
    - destruct (LK _ _ _ _ _ Ha Hc Hpv Hpc ltac:(lia)) as [E|[vr [H1 [H2 H3]]]]; [auto|].
      apply (IH vr id); [lia|lia|assumption].
  Qed.

  Lemma agreement_ordered : forall r1 id1 r2 id2, (r1 <= r2)%Z -> pcq r1 id1 -> pcq r2 id2 -> id1 = id2.
  Proof.
    intros r1 id1 r2 id2 Hle H1 H2.
    destruct (Z.eq_dec r1 r2) as [->|Hne].
    - destruct (two_quorums_correct _ _ H1 H2) as [a [Ha [Hc [Ha1 Ha2]]]].
      pose proof (U_pc _ _ _ _ Ha Hc Ha1 Ha2) as E. inversion E. reflexivity.
    - destruct (two_quorums_correct _ _ H2 H2) as [b [Hb [Hcb [Hb2 _]]]].
      pose proof (PC _ _ _ Hb Hcb Hb2) as Hp.
      symmetry. eapply (no_other_polka r1 id1 H1 (S (Z.to_nat (r2 - r1))) r2 id2); [lia|lia|assumption].
  Qed.

  Theorem agreement_abstract : forall r1 id1 r2 id2, pcq r1 id1 -> pcq r2 id2 -> id1 = id2.
  Proof.
    intros r1 id1 r2 id2 H1 H2. destruct (Z.le_ge_cases r1 r2).
    - eapply agreement_ordered; eauto.
    - symmetry. eapply agreement_ordered; eauto; lia.
  Qed.
End Abstract.
