(* C12 — ProcessWAL and ProcessSync are compositions of the five modelled calls (proved, not assumed), and the
   local safety theorems for call sequences that contain them. *)
From Coq Require Import List NArith ZArith Bool Lia ZifyN ZifyBool.
From V Require Import C12.Model C12.Proofs.
Import ListNotations.
Open Scope N_scope.

(* ---------- run over concatenated inputs ---------- *)
Lemma run_app : forall c a b s,
  run c s (a ++ b) = (fst (run c (fst (run c s a)) b), snd (run c s a) ++ snd (run c (fst (run c s a)) b)).
Proof.
  intros c a. induction a as [|i rest IH]; intros b s; simpl.
  - destruct (run c s b). reflexivity.
  - destruct (step c s i) as [s1 acts]. rewrite IH.
    destruct (run c s1 rest) as [s2 evs]. simpl. destruct (run c s2 b). reflexivity.
Qed.

Lemma all_actions_app : forall a b, all_actions (a ++ b) = all_actions a ++ all_actions b.
Proof. intros. unfold all_actions. apply flat_map_app. Qed.

Lemma disciplined_app : forall c a b s,
  disciplined c s (a ++ b) = disciplined c s a && disciplined c (fst (run c s a)) b.
Proof.
  intros c a. induction a as [|i rest IH]; intros b s; simpl; [reflexivity|].
  rewrite IH. destruct (step c s i) as [s1 acts]. simpl. destruct (run c s1 rest). simpl.
  rewrite andb_assoc. reflexivity.
Qed.

(* ---------- ProcessWAL = the Process* call of the entry's kind ---------- *)
Lemma process_wal_x_step : forall c s e, process_wal_x c s e = step_x c s (wentry_input e).
Proof. intros c s [h|p|v|v|k h r]; reflexivity. Qed.
Lemma process_wal_step : forall c s e, process_wal c s e = step c s (wentry_input e).
Proof. intros. unfold process_wal. rewrite process_wal_x_step, step_step_x. reflexivity. Qed.

(* ---------- ProcessSync = ProcessProposal, then ProcessPrecommit for each precommit, actions appended ---------- *)
Lemma sync_precommits_spec : forall c pcs s acts ex,
  sync_precommits c s acts ex pcs =
  (fst (run c s (map IPrecommit pcs)), acts ++ all_actions (snd (run c s (map IPrecommit pcs))), ex).
Proof.
  intros c pcs. induction pcs as [|v rest IH]; intros s acts ex.
  - simpl. rewrite app_nil_r. reflexivity.
  - cbn [map run sync_precommits]. rewrite step_step_x. pose proof (step_fuel_enough c s (IPrecommit v)) as F.
    destruct (step_x c s (IPrecommit v)) as [[s1 a1] x1]. cbn [fst snd] in *. subst x1.
    rewrite IH. destruct (run c s1 (map IPrecommit rest)) as [s2 evs]. cbn [fst snd].
    unfold all_actions. cbn [flat_map snd]. rewrite app_assoc, orb_false_r. reflexivity.
Qed.

Lemma process_sync_x_spec : forall c s p pcs,
  process_sync_x c s p pcs =
  (fst (run c s (IProposal p :: map IPrecommit pcs)), all_actions (snd (run c s (IProposal p :: map IPrecommit pcs))), false).
Proof.
  intros. unfold process_sync_x. cbn [run]. rewrite step_step_x.
  pose proof (step_fuel_enough c s (IProposal p)) as F.
  destruct (step_x c s (IProposal p)) as [[s1 a1] x1]. cbn [fst snd] in *. subst x1.
  rewrite sync_precommits_spec. destruct (run c s1 (map IPrecommit pcs)) as [s2 evs]. reflexivity.
Qed.

Lemma process_sync_spec : forall c s p pcs,
  process_sync c s p pcs =
  (fst (run c s (IProposal p :: map IPrecommit pcs)), all_actions (snd (run c s (IProposal p :: map IPrecommit pcs)))).
Proof. intros. unfold process_sync. rewrite process_sync_x_spec. reflexivity. Qed.

Lemma call_step_x_spec : forall c s x,
  call_step_x c s x = (fst (run c s (call_inputs x)), all_actions (snd (run c s (call_inputs x))), false).
Proof.
  intros c s [i|e|p pcs]; cbn [call_step_x call_inputs].
  - simpl. rewrite step_step_x. pose proof (step_fuel_enough c s i) as F.
    destruct (step_x c s i) as [[s1 a1] x1]. simpl in *. subst. unfold all_actions. simpl. rewrite app_nil_r. reflexivity.
  - rewrite process_wal_x_step. simpl. rewrite step_step_x. pose proof (step_fuel_enough c s (wentry_input e)) as F.
    destruct (step_x c s (wentry_input e)) as [[s1 a1] x1]. simpl in *. subst. unfold all_actions. simpl. rewrite app_nil_r. reflexivity.
  - apply process_sync_x_spec.
Qed.

Lemma call_step_spec : forall c s x,
  call_step c s x = (fst (run c s (call_inputs x)), all_actions (call_events c s x)).
Proof. intros. unfold call_step, call_events. rewrite call_step_x_spec. reflexivity. Qed.

(* the rule loop never runs out of fuel inside ProcessWAL / ProcessSync either *)
Lemma call_fuel_enough : forall c s x, snd (call_step_x c s x) = false.
Proof. intros. rewrite call_step_x_spec. reflexivity. Qed.

(* ---------- sequences of calls = sequences of the inner calls ---------- *)
Lemma run_calls_spec : forall c xs s,
  fst (run_calls c s xs) = fst (run c s (flat_map call_inputs xs)) /\
  calls_actions (snd (run_calls c s xs)) = all_actions (snd (run c s (flat_map call_inputs xs))) /\
  calls_events c s xs = snd (run c s (flat_map call_inputs xs)).
Proof.
  intros c xs. induction xs as [|x rest IH]; intros s; cbn [run_calls calls_events flat_map].
  - simpl. auto.
  - rewrite run_app. rewrite call_step_spec. cbn [fst snd].
    destruct (IH (fst (run c s (call_inputs x)))) as [A [B C]].
    destruct (run_calls c (fst (run c s (call_inputs x))) rest) as [s2 l]. cbn [fst snd] in *.
    unfold calls_actions in *. cbn [flat_map snd]. rewrite all_actions_app, B, C. unfold call_events. auto.
Qed.

Lemma sync_inputs_disciplined : forall c pcs s, disciplined c s (map IPrecommit pcs) = true.
Proof. intros c pcs. induction pcs as [|v rest IH]; intros s; simpl; auto. Qed.

Lemma ok_call_disciplined : forall c s x, ok_call s x = true -> disciplined c s (call_inputs x) = true.
Proof.
  intros c s [i|e|p pcs] H; simpl in *.
  - rewrite H. reflexivity.
  - rewrite H. reflexivity.
  - apply sync_inputs_disciplined.
Qed.

Lemma disciplined_calls_flat : forall c xs s,
  disciplined_calls c s xs = true -> disciplined c s (flat_map call_inputs xs) = true.
Proof.
  intros c xs. induction xs as [|x rest IH]; intros s H; simpl in *; [reflexivity|].
  apply andb_prop in H. destruct H as [H1 H2]. rewrite disciplined_app, (ok_call_disciplined c s x H1). simpl.
  rewrite call_step_spec in H2. simpl in H2. apply IH. assumption.
Qed.

(* ---------- the local safety theorems for call sequences ---------- *)
Lemma local_safety_calls : forall c h xs,
  disciplined_calls c (init_state h) xs = true -> audit c h (calls_events c (init_state h) xs) = [].
Proof.
  intros c h xs H. destruct (run_calls_spec c xs (init_state h)) as [_ [_ E]]. rewrite E.
  apply local_safety_lemma. apply disciplined_calls_flat. assumption.
Qed.

Lemma no_double_vote_calls : forall c h xs,
  disciplined_calls c (init_state h) xs = true ->
  no_double_vote (calls_actions (snd (run_calls c (init_state h) xs))) = true.
Proof.
  intros c h xs H. destruct (run_calls_spec c xs (init_state h)) as [_ [E _]]. rewrite E.
  apply no_double_vote_lemma. apply disciplined_calls_flat. assumption.
Qed.

(* reachable states when all seven calls are available *)
Inductive reach_calls (c : cfg) (h0 : N) : state -> Prop :=
| rc_init : reach_calls c h0 (init_state h0)
| rc_step : forall s x, reach_calls c h0 s -> ok_call s x = true -> reach_calls c h0 (fst (call_step c s x)).

Lemma reach_run : forall c h0 ins s, reach c h0 s -> disciplined c s ins = true ->
  reach c h0 (fst (run c s ins)) /\ spos_le s (fst (run c s ins)).
Proof.
  intros c h0 ins. induction ins as [|i rest IH]; intros s R D; simpl in *.
  - split; [assumption|apply spos_le_refl].
  - apply andb_prop in D. destruct D as [D1 D2].
    pose proof (reach_step c h0 s i R D1) as R1. pose proof (step_monotone_lemma c h0 s i R D1) as M1.
    destruct (step c s i) as [s1 acts]. simpl in *. destruct (IH s1 R1 D2) as [R2 M2].
    destruct (run c s1 rest) as [s2 evs]. simpl in *. split; [assumption|eapply spos_le_trans; eauto].
Qed.

Lemma reach_calls_reach : forall c h0 s, reach_calls c h0 s -> reach c h0 s.
Proof.
  intros c h0 s H. induction H as [|s x _ IH Hok]; [constructor|].
  rewrite call_step_spec. simpl. apply reach_run; [assumption|apply ok_call_disciplined; assumption].
Qed.

Lemma step_monotone_calls : forall c h0 s x,
  reach_calls c h0 s -> ok_call s x = true -> spos_le s (fst (call_step c s x)).
Proof.
  intros c h0 s x R Hok. rewrite call_step_spec. simpl.
  apply (reach_run c h0); [apply reach_calls_reach; assumption|apply ok_call_disciplined; assumption].
Qed.

(* ---------- the harness splits the action list a call returned by the model's inner lengths: when the
   implementation returned what the model returns, the events it audits are the theorem's ---------- *)
Lemma split_by_concat : forall ls : list (list action),
  split_by (map (@length action) ls) (concat ls) = ls.
Proof.
  induction ls as [|l rest IH]; [reflexivity|].
  destruct rest as [|l2 rest].
  - simpl. rewrite app_nil_r. reflexivity.
  - change (map (@length action) (l :: l2 :: rest)) with (length l :: map (@length action) (l2 :: rest)).
    change (concat (l :: l2 :: rest)) with (l ++ concat (l2 :: rest)).
    cbn [split_by]. cbn [map] in IH |- *.
    rewrite firstn_app, Nat.sub_diag, firstn_all, firstn_O, app_nil_r.
    rewrite skipn_app, Nat.sub_diag, skipn_all. rewrite skipn_O. cbn [app]. rewrite IH. reflexivity.
Qed.

Lemma combine_fst_snd : forall (A B : Type) (l : list (A * B)), combine (map fst l) (map snd l) = l.
Proof. induction l as [|[a b] r IH]; simpl; [reflexivity|rewrite IH; reflexivity]. Qed.

Lemma flat_map_concat : forall (A B : Type) (f : A -> list B) l, flat_map f l = concat (map f l).
Proof. induction l as [|a r IH]; simpl; [reflexivity|rewrite IH; reflexivity]. Qed.

Lemma call_impl_events_exact : forall c s x,
  call_impl_events c s x (snd (call_step c s x)) = call_events c s x.
Proof.
  intros. rewrite call_step_spec. cbn [snd]. unfold call_impl_events, all_actions.
  set (evs := call_events c s x). rewrite flat_map_concat.
  rewrite <- (map_map (@snd input (list action)) (@length action) evs).
  rewrite split_by_concat. apply combine_fst_snd.
Qed.
