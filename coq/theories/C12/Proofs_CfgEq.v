(* C12 — the state machine uses its environment (Validators, Application, own address) only through their
   values: two environments that answer the same (pointwise; no functional extensionality) drive it identically.
   Used to state the replay theorem with a SECOND environment for the restarted process: the replay's
   Application.Value() must answer, at every call index, what the live one answered, Valid / Hash / Validators
   must be the same functions. *)
From Coq Require Import List NArith ZArith Bool Lia.
From V Require Import C12.Model C12.Proofs C12.Proofs_Calls C12.Proofs_Sim C12.Proofs_WalReplay.
Import ListNotations.
Open Scope N_scope.

Record cfg_same (c c' : cfg) : Prop := mkCS {
  cs_self : c_self c = c_self c';
  cs_total : forall h, c_total c h = c_total c' h;
  cs_power : forall h a, c_power c h a = c_power c' h a;
  cs_proposer : forall h r, c_proposer c h r = c_proposer c' h r;
  cs_valid : forall v, c_valid c v = c_valid c' v;      (* Application.Valid answers the same *)
  cs_vid : forall v, c_vid c v = c_vid c' v;
  cs_value : forall k, c_value_at c k = c_value_at c' k  (* the k-th Application.Value() answers the same *)
}.

Section Cong.
  Variables c c' : cfg.
  Hypothesis E : cfg_same c c'.

  Ltac crw := rewrite ?(cs_self _ _ E), ?(cs_total _ _ E), ?(cs_power _ _ E), ?(cs_proposer _ _ E),
                      ?(cs_valid _ _ E), ?(cs_vid _ _ E), ?(cs_value _ _ E).

  Lemma vc_add_proposal_cfg : forall vc p, vc_add_proposal c vc p = vc_add_proposal c' vc p.
  Proof. intros. unfold vc_add_proposal. crw. reflexivity. Qed.
  Lemma vc_add_vote_cfg : forall vc k v, vc_add_vote c vc k v = vc_add_vote c' vc k v.
  Proof. intros. unfold vc_add_vote. crw. reflexivity. Qed.
  Lemma vc_quorum_cfg : forall vc, vc_quorum c vc = vc_quorum c' vc.
  Proof. intros. unfold vc_quorum. crw. reflexivity. Qed.
  Lemma vc_faulty_cfg : forall vc, vc_faulty c vc = vc_faulty c' vc.
  Proof. intros. unfold vc_faulty. crw. reflexivity. Qed.
  Lemma quorum_vote_cfg : forall vc r k id, vc_has_quorum_vote c vc r k id = vc_has_quorum_vote c' vc r k id.
  Proof. intros. unfold vc_has_quorum_vote. rewrite vc_quorum_cfg. reflexivity. Qed.
  Lemma quorum_any_cfg : forall vc r k, vc_has_quorum_any c vc r k = vc_has_quorum_any c' vc r k.
  Proof. intros. unfold vc_has_quorum_any. rewrite vc_quorum_cfg. reflexivity. Qed.
  Lemma nonfaulty_cfg : forall vc r, vc_has_nonfaulty_future c vc r = vc_has_nonfaulty_future c' vc r.
  Proof. intros. unfold vc_has_nonfaulty_future. rewrite vc_faulty_cfg. reflexivity. Qed.
  Lemma future_quorum_cfg : forall vc h r id,
    vc_has_future_precommit_quorum c vc h r id = vc_has_future_precommit_quorum c' vc h r id.
  Proof. intros. unfold vc_has_future_precommit_quorum. rewrite vc_quorum_cfg. reflexivity. Qed.

  Lemma send_proposal_cfg : forall s v, send_proposal c s v = send_proposal c' s v.
  Proof. intros. unfold send_proposal. crw. rewrite vc_add_proposal_cfg. reflexivity. Qed.
  Lemma send_prevote_cfg : forall s id, send_prevote c s id = send_prevote c' s id.
  Proof. intros. unfold send_prevote. crw. rewrite vc_add_vote_cfg. reflexivity. Qed.
  Lemma send_precommit_cfg : forall s id, send_precommit c s id = send_precommit c' s id.
  Proof. intros. unfold send_precommit. crw. rewrite vc_add_vote_cfg. reflexivity. Qed.
  Lemma start_round_cfg : forall s r, start_round c s r = start_round c' s r.
  Proof.
    intros. unfold start_round. crw. destruct (_ =? _); [|reflexivity].
    destruct (s_vv (reset_state s r)); rewrite send_proposal_cfg; reflexivity.
  Qed.
  Lemma pid_cfg : forall p, pid c p = pid c' p.
  Proof. intros. unfold pid. crw. reflexivity. Qed.
  Lemma lock_matches_cfg : forall s id, lock_matches c s id = lock_matches c' s id.
  Proof. intros. unfold lock_matches. destruct (s_lv s); [crw|]; reflexivity. Qed.

  Lemma select_cfg : forall s rr, select c s rr = select c' s rr.
  Proof.
    intros. unfold select, upon28, upon34, upon36, upon44, upon47, otest, upon49, upon55.
    rewrite ?pid_cfg.
    repeat match goal with
    | |- context [vc_has_quorum_vote c ?a ?b ?k ?d] => rewrite (quorum_vote_cfg a b k d)
    | |- context [vc_has_quorum_any c ?a ?b ?k] => rewrite (quorum_any_cfg a b k)
    | |- context [vc_has_nonfaulty_future c ?a ?b] => rewrite (nonfaulty_cfg a b)
    end.
    destruct (vc_proposal (s_vc s) (s_r s)) as [p|]; destruct rr as [r0|]; cbn [otest];
      try (destruct (vc_proposal (s_vc s) r0) as [q|]); rewrite ?pid_cfg, ?quorum_vote_cfg, ?quorum_any_cfg, ?nonfaulty_cfg; crw; reflexivity.
  Qed.

  Lemma apply_rule_cfg : forall s ru, apply_rule c s ru = apply_rule c' s ru.
  Proof.
    intros s ru. destruct ru; cbn [apply_rule]; try reflexivity.
    - unfold do22. rewrite pid_cfg, lock_matches_cfg, send_prevote_cfg. crw. reflexivity.
    - unfold do28. rewrite pid_cfg, lock_matches_cfg, send_prevote_cfg. crw. reflexivity.
    - unfold do36. rewrite pid_cfg, send_precommit_cfg. reflexivity.
    - rewrite send_precommit_cfg. reflexivity.
    - rewrite start_round_cfg. reflexivity.
  Qed.

  Lemma loop_cfg : forall fuel s rr, loop c fuel s rr = loop c' fuel s rr.
  Proof.
    induction fuel as [|n IH]; intros s rr; cbn [loop]; [reflexivity|].
    rewrite select_cfg, apply_rule_cfg. destruct (apply_rule c' s (select c' s rr)) as [[s1 oa] cont].
    destruct cont; [rewrite IH|]; reflexivity.
  Qed.

  Lemma on_timeout_cfg : forall s k h r, on_timeout c s k h r = on_timeout c' s k h r.
  Proof. intros. unfold on_timeout. rewrite send_prevote_cfg, send_precommit_cfg, start_round_cfg. reflexivity. Qed.

  Lemma process_message_cfg : forall s w h r, process_message c s w h r = process_message c' s w h r.
  Proof. intros. unfold process_message. rewrite loop_cfg. reflexivity. Qed.

  Lemma step_x_cfg : forall s i, step_x c s i = step_x c' s i.
  Proof.
    intros s i. destruct i as [r|p|v|v|k h r]; unfold step_x.
    - rewrite start_round_cfg. destruct (s_started s); [reflexivity|].
      destruct (start_round c' (set_started s true) r) as [s1 a]. rewrite loop_cfg. reflexivity.
    - rewrite vc_add_proposal_cfg. destruct (vc_add_proposal c' (s_vc s) p) as [vc ok].
      rewrite process_message_cfg. reflexivity.
    - rewrite vc_add_vote_cfg. destruct (vc_add_vote c' (s_vc s) Prevote v) as [vc ok].
      rewrite process_message_cfg. reflexivity.
    - rewrite vc_add_vote_cfg. destruct (vc_add_vote c' (s_vc s) Precommit v) as [vc ok].
      rewrite process_message_cfg. destruct (v_id v) as [id|]; [rewrite future_quorum_cfg|]; reflexivity.
    - rewrite on_timeout_cfg. destruct (on_timeout c' s k h r) as [s1 a0]. rewrite loop_cfg. reflexivity.
  Qed.

  Lemma step_cfg : forall s i, step c s i = step c' s i.
  Proof. intros. rewrite !step_step_x, step_x_cfg. reflexivity. Qed.

  Lemma process_wal_cfg : forall s e, process_wal c s e = process_wal c' s e.
  Proof. intros. rewrite !process_wal_step. apply step_cfg. Qed.

  Lemma replay_wal_cfg : forall es s, replay_wal c s es = replay_wal c' s es.
  Proof.
    induction es as [|e rest IH]; intros s; cbn [replay_wal]; [reflexivity|].
    rewrite process_wal_cfg. destruct (process_wal c' s e) as [s1 acts]. rewrite IH. reflexivity.
  Qed.
End Cong.

(* the replay theorem with the restarted process's own environment c' *)
Lemma wal_replay_two_env : forall c c', cfg_same c c' -> (forall h, 0 < q_of (c_total c h)) -> forall h ins,
  wal_disciplined c (init_state h) ins = true ->
  st_sim (fst (replay_wal c' (init_state h) (wal_written (snd (run c (init_state h) ins)))))
         (fst (run c (init_state h) ins)) /\
  replay_actions (snd (replay_wal c' (init_state h) (wal_written (snd (run c (init_state h) ins))))) =
  all_actions (snd (run c (init_state h) ins)).
Proof.
  intros c c' E Q h ins H. rewrite <- (replay_wal_cfg c c' E). apply wal_replay_same_state_lemma; assumption.
Qed.
