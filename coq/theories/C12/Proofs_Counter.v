(* C12 — what a count in the vote counter means: the counter is fed with messages; every ballot counted for
   (height, round, kind, id) belongs to a distinct sender of such a message, so a count is bounded by the
   voting power of the senders of those messages (I2 of Appendix B). *)
From Coq Require Import List NArith ZArith Bool Lia ZifyN ZifyBool.
From V Require Import C12.Model C12.Proofs C12.Proofs_Agreement.
Import ListNotations.
Open Scope N_scope.

Inductive msg := MProp (p : proposal) | MVote (k : vkind) (v : vote).

Definition msg_of_input (i : input) : list msg :=
  match i with
  | IProposal p => [MProp p] | IPrevote v => [MVote Prevote v] | IPrecommit v => [MVote Precommit v]
  | _ => []
  end.
Definition msg_of_action (a : action) : list msg :=
  match a with
  | ABroadcastProposal p => [MProp p] | ABroadcastPrevote v => [MVote Prevote v]
  | ABroadcastPrecommit v => [MVote Precommit v]
  | _ => []
  end.

(* "a sent a vote of kind k for id in (h, r)" according to the message list *)
Definition is_vote (k : vkind) (h : N) (r : Z) (id : option hash) (a : addr) (m : msg) : bool :=
  match m with
  | MVote k' v => vkind_eqb k k' && (v_h v =? h) && (v_r v =? r)%Z && (v_from v =? a) && oid_eqb (v_id v) id
  | MProp _ => false
  end.
Definition voted (fed : list msg) (k : vkind) (h : N) (r : Z) (id : option hash) (a : addr) : bool :=
  existsb (is_vote k h r id a) fed.

Lemma oid_eqb_refl : forall o, oid_eqb o o = true.
Proof. intros [x|]; simpl; [apply N.eqb_refl|reflexivity]. Qed.
Lemma oid_eqb_eq : forall a b, oid_eqb a b = true -> a = b.
Proof. intros [x|] [y|]; simpl; intro H; try discriminate; [apply N.eqb_eq in H; subst|]; reflexivity. Qed.
Lemma vkind_eqb_refl : forall k, vkind_eqb k k = true.
Proof. intros []; reflexivity. Qed.
Lemma vkind_eqb_eq : forall a b, vkind_eqb a b = true -> a = b.
Proof. intros [] []; simpl; intro H; try discriminate; reflexivity. Qed.

Lemma voted_intro : forall fed k v, In (MVote k v) fed -> voted fed k (v_h v) (v_r v) (v_id v) (v_from v) = true.
Proof.
  intros fed k v H. unfold voted. apply existsb_exists. exists (MVote k v). split; [assumption|].
  simpl. rewrite vkind_eqb_refl, !N.eqb_refl, Z.eqb_refl, oid_eqb_refl. reflexivity.
Qed.
Lemma voted_elim : forall fed k h r id a, voted fed k h r id a = true -> In (MVote k (mkV h r a id)) fed.
Proof.
  intros fed k h r id a H. unfold voted in H. apply existsb_exists in H. destruct H as [m [Hin Hm]].
  destruct m as [p|k' v]; simpl in Hm; [discriminate|].
  apply andb_prop in Hm. destruct Hm as [Hm H5]. apply andb_prop in Hm. destruct Hm as [Hm H4].
  apply andb_prop in Hm. destruct Hm as [Hm H3]. apply andb_prop in Hm. destruct Hm as [H1 H2].
  apply vkind_eqb_eq in H1. apply N.eqb_eq in H2, H4. apply Z.eqb_eq in H3. apply oid_eqb_eq in H5.
  subst. destruct v. assumption.
Qed.
Lemma voted_incl : forall fed fed' k h r id a, incl fed fed' -> voted fed k h r id a = true -> voted fed' k h r id a = true.
Proof.
  intros fed fed' k h r id a Hi H. unfold voted in *. apply existsb_exists in H. destruct H as [m [H1 H2]].
  apply existsb_exists. exists m. auto.
Qed.

(* ---------- sums over ballots ---------- *)
Fixpoint sum_bit (pw : addr -> N) (k : vkind) (l : list (addr * ballot)) : N :=
  match l with
  | [] => 0
  | (a, x) :: r => (if bit x k then pw a else 0) + sum_bit pw k r
  end.
Lemma sum_bit_app : forall pw k l1 l2, sum_bit pw k (l1 ++ l2) = sum_bit pw k l1 + sum_bit pw k l2.
Proof. intros pw k l1 l2. induction l1 as [|[a x] r IH]; simpl; [reflexivity|]. rewrite IH. lia. Qed.

Lemma aget_none_notin : forall (l : list (addr * ballot)) a, aget N.eqb l a = None -> ~ In a (map fst l).
Proof.
  induction l as [|[b y] r IH]; intros a H; simpl in *; [tauto|].
  destruct (a =? b) eqn:E; [discriminate|]. apply N.eqb_neq in E. intros [H1|H1]; [congruence|]. eapply IH; eauto.
Qed.
Lemma aset_none : forall (l : list (addr * ballot)) a x, aget N.eqb l a = None -> aset N.eqb l a x = l ++ [(a, x)].
Proof.
  induction l as [|[b y] r IH]; intros a x H; simpl in *; [reflexivity|].
  destruct (a =? b) eqn:E; [discriminate|]. rewrite IH by assumption. reflexivity.
Qed.
Lemma aset_some : forall (l : list (addr * ballot)) a x y, aget N.eqb l a = Some y ->
  exists l1 l2, l = l1 ++ (a, y) :: l2 /\ aset N.eqb l a x = l1 ++ (a, x) :: l2.
Proof.
  induction l as [|[b z] r IH]; intros a x y H; simpl in *; [discriminate|].
  destruct (a =? b) eqn:E.
  - apply N.eqb_eq in E. subst b. inversion H. subst. exists [], r. auto.
  - destruct (IH a x y H) as [l1 [l2 [H1 H2]]]. exists ((b, z) :: l1), l2. simpl. rewrite H1 at 1. rewrite H2. auto.
Qed.

Lemma NoDup_snoc : forall (l : list addr) a, NoDup l -> ~ In a l -> NoDup (l ++ [a]).
Proof.
  induction l as [|b r IH]; intros a Hn Hi; simpl.
  - repeat constructor. simpl. tauto.
  - inversion Hn. subst. constructor.
    + intro H. apply in_app_or in H. destruct H as [H|[H|[]]]; [contradiction|]. subst. apply Hi. left. reflexivity.
    + apply IH; [assumption|]. intro H. apply Hi. right. assumption.
Qed.

Definition bset_inv (pw : addr -> N) (P : addr -> vkind -> Prop) (b : bset) : Prop :=
  NoDup (map fst (b_bal b)) /\
  b_pv b = sum_bit pw Prevote (b_bal b) /\ b_pc b = sum_bit pw Precommit (b_bal b) /\
  forall a x k, In (a, x) (b_bal b) -> bit x k = true -> P a k.

Lemma bset_inv_empty : forall pw P, bset_inv pw P b_empty.
Proof. intros. unfold bset_inv, b_empty. simpl. repeat split; auto; try constructor. intros; contradiction. Qed.

Lemma bset_inv_weaken : forall pw (P P' : addr -> vkind -> Prop) b,
  (forall a k, P a k -> P' a k) -> bset_inv pw P b -> bset_inv pw P' b.
Proof. intros pw P P' b H [H1 [H2 [H3 H4]]]. repeat split; auto. intros. eapply H, H4; eauto. Qed.

Lemma bset_inv_add : forall pw (P : addr -> vkind -> Prop) b a0 k0,
  bset_inv pw P b -> P a0 k0 -> bset_inv pw P (fst (b_add b a0 (pw a0) k0)).
Proof.
  intros pw P b a0 k0 [Hnd [Hpv [Hpc HP]]] HP0. unfold b_add.
  (* stage 1: make sure the address has a ballot *)
  set (b1 := match aget N.eqb (b_bal b) a0 with
             | Some _ => b
             | None => mkB (aset N.eqb (b_bal b) a0 (false, false)) (b_pv b) (b_pc b) (b_tot b + pw a0)
             end).
  assert (I1 : bset_inv pw P b1 /\ exists cur, aget N.eqb (b_bal b1) a0 = Some cur).
  { unfold b1. destruct (aget N.eqb (b_bal b) a0) as [y|] eqn:E.
    - split; [repeat split; assumption|eauto].
    - split.
      + rewrite (aset_none _ _ _ E). unfold bset_inv. simpl. rewrite map_app, !sum_bit_app. simpl.
        repeat split; try lia.
        * apply NoDup_snoc; [assumption|]. eapply aget_none_notin; eauto.
        * intros a x k H Hb. apply in_app_or in H. destruct H as [H|[H|[]]]; [eapply HP; eauto|].
          inversion H. subst. destruct k; discriminate.
      + simpl. rewrite (aget_aset_same N.eqb Neqb_eq). eauto. }
  destruct I1 as [[Hnd1 [Hpv1 [Hpc1 HP1]]] [cur Hcur]]. rewrite Hcur.
  destruct (bit cur k0) eqn:Eb; simpl; [repeat split; assumption|].
  destruct (aset_some _ _ (setbit cur k0) _ Hcur) as [l1 [l2 [E1 E2]]].
  unfold bset_inv. simpl. rewrite E2. rewrite E1 in Hnd1, Hpv1, Hpc1, HP1.
  rewrite map_app in *. simpl in *. rewrite !sum_bit_app in *. simpl in *.
  repeat split.
  - assumption.
  - destruct k0, cur as [c1 c2]; simpl in *; subst; simpl; lia.
  - destruct k0, cur as [c1 c2]; simpl in *; subst; simpl; lia.
  - intros a x k H Hb. apply in_app_or in H. destruct H as [H|[H|H]].
    + eapply HP1; eauto. apply in_or_app. left. eassumption.
    + inversion H. subst.
      destruct k0, k, cur as [c1 c2]; simpl in *; try assumption;
        (eapply HP1; [apply in_or_app; right; left; reflexivity|]; simpl; assumption).
    + eapply HP1; eauto. apply in_or_app. right. right. eassumption.
Qed.

(* ---------- a count is bounded by the voting power of the senders ---------- *)
Lemma pw_sum_ext : forall power (P Q : addr -> bool) l,
  (forall a, In a l -> P a = Q a) -> pw_sum power P l = pw_sum power Q l.
Proof.
  intros power P Q l. induction l as [|a r IH]; intro H; simpl; [reflexivity|].
  rewrite (H a (or_introl eq_refl)), IH; [reflexivity|]. intros; apply H; simpl; auto.
Qed.

Lemma pw_sum_remove : forall power (P : addr -> bool) l a,
  NoDup l -> P a = true -> In a l ->
  pw_sum power P l = power a + pw_sum power (fun b => P b && negb (b =? a)) l.
Proof.
  intros power P l a. induction l as [|b r IH]; intros Hn HP Hin; simpl in *; [contradiction|].
  inversion Hn as [|? ? Hnb Hnr]. subst. destruct Hin as [->|Hin].
  - rewrite HP, N.eqb_refl. simpl.
    rewrite (pw_sum_ext power P (fun b => P b && negb (b =? a)) r); [lia|].
    intros c Hc. destruct (c =? a) eqn:E; [apply N.eqb_eq in E; subst; contradiction|].
    simpl. rewrite andb_true_r. reflexivity.
  - rewrite (IH Hnr HP Hin). destruct (b =? a) eqn:E; [apply N.eqb_eq in E; subst; contradiction|].
    simpl. rewrite andb_true_r. lia.
Qed.

Lemma sum_bit_le_pw : forall power k vals (l : list (addr * ballot)) (P : addr -> bool),
  NoDup vals -> (forall a, power a <> 0 -> In a vals) ->
  NoDup (map fst l) -> (forall a x, In (a, x) l -> bit x k = true -> P a = true) ->
  sum_bit power k l <= pw_sum power P vals.
Proof.
  intros power k vals l. induction l as [|[a x] r IH]; intros P Hnv Hpos Hnd HP; simpl; [lia|].
  simpl in Hnd. inversion Hnd as [|? ? Hna Hnr]. subst.
  destruct (bit x k) eqn:Eb.
  - assert (HPa : P a = true) by (eapply HP; [left; reflexivity|assumption]).
    assert (IH' : sum_bit power k r <= pw_sum power (fun b => P b && negb (b =? a)) vals).
    { apply IH; try assumption. intros b y Hin Hb.
      rewrite (HP b y (or_intror Hin) Hb). simpl. apply negb_true_iff. apply N.eqb_neq. intro. subst.
      apply Hna. apply (in_map fst) in Hin. assumption. }
    destruct (in_dec N.eq_dec a vals) as [Hin|Hnin].
    + rewrite (pw_sum_remove power P vals a Hnv HPa Hin). lia.
    + assert (power a = 0). { destruct (N.eq_dec (power a) 0); [assumption|]. exfalso. auto. }
      pose proof (pw_sum_mono power (fun b => P b && negb (b =? a)) P vals) as Hm.
      assert (pw_sum power (fun b => P b && negb (b =? a)) vals <= pw_sum power P vals).
      { apply Hm. intros b _ Hb. apply andb_prop in Hb. tauto. }
      lia.
  - apply IH; try assumption. intros b y Hin Hb. eapply HP; [right; eassumption|assumption].
Qed.

(* ---------- the invariant of a counter fed with the messages [fed] ---------- *)
Definition rd_cnt (c : cfg) (fed : list msg) (h : N) (r : Z) (rd : rdata) : Prop :=
  (forall id b, aget N.eqb (r_ids rd) id = Some b ->
     bset_inv (c_power c h) (fun a k => voted fed k h r (Some id) a = true) b) /\
  bset_inv (c_power c h) (fun a k => voted fed k h r None a = true) (r_nil rd).

Definition vc_all (I : N -> Z -> rdata -> Prop) (vc : vcounter) : Prop :=
  (forall r rd, aget Z.eqb (vc_rounds vc) r = Some rd -> I (vc_h vc) r rd) /\
  (forall h m r rd, aget N.eqb (vc_future vc) h = Some m -> aget Z.eqb m r = Some rd -> I h r rd).

Lemma vc_with_all : forall (I : N -> Z -> rdata -> Prop) vc h r f,
  (forall h r, I h r r_empty) ->
  (forall rd, I h r rd -> I h r (fst (f rd))) ->
  vc_all I vc -> vc_all I (fst (vc_with vc h r f)).
Proof.
  intros I vc h r f He Hf [Hc Hfu]. unfold vc_with.
  destruct (h <? vc_h vc); [split; assumption|].
  destruct (h =? vc_h vc) eqn:E.
  - apply N.eqb_eq in E. subst h.
    assert (H0 : I (vc_h vc) r (rm_get (vc_rounds vc) r)).
    { unfold rm_get. destruct (aget Z.eqb (vc_rounds vc) r) eqn:E; [auto|apply He]. }
    pose proof (Hf _ H0) as H1. destruct (f (rm_get (vc_rounds vc) r)) as [rd' ok]. simpl in *.
    split; simpl; [|assumption].
    intros r' rd H. rewrite (aget_aset Z.eqb Zeqb_eq) in H. destruct (r =? r')%Z eqn:E2.
    + apply Z.eqb_eq in E2. subst. inversion H. subst. assumption.
    + auto.
  - set (m := match aget N.eqb (vc_future vc) h with Some m => m | None => [] end).
    assert (Hm : forall r' rd, aget Z.eqb m r' = Some rd -> I h r' rd).
    { unfold m. destruct (aget N.eqb (vc_future vc) h) eqn:E2; [intros; eapply Hfu; eauto|intros; discriminate]. }
    assert (H0 : I h r (rm_get m r)).
    { unfold rm_get. destruct (aget Z.eqb m r) eqn:E3; [auto|apply He]. }
    pose proof (Hf _ H0) as H1. destruct (f (rm_get m r)) as [rd' ok]. simpl in *.
    split; simpl; [assumption|].
    intros h' m' r' rd H Hr. rewrite (aget_aset N.eqb Neqb_eq) in H. destruct (h =? h') eqn:E3.
    + apply N.eqb_eq in E3. subst h'. inversion H. subst.
      rewrite (aget_aset Z.eqb Zeqb_eq) in Hr. destruct (r =? r')%Z eqn:E4.
      * apply Z.eqb_eq in E4. subst. inversion Hr. subst. assumption.
      * auto.
    + eapply Hfu; eauto.
Qed.

Lemma vc_all_start_new_height : forall I vc, vc_all I vc -> vc_all I (vc_start_new_height vc).
Proof.
  intros I vc [Hc Hf]. unfold vc_start_new_height. split; simpl.
  - intros r rd H. destruct (aget N.eqb (vc_future vc) (vc_h vc + 1)) eqn:E; [eapply Hf; eauto|discriminate].
  - intros h m r rd H Hr. rewrite (aget_adel N.eqb Neqb_eq) in H.
    destruct (vc_h vc + 1 =? h); [discriminate|]. eapply Hf; eauto.
Qed.

Lemma vc_all_weaken : forall (I J : N -> Z -> rdata -> Prop) vc,
  (forall h r rd, I h r rd -> J h r rd) -> vc_all I vc -> vc_all J vc.
Proof. intros I J vc H [H1 H2]. split; intros; eauto. Qed.

Definition vc_cnt (c : cfg) (fed : list msg) (vc : vcounter) : Prop := vc_all (rd_cnt c fed) vc.

Lemma rd_cnt_empty : forall c fed h r, rd_cnt c fed h r r_empty.
Proof. intros. split; [intros id b H; discriminate|apply bset_inv_empty]. Qed.

Lemma rd_cnt_weaken : forall c fed fed' h r rd, incl fed fed' -> rd_cnt c fed h r rd -> rd_cnt c fed' h r rd.
Proof.
  intros c fed fed' h r rd Hi [H1 H2]. split.
  - intros id b Hb. eapply bset_inv_weaken; [|eapply H1; eauto]. intros a k. apply voted_incl. assumption.
  - eapply bset_inv_weaken; [|exact H2]. intros a k. apply voted_incl. assumption.
Qed.

Lemma vc_cnt_weaken : forall c fed fed' vc, incl fed fed' -> vc_cnt c fed vc -> vc_cnt c fed' vc.
Proof. intros. eapply vc_all_weaken; [|eassumption]. intros. eapply rd_cnt_weaken; eauto. Qed.

Lemma vc_cnt_new : forall c fed h, vc_cnt c fed (vc_new h).
Proof. intros. split; simpl; intros; discriminate. Qed.

Lemma vc_cnt_add_proposal : forall c fed vc p, vc_cnt c fed vc -> vc_cnt c fed (fst (vc_add_proposal c vc p)).
Proof.
  intros c fed vc p H. apply vc_with_all; [intros; apply rd_cnt_empty| |assumption].
  intros rd Hrd. destruct (negb _); [assumption|]. unfold r_set_proposal. destruct (r_prop rd); [assumption|].
  destruct Hrd as [H1 H2]. split; simpl; assumption.
Qed.

Lemma vc_cnt_add_vote : forall c fed vc k v,
  In (MVote k v) fed -> vc_cnt c fed vc -> vc_cnt c fed (fst (vc_add_vote c vc k v)).
Proof.
  intros c fed vc k v Hin H. apply vc_with_all; [intros; apply rd_cnt_empty| |assumption].
  intros rd [H1 H2]. unfold r_add_vote.
  pose proof (voted_intro fed k v Hin) as Hv.
  destruct (v_id v) as [id|] eqn:Eid.
  - set (pvs := match aget N.eqb (r_ids rd) id with Some b => b | None => b_empty end).
    assert (Hp : bset_inv (c_power c (v_h v)) (fun a k0 => voted fed k0 (v_h v) (v_r v) (Some id) a = true) pvs).
    { unfold pvs. destruct (aget N.eqb (r_ids rd) id) eqn:E; [eapply H1; eauto|apply bset_inv_empty]. }
    pose proof (bset_inv_add _ _ pvs (v_from v) k Hp Hv) as Ha.
    destruct (b_add pvs (v_from v) (c_power c (v_h v) (v_from v)) k) as [pv' ok]. simpl in *.
    split; simpl; [|assumption].
    intros id' b Hb. rewrite (aget_aset N.eqb Neqb_eq) in Hb. destruct (id =? id') eqn:E.
    + apply N.eqb_eq in E. subst. inversion Hb. subst. assumption.
    + eapply H1; eauto.
  - pose proof (bset_inv_add _ _ (r_nil rd) (v_from v) k H2 Hv) as Ha.
    destruct (b_add (r_nil rd) (v_from v) (c_power c (v_h v) (v_from v)) k) as [n' ok]. simpl in *.
    split; simpl; assumption.
Qed.

(* what a quorum in the counter means *)
Definition cfg_ok (c : cfg) (vals : N -> list addr) : Prop :=
  forall h, NoDup (vals h) /\ c_total c h = pw_sum (c_power c h) (fun _ => true) (vals h) /\
            forall a, c_power c h a <> 0 -> In a (vals h).

Lemma quorum_meaning : forall c vals fed vc r k id,
  cfg_ok c vals -> vc_cnt c fed vc ->
  vc_has_quorum_vote c vc r k (Some id) = true ->
  q_of (c_total c (vc_h vc)) <= pw_sum (c_power c (vc_h vc)) (voted fed k (vc_h vc) r (Some id)) (vals (vc_h vc)).
Proof.
  intros c vals fed vc r k id Hok [Hc _] Hq. unfold vc_has_quorum_vote in Hq.
  destruct (aget Z.eqb (vc_rounds vc) r) as [rd|] eqn:E; [|discriminate].
  apply N.leb_le in Hq. unfold vc_quorum in Hq. destruct (Hc r rd E) as [H1 _].
  unfold r_count_vote in Hq. destruct (aget N.eqb (r_ids rd) id) as [b|] eqn:Eb.
  - destruct (H1 id b Eb) as [Hnd [Hpv [Hpc HP]]]. destruct (Hok (vc_h vc)) as [Hv1 [_ Hv3]].
    eapply N.le_trans; [exact Hq|].
    destruct k; simpl; [rewrite Hpv|rewrite Hpc]; apply sum_bit_le_pw; auto; intros; eapply HP; eauto.
  - lia.
Qed.
