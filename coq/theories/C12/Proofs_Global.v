(* C12 — agreement and validity for n correct copies of the state machine + Byzantine senders. *)
From Coq Require Import List NArith ZArith Bool Lia ZifyN ZifyBool.
From V Require Import C12.Model C12.Proofs C12.Proofs_Agreement C12.Proofs_Counter C12.Proofs_History.
Import ListNotations.
Open Scope N_scope.

Lemma one_per_slot_unique : forall l v1 v2,
  one_per_slot l = true -> In v1 l -> In v2 l -> same_slot v1 v2 = true -> v1 = v2.
Proof.
  induction l as [|v r IH]; intros v1 v2 H H1 H2 Hs; simpl in *; [contradiction|].
  apply andb_prop in H. destruct H as [Hn Hr]. apply negb_true_iff in Hn.
  assert (Hsym : forall a b, same_slot a b = same_slot b a).
  { intros a b. unfold same_slot. rewrite (N.eqb_sym (v_h a)), (Z.eqb_sym (v_r a)). reflexivity. }
  destruct H1 as [<-|H1], H2 as [<-|H2]; auto.
  - exfalso. rewrite <- not_true_iff_false in Hn. apply Hn. apply existsb_exists. exists v2. auto.
  - exfalso. rewrite <- not_true_iff_false in Hn. apply Hn. apply existsb_exists. exists v1. rewrite Hsym. auto.
Qed.

Lemma sent_votes : forall k v acts, In (MVote k v) (flat_map msg_of_action acts) <-> In v (votes_of k acts).
Proof.
  intros k v acts. induction acts as [|a rest IH]; simpl; [tauto|].
  rewrite !in_app_iff, IH. unfold votes_of at 1. 
  destruct a, k; simpl; split; intros [H|H]; auto; try (destruct H as [H|[]]; inversion H; subst; auto);
    try contradiction; try discriminate.
Qed.

Lemma commit_in : forall p acts, In (ACommit p) acts <-> In p (flat_map cm_of acts).
Proof.
  intros p acts. induction acts as [|a rest IH]; simpl; [tauto|].
  rewrite in_app_iff, <- IH. destruct a; simpl; split; intros [H|H]; auto; try discriminate; try contradiction.
  - inversion H. auto.
  - destruct H as [H|[]]. subst. auto.
Qed.

Lemma fed_of_run : forall c ins s m,
  In m (fed_of (snd (run c s ins))) ->
  In m (flat_map msg_of_input ins) \/ In m (flat_map msg_of_action (all_actions (snd (run c s ins)))).
Proof.
  intros c ins. induction ins as [|i rest IH]; intros s m H; simpl in *; [contradiction|].
  destruct (step c s i) as [s1 acts]. specialize (IH s1 m).
  destruct (run c s1 rest) as [s2 evs]. unfold fed_of, all_actions in *. simpl in *.
  rewrite !in_app_iff in *. rewrite flat_map_app, in_app_iff. tauto.
Qed.

Section Global.
  (* the validator set and the application, shared by all correct validators *)
  Variable total : N -> N.
  Variable power : N -> addr -> N.
  Variable proposer : N -> Z -> addr.
  Variable valid : value -> bool.
  Variable vid : value -> hash.
  Variable va : addr -> N -> value.       (* what validator a's application proposes *)
  Variable vals : N -> list addr.         (* the validators of each height *)
  Variable byz : addr -> bool.            (* the faulty ones (any address that is not correct) *)
  Variable h0 : N.

  Definition gc (p : addr) : cfg := mkCfg p total power proposer valid vid (va p).

  Hypothesis Hvals : forall h, NoDup (vals h) /\ total h = pw_sum (power h) (fun _ => true) (vals h) /\
                               forall a, power h a <> 0 -> In a (vals h).
  Hypothesis Hsize : forall h, 1 <= total h < W / 2.
  Hypothesis Hbyz : forall h, pw_sum (power h) byz (vals h) <= f_of (total h).

  Lemma gc_ok : forall p, cfg_ok (gc p) vals.
  Proof. intros p h. exact (Hvals h). Qed.

  (* a global history: what each correct validator was given (in which order), and the set of all messages *)
  Variable ins : addr -> list input.
  Variable M : list msg.
  Definition evs (p : addr) : list event := snd (run (gc p) (init_state h0) (ins p)).
  Definition sent (p : addr) : list msg := flat_map msg_of_action (all_actions (evs p)).

  Hypothesis Hdisc : forall p, byz p = false -> disciplined (gc p) (init_state h0) (ins p) = true.
  Hypothesis Hrecv : forall p m, byz p = false -> In m (flat_map msg_of_input (ins p)) -> In m M.
  Hypothesis Hsent : forall p m, byz p = false -> In m (sent p) -> In m M.
  (* no forgery: a vote in M that carries a correct validator's address was broadcast by it *)
  Hypothesis Hauth : forall k v, In (MVote k v) M -> byz (v_from v) = false -> In (MVote k v) (sent (v_from v)).

  Lemma fed_in_M : forall p, byz p = false -> incl (fed_of (evs p)) M.
  Proof.
    intros p Hp m Hm. apply fed_of_run in Hm. destruct Hm as [Hm|Hm]; [eapply Hrecv; eauto|eapply Hsent; eauto].
  Qed.

  Lemma facts_of : forall p, byz p = false ->
    Facts (gc p) vals (fed_of (evs p)) (votes_of Prevote (all_actions (evs p)))
          (votes_of Precommit (all_actions (evs p))) (flat_map cm_of (all_actions (evs p))).
  Proof.
    intros p Hp. apply (history_facts (gc p) vals (gc_ok p) h0). apply local_safety_lemma. apply Hdisc. assumption.
  Qed.

  Lemma own_vote : forall k h r a id, byz a = false -> voted M k h r id a = true ->
    In (mkV h r a id) (votes_of k (all_actions (evs a))).
  Proof.
    intros k h r a id Ha Hv. apply voted_elim in Hv. apply Hauth in Hv; [|assumption].
    apply sent_votes in Hv. assumption.
  Qed.

  Lemma unique_vote : forall k h r a i1 i2, byz a = false ->
    voted M k h r i1 a = true -> voted M k h r i2 a = true -> i1 = i2.
  Proof.
    intros k h r a i1 i2 Ha H1 H2. apply own_vote in H1, H2; try assumption.
    pose proof (no_double_vote_lemma (gc a) h0 (ins a) (Hdisc a Ha)) as Hn. unfold no_double_vote in Hn.
    apply andb_prop in Hn. destruct Hn as [Hn1 Hn2].
    assert (E : mkV h r a i1 = mkV h r a i2).
    { destruct k; [eapply (one_per_slot_unique _ _ _ Hn1)|eapply (one_per_slot_unique _ _ _ Hn2)]; eauto;
        unfold same_slot; simpl; rewrite N.eqb_refl, Z.eqb_refl; reflexivity. }
    inversion E. reflexivity.
  Qed.

  (* two commits of one height carry the same value id *)
  Theorem agreement_histories : forall p1 p2 c1 c2,
    byz p1 = false -> byz p2 = false ->
    In (ACommit c1) (all_actions (evs p1)) -> In (ACommit c2) (all_actions (evs p2)) ->
    p_h c1 = p_h c2 -> vid (p_val c1) = vid (p_val c2).
  Proof.
    intros p1 p2 c1 c2 B1 B2 C1 C2 Hh.
    set (h := p_h c1).
    destruct (F_CM _ _ _ _ _ _ (facts_of p1 B1) c1 (proj1 (commit_in _ _) C1)) as [_ [_ Q1]].
    destruct (F_CM _ _ _ _ _ _ (facts_of p2 B2) c2 (proj1 (commit_in _ _) C2)) as [_ [_ Q2]].
    apply (pcqF_incl _ _ _ M) in Q1; [|apply fed_in_M; assumption].
    apply (pcqF_incl _ _ _ M) in Q2; [|apply fed_in_M; assumption].
    rewrite <- Hh in Q2. fold h in Q1, Q2. unfold pcqF in Q1, Q2. simpl in Q1, Q2.
    destruct (quorum_intersect_lemma (total h) (Hsize h)) as [Hi _].
    destruct (Hvals h) as [Hnd [Htot Hpos]].
    apply (agreement_abstract (vals h) (power h) byz (q_of (total h)) (f_of (total h)) (total h) Htot (Hbyz h) Hi
             (fun r a id => voted M Prevote h r id a) (fun r a id => voted M Precommit h r id a))
      with (r1 := p_r c1) (r2 := p_r c2); try assumption.
    - intros r a i1 i2 _ Ha. apply unique_vote. assumption.
    - intros r a i1 i2 _ Ha. apply unique_vote. assumption.
    - (* precommit needs polka *)
      intros r a id _ Ha Hv. apply own_vote in Hv; [|assumption].
      pose proof (F_PC _ _ _ _ _ _ (facts_of a Ha) _ id Hv eq_refl) as Hp. simpl in Hp.
      apply (polkaF_incl _ _ _ M) in Hp; [|apply fed_in_M; assumption]. exact Hp.
    - (* lock rule *)
      intros r r' a id id' _ Ha Hv Hv' Hlt. apply own_vote in Hv, Hv'; try assumption.
      destruct (F_LK _ _ _ _ _ _ (facts_of a Ha) _ _ id id' Hv Hv' eq_refl Hlt eq_refl eq_refl) as [E|[vr [G1 [G2 G3]]]];
        [auto|]. right. exists vr. simpl in *. repeat split; auto.
      apply (polkaF_incl _ _ _ M) in G3; [|apply fed_in_M; assumption]. exact G3.
  Qed.

  (* a committed value was proposed by that round's proposer (it is the proposal message stored for the
     round, accepted only from proposer(h, r)) and judged valid by the application *)
  Theorem validity_histories : forall p c1,
    byz p = false -> In (ACommit c1) (all_actions (evs p)) ->
    valid (p_val c1) = true /\ p_from c1 = proposer (p_h c1) (p_r c1).
  Proof.
    intros p c1 B C. destruct (F_CM _ _ _ _ _ _ (facts_of p B) c1 (proj1 (commit_in _ _) C)) as [V [P _]]. auto.
  Qed.
End Global.

(* ================= the global system as a transition system ================= *)
Lemma run_snoc : forall c ins s i,
  run c s (ins ++ [i]) =
  (fst (step c (fst (run c s ins)) i), snd (run c s ins) ++ [(i, snd (step c (fst (run c s ins)) i))]).
Proof.
  intros c ins. induction ins as [|j rest IH]; intros s i; simpl.
  - destruct (step c s i). reflexivity.
  - destruct (step c s j) as [s1 acts]. rewrite IH. destruct (run c s1 rest) as [s2 evs]. reflexivity.
Qed.

Lemma disciplined_snoc : forall c ins s i,
  disciplined c s (ins ++ [i]) = disciplined c s ins && ok_input (fst (run c s ins)) i.
Proof.
  intros c ins. induction ins as [|j rest IH]; intros s i; simpl.
  - rewrite andb_true_r. reflexivity.
  - rewrite IH. destruct (step c s j) as [s1 acts]. simpl. destruct (run c s1 rest). simpl.
    rewrite andb_assoc. reflexivity.
Qed.

Lemma all_actions_snoc : forall evs i acts, all_actions (evs ++ [(i, acts)]) = all_actions evs ++ acts.
Proof. intros. unfold all_actions. rewrite flat_map_app. simpl. rewrite app_nil_r. reflexivity. Qed.

Section Dynamic.
  Variable total : N -> N.
  Variable power : N -> addr -> N.
  Variable proposer : N -> Z -> addr.
  Variable valid : value -> bool.
  Variable vid : value -> hash.
  Variable va : addr -> N -> value.
  Variable vals : N -> list addr.
  Variable byz : addr -> bool.
  Variable h0 : N.
  Hypothesis Hvals : forall h, NoDup (vals h) /\ total h = pw_sum (power h) (fun _ => true) (vals h) /\
                               forall a, power h a <> 0 -> In a (vals h).
  Hypothesis Hsize : forall h, 1 <= total h < W / 2.
  Hypothesis Hbyz : forall h, pw_sum (power h) byz (vals h) <= f_of (total h).

  Notation gcfg := (gc total power proposer valid vid va).

  (* states of the correct validators, what each was given and what each emitted (ghost logs), and
     the set of all messages ever sent *)
  Record gstate := mkG {
    g_st : addr -> state; g_ins : addr -> list input; g_out : addr -> list action; g_msgs : list msg }.

  Definition upd {A} (f : addr -> A) (p : addr) (x : A) : addr -> A := fun a => if a =? p then x else f a.
  Lemma upd_same : forall A (f : addr -> A) p x, upd f p x p = x.
  Proof. intros. unfold upd. rewrite N.eqb_refl. reflexivity. Qed.
  Lemma upd_other : forall A (f : addr -> A) p x a, a <> p -> upd f p x a = f a.
  Proof. intros. unfold upd. apply N.eqb_neq in H. rewrite H. reflexivity. Qed.

  Definition g_init : gstate := mkG (fun _ => init_state h0) (fun _ => []) (fun _ => []) [].

  Definition g_step (g : gstate) (p : addr) (i : input) : gstate :=
    let r := step (gcfg p) (g_st g p) i in
    mkG (upd (g_st g) p (fst r)) (upd (g_ins g) p (g_ins g p ++ [i])) (upd (g_out g) p (g_out g p ++ snd r))
        (g_msgs g ++ flat_map msg_of_action (snd r)).

  Definition msg_input (m : msg) : input :=
    match m with MProp p => IProposal p | MVote Prevote v => IPrevote v | MVote Precommit v => IPrecommit v end.
  Definition msg_sender (m : msg) : addr := match m with MProp p => p_from p | MVote _ v => v_from v end.

  Inductive greach : gstate -> Prop :=
  | gr_init : greach g_init
  (* any message ever sent may be delivered to any correct validator at any time, any number of times
     (never delivering it = loss) *)
  | gr_deliver : forall g p m, greach g -> byz p = false -> In m (g_msgs g) -> greach (g_step g p (msg_input m))
  (* any timeout at any time of a started height (the driver's discipline) *)
  | gr_timeout : forall g p k h r, greach g -> byz p = false -> s_started (g_st g p) = true ->
      greach (g_step g p (ITimeout k h r))
  | gr_start : forall g p r, greach g -> byz p = false -> (0 <= r)%Z -> greach (g_step g p (IStart r))
  (* a faulty validator sends anything that carries a faulty address *)
  | gr_byz : forall g m, greach g -> byz (msg_sender m) = true ->
      greach (mkG (g_st g) (g_ins g) (g_out g) (m :: g_msgs g)).

  Definition trace (g : gstate) (p : addr) : list event := snd (run (gcfg p) (init_state h0) (g_ins g p)).

  Record GI (g : gstate) : Prop := mkGI {
    GI_st : forall p, byz p = false -> g_st g p = fst (run (gcfg p) (init_state h0) (g_ins g p));
    GI_out : forall p, byz p = false -> g_out g p = all_actions (trace g p);
    GI_disc : forall p, byz p = false -> disciplined (gcfg p) (init_state h0) (g_ins g p) = true;
    GI_recv : forall p m, byz p = false -> In m (flat_map msg_of_input (g_ins g p)) -> In m (g_msgs g);
    GI_sent : forall p m, byz p = false -> In m (flat_map msg_of_action (all_actions (trace g p))) -> In m (g_msgs g);
    GI_auth : forall k v, In (MVote k v) (g_msgs g) -> byz (v_from v) = false ->
                In (MVote k v) (flat_map msg_of_action (all_actions (trace g (v_from v))))
  }.

  Lemma msg_of_input_msg_input : forall m, msg_of_input (msg_input m) = [m].
  Proof. intros [p|[] v]; reflexivity. Qed.

  Lemma GI_step : forall g p i, GI g -> byz p = false ->
    ok_input (g_st g p) i = true ->
    (forall m, In m (msg_of_input i) -> In m (g_msgs g)) ->
    GI (g_step g p i).
  Proof.
    intros g p i [I1 I2 I3 I4 I5 I6] Hp Hok Hin.
    assert (Htr : trace (g_step g p i) p = trace g p ++ [(i, snd (step (gcfg p) (g_st g p) i))]).
    { unfold trace, g_step. simpl. rewrite upd_same, run_snoc. simpl. rewrite <- I1 by assumption. reflexivity. }
    assert (Htro : forall a, a <> p -> trace (g_step g p i) a = trace g a).
    { intros a Ha. unfold trace, g_step. simpl. rewrite upd_other by assumption. reflexivity. }
    assert (Hd : disciplined (gcfg p) (init_state h0) (g_ins g p ++ [i]) = true).
    { rewrite disciplined_snoc, I3, <- I1 by assumption. assumption. }
    constructor.
    - intros a Ha. destruct (N.eq_dec a p) as [->|Hne].
      + unfold g_step. simpl. rewrite !upd_same, run_snoc. simpl. rewrite <- I1 by assumption. reflexivity.
      + unfold g_step. simpl. rewrite !upd_other by assumption. auto.
    - intros a Ha. destruct (N.eq_dec a p) as [->|Hne].
      + rewrite Htr, all_actions_snoc. unfold g_step. simpl. rewrite upd_same, I2 by assumption. reflexivity.
      + rewrite Htro by assumption. unfold g_step. simpl. rewrite upd_other by assumption. auto.
    - intros a Ha. destruct (N.eq_dec a p) as [->|Hne].
      + unfold g_step. simpl. rewrite upd_same. assumption.
      + unfold g_step. simpl. rewrite upd_other by assumption. auto.
    - intros a m Ha Hm. unfold g_step in *. simpl in *. apply in_or_app.
      destruct (N.eq_dec a p) as [->|Hne].
      + rewrite upd_same in Hm. rewrite flat_map_app in Hm. apply in_app_or in Hm. destruct Hm as [Hm|Hm].
        * left. eapply I4; eauto.
        * left. simpl in Hm. rewrite app_nil_r in Hm. auto.
      + rewrite upd_other in Hm by assumption. left. eapply I4; eauto.
    - intros a m Ha Hm. destruct (N.eq_dec a p) as [->|Hne].
      + rewrite Htr, all_actions_snoc, flat_map_app in Hm. unfold g_step. simpl. apply in_or_app.
        apply in_app_or in Hm. destruct Hm as [Hm|Hm]; [left; eapply I5; eauto|right; assumption].
      + rewrite Htro in Hm by assumption. unfold g_step. simpl. apply in_or_app. left. eapply I5; eauto.
    - intros k v Hm Hv. unfold g_step in Hm. simpl in Hm. apply in_app_or in Hm. destruct Hm as [Hm|Hm].
      + pose proof (I6 k v Hm Hv) as H. destruct (N.eq_dec (v_from v) p) as [E|Hne].
        * rewrite E in *. rewrite Htr, all_actions_snoc, flat_map_app. apply in_or_app. left. assumption.
        * rewrite Htro by assumption. assumption.
      + (* a new message of p carries p's address *)
        assert (Hin' : In (MVote k v) (flat_map msg_of_action (all_actions (trace (g_step g p i) p)))).
        { rewrite Htr, all_actions_snoc, flat_map_app. apply in_or_app. right. assumption. }
        assert (Hself : v_from v = p).
        { assert (Hau : audit (gcfg p) h0 (trace (g_step g p i) p) = []).
          { unfold trace, g_step. simpl. rewrite upd_same. apply local_safety_lemma. assumption. }
          pose proof (history_facts (gcfg p) vals (gc_ok total power proposer valid vid va vals Hvals p) h0 _ Hau) as F.
          apply sent_votes in Hin'. apply (F_self _ _ _ _ _ _ F v). destruct k; auto. }
        rewrite Hself. assumption.
  Qed.

  Lemma greach_GI : forall g, greach g -> GI g.
  Proof.
    intros g H. induction H as [|g p m Hg IH Hp Hm|g p k h r Hg IH Hp Hs|g p r Hg IH Hp Hr|g m Hg IH Hm].
    - constructor; simpl; intros; auto; contradiction.
    - apply GI_step; auto.
      + destruct m as [q|[] v]; reflexivity.
      + intros m' H'. rewrite msg_of_input_msg_input in H'. destruct H' as [<-|[]]. assumption.
    - apply GI_step; auto. intros m' [].
    - apply GI_step; auto.
      + simpl. apply Z.leb_le. assumption.
      + intros m' [].
    - destruct IH as [I1 I2 I3 I4 I5 I6]. constructor; simpl; auto.
      + intros p m' Hp H'. right. eapply I4; eauto.
      + intros p m' Hp H'. right. eapply I5; eauto.
      + intros k v [E|H'] Hv; [subst m; simpl in Hm; congruence|]. apply (I6 k v H' Hv).
  Qed.

  (* what a correct validator decided = the Commit actions it emitted *)
  Definition decided (g : gstate) (p : addr) (c : proposal) : Prop := In (ACommit c) (g_out g p).

  Theorem agreement_reachable : forall g p1 p2 c1 c2,
    greach g -> byz p1 = false -> byz p2 = false ->
    decided g p1 c1 -> decided g p2 c2 -> p_h c1 = p_h c2 -> vid (p_val c1) = vid (p_val c2).
  Proof.
    intros g p1 p2 c1 c2 Hg B1 B2 D1 D2 Hh. destruct (greach_GI g Hg) as [I1 I2 I3 I4 I5 I6].
    unfold decided in *. rewrite I2 in D1, D2 by assumption.
    exact (agreement_histories total power proposer valid vid va vals byz h0 Hvals Hsize Hbyz (g_ins g) (g_msgs g)
             I3 I4 I5 I6 p1 p2 c1 c2 B1 B2 D1 D2 Hh).
  Qed.

  Theorem validity_reachable : forall g p c1,
    greach g -> byz p = false -> decided g p c1 ->
    valid (p_val c1) = true /\ p_from c1 = proposer (p_h c1) (p_r c1).
  Proof.
    intros g p c1 Hg B D. destruct (greach_GI g Hg) as [I1 I2 I3 I4 I5 I6].
    unfold decided in *. rewrite I2 in D by assumption.
    exact (validity_histories total power proposer valid vid va vals byz h0 Hvals (g_ins g) I3 p c1 B D).
  Qed.

  (* executable schedules, to exhibit reachable states *)
  Inductive cmd :=
  | CDeliver (p : addr) (n : nat)      (* deliver the n-th message ever sent to p *)
  | CTimeout (p : addr) (k : phase) (h : N) (r : Z)
  | CStart (p : addr) (r : Z)
  | CByz (m : msg).
  Definition cmd_ok (g : gstate) (x : cmd) : bool :=
    match x with
    | CDeliver p n => negb (byz p) && (match nth_error (g_msgs g) n with Some _ => true | None => false end)
    | CTimeout p k h r => negb (byz p) && s_started (g_st g p)
    | CStart p r => negb (byz p) && (0 <=? r)%Z
    | CByz m => byz (msg_sender m)
    end.
  Definition cmd_exec (g : gstate) (x : cmd) : gstate :=
    match x with
    | CDeliver p n => match nth_error (g_msgs g) n with Some m => g_step g p (msg_input m) | None => g end
    | CTimeout p k h r => g_step g p (ITimeout k h r)
    | CStart p r => g_step g p (IStart r)
    | CByz m => mkG (g_st g) (g_ins g) (g_out g) (m :: g_msgs g)
    end.
  Fixpoint sched_ok (g : gstate) (l : list cmd) : bool :=
    match l with [] => true | x :: r => cmd_ok g x && sched_ok (cmd_exec g x) r end.
  Fixpoint sched_exec (g : gstate) (l : list cmd) : gstate :=
    match l with [] => g | x :: r => sched_exec (cmd_exec g x) r end.

  Lemma sched_reach : forall l g, greach g -> sched_ok g l = true -> greach (sched_exec g l).
  Proof.
    induction l as [|x r IH]; intros g Hg H; simpl in *; [assumption|].
    apply andb_prop in H. destruct H as [H1 H2]. apply IH; [|assumption].
    destruct x as [p n|p k h r0|p r0|m]; simpl in *.
    - apply andb_prop in H1. destruct H1 as [Hb Hn]. apply negb_true_iff in Hb.
      destruct (nth_error (g_msgs g) n) as [m|] eqn:E; [|discriminate].
      apply gr_deliver; auto. eapply nth_error_In; eauto.
    - apply andb_prop in H1. destruct H1 as [Hb Hn]. apply negb_true_iff in Hb. apply gr_timeout; auto.
    - apply andb_prop in H1. destruct H1 as [Hb Hn]. apply negb_true_iff in Hb. apply Z.leb_le in Hn.
      apply gr_start; auto.
    - apply gr_byz; auto.
  Qed.
End Dynamic.
