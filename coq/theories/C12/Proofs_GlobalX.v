(* C12 — agreement and validity when correct validators may also be driven through ProcessWAL and ProcessSync.
   ProcessSync performs no check of its own, it hands its arguments to ProcessProposal / ProcessPrecommit
   (Proofs_Calls.process_sync_x_spec); so it is safe exactly when its caller hands over real messages:
   every message given to a correct validator by ANY call was sent (by a correct validator, or it carries a
   faulty address).  Under that hypothesis a call is a sequence of deliveries and the invariant GI of
   Proofs_Global.v is kept. *)
From Coq Require Import List NArith ZArith Bool Lia ZifyN ZifyBool.
From V Require Import C12.Model C12.Proofs C12.Proofs_Agreement C12.Proofs_Counter C12.Proofs_History C12.Proofs_Global
  C12.Proofs_Sim C12.Proofs_SimB C12.Proofs_Calls.
Import ListNotations.
Open Scope N_scope.

Definition msg_eqb (a b : msg) : bool :=
  match a, b with
  | MProp p, MProp q => proposal_eqb p q
  | MVote k v, MVote k' u =>
      vkind_eqb k k' && ((v_h v =? v_h u) && (v_r v =? v_r u)%Z && (v_from v =? v_from u) && oid_eqb (v_id v) (v_id u))
  | _, _ => false
  end.
Lemma msg_eqb_spec : forall a b, msg_eqb a b = true <-> a = b.
Proof.
  intros [p|k v] [q|k' u]; simpl; try (split; intro; discriminate).
  - rewrite proposal_eqb_spec. split; [intros ->; reflexivity|intro E; inversion E; reflexivity].
  - rewrite andb_true_iff, vote_fields_spec. split.
    + intros [Ek ->]. destruct k, k'; simpl in Ek; try discriminate; reflexivity.
    + intro E. inversion E. subst. split; [destruct k'; reflexivity|reflexivity].
Qed.
Definition in_pool (m : msg) (l : list msg) : bool := existsb (msg_eqb m) l.
Lemma in_pool_spec : forall m l, in_pool m l = true <-> In m l.
Proof.
  intros m l. unfold in_pool. rewrite existsb_exists. split.
  - intros [x [Hin E]]. apply msg_eqb_spec in E. subst. exact Hin.
  - intro H. exists m. split; [exact H|apply msg_eqb_spec; reflexivity].
Qed.

Section DynamicX.
  Variable total : N -> N.
  Variable power : N -> addr -> N.
  Variable proposer : N -> Z -> addr.
  Variable valid : value -> bool.
  Variable vid : value -> hash.
  Variable va : addr -> N -> value.
  Variable vals : N -> list addr.
  Variable byz : addr -> bool.
  Variable h0 : N.
  Hypothesis Hvals : forall h, NoDup (vals h) /\ total h = pw_sum (power h) (fun _ => true) (vals h) /\
                               forall a, power h a <> 0 -> In a (vals h).
  Hypothesis Hsize : forall h, 1 <= total h < W / 2.
  Hypothesis Hbyz : forall h, pw_sum (power h) byz (vals h) <= f_of (total h).

  Notation gcfg := (gc total power proposer valid vid va).
  Notation GIx := (GI total power proposer valid vid va byz h0).
  Notation gstep := (g_step total power proposer valid vid va).

  (* a correct validator p makes one call of its state machine *)
  Definition g_call (g : gstate) (p : addr) (x : call) : gstate :=
    let r := call_step (gcfg p) (g_st g p) x in
    mkG (upd (g_st g) p (fst r)) (upd (g_ins g) p (g_ins g p ++ call_inputs x)) (upd (g_out g) p (g_out g p ++ snd r))
        (g_msgs g ++ flat_map msg_of_action (snd r)).

  Fixpoint g_steps (g : gstate) (p : addr) (ins : list input) : gstate :=
    match ins with [] => g | i :: r => g_steps (gstep g p i) p r end.

  Definition g_ext (g g' : gstate) : Prop :=
    (forall a, g_st g a = g_st g' a) /\ (forall a, g_ins g a = g_ins g' a) /\
    (forall a, g_out g a = g_out g' a) /\ g_msgs g = g_msgs g'.

  Lemma GI_ext : forall g g', g_ext g g' -> GIx g -> GIx g'.
  Proof.
    intros g g' [E1 [E2 [E3 E4]]] [I1 I2 I3 I4 I5 I6].
    assert (T : forall p, trace total power proposer valid vid va h0 g' p = trace total power proposer valid vid va h0 g p)
      by (intro p; unfold trace; rewrite E2; reflexivity).
    constructor.
    - intros p Hp. rewrite <- E1, <- E2. apply I1. exact Hp.
    - intros p Hp. rewrite <- E3, T. apply I2. exact Hp.
    - intros p Hp. rewrite <- E2. apply I3. exact Hp.
    - intros p m Hp Hm. rewrite <- E4. rewrite <- E2 in Hm. eapply I4; eauto.
    - intros p m Hp Hm. rewrite <- E4. rewrite T in Hm. eapply I5; eauto.
    - intros k v Hm Hv. rewrite T. rewrite <- E4 in Hm. apply I6; assumption.
  Qed.

  Lemma g_steps_form : forall ins g p,
    let r := run (gcfg p) (g_st g p) ins in
    g_ext (g_steps g p ins)
          (mkG (upd (g_st g) p (fst r)) (upd (g_ins g) p (g_ins g p ++ ins))
               (upd (g_out g) p (g_out g p ++ all_actions (snd r)))
               (g_msgs g ++ flat_map msg_of_action (all_actions (snd r)))).
  Proof.
    induction ins as [|i rest IH]; intros g p; cbn [g_steps run].
    - simpl. unfold g_ext, upd. simpl. repeat split; intros; rewrite ?app_nil_r; try reflexivity;
        destruct (a =? p) eqn:E; try reflexivity; apply N.eqb_eq in E; subst; reflexivity.
    - specialize (IH (gstep g p i) p). cbv zeta in IH.
      assert (A1 : g_st (gstep g p i) = upd (g_st g) p (fst (step (gcfg p) (g_st g p) i))) by reflexivity.
      assert (A2 : g_ins (gstep g p i) = upd (g_ins g) p (g_ins g p ++ [i])) by reflexivity.
      assert (A3 : g_out (gstep g p i) = upd (g_out g) p (g_out g p ++ snd (step (gcfg p) (g_st g p) i))) by reflexivity.
      assert (A4 : g_msgs (gstep g p i) = g_msgs g ++ flat_map msg_of_action (snd (step (gcfg p) (g_st g p) i))) by reflexivity.
      rewrite A1, A2, A3, A4 in IH. clear A1 A2 A3 A4. rewrite !upd_same in IH.
      destruct (step (gcfg p) (g_st g p) i) as [s1 acts] eqn:Es. cbn [fst snd] in *.
      destruct (run (gcfg p) s1 rest) as [s2 evs] eqn:Er. cbn [fst snd] in *.
      destruct IH as [J1 [J2 [J3 J4]]]. unfold all_actions. cbn [flat_map snd fst]. fold (all_actions evs).
      repeat split; cbn [g_st g_ins g_out g_msgs] in *.
      + intro a. rewrite J1. unfold upd. destruct (a =? p); reflexivity.
      + intro a. rewrite J2. unfold upd. destruct (a =? p); [rewrite <- app_assoc; reflexivity|reflexivity].
      + intro a. rewrite J3. unfold upd. destruct (a =? p); [rewrite <- app_assoc; reflexivity|reflexivity].
      + rewrite J4, flat_map_app, app_assoc. reflexivity.
  Qed.

  Lemma g_call_steps : forall g p x, g_ext (g_steps g p (call_inputs x)) (g_call g p x).
  Proof.
    intros g p x. pose proof (g_steps_form (call_inputs x) g p) as F. cbv zeta in F.
    unfold g_call. rewrite call_step_spec. cbn [fst snd]. unfold call_events. exact F.
  Qed.

  Lemma g_step_msgs : forall g p i m, In m (g_msgs g) -> In m (g_msgs (gstep g p i)).
  Proof. intros. unfold g_step. simpl. apply in_or_app. left. assumption. Qed.

  Lemma GI_steps : forall ins g p, GIx g -> byz p = false ->
    disciplined (gcfg p) (g_st g p) ins = true ->
    (forall m, In m (flat_map msg_of_input ins) -> In m (g_msgs g)) ->
    GIx (g_steps g p ins).
  Proof.
    induction ins as [|i rest IH]; intros g p G Hp Hd Hm; cbn [g_steps]; [exact G|].
    simpl in Hd. apply andb_prop in Hd. destruct Hd as [Hok Hd].
    apply IH; [|exact Hp| |].
    - apply (GI_step total power proposer valid vid va vals byz h0 Hvals); auto.
      intros m Hin. apply Hm. simpl. apply in_or_app. left. exact Hin.
    - unfold g_step. simpl. rewrite upd_same. exact Hd.
    - intros m Hin. apply g_step_msgs. apply Hm. simpl. apply in_or_app. right. exact Hin.
  Qed.

  Lemma GI_call : forall g p x, GIx g -> byz p = false -> ok_call (g_st g p) x = true ->
    (forall m, In m (flat_map msg_of_input (call_inputs x)) -> In m (g_msgs g)) ->
    GIx (g_call g p x).
  Proof.
    intros g p x G Hp Hok Hm. apply (GI_ext _ _ (g_call_steps g p x)).
    apply GI_steps; auto. apply ok_call_disciplined. exact Hok.
  Qed.

  (* the system of Proofs_Global.greach with all seven calls.  gx_call covers: delivery of a sent message
     (KIn of a message), timeouts of a started height, ProcessStart(r >= 0), ProcessWAL of an entry (a message
     entry holds a message that was received, hence sent; a Timeout entry only while the height is started), and
     ProcessSync whose proposal and precommits were all sent. *)
  Inductive greach_x : gstate -> Prop :=
  | gx_init : greach_x (g_init h0)
  | gx_call : forall g p x, greach_x g -> byz p = false -> ok_call (g_st g p) x = true ->
      (forall m, In m (flat_map msg_of_input (call_inputs x)) -> In m (g_msgs g)) ->
      greach_x (g_call g p x)
  | gx_byz : forall g m, greach_x g -> byz (msg_sender m) = true ->
      greach_x (mkG (g_st g) (g_ins g) (g_out g) (m :: g_msgs g)).

  Lemma greach_x_GI : forall g, greach_x g -> GIx g.
  Proof.
    intros g H. induction H as [|g p x Hg IH Hp Hok Hm|g m Hg IH Hm].
    - apply (greach_GI total power proposer valid vid va vals byz h0 Hvals). apply gr_init.
    - apply GI_call; assumption.
    - destruct IH as [I1 I2 I3 I4 I5 I6]. constructor; simpl; auto.
      + intros p m' Hp H'. right. eapply I4; eauto.
      + intros p m' Hp H'. right. eapply I5; eauto.
      + intros k v [E|H'] Hv; [subst m; simpl in Hm; congruence|]. apply (I6 k v H' Hv).
  Qed.

  (* the old system is the part of the new one that uses the five plain calls *)
  Lemma g_call_in : forall g p i, g_call g p (KIn i) = gstep g p i.
  Proof. intros. unfold g_call, g_step, call_step. cbn [call_step_x call_inputs]. rewrite <- step_step_x. reflexivity. Qed.

  Lemma greach_greach_x : forall g, greach total power proposer valid vid va byz h0 g -> greach_x g.
  Proof.
    intros g H. induction H as [|g p m Hg IH Hp Hm|g p k h r Hg IH Hp Hs|g p r Hg IH Hp Hr|g m Hg IH Hm].
    - apply gx_init.
    - rewrite <- g_call_in. apply gx_call; auto.
      + destruct m as [q|[] v]; reflexivity.
      + intros m' H'. simpl in H'. rewrite app_nil_r, msg_of_input_msg_input in H'. destruct H' as [<-|[]]. exact Hm.
    - rewrite <- g_call_in. apply gx_call; auto. intros m' [].
    - rewrite <- g_call_in. apply gx_call; auto; [simpl; apply Z.leb_le; exact Hr|intros m' []].
    - apply gx_byz; auto.
  Qed.

  Theorem agreement_reachable_x : forall g p1 p2 c1 c2,
    greach_x g -> byz p1 = false -> byz p2 = false ->
    decided g p1 c1 -> decided g p2 c2 -> p_h c1 = p_h c2 -> vid (p_val c1) = vid (p_val c2).
  Proof.
    intros g p1 p2 c1 c2 Hg B1 B2 D1 D2 Hh. destruct (greach_x_GI g Hg) as [I1 I2 I3 I4 I5 I6].
    unfold decided in *. rewrite I2 in D1, D2 by assumption.
    exact (agreement_histories total power proposer valid vid va vals byz h0 Hvals Hsize Hbyz (g_ins g) (g_msgs g)
             I3 I4 I5 I6 p1 p2 c1 c2 B1 B2 D1 D2 Hh).
  Qed.

  Theorem validity_reachable_x : forall g p c1,
    greach_x g -> byz p = false -> decided g p c1 ->
    valid (p_val c1) = true /\ p_from c1 = proposer (p_h c1) (p_r c1).
  Proof.
    intros g p c1 Hg B D. destruct (greach_x_GI g Hg) as [I1 I2 I3 I4 I5 I6].
    unfold decided in *. rewrite I2 in D by assumption.
    exact (validity_histories total power proposer valid vid va vals byz h0 Hvals (g_ins g) I3 p c1 B D).
  Qed.

  (* executable schedules with calls, to exhibit reachable states *)
  Inductive xcmd := XCall (p : addr) (x : call) | XByz (m : msg).
  Definition call_msgs (x : call) : list msg := flat_map msg_of_input (call_inputs x).
  Definition xcmd_ok (g : gstate) (c : xcmd) : bool :=
    match c with
    | XCall p x => negb (byz p) && ok_call (g_st g p) x && forallb (fun m => in_pool m (g_msgs g)) (call_msgs x)
    | XByz m => byz (msg_sender m)
    end.
  Definition xcmd_exec (g : gstate) (c : xcmd) : gstate :=
    match c with
    | XCall p x => g_call g p x
    | XByz m => mkG (g_st g) (g_ins g) (g_out g) (m :: g_msgs g)
    end.
  Fixpoint xsched_ok (g : gstate) (l : list xcmd) : bool :=
    match l with [] => true | c :: r => xcmd_ok g c && xsched_ok (xcmd_exec g c) r end.
  Fixpoint xsched_exec (g : gstate) (l : list xcmd) : gstate :=
    match l with [] => g | c :: r => xsched_exec (xcmd_exec g c) r end.

  Lemma xsched_reach : forall l g, greach_x g -> xsched_ok g l = true -> greach_x (xsched_exec g l).
  Proof.
    induction l as [|c r IH]; intros g Hg H; simpl in *; [assumption|].
    apply andb_prop in H. destruct H as [H1 H2]. apply IH; [|assumption].
    destruct c as [p x|m]; simpl in *.
    - apply andb_prop in H1. destruct H1 as [H1 Hm]. apply andb_prop in H1. destruct H1 as [Hb Hok].
      apply negb_true_iff in Hb. apply gx_call; auto.
      intros m Hin. rewrite forallb_forall in Hm. apply in_pool_spec. apply Hm. exact Hin.
    - apply gx_byz; auto.
  Qed.
End DynamicX.
