(* C12 — what a history that passes the monitor says in terms of message sets (the local facts the
   agreement argument needs: I3, I4, I5 of Appendix B). *)
From Coq Require Import List NArith ZArith Bool Lia ZifyN ZifyBool.
From V Require Import C12.Model C12.Proofs C12.Proofs_Agreement C12.Proofs_Counter.
Import ListNotations.
Open Scope N_scope.

Section History.
  Variable c : cfg.
  Variable vals : N -> list addr.
  Hypothesis Hok : cfg_ok c vals.

  Definition polkaF (fed : list msg) (h : N) (r : Z) (id : hash) : Prop :=
    q_of (c_total c h) <= pw_sum (c_power c h) (voted fed Prevote h r (Some id)) (vals h).
  Definition pcqF (fed : list msg) (h : N) (r : Z) (id : hash) : Prop :=
    q_of (c_total c h) <= pw_sum (c_power c h) (voted fed Precommit h r (Some id)) (vals h).

  Lemma polkaF_incl : forall fed fed' h r id, incl fed fed' -> polkaF fed h r id -> polkaF fed' h r id.
  Proof.
    intros fed fed' h r id Hi H. unfold polkaF in *. eapply N.le_trans; [exact H|].
    apply pw_sum_mono. intros a _. apply voted_incl. assumption.
  Qed.
  Lemma pcqF_incl : forall fed fed' h r id, incl fed fed' -> pcqF fed h r id -> pcqF fed' h r id.
  Proof.
    intros fed fed' h r id Hi H. unfold pcqF in *. eapply N.le_trans; [exact H|].
    apply pw_sum_mono. intros a _. apply voted_incl. assumption.
  Qed.

  Definition vpos_of (k : vkind) (v : vote) : vpos := (v_h v, v_r v, k).
  Definition le_last (o : option vpos) (p : vpos) : Prop := exists l, o = Some l /\ (l = p \/ pos_lt p l = true).

  Lemma le_last_step : forall o p p', le_last o p ->
    match o with None => True | Some l => pos_lt l p' = true end -> le_last (Some p') p /\ pos_lt p p' = true.
  Proof.
    intros o p p' [l [-> [->|H]]] H2.
    - split; [exists p'; auto|assumption].
    - assert (pos_lt p p' = true) by (eapply pos_lt_trans; eauto). split; [exists p'; auto|assumption].
  Qed.

  Record MI (m : mon) (fed : list msg) (pvs pcs : list vote) : Prop := mkMI {
    MI_cnt : vc_cnt c fed (m_vc m);
    MI_pos_pv : forall v, In v pvs -> le_last (m_last m) (vpos_of Prevote v);
    MI_pos_pc : forall v, In v pcs -> le_last (m_last m) (vpos_of Precommit v);
    MI_h_pv : forall v, In v pvs -> v_h v <= vc_h (m_vc m);
    MI_h_pc : forall v, In v pcs -> v_h v <= vc_h (m_vc m);
    MI_lock : match m_lock m with
              | None => forall v', In v' pcs -> v_h v' = vc_h (m_vc m) -> v_id v' = None
              | Some (lr, lid) =>
                  polkaF fed (vc_h (m_vc m)) lr lid /\
                  le_last (m_last m) (vc_h (m_vc m), lr, Precommit) /\
                  forall v' id', In v' pcs -> v_h v' = vc_h (m_vc m) -> v_id v' = Some id' ->
                                 (v_r v' < lr)%Z \/ (v_r v' = lr /\ id' = lid)
              end
  }.

  Record Facts (fed : list msg) (pvs pcs : list vote) (cms : list proposal) : Prop := mkFacts {
    F_PC : forall v id, In v pcs -> v_id v = Some id -> polkaF fed (v_h v) (v_r v) id;
    F_LK : forall v v' id id', In v pvs -> In v' pcs -> v_h v = v_h v' -> (v_r v' < v_r v)%Z ->
             v_id v = Some id -> v_id v' = Some id' ->
             id' = id \/ exists vr, (v_r v' <= vr)%Z /\ (vr < v_r v)%Z /\ polkaF fed (v_h v) vr id;
    F_CM : forall p, In p cms ->
             c_valid c (p_val p) = true /\ p_from p = c_proposer c (p_h p) (p_r p) /\
             pcqF fed (p_h p) (p_r p) (pid c p);
    F_self : forall v, In v pvs \/ In v pcs -> v_from v = c_self c
  }.

  Lemma Facts_incl : forall fed fed' pvs pcs cms, incl fed fed' -> Facts fed pvs pcs cms -> Facts fed' pvs pcs cms.
  Proof.
    intros fed fed' pvs pcs cms Hi [H1 H2 H3 H4]. constructor; auto.
    - intros. eapply polkaF_incl; eauto.
    - intros v v' id id' A B C D E F. destruct (H2 v v' id id' A B C D E F) as [G|[vr [G1 [G2 G3]]]]; [auto|].
      right. exists vr. repeat split; auto. eapply polkaF_incl; eauto.
    - intros p Hp. destruct (H3 p Hp) as [A [B C]]. repeat split; auto. eapply pcqF_incl; eauto.
  Qed.

  Lemma MI_incl : forall m fed fed' pvs pcs, incl fed fed' -> MI m fed pvs pcs -> MI m fed' pvs pcs.
  Proof.
    intros m fed fed' pvs pcs Hi [H1 H2 H3 H4 H5 H6]. constructor; auto.
    - eapply vc_cnt_weaken; eauto.
    - destruct (m_lock m) as [[lr lid]|]; [|assumption]. destruct H6 as [A [B C]]. repeat split; auto.
      eapply polkaF_incl; eauto.
  Qed.

  Definition cm_of (a : action) : list proposal := match a with ACommit p => [p] | _ => [] end.

  Lemma polka_between_elim : forall vc lo hi id, polka_between c vc lo hi id = true ->
    exists vr, (lo <= vr)%Z /\ (vr < hi)%Z /\ vc_has_quorum_vote c vc vr Prevote (Some id) = true.
  Proof.
    intros vc lo hi id H. unfold polka_between in H. apply existsb_exists in H. destruct H as [[vr rd] [_ H]].
    simpl in H. apply andb3 in H. destruct H as [H1 [H2 H3]]. exists vr.
    apply Z.leb_le in H1. apply Z.ltb_lt in H2. auto.
  Qed.

  Lemma incl_app_l : forall (A : Type) (l x : list A), incl l (l ++ x).
  Proof. intros. apply incl_appl, incl_refl. Qed.

  (* a vote of the validator itself *)
  Lemma MI_own_vote : forall m fed pvs pcs cms k v,
    MI m fed pvs pcs -> Facts fed pvs pcs cms ->
    mon_action c m (match k with Prevote => ABroadcastPrevote v | Precommit => ABroadcastPrecommit v end) =
      (mkMon (fst (vc_add_vote c (m_vc m) k v))
             (match k, v_id v with Precommit, Some id => Some (v_r v, id) | _, _ => m_lock m end)
             (Some (vpos_of k v)), []) ->
    MI (mkMon (fst (vc_add_vote c (m_vc m) k v))
              (match k, v_id v with Precommit, Some id => Some (v_r v, id) | _, _ => m_lock m end)
              (Some (vpos_of k v)))
       (fed ++ [MVote k v])
       (match k with Prevote => pvs ++ [v] | Precommit => pvs end)
       (match k with Prevote => pcs | Precommit => pcs ++ [v] end) /\
    Facts (fed ++ [MVote k v])
       (match k with Prevote => pvs ++ [v] | Precommit => pvs end)
       (match k with Prevote => pcs | Precommit => pcs ++ [v] end) cms.
  Proof.
    intros m fed pvs pcs cms k v M F Hm.
    assert (Hi : incl fed (fed ++ [MVote k v])) by apply incl_app_l.
    apply (MI_incl _ _ _ _ _ Hi) in M. apply (Facts_incl _ _ _ _ _ Hi) in F.
    destruct M as [M1 M2 M3 M4 M5 M6]. destruct F as [F1 F2 F3 F4].
    (* the checks that passed *)
    assert (Hchk : (v_from v =? c_self c) && (v_h v =? vc_h (m_vc m)) = true /\
                   after_last m (vpos_of k v) = true /\
                   match k with
                   | Prevote => match v_id v, m_lock m with
                                | Some id, Some (lr, lid) => (lid =? id) || polka_between c (m_vc m) lr (v_r v) id = true
                                | _, _ => True end
                   | Precommit => match v_id v with
                                  | Some id => vc_has_quorum_vote c (m_vc m) (v_r v) Prevote (Some id) = true
                                  | None => True end
                   end).
    { destruct k; simpl in Hm; inversion Hm as [[E]]; apply app_eq_nil in E; destruct E as [E1 E2];
        apply app_eq_nil in E2; destruct E2 as [E2 E3]; apply chk_nil in E1, E2, E3;
        (split; [assumption|]); (split; [assumption|]).
      - destruct (v_id v), (m_lock m) as [[lr lid]|]; auto.
      - destruct (v_id v); auto. }
    destruct Hchk as [C5 [C1 C23]]. apply andb_prop in C5. destruct C5 as [Cself Ch].
    apply N.eqb_eq in Cself, Ch.
    assert (Hlt : forall p, le_last (m_last m) p -> le_last (Some (vpos_of k v)) p /\ pos_lt p (vpos_of k v) = true).
    { intros p Hp. apply (le_last_step _ _ _ Hp). unfold after_last in C1. destruct (m_last m); auto. }
    assert (Hcnt : vc_cnt c (fed ++ [MVote k v]) (fst (vc_add_vote c (m_vc m) k v))).
    { apply vc_cnt_add_vote; [apply in_or_app; right; left; reflexivity|assumption]. }
    assert (Hself : le_last (Some (vpos_of k v)) (vpos_of k v)) by (exists (vpos_of k v); auto).
    destruct k.
    - (* prevote *)
      split.
      + constructor; simpl; try rewrite vc_add_vote_h; auto.
        * intros v0 H0. apply in_app_or in H0. destruct H0 as [H0|[<-|[]]]; [apply Hlt; auto|assumption].
        * intros v0 H0. apply Hlt; auto.
        * intros v0 H0. apply in_app_or in H0. destruct H0 as [H0|[<-|[]]]; [auto|lia].
        * destruct (m_lock m) as [[lr lid]|]; [|assumption]. destruct M6 as [A [B C0]]. repeat split; auto.
          apply Hlt; auto.
      + constructor; auto.
        * intros v0 v' id id' H0 H1 H2 H3 H4 H5. apply in_app_or in H0. destruct H0 as [H0|[<-|[]]]; [eauto|].
          (* the new prevote against an earlier precommit of this height *)
          rewrite H4 in C23. rewrite Ch in H2.
          destruct (m_lock m) as [[lr lid]|].
          -- destruct M6 as [A [B C0]]. destruct (C0 v' id' H1 (eq_sym H2) H5) as [D|[D1 D2]].
             ++ right. destruct (Hlt _ B) as [_ B']. unfold vpos_of, pos_lt in B'. simpl in B'. rewrite Ch in B'.
                apply orb_prop in C23. destruct C23 as [C23|C23].
                ** apply N.eqb_eq in C23. subst lid. exists lr. rewrite Ch. repeat split; try lia. assumption.
                ** apply polka_between_elim in C23. destruct C23 as [vr [G1 [G2 G3]]].
                   exists vr. rewrite Ch. repeat split; try lia. unfold polkaF.
                   eapply (quorum_meaning c vals _ _ _ _ _ Hok M1 G3).
             ++ subst. apply orb_prop in C23. destruct C23 as [C23|C23].
                ** apply N.eqb_eq in C23. auto.
                ** right. apply polka_between_elim in C23. destruct C23 as [vr [G1 [G2 G3]]].
                   exists vr. rewrite Ch. repeat split; try lia. unfold polkaF.
                   eapply (quorum_meaning c vals _ _ _ _ _ Hok M1 G3).
          -- rewrite (M6 v' H1 (eq_sym H2)) in H5. discriminate.
        * intros v0 [H0|H0]; [|auto]. apply in_app_or in H0. destruct H0 as [H0|[<-|[]]]; auto.
    - (* precommit *)
      assert (Hnewpolka : forall id, v_id v = Some id -> polkaF (fed ++ [MVote Precommit v]) (v_h v) (v_r v) id).
      { intros id Hid. rewrite Hid in C23. rewrite Ch. unfold polkaF.
        eapply (quorum_meaning c vals _ _ _ _ _ Hok M1 C23). }
      split.
      + constructor; simpl; try rewrite vc_add_vote_h; auto.
        * intros v0 H0. apply Hlt; auto.
        * intros v0 H0. apply in_app_or in H0. destruct H0 as [H0|[<-|[]]]; [apply Hlt; auto|assumption].
        * intros v0 H0. apply in_app_or in H0. destruct H0 as [H0|[<-|[]]]; [auto|lia].
        * destruct (v_id v) as [id|] eqn:Eid.
          -- split; [rewrite <- Ch; auto|]. split; [rewrite <- Ch; exact Hself|].
             intros v' id' H0 H1 H2. apply in_app_or in H0. destruct H0 as [H0|[<-|[]]].
             ++ left. destruct (Hlt _ (M3 v' H0)) as [_ B']. unfold vpos_of, pos_lt in B'. simpl in B'. lia.
             ++ right. split; [reflexivity|congruence].
          -- destruct (m_lock m) as [[lr lid]|].
             ++ destruct M6 as [A [B C0]]. split; [assumption|]. split; [apply Hlt; auto|].
                intros v' id' H0 H1 H2. apply in_app_or in H0. destruct H0 as [H0|[<-|[]]]; [eauto|congruence].
             ++ intros v' H0 H1. apply in_app_or in H0. destruct H0 as [H0|[<-|[]]]; auto.
      + constructor; auto.
        * intros v0 id H0 H1. apply in_app_or in H0. destruct H0 as [H0|[<-|[]]]; [eauto|auto].
        * intros v0 v' id id' H0 H1 H2 H3 H4 H5. apply in_app_or in H1. destruct H1 as [H1|[<-|[]]]; [eauto|].
          (* an earlier prevote cannot be in a later round than the new precommit *)
          exfalso. destruct (Hlt _ (M2 v0 H0)) as [_ B']. unfold vpos_of, pos_lt in B'. simpl in B'. lia.
        * intros v0 [H0|H0]; [auto|]. apply in_app_or in H0. destruct H0 as [H0|[<-|[]]]; auto.
  Qed.

  Lemma votes_of_cons : forall k a rest, votes_of k (a :: rest) = votes_of k [a] ++ votes_of k rest.
  Proof. intros. unfold votes_of. simpl. rewrite app_nil_r. reflexivity. Qed.

  Lemma MI_action : forall m fed pvs pcs cms a m',
    MI m fed pvs pcs -> Facts fed pvs pcs cms -> mon_action c m a = (m', []) ->
    MI m' (fed ++ msg_of_action a) (pvs ++ votes_of Prevote [a]) (pcs ++ votes_of Precommit [a]) /\
    Facts (fed ++ msg_of_action a) (pvs ++ votes_of Prevote [a]) (pcs ++ votes_of Precommit [a]) (cms ++ cm_of a).
  Proof.
    intros m fed pvs pcs cms a m' M F Hm.
    destruct a; simpl in *; try (inversion Hm; subst; rewrite !app_nil_r; auto; fail).
    - (* own proposal *)
      inversion Hm as [[E1 E2]]. rewrite !app_nil_r.
      assert (Hi : incl fed (fed ++ [MProp p])) by apply incl_app_l.
      apply (MI_incl _ _ _ _ _ Hi) in M. apply (Facts_incl _ _ _ _ _ Hi) in F. split; [|assumption].
      destruct M as [M1 M2 M3 M4 M5 M6]. constructor; simpl; try rewrite vc_add_proposal_h; auto.
      apply vc_cnt_add_proposal. assumption.
    - (* own prevote *)
      rewrite !app_nil_r.
      destruct (MI_own_vote m fed pvs pcs cms Prevote v M F) as [A B].
      { simpl. inversion Hm as [[E1 E2]]. rewrite E2. reflexivity. }
      inversion Hm as [[E1 E2]]. simpl in A, B. auto.
    - (* own precommit *)
      rewrite !app_nil_r.
      destruct (MI_own_vote m fed pvs pcs cms Precommit v M F) as [A B].
      { simpl. inversion Hm as [[E1 E2]]. rewrite E2. reflexivity. }
      inversion Hm as [[E1 E2]]. simpl in A, B. auto.
    - (* commit *)
      rewrite !app_nil_r. inversion Hm as [[E1 E2]]. apply chk_nil in E2.
      apply andb_prop in E2. destruct E2 as [E2 Cq]. apply andb_prop in E2. destruct E2 as [E2 _].
      apply andb3 in E2. destruct E2 as [Ch [Cf Cv]]. apply N.eqb_eq in Ch, Cf.
      destruct M as [M1 M2 M3 M4 M5 M6]. destruct F as [F1 F2 F3 F4]. split.
      + constructor; simpl; auto.
        * apply vc_all_start_new_height. assumption.
        * intros v H. specialize (M4 v H). lia.
        * intros v H. specialize (M5 v H). lia.
        * intros v H H2. specialize (M5 v H). lia.
      + constructor; auto. intros p0 Hp. apply in_app_or in Hp. destruct Hp as [Hp|[<-|[]]]; [auto|].
        repeat split; auto. unfold pcqF. rewrite Ch. eapply (quorum_meaning c vals _ _ _ _ _ Hok M1 Cq).
  Qed.

  Lemma MI_input : forall m fed pvs pcs i,
    MI m fed pvs pcs -> MI (mon_input c m i) (fed ++ msg_of_input i) pvs pcs.
  Proof.
    intros m fed pvs pcs i M.
    destruct i as [r|p|v|v|k h r]; simpl; try (rewrite app_nil_r; assumption).
    - assert (Hi : incl fed (fed ++ [MProp p])) by apply incl_app_l.
      apply (MI_incl _ _ _ _ _ Hi) in M. destruct M as [M1 M2 M3 M4 M5 M6].
      constructor; simpl; try rewrite vc_add_proposal_h; auto. apply vc_cnt_add_proposal. assumption.
    - assert (Hi : incl fed (fed ++ [MVote Prevote v])) by apply incl_app_l.
      apply (MI_incl _ _ _ _ _ Hi) in M. destruct M as [M1 M2 M3 M4 M5 M6].
      constructor; simpl; try rewrite vc_add_vote_h; auto.
      apply vc_cnt_add_vote; [apply in_or_app; right; left; reflexivity|assumption].
    - assert (Hi : incl fed (fed ++ [MVote Precommit v])) by apply incl_app_l.
      apply (MI_incl _ _ _ _ _ Hi) in M. destruct M as [M1 M2 M3 M4 M5 M6].
      constructor; simpl; try rewrite vc_add_vote_h; auto.
      apply vc_cnt_add_vote; [apply in_or_app; right; left; reflexivity|assumption].
  Qed.

  Lemma MI_actions : forall acts m fed pvs pcs cms m',
    MI m fed pvs pcs -> Facts fed pvs pcs cms -> mon_actions c m acts = (m', []) ->
    MI m' (fed ++ flat_map msg_of_action acts) (pvs ++ votes_of Prevote acts) (pcs ++ votes_of Precommit acts) /\
    Facts (fed ++ flat_map msg_of_action acts) (pvs ++ votes_of Prevote acts) (pcs ++ votes_of Precommit acts)
          (cms ++ flat_map cm_of acts).
  Proof.
    induction acts as [|a rest IH]; intros m fed pvs pcs cms m' M F H.
    - simpl in *. inversion H. subst. rewrite !app_nil_r. auto.
    - simpl in H. destruct (mon_action c m a) as [m1 e1] eqn:E1. destruct (mon_actions c m1 rest) as [m2 e2] eqn:E2.
      inversion H as [[H1 H2]]. apply app_eq_nil in H2. destruct H2 as [-> ->]. subst m2.
      destruct (MI_action _ _ _ _ _ _ _ M F E1) as [M1 F1].
      destruct (IH _ _ _ _ _ _ M1 F1 E2) as [M2 F2].
      rewrite !(votes_of_cons _ a rest). simpl flat_map. rewrite !app_assoc. auto.
  Qed.

  Definition fed_of (evs : list event) : list msg :=
    flat_map (fun e => msg_of_input (fst e) ++ flat_map msg_of_action (snd e)) evs.

  Lemma votes_of_app : forall k a b, votes_of k (a ++ b) = votes_of k a ++ votes_of k b.
  Proof. intros. unfold votes_of. apply flat_map_app. Qed.

  Lemma MI_events : forall evs m fed pvs pcs cms m',
    MI m fed pvs pcs -> Facts fed pvs pcs cms -> mon_events c m evs = (m', []) ->
    Facts (fed ++ fed_of evs) (pvs ++ votes_of Prevote (all_actions evs))
          (pcs ++ votes_of Precommit (all_actions evs)) (cms ++ flat_map cm_of (all_actions evs)).
  Proof.
    induction evs as [|[i acts] rest IH]; intros m fed pvs pcs cms m' M F H.
    - simpl in *. rewrite !app_nil_r. assumption.
    - simpl in H. destruct (mon_actions c (mon_input c m i) acts) as [m1 e1] eqn:E1.
      destruct (mon_events c m1 rest) as [m2 e2] eqn:E2.
      inversion H as [[H1 H2]]. apply app_eq_nil in H2. destruct H2 as [-> ->]. subst m2.
      pose proof (MI_input _ _ _ _ i M) as M0.
      assert (F0 : Facts (fed ++ msg_of_input i) pvs pcs cms) by (eapply Facts_incl; [apply incl_app_l|assumption]).
      destruct (MI_actions _ _ _ _ _ _ _ M0 F0 E1) as [M1 F1].
      pose proof (IH _ _ _ _ _ _ M1 F1 E2) as G.
      unfold all_actions, fed_of in *. simpl. rewrite !votes_of_app, !flat_map_app, !app_assoc in *. exact G.
  Qed.

  Theorem history_facts : forall h0 evs,
    audit c h0 evs = [] ->
    Facts (fed_of evs) (votes_of Prevote (all_actions evs)) (votes_of Precommit (all_actions evs))
          (flat_map cm_of (all_actions evs)).
  Proof.
    intros h0 evs H. unfold audit in H. destruct (mon_events c (mon_init h0) evs) as [m' e] eqn:E. simpl in H. subst e.
    apply (MI_events evs (mon_init h0) [] [] [] [] m'); [| |assumption].
    - constructor; simpl; try (intros; contradiction). apply vc_cnt_new.
    - constructor; intros; simpl in *; try contradiction. tauto.
  Qed.
End History.
