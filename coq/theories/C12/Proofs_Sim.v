(* C12 — "the same state" (st_sim) and the proof that one call of the state machine respects it.
   Two vote counters are similar when they are at the same height and hold the same round data in every cell
   (height >= current, round): association-list order, empty entries created by rejected messages, and the
   split current-rounds / future-height buffer are not observable.  Two states are similar when every scalar
   field (consensus variables, flags, lastTriggerSync, lastQuorum, number of Value() calls) agrees and the
   counters are similar.  Similar states return EQUAL action lists and go to similar states.
   (The development follows C13/Proofs_Obs.v, whose obs_eq leaves the sync bookkeeping out and therefore
   only gets the actions up to log writes / TriggerSync.) *)
From Coq Require Import List NArith ZArith Bool Lia ZifyN ZifyBool.
From V Require Import C12.Model.
Import ListNotations.
Open Scope N_scope.

(* ---------- association lists ---------- *)
Lemma aget_aset_N : forall {V} (l : list (N * V)) k v k',
  aget N.eqb (aset N.eqb l k v) k' = if k' =? k then Some v else aget N.eqb l k'.
Proof.
  induction l as [|[k0 v0] l IH]; intros k v k'; simpl.
  - reflexivity.
  - destruct (k =? k0) eqn:E; simpl.
    + apply N.eqb_eq in E. subst k0. destruct (k' =? k); reflexivity.
    + rewrite IH. destruct (k' =? k0) eqn:E2; [|reflexivity].
      apply N.eqb_eq in E2. subst k0. destruct (k' =? k) eqn:E3; [|reflexivity].
      apply N.eqb_eq in E3. subst. rewrite N.eqb_refl in E. discriminate.
Qed.
Lemma aget_aset_Z : forall {V} (l : list (Z * V)) k v k',
  aget Z.eqb (aset Z.eqb l k v) k' = if (k' =? k)%Z then Some v else aget Z.eqb l k'.
Proof.
  induction l as [|[k0 v0] l IH]; intros k v k'; simpl.
  - reflexivity.
  - destruct (k =? k0)%Z eqn:E; simpl.
    + apply Z.eqb_eq in E. subst k0. destruct (k' =? k)%Z; reflexivity.
    + rewrite IH. destruct (k' =? k0)%Z eqn:E2; [|reflexivity].
      apply Z.eqb_eq in E2. subst k0. destruct (k' =? k)%Z eqn:E3; [|reflexivity].
      apply Z.eqb_eq in E3. subst. rewrite Z.eqb_refl in E. discriminate.
Qed.
Lemma aget_adel_N : forall {V} (l : list (N * V)) k k',
  aget N.eqb (adel N.eqb l k) k' = if k' =? k then None else aget N.eqb l k'.
Proof.
  induction l as [|[k0 v0] l IH]; intros k k'; simpl.
  - destruct (k' =? k); reflexivity.
  - destruct (k =? k0) eqn:E; simpl.
    + apply N.eqb_eq in E. subst k0. rewrite IH. destruct (k' =? k); reflexivity.
    + rewrite IH. destruct (k' =? k0) eqn:E2; [|reflexivity].
      apply N.eqb_eq in E2. subst k0. destruct (k' =? k) eqn:E3; [|reflexivity].
      apply N.eqb_eq in E3. subst. rewrite N.eqb_refl in E. discriminate.
Qed.

Lemma rm_get_aset : forall m r x r', rm_get (aset Z.eqb m r x) r' = if (r' =? r)%Z then x else rm_get m r'.
Proof. intros. unfold rm_get. rewrite aget_aset_Z. destruct (r' =? r)%Z; reflexivity. Qed.

(* ---------- cells ---------- *)
Definition vrow (vc : vcounter) (h : N) : rmap := if h =? vc_h vc then vc_rounds vc else vfut vc h.
Lemma vcell_row : forall vc h r, vcell vc h r = rm_get (vrow vc h) r.
Proof. reflexivity. Qed.

Definition vc_sim (a b : vcounter) : Prop :=
  vc_h a = vc_h b /\ forall h r, vc_h a <= h -> vcell a h r = vcell b h r.

Lemma vc_sim_refl : forall a, vc_sim a a.
Proof. split; auto. Qed.
Lemma vc_sim_sym : forall a b, vc_sim a b -> vc_sim b a.
Proof. intros a b [H1 H2]. split; [auto|]. intros h r Hh. symmetry. apply H2. lia. Qed.
Lemma vc_sim_trans : forall a b c, vc_sim a b -> vc_sim b c -> vc_sim a c.
Proof. intros a b c [H1 H2] [H3 H4]. split; [congruence|]. intros h r Hh. rewrite H2, H4; auto. lia. Qed.

(* ---------- writes ---------- *)
Lemma vc_with_spec : forall vc h r f, vc_h vc <= h ->
  vc_h (fst (vc_with vc h r f)) = vc_h vc /\
  snd (vc_with vc h r f) = snd (f (vcell vc h r)) /\
  forall h' r', vc_h vc <= h' ->
    vcell (fst (vc_with vc h r f)) h' r' = if (h' =? h) && (r' =? r)%Z then fst (f (vcell vc h r)) else vcell vc h' r'.
Proof.
  intros vc h r f Hh. unfold vc_with. destruct (h <? vc_h vc) eqn:E1; [lia|].
  destruct (h =? vc_h vc) eqn:E2.
  - apply N.eqb_eq in E2. subst h.
    assert (C : vcell vc (vc_h vc) r = rm_get (vc_rounds vc) r) by (unfold vcell; rewrite N.eqb_refl; reflexivity).
    rewrite C.
    destruct (f (rm_get (vc_rounds vc) r)) as [rd' ok] eqn:Ef. simpl. repeat split.
    intros h' r' Hh'. unfold vcell, vfut. simpl.
    destruct (h' =? vc_h vc) eqn:E3; simpl; [apply rm_get_aset|reflexivity].
  - assert (C : vcell vc h r = rm_get (vfut vc h) r) by (unfold vcell; rewrite E2; reflexivity).
    rewrite C. unfold vfut at 1 2.
    destruct (f (rm_get match aget N.eqb (vc_future vc) h with Some m => m | None => [] end r)) as [rd' ok] eqn:Ef.
    simpl. repeat split. intros h' r' Hh'. unfold vcell, vfut. simpl.
    destruct (h' =? vc_h vc) eqn:E3.
    + apply N.eqb_eq in E3. subst h'. rewrite N.eqb_sym, E2. reflexivity.
    + rewrite aget_aset_N. destruct (h' =? h) eqn:E4; simpl; [|reflexivity].
      apply N.eqb_eq in E4. subst h'. apply rm_get_aset.
Qed.

Lemma vc_with_low : forall vc h r f, h < vc_h vc -> vc_with vc h r f = (vc, false).
Proof. intros. unfold vc_with. destruct (h <? vc_h vc) eqn:E; [reflexivity|lia]. Qed.

Lemma vc_with_sim : forall a b h r f, vc_sim a b ->
  vc_sim (fst (vc_with a h r f)) (fst (vc_with b h r f)) /\ snd (vc_with a h r f) = snd (vc_with b h r f).
Proof.
  intros a b h r f [H1 H2]. destruct (N.lt_ge_cases h (vc_h a)) as [L|G].
  - rewrite !vc_with_low by lia. split; [split; assumption|reflexivity].
  - destruct (vc_with_spec a h r f G) as [A1 [A2 A3]].
    destruct (vc_with_spec b h r f ltac:(lia)) as [B1 [B2 B3]].
    split; [split|].
    + congruence.
    + intros h' r' Hh'. rewrite A1 in Hh'. rewrite A3, B3 by lia. rewrite (H2 h r G), (H2 h' r' Hh'). reflexivity.
    + rewrite A2, B2, (H2 h r G). reflexivity.
Qed.

Lemma vc_add_proposal_sim : forall c a b p, vc_sim a b ->
  vc_sim (fst (vc_add_proposal c a p)) (fst (vc_add_proposal c b p)) /\
  snd (vc_add_proposal c a p) = snd (vc_add_proposal c b p).
Proof. intros. unfold vc_add_proposal. apply vc_with_sim. assumption. Qed.
Lemma vc_add_vote_sim : forall c a b k v, vc_sim a b ->
  vc_sim (fst (vc_add_vote c a k v)) (fst (vc_add_vote c b k v)) /\
  snd (vc_add_vote c a k v) = snd (vc_add_vote c b k v).
Proof. intros. unfold vc_add_vote. apply vc_with_sim. assumption. Qed.

Lemma vc_start_new_height_sim : forall a b, vc_sim a b -> vc_sim (vc_start_new_height a) (vc_start_new_height b).
Proof.
  intros a b [H1 H2]. unfold vc_start_new_height. split; simpl; [congruence|].
  intros h r Hh.
  assert (X : forall v, vc_h v + 1 <= h ->
     vcell (mkVC (vc_h v + 1) (vfut v (vc_h v + 1)) (adel N.eqb (vc_future v) (vc_h v + 1))) h r = vcell v h r).
  { intros v Hv. unfold vcell, vfut. simpl. destruct (h =? vc_h v) eqn:E0; [lia|].
    destruct (h =? vc_h v + 1) eqn:E.
    - apply N.eqb_eq in E. subst h. reflexivity.
    - rewrite aget_adel_N, E. reflexivity. }
  unfold vfut in X. rewrite (X a Hh), (X b ltac:(lia)). apply H2. lia.
Qed.

(* ---------- reads ---------- *)
Lemma count_vote_empty : forall k id, r_count_vote r_empty k id = 0.
Proof. intros k [i|]; destruct k; reflexivity. Qed.

Lemma vc_proposal_cell : forall vc r, vc_proposal vc r = r_prop (vcell vc (vc_h vc) r).
Proof.
  intros. unfold vc_proposal, vcell, rm_get. rewrite N.eqb_refl.
  destruct (aget Z.eqb (vc_rounds vc) r); reflexivity.
Qed.

Section Reads.
  Variable c : cfg.
  Hypothesis Qpos : forall h, 0 < q_of (c_total c h).

  Lemma quorum_vote_cell : forall vc r k id,
    vc_has_quorum_vote c vc r k id = (vc_quorum c vc <=? r_count_vote (vcell vc (vc_h vc) r) k id).
  Proof.
    intros. unfold vc_has_quorum_vote, vcell, rm_get. rewrite N.eqb_refl.
    destruct (aget Z.eqb (vc_rounds vc) r); [reflexivity|].
    rewrite count_vote_empty. unfold vc_quorum. specialize (Qpos (vc_h vc)). lia.
  Qed.
  Lemma quorum_any_cell : forall vc r k,
    vc_has_quorum_any c vc r k = (vc_quorum c vc <=? r_count_any (vcell vc (vc_h vc) r) k).
  Proof.
    intros. unfold vc_has_quorum_any, vcell, rm_get. rewrite N.eqb_refl.
    destruct (aget Z.eqb (vc_rounds vc) r); [reflexivity|].
    assert (Z0 : r_count_any r_empty k = 0) by (destruct k; reflexivity). rewrite Z0.
    unfold vc_quorum. specialize (Qpos (vc_h vc)). lia.
  Qed.
  Lemma nonfaulty_cell : forall vc r,
    vc_has_nonfaulty_future c vc r = (vc_faulty c vc <? r_count_future (vcell vc (vc_h vc) r)).
  Proof.
    intros. unfold vc_has_nonfaulty_future, vcell, rm_get. rewrite N.eqb_refl.
    destruct (aget Z.eqb (vc_rounds vc) r); [reflexivity|].
    assert (Z0 : r_count_future r_empty = 0) by reflexivity. rewrite Z0. lia.
  Qed.
  Lemma future_quorum_cell : forall vc h r id, vc_h vc <= h ->
    vc_has_future_precommit_quorum c vc h r id = (vc_quorum c vc <=? r_count_vote (vcell vc h r) Precommit (Some id)).
  Proof.
    intros vc h r id Hh. unfold vc_has_future_precommit_quorum, vcell, vfut.
    destruct (h <? vc_h vc) eqn:E; [lia|]. reflexivity.
  Qed.

  Lemma vc_proposal_sim : forall a b r, vc_sim a b -> vc_proposal a r = vc_proposal b r.
  Proof. intros a b r [H1 H2]. rewrite !vc_proposal_cell, <- H1, H2 by lia. reflexivity. Qed.
  Lemma quorum_vote_sim : forall a b r k id, vc_sim a b -> vc_has_quorum_vote c a r k id = vc_has_quorum_vote c b r k id.
  Proof. intros a b r k id [H1 H2]. rewrite !quorum_vote_cell. unfold vc_quorum. rewrite <- H1, H2 by lia. reflexivity. Qed.
  Lemma quorum_any_sim : forall a b r k, vc_sim a b -> vc_has_quorum_any c a r k = vc_has_quorum_any c b r k.
  Proof. intros a b r k [H1 H2]. rewrite !quorum_any_cell. unfold vc_quorum. rewrite <- H1, H2 by lia. reflexivity. Qed.
  Lemma nonfaulty_sim : forall a b r, vc_sim a b -> vc_has_nonfaulty_future c a r = vc_has_nonfaulty_future c b r.
  Proof. intros a b r [H1 H2]. rewrite !nonfaulty_cell. unfold vc_faulty. rewrite <- H1, H2 by lia. reflexivity. Qed.
  Lemma future_quorum_sim : forall a b h r id, vc_sim a b ->
    vc_has_future_precommit_quorum c a h r id = vc_has_future_precommit_quorum c b h r id.
  Proof.
    intros a b h r id [H1 H2]. destruct (N.lt_ge_cases h (vc_h a)) as [L|G].
    - unfold vc_has_future_precommit_quorum. rewrite <- H1. destruct (h <? vc_h a) eqn:E; [reflexivity|lia].
    - rewrite !future_quorum_cell by lia. unfold vc_quorum. rewrite <- H1, H2 by lia. reflexivity.
  Qed.
End Reads.

(* ---------- states ---------- *)
Definition sscal (s : state) :=
  (s_h s, s_r s, s_step s, s_lv s, s_lr s, s_vv s, s_vr s, s_tpv s, s_tpc s, s_lvs s, s_started s,
   s_lts s, s_lq s, s_nval s).
Definition st_sim (s s' : state) : Prop := sscal s = sscal s' /\ vc_sim (s_vc s) (s_vc s').

Lemma st_sim_repl : forall s s', st_sim s s' -> s' = set_vc s (s_vc s').
Proof. intros s s' [H _]. destruct s'. unfold sscal, set_vc in *. simpl in *. inversion H. reflexivity. Qed.
Lemma st_sim_intro : forall s vc, vc_sim (s_vc s) vc -> st_sim s (set_vc s vc).
Proof. intros. split; [reflexivity|assumption]. Qed.
Lemma st_sim_refl : forall s, st_sim s s.
Proof. intros. split; [reflexivity|apply vc_sim_refl]. Qed.
Lemma st_sim_sym : forall a b, st_sim a b -> st_sim b a.
Proof. intros a b [H1 H2]. split; [auto|apply vc_sim_sym; assumption]. Qed.
Lemma st_sim_trans : forall a b c, st_sim a b -> st_sim b c -> st_sim a c.
Proof. intros a b c [H1 H2] [H3 H4]. split; [congruence|eapply vc_sim_trans; eassumption]. Qed.

(* bring a pair of similar states into the form (s, set_vc s vc') *)
Ltac norm_sim H :=
  match type of H with
  | st_sim ?s ?s' =>
      let Hv := fresh "Hv" in
      rewrite (st_sim_repl _ _ H); destruct H as [_ Hv];
      set (vc' := s_vc s') in *; clearbody vc'; clear s'
  end.

Section Respect.
  Variable c : cfg.
  Hypothesis Qpos : forall h, 0 < q_of (c_total c h).

  Lemma send_proposal_sim : forall s s' v, st_sim s s' ->
    st_sim (fst (send_proposal c s v)) (fst (send_proposal c s' v)) /\ snd (send_proposal c s v) = snd (send_proposal c s' v).
  Proof.
    intros s s' v H. norm_sim H. unfold send_proposal. simpl. split; [|reflexivity].
    split; [reflexivity|]. simpl. apply vc_add_proposal_sim. assumption.
  Qed.
  Lemma send_prevote_sim : forall s s' id, st_sim s s' ->
    st_sim (fst (send_prevote c s id)) (fst (send_prevote c s' id)) /\ snd (send_prevote c s id) = snd (send_prevote c s' id).
  Proof.
    intros s s' v H. norm_sim H. unfold send_prevote. simpl. split; [|reflexivity].
    split; [reflexivity|]. simpl. apply vc_add_vote_sim. assumption.
  Qed.
  Lemma send_precommit_sim : forall s s' id, st_sim s s' ->
    st_sim (fst (send_precommit c s id)) (fst (send_precommit c s' id)) /\ snd (send_precommit c s id) = snd (send_precommit c s' id).
  Proof.
    intros s s' v H. norm_sim H. unfold send_precommit. simpl. split; [|reflexivity].
    split; [reflexivity|]. simpl. apply vc_add_vote_sim. assumption.
  Qed.

  Lemma start_round_sim : forall s s' r, st_sim s s' ->
    st_sim (fst (start_round c s r)) (fst (start_round c s' r)) /\ snd (start_round c s r) = snd (start_round c s' r).
  Proof.
    intros s s' r H. pose proof H as [_ [Hh _]]. norm_sim H. unfold start_round. simpl in *. rewrite <- Hh.
    destruct (c_proposer c (vc_h (s_vc s)) r =? c_self c).
    - destruct (s_vv s); apply send_proposal_sim; split; try reflexivity; assumption.
    - split; [|reflexivity]. split; [reflexivity|assumption].
  Qed.

  Lemma upon_sims : forall s s', st_sim s s' ->
    (forall p, upon22 s' p = upon22 s p) /\ (forall p, upon28 c s' p = upon28 c s p) /\
    upon34 c s' = upon34 c s /\ (forall p, upon36 c s' p = upon36 c s p) /\ upon44 c s' = upon44 c s /\
    upon47 c s' = upon47 c s /\ (forall p, upon49 c s' p = upon49 c s p) /\ (forall r, upon55 c s' r = upon55 c s r) /\
    (forall r, vc_proposal (s_vc s') r = vc_proposal (s_vc s) r).
  Proof.
    intros s s' H. norm_sim H. apply vc_sim_sym in Hv.
    unfold upon22, upon28, upon34, upon36, upon44, upon47, upon49, upon55. simpl.
    repeat split; intros;
      rewrite ?(quorum_vote_sim c Qpos _ _ _ _ _ Hv), ?(quorum_any_sim c Qpos _ _ _ _ Hv),
              ?(nonfaulty_sim c _ _ _ Hv), ?(vc_proposal_sim _ _ _ Hv); reflexivity.
  Qed.

  Lemma select_sim : forall s s' rr, st_sim s s' -> select c s' rr = select c s rr.
  Proof.
    intros s s' rr H. destruct (upon_sims s s' H) as [E22 [E28 [E34 [E36 [E44 [E47 [E49 [E55 EP]]]]]]]].
    assert (Hr : s_r s' = s_r s) by (destruct H as [H _]; unfold sscal in H; inversion H; auto).
    assert (X : forall o, otest o (upon49 c s') = otest o (upon49 c s)) by (intros [p|]; simpl; auto).
    assert (Y : forall o, otest o (upon55 c s') = otest o (upon55 c s)) by (intros [p|]; simpl; auto).
    unfold select. destruct rr as [r0|]; rewrite Hr, !EP, E34, E44, E47, X, Y;
      (destruct (vc_proposal (s_vc s) (s_r s)) as [p|]; [|reflexivity]); rewrite E22, E28, E36; reflexivity.
  Qed.

  Lemma sscal_fields : forall s s', st_sim s s' ->
    s_h s' = s_h s /\ s_r s' = s_r s /\ s_step s' = s_step s /\ s_lr s' = s_lr s /\ s_lv s' = s_lv s /\
    s_started s' = s_started s /\ s_vv s' = s_vv s /\ s_vr s' = s_vr s /\ s_lts s' = s_lts s /\ s_lq s' = s_lq s.
  Proof. intros s s' [H _]. unfold sscal in H. inversion H. repeat split; auto. Qed.

  Lemma do22_sim : forall s s' p, st_sim s s' ->
    st_sim (fst (do22 c s p)) (fst (do22 c s' p)) /\ snd (do22 c s p) = snd (do22 c s' p).
  Proof.
    intros s s' p H. destruct (sscal_fields s s' H) as [_ [_ [_ [Elr [Elv _]]]]].
    unfold do22, lock_matches. rewrite Elr, Elv. apply send_prevote_sim. exact H.
  Qed.
  Lemma do28_sim : forall s s' p, st_sim s s' ->
    st_sim (fst (do28 c s p)) (fst (do28 c s' p)) /\ snd (do28 c s p) = snd (do28 c s' p).
  Proof.
    intros s s' p H. destruct (sscal_fields s s' H) as [_ [_ [_ [Elr [Elv _]]]]].
    unfold do28, lock_matches. rewrite Elr, Elv. apply send_prevote_sim. exact H.
  Qed.
  Lemma do36_sim : forall s s' p, st_sim s s' ->
    st_sim (fst (do36 c s p)) (fst (do36 c s' p)) /\ snd (do36 c s p) = snd (do36 c s' p).
  Proof.
    intros s s' p H. destruct (sscal_fields s s' H) as [_ [_ [Est _]]]. unfold do36. rewrite Est. clear Est.
    destruct (step_eqb (s_step s) SPrevote).
    - assert (L : st_sim (set_lock s (p_val p)) (set_lock s' (p_val p))).
      { norm_sim H. split; [reflexivity|exact Hv]. }
      destruct (send_precommit_sim _ _ (Some (pid c p)) L) as [A B].
      destruct (send_precommit c (set_lock s (p_val p)) _) as [s1 a1], (send_precommit c (set_lock s' (p_val p)) _) as [s2 a2].
      simpl in *. subst. split; [|reflexivity]. destruct A as [A1 A2]. split; [|exact A2].
      unfold sscal in *. inversion A1. unfold set_valid. simpl. congruence.
    - simpl. split; [|reflexivity]. norm_sim H. split; [reflexivity|exact Hv].
  Qed.

  Lemma apply_rule_sim' : forall s s' ru, st_sim s s' ->
    st_sim (fst (fst (apply_rule c s ru))) (fst (fst (apply_rule c s' ru))) /\
    snd (fst (apply_rule c s ru)) = snd (fst (apply_rule c s' ru)) /\
    snd (apply_rule c s ru) = snd (apply_rule c s' ru).
  Proof.
    intros s s' ru H. destruct ru; cbn [apply_rule].
    - destruct (do22_sim s s' p H) as [A B]. destruct (do22 c s p), (do22 c s' p). simpl in *. subst. auto.
    - destruct (do28_sim s s' p H) as [A B]. destruct (do28 c s p), (do28 c s' p). simpl in *. subst. auto.
    - norm_sim H. unfold do34. simpl. split; [split; [reflexivity|exact Hv]|split; reflexivity].
    - destruct (do36_sim s s' p H) as [A B]. destruct (do36 c s p), (do36 c s' p). simpl in *. subst. auto.
    - destruct (send_precommit_sim s s' None H) as [A B].
      destruct (send_precommit c s None), (send_precommit c s' None). simpl in *. subst. auto.
    - norm_sim H. unfold do47. simpl. split; [split; [reflexivity|exact Hv]|split; reflexivity].
    - norm_sim H. unfold do49. simpl. split; [split; [reflexivity|apply vc_start_new_height_sim; exact Hv]|split; reflexivity].
    - destruct (start_round_sim s s' r H) as [A B].
      destruct (start_round c s r), (start_round c s' r). simpl in *. subst. auto.
    - simpl. auto.
  Qed.

  Lemma loop_sim' : forall fuel s s' rr, st_sim s s' ->
    st_sim (fst (fst (loop c fuel s rr))) (fst (fst (loop c fuel s' rr))) /\
    snd (fst (loop c fuel s rr)) = snd (fst (loop c fuel s' rr)) /\
    snd (loop c fuel s rr) = snd (loop c fuel s' rr).
  Proof.
    induction fuel as [|n IH]; intros s s' rr H; cbn [loop]; [simpl; auto|].
    rewrite (select_sim s s' rr H).
    destruct (apply_rule_sim' s s' (select c s rr) H) as [A [B C]].
    destruct (apply_rule c s (select c s rr)) as [[s1 oa] cont], (apply_rule c s' (select c s rr)) as [[s1' oa'] cont'].
    simpl in A, B, C. subst oa' cont'. destruct cont; [|simpl; auto].
    destruct (IH s1 s1' rr A) as [A2 [B2 C2]].
    destruct (loop c n s1 rr) as [[s2 more] ex], (loop c n s1' rr) as [[s2' more'] ex']. simpl in *. subst. auto.
  Qed.

  Lemma on_timeout_sim : forall s s' k h r, st_sim s s' ->
    st_sim (fst (on_timeout c s k h r)) (fst (on_timeout c s' k h r)) /\
    snd (on_timeout c s k h r) = snd (on_timeout c s' k h r).
  Proof.
    intros s s' k h r H. destruct (sscal_fields s s' H) as [Eh [Er [Est _]]].
    unfold on_timeout. rewrite Eh, Er, Est. clear Eh Er Est. destruct k.
    - destruct ((s_h s =? h) && (s_r s =? r)%Z && step_eqb (s_step s) SPropose); [|simpl; auto].
      destruct (send_prevote_sim s s' None H) as [A B].
      destruct (send_prevote c s None), (send_prevote c s' None). simpl in *. subst. auto.
    - destruct ((s_h s =? h) && (s_r s =? r)%Z && step_eqb (s_step s) SPrevote); [|simpl; auto].
      destruct (send_precommit_sim s s' None H) as [A B].
      destruct (send_precommit c s None), (send_precommit c s' None). simpl in *. subst. auto.
    - destruct ((s_h s =? h) && (s_r s =? r)%Z); [|simpl; auto].
      destruct (start_round_sim s s' (r + 1)%Z H) as [A B].
      destruct (start_round c s (r + 1)%Z), (start_round c s' (r + 1)%Z). simpl in *. subst. auto.
  Qed.

  Lemma process_message_sim' : forall s s' w h r, st_sim s s' ->
    st_sim (fst (fst (process_message c s w h r))) (fst (fst (process_message c s' w h r))) /\
    snd (fst (process_message c s w h r)) = snd (fst (process_message c s' w h r)) /\
    snd (process_message c s w h r) = snd (process_message c s' w h r).
  Proof.
    intros s s' w h r H. destruct (sscal_fields s s' H) as [Eh _]. unfold process_message. rewrite Eh.
    destruct (negb (h =? s_h s)); [simpl; auto|].
    destruct (loop_sim' FUEL s s' (Some r) H) as [A [B C]].
    destruct (loop c FUEL s (Some r)) as [[s1 a1] e1], (loop c FUEL s' (Some r)) as [[s2 a2] e2]. simpl in *. subst. auto.
  Qed.

  Lemma set_vc_sim : forall s s' a b, st_sim s s' -> vc_sim a b -> st_sim (set_vc s a) (set_vc s' b).
  Proof. intros s s' a b H Hab. norm_sim H. split; [reflexivity|exact Hab]. Qed.

  Lemma trigger_sync_sim : forall s s' h, st_sim s s' ->
    st_sim (fst (trigger_sync s h)) (fst (trigger_sync s' h)) /\ snd (trigger_sync s h) = snd (trigger_sync s' h).
  Proof. intros s s' h H. norm_sim H. unfold trigger_sync. simpl. split; [split; [reflexivity|exact Hv]|reflexivity]. Qed.

  (* one call: similar states go to similar states and return the same actions *)
  Lemma step_x_sim : forall s s' i, st_sim s s' ->
    st_sim (fst (fst (step_x c s i))) (fst (fst (step_x c s' i))) /\
    snd (fst (step_x c s i)) = snd (fst (step_x c s' i)) /\
    snd (step_x c s i) = snd (step_x c s' i).
  Proof.
    intros s s' i H. destruct (sscal_fields s s' H) as [Eh [_ [_ [_ [_ [Est [_ [_ [Elts _]]]]]]]]].
    destruct i as [r|p|v|v|k h r]; unfold step_x.
    - rewrite Est. destruct (s_started s); [simpl; auto|].
      assert (H1 : st_sim (set_started s true) (set_started s' true)).
      { clear Eh Est Elts. norm_sim H. split; [reflexivity|exact Hv]. }
      destruct (start_round_sim _ _ r H1) as [A B].
      destruct (start_round c (set_started s true) r) as [s1 a], (start_round c (set_started s' true) r) as [s1' a'].
      simpl in A, B. subst a'.
      destruct (loop_sim' FUEL s1 s1' None A) as [A2 [B2 C2]].
      destruct (loop c FUEL s1 None) as [[s2 acts] ex], (loop c FUEL s1' None) as [[s2' acts'] ex'].
      simpl in *. subst acts' ex'. split; [exact A2|]. split; [|reflexivity].
      destruct A2 as [A2 _]. unfold sscal in A2. inversion A2. reflexivity.
    - destruct H as [Hs Hv]. destruct (vc_add_proposal_sim c _ _ p Hv) as [V1 V2].
      destruct (vc_add_proposal c (s_vc s) p) as [vc ok], (vc_add_proposal c (s_vc s') p) as [vc' ok']. simpl in V1, V2. subst ok'.
      assert (H1 : st_sim (set_vc s vc) (set_vc s' vc')) by (apply set_vc_sim; [split; assumption|exact V1]).
      assert (Es : s_started (set_vc s' vc') = s_started (set_vc s vc)) by (simpl; exact Est). rewrite Es.
      destruct (negb ok || negb (s_started (set_vc s vc))); [simpl; auto|].
      apply process_message_sim'. exact H1.
    - destruct H as [Hs Hv]. destruct (vc_add_vote_sim c _ _ Prevote v Hv) as [V1 V2].
      destruct (vc_add_vote c (s_vc s) Prevote v) as [vc ok], (vc_add_vote c (s_vc s') Prevote v) as [vc' ok']. simpl in V1, V2. subst ok'.
      assert (H1 : st_sim (set_vc s vc) (set_vc s' vc')) by (apply set_vc_sim; [split; assumption|exact V1]).
      assert (Es : s_started (set_vc s' vc') = s_started (set_vc s vc)) by (simpl; exact Est). rewrite Es.
      destruct (negb ok || negb (s_started (set_vc s vc))); [simpl; auto|].
      apply process_message_sim'. exact H1.
    - destruct H as [Hs Hv]. destruct (vc_add_vote_sim c _ _ Precommit v Hv) as [V1 V2].
      destruct (vc_add_vote c (s_vc s) Precommit v) as [vc ok], (vc_add_vote c (s_vc s') Precommit v) as [vc' ok']. simpl in V1, V2. subst ok'.
      assert (H1 : st_sim (set_vc s vc) (set_vc s' vc')) by (apply set_vc_sim; [split; assumption|exact V1]).
      assert (Es : s_started (set_vc s' vc') = s_started (set_vc s vc)) by (simpl; exact Est). rewrite Es.
      destruct (negb ok || negb (s_started (set_vc s vc))); [simpl; auto|].
      set (s1 := set_vc s vc) in *. set (s1' := set_vc s' vc') in *.
      assert (Eh1 : s_h s1' = s_h s1) by (simpl; exact Eh).
      assert (El1 : s_lts s1' = s_lts s1) by (simpl; exact Elts).
      assert (G : (match v_id v with
                   | Some id => (s_h s1' <? v_h v) && (s_lts s1' <? v_h v) && vc_has_future_precommit_quorum c (s_vc s1') (v_h v) (v_r v) id
                   | None => false end) =
                  (match v_id v with
                   | Some id => (s_h s1 <? v_h v) && (s_lts s1 <? v_h v) && vc_has_future_precommit_quorum c (s_vc s1) (v_h v) (v_r v) id
                   | None => false end)).
      { destruct (v_id v) as [id|]; [|reflexivity]. rewrite Eh1, El1.
        rewrite (future_quorum_sim c Qpos (s_vc s1') (s_vc s1)); [reflexivity|apply vc_sim_sym; exact V1]. }
      rewrite G. clear G.
      destruct (match v_id v with Some id => _ | None => false end).
      + destruct (trigger_sync_sim s1 s1' (v_h v) H1) as [A B].
        destruct (trigger_sync s1 (v_h v)), (trigger_sync s1' (v_h v)). simpl in *. subst. auto.
      + apply process_message_sim'. exact H1.
    - destruct (on_timeout_sim s s' k h r H) as [A B].
      destruct (on_timeout c s k h r) as [s1 a0], (on_timeout c s' k h r) as [s1' a0']. simpl in A, B. subst a0'.
      destruct (loop_sim' FUEL s1 s1' None A) as [A2 [B2 C2]].
      destruct (loop c FUEL s1 None) as [[s2 acts] ex], (loop c FUEL s1' None) as [[s2' acts'] ex'].
      simpl in *. subst. auto.
  Qed.

  Lemma step_sim_eq : forall s s' i, st_sim s s' ->
    st_sim (fst (step c s i)) (fst (step c s' i)) /\ snd (step c s i) = snd (step c s' i).
  Proof.
    intros s s' i H. destruct (step_x_sim s s' i H) as [A [B _]]. unfold step.
    destruct (step_x c s i) as [[a b] e], (step_x c s' i) as [[a' b'] e']. simpl in *. auto.
  Qed.
End Respect.
