(* C12 — the executable comparison st_sim_b (what the oracle evaluates on the live and the replayed model
   state) decides the similarity st_sim of Proofs_Sim.v; acts_eqb decides equality of action lists. *)
From Coq Require Import List NArith ZArith Bool Lia ZifyN ZifyBool.
From V Require Import C12.Model C12.Proofs C12.Proofs_Sim.
Import ListNotations.
Open Scope N_scope.

Lemma leqb_spec : forall {A} (eqb : A -> A -> bool), (forall x y, eqb x y = true <-> x = y) ->
  forall l1 l2, leqb eqb l1 l2 = true <-> l1 = l2.
Proof.
  intros A eqb H. induction l1 as [|x r1 IH]; intros [|y r2]; simpl; split; intro E; try discriminate; try reflexivity.
  - apply andb_prop in E. destruct E as [E1 E2]. apply H in E1. apply IH in E2. subst. reflexivity.
  - inversion E. subst. apply andb_true_intro. split; [apply H; reflexivity|apply IH; reflexivity].
Qed.

Lemma bool_eqb_spec : forall a b, Bool.eqb a b = true <-> a = b.
Proof. intros [] []; simpl; split; intro; try reflexivity; try discriminate. Qed.

Lemma bal_eqb_spec : forall a b, bal_eqb a b = true <-> a = b.
Proof.
  intros [a1 a2] [b1 b2]. unfold bal_eqb. simpl. rewrite andb_true_iff, !bool_eqb_spec. split.
  - intros [-> ->]. reflexivity.
  - intro E. inversion E. auto.
Qed.

Lemma pair_N_spec : forall {B} (eqb : B -> B -> bool), (forall x y, eqb x y = true <-> x = y) ->
  forall x y : N * B, ((fst x =? fst y) && eqb (snd x) (snd y)) = true <-> x = y.
Proof.
  intros B eqb H [x1 x2] [y1 y2]. simpl. rewrite andb_true_iff, N.eqb_eq, H. split.
  - intros [-> ->]. reflexivity.
  - intro E. inversion E. auto.
Qed.

Lemma bs_eqb_spec : forall a b, bs_eqb a b = true <-> a = b.
Proof.
  intros [l1 v1 c1 t1] [l2 v2 c2 t2]. unfold bs_eqb. simpl.
  rewrite !andb_true_iff, !N.eqb_eq, (leqb_spec _ (pair_N_spec _ bal_eqb_spec)). split.
  - intros [[[-> ->] ->] ->]. reflexivity.
  - intro E. inversion E. auto.
Qed.

Lemma proposal_eqb_spec : forall p q, proposal_eqb p q = true <-> p = q.
Proof.
  intros [h1 r1 f1 vr1 v1] [h2 r2 f2 vr2 v2]. unfold proposal_eqb. simpl.
  rewrite !andb_true_iff, !N.eqb_eq, !Z.eqb_eq. split.
  - intros [[[[-> ->] ->] ->] ->]. reflexivity.
  - intro E. inversion E. auto.
Qed.

Lemma opr_eqb_spec : forall a b, opr_eqb a b = true <-> a = b.
Proof.
  intros [p|] [q|]; simpl; try (split; intro; [discriminate|discriminate]); try (split; reflexivity).
  rewrite proposal_eqb_spec. split; [intros ->; reflexivity|intro E; inversion E; reflexivity].
Qed.

Lemma rd_eqb_spec : forall a b, rd_eqb a b = true <-> a = b.
Proof.
  intros [p1 u1 i1 n1 a1] [p2 u2 i2 n2 a2]. unfold rd_eqb. simpl.
  rewrite !andb_true_iff, N.eqb_eq, opr_eqb_spec, !bs_eqb_spec, (leqb_spec _ (pair_N_spec _ bs_eqb_spec)). split.
  - intros [[[[-> ->] ->] ->] ->]. reflexivity.
  - intro E. inversion E. auto 10.
Qed.

(* ---------- every cell that is not empty has its key listed ---------- *)
Lemma aget_Z_key : forall (m : rmap) r, aget Z.eqb m r = None \/ In r (map fst m).
Proof.
  induction m as [|[r0 rd0] m IH]; intros r; simpl; [left; reflexivity|].
  destruct (r =? r0)%Z eqn:E; [right; left; apply Z.eqb_eq in E; auto|].
  destruct (IH r) as [H|H]; [left; exact H|right; right; exact H].
Qed.

Lemma vcell_key : forall vc h r, vcell vc h r = r_empty \/ In (h, r) (vc_keys vc).
Proof.
  intros vc h r. unfold vcell, vc_keys. destruct (h =? vc_h vc) eqn:E.
  - apply N.eqb_eq in E. subst h. destruct (aget_Z_key (vc_rounds vc) r) as [H|H].
    + left. unfold rm_get. rewrite H. reflexivity.
    + right. apply in_or_app. left. apply in_map_iff in H. destruct H as [[r' rd] [E1 E2]]. simpl in E1. subst r'.
      apply in_map_iff. exists (r, rd). auto.
  - unfold vfut. destruct (aget N.eqb (vc_future vc) h) as [m|] eqn:Eg; [|left; reflexivity].
    destruct (aget_Z_key m r) as [H|H].
    + left. unfold rm_get. rewrite H. reflexivity.
    + right. apply in_or_app. right. apply in_flat_map. exists (h, m). split.
      * apply (aget_In N.eqb Neqb_eq). exact Eg.
      * simpl. apply in_map_iff in H. destruct H as [[r' rd] [E1 E2]]. simpl in E1. subst r'.
        apply in_map_iff. exists (r, rd). auto.
Qed.

Lemma vc_sim_b_spec : forall a b, vc_sim_b a b = true <-> vc_sim a b.
Proof.
  intros a b. unfold vc_sim_b, vc_sim. rewrite andb_true_iff, N.eqb_eq, forallb_forall. split.
  - intros [Hh Hk]. split; [exact Hh|]. intros h r Hge.
    assert (K : In (h, r) (vc_keys a ++ vc_keys b) -> vcell a h r = vcell b h r).
    { intro Hin. specialize (Hk _ Hin). simpl in Hk. apply orb_prop in Hk. destruct Hk as [Hk|Hk]; [lia|].
      apply rd_eqb_spec. exact Hk. }
    destruct (vcell_key a h r) as [Ea|Ia]; [|apply K, in_or_app; left; exact Ia].
    destruct (vcell_key b h r) as [Eb|Ib]; [|apply K, in_or_app; right; exact Ib].
    congruence.
  - intros [Hh Hc]. split; [exact Hh|]. intros [h r] _. simpl.
    destruct (h <? vc_h a) eqn:E; [reflexivity|]. simpl. apply rd_eqb_spec. apply Hc. lia.
Qed.

Lemma oval_eqb_spec : forall a b, oval_eqb a b = true <-> a = b.
Proof.
  intros [x|] [y|]; simpl; try (split; intro; discriminate); try (split; reflexivity).
  rewrite N.eqb_eq. split; [intros ->; reflexivity|intro E; inversion E; reflexivity].
Qed.

Lemma st_sim_b_spec : forall s s', st_sim_b s s' = true <-> st_sim s s'.
Proof.
  intros s s'. unfold st_sim_b, st_sim, sscal.
  rewrite !andb_true_iff, !N.eqb_eq, !Z.eqb_eq, !bool_eqb_spec, !oval_eqb_spec, step_eqb_eq, vc_sim_b_spec.
  split.
  - intros [[[[[[[[[[[[[[E1 E2] E3] E4] E5] E6] E7] E8] E9] E10] E11] E12] E13] E14] V].
    split; [congruence|exact V].
  - intros [E V]. inversion E. repeat split; auto; apply V.
Qed.

(* ---------- action lists ---------- *)
Lemma vote_fields_spec : forall v u,
  ((v_h v =? v_h u) && (v_r v =? v_r u)%Z && (v_from v =? v_from u) && oid_eqb (v_id v) (v_id u)) = true <-> v = u.
Proof.
  intros [h1 r1 f1 i1] [h2 r2 f2 i2]. simpl. rewrite !andb_true_iff, !N.eqb_eq, Z.eqb_eq.
  assert (O : oid_eqb i1 i2 = true <-> i1 = i2).
  { destruct i1, i2; simpl; try (split; intro; discriminate); try (split; reflexivity).
    rewrite N.eqb_eq. split; [intros ->; reflexivity|intro E; inversion E; reflexivity]. }
  rewrite O. split.
  - intros [[[-> ->] ->] ->]. reflexivity.
  - intro E. inversion E. auto.
Qed.

Lemma acts_eqb_spec : forall a b, acts_eqb a b = true <-> a = b.
Proof.
  induction a as [|x r1 IH]; intros [|y r2]; simpl; split; intro E; try discriminate; try reflexivity.
  - apply andb_prop in E. destruct E as [E1 E2]. apply IH in E2. subst r2. f_equal.
    destruct x, y; try discriminate;
      try (apply N.eqb_eq in E1; subst; reflexivity);
      try (apply proposal_eqb_spec in E1; subst; reflexivity);
      try (apply vote_fields_spec in E1; subst; reflexivity).
    + apply andb_prop in E1. destruct E1 as [E1 E3]. apply andb_prop in E1. destruct E1 as [E1 E4].
      apply step_eqb_eq in E1. apply N.eqb_eq in E4. apply Z.eqb_eq in E3. subst. reflexivity.
    + apply andb_prop in E1. destruct E1 as [E1 E3]. apply andb_prop in E1. destruct E1 as [E1 E4].
      apply step_eqb_eq in E1. apply N.eqb_eq in E4. apply Z.eqb_eq in E3. subst. reflexivity.
    + apply andb_prop in E1. destruct E1 as [E1 E3]. apply N.eqb_eq in E1, E3. subst. reflexivity.
  - inversion E. subst. apply andb_true_intro. split; [|apply IH; reflexivity].
    destruct y; try (apply N.eqb_refl); try (apply proposal_eqb_spec; reflexivity); try (apply vote_fields_spec; reflexivity).
    + rewrite (proj2 (step_eqb_eq k k) eq_refl), N.eqb_refl, Z.eqb_refl. reflexivity.
    + rewrite (proj2 (step_eqb_eq k k) eq_refl), N.eqb_refl, Z.eqb_refl. reflexivity.
    + rewrite !N.eqb_refl. reflexivity.
Qed.
