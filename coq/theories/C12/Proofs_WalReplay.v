(* C12 — replaying the log a run wrote reaches the same state (C12_wal_replay_same_state).
   Part 1: an invariant of the vote counter (rd_wf) under which a REJECTED vote / proposal (AddPrevote /
   AddPrecommit / AddProposal returned false, nothing is logged) leaves every cell of the counter as it was.
   Part 2: under the log discipline (Model.wal_ok_input) every call either logs exactly one entry whose replay
   is the same call, or logs nothing, returns nothing and leaves the state similar.
   Part 3: induction over the run, with Proofs_Sim.step_sim_eq carrying similarity through the replay. *)
From Coq Require Import List NArith ZArith Bool Lia ZifyN ZifyBool.
From V Require Import C12.Model C12.Proofs C12.Proofs_Sim C12.Proofs_SimB C12.Proofs_Calls.
Import ListNotations.
Open Scope N_scope.

(* ================= part 1: ballots ================= *)
Definition bal (b : bset) (a : addr) : ballot :=
  match aget N.eqb (b_bal b) a with Some x => x | None => (false, false) end.

Lemma bit_setbit : forall x k k', bit (setbit x k) k' = bit x k' || vkind_eqb k' k.
Proof. intros [x1 x2] [] []; simpl; rewrite ?orb_true_r, ?orb_false_r; reflexivity. Qed.

Definition balL (l : list (addr * ballot)) (a : addr) : ballot :=
  match aget N.eqb l a with Some x => x | None => (false, false) end.
Lemma bal_balL : forall b a, bal b a = balL (b_bal b) a.
Proof. reflexivity. Qed.
Lemma balL_aset : forall l a x a', balL (aset N.eqb l a x) a' = if a' =? a then x else balL l a'.
Proof. intros. unfold balL. rewrite aget_aset_N. destruct (a' =? a); reflexivity. Qed.

Lemma b_add_bal : forall b a pw k,
  b_bal (fst (b_add b a pw k)) =
  let l1 := match aget N.eqb (b_bal b) a with Some _ => b_bal b | None => aset N.eqb (b_bal b) a (false, false) end in
  if bit (balL l1 a) k then l1 else aset N.eqb l1 a (setbit (balL l1 a) k).
Proof.
  intros [l pv pc t] a pw k. unfold b_add, balL. cbn [b_bal].
  destruct (aget N.eqb l a) as [x|] eqn:E; cbn [b_bal].
  - rewrite E. destruct (bit x k); reflexivity.
  - rewrite aget_aset_N, N.eqb_refl. destruct (bit (false, false) k); reflexivity.
Qed.

Lemma b_add_bits : forall b a pw k a' k',
  bit (bal (fst (b_add b a pw k)) a') k' = bit (bal b a') k' || ((a' =? a) && vkind_eqb k' k).
Proof.
  intros b a pw k a' k'. rewrite !bal_balL, b_add_bal. cbv zeta.
  set (l := b_bal b).
  assert (L1 : forall x, balL match aget N.eqb l a with Some _ => l | None => aset N.eqb l a (false, false) end x = balL l x).
  { intro x. destruct (aget N.eqb l a) eqn:E; [reflexivity|]. rewrite balL_aset.
    destruct (x =? a) eqn:Ex; [|reflexivity]. apply N.eqb_eq in Ex. subst x. unfold balL. rewrite E. reflexivity. }
  set (l1 := match aget N.eqb l a with Some _ => l | None => aset N.eqb l a (false, false) end) in *.
  destruct (bit (balL l1 a) k) eqn:Ex.
  - rewrite L1. destruct (a' =? a) eqn:Ea; [|rewrite orb_false_r; reflexivity].
    apply N.eqb_eq in Ea. subst a'. destruct (vkind_eqb k' k) eqn:Ek; [|rewrite orb_false_r; reflexivity].
    assert (k' = k) by (destruct k, k'; simpl in Ek; try discriminate; reflexivity). subst k'.
    rewrite L1 in Ex. rewrite Ex. reflexivity.
  - rewrite balL_aset. destruct (a' =? a) eqn:Ea.
    + apply N.eqb_eq in Ea. subst a'. rewrite bit_setbit, L1. reflexivity.
    + rewrite L1, orb_false_r. reflexivity.
Qed.

Lemma b_add_snd : forall b a pw k, snd (b_add b a pw k) = negb (bit (bal b a) k).
Proof.
  intros [l pv pc t] a pw k. unfold b_add, bal. simpl. destruct (aget N.eqb l a) as [x|] eqn:E.
  - simpl. rewrite E. destruct (bit x k); reflexivity.
  - simpl. rewrite aget_aset_N, N.eqb_refl. destruct k; reflexivity.
Qed.

Lemma b_add_noop : forall b a pw k, bit (bal b a) k = true -> fst (b_add b a pw k) = b.
Proof.
  intros [l pv pc t] a pw k H. unfold b_add, bal in *. simpl in *. destruct (aget N.eqb l a) as [x|] eqn:E.
  - simpl. rewrite E, H. reflexivity.
  - destruct k; discriminate.
Qed.

Lemma bal_empty : forall a, bal b_empty a = (false, false).
Proof. reflexivity. Qed.

(* association lists: writing back what is there changes nothing *)
Lemma aset_same_N : forall {V} (l : list (N * V)) k v, aget N.eqb l k = Some v -> aset N.eqb l k v = l.
Proof.
  induction l as [|[k0 v0] l IH]; intros k v H; simpl in *; [discriminate|].
  destruct (k =? k0) eqn:E.
  - apply N.eqb_eq in E. inversion H. subst. reflexivity.
  - rewrite IH by assumption. reflexivity.
Qed.

(* ================= round data ================= *)
Definition rd_wf (rd : rdata) : Prop :=
  (forall id b a k, aget N.eqb (r_ids rd) id = Some b -> bit (bal b a) k = true -> bit (bal (r_all rd) a) k = true) /\
  (forall a k, bit (bal (r_nil rd) a) k = true -> bit (bal (r_all rd) a) k = true) /\
  (0 < r_unc rd -> exists p, r_prop rd = Some p /\ bal (r_all rd) (p_from p) = (false, false)).

Lemma rd_wf_empty : rd_wf r_empty.
Proof.
  split; [|split].
  - intros id b a k H. discriminate.
  - intros a k H. destruct k; discriminate.
  - simpl. lia.
Qed.

Lemma r_set_proposal_wf : forall rd p pw, rd_wf rd -> rd_wf (fst (r_set_proposal rd p pw)).
Proof.
  intros rd p pw W. unfold r_set_proposal. destruct (r_prop rd) eqn:E; [exact W|]. destruct W as [W1 [W2 W3]].
  simpl. split; [exact W1|]. split; [exact W2|]. simpl.
  assert (U0 : r_unc rd = 0).
  { destruct (N.eq_dec (r_unc rd) 0) as [Z|NZ]; [assumption|]. destruct W3 as [q [Hq _]]; [lia|congruence]. }
  intros Hpos. exists p. split; [reflexivity|].
  unfold bal. destruct (aget N.eqb (b_bal (r_all rd)) (p_from p)) as [[x1 x2]|]; [|reflexivity].
  simpl in Hpos. destruct x1, x2; simpl in Hpos; try reflexivity; lia.
Qed.

Lemma r_set_proposal_reject : forall rd p pw, snd (r_set_proposal rd p pw) = false -> fst (r_set_proposal rd p pw) = rd.
Proof. intros rd p pw. unfold r_set_proposal. destruct (r_prop rd); simpl; [reflexivity|discriminate]. Qed.

Lemma r_add_vote_wf : forall rd v pw k, rd_wf rd -> rd_wf (fst (r_add_vote rd v pw k)).
Proof.
  intros rd v pw k [W1 [W2 W3]]. unfold r_add_vote.
  set (unc := if (0 <? r_unc rd) && match r_prop rd with Some p => p_from p =? v_from v | None => false end
              then 0 else r_unc rd).
  set (all' := fst (b_add (r_all rd) (v_from v) pw k)).
  assert (Mono : forall a k0, bit (bal (r_all rd) a) k0 = true -> bit (bal all' a) k0 = true).
  { intros a k0 H. unfold all'. rewrite b_add_bits, H. reflexivity. }
  assert (New : forall b a k0, bit (bal (fst (b_add b (v_from v) pw k)) a) k0 = true ->
                bit (bal b a) k0 = true \/ bit (bal all' a) k0 = true).
  { intros b a k0 H. rewrite b_add_bits in H. apply orb_prop in H. destruct H as [H|H]; [left; exact H|].
    right. unfold all'. rewrite b_add_bits, H. apply orb_true_r. }
  assert (U : 0 < unc -> exists p, r_prop rd = Some p /\ bal all' (p_from p) = (false, false)).
  { unfold unc. intros Hpos. destruct (0 <? r_unc rd) eqn:E0; [|simpl in Hpos; apply N.ltb_ge in E0; lia].
    destruct W3 as [p [Hp Hb]]; [apply N.ltb_lt; exact E0|]. rewrite Hp in Hpos. simpl in Hpos.
    destruct (p_from p =? v_from v) eqn:Ef; [lia|]. exists p. split; [exact Hp|].
    assert (B : forall k0, bit (bal all' (p_from p)) k0 = false).
    { intro k0. unfold all'. rewrite b_add_bits, Hb, Ef. destruct k0; reflexivity. }
    pose proof (B Prevote) as B1. pose proof (B Precommit) as B2.
    destruct (bal all' (p_from p)) as [x1 x2]. simpl in *. subst. reflexivity. }
  destruct (v_id v) as [id|].
  - set (pv := match aget N.eqb (r_ids rd) id with Some b => b | None => b_empty end).
    destruct (b_add pv (v_from v) pw k) as [pv' ok] eqn:Eb. simpl.
    assert (Epv : pv' = fst (b_add pv (v_from v) pw k)) by (rewrite Eb; reflexivity).
    split; [|split]; simpl.
    + intros id' b a k0 Hg Hbit. rewrite aget_aset_N in Hg. destruct (id' =? id) eqn:Ei.
      * inversion Hg. subst b. rewrite Epv in Hbit. destruct (New _ _ _ Hbit) as [H|H]; [|exact H].
        apply Mono. unfold pv in H. destruct (aget N.eqb (r_ids rd) id) as [b0|] eqn:Eg.
        -- eapply W1; eauto.
        -- rewrite bal_empty in H. destruct k0; discriminate.
      * apply Mono. eapply W1; eauto.
    + intros a k0 H. apply Mono. apply W2. exact H.
    + exact U.
  - destruct (b_add (r_nil rd) (v_from v) pw k) as [n' ok] eqn:Eb. simpl.
    assert (En : n' = fst (b_add (r_nil rd) (v_from v) pw k)) by (rewrite Eb; reflexivity).
    split; [|split]; simpl.
    + intros id' b a k0 Hg Hbit. apply Mono. eapply W1; eauto.
    + intros a k0 H. rewrite En in H. destruct (New _ _ _ H) as [H'|H']; [apply Mono, W2; exact H'|exact H'].
    + exact U.
Qed.

Lemma rdata_eta : forall rd, mkR (r_prop rd) (r_unc rd) (r_ids rd) (r_nil rd) (r_all rd) = rd.
Proof. intros []. reflexivity. Qed.

(* AddPrevote / AddPrecommit returned false: the round data is untouched *)
Lemma r_add_vote_reject : forall rd v pw k, rd_wf rd ->
  snd (r_add_vote rd v pw k) = false -> fst (r_add_vote rd v pw k) = rd.
Proof.
  intros rd v pw k [W1 [W2 W3]]. unfold r_add_vote.
  assert (Key : forall b, (b = r_nil rd \/ exists id, aget N.eqb (r_ids rd) id = Some b) ->
                snd (b_add b (v_from v) pw k) = false ->
                fst (b_add b (v_from v) pw k) = b /\
                fst (b_add (r_all rd) (v_from v) pw k) = r_all rd /\
                (if (0 <? r_unc rd) && match r_prop rd with Some p => p_from p =? v_from v | None => false end
                 then 0 else r_unc rd) = r_unc rd).
  { intros b Hb Hs. rewrite b_add_snd in Hs. apply negb_false_iff in Hs.
    assert (HA : bit (bal (r_all rd) (v_from v)) k = true).
    { destruct Hb as [->|[id Hid]]; [apply W2; exact Hs|eapply W1; eauto]. }
    split; [apply b_add_noop; exact Hs|]. split; [apply b_add_noop; exact HA|].
    destruct (0 <? r_unc rd) eqn:E0; [|reflexivity]. destruct W3 as [p [Hp Hz]]; [apply N.ltb_lt; exact E0|].
    rewrite Hp. simpl. destruct (p_from p =? v_from v) eqn:Ef; [|reflexivity].
    apply N.eqb_eq in Ef. rewrite Ef in Hz. rewrite Hz in HA. destruct k; discriminate. }
  destruct (v_id v) as [id|].
  - destruct (aget N.eqb (r_ids rd) id) as [b0|] eqn:Eg.
    + destruct (b_add b0 (v_from v) pw k) as [pv' ok] eqn:Eb. simpl. intros Hok. subst ok.
      destruct (Key b0) as [K1 [K2 K3]]; [right; eauto|rewrite Eb; reflexivity|].
      rewrite Eb in K1. simpl in K1. subst pv'. rewrite K2, K3, (aset_same_N _ _ _ Eg). apply rdata_eta.
    + destruct (b_add b_empty (v_from v) pw k) as [pv' ok] eqn:Eb. simpl. intros Hok. subst ok.
      exfalso. pose proof (b_add_snd b_empty (v_from v) pw k) as S. rewrite Eb in S. simpl in S.
      rewrite bal_empty in S. destruct k; discriminate.
  - destruct (b_add (r_nil rd) (v_from v) pw k) as [n' ok] eqn:Eb. simpl. intros Hok. subst ok.
    destruct (Key (r_nil rd)) as [K1 [K2 K3]]; [left; reflexivity|rewrite Eb; reflexivity|].
    rewrite Eb in K1. simpl in K1. subst n'. rewrite K2, K3. apply rdata_eta.
Qed.

(* ================= the counter: a property of every stored round data ================= *)
Section All.
  Variable P : rdata -> Prop.
  Hypothesis P_empty : P r_empty.

  Definition rm_all (m : rmap) : Prop := forall r rd, aget Z.eqb m r = Some rd -> P rd.
  Definition vc_all (vc : vcounter) : Prop :=
    rm_all (vc_rounds vc) /\ forall h m, aget N.eqb (vc_future vc) h = Some m -> rm_all m.

  Lemma rm_all_nil : rm_all [].
  Proof. intros r rd H. discriminate. Qed.
  Lemma rm_get_all : forall m r, rm_all m -> P (rm_get m r).
  Proof. intros m r H. unfold rm_get. destruct (aget Z.eqb m r) eqn:E; [eapply H; eauto|exact P_empty]. Qed.
  Lemma rm_all_aset : forall m r rd, rm_all m -> P rd -> rm_all (aset Z.eqb m r rd).
  Proof.
    intros m r rd Hm Hrd r' rd' H. rewrite aget_aset_Z in H. destruct (r' =? r)%Z; [inversion H; subst; exact Hrd|eapply Hm; eauto].
  Qed.
  Lemma vfut_all : forall vc h, vc_all vc -> rm_all (vfut vc h).
  Proof. intros vc h [_ Hf]. unfold vfut. destruct (aget N.eqb (vc_future vc) h) eqn:E; [eapply Hf; eauto|apply rm_all_nil]. Qed.
  Lemma vcell_all : forall vc h r, vc_all vc -> P (vcell vc h r).
  Proof.
    intros vc h r H. unfold vcell. apply rm_get_all. destruct (h =? vc_h vc); [exact (proj1 H)|apply vfut_all; exact H].
  Qed.

  Lemma vc_with_all : forall vc h r f, (forall rd, P rd -> P (fst (f rd))) -> vc_all vc -> vc_all (fst (vc_with vc h r f)).
  Proof.
    intros vc h r f Hf H. pose proof H as [Hc Hfu]. unfold vc_with.
    destruct (h <? vc_h vc); [exact H|]. destruct (h =? vc_h vc) eqn:E.
    - pose proof (Hf _ (rm_get_all _ r Hc)) as H1. destruct (f (rm_get (vc_rounds vc) r)) as [rd' ok]. simpl in *.
      split; simpl; [apply rm_all_aset; assumption|assumption].
    - pose proof (vfut_all vc h H) as Hm. unfold vfut in Hm.
      set (m := match aget N.eqb (vc_future vc) h with Some m => m | None => [] end) in *.
      pose proof (Hf _ (rm_get_all _ r Hm)) as H1. destruct (f (rm_get m r)) as [rd' ok]. simpl in *.
      split; simpl; [assumption|]. intros h' m' Hg. rewrite aget_aset_N in Hg. destruct (h' =? h).
      + inversion Hg. subst. apply rm_all_aset; assumption.
      + eapply Hfu; eauto.
  Qed.

  Lemma vc_start_new_height_all : forall vc, vc_all vc -> vc_all (vc_start_new_height vc).
  Proof.
    intros vc H. pose proof H as [Hc Hf]. unfold vc_start_new_height. split; simpl.
    - apply (vfut_all vc (vc_h vc + 1) H).
    - intros h m Hg. rewrite aget_adel_N in Hg. destruct (h =? vc_h vc + 1); [discriminate|]. eapply Hf; eauto.
  Qed.
End All.

Definition vc_wf (vc : vcounter) : Prop := vc_all rd_wf vc.

Lemma vc_wf_new : forall h, vc_wf (vc_new h).
Proof. intro h. split; simpl; [apply rm_all_nil|intros h' m H; discriminate]. Qed.

Lemma vc_add_proposal_wf : forall c vc p, vc_wf vc -> vc_wf (fst (vc_add_proposal c vc p)).
Proof.
  intros c vc p H. unfold vc_add_proposal. apply vc_with_all; [exact rd_wf_empty| |exact H].
  intros rd W. destruct (negb (p_from p =? c_proposer c (p_h p) (p_r p))); [exact W|apply r_set_proposal_wf; exact W].
Qed.
Lemma vc_add_vote_wf : forall c vc k v, vc_wf vc -> vc_wf (fst (vc_add_vote c vc k v)).
Proof.
  intros c vc k v H. unfold vc_add_vote. apply vc_with_all; [exact rd_wf_empty| |exact H].
  intros rd W. apply r_add_vote_wf. exact W.
Qed.

(* a rejected message leaves every cell as it was *)
Lemma vc_with_reject : forall vc h r f,
  (forall rd, rd_wf rd -> snd (f rd) = false -> fst (f rd) = rd) -> vc_wf vc ->
  snd (vc_with vc h r f) = false -> vc_sim vc (fst (vc_with vc h r f)).
Proof.
  intros vc h r f Hf W Hs. destruct (N.lt_ge_cases h (vc_h vc)) as [L|G].
  - rewrite vc_with_low by assumption. apply vc_sim_refl.
  - destruct (vc_with_spec vc h r f G) as [A1 [A2 A3]]. rewrite A2 in Hs.
    pose proof (Hf _ (vcell_all rd_wf rd_wf_empty vc h r W) Hs) as E.
    split; [symmetry; exact A1|]. intros h' r' Hh'. rewrite A3 by assumption. rewrite E.
    destruct ((h' =? h) && (r' =? r)%Z) eqn:B; [|reflexivity].
    apply andb_prop in B. destruct B as [B1 B2]. apply N.eqb_eq in B1. apply Z.eqb_eq in B2. subst. reflexivity.
Qed.

Lemma vc_add_proposal_reject : forall c vc p, vc_wf vc ->
  snd (vc_add_proposal c vc p) = false -> vc_sim vc (fst (vc_add_proposal c vc p)).
Proof.
  intros c vc p W. unfold vc_add_proposal. apply vc_with_reject; [|exact W].
  intros rd _. destruct (negb (p_from p =? c_proposer c (p_h p) (p_r p))); [reflexivity|apply r_set_proposal_reject].
Qed.
Lemma vc_add_vote_reject : forall c vc k v, vc_wf vc ->
  snd (vc_add_vote c vc k v) = false -> vc_sim vc (fst (vc_add_vote c vc k v)).
Proof.
  intros c vc k v W. unfold vc_add_vote. apply vc_with_reject; [|exact W].
  intros rd Wr. apply r_add_vote_reject. exact Wr.
Qed.

(* ================= the state machine keeps the counter well-formed ================= *)
Section Keep.
  Variable c : cfg.
  Definition swf (s : state) : Prop := vc_wf (s_vc s).

  Lemma send_proposal_wf : forall s v, swf s -> swf (fst (send_proposal c s v)).
  Proof. intros s v H. unfold send_proposal, swf. simpl. apply vc_add_proposal_wf. exact H. Qed.
  Lemma send_prevote_wf : forall s id, swf s -> swf (fst (send_prevote c s id)).
  Proof. intros s v H. unfold send_prevote, swf. simpl. apply vc_add_vote_wf. exact H. Qed.
  Lemma send_precommit_wf : forall s id, swf s -> swf (fst (send_precommit c s id)).
  Proof. intros s v H. unfold send_precommit, swf. simpl. apply vc_add_vote_wf. exact H. Qed.
  Lemma start_round_wf : forall s r, swf s -> swf (fst (start_round c s r)).
  Proof.
    intros s r H. unfold start_round. destruct (c_proposer c _ r =? c_self c).
    - destruct (s_vv (reset_state s r)); apply send_proposal_wf; exact H.
    - exact H.
  Qed.
  Lemma apply_rule_wf : forall s ru, swf s -> swf (fst (fst (apply_rule c s ru))).
  Proof.
    intros s ru H. destruct ru; cbn [apply_rule].
    - unfold do22. destruct (send_prevote c s _) as [s1 a] eqn:E. simpl.
      change s1 with (fst (s1, a)). rewrite <- E. apply send_prevote_wf. exact H.
    - unfold do28. destruct (send_prevote c s _) as [s1 a] eqn:E. simpl.
      change s1 with (fst (s1, a)). rewrite <- E. apply send_prevote_wf. exact H.
    - exact H.
    - unfold do36. destruct (step_eqb (s_step s) SPrevote).
      + destruct (send_precommit c (set_lock s (p_val p)) _) as [s1 a] eqn:E. simpl.
        assert (W : swf s1) by (change s1 with (fst (s1, a)); rewrite <- E; apply send_precommit_wf; exact H).
        exact W.
      + exact H.
    - destruct (send_precommit c s None) as [s1 a] eqn:E. simpl.
      change s1 with (fst (s1, a)). rewrite <- E. apply send_precommit_wf. exact H.
    - exact H.
    - unfold do49, swf. simpl. apply vc_start_new_height_all. exact H.
    - destruct (start_round c s r) as [s1 a] eqn:E. simpl.
      change s1 with (fst (s1, a)). rewrite <- E. apply start_round_wf. exact H.
    - exact H.
  Qed.
  Lemma loop_wf : forall fuel s rr, swf s -> swf (fst (fst (loop c fuel s rr))).
  Proof.
    induction fuel as [|n IH]; intros s rr H; cbn [loop]; [exact H|].
    pose proof (apply_rule_wf s (select c s rr) H) as H1.
    destruct (apply_rule c s (select c s rr)) as [[s1 oa] cont]. simpl in H1. destruct cont; [|exact H1].
    pose proof (IH s1 rr H1) as H2. destruct (loop c n s1 rr) as [[s2 more] ex]. exact H2.
  Qed.
  Lemma on_timeout_wf : forall s k h r, swf s -> swf (fst (on_timeout c s k h r)).
  Proof.
    intros s k h r H. unfold on_timeout. destruct k.
    - destruct (_ && _); [|exact H]. destruct (send_prevote c s None) as [s1 a] eqn:E. simpl.
      change s1 with (fst (s1, a)). rewrite <- E. apply send_prevote_wf. exact H.
    - destruct (_ && _); [|exact H]. destruct (send_precommit c s None) as [s1 a] eqn:E. simpl.
      change s1 with (fst (s1, a)). rewrite <- E. apply send_precommit_wf. exact H.
    - destruct (_ && _); [|exact H]. destruct (start_round c s (r + 1)%Z) as [s1 a] eqn:E. simpl.
      change s1 with (fst (s1, a)). rewrite <- E. apply start_round_wf. exact H.
  Qed.
  Lemma process_message_wf : forall s w h r, swf s -> swf (fst (fst (process_message c s w h r))).
  Proof.
    intros s w h r H. unfold process_message. destruct (negb (h =? s_h s)); [exact H|].
    pose proof (loop_wf FUEL s (Some r) H) as H1. destruct (loop c FUEL s (Some r)) as [[s1 a] e]. exact H1.
  Qed.
  Lemma step_x_wf : forall s i, swf s -> swf (fst (fst (step_x c s i))).
  Proof.
    intros s i H. destruct i as [r|p|v|v|k h r]; unfold step_x.
    - destruct (s_started s); [exact H|].
      pose proof (start_round_wf (set_started s true) r H) as H1.
      destruct (start_round c (set_started s true) r) as [s1 a]. simpl in H1.
      pose proof (loop_wf FUEL s1 None H1) as H2. destruct (loop c FUEL s1 None) as [[s2 acts] ex]. exact H2.
    - pose proof (vc_add_proposal_wf c _ p H) as H1. destruct (vc_add_proposal c (s_vc s) p) as [vc ok]. simpl in H1.
      destruct (negb ok || _); [exact H1|]. apply process_message_wf. exact H1.
    - pose proof (vc_add_vote_wf c _ Prevote v H) as H1. destruct (vc_add_vote c (s_vc s) Prevote v) as [vc ok]. simpl in H1.
      destruct (negb ok || _); [exact H1|]. apply process_message_wf. exact H1.
    - pose proof (vc_add_vote_wf c _ Precommit v H) as H1. destruct (vc_add_vote c (s_vc s) Precommit v) as [vc ok]. simpl in H1.
      destruct (negb ok || _); [exact H1|].
      destruct (match v_id v with Some id => _ | None => false end).
      + unfold trigger_sync. simpl. exact H1.
      + apply process_message_wf. exact H1.
    - pose proof (on_timeout_wf s k h r H) as H1. destruct (on_timeout c s k h r) as [s1 a0]. simpl in H1.
      pose proof (loop_wf FUEL s1 None H1) as H2. destruct (loop c FUEL s1 None) as [[s2 acts] ex]. exact H2.
  Qed.
  Lemma step_wf : forall s i, swf s -> swf (fst (step c s i)).
  Proof. intros s i H. rewrite step_step_x. apply step_x_wf. exact H. Qed.
End Keep.

Lemma init_state_wf : forall h, swf (init_state h).
Proof. intro h. apply vc_wf_new. Qed.

(* ================= part 2: what one call logs ================= *)
Lemma wlog_of_app : forall a b, wlog_of (a ++ b) = wlog_of a ++ wlog_of b.
Proof. intros. unfold wlog_of. apply flat_map_app. Qed.

Section Logged.
  Variable c : cfg.

  Lemma start_round_no_wal : forall s r, wal_of_action (snd (start_round c s r)) = [].
  Proof.
    intros s r. unfold start_round. destruct (c_proposer c _ r =? c_self c); [|reflexivity].
    destruct (s_vv (reset_state s r)); reflexivity.
  Qed.

  Lemma apply_rule_no_wal : forall s ru, wlog_of (olist (snd (fst (apply_rule c s ru)))) = [].
  Proof.
    intros s ru. destruct ru; cbn [apply_rule]; try reflexivity.
    - unfold do36. destruct (step_eqb (s_step s) SPrevote); reflexivity.
    - pose proof (start_round_no_wal s r) as H. destruct (start_round c s r) as [s1 a]. simpl in *.
      unfold wlog_of. simpl. rewrite H. reflexivity.
  Qed.

  Lemma loop_no_wal : forall fuel s rr, wlog_of (snd (fst (loop c fuel s rr))) = [].
  Proof.
    induction fuel as [|n IH]; intros s rr; cbn [loop]; [reflexivity|].
    pose proof (apply_rule_no_wal s (select c s rr)) as H1.
    destruct (apply_rule c s (select c s rr)) as [[s1 oa] cont]. simpl in H1. destruct cont; [|exact H1].
    pose proof (IH s1 rr) as H2. destruct (loop c n s1 rr) as [[s2 more] ex]. simpl in *.
    rewrite wlog_of_app, H1, H2. reflexivity.
  Qed.

  Lemma loop_none : forall s rr, rule_none (select c s rr) = true -> loop c FUEL s rr = (s, [], false).
  Proof. intros s rr H. unfold FUEL. cbn [loop]. destruct (select c s rr); try discriminate. reflexivity. Qed.

  Lemma process_message_logs : forall s w e h r, wal_of_action w = [e] ->
    wlog_of (snd (fst (process_message c s w h r))) = [e].
  Proof.
    intros s w e h r Hw. unfold process_message. destruct (negb (h =? s_h s)).
    - unfold wlog_of. simpl. rewrite Hw. reflexivity.
    - pose proof (loop_no_wal FUEL s (Some r)) as H. destruct (loop c FUEL s (Some r)) as [[s1 a] x]. simpl in *.
      unfold wlog_of in *. simpl. rewrite Hw, H. reflexivity.
  Qed.

  Lemma set_vc_sim_left : forall s vc, vc_sim (s_vc s) vc -> st_sim s (set_vc s vc).
  Proof. intros. split; [reflexivity|assumption]. Qed.

  (* under the log discipline a call either logs nothing, returns nothing and leaves the state similar, or
     logs exactly one entry, and ProcessWAL of that entry is the very same call *)
  Lemma step_logged : forall s i, swf s -> wal_ok_input c s i = true ->
    (snd (step c s i) = [] /\ st_sim s (fst (step c s i))) \/
    (exists e, wlog_of (snd (step c s i)) = [e] /\ wentry_input e = i).
  Proof.
    intros s i W Hok. rewrite step_step_x. destruct i as [r|p|v|v|k h r]; cbn [wal_ok_input] in Hok.
    - (* ProcessStart *)
      apply andb_prop in Hok. destruct Hok as [_ Hok].
      unfold step_x. destruct (s_started s) eqn:Est.
      + left. simpl. split; [reflexivity|apply st_sim_refl].
      + right. simpl in Hok. apply Z.eqb_eq in Hok. subst r.
        pose proof (start_round_no_wal (set_started s true) 0) as H1.
        destruct (start_round c (set_started s true) 0) as [s1 a]. simpl in H1.
        pose proof (loop_no_wal FUEL s1 None) as H2. destruct (loop c FUEL s1 None) as [[s2 acts] ex]. simpl in *.
        exists (WStart (s_h s2)). split; [|reflexivity].
        unfold wlog_of in *. simpl. rewrite H1, H2. reflexivity.
    - (* ProcessProposal *)
      unfold step_x. pose proof (vc_add_proposal_reject c (s_vc s) p W) as Rj.
      destruct (vc_add_proposal c (s_vc s) p) as [vc ok]. simpl in Rj. cbn [set_vc s_started]. rewrite Hok.
      destruct ok; cbn [negb orb].
      + right. exists (WProposal p). split; [|reflexivity]. apply process_message_logs. reflexivity.
      + left. simpl. split; [reflexivity|]. apply set_vc_sim_left. apply Rj. reflexivity.
    - (* ProcessPrevote *)
      unfold step_x. pose proof (vc_add_vote_reject c (s_vc s) Prevote v W) as Rj.
      destruct (vc_add_vote c (s_vc s) Prevote v) as [vc ok]. simpl in Rj. cbn [set_vc s_started]. rewrite Hok.
      destruct ok; cbn [negb orb].
      + right. exists (WPrevote v). split; [|reflexivity]. apply process_message_logs. reflexivity.
      + left. simpl. split; [reflexivity|]. apply set_vc_sim_left. apply Rj. reflexivity.
    - (* ProcessPrecommit *)
      apply andb_prop in Hok. destruct Hok as [Hst Htr]. apply negb_true_iff in Htr.
      rewrite step_step_x in Htr. unfold step_x in *.
      pose proof (vc_add_vote_reject c (s_vc s) Precommit v W) as Rj.
      destruct (vc_add_vote c (s_vc s) Precommit v) as [vc ok]. simpl in Rj. cbn [set_vc s_started] in *. rewrite Hst in *.
      destruct ok; cbn [negb orb] in *.
      + destruct (match v_id v with Some id => _ | None => false end).
        * simpl in Htr. discriminate.
        * right. exists (WPrecommit v). split; [|reflexivity]. apply process_message_logs. reflexivity.
      + left. simpl. split; [reflexivity|]. apply set_vc_sim_left. apply Rj. reflexivity.
    - (* ProcessTimeout *)
      apply andb_prop in Hok. destruct Hok as [Hst Hl]. unfold step_x, on_timeout.
      assert (Live : forall s' a, wal_of_action a = [] ->
                exists e, wlog_of (snd (fst (let '(s2, acts, ex) := loop c FUEL s' None in (s2, [AWalTimeout k h r; a] ++ acts, ex)))) = [e] /\
                          wentry_input e = ITimeout k h r).
      { intros s' a Ha. pose proof (loop_no_wal FUEL s' None) as H2.
        destruct (loop c FUEL s' None) as [[s2 acts] ex]. simpl in *. exists (WTimeout k h r). split; [|reflexivity].
        unfold wlog_of in *. simpl. rewrite Ha, H2. reflexivity. }
      assert (Stale : timeout_live s k h r = false ->
                (snd (fst (let '(s2, acts, ex) := loop c FUEL s None in (s2, [] ++ acts, ex))) = [] /\
                 st_sim s (fst (fst (let '(s2, acts, ex) := loop c FUEL s None in (s2, [] ++ acts, ex)))))).
      { intros Hn. rewrite Hn in Hl. simpl in Hl. rewrite (loop_none s None Hl). simpl. split; [reflexivity|apply st_sim_refl]. }
      unfold timeout_live in Stale. destruct k.
      + destruct ((s_h s =? h) && (s_r s =? r)%Z && step_eqb (s_step s) SPropose) eqn:E.
        * right. destruct (send_prevote c s None) as [s' a] eqn:Es.
          assert (Ha : wal_of_action a = []) by (unfold send_prevote in Es; inversion Es; reflexivity).
          exact (Live s' a Ha).
        * left. apply Stale. reflexivity.
      + destruct ((s_h s =? h) && (s_r s =? r)%Z && step_eqb (s_step s) SPrevote) eqn:E.
        * right. destruct (send_precommit c s None) as [s' a] eqn:Es.
          assert (Ha : wal_of_action a = []) by (unfold send_precommit in Es; inversion Es; reflexivity).
          exact (Live s' a Ha).
        * left. apply Stale. reflexivity.
      + rewrite andb_true_r in Stale. destruct ((s_h s =? h) && (s_r s =? r)%Z) eqn:E.
        * right. pose proof (start_round_no_wal s (r + 1)%Z) as Ha.
          destruct (start_round c s (r + 1)%Z) as [s' a]. simpl in Ha. exact (Live s' a Ha).
        * left. apply Stale. reflexivity.
  Qed.
End Logged.

(* ================= part 3: the replay ================= *)
Lemma wal_written_cons : forall i acts evs, wal_written ((i, acts) :: evs) = wlog_of acts ++ wal_written evs.
Proof. intros. unfold wal_written, all_actions. simpl. apply wlog_of_app. Qed.

Section Replay.
  Variable c : cfg.
  Hypothesis Qpos : forall h, 0 < q_of (c_total c h).

  Lemma replay_sim : forall ins s sr, swf s -> st_sim sr s -> wal_disciplined c s ins = true ->
    st_sim (fst (replay_wal c sr (wal_written (snd (run c s ins))))) (fst (run c s ins)) /\
    replay_actions (snd (replay_wal c sr (wal_written (snd (run c s ins))))) = all_actions (snd (run c s ins)).
  Proof.
    induction ins as [|i rest IH]; intros s sr W Hs Hd; cbn [run wal_disciplined] in *.
    - simpl. auto.
    - apply andb_prop in Hd. destruct Hd as [Hok Hd].
      pose proof (step_logged c s i W Hok) as L. pose proof (step_wf c s i W) as W1.
      destruct (step c s i) as [s1 acts] eqn:Es. cbn [fst snd] in *.
      destruct (run c s1 rest) as [s2 evs] eqn:Er. cbn [fst snd].
      rewrite wal_written_cons. unfold all_actions. cbn [flat_map snd]. fold (all_actions evs).
      destruct L as [[La Ls]|[e [Le Li]]].
      + (* nothing logged, nothing returned, similar state *)
        subst acts. cbn [wlog_of flat_map app].
        specialize (IH s1 sr W1 (st_sim_trans _ _ _ Hs Ls) Hd). rewrite Er in IH. exact IH.
      + (* one entry: its replay is the same call on a similar state *)
        rewrite Le. cbn [app replay_wal]. rewrite process_wal_step, Li.
        destruct (step_sim_eq c Qpos sr s i Hs) as [S1 S2]. rewrite Es in S1, S2. cbn [fst snd] in *.
        destruct (step c sr i) as [sr1 acts'] eqn:Esr. cbn [fst snd] in *. subst acts'.
        specialize (IH s1 sr1 W1 S1 Hd). rewrite Er in IH. cbn [fst snd] in IH. destruct IH as [I1 I2].
        destruct (replay_wal c sr1 (wal_written evs)) as [sr2 l]. cbn [fst snd] in *.
        split; [exact I1|]. unfold replay_actions in *. cbn [flat_map snd]. rewrite I2. reflexivity.
  Qed.

  (* replaying, from the state a run started in, the entries the run logged: same state, same actions *)
  Lemma wal_replay_same_state_from : forall s0 ins, swf s0 -> wal_disciplined c s0 ins = true ->
    st_sim (fst (replay_wal c s0 (wal_written (snd (run c s0 ins))))) (fst (run c s0 ins)) /\
    replay_actions (snd (replay_wal c s0 (wal_written (snd (run c s0 ins))))) = all_actions (snd (run c s0 ins)).
  Proof. intros s0 ins W Hd. apply replay_sim; [exact W|apply st_sim_refl|exact Hd]. Qed.

  Lemma wal_replay_same_state_lemma : forall h ins, wal_disciplined c (init_state h) ins = true ->
    st_sim (fst (replay_wal c (init_state h) (wal_written (snd (run c (init_state h) ins))))) (fst (run c (init_state h) ins)) /\
    replay_actions (snd (replay_wal c (init_state h) (wal_written (snd (run c (init_state h) ins))))) =
    all_actions (snd (run c (init_state h) ins)).
  Proof. intros h ins Hd. apply wal_replay_same_state_from; [apply init_state_wf|exact Hd]. Qed.
End Replay.

(* the log discipline implies the calling discipline of the local safety theorems *)
Lemma wal_ok_input_ok : forall c s i, wal_ok_input c s i = true -> ok_input s i = true.
Proof.
  intros c s i H. destruct i as [r|p|v|v|k h r]; simpl in *; try reflexivity.
  - apply andb_prop in H. tauto.
  - apply andb_prop in H. tauto.
Qed.
Lemma wal_disciplined_disciplined : forall c ins s, wal_disciplined c s ins = true -> disciplined c s ins = true.
Proof.
  intros c ins. induction ins as [|i rest IH]; intros s H; simpl in *; [reflexivity|].
  apply andb_prop in H. destruct H as [H1 H2]. rewrite (wal_ok_input_ok c s i H1). simpl. apply IH. exact H2.
Qed.

(* the conclusion as the boolean the oracle evaluates *)
Lemma wal_replay_same_b_lemma : forall c, (forall h, 0 < q_of (c_total c h)) -> forall h ins,
  wal_disciplined c (init_state h) ins = true -> wal_replay_same c (init_state h) ins = true.
Proof.
  intros c Q h ins H. destruct (wal_replay_same_state_lemma c Q h ins H) as [A B]. unfold wal_replay_same.
  apply andb_true_intro. split; [apply st_sim_b_spec; exact A|apply acts_eqb_spec; exact B].
Qed.

(* every state a run reaches has a well-formed counter *)
Lemma run_wf : forall c ins h, swf (fst (run c (init_state h) ins)).
Proof.
  intros c ins h. generalize (init_state_wf h). generalize (init_state h).
  induction ins as [|i rest IH]; intros s W; simpl; [exact W|].
  pose proof (step_wf c s i W) as W1. destruct (step c s i) as [s1 acts]. simpl in W1.
  specialize (IH s1 W1). destruct (run c s1 rest). exact IH.
Qed.
