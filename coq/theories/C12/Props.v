(* C12 — property theorems only. Each is closed by [exact] of a lemma from Proofs.v (Proofs_Global.v);
   Print Assumptions is run on every Theorem by bin/check. *)
From Coq Require Import List NArith ZArith Bool Lia ZifyN ZifyBool.
From V Require Import C12.Model C12.Proofs C12.Proofs_Agreement C12.Proofs_Counter C12.Proofs_History C12.Proofs_Global.
Import ListNotations.
Open Scope N_scope.

(* ---------- (a) thresholds of vote_counter.go, uint64 arithmetic ---------- *)
(* two quorums share more than f voting power (2q - N > f), and f is below one third *)
Theorem C12_quorum_intersect : forall n, 1 <= n < W / 2 -> f_of n + n < 2 * q_of n /\ 3 * f_of n < n.
Proof. exact quorum_intersect_lemma. Qed.

(* the bounds are needed: f(0) wraps around, 2*N wraps from 2^63 on *)
Example C12_quorum_intersect_needs_positive : ~ (3 * f_of 0 < 0) /\ f_of 0 = 6148914691236517205.
Proof. split; vm_compute; [intro H; discriminate|reflexivity]. Qed.
Example C12_quorum_intersect_needs_no_overflow : q_of (W / 2) = 0.
Proof. vm_compute. reflexivity. Qed.

(* ---------- (b) local safety, for every call sequence that respects the driver's discipline ---------- *)
(* processLoop always reaches its fixed point within the fuel: the model never cuts a loop short *)
Theorem C12_loop_terminates : forall c s i, snd (step_x c s i) = false.
Proof. exact step_fuel_enough. Qed.

(* The monitor (Model.audit) finds nothing in any history: votes strictly ordered by (height, round,
   prevote<precommit); prevotes respect the lock unless a polka at lockedRound <= vr < round was received;
   precommits for a value need a polka; commits need the round's stored proposal from the proposer, valid,
   and a precommit quorum; all broadcasts carry the own address and current height. *)
Theorem C12_local_safety : forall c h ins,
  disciplined c (init_state h) ins = true -> audit c h (snd (run c (init_state h) ins)) = [].
Proof. exact local_safety_lemma. Qed.

(* at most one prevote and one precommit per height and round *)
Theorem C12_no_double_vote : forall c h ins,
  disciplined c (init_state h) ins = true ->
  no_double_vote (all_actions (snd (run c (init_state h) ins))) = true.
Proof. exact no_double_vote_lemma. Qed.

(* (height, round, step) never decreases *)
Theorem C12_step_monotone : forall c h0 s i,
  reach c h0 s -> ok_input s i = true -> spos_le s (fst (step c s i)).
Proof. exact step_monotone_lemma. Qed.

(* the rules themselves, in any state: line 22 / 28 prevote a value only if it is the stored proposal of
   the round, valid, and not excluded by the lock *)
Theorem C12_prevote_respects_lock : forall c s rr s' v cont id,
  apply_rule c s (select c s rr) = (s', Some (ABroadcastPrevote v), cont) -> v_id v = Some id ->
  c_valid_id c s id /\
  (s_lr s = (-1)%Z \/ lock_matches c s id = true \/
   exists vr, (s_lr s <= vr)%Z /\ (0 <= vr)%Z /\ (vr < s_r s)%Z /\
              vc_has_quorum_vote c (s_vc s) vr Prevote (Some id) = true).
Proof. exact prevote_respects_lock_lemma. Qed.

Theorem C12_timeout_votes_nil : forall c s k h r v,
  (In (ABroadcastPrevote v) (snd (on_timeout c s k h r)) \/ In (ABroadcastPrecommit v) (snd (on_timeout c s k h r))) ->
  v_id v = None.
Proof. exact timeout_votes_nil. Qed.

(* precommit for a value: polka in the counter, and the lock is set to it (lock_set_with_precommit) *)
Theorem C12_precommit_needs_polka : forall c s rr s' v cont id,
  apply_rule c s (select c s rr) = (s', Some (ABroadcastPrecommit v), cont) -> v_id v = Some id ->
  vc_has_quorum_vote c (s_vc s) (s_r s) Prevote (Some id) = true /\
  s_step s = SPrevote /\
  s_lr s' = s_r s /\ exists val, s_lv s' = Some val /\ c_vid c val = id /\ c_valid c val = true.
Proof. exact precommit_needs_polka_lemma. Qed.

Theorem C12_commit_needs_quorum_and_valid_proposal_from_proposer : forall c s rr s' p cont,
  vc_props_ok c (s_vc s) ->
  apply_rule c s (select c s rr) = (s', Some (ACommit p), cont) ->
  c_valid c (p_val p) = true /\
  vc_has_quorum_vote c (s_vc s) (p_r p) Precommit (Some (pid c p)) = true /\
  vc_proposal (s_vc s) (p_r p) = Some p /\
  p_h p = vc_h (s_vc s) /\ p_from p = c_proposer c (vc_h (s_vc s)) (p_r p) /\
  s_h s' = s_h s + 1.
Proof. exact commit_needs_quorum_lemma. Qed.

(* ---------- the hypotheses are satisfiable / needed ---------- *)
(* 4 validators of power 1 (q = 3, f = 1), round-robin proposer, value 9 invalid, id = value *)
Definition ex_cfg (self : addr) : cfg :=
  mkCfg self (fun _ => 4) (fun _ a => if a <? 4 then 1 else 0) (fun _ r => Z.to_N (r mod 4))
        (fun v => negb (v =? 9)) (fun v => v) (fun k => 1 + k).

(* a disciplined history in which validator 0 proposes, locks, precommits and commits, then starts height 1 *)
Definition ex_ins : list input :=
  [IStart 0; IPrevote (mkV 0 0 1 (Some 1)); IPrevote (mkV 0 0 2 (Some 1));
   IPrecommit (mkV 0 0 1 (Some 1)); IPrecommit (mkV 0 0 2 (Some 1)); IStart 0; ITimeout SPropose 1 0].
Example ex_disciplined :
  disciplined (ex_cfg 0) (init_state 0) ex_ins = true /\
  existsb (fun a => match a with ACommit p => p_val p =? 1 | _ => false end)
          (all_actions (snd (run (ex_cfg 0) (init_state 0) ex_ins))) = true /\
  s_h (fst (run (ex_cfg 0) (init_state 0) ex_ins)) = 1.
Proof. vm_compute. auto. Qed.

(* Without the discipline the statement is false: ProcessTimeout does not look at isHeightStarted, so a
   (stale) timeout processed between a commit / New and ProcessStart runs the rules of the new height, and
   ProcessStart(0) later resets the round to 0.  Here validator 2 prevotes id 1 in (0,0), precommits id 2 in
   round 1, and after ProcessStart(0) prevotes nil in (0,0) again. *)
Definition hazard_ins : list input :=
  [IProposal (mkP 0 0 0 (-1) 1);
   IPrevote (mkV 0 1 0 (Some 2)); IPrevote (mkV 0 1 1 (Some 2)); IPrevote (mkV 0 1 3 (Some 2));
   IProposal (mkP 0 1 1 (-1) 2);
   ITimeout SPrecommit 7 0; ITimeout SPrecommit 0 0; IStart 0].
Example C12_discipline_needed :
  disciplined (ex_cfg 2) (init_state 0) hazard_ins = false /\
  no_double_vote (all_actions (snd (run (ex_cfg 2) (init_state 0) hazard_ins))) = false /\
  votes_of Prevote (all_actions (snd (run (ex_cfg 2) (init_state 0) hazard_ins))) =
    [mkV 0 0 2 (Some 1); mkV 0 1 2 (Some 2); mkV 0 0 2 None] /\
  votes_of Precommit (all_actions (snd (run (ex_cfg 2) (init_state 0) hazard_ins))) = [mkV 0 1 2 (Some 2)].
Proof. vm_compute. auto. Qed.

(* ---------- (c) global: n correct copies of the state machine + Byzantine senders ---------- *)
(* The agreement argument on a set of messages of one height (no state machine involved): if correct
   validators never send two votes of a kind in one round (U), precommit a value only after a polka (PC)
   and prevote a value that differs from one they precommitted earlier only after a polka at a round in
   between (LK), faulty power is at most f and f + N < 2q, then two precommit quorums name the same value. *)
Theorem C12_agreement_on_message_sets : forall (vals : list addr) (power : addr -> N) (byz : addr -> bool) (q f total : N),
  total = pw_sum power (fun _ => true) vals -> pw_sum power byz vals <= f -> f + total < 2 * q ->
  forall pv pc : Z -> addr -> option hash -> bool,
  (forall r a i1 i2, In a vals -> byz a = false -> pv r a i1 = true -> pv r a i2 = true -> i1 = i2) ->
  (forall r a i1 i2, In a vals -> byz a = false -> pc r a i1 = true -> pc r a i2 = true -> i1 = i2) ->
  (forall r a id, In a vals -> byz a = false -> pc r a (Some id) = true ->
     q <= pw_sum power (fun a => pv r a (Some id)) vals) ->
  (forall r r' a id id', In a vals -> byz a = false ->
     pv r a (Some id) = true -> pc r' a (Some id') = true -> (r' < r)%Z ->
     id' = id \/ exists vr, (r' <= vr)%Z /\ (vr < r)%Z /\ q <= pw_sum power (fun a => pv vr a (Some id)) vals) ->
  forall r1 id1 r2 id2,
    q <= pw_sum power (fun a => pc r1 a (Some id1)) vals ->
    q <= pw_sum power (fun a => pc r2 a (Some id2)) vals -> id1 = id2.
Proof. exact agreement_abstract. Qed.

(* The system: every correct validator (byz p = false) runs the state machine `step` with its own address
   and application values; `greach` = any interleaving of: delivery of any message ever sent to any correct
   validator (any order, any number of times, or never), any timeout of a started height, ProcessStart, and
   faulty validators sending arbitrary messages carrying faulty addresses (also different ones to different
   peers: delivery is per message and per receiver).  In every reachable state, two correct validators that
   decided in the same height decided the same value id (= the same value unless Hash collides: the code
   compares values by Hash only). *)
Theorem C12_agreement : forall total power proposer valid vid va (vals : N -> list addr) (byz : addr -> bool) h0,
  (forall h, NoDup (vals h) /\ total h = pw_sum (power h) (fun _ => true) (vals h) /\
             forall a, power h a <> 0 -> In a (vals h)) ->
  (forall h, 1 <= total h < W / 2) ->
  (forall h, pw_sum (power h) byz (vals h) <= f_of (total h)) ->
  forall g p1 p2 c1 c2,
    greach total power proposer valid vid va byz h0 g -> byz p1 = false -> byz p2 = false ->
    decided g p1 c1 -> decided g p2 c2 -> p_h c1 = p_h c2 -> vid (p_val c1) = vid (p_val c2).
Proof. exact agreement_reachable. Qed.

(* every decided value was proposed by the proposer of its round (the stored PROPOSAL message of that
   round, which the vote counter accepts only from proposer(h, r)) and judged valid by the application *)
Theorem C12_validity : forall total power proposer valid vid va (vals : N -> list addr) (byz : addr -> bool) h0,
  (forall h, NoDup (vals h) /\ total h = pw_sum (power h) (fun _ => true) (vals h) /\
             forall a, power h a <> 0 -> In a (vals h)) ->
  forall g p c1,
    greach total power proposer valid vid va byz h0 g -> byz p = false -> decided g p c1 ->
    valid (p_val c1) = true /\ p_from c1 = proposer (p_h c1) (p_r c1).
Proof. exact validity_reachable. Qed.

(* the same for any consistent family of histories (no causality needed): Proofs_Global.agreement_histories *)
Theorem C12_agreement_histories : forall total power proposer valid vid va (vals : N -> list addr) (byz : addr -> bool) h0,
  (forall h, NoDup (vals h) /\ total h = pw_sum (power h) (fun _ => true) (vals h) /\
             forall a, power h a <> 0 -> In a (vals h)) ->
  (forall h, 1 <= total h < W / 2) ->
  (forall h, pw_sum (power h) byz (vals h) <= f_of (total h)) ->
  forall (ins : addr -> list input) (M : list msg),
  (forall p, byz p = false -> disciplined (gc total power proposer valid vid va p) (init_state h0) (ins p) = true) ->
  (forall p m, byz p = false -> In m (flat_map msg_of_input (ins p)) -> In m M) ->
  (forall p m, byz p = false -> In m (sent total power proposer valid vid va h0 ins p) -> In m M) ->
  (forall k v, In (MVote k v) M -> byz (v_from v) = false ->
               In (MVote k v) (sent total power proposer valid vid va h0 ins (v_from v))) ->
  forall p1 p2 c1 c2, byz p1 = false -> byz p2 = false ->
    In (ACommit c1) (all_actions (evs total power proposer valid vid va h0 ins p1)) ->
    In (ACommit c2) (all_actions (evs total power proposer valid vid va h0 ins p2)) ->
    p_h c1 = p_h c2 -> vid (p_val c1) = vid (p_val c2).
Proof. exact agreement_histories. Qed.

(* the hypotheses are satisfiable: 4 validators of power 1, validator 3 (and every non-validator) faulty *)
Definition ex_byz (a : addr) : bool := negb (a <? 3).
Example ex_global_hypotheses :
  (forall h : N, NoDup [0; 1; 2; 3] /\ 4 = pw_sum (fun a => if a <? 4 then 1 else 0) (fun _ => true) [0; 1; 2; 3] /\
                 forall a, (if a <? 4 then 1 else 0) <> 0 -> In a [0; 1; 2; 3]) /\
  1 <= 4 < W / 2 /\
  pw_sum (fun a => if a <? 4 then 1 else 0) ex_byz [0; 1; 2; 3] <= f_of 4.
Proof.
  split; [intro h; split; [repeat constructor; simpl; intuition discriminate|split; [reflexivity|]]|].
  - intros a H. destruct (a <? 4) eqn:E; [|congruence]. apply N.ltb_lt in E. simpl.
    destruct (N.eq_dec a 0); auto. destruct (N.eq_dec a 1); auto. destruct (N.eq_dec a 2); auto.
    destruct (N.eq_dec a 3); auto. lia.
  - split; [unfold W; lia|vm_compute; discriminate].
Qed.

(* ... and reachable states with decisions exist: validators 0 and 1 decide value 1 in height 0 while the
   faulty validator 3 sends a conflicting prevote *)
Definition ex_sched : list cmd :=
  [CStart 0 0; CStart 1 0; CStart 2 0;
   CByz (MVote Prevote (mkV 0 0 3 (Some 7)));
   CDeliver 1 1; CDeliver 2 1;                  (* the proposal of validator 0 *)
   CDeliver 0 0; CDeliver 0 3; CDeliver 0 4;    (* prevotes *)
   CDeliver 1 2; CDeliver 1 4; CDeliver 1 0;
   CDeliver 2 2; CDeliver 2 3;
   CTimeout 2 SPropose 0 0;
   CDeliver 0 6; CDeliver 0 7; CDeliver 1 5; CDeliver 1 7; CDeliver 1 5].
Definition ex_g : gstate :=
  sched_exec (fun _ => 4) (fun _ a => if a <? 4 then 1 else 0) (fun _ r => Z.to_N (r mod 4)) (fun v => negb (v =? 9))
             (fun v => v) (fun p _ => 1 + p) (g_init 0) ex_sched.
Example ex_reach_decides :
  greach (fun _ => 4) (fun _ a => if a <? 4 then 1 else 0) (fun _ r => Z.to_N (r mod 4)) (fun v => negb (v =? 9))
         (fun v => v) (fun p _ => 1 + p) ex_byz 0 ex_g /\
  decided ex_g 0 (mkP 0 0 0 (-1) 1) /\ decided ex_g 1 (mkP 0 0 0 (-1) 1).
Proof.
  split.
  - apply sched_reach; [apply gr_init|vm_compute; reflexivity].
  - unfold decided. vm_compute. tauto.
Qed.

(* The validator-list hypothesis is needed.  With a Validators implementation that answers power 1 for
   EVERY address (the only one in the repository, consensus/mock.go, does: "mock one voting power for all
   validators"; it also gives the synthetic sync sender the total power) and unsigned messages, senders
   100, 101, 102 that are in no validator list form quorums on their own: the faulty proposer 0 equivocates
   and the correct validators 1 and 2 decide different values in height 0. *)
Definition sybil_msgs : list msg :=
  [MProp (mkP 0 0 0 (-1) 1); MProp (mkP 0 0 0 (-1) 2);
   MVote Prevote (mkV 0 0 100 (Some 1)); MVote Prevote (mkV 0 0 101 (Some 1)); MVote Prevote (mkV 0 0 102 (Some 1));
   MVote Prevote (mkV 0 0 100 (Some 2)); MVote Prevote (mkV 0 0 101 (Some 2)); MVote Prevote (mkV 0 0 102 (Some 2));
   MVote Precommit (mkV 0 0 100 (Some 1)); MVote Precommit (mkV 0 0 101 (Some 1)); MVote Precommit (mkV 0 0 102 (Some 1));
   MVote Precommit (mkV 0 0 100 (Some 2)); MVote Precommit (mkV 0 0 101 (Some 2)); MVote Precommit (mkV 0 0 102 (Some 2))].
Definition sybil_sched : list cmd :=
  map CByz (rev sybil_msgs) ++
  [CStart 1 0; CStart 2 0;
   CDeliver 1 0; CDeliver 1 2; CDeliver 1 3; CDeliver 1 8; CDeliver 1 9;
   CDeliver 2 1; CDeliver 2 5; CDeliver 2 6; CDeliver 2 11; CDeliver 2 12].
Definition sybil_byz (a : addr) : bool := negb ((a =? 1) || (a =? 2) || (a =? 3)).
Definition sybil_g : gstate :=
  sched_exec (fun _ => 4) (fun _ _ => 1) (fun _ r => Z.to_N (r mod 4)) (fun v => negb (v =? 9))
             (fun v => v) (fun p _ => 1 + p) (g_init 0) sybil_sched.
Example C12_validator_list_needed :
  greach (fun _ => 4) (fun _ _ => 1) (fun _ r => Z.to_N (r mod 4)) (fun v => negb (v =? 9))
         (fun v => v) (fun p _ => 1 + p) sybil_byz 0 sybil_g /\
  decided sybil_g 1 (mkP 0 0 0 (-1) 1) /\ decided sybil_g 2 (mkP 0 0 0 (-1) 2).
Proof.
  split.
  - apply sched_reach; [apply gr_init|vm_compute; reflexivity].
  - unfold decided. vm_compute. tauto.
Qed.
