(* C12 — property theorems only. Each is closed by [exact] of a lemma from Proofs.v (Proofs_Global.v);
   Print Assumptions is run on every Theorem by bin/check. *)
From Coq Require Import List NArith ZArith Bool Lia ZifyN ZifyBool.
From V Require Import C12.Model C12.Proofs C12.Proofs_Agreement C12.Proofs_Counter C12.Proofs_History C12.Proofs_Global
  C12.Proofs_Sim C12.Proofs_SimB C12.Proofs_Calls C12.Proofs_WalReplay C12.Proofs_CfgEq C12.Proofs_GlobalX.
Import ListNotations.
Open Scope N_scope.

(* ---------- (a) thresholds of vote_counter.go, uint64 arithmetic ---------- *)
(* two quorums share more than f voting power (2q - N > f), and f is below one third *)
Theorem C12_quorum_intersect : forall n, 1 <= n < W / 2 -> f_of n + n < 2 * q_of n /\ 3 * f_of n < n.
Proof. exact quorum_intersect_lemma. Qed.

(* the bounds are needed: f(0) wraps around, 2*N wraps from 2^63 on *)
Example C12_quorum_intersect_needs_positive : ~ (3 * f_of 0 < 0) /\ f_of 0 = 6148914691236517205.
Proof. split; vm_compute; [intro H; discriminate|reflexivity]. Qed.
Example C12_quorum_intersect_needs_no_overflow : q_of (W / 2) = 0.
Proof. vm_compute. reflexivity. Qed.

(* ---------- (b) local safety, for every call sequence that respects the driver's discipline ---------- *)
(* processLoop always reaches its fixed point within the fuel: the model never cuts a loop short *)
Theorem C12_loop_terminates : forall c s i, snd (step_x c s i) = false.
Proof. exact step_fuel_enough. Qed.

(* The monitor (Model.audit) finds nothing in any history: votes strictly ordered by (height, round,
   prevote<precommit); prevotes respect the lock unless a polka at lockedRound <= vr < round was received;
   precommits for a value need a polka; commits need the round's stored proposal from the proposer, valid,
   and a precommit quorum; all broadcasts carry the own address and current height. *)
Theorem C12_local_safety : forall c h ins,
  disciplined c (init_state h) ins = true -> audit c h (snd (run c (init_state h) ins)) = [].
Proof. exact local_safety_lemma. Qed.

(* at most one prevote and one precommit per height and round *)
Theorem C12_no_double_vote : forall c h ins,
  disciplined c (init_state h) ins = true ->
  no_double_vote (all_actions (snd (run c (init_state h) ins))) = true.
Proof. exact no_double_vote_lemma. Qed.

(* (height, round, step) never decreases *)
Theorem C12_step_monotone : forall c h0 s i,
  reach c h0 s -> ok_input s i = true -> spos_le s (fst (step c s i)).
Proof. exact step_monotone_lemma. Qed.

(* the rules themselves, in any state: line 22 / 28 prevote a value only if it is the stored proposal of
   the round, valid, and not excluded by the lock *)
Theorem C12_prevote_respects_lock : forall c s rr s' v cont id,
  apply_rule c s (select c s rr) = (s', Some (ABroadcastPrevote v), cont) -> v_id v = Some id ->
  c_valid_id c s id /\
  (s_lr s = (-1)%Z \/ lock_matches c s id = true \/
   exists vr, (s_lr s <= vr)%Z /\ (0 <= vr)%Z /\ (vr < s_r s)%Z /\
              vc_has_quorum_vote c (s_vc s) vr Prevote (Some id) = true).
Proof. exact prevote_respects_lock_lemma. Qed.

Theorem C12_timeout_votes_nil : forall c s k h r v,
  (In (ABroadcastPrevote v) (snd (on_timeout c s k h r)) \/ In (ABroadcastPrecommit v) (snd (on_timeout c s k h r))) ->
  v_id v = None.
Proof. exact timeout_votes_nil. Qed.

(* precommit for a value: polka in the counter, and the lock is set to it (lock_set_with_precommit) *)
Theorem C12_precommit_needs_polka : forall c s rr s' v cont id,
  apply_rule c s (select c s rr) = (s', Some (ABroadcastPrecommit v), cont) -> v_id v = Some id ->
  vc_has_quorum_vote c (s_vc s) (s_r s) Prevote (Some id) = true /\
  s_step s = SPrevote /\
  s_lr s' = s_r s /\ exists val, s_lv s' = Some val /\ c_vid c val = id /\ c_valid c val = true.
Proof. exact precommit_needs_polka_lemma. Qed.

Theorem C12_commit_needs_quorum_and_valid_proposal_from_proposer : forall c s rr s' p cont,
  vc_props_ok c (s_vc s) ->
  apply_rule c s (select c s rr) = (s', Some (ACommit p), cont) ->
  c_valid c (p_val p) = true /\
  vc_has_quorum_vote c (s_vc s) (p_r p) Precommit (Some (pid c p)) = true /\
  vc_proposal (s_vc s) (p_r p) = Some p /\
  p_h p = vc_h (s_vc s) /\ p_from p = c_proposer c (vc_h (s_vc s)) (p_r p) /\
  s_h s' = s_h s + 1.
Proof. exact commit_needs_quorum_lemma. Qed.

(* ---------- the hypotheses are satisfiable / needed ---------- *)
(* 4 validators of power 1 (q = 3, f = 1), round-robin proposer, value 9 invalid, id = value *)
Definition ex_cfg (self : addr) : cfg :=
  mkCfg self (fun _ => 4) (fun _ a => if a <? 4 then 1 else 0) (fun _ r => Z.to_N (r mod 4))
        (fun v => negb (v =? 9)) (fun v => v) (fun k => 1 + k).

(* a disciplined history in which validator 0 proposes, locks, precommits and commits, then starts height 1 *)
Definition ex_ins : list input :=
  [IStart 0; IPrevote (mkV 0 0 1 (Some 1)); IPrevote (mkV 0 0 2 (Some 1));
   IPrecommit (mkV 0 0 1 (Some 1)); IPrecommit (mkV 0 0 2 (Some 1)); IStart 0; ITimeout SPropose 1 0].
Example ex_disciplined :
  disciplined (ex_cfg 0) (init_state 0) ex_ins = true /\
  existsb (fun a => match a with ACommit p => p_val p =? 1 | _ => false end)
          (all_actions (snd (run (ex_cfg 0) (init_state 0) ex_ins))) = true /\
  s_h (fst (run (ex_cfg 0) (init_state 0) ex_ins)) = 1.
Proof. vm_compute. auto. Qed.

(* Without the discipline the statement is false: ProcessTimeout does not look at isHeightStarted, so a
   (stale) timeout processed between a commit / New and ProcessStart runs the rules of the new height, and
   ProcessStart(0) later resets the round to 0.  Here validator 2 prevotes id 1 in (0,0), precommits id 2 in
   round 1, and after ProcessStart(0) prevotes nil in (0,0) again. *)
Definition hazard_ins : list input :=
  [IProposal (mkP 0 0 0 (-1) 1);
   IPrevote (mkV 0 1 0 (Some 2)); IPrevote (mkV 0 1 1 (Some 2)); IPrevote (mkV 0 1 3 (Some 2));
   IProposal (mkP 0 1 1 (-1) 2);
   ITimeout SPrecommit 7 0; ITimeout SPrecommit 0 0; IStart 0].
Example C12_discipline_needed :
  disciplined (ex_cfg 2) (init_state 0) hazard_ins = false /\
  no_double_vote (all_actions (snd (run (ex_cfg 2) (init_state 0) hazard_ins))) = false /\
  votes_of Prevote (all_actions (snd (run (ex_cfg 2) (init_state 0) hazard_ins))) =
    [mkV 0 0 2 (Some 1); mkV 0 1 2 (Some 2); mkV 0 0 2 None] /\
  votes_of Precommit (all_actions (snd (run (ex_cfg 2) (init_state 0) hazard_ins))) = [mkV 0 1 2 (Some 2)].
Proof. vm_compute. auto. Qed.

(* ---------- (c) global: n correct copies of the state machine + Byzantine senders ---------- *)
(* The agreement argument on a set of messages of one height (no state machine involved): if correct
   validators never send two votes of a kind in one round (U), precommit a value only after a polka (PC)
   and prevote a value that differs from one they precommitted earlier only after a polka at a round in
   between (LK), faulty power is at most f and f + N < 2q, then two precommit quorums name the same value. *)
Theorem C12_agreement_on_message_sets : forall (vals : list addr) (power : addr -> N) (byz : addr -> bool) (q f total : N),
  total = pw_sum power (fun _ => true) vals -> pw_sum power byz vals <= f -> f + total < 2 * q ->
  forall pv pc : Z -> addr -> option hash -> bool,
  (forall r a i1 i2, In a vals -> byz a = false -> pv r a i1 = true -> pv r a i2 = true -> i1 = i2) ->
  (forall r a i1 i2, In a vals -> byz a = false -> pc r a i1 = true -> pc r a i2 = true -> i1 = i2) ->
  (forall r a id, In a vals -> byz a = false -> pc r a (Some id) = true ->
     q <= pw_sum power (fun a => pv r a (Some id)) vals) ->
  (forall r r' a id id', In a vals -> byz a = false ->
     pv r a (Some id) = true -> pc r' a (Some id') = true -> (r' < r)%Z ->
     id' = id \/ exists vr, (r' <= vr)%Z /\ (vr < r)%Z /\ q <= pw_sum power (fun a => pv vr a (Some id)) vals) ->
  forall r1 id1 r2 id2,
    q <= pw_sum power (fun a => pc r1 a (Some id1)) vals ->
    q <= pw_sum power (fun a => pc r2 a (Some id2)) vals -> id1 = id2.
Proof. exact agreement_abstract. Qed.

(* The system: every correct validator (byz p = false) runs the state machine `step` with its own address
   and application values; `greach` = any interleaving of: delivery of any message ever sent to any correct
   validator (any order, any number of times, or never), any timeout of a started height, ProcessStart, and
   faulty validators sending arbitrary messages carrying faulty addresses (also different ones to different
   peers: delivery is per message and per receiver).  In every reachable state, two correct validators that
   decided in the same height decided the same value id (= the same value unless Hash collides: the code
   compares values by Hash only). *)
Theorem C12_agreement : forall total power proposer valid vid va (vals : N -> list addr) (byz : addr -> bool) h0,
  (forall h, NoDup (vals h) /\ total h = pw_sum (power h) (fun _ => true) (vals h) /\
             forall a, power h a <> 0 -> In a (vals h)) ->
  (forall h, 1 <= total h < W / 2) ->
  (forall h, pw_sum (power h) byz (vals h) <= f_of (total h)) ->
  forall g p1 p2 c1 c2,
    greach total power proposer valid vid va byz h0 g -> byz p1 = false -> byz p2 = false ->
    decided g p1 c1 -> decided g p2 c2 -> p_h c1 = p_h c2 -> vid (p_val c1) = vid (p_val c2).
Proof. exact agreement_reachable. Qed.

(* every decided value was proposed by the proposer of its round (the stored PROPOSAL message of that
   round, which the vote counter accepts only from proposer(h, r)) and judged valid by the application *)
Theorem C12_validity : forall total power proposer valid vid va (vals : N -> list addr) (byz : addr -> bool) h0,
  (forall h, NoDup (vals h) /\ total h = pw_sum (power h) (fun _ => true) (vals h) /\
             forall a, power h a <> 0 -> In a (vals h)) ->
  forall g p c1,
    greach total power proposer valid vid va byz h0 g -> byz p = false -> decided g p c1 ->
    valid (p_val c1) = true /\ p_from c1 = proposer (p_h c1) (p_r c1).
Proof. exact validity_reachable. Qed.

(* the same for any consistent family of histories (no causality needed): Proofs_Global.agreement_histories *)
Theorem C12_agreement_histories : forall total power proposer valid vid va (vals : N -> list addr) (byz : addr -> bool) h0,
  (forall h, NoDup (vals h) /\ total h = pw_sum (power h) (fun _ => true) (vals h) /\
             forall a, power h a <> 0 -> In a (vals h)) ->
  (forall h, 1 <= total h < W / 2) ->
  (forall h, pw_sum (power h) byz (vals h) <= f_of (total h)) ->
  forall (ins : addr -> list input) (M : list msg),
  (forall p, byz p = false -> disciplined (gc total power proposer valid vid va p) (init_state h0) (ins p) = true) ->
  (forall p m, byz p = false -> In m (flat_map msg_of_input (ins p)) -> In m M) ->
  (forall p m, byz p = false -> In m (sent total power proposer valid vid va h0 ins p) -> In m M) ->
  (forall k v, In (MVote k v) M -> byz (v_from v) = false ->
               In (MVote k v) (sent total power proposer valid vid va h0 ins (v_from v))) ->
  forall p1 p2 c1 c2, byz p1 = false -> byz p2 = false ->
    In (ACommit c1) (all_actions (evs total power proposer valid vid va h0 ins p1)) ->
    In (ACommit c2) (all_actions (evs total power proposer valid vid va h0 ins p2)) ->
    p_h c1 = p_h c2 -> vid (p_val c1) = vid (p_val c2).
Proof. exact agreement_histories. Qed.

(* the hypotheses are satisfiable: 4 validators of power 1, validator 3 (and every non-validator) faulty *)
Definition ex_byz (a : addr) : bool := negb (a <? 3).
Example ex_global_hypotheses :
  (forall h : N, NoDup [0; 1; 2; 3] /\ 4 = pw_sum (fun a => if a <? 4 then 1 else 0) (fun _ => true) [0; 1; 2; 3] /\
                 forall a, (if a <? 4 then 1 else 0) <> 0 -> In a [0; 1; 2; 3]) /\
  1 <= 4 < W / 2 /\
  pw_sum (fun a => if a <? 4 then 1 else 0) ex_byz [0; 1; 2; 3] <= f_of 4.
Proof.
  split; [intro h; split; [repeat constructor; simpl; intuition discriminate|split; [reflexivity|]]|].
  - intros a H. destruct (a <? 4) eqn:E; [|congruence]. apply N.ltb_lt in E. simpl.
    destruct (N.eq_dec a 0); auto. destruct (N.eq_dec a 1); auto. destruct (N.eq_dec a 2); auto.
    destruct (N.eq_dec a 3); auto. lia.
  - split; [unfold W; lia|vm_compute; discriminate].
Qed.

(* ... and reachable states with decisions exist: validators 0 and 1 decide value 1 in height 0 while the
   faulty validator 3 sends a conflicting prevote *)
Definition ex_sched : list cmd :=
  [CStart 0 0; CStart 1 0; CStart 2 0;
   CByz (MVote Prevote (mkV 0 0 3 (Some 7)));
   CDeliver 1 1; CDeliver 2 1;                  (* the proposal of validator 0 *)
   CDeliver 0 0; CDeliver 0 3; CDeliver 0 4;    (* prevotes *)
   CDeliver 1 2; CDeliver 1 4; CDeliver 1 0;
   CDeliver 2 2; CDeliver 2 3;
   CTimeout 2 SPropose 0 0;
   CDeliver 0 6; CDeliver 0 7; CDeliver 1 5; CDeliver 1 7; CDeliver 1 5].
Definition ex_g : gstate :=
  sched_exec (fun _ => 4) (fun _ a => if a <? 4 then 1 else 0) (fun _ r => Z.to_N (r mod 4)) (fun v => negb (v =? 9))
             (fun v => v) (fun p _ => 1 + p) (g_init 0) ex_sched.
Example ex_reach_decides :
  greach (fun _ => 4) (fun _ a => if a <? 4 then 1 else 0) (fun _ r => Z.to_N (r mod 4)) (fun v => negb (v =? 9))
         (fun v => v) (fun p _ => 1 + p) ex_byz 0 ex_g /\
  decided ex_g 0 (mkP 0 0 0 (-1) 1) /\ decided ex_g 1 (mkP 0 0 0 (-1) 1).
Proof.
  split.
  - apply sched_reach; [apply gr_init|vm_compute; reflexivity].
  - unfold decided. vm_compute. tauto.
Qed.

(* The validator-list hypothesis is needed.  With a Validators implementation that answers power 1 for
   EVERY address (the only one in the repository, consensus/mock.go, does: "mock one voting power for all
   validators"; it also gives the synthetic sync sender the total power) and unsigned messages, senders
   100, 101, 102 that are in no validator list form quorums on their own: the faulty proposer 0 equivocates
   and the correct validators 1 and 2 decide different values in height 0. *)
Definition sybil_msgs : list msg :=
  [MProp (mkP 0 0 0 (-1) 1); MProp (mkP 0 0 0 (-1) 2);
   MVote Prevote (mkV 0 0 100 (Some 1)); MVote Prevote (mkV 0 0 101 (Some 1)); MVote Prevote (mkV 0 0 102 (Some 1));
   MVote Prevote (mkV 0 0 100 (Some 2)); MVote Prevote (mkV 0 0 101 (Some 2)); MVote Prevote (mkV 0 0 102 (Some 2));
   MVote Precommit (mkV 0 0 100 (Some 1)); MVote Precommit (mkV 0 0 101 (Some 1)); MVote Precommit (mkV 0 0 102 (Some 1));
   MVote Precommit (mkV 0 0 100 (Some 2)); MVote Precommit (mkV 0 0 101 (Some 2)); MVote Precommit (mkV 0 0 102 (Some 2))].
Definition sybil_sched : list cmd :=
  map CByz (rev sybil_msgs) ++
  [CStart 1 0; CStart 2 0;
   CDeliver 1 0; CDeliver 1 2; CDeliver 1 3; CDeliver 1 8; CDeliver 1 9;
   CDeliver 2 1; CDeliver 2 5; CDeliver 2 6; CDeliver 2 11; CDeliver 2 12].
Definition sybil_byz (a : addr) : bool := negb ((a =? 1) || (a =? 2) || (a =? 3)).
Definition sybil_g : gstate :=
  sched_exec (fun _ => 4) (fun _ _ => 1) (fun _ r => Z.to_N (r mod 4)) (fun v => negb (v =? 9))
             (fun v => v) (fun p _ => 1 + p) (g_init 0) sybil_sched.
Example C12_validator_list_needed :
  greach (fun _ => 4) (fun _ _ => 1) (fun _ r => Z.to_N (r mod 4)) (fun v => negb (v =? 9))
         (fun v => v) (fun p _ => 1 + p) sybil_byz 0 sybil_g /\
  decided sybil_g 1 (mkP 0 0 0 (-1) 1) /\ decided sybil_g 2 (mkP 0 0 0 (-1) 2).
Proof.
  split.
  - apply sched_reach; [apply gr_init|vm_compute; reflexivity].
  - unfold decided. vm_compute. tauto.
Qed.

(* ====================================================================================================
   ProcessWAL and ProcessSync (process.go), Model.process_wal / process_sync / call_step
   ==================================================================================================== *)

(* ---------- both are compositions of the five modelled calls: proved about the transcription ---------- *)
(* ProcessWAL(entry) is the Process* call of the entry's kind; a Start entry is ProcessStart(0) whatever
   height it carries.  It filters nothing (the WriteWAL actions are returned again; the driver skips them). *)
Theorem C12_process_wal_is_the_call : forall c s e, process_wal c s e = step c s (wentry_input e).
Proof. exact process_wal_step. Qed.

(* ProcessSync(proposal, precommits) = ProcessProposal, then ProcessPrecommit for every precommit in order, on
   the running state; the returned list is the concatenation.  No check of its own. *)
Theorem C12_process_sync_is_composition : forall c s p pcs,
  process_sync c s p pcs =
  (fst (run c s (IProposal p :: map IPrecommit pcs)), all_actions (snd (run c s (IProposal p :: map IPrecommit pcs)))).
Proof. exact process_sync_spec. Qed.

(* a sequence of calls of all seven methods = the sequence of their inner calls *)
Theorem C12_calls_are_compositions : forall c xs s,
  fst (run_calls c s xs) = fst (run c s (flat_map call_inputs xs)) /\
  calls_actions (snd (run_calls c s xs)) = all_actions (snd (run c s (flat_map call_inputs xs))) /\
  calls_events c s xs = snd (run c s (flat_map call_inputs xs)).
Proof. exact run_calls_spec. Qed.

Theorem C12_loop_terminates_calls : forall c s x, snd (call_step_x c s x) = false.
Proof. exact call_fuel_enough. Qed.

(* ---------- (b) local safety for call sequences that contain ProcessWAL / ProcessSync ---------- *)
(* Calling discipline (ok_call): as before for the five plain calls; ProcessWAL of a Timeout entry only while
   the height is started (in the log a height's Start entry precedes its timeouts), a Start entry is replayed
   with round 0; ProcessSync needs NOTHING (any proposal, any precommits, any state): it only delivers
   messages.  The audited events are the inner calls with what each returned (calls_events); the harness
   gets them from the returned concatenation by C12_audited_events_exact. *)
Theorem C12_local_safety_calls : forall c h xs,
  disciplined_calls c (init_state h) xs = true -> audit c h (calls_events c (init_state h) xs) = [].
Proof. exact local_safety_calls. Qed.

Theorem C12_no_double_vote_calls : forall c h xs,
  disciplined_calls c (init_state h) xs = true ->
  no_double_vote (calls_actions (snd (run_calls c (init_state h) xs))) = true.
Proof. exact no_double_vote_calls. Qed.

Theorem C12_step_monotone_calls : forall c h0 s x,
  reach_calls c h0 s -> ok_call s x = true -> spos_le s (fst (call_step c s x)).
Proof. exact step_monotone_calls. Qed.

(* the per-rule theorems (C12_prevote_respects_lock, C12_timeout_votes_nil, C12_precommit_needs_polka,
   C12_commit_needs_quorum_and_valid_proposal_from_proposer) are statements about apply_rule / select /
   on_timeout in ANY state; ProcessWAL and ProcessSync reach the rules only through step_x
   (C12_process_wal_is_the_call, C12_process_sync_is_composition), so they hold for them unchanged. *)

Theorem C12_audited_events_exact : forall c s x,
  call_impl_events c s x (snd (call_step c s x)) = call_events c s x.
Proof. exact call_impl_events_exact. Qed.

(* validator 2 of 4 is started from its log and catches up by ProcessSync: it commits value 1 and starts height 1 *)
Definition ex_calls : list call :=
  [KWal (WStart 0);
   KSync (mkP 0 0 0 (-1) 1) [mkV 0 0 0 (Some 1); mkV 0 0 1 (Some 1); mkV 0 0 3 (Some 1); mkV 0 0 3 (Some 1)];
   KIn (IStart 0); KWal (WTimeout SPropose 1 0); KSync (mkP 1 0 0 (-1) 2) []].
Example ex_calls_disciplined :
  disciplined_calls (ex_cfg 2) (init_state 0) ex_calls = true /\
  existsb (fun a => match a with ACommit p => p_val p =? 1 | _ => false end)
          (calls_actions (snd (run_calls (ex_cfg 2) (init_state 0) ex_calls))) = true /\
  s_h (fst (run_calls (ex_cfg 2) (init_state 0) ex_calls)) = 1 /\
  votes_of Prevote (calls_actions (snd (run_calls (ex_cfg 2) (init_state 0) ex_calls))) = [mkV 0 0 2 (Some 1); mkV 1 0 2 None].
Proof. vm_compute. auto. Qed.

(* ---------- replaying the log a run wrote reaches the same state ---------- *)
(* "The same state" = st_sim: every scalar field equal (height, round, step, lock, valid value/round, the three
   flags, isHeightStarted, lastTriggerSync, lastQuorum, number of Value() calls) and the vote counters hold the
   same round data in every cell (height >= current, round).  st_sim_b is its decision procedure (what the
   oracle evaluates); similar states return equal actions and stay similar under every call. *)
Theorem C12_st_sim_b_decides : forall s s', st_sim_b s s' = true <-> st_sim s s'.
Proof. exact st_sim_b_spec. Qed.

Theorem C12_calls_respect_st_sim : forall c, (forall h, 0 < q_of (c_total c h)) -> forall s s' i,
  st_sim s s' -> st_sim (fst (step c s i)) (fst (step c s' i)) /\ snd (step c s i) = snd (step c s' i).
Proof. exact step_sim_eq. Qed.

(* C12_wal_replay_same_state.  c is the environment of the live process, c' the one of the process that
   replays (restarted: another Application object).  Hypotheses, all explicit:
     cfg_same c c'        the replay's Application.Value() answers at every CALL INDEX k what the live one answered
                          (cs_value: c_value_at c k = c_value_at c' k; the state counts the calls, s_nval),
                          Application.Valid answers the same on every value (cs_valid), Hash, the Validators
                          functions and the own address are the same (pointwise; no extensionality axiom);
                          C12_wal_replay_value_needed shows it is needed;
     quorum > 0           total voting power >= 1 at every height (an empty round entry, as a rejected message
                          creates it, reaches a quorum of 0: C12_wal_replay_quorum_positive_needed);
     wal_disciplined      the log discipline (Model.wal_ok_input, executable; four clauses, each shown necessary).
   Then for EVERY such input sequence from the initial state of a height: feeding the entries the run logged (its
   AWalStart / AWalProposal / AWalPrevote / AWalPrecommit / AWalTimeout actions, in order) through ProcessWAL into a
   fresh state machine reaches the same state as the run (st_sim), and the replay returns exactly the actions the
   run returned (so it re-broadcasts the same votes). *)
Theorem C12_wal_replay_same_state : forall c c', cfg_same c c' -> (forall h, 0 < q_of (c_total c h)) -> forall h ins,
  wal_disciplined c (init_state h) ins = true ->
  st_sim (fst (replay_wal c' (init_state h) (wal_written (snd (run c (init_state h) ins)))))
         (fst (run c (init_state h) ins)) /\
  replay_actions (snd (replay_wal c' (init_state h) (wal_written (snd (run c (init_state h) ins))))) =
  all_actions (snd (run c (init_state h) ins)).
Proof. exact wal_replay_two_env. Qed.

(* an environment that is the same only pointwise *)
Example ex_cfg_same : cfg_same (ex_cfg 0)
  (mkCfg 0 (fun h => 2 + 2) (fun h a => if 4 <=? a then 0 else 1) (fun _ r => Z.to_N (r mod 4))
         (fun v => negb (v =? 9)) (fun v => v + 0) (fun k => k + 1)).
Proof.
  constructor; unfold ex_cfg; cbn [c_self c_total c_power c_proposer c_valid c_vid c_value_at]; intros; try reflexivity; try lia.
  destruct (a <? 4) eqn:A, (4 <=? a) eqn:B; try reflexivity; lia.
Qed.

(* the same environment on both sides *)
Theorem C12_wal_replay_same_state_one_env : forall c, (forall h, 0 < q_of (c_total c h)) -> forall h ins,
  wal_disciplined c (init_state h) ins = true ->
  st_sim (fst (replay_wal c (init_state h) (wal_written (snd (run c (init_state h) ins)))))
         (fst (run c (init_state h) ins)) /\
  replay_actions (snd (replay_wal c (init_state h) (wal_written (snd (run c (init_state h) ins))))) =
  all_actions (snd (run c (init_state h) ins)).
Proof. exact wal_replay_same_state_lemma. Qed.

(* the same as one boolean (evaluated by the oracle on every generated run, and by the harness on the real
   state machine: live instance vs a second instance fed through ProcessWAL) *)
Theorem C12_wal_replay_same_state_b : forall c, (forall h, 0 < q_of (c_total c h)) -> forall h ins,
  wal_disciplined c (init_state h) ins = true -> wal_replay_same c (init_state h) ins = true.
Proof. exact wal_replay_same_b_lemma. Qed.

(* from any state whose vote counter is well-formed (swf: reachable counters are, Proofs_WalReplay.step_wf),
   e.g. the state right after a Commit, whose counter already holds the buffered messages of the new height *)
Theorem C12_wal_replay_same_state_from : forall c, (forall h, 0 < q_of (c_total c h)) -> forall s0 ins,
  swf s0 -> wal_disciplined c s0 ins = true ->
  st_sim (fst (replay_wal c s0 (wal_written (snd (run c s0 ins))))) (fst (run c s0 ins)) /\
  replay_actions (snd (replay_wal c s0 (wal_written (snd (run c s0 ins))))) = all_actions (snd (run c s0 ins)).
Proof. exact wal_replay_same_state_from. Qed.

Theorem C12_reachable_counters_well_formed : forall c ins h, swf (fst (run c (init_state h) ins)).
Proof. exact run_wf. Qed.

(* the log discipline implies the calling discipline of the local safety theorems *)
Theorem C12_wal_discipline_is_a_discipline : forall c ins s,
  wal_disciplined c s ins = true -> disciplined c s ins = true.
Proof. exact wal_disciplined_disciplined. Qed.

(* non-vacuity: the committing history of ex_disciplined keeps the log discipline; 6 entries are logged *)
Example ex_wal_disciplined :
  wal_disciplined (ex_cfg 0) (init_state 0) ex_ins = true /\ wal_replay_same (ex_cfg 0) (init_state 0) ex_ins = true /\
  length (wal_written (snd (run (ex_cfg 0) (init_state 0) ex_ins))) = 6%nat /\
  (forall h, 0 < q_of (c_total (ex_cfg 0) h)).
Proof. split; [vm_compute; reflexivity|]. split; [vm_compute; reflexivity|]. split; [vm_compute; reflexivity|].
  intro h. vm_compute. reflexivity. Qed.

(* ---- the statement for ALL runs the driver can produce is false on the faithful model: two witnesses ---- *)
(* (1) A precommit that completes a quorum for a FUTURE height is added to the counter, moves lastTriggerSync /
   lastQuorum and returns only TriggerSync: it is not logged (process.go returns before processMessage).
   Validator 3 of 4 at height 1 (started, ProcessStart(0) first, every timeout live: nothing the driver could
   not do): three precommits for (height 2, round 0, id 5); the third is lost by the replay. *)
Definition trig_ins : list input :=
  [IStart 0; IPrecommit (mkV 2 0 0 (Some 5)); IPrecommit (mkV 2 0 1 (Some 5)); IPrecommit (mkV 2 0 2 (Some 5))].
Definition replayed (c : cfg) (h : N) (ins : list input) : state :=
  fst (replay_wal c (init_state h) (wal_written (snd (run c (init_state h) ins)))).
Theorem C12_wal_replay_same_state_refuted : exists c h ins,
  (forall h, 0 < q_of (c_total c h)) /\ disciplined c (init_state h) ins = true /\
  wal_replay_same c (init_state h) ins = false /\
  r_count_vote (vcell (s_vc (fst (run c (init_state h) ins))) 2 0) Precommit (Some 5) = 3 /\
  r_count_vote (vcell (s_vc (replayed c h ins)) 2 0) Precommit (Some 5) = 2 /\
  s_lts (fst (run c (init_state h) ins)) = 2 /\ s_lts (replayed c h ins) = 0.
Proof.
  exists (ex_cfg 3), 1, trig_ins. split; [intro h; vm_compute; reflexivity|]. vm_compute. repeat split; reflexivity.
Qed.
Example C12_wal_replay_trigger_sync_needed :
  wal_disciplined (ex_cfg 3) (init_state 1) trig_ins = false /\
  wal_disciplined (ex_cfg 3) (init_state 1) (firstn 3 trig_ins) = true.
Proof. vm_compute. auto. Qed.

(* (2) A stale timeout (it matches nothing, so it is not logged) still runs processLoop, and a rule can be
   pending: here the commit of the round-1 proposal (its quorum was completed by the validator's own precommit
   while processLoop looked at round 0).  The Commit, and the move to height 2, are lost by the replay.
   (C13's finding recovery:stale-timeout-commits-unlogged, at the level of the state machine.) *)
Definition stale_ins : list input :=
  [IStart 0; ITimeout SPropose 1 0; IPrevote (mkV 1 0 0 (Some 11)); IPrevote (mkV 1 0 1 (Some 11));
   IPrecommit (mkV 1 0 0 None); IPrecommit (mkV 1 0 1 None); IPrecommit (mkV 1 0 2 None);
   ITimeout SPrecommit 1 0; IProposal (mkP 1 1 1 0 11);
   IPrevote (mkV 1 1 0 (Some 11)); IPrevote (mkV 1 1 1 (Some 11));
   IPrecommit (mkV 1 1 0 (Some 11)); IPrecommit (mkV 1 1 1 (Some 11));
   IPrevote (mkV 1 0 2 (Some 11))].
Theorem C12_wal_replay_stale_timeout_refuted :
  disciplined (ex_cfg 3) (init_state 1) (stale_ins ++ [ITimeout SPropose 1 1]) = true /\
  wal_disciplined (ex_cfg 3) (init_state 1) stale_ins = true /\
  wal_disciplined (ex_cfg 3) (init_state 1) (stale_ins ++ [ITimeout SPropose 1 1]) = false /\
  snd (step (ex_cfg 3) (fst (run (ex_cfg 3) (init_state 1) stale_ins)) (ITimeout SPropose 1 1)) = [ACommit (mkP 1 1 1 0 11)] /\
  wal_replay_same (ex_cfg 3) (init_state 1) (stale_ins ++ [ITimeout SPropose 1 1]) = false /\
  s_h (fst (run (ex_cfg 3) (init_state 1) (stale_ins ++ [ITimeout SPropose 1 1]))) = 2 /\
  s_h (replayed (ex_cfg 3) 1 (stale_ins ++ [ITimeout SPropose 1 1])) = 1.
Proof. vm_compute. repeat split; reflexivity. Qed.

(* ---- the remaining clauses of the discipline and the remaining hypotheses are not decorative ---- *)
(* ProcessStart(1): the Start entry is replayed as ProcessStart(0) *)
Example C12_wal_replay_start_round_needed :
  disciplined (ex_cfg 2) (init_state 0) [IStart 1] = true /\ wal_disciplined (ex_cfg 2) (init_state 0) [IStart 1] = false /\
  wal_replay_same (ex_cfg 2) (init_state 0) [IStart 1] = false /\
  s_r (fst (run (ex_cfg 2) (init_state 0) [IStart 1])) = 1%Z /\ s_r (replayed (ex_cfg 2) 0 [IStart 1]) = 0%Z.
Proof. vm_compute. repeat split; reflexivity. Qed.

(* a message handed over before ProcessStart is counted but not logged *)
Example C12_wal_replay_started_needed :
  disciplined (ex_cfg 2) (init_state 0) [IPrevote (mkV 0 0 1 (Some 1)); IStart 0] = true /\
  wal_disciplined (ex_cfg 2) (init_state 0) [IPrevote (mkV 0 0 1 (Some 1)); IStart 0] = false /\
  wal_replay_same (ex_cfg 2) (init_state 0) [IPrevote (mkV 0 0 1 (Some 1)); IStart 0] = false.
Proof. vm_compute. repeat split; reflexivity. Qed.

(* literally equal states is too much to ask: a proposal from the wrong sender is rejected and not logged, but
   getRoundData has created an (empty) entry for its round; the states are similar, not equal *)
Definition reject_ins : list input := [IStart 0; IProposal (mkP 0 5 3 (-1) 1); IPrevote (mkV 0 0 0 (Some 1))].
Example C12_wal_replay_exact_equality_refuted :
  wal_disciplined (ex_cfg 2) (init_state 0) reject_ins = true /\
  wal_replay_same (ex_cfg 2) (init_state 0) reject_ins = true /\
  map fst (vc_rounds (s_vc (fst (run (ex_cfg 2) (init_state 0) reject_ins)))) = [5%Z; 0%Z] /\
  map fst (vc_rounds (s_vc (replayed (ex_cfg 2) 0 reject_ins))) = [0%Z] /\
  replayed (ex_cfg 2) 0 reject_ins <> fst (run (ex_cfg 2) (init_state 0) reject_ins).
Proof.
  split; [vm_compute; reflexivity|]. split; [vm_compute; reflexivity|]. split; [vm_compute; reflexivity|].
  split; [vm_compute; reflexivity|]. intro E. apply (f_equal (fun s => length (vc_rounds (s_vc s)))) in E.
  vm_compute in E. discriminate.
Qed.

(* total voting power 0: quorum 0; the empty entry of a rejected proposal then "has a quorum of precommits" *)
Definition zero_cfg : cfg :=
  mkCfg 0 (fun _ => 0) (fun _ _ => 0) (fun _ _ => 1) (fun _ => true) (fun v => v) (fun _ => 0).
Definition zero_ins : list input := [IStart 0; IProposal (mkP 1 0 5 (-1) 7); IPrevote (mkV 1 3 1 None)].
Example C12_wal_replay_quorum_positive_needed :
  wal_disciplined zero_cfg (init_state 1) zero_ins = true /\ q_of (c_total zero_cfg 1) = 0 /\
  wal_replay_same zero_cfg (init_state 1) zero_ins = false /\
  In (ASchedule SPrecommit 1 0) (all_actions (snd (run zero_cfg (init_state 1) zero_ins))) /\
  ~ In (ASchedule SPrecommit 1 0)
       (replay_actions (snd (replay_wal zero_cfg (init_state 1) (wal_written (snd (run zero_cfg (init_state 1) zero_ins)))))).
Proof.
  split; [vm_compute; reflexivity|]. split; [vm_compute; reflexivity|]. split; [vm_compute; reflexivity|].
  split; [vm_compute; auto 10|]. vm_compute. intros [H|[H|[H|[]]]]; discriminate.
Qed.

(* cs_value of cfg_same is needed: Value() must answer the same at the same call index in the replay.  The
   proposer of round 0 replays its Start entry against an application that answers 5 instead of 1 (everything
   else the same): another proposal, another prevote for the same height and round *)
Definition other_app (c : cfg) : cfg :=
  mkCfg (c_self c) (c_total c) (c_power c) (c_proposer c) (c_valid c) (c_vid c) (fun k => 5 + k).
Example C12_wal_replay_value_needed :
  wal_disciplined (ex_cfg 0) (init_state 0) [IStart 0] = true /\
  votes_of Prevote (all_actions (snd (run (ex_cfg 0) (init_state 0) [IStart 0]))) = [mkV 0 0 0 (Some 1)] /\
  votes_of Prevote (replay_actions (snd (replay_wal (other_app (ex_cfg 0)) (init_state 0)
                      (wal_written (snd (run (ex_cfg 0) (init_state 0) [IStart 0])))))) = [mkV 0 0 0 (Some 5)] /\
  st_sim_b (fst (replay_wal (other_app (ex_cfg 0)) (init_state 0) (wal_written (snd (run (ex_cfg 0) (init_state 0) [IStart 0])))))
           (fst (run (ex_cfg 0) (init_state 0) [IStart 0])) = false.
Proof. vm_compute. repeat split; reflexivity. Qed.

(* ---------- (c) agreement and validity when correct validators also take ProcessWAL / ProcessSync steps ---------- *)
(* greach_x (Proofs_GlobalX.v): as greach, but a correct validator may make ANY of the seven calls.  ProcessSync
   checks nothing itself - height, round, sender and quorum are checked by ProcessProposal / ProcessPrecommit,
   i.e. the vote counter takes every precommit at its sender's voting power - so it trusts its caller for one
   thing: that the messages are real.  Hypothesis of gx_call, for every call: each message handed over was sent
   (it is in the set of messages sent so far: broadcast by a correct validator, or carrying a faulty address).
   For ProcessWAL this holds because the log only holds received messages; for ProcessSync it is a requirement on
   the sync source.  C12_sync_caller_needed: without it agreement fails. *)
Theorem C12_agreement_with_sync : forall total power proposer valid vid va (vals : N -> list addr) (byz : addr -> bool) h0,
  (forall h, NoDup (vals h) /\ total h = pw_sum (power h) (fun _ => true) (vals h) /\
             forall a, power h a <> 0 -> In a (vals h)) ->
  (forall h, 1 <= total h < W / 2) ->
  (forall h, pw_sum (power h) byz (vals h) <= f_of (total h)) ->
  forall g p1 p2 c1 c2,
    greach_x total power proposer valid vid va byz h0 g -> byz p1 = false -> byz p2 = false ->
    decided g p1 c1 -> decided g p2 c2 -> p_h c1 = p_h c2 -> vid (p_val c1) = vid (p_val c2).
Proof. exact agreement_reachable_x. Qed.

Theorem C12_validity_with_sync : forall total power proposer valid vid va (vals : N -> list addr) (byz : addr -> bool) h0,
  (forall h, NoDup (vals h) /\ total h = pw_sum (power h) (fun _ => true) (vals h) /\
             forall a, power h a <> 0 -> In a (vals h)) ->
  forall g p c1,
    greach_x total power proposer valid vid va byz h0 g -> byz p = false -> decided g p c1 ->
    valid (p_val c1) = true /\ p_from c1 = proposer (p_h c1) (p_r c1).
Proof. exact validity_reachable_x. Qed.

(* the system with seven calls contains the system of C12_agreement *)
Theorem C12_greach_x_extends_greach : forall total power proposer valid vid va (byz : addr -> bool) h0 g,
  greach total power proposer valid vid va byz h0 g -> greach_x total power proposer valid vid va byz h0 g.
Proof. exact greach_greach_x. Qed.

(* non-vacuity: in ex_g (validators 0 and 1 decided value 1) the lagging validator 2 is handed, by ProcessSync,
   the proposal and the precommits that were really sent (the faulty validator 3 adds its own): it decides
   value 1 too, and its next height is started from its log *)
Definition ex_sync_sched : list xcmd :=
  [XByz (MVote Precommit (mkV 0 0 3 (Some 1)));
   XCall 2 (KSync (mkP 0 0 0 (-1) 1) [mkV 0 0 0 (Some 1); mkV 0 0 1 (Some 1); mkV 0 0 3 (Some 1)]);
   XCall 2 (KWal (WStart 1))].
Definition ex_gx : gstate :=
  xsched_exec (fun _ => 4) (fun _ a => if a <? 4 then 1 else 0) (fun _ r => Z.to_N (r mod 4)) (fun v => negb (v =? 9))
              (fun v => v) (fun p _ => 1 + p) ex_g ex_sync_sched.
Example ex_reach_x_sync_decides :
  greach_x (fun _ => 4) (fun _ a => if a <? 4 then 1 else 0) (fun _ r => Z.to_N (r mod 4)) (fun v => negb (v =? 9))
           (fun v => v) (fun p _ => 1 + p) ex_byz 0 ex_gx /\
  decided ex_gx 2 (mkP 0 0 0 (-1) 1) /\ s_h (g_st ex_gx 2) = 1 /\ s_started (g_st ex_gx 2) = true.
Proof.
  split.
  - apply xsched_reach; [apply greach_greach_x; exact (proj1 ex_reach_decides)|vm_compute; reflexivity].
  - unfold decided. vm_compute. repeat split; auto 20.
Qed.

(* The hypothesis on the caller of ProcessSync is needed.  Same state ex_g; the faulty validator 3 (proposer of
   round 3) sends a proposal of value 2 for round 3 and its precommit for it; then validator 2 - which has
   itself precommitted value 1 in round 0 - is handed by ProcessSync that proposal, that precommit, and two
   precommits for value 2 "from" the correct validators 0 and 1, which they never sent.  Every other premise of
   gx_call holds.  Validator 2 decides value 2 in height 0; validators 0 and 1 decided value 1. *)
Definition forged_prop : proposal := mkP 0 3 3 (-1) 2.
Definition forged_sync : call :=
  KSync forged_prop [mkV 0 3 3 (Some 2); mkV 0 3 0 (Some 2); mkV 0 3 1 (Some 2)].
Definition ex_g_pre : gstate :=
  xsched_exec (fun _ => 4) (fun _ a => if a <? 4 then 1 else 0) (fun _ r => Z.to_N (r mod 4)) (fun v => negb (v =? 9))
              (fun v => v) (fun p _ => 1 + p) ex_g
              [XByz (MProp forged_prop); XByz (MVote Precommit (mkV 0 3 3 (Some 2)))].
Definition ex_g_forged : gstate :=
  g_call (fun _ => 4) (fun _ a => if a <? 4 then 1 else 0) (fun _ r => Z.to_N (r mod 4)) (fun v => negb (v =? 9))
         (fun v => v) (fun p _ => 1 + p) ex_g_pre 2 forged_sync.
Example C12_sync_caller_needed :
  greach_x (fun _ => 4) (fun _ a => if a <? 4 then 1 else 0) (fun _ r => Z.to_N (r mod 4)) (fun v => negb (v =? 9))
           (fun v => v) (fun p _ => 1 + p) ex_byz 0 ex_g_pre /\
  ex_byz 2 = false /\ ok_call (g_st ex_g_pre 2) forged_sync = true /\
  map (fun m => in_pool m (g_msgs ex_g_pre)) (call_msgs forged_sync) = [true; true; false; false] /\
  ex_byz 0 = false /\ ex_byz 1 = false /\
  decided ex_g_forged 0 (mkP 0 0 0 (-1) 1) /\ decided ex_g_forged 2 forged_prop /\
  p_h (mkP 0 0 0 (-1) 1) = p_h forged_prop /\ p_val (mkP 0 0 0 (-1) 1) <> p_val forged_prop.
Proof.
  split.
  - apply xsched_reach; [apply greach_greach_x; exact (proj1 ex_reach_decides)|vm_compute; reflexivity].
  - unfold decided. vm_compute. repeat split; auto 30. intro H; discriminate.
Qed.
