(* C13 — executable model of consensus/driver (crash / recovery through the write-ahead log).
   Transcribed from /repo/consensus/driver/driver.go (Run, replay, listen, execute, commit),
   /repo/consensus/tendermint/process.go (ProcessWAL) and the observable contract of
   /repo/consensus/walstore/wal_store.go (SetWALEntry / DeleteWALEntries / Flush / LoadAllEntries:
   pending records become durable at Flush, entries at or below the pruned height are dropped,
   LoadAllEntries orders by height, then by append order).  The Tendermint state machine itself is
   C12.Model.step, unchanged.  No proofs in this file; it is extracted to OCaml and run against the real
   driver + real WAL store.

   Application.Value() is the parameter e_val : height -> round -> call count -> value.  The call count is
   the number of Value() calls the application has answered so far (it is NOT reset by a restart of the
   validator: the world outside moves on), so "Value() is not reproducible after a restart" is expressible:
   value_deterministic says the answer does not depend on the count.
   Second half of the file (2026-09-26): plain_run (good_run without the per-run clause on rejected messages), the ways a
   life ends other than by a kill (fault / fault_outcome / end_disk / Worlds2), the log-content predicates, logged_state. *)
From Coq Require Import List NArith ZArith Bool.
From V Require Import C12.Model.
Import ListNotations.
Open Scope N_scope.

(* ---------- consensus/types/wal: the five entry kinds ---------- *)
Inductive entry :=
| EStart (h : N)
| EProposal (p : proposal)
| EPrevote (v : vote)
| EPrecommit (v : vote)
| ETimeout (k : phase) (h : N) (r : Z).

Definition entry_height (e : entry) : N :=
  match e with
  | EStart h => h
  | EProposal p => p_h p
  | EPrevote v => v_h v
  | EPrecommit v => v_h v
  | ETimeout _ h _ => h
  end.

(* ProcessWAL: Start is replayed as ProcessStart(0) whatever height the entry carries *)
Definition input_of_entry (e : entry) : input :=
  match e with
  | EStart _ => IStart 0
  | EProposal p => IProposal p
  | EPrevote v => IPrevote v
  | EPrecommit v => IPrecommit v
  | ETimeout k h r => ITimeout k h r
  end.

Definition entry_of_action (a : action) : option entry :=
  match a with
  | AWalStart h => Some (EStart h)
  | AWalProposal p => Some (EProposal p)
  | AWalPrevote v => Some (EPrevote v)
  | AWalPrecommit v => Some (EPrecommit v)
  | AWalTimeout k h r => Some (ETimeout k h r)
  | _ => None
  end.

(* ---------- what the driver does to the outside world ---------- *)
Inductive msg := MProposal (p : proposal) | MPrevote (v : vote) | MPrecommit (v : vote).

Inductive effect :=
| Append (e : entry)                (* db.SetWALEntry *)
| Flush                             (* db.Flush *)
| Bcast (m : msg)                   (* broadcasters.*.Broadcast *)
| Sched (k : phase) (h : N) (r : Z) (* scheduleTimeout *)
| CommitCb (h : N) (v : value)      (* commitListener.OnCommit *)
| Prune (h : N).                    (* db.DeleteWALEntries *)

(* ---------- the log, abstractly: durable records and pending records ---------- *)
Inductive wrec := REntry (e : entry) | RPrune (h : N).
Record wal := mkWal { w_durable : list wrec; w_pending : list wrec }.
Definition wal_empty : wal := mkWal [] [].

(* updateIndexesFromCommittedRecords / applyEncodedRecord: (prunedUpToHeight, live entries in append order) *)
Definition keep_above (h : N) (e : entry) : bool := negb (entry_height e <=? h).
Definition apply_rec (st : N * list entry) (r : wrec) : N * list entry :=
  match r with
  | REntry e => if entry_height e <=? fst st then st else (fst st, snd st ++ [e])
  | RPrune h => if h <=? fst st then st else (h, filter (keep_above h) (snd st))
  end.
Definition index_of (l : list wrec) : N * list entry := fold_left apply_rec l (0, []).
Definition pruned_upto (l : list wrec) : N := fst (index_of l).
Definition live_entries (l : list wrec) : list entry := snd (index_of l).

(* LoadAllEntries: heights ascending, append order inside a height (stable) *)
Fixpoint insert_h (e : entry) (l : list entry) : list entry :=
  match l with
  | [] => [e]
  | x :: r => if entry_height e <? entry_height x then e :: l else x :: insert_h e r
  end.
Definition sort_h (l : list entry) : list entry := fold_left (fun acc e => insert_h e acc) l [].
Definition load (durable : list wrec) : list entry := sort_h (live_entries durable).

(* SetWALEntry *)
Definition wal_append (e : entry) (w : wal) : wal :=
  if entry_height e <=? pruned_upto (w_durable w) then w
  else mkWal (w_durable w) (w_pending w ++ [REntry e]).

(* DeleteWALEntries: a pending prune record is raised instead of adding a second one *)
Fixpoint bump_prune (l : list wrec) (h : N) : option (list wrec) :=
  match l with
  | [] => None
  | RPrune h' :: r => Some (RPrune (N.max h' h) :: r)
  | x :: r => match bump_prune r h with Some r' => Some (x :: r') | None => None end
  end.
Definition wal_prune (h : N) (w : wal) : wal :=
  if h <=? pruned_upto (w_durable w) then w
  else match bump_prune (w_pending w) h with
       | Some l => mkWal (w_durable w) l
       | None => mkWal (w_durable w) (w_pending w ++ [RPrune h])
       end.

(* Flush *)
Definition wal_flush (w : wal) : wal := mkWal (w_durable w ++ w_pending w) [].

(* the durable consequences of an effect *)
Definition apply_effect (w : wal) (e : effect) : wal :=
  match e with
  | Append x => wal_append x w
  | Flush => wal_flush w
  | Prune h => wal_prune h w
  | _ => w
  end.
Definition apply_effects (w : wal) (l : list effect) : wal := fold_left apply_effect l w.

(* a crash after the first k effects of a life that booted on [dur0]: what is on disk *)
Definition crash_at (k : nat) (effs : list effect) (dur0 : list wrec) : list wrec :=
  w_durable (apply_effects (mkWal dur0 []) (firstn k effs)).

(* ---------- actions.go RequiresWALFlush + driver.execute ---------- *)
Definition requires_flush (a : action) : bool :=
  match a with
  | ABroadcastProposal _ | ABroadcastPrevote _ | ABroadcastPrecommit _ | ACommit _ => true
  | _ => false
  end.

Definition pre_flush (replaying : bool) (a : action) (w : wal) : wal * list effect :=
  if negb replaying && requires_flush a then (wal_flush w, [Flush]) else (w, []).

(* one action other than Commit *)
Definition exec_one (replaying : bool) (w : wal) (a : action) : wal * list effect :=
  match a with
  | ABroadcastProposal p => (w, [Bcast (MProposal p)])
  | ABroadcastPrevote v => (w, [Bcast (MPrevote v)])
  | ABroadcastPrecommit v => (w, [Bcast (MPrecommit v)])
  | ASchedule k h r => (w, [Sched k h r])
  | ATriggerSync _ _ => (w, [])       (* block fetcher: not an effect of this model *)
  | ACommit _ => (w, [])              (* handled by exec *)
  | _ => match entry_of_action a with
         | Some e => if replaying then (w, []) else (wal_append e w, [Append e])
         | None => (w, [])
         end
  end.

(* execute: returns (log, effects, isCommitted); a Commit action ends the loop (return true, d.commit(..)),
   commit = listener, prune up to the height, flush *)
Fixpoint exec (replaying : bool) (w : wal) (acts : list action) : wal * list effect * bool :=
  match acts with
  | [] => (w, [], false)
  | a :: rest =>
      let '(w1, pre) := pre_flush replaying a w in
      match a with
      | ACommit p =>
          (wal_flush (wal_prune (p_h p) w1), pre ++ [CommitCb (p_h p) (p_val p); Prune (p_h p); Flush], true)
      | _ =>
          let '(w2, eff) := exec_one replaying w1 a in
          let '(w3, more, com) := exec replaying w2 rest in
          (w3, pre ++ eff ++ more, com)
      end
  end.

(* ---------- the environment of one validator ---------- *)
Record env := mkEnv {
  e_cfg : cfg;                      (* Validators, Valid, Hash, own address; its c_value_at is not used *)
  e_val : N -> Z -> N -> value      (* Application.Value() asked at (height, round), after n earlier calls *)
}.

Definition value_deterministic (E : env) : Prop := forall h r n m, e_val E h r n = e_val E h r m.

Definition cfg_at (E : env) (h : N) (r : Z) (n : N) : cfg :=
  let c := e_cfg E in
  mkCfg (c_self c) (c_total c) (c_power c) (c_proposer c) (c_valid c) (c_vid c) (fun _ => e_val E h r n).

(* the round in which startRound (hence Value()) can run while the state machine handles input i:
   ProcessStart(r) -> r; timeout precommit (h, r) -> r + 1; a message of round r -> r (line 55) *)
Definition in_round (i : input) : Z :=
  match i with
  | IStart r => r
  | IProposal p => p_r p
  | IPrevote v => v_r v
  | IPrecommit v => v_r v
  | ITimeout SPrecommit _ r => (r + 1)%Z
  | ITimeout _ _ r => r
  end.

Definition set_nval (s : state) (n : N) : state :=
  mkS (s_h s) (s_r s) (s_step s) (s_lv s) (s_lr s) (s_vv s) (s_vr s) (s_tpv s) (s_tpc s) (s_lvs s)
      (s_started s) (s_vc s) (s_lts s) (s_lq s) n.

(* one call of the state machine; the Value() counter lives outside the state machine (in the world) *)
Definition sm_step (E : env) (s : state) (calls : N) (i : input) : state * N * list action :=
  let '(s1, acts) := step (cfg_at E (s_h s) (in_round i) calls) (set_nval s 0) i in
  (set_nval s1 0, calls + s_nval s1, acts).

Record dstate := mkD { d_sm : state; d_wal : wal; d_calls : N }.

Definition dstep (E : env) (replaying : bool) (d : dstate) (i : input) : dstate * list effect * bool :=
  let '(s', n', acts) := sm_step E (d_sm d) (d_calls d) i in
  let '(w', effs, com) := exec replaying (d_wal d) acts in
  (mkD s' w' n', effs, com).

(* the trace of a life: one item per call of the state machine *)
Inductive label := LIn (i : input) | LWal (e : entry).
Definition step_tr := (label * list effect)%type.
Definition flat (tr : list step_tr) : list effect := flat_map snd tr.

(* listen: ProcessStart(0) at the top of the outer loop, again after every commit (also when ProcessStart
   itself committed: a lagging node).  Fuel bounds the number of consecutive committing starts. *)
Definition SFUEL : nat := 32.
Fixpoint starts (E : env) (fuel : nat) (d : dstate) : dstate * list step_tr :=
  match fuel with
  | O => (d, [])
  | S n =>
      let '(d1, eff, com) := dstep E false d (IStart 0) in
      if com then let '(d2, tr) := starts E n d1 in (d2, (LIn (IStart 0), eff) :: tr)
      else (d1, [(LIn (IStart 0), eff)])
  end.

Fixpoint listen (E : env) (d : dstate) (ins : list input) : dstate * list step_tr :=
  match ins with
  | [] => (d, [])
  | i :: rest =>
      let '(d1, eff, com) := dstep E false d i in
      let '(d2, tr2) := if com then starts E SFUEL d1 else (d1, []) in
      let '(d3, tr3) := listen E d2 rest in
      (d3, (LIn i, eff) :: tr2 ++ tr3)
  end.

Definition run_live (E : env) (d : dstate) (ins : list input) : dstate * list step_tr :=
  let '(d1, tr1) := starts E SFUEL d in
  let '(d2, tr2) := listen E d1 ins in
  (d2, tr1 ++ tr2).

(* replay: entries below the state machine's height are skipped; execute(isReplaying = true) *)
Fixpoint replay (E : env) (d : dstate) (es : list entry) : dstate * list step_tr :=
  match es with
  | [] => (d, [])
  | e :: rest =>
      if entry_height e <? s_h (d_sm d) then replay E d rest
      else
        let '(d1, eff, _) := dstep E true d (input_of_entry e) in
        let '(d2, tr) := replay E d1 rest in
        (d2, (LWal e, eff) :: tr)
  end.

(* a process started at height h on a log directory whose durable content is [durable] *)
Definition boot (h : N) (durable : list wrec) (calls : N) : dstate :=
  mkD (init_state h) (mkWal durable []) calls.

Definition recover (E : env) (h : N) (durable : list wrec) (calls : N) : dstate * list step_tr :=
  replay E (boot h durable calls) (load durable).

Definition lifetime (E : env) (h : N) (durable : list wrec) (calls : N) (ins : list input)
  : dstate * list step_tr :=
  let '(d1, tr1) := recover E h durable calls in
  let '(d2, tr2) := run_live E d1 ins in
  (d2, tr1 ++ tr2).

(* ---------- the property predicates (evaluated by the harness on the implementation's effects) ---------- *)
(* every Bcast / CommitCb is preceded by a Flush that comes after every earlier Append *)
Fixpoint flush_ok_from (dirty : bool) (l : list effect) : bool :=
  match l with
  | [] => true
  | Append _ :: r => flush_ok_from true r
  | Flush :: r => flush_ok_from false r
  | Bcast _ :: r => negb dirty && flush_ok_from dirty r
  | CommitCb _ _ :: r => negb dirty && flush_ok_from dirty r
  | _ :: r => flush_ok_from dirty r
  end.
Definition flush_before_visible (l : list effect) : bool := flush_ok_from false l.

Definition votes_in (k : vkind) (l : list effect) : list vote :=
  flat_map (fun e => match e, k with
                     | Bcast (MPrevote v), Prevote => [v]
                     | Bcast (MPrecommit v), Precommit => [v]
                     | _, _ => [] end) l.

Definition conflicts (a b : vote) : bool := same_slot a b && negb (oid_eqb (v_id a) (v_id b)).

Definition no_conflict_kind (k : vkind) (pre post : list effect) : bool :=
  forallb (fun a => forallb (fun b => negb (conflicts a b)) (votes_in k post)) (votes_in k pre).
(* no prevote / precommit after the restart conflicts with one broadcast before the crash *)
Definition no_conflict (pre post : list effect) : bool :=
  no_conflict_kind Prevote pre post && no_conflict_kind Precommit pre post.

Definition commits_in (l : list effect) : list N :=
  flat_map (fun e => match e with CommitCb h _ => [h] | _ => [] end) l.

(* the height after the last one whose commit callback completed *)
Definition resume_height (h0 : N) (pre : list effect) : N :=
  fold_left (fun _ h => h + 1) (commits_in pre) h0.

(* commit callbacks of a life are for consecutive heights starting at the boot height *)
Fixpoint consecutive_from (h : N) (l : list N) : bool :=
  match l with
  | [] => true
  | x :: r => (x =? h) && consecutive_from (h + 1) r
  end.

(* visible effects of a step of the live phase come after the Append of that step's own input *)
Definition is_visible (e : effect) : bool :=
  match e with Bcast _ | CommitCb _ _ => true | _ => false end.
Definition logged_first_step (st : step_tr) : bool :=
  match st with
  | (LWal _, _) => true
  | (LIn i, effs) =>
      negb (existsb is_visible effs) ||
      match effs with
      | Append e :: _ => match i, input_of_entry e with
                         | IStart _, IStart _ => true
                         | IProposal p, IProposal q => proposal_eqb p q
                         | IPrevote v, IPrevote u | IPrecommit v, IPrecommit u =>
                             (v_h v =? v_h u) && (v_r v =? v_r u)%Z && (v_from v =? v_from u) && oid_eqb (v_id v) (v_id u)
                         | ITimeout k h r, ITimeout k' h' r' => step_eqb k k' && (h =? h') && (r =? r')%Z
                         | _, _ => false
                         end
      | _ => false
      end
  end.
Definition logged_first (tr : list step_tr) : bool := forallb logged_first_step tr.

(* everything the check asks about one crash *)
Definition verdict (h0 : N) (pre : list effect) (post_tr : list step_tr) : bool * bool * bool :=
  (no_conflict pre (flat post_tr),
   consecutive_from (resume_height h0 pre) (commits_in (flat post_tr)),
   flush_before_visible (flat post_tr) && logged_first post_tr).

(* ---------- hypotheses of the theorems, as executable predicates ---------- *)
(* the calling discipline C12's invariant needs (C12 finding 1: ProcessTimeout does not look at
   isHeightStarted): no timeout reaches the state machine while its height is not started.  In the live
   phase the driver guarantees it by calling ProcessStart(0) first; during replay it depends on the log. *)
Fixpoint listen_disc (E : env) (d : dstate) (ins : list input) : bool :=
  match ins with
  | [] => true
  | i :: rest =>
      ok_input (d_sm d) i &&
      let '(d1, _, com) := dstep E false d i in
      listen_disc E (if com then fst (starts E SFUEL d1) else d1) rest
  end.
Fixpoint replay_disc (E : env) (d : dstate) (es : list entry) : bool :=
  match es with
  | [] => true
  | e :: rest =>
      if entry_height e <? s_h (d_sm d) then replay_disc E d rest
      else ok_input (d_sm d) (input_of_entry e) &&
           replay_disc E (fst (fst (dstep E true d (input_of_entry e)))) rest
  end.
Definition life_disc (E : env) (h : N) (durable : list wrec) (calls : N) (ins : list input) : bool :=
  replay_disc E (boot h durable calls) (load durable) &&
  listen_disc E (fst (starts E SFUEL (fst (recover E h durable calls)))) ins.

(* first life on an empty log at height h0, killed after k effects; second life on what was on disk, at the
   height after the last completed commit, the application having answered n2 calls before *)
Definition crash_restart (E : env) (h0 : N) (ins1 : list input) (k : nat) (n2 : N) (ins2 : list input)
  : list effect * (dstate * list step_tr) :=
  let effs := flat (snd (lifetime E h0 [] 0 ins1)) in
  let pre := firstn k effs in
  (pre, lifetime E (resume_height h0 pre) (crash_at k effs []) n2 ins2).

(* every vote broadcast before the crash is broadcast again by the restarted process *)
Definition covers_kind (k : vkind) (pre post : list effect) : bool :=
  forallb (fun a => existsb (fun b => same_slot a b && oid_eqb (v_id a) (v_id b) && (v_from a =? v_from b))
                            (votes_in k post)) (votes_in k pre).
Definition replay_covers (pre post : list effect) : bool :=
  covers_kind Prevote pre post && covers_kind Precommit pre post.

(* the pre-crash effects that concern heights the restarted process can still vote in *)
Definition at_or_above (h : N) (pre : list effect) : list effect :=
  filter (fun e => match e with
                   | Bcast (MPrevote v) => h <=? v_h v
                   | Bcast (MPrecommit v) => h <=? v_h v
                   | _ => true end) pre.

(* ---------- the executable hypothesis of the replay theorems: a "plain" run ---------- *)
(* cells of the vote counter: the round data of (height >= current, round), wherever it is stored *)
Definition vc_fut (vc : vcounter) (h : N) : rmap :=
  match aget N.eqb (vc_future vc) h with Some m => m | None => [] end.
Definition vc_cell (vc : vcounter) (h : N) (r : Z) : rdata :=
  rm_get (if h =? vc_h vc then vc_rounds vc else vc_fut vc h) r.

Fixpoint list_eqb {A : Type} (eqb : A -> A -> bool) (l1 l2 : list A) : bool :=
  match l1, l2 with
  | [], [] => true
  | x :: r1, y :: r2 => eqb x y && list_eqb eqb r1 r2
  | _, _ => false
  end.
Definition ballot_eqb (a b : ballot) : bool := Bool.eqb (fst a) (fst b) && Bool.eqb (snd a) (snd b).
Definition bset_eqb (a b : bset) : bool :=
  list_eqb (fun x y => (fst x =? fst y) && ballot_eqb (snd x) (snd y)) (b_bal a) (b_bal b) &&
  (b_pv a =? b_pv b) && (b_pc a =? b_pc b) && (b_tot a =? b_tot b).
Definition oprop_eqb (a b : option proposal) : bool :=
  match a, b with Some p, Some q => proposal_eqb p q | None, None => true | _, _ => false end.
Definition rdata_eqb (a b : rdata) : bool :=
  oprop_eqb (r_prop a) (r_prop b) && (r_unc a =? r_unc b) &&
  list_eqb (fun x y => (fst x =? fst y) && bset_eqb (snd x) (snd y)) (r_ids a) (r_ids b) &&
  bset_eqb (r_nil a) (r_nil b) && bset_eqb (r_all a) (r_all b).

Definition msg_pos (i : input) : option (N * Z) :=
  match i with
  | IProposal p => Some (p_h p, p_r p)
  | IPrevote v => Some (v_h v, v_r v)
  | IPrecommit v => Some (v_h v, v_r v)
  | _ => None
  end.
Definition timeout_matches (s : state) (k : phase) (h : N) (r : Z) : bool :=
  (s_h s =? h) && (s_r s =? r)%Z &&
  match k with SPropose => step_eqb (s_step s) SPropose | SPrevote => step_eqb (s_step s) SPrevote | SPrecommit => true end.
Definition is_rnone (ru : rule) : bool := match ru with RNone => true | _ => false end.
Definition has_commit (acts : list action) : bool :=
  existsb (fun a => match a with ACommit _ => true | _ => false end) acts.

(* one call of a plain run:
   - ProcessStart(0) does not itself commit (the validator alone is not a quorum, nothing was buffered);
   - a message (of any height) arrives while the height is started, does not take the TriggerSync path (a
     precommit completing a FUTURE-height quorum is counted but not logged), and if it is rejected (no action
     returned) it leaves its counter cell as it was;
   - a timeout arrives while the height is started, and if it does not match (stale) no rule is pending
     (process.go runs processLoop even for a stale timeout, and nothing of that call would be logged). *)
Definition has_trigger (acts : list action) : bool :=
  existsb (fun a => match a with ATriggerSync _ _ => true | _ => false end) acts.

Definition good_body (E : env) (s : state) (n : N) (i : input) (s' : state) (acts : list action) : bool :=
  ok_input s i &&
  match i with
  | IStart r => (r =? 0)%Z && negb (has_commit acts)
  | ITimeout k h r =>
      s_started s &&
      (timeout_matches s k h r ||
       is_rnone (select (cfg_at E (s_h s) (in_round i) n) (set_nval s 0) None))
  | _ => match msg_pos i with
         | Some (h, r) =>
             s_started s && negb (has_trigger acts) &&
             match acts with
             | [] => rdata_eqb (vc_cell (s_vc s) h r) (vc_cell (s_vc s') h r)
             | _ => true
             end
         | None => true
         end
  end.
Definition good_step (E : env) (d : dstate) (i : input) : bool :=
  let r := sm_step E (d_sm d) (d_calls d) i in
  good_body E (d_sm d) (d_calls d) i (fst (fst r)) (snd r).

Fixpoint starts_good (E : env) (fuel : nat) (d : dstate) : bool :=
  match fuel with
  | O => true
  | S n => good_step E d (IStart 0) &&
           let '(d1, _, com) := dstep E false d (IStart 0) in
           if com then starts_good E n d1 else true
  end.
Fixpoint listen_good (E : env) (d : dstate) (ins : list input) : bool :=
  match ins with
  | [] => true
  | i :: rest =>
      good_step E d i &&
      let '(d1, _, com) := dstep E false d i in
      (if com then starts_good E SFUEL d1 else true) &&
      listen_good E (if com then fst (starts E SFUEL d1) else d1) rest
  end.
(* a plain life on an empty log *)
Definition good_run (E : env) (h0 : N) (ins : list input) : bool :=
  (1 <=? h0) && starts_good E SFUEL (boot h0 [] 0) &&
  listen_good E (fst (starts E SFUEL (boot h0 [] 0))) ins.

Definition quorum_positive (E : env) : Prop := forall h, 0 < q_of (c_total (e_cfg E) h).

(* ---------- the boundaries between two calls of the state machine in the live phase ---------- *)
(* (state of the machine at the boundary, environment inputs not yet consumed) *)
Definition bstate := (state * list input)%type.
Fixpoint starts_states (E : env) (fuel : nat) (d : dstate) (rest : list input) : list bstate :=
  match fuel with
  | O => []
  | S n => let '(d1, _, com) := dstep E false d (IStart 0) in
           (d_sm d1, rest) :: (if com then starts_states E n d1 rest else [])
  end.
Fixpoint listen_states (E : env) (d : dstate) (ins : list input) : list bstate :=
  match ins with
  | [] => []
  | i :: rest =>
      let '(d1, _, com) := dstep E false d i in
      (d_sm d1, rest) :: (if com then starts_states E SFUEL d1 rest else []) ++
      listen_states E (if com then fst (starts E SFUEL d1) else d1) rest
  end.
Definition life_states (E : env) (h0 : N) (ins : list input) : list bstate :=
  (init_state h0, ins) :: starts_states E SFUEL (boot h0 [] 0) ins ++
  listen_states E (fst (starts E SFUEL (boot h0 [] 0))) ins.

(* ---------- any number of crashes ---------- *)
(* the live phase of a life that booted in state d is plain *)
Definition live_good (E : env) (d : dstate) (ins : list input) : bool :=
  starts_good E SFUEL d && listen_good E (fst (starts E SFUEL d)) ins.

(* the worlds a validator process can find itself started in: (height to start the state machine at, content
   of the log directory, effects of all earlier lives of this validator).  Initially an empty log; then any
   life with a plain live phase, killed after any number k of its effects (also during recovery), leaves the
   world in which the next life starts. *)
Inductive Worlds (E : env) : N -> list wrec -> list effect -> Prop :=
| world_init : forall h0, 1 <= h0 -> Worlds E h0 [] []
| world_next : forall H D EH n ins k,
    Worlds E H D EH -> live_good E (fst (recover E H D n)) ins = true ->
    let effs := flat (snd (lifetime E H D n ins)) in
    Worlds E (resume_height H (firstn k effs)) (crash_at k effs D) (EH ++ firstn k effs).

(* ====================================================================================================
   Part A (2026-09-26): the plain-run hypothesis WITHOUT the per-run clause about rejected messages.
   good_body asked, per run, that a rejected message (no action returned) leaves its counter cell as it
   was (rdata_eqb).  C12/Proofs_WalReplay.v proves that for every counter a run can reach (rd_wf / vc_wf:
   vc_add_vote_reject, vc_add_proposal_reject), so the clause is dropped here; Proofs_Plain.v shows
   plain_* implies good_* and the theorems are restated with plain_*.
   ==================================================================================================== *)
Definition plain_body (E : env) (s : state) (n : N) (i : input) (acts : list action) : bool :=
  ok_input s i &&
  match i with
  | IStart r => (r =? 0)%Z && negb (has_commit acts)
  | ITimeout k h r =>
      s_started s &&
      (timeout_matches s k h r ||
       is_rnone (select (cfg_at E (s_h s) (in_round i) n) (set_nval s 0) None))
  | _ => s_started s && negb (has_trigger acts)
  end.
Definition plain_step (E : env) (d : dstate) (i : input) : bool :=
  plain_body E (d_sm d) (d_calls d) i (snd (sm_step E (d_sm d) (d_calls d) i)).

Fixpoint starts_plain (E : env) (fuel : nat) (d : dstate) : bool :=
  match fuel with
  | O => true
  | S n => plain_step E d (IStart 0) &&
           let '(d1, _, com) := dstep E false d (IStart 0) in
           if com then starts_plain E n d1 else true
  end.
Fixpoint listen_plain (E : env) (d : dstate) (ins : list input) : bool :=
  match ins with
  | [] => true
  | i :: rest =>
      plain_step E d i &&
      let '(d1, _, com) := dstep E false d i in
      (if com then starts_plain E SFUEL d1 else true) &&
      listen_plain E (if com then fst (starts E SFUEL d1) else d1) rest
  end.
Definition plain_run (E : env) (h0 : N) (ins : list input) : bool :=
  (1 <=? h0) && starts_plain E SFUEL (boot h0 [] 0) &&
  listen_plain E (fst (starts E SFUEL (boot h0 [] 0))) ins.
Definition live_plain (E : env) (d : dstate) (ins : list input) : bool :=
  starts_plain E SFUEL d && listen_plain E (fst (starts E SFUEL d)) ins.

(* ====================================================================================================
   Part B (2026-09-26): the ways a life can end other than by a hard kill.
   driver.Run returns through its deferred d.db.Close() (which flushes what is pending) when
     - commitListener.OnCommit returns false (commit() -> "commit listener failed" / ctx.Err()),
     - db.SetWALEntry / db.Flush / db.DeleteWALEntries return an error (execute / commit return it),
     - the context is cancelled: listen() notices at its next select (the top of the outer loop, or
       between two inputs); replay() never looks at the context; a cancelled context makes the commit
       listener refuse (consensus/driver/commit_listener.go: select on ctx.Done()).
   Up to the failing operation the process does what the fault-free life does, so the effects of such a
   life are a prefix of the fault-free life's effects; what differs from a kill is the final flush.
   ==================================================================================================== *)
Inductive fault :=
| FNone
| FKill (k : nat)                               (* killed after k effects *)
| FFail (k : nat) (performed close_ok : bool)   (* the first store call / commit callback at or after effect number k
                                                   (0-based) reports failure (error / OnCommit returns false);
                                                   performed: it did its work nevertheless.  If there is none the
                                                   life is shut down at its end. *)
| FCancel (k : nat) (close_ok : bool).          (* the context is cancelled when k effects have been performed *)

Definition fallible (e : effect) : bool :=
  match e with Append _ | Flush | Prune _ | CommitCb _ _ => true | _ => false end.

(* effects of a call up to (not including) its commit callback *)
Fixpoint take_until_cb (es : list effect) : list effect * option effect :=
  match es with
  | [] => ([], None)
  | CommitCb h v :: _ => ([], Some (CommitCb h v))
  | e :: r => let '(l, o) := take_until_cb r in (e :: l, o)
  end.

(* the calls a life still makes once its context is cancelled after k effects, and the callback that refuses *)
Fixpoint cancel_steps (tr : list step_tr) (k : nat) (cancelled : bool) : list step_tr * option effect :=
  match tr with
  | [] => ([], None)
  | (l, es) :: rest =>
      if cancelled then
        match l with
        | LWal _ =>
            let '(pre, o) := take_until_cb es in
            match o with
            | Some x => ([(l, pre)], Some x)
            | None => let '(more, o') := cancel_steps rest k true in ((l, es) :: more, o')
            end
        | LIn _ => ([], None)               (* listen: select on ctx.Done() before ProcessStart *)
        end
      else if Nat.ltb k (length es) then
        let '(pre, o) := take_until_cb (skipn k es) in
        match o with
        | Some x => ([(l, firstn k es ++ pre)], Some x)
        | None =>
            match l with
            | LWal _ => let '(more, o') := cancel_steps rest 0 true in ((l, es) :: more, o')
            | LIn _ => ([(l, es)], None)
            end
        end
      else let '(more, o') := cancel_steps rest (k - length es) false in ((l, es) :: more, o')
  end.

(* the calls of a life whose operation number k fails *)
Fixpoint fail_steps (tr : list step_tr) (k : nat) (extra : nat) : list step_tr :=
  match tr with
  | [] => []
  | (l, es) :: rest =>
      if Nat.ltb k (length es) then [(l, firstn (k + extra) es)]
      else (l, es) :: fail_steps rest (k - length es) extra
  end.

(* the calls of a life killed after k effects (calls without effects go on until the next effect is due) *)
Fixpoint cut_steps (tr : list step_tr) (k : nat) : list step_tr :=
  match tr with
  | [] => []
  | (l, es) :: rest =>
      if Nat.leb (length es) k then (l, es) :: cut_steps rest (k - length es) else [(l, firstn k es)]
  end.

(* the first store call / commit callback at or after position k *)
Fixpoint first_fallible (effs : list effect) (k : nat) (pos : nat) : option (nat * effect) :=
  match effs with
  | [] => None
  | e :: r => if Nat.leb k pos && fallible e then Some (pos, e) else first_fallible r k (S pos)
  end.

Record outcome := mkOut {
  o_steps : list step_tr;        (* what the life did *)
  o_failed : option effect;      (* the operation that failed / the callback that refused *)
  o_valid : bool;                (* the fault script fits the life (the failing operation is a store call / callback) *)
  o_flushed : bool               (* Run returned through Close and Close's flush succeeded *)
}.

Definition fault_outcome (tr : list step_tr) (f : fault) : outcome :=
  let effs := flat tr in
  match f with
  | FNone => mkOut tr None true false
  | FKill k => mkOut (cut_steps tr k) None true false
  | FFail k p c =>
      match first_fallible effs k 0 with
      | Some (k', x) => mkOut (fail_steps tr k' (if p then 1 else 0)) (Some x) true c
      | None => mkOut tr None true c
      end
  | FCancel k c => let '(st, o) := cancel_steps tr k false in mkOut st o true c
  end.

(* the log after the first k effects of a life that booted on D *)
Definition wal_at (D : list wrec) (effs : list effect) (k : nat) : wal :=
  apply_effects (mkWal D []) (firstn k effs).
(* ... and what is on disk when Run then returns through Close and the flush succeeds *)
Definition stop_disk (k : nat) (effs : list effect) (D : list wrec) : list wrec :=
  w_durable (wal_flush (wal_at D effs k)).
Definition end_disk (flushed : bool) (k : nat) (effs : list effect) (D : list wrec) : list wrec :=
  if flushed then stop_disk k effs D else crash_at k effs D.

(* the places where Run can return with something still pending: everywhere else the driver has just flushed.
   With records pending, what follows up to the next Flush (or the end of the life) are only timers and
   broadcasts: a failing Flush (the retry inside Close may succeed), a SetWALEntry that stored its entry and
   reported an error, the end of a call of the live phase. *)
Fixpoint quiet_until_flush (l : list effect) : bool :=
  match l with
  | [] => true
  | Flush :: _ => true
  | Sched _ _ _ :: r => quiet_until_flush r
  | Bcast _ :: r => quiet_until_flush r
  | _ => false
  end.
Definition stop_ok (D : list wrec) (effs : list effect) (k : nat) : bool :=
  match w_pending (wal_at D effs k) with [] => true | _ => false end || quiet_until_flush (skipn k effs).

(* the worlds a validator process can be started in when lives end by kills AND by the regular return path *)
Inductive Worlds2 (E : env) : N -> list wrec -> list effect -> Prop :=
| w2_init : forall h0, 1 <= h0 -> Worlds2 E h0 [] []
| w2_kill : forall H D EH n ins k,
    Worlds2 E H D EH -> live_plain E (fst (recover E H D n)) ins = true ->
    let effs := flat (snd (lifetime E H D n ins)) in
    Worlds2 E (resume_height H (firstn k effs)) (crash_at k effs D) (EH ++ firstn k effs)
| w2_stop : forall H D EH n ins k,
    Worlds2 E H D EH -> live_plain E (fst (recover E H D n)) ins = true ->
    let effs := flat (snd (lifetime E H D n ins)) in
    stop_ok D effs k = true ->
    Worlds2 E (resume_height H (firstn k effs)) (stop_disk k effs D) (EH ++ firstn k effs).

(* ---------- predicates evaluated on the implementation's observations ---------- *)
Definition entry_eqb (a b : entry) : bool :=
  match a, b with
  | EStart h, EStart h' => h =? h'
  | EProposal p, EProposal q => proposal_eqb p q
  | EPrevote v, EPrevote u | EPrecommit v, EPrecommit u =>
      (v_h v =? v_h u) && (v_r v =? v_r u)%Z && (v_from v =? v_from u) && oid_eqb (v_id v) (v_id u)
  | ETimeout k h r, ETimeout k' h' r' => step_eqb k k' && (h =? h') && (r =? r')%Z
  | _, _ => false
  end.

(* the entries appended before the last visible effect of a trace *)
Fixpoint seen_appends (l : list effect) (pend : list entry) : list entry :=
  match l with
  | [] => []
  | Append e :: r => seen_appends r (pend ++ [e])
  | Bcast _ :: r | CommitCb _ _ :: r => pend ++ seen_appends r []
  | _ :: r => seen_appends r pend
  end.
(* every entry appended before a visible effect is in the log L read back from the disk, unless its height is
   at or below lo (the last height whose commit completed: pruning those is the point of the commit) *)
Definition log_covers_visible (lo : N) (effs : list effect) (L : list entry) : bool :=
  forallb (fun e => (entry_height e <=? lo) || existsb (entry_eqb e) L) (seen_appends effs []).

(* a prune is only ever performed right after the commit callback of the same height returned true *)
Fixpoint prunes_follow_cb (prev : option effect) (l : list effect) : bool :=
  match l with
  | [] => true
  | Prune h :: r =>
      match prev with Some (CommitCb h' _) => h =? h' | _ => false end && prunes_follow_cb (Some (Prune h)) r
  | e :: r => prunes_follow_cb (Some e) r
  end.

(* nothing is pending in the log at the moment of a visible effect (dirty: something may be pending) *)
Fixpoint clean_when_visible (dirty : bool) (l : list effect) : bool :=
  match l with
  | [] => true
  | Append _ :: r | Prune _ :: r => clean_when_visible true r
  | Flush :: r => clean_when_visible false r
  | Bcast _ :: r | CommitCb _ _ :: r => negb dirty && clean_when_visible dirty r
  | _ :: r => clean_when_visible dirty r
  end.

(* ---------- the state the log stands for ---------- *)
(* AddProposal / AddPrevote / AddPrecommit of the vote counter alone (no rule is evaluated) *)
Definition count_msg (c : cfg) (s : state) (e : entry) : state :=
  match e with
  | EProposal p => set_vc s (fst (vc_add_proposal c (s_vc s) p))
  | EPrevote v => set_vc s (fst (vc_add_vote c (s_vc s) Prevote v))
  | EPrecommit v => set_vc s (fst (vc_add_vote c (s_vc s) Precommit v))
  | _ => s
  end.
(* the state machine alone (no driver, no log, no crash) fed with entries *)
Fixpoint sm_feed (E : env) (s : state) (n : N) (es : list entry) : state * N :=
  match es with
  | [] => (s, n)
  | e :: rest =>
      if entry_height e <? s_h s then sm_feed E s n rest
      else let '(s', n', _) := sm_step E s n (input_of_entry e) in sm_feed E s' n' rest
  end.
(* a fresh state machine at height H is given exactly the logged entries A: those of height H through the
   Process* calls in the order they were logged, those above H (messages received early) are counted *)
Definition logged_state (E : env) (H : N) (A : list entry) : state :=
  fold_left (count_msg (cfg_at E 0 0 0)) (filter (fun e => H <? entry_height e) A)
            (fst (sm_feed E (init_state H) 0 (filter (fun e => entry_height e =? H) A))).
Definition entries_of (l : list wrec) : list entry :=
  flat_map (fun r => match r with REntry e => [e] | RPrune _ => [] end) l.

(* no call of a recovery returns TriggerSync *)
Fixpoint feed_quiet (E : env) (s : state) (n : N) (es : list entry) : bool :=
  match es with
  | [] => true
  | e :: rest =>
      if entry_height e <? s_h s then feed_quiet E s n rest
      else let '(s', n', acts) := sm_step E s n (input_of_entry e) in negb (has_trigger acts) && feed_quiet E s' n' rest
  end.
Definition replay_quiet (E : env) (h : N) (D : list wrec) (n : N) : bool :=
  feed_quiet E (init_state h) n (load D).
