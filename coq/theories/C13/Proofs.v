(* C13 — lemmas, part 1: structure of the effect trace (flush-before-visible, the log is a function of
   the trace), independence of the state machine from the replay flag. *)
From Coq Require Import List NArith ZArith Bool Lia ZifyN ZifyBool.
From V Require Import C12.Model C13.Model.
Import ListNotations.
Open Scope N_scope.

(* ---------- flush_ok_from over concatenation ---------- *)
Definition dirty_step (d : bool) (e : effect) : bool :=
  match e with Append _ => true | Flush => false | _ => d end.
Definition dirty_after (d : bool) (l : list effect) : bool := fold_left dirty_step l d.

Lemma flush_ok_app : forall l1 l2 d,
  flush_ok_from d (l1 ++ l2) = flush_ok_from d l1 && flush_ok_from (dirty_after d l1) l2.
Proof.
  induction l1 as [|e l1 IH]; intros l2 d; simpl; [reflexivity|].
  destruct e; simpl; rewrite ?IH; try reflexivity; rewrite andb_assoc; reflexivity.
Qed.

Lemma dirty_after_app : forall l1 l2 d, dirty_after d (l1 ++ l2) = dirty_after (dirty_after d l1) l2.
Proof. intros. unfold dirty_after. apply fold_left_app. Qed.

(* ---------- execute, live mode: whatever was pending before, every visible effect follows a Flush ---------- *)
Ltac fin_exec r IH :=
  match goal with
  | |- context [exec r ?W ?rest] =>
      let E := fresh "E" in let IH' := fresh "IH'" in
      pose proof (IH W) as IH';
      destruct (exec r W rest) as [[? ?] ?] eqn:E; simpl in *
  end.

Lemma exec_live_ok : forall acts w d, flush_ok_from d (snd (fst (exec false w acts))) = true.
Proof.
  induction acts as [|a rest IH]; intros w d; [reflexivity|].
  simpl. destruct a; simpl; try reflexivity; fin_exec false IH; rewrite ?IH'; reflexivity.
Qed.

(* execute, replay mode: nothing is appended, so nothing can become dirty *)
Lemma exec_replay_ok : forall acts w,
  flush_ok_from false (snd (fst (exec true w acts))) = true /\
  dirty_after false (snd (fst (exec true w acts))) = false.
Proof.
  induction acts as [|a rest IH]; intros w; [split; reflexivity|].
  simpl. destruct a; simpl; try (split; reflexivity); fin_exec true IH; destruct IH' as [H1 H2];
    rewrite ?H1, ?H2; split; try reflexivity; assumption.
Qed.

(* ---------- the log is a function of the effect trace ---------- *)
Lemma apply_effects_app : forall l1 l2 w, apply_effects w (l1 ++ l2) = apply_effects (apply_effects w l1) l2.
Proof. intros. unfold apply_effects. apply fold_left_app. Qed.

Lemma exec_wal : forall r acts w, fst (fst (exec r w acts)) = apply_effects w (snd (fst (exec r w acts))).
Proof.
  induction acts as [|a rest IH]; intros w; [reflexivity|].
  simpl. destruct r, a; simpl; try reflexivity; fin_exec true IH || fin_exec false IH; rewrite IH'; reflexivity.
Qed.

(* ---------- one driver step ---------- *)
Definition sm_of (E : env) (d : dstate) (i : input) := sm_step E (d_sm d) (d_calls d) i.

Lemma dstep_spec : forall E r d i,
  dstep E r d i =
  (mkD (fst (fst (sm_of E d i))) (fst (fst (exec r (d_wal d) (snd (sm_of E d i))))) (snd (fst (sm_of E d i))),
   snd (fst (exec r (d_wal d) (snd (sm_of E d i)))),
   snd (exec r (d_wal d) (snd (sm_of E d i)))).
Proof.
  intros. unfold dstep, sm_of. destruct (sm_step E (d_sm d) (d_calls d) i) as [[s' n'] acts]. simpl.
  destruct (exec r (d_wal d) acts) as [[w' effs] com]. reflexivity.
Qed.

(* the state machine does not see the replay flag *)
Lemma dstep_sm_mode : forall E d i,
  d_sm (fst (fst (dstep E true d i))) = d_sm (fst (fst (dstep E false d i))) /\
  d_calls (fst (fst (dstep E true d i))) = d_calls (fst (fst (dstep E false d i))).
Proof. intros. rewrite !dstep_spec. simpl. split; reflexivity. Qed.

Lemma dstep_live_ok : forall E d i dirty, flush_ok_from dirty (snd (fst (dstep E false d i))) = true.
Proof. intros. rewrite dstep_spec. simpl. apply exec_live_ok. Qed.

Lemma dstep_replay_ok : forall E d i,
  flush_ok_from false (snd (fst (dstep E true d i))) = true /\
  dirty_after false (snd (fst (dstep E true d i))) = false.
Proof. intros. rewrite dstep_spec. simpl. apply exec_replay_ok. Qed.

Lemma dstep_wal : forall E r d i,
  d_wal (fst (fst (dstep E r d i))) = apply_effects (d_wal d) (snd (fst (dstep E r d i))).
Proof. intros. rewrite dstep_spec. simpl. apply exec_wal. Qed.

(* ---------- traces ---------- *)
Definition live_ok (tr : list step_tr) : Prop := forall dirty, flush_ok_from dirty (flat tr) = true.

Lemma flat_cons : forall l eff tr, flat ((l, eff) :: tr) = eff ++ flat tr.
Proof. reflexivity. Qed.
Lemma flat_app : forall a b, flat (a ++ b) = flat a ++ flat b.
Proof. intros. unfold flat. apply flat_map_app. Qed.

Lemma live_ok_cons : forall l eff tr,
  (forall dirty, flush_ok_from dirty eff = true) -> live_ok tr -> live_ok ((l, eff) :: tr).
Proof. intros l eff tr H1 H2 d. rewrite flat_cons, flush_ok_app, H1, H2. reflexivity. Qed.
Lemma live_ok_app : forall a b, live_ok a -> live_ok b -> live_ok (a ++ b).
Proof. intros a b H1 H2 d. rewrite flat_app, flush_ok_app, H1, H2. reflexivity. Qed.
Lemma live_ok_nil : live_ok [].
Proof. intro d. reflexivity. Qed.

Lemma starts_ok : forall E fuel d,
  live_ok (snd (starts E fuel d)) /\
  d_wal (fst (starts E fuel d)) = apply_effects (d_wal d) (flat (snd (starts E fuel d))).
Proof.
  induction fuel as [|n IH]; intros d; simpl; [split; [apply live_ok_nil|reflexivity]|].
  pose proof (dstep_live_ok E d (IStart 0)) as L. pose proof (dstep_wal E false d (IStart 0)) as W.
  destruct (dstep E false d (IStart 0)) as [[d1 eff] com]. cbn [fst snd] in *. destruct com.
  - destruct (IH d1) as [I1 I2]. destruct (starts E n d1) as [d2 tr]. cbn [fst snd] in *. split.
    + apply live_ok_cons; assumption.
    + rewrite flat_cons, apply_effects_app, <- W. assumption.
  - cbn [fst snd]. split.
    + apply live_ok_cons; [assumption|apply live_ok_nil].
    + rewrite flat_cons. cbn [flat flat_map]. rewrite app_nil_r. assumption.
Qed.

Lemma listen_ok : forall E ins d,
  live_ok (snd (listen E d ins)) /\
  d_wal (fst (listen E d ins)) = apply_effects (d_wal d) (flat (snd (listen E d ins))).
Proof.
  induction ins as [|i rest IH]; intros d; [simpl; split; [apply live_ok_nil|reflexivity]|].
  cbn [listen].
  pose proof (dstep_live_ok E d i) as L. pose proof (dstep_wal E false d i) as W.
  destruct (dstep E false d i) as [[d1 eff] com]. cbn [fst snd] in *.
  assert (S : exists d2 tr2, (if com then starts E SFUEL d1 else (d1, [])) = (d2, tr2) /\ live_ok tr2 /\
                             d_wal d2 = apply_effects (d_wal d1) (flat tr2)).
  { destruct com.
    - destruct (starts_ok E SFUEL d1) as [A B]. destruct (starts E SFUEL d1) as [d2 tr2]. eauto.
    - exists d1, []. split; [reflexivity|]. split; [apply live_ok_nil|reflexivity]. }
  destruct S as [d2 [tr2 [ES [L2 W2]]]]. rewrite ES.
  destruct (IH d2) as [I1 I2]. destruct (listen E d2 rest) as [d3 tr3]. cbn [fst snd] in *. split.
  - apply live_ok_cons; [assumption|]. apply live_ok_app; assumption.
  - rewrite flat_cons, flat_app, !apply_effects_app, <- W, <- W2. assumption.
Qed.

Lemma run_live_ok : forall E d ins,
  live_ok (snd (run_live E d ins)) /\
  d_wal (fst (run_live E d ins)) = apply_effects (d_wal d) (flat (snd (run_live E d ins))).
Proof.
  intros. unfold run_live. destruct (starts_ok E SFUEL d) as [A B]. destruct (starts E SFUEL d) as [d1 tr1].
  destruct (listen_ok E ins d1) as [C D]. destruct (listen E d1 ins) as [d2 tr2]. cbn [fst snd] in *. split.
  - apply live_ok_app; assumption.
  - rewrite flat_app, apply_effects_app, <- B. assumption.
Qed.

Lemma replay_ok : forall E es d,
  flush_ok_from false (flat (snd (replay E d es))) = true /\
  dirty_after false (flat (snd (replay E d es))) = false /\
  d_wal (fst (replay E d es)) = apply_effects (d_wal d) (flat (snd (replay E d es))).
Proof.
  induction es as [|e rest IH]; intros d; [simpl; repeat split|].
  cbn [replay].
  destruct (entry_height e <? s_h (d_sm d)); [apply IH|].
  destruct (dstep_replay_ok E d (input_of_entry e)) as [L1 L2].
  pose proof (dstep_wal E true d (input_of_entry e)) as W.
  destruct (dstep E true d (input_of_entry e)) as [[d1 eff] com]. cbn [fst snd] in *.
  destruct (IH d1) as [I1 [I2 I3]]. destruct (replay E d1 rest) as [d2 tr]. cbn [fst snd] in *.
  rewrite flat_cons, flush_ok_app, dirty_after_app, apply_effects_app, L1, L2, <- W. auto.
Qed.

(* C13_flush_before_visible and the log-follows-trace lemma, for a whole life *)
Lemma lifetime_flush_ok : forall E h durable calls ins,
  flush_before_visible (flat (snd (lifetime E h durable calls ins))) = true.
Proof.
  intros. unfold lifetime, recover, flush_before_visible.
  destruct (replay_ok E (load durable) (boot h durable calls)) as [A [B _]].
  destruct (replay E (boot h durable calls) (load durable)) as [d1 tr1].
  destruct (run_live_ok E d1 ins) as [C _]. destruct (run_live E d1 ins) as [d2 tr2]. cbn [fst snd] in *.
  rewrite flat_app, flush_ok_app, A, B. apply C.
Qed.

Lemma lifetime_wal : forall E h durable calls ins,
  d_wal (fst (lifetime E h durable calls ins)) =
  apply_effects (mkWal durable []) (flat (snd (lifetime E h durable calls ins))).
Proof.
  intros. unfold lifetime, recover.
  destruct (replay_ok E (load durable) (boot h durable calls)) as [_ [_ A]].
  destruct (replay E (boot h durable calls) (load durable)) as [d1 tr1].
  destruct (run_live_ok E d1 ins) as [_ C]. destruct (run_live E d1 ins) as [d2 tr2]. cbn [fst snd] in *.
  cbn [boot d_wal] in A. rewrite flat_app, apply_effects_app, <- A. assumption.
Qed.

(* the Prop reading of flush_ok_from: between an Append and a later visible effect there is a Flush *)
Lemma flush_ok_spec : forall l d, flush_ok_from d l = true ->
  forall l1 e l2 x l3, l = l1 ++ Append e :: l2 ++ x :: l3 -> is_visible x = true -> In Flush l2.
Proof.
  assert (G : forall l2 x l3, is_visible x = true -> flush_ok_from true (l2 ++ x :: l3) = true -> In Flush l2).
  { induction l2 as [|y l2 IH]; intros x l3 V H; simpl in *.
    - destruct x; simpl in *; discriminate.
    - destruct y; simpl in *; try discriminate; auto; right; eapply IH; eassumption. }
  induction l as [|y l IH]; intros d H l1 e l2 x l3 EQ V.
  - destruct l1; discriminate.
  - destruct l1 as [|z l1]; simpl in EQ; injection EQ as -> ->.
    + simpl in H. eapply G; eassumption.
    + destruct z; simpl in H; try (apply andb_prop in H; destruct H as [_ H]); eapply IH; eauto.
Qed.
