(* C13 — lemmas, part 9: a call of the state machine that is not a message of a higher height never touches
   the vote-counter cells of heights above its own (so a validator that never received anything for a
   future height enters every height with an empty counter, exactly like a freshly started process). *)
From Coq Require Import List NArith ZArith Bool Lia ZifyN ZifyBool.
From V Require Import C12.Model C12.Proofs C13.Proofs_Obs.
Import ListNotations.
Open Scope N_scope.

Definition WF (s : state) : Prop := vc_h (s_vc s) = s_h s.
Definition above (s s' : state) : Prop :=
  forall h' r, s_h s < h' -> cell (s_vc s') h' r = cell (s_vc s) h' r.

Lemma above_refl : forall s, above s s.
Proof. intros s h' r _. reflexivity. Qed.
Lemma above_trans : forall a b c, above a b -> s_h b = s_h a -> above b c -> above a c.
Proof. intros a b c H1 Hh H2 h' r Hlt. rewrite H2, H1; auto. lia. Qed.

Lemma vc_with_other : forall vc h r f h' r', h' <> h -> vc_h vc <= h' ->
  cell (fst (vc_with vc h r f)) h' r' = cell vc h' r'.
Proof.
  intros vc h r f h' r' Hne Hh'. destruct (N.lt_ge_cases h (vc_h vc)) as [L|G].
  - rewrite vc_with_low by exact L. reflexivity.
  - destruct (vc_with_spec vc h r f G) as [_ [_ A]]. rewrite A by exact Hh'.
    destruct (h' =? h) eqn:E; [lia|]. reflexivity.
Qed.

Section Cells.
  Variable c : cfg.

  Lemma add_vote_cells : forall s k v s1, WF s -> v_h v <= s_h s ->
    s1 = set_vc s (fst (vc_add_vote c (s_vc s) k v)) -> WF s1 /\ s_h s1 = s_h s /\ above s s1.
  Proof.
    intros s k v s1 W Hv ->. unfold WF in *. simpl. rewrite vc_add_vote_h. repeat split; auto.
    intros h' r Hlt. simpl. unfold vc_add_vote. apply vc_with_other; lia.
  Qed.
  Lemma add_proposal_cells : forall s p s1, WF s -> p_h p <= s_h s ->
    s1 = set_vc s (fst (vc_add_proposal c (s_vc s) p)) -> WF s1 /\ s_h s1 = s_h s /\ above s s1.
  Proof.
    intros s p s1 W Hv ->. unfold WF in *. simpl. rewrite vc_add_proposal_h. repeat split; auto.
    intros h' r Hlt. simpl. unfold vc_add_proposal. apply vc_with_other; lia.
  Qed.

  Lemma send_prevote_cells : forall s id, WF s ->
    WF (fst (send_prevote c s id)) /\ s_h (fst (send_prevote c s id)) = s_h s /\ above s (fst (send_prevote c s id)).
  Proof.
    intros s id W. unfold send_prevote. simpl.
    destruct (add_vote_cells s Prevote (mkV (s_h s) (s_r s) (c_self c) id) _ W ltac:(simpl; lia) eq_refl) as [A [B C]].
    repeat split; assumption.
  Qed.
  Lemma send_precommit_cells : forall s id, WF s ->
    WF (fst (send_precommit c s id)) /\ s_h (fst (send_precommit c s id)) = s_h s /\ above s (fst (send_precommit c s id)).
  Proof.
    intros s id W. unfold send_precommit. simpl.
    destruct (add_vote_cells s Precommit (mkV (s_h s) (s_r s) (c_self c) id) _ W ltac:(simpl; lia) eq_refl) as [A [B C]].
    repeat split; assumption.
  Qed.
  Lemma send_proposal_cells : forall s v, WF s ->
    WF (fst (send_proposal c s v)) /\ s_h (fst (send_proposal c s v)) = s_h s /\ above s (fst (send_proposal c s v)).
  Proof.
    intros s v W. unfold send_proposal. simpl.
    destruct (add_proposal_cells s (mkP (s_h s) (s_r s) (c_self c) (s_vr s) v) _ W ltac:(simpl; lia) eq_refl) as [A [B C]].
    repeat split; assumption.
  Qed.

  Lemma start_round_cells : forall s r, WF s ->
    WF (fst (start_round c s r)) /\ s_h (fst (start_round c s r)) = s_h s /\ above s (fst (start_round c s r)).
  Proof.
    intros s r W. unfold start_round.
    destruct (c_proposer c (vc_h (s_vc (reset_state s r))) r =? c_self c).
    - destruct (s_vv (reset_state s r)).
      + apply (send_proposal_cells (reset_state s r) v W).
      + match goal with |- context [send_proposal c ?t ?v] => apply (send_proposal_cells t v W) end.
    - simpl. split; [exact W|]. split; [reflexivity|]. intros h' r' _. reflexivity.
  Qed.
  Lemma start_new_height_above : forall vc h' r, vc_h vc < h' ->
    cell (vc_start_new_height vc) h' r = cell vc h' r.
  Proof.
    intros vc h' r Hlt. unfold vc_start_new_height, cell, row, fut. simpl.
    destruct (h' =? vc_h vc) eqn:E0; [lia|]. destruct (h' =? vc_h vc + 1) eqn:E1.
    - apply N.eqb_eq in E1. subst h'. reflexivity.
    - rewrite aget_adel_N, E1. reflexivity.
  Qed.

  (* (well-formed, cells above untouched, height unchanged unless the loop stops) *)
  Lemma apply_rule_cells : forall s ru, WF s ->
    WF (fst (fst (apply_rule c s ru))) /\ above s (fst (fst (apply_rule c s ru))) /\
    (snd (apply_rule c s ru) = true -> s_h (fst (fst (apply_rule c s ru))) = s_h s) /\
    s_h s <= s_h (fst (fst (apply_rule c s ru))).
  Proof.
    intros s ru W. destruct ru; cbn [apply_rule].
    - unfold do22. match goal with |- context [send_prevote c s ?i] => destruct (send_prevote_cells s i W) as [A [B C]]; destruct (send_prevote c s i) as [s1 a] end.
      simpl in *. repeat split; auto. lia.
    - unfold do28. match goal with |- context [send_prevote c s ?i] => destruct (send_prevote_cells s i W) as [A [B C]]; destruct (send_prevote c s i) as [s1 a] end.
      simpl in *. repeat split; auto. lia.
    - unfold do34. simpl. repeat split; auto; try lia; try apply above_refl.
    - unfold do36. destruct (step_eqb (s_step s) SPrevote).
      + assert (W1 : WF (set_lock s (p_val p))) by exact W.
        destruct (send_precommit_cells (set_lock s (p_val p)) (Some (pid c p)) W1) as [A [B C]].
        destruct (send_precommit c (set_lock s (p_val p)) _) as [s1 a]. simpl in *. repeat split; auto. lia.
      + simpl. repeat split; auto; try lia; try apply above_refl.
    - destruct (send_precommit_cells s None W) as [A [B C]].
      destruct (send_precommit c s None) as [s1 a]. simpl in *. repeat split; auto. lia.
    - unfold do47. simpl. repeat split; auto; try lia; try apply above_refl.
    - unfold do49. simpl. unfold WF in *. simpl. repeat split; try lia; try discriminate.
      intros h' r Hlt. simpl. apply start_new_height_above. lia.
    - destruct (start_round_cells s r W) as [A [B C]].
      destruct (start_round c s r) as [s1 a]. simpl in *. repeat split; auto. lia.
    - simpl. repeat split; auto; try lia; try apply above_refl.
  Qed.

  Lemma loop_cells : forall fuel s rr, WF s ->
    WF (fst (fst (loop c fuel s rr))) /\ above s (fst (fst (loop c fuel s rr))) /\
    s_h s <= s_h (fst (fst (loop c fuel s rr))).
  Proof.
    induction fuel as [|n IH]; intros s rr W; cbn [loop].
    - simpl. repeat split; auto; try lia; try apply above_refl.
    - destruct (apply_rule_cells s (select c s rr) W) as [A [B [C D]]].
      destruct (apply_rule c s (select c s rr)) as [[s1 oa] cont]. cbn [fst snd] in *. destruct cont.
      + destruct (IH s1 rr A) as [A2 [B2 D2]]. destruct (loop c n s1 rr) as [[s2 more] ex]. cbn [fst snd] in *.
        split; [exact A2|]. split; [eapply above_trans; [exact B|apply C; reflexivity|exact B2]|lia].
      + cbn [fst snd]. repeat split; auto.
  Qed.

  Lemma on_timeout_cells : forall s k h r, WF s ->
    WF (fst (on_timeout c s k h r)) /\ s_h (fst (on_timeout c s k h r)) = s_h s /\ above s (fst (on_timeout c s k h r)).
  Proof.
    intros s k h r W. unfold on_timeout. destruct k.
    - destruct ((s_h s =? h) && (s_r s =? r)%Z && step_eqb (s_step s) SPropose).
      + destruct (send_prevote_cells s None W) as [A [B C]]. destruct (send_prevote c s None). simpl in *. auto.
      + simpl. repeat split; auto; try apply above_refl.
    - destruct ((s_h s =? h) && (s_r s =? r)%Z && step_eqb (s_step s) SPrevote).
      + destruct (send_precommit_cells s None W) as [A [B C]]. destruct (send_precommit c s None). simpl in *. auto.
      + simpl. repeat split; auto; try apply above_refl.
    - destruct ((s_h s =? h) && (s_r s =? r)%Z).
      + destruct (start_round_cells s (r + 1)%Z W) as [A [B C]]. destruct (start_round c s (r + 1)%Z). simpl in *. auto.
      + simpl. repeat split; auto; try apply above_refl.
  Qed.

  Lemma process_message_cells : forall s w h r, WF s ->
    WF (fst (fst (process_message c s w h r))) /\ above s (fst (fst (process_message c s w h r))) /\
    s_h s <= s_h (fst (fst (process_message c s w h r))).
  Proof.
    intros s w h r W. unfold process_message. destruct (negb (h =? s_h s)).
    - simpl. repeat split; auto; try lia; try apply above_refl.
    - destruct (loop_cells FUEL s (Some r) W) as [A [B C]].
      destruct (loop c FUEL s (Some r)) as [[s1 a1] e1]. simpl in *. auto.
  Qed.

  Definition input_low (s : state) (i : input) : Prop :=
    match i with
    | IProposal p => p_h p <= s_h s
    | IPrevote v | IPrecommit v => v_h v <= s_h s
    | _ => True
    end.

  Lemma step_x_cells : forall s i, WF s -> input_low s i ->
    WF (fst (fst (step_x c s i))) /\ above s (fst (fst (step_x c s i))) /\ s_h s <= s_h (fst (fst (step_x c s i))).
  Proof.
    intros s i W L. destruct i as [r|p|v|v|k h r]; unfold step_x; simpl in L.
    - destruct (s_started s); [simpl; repeat split; auto; try lia; try apply above_refl|].
      assert (W1 : WF (set_started s true)) by exact W.
      destruct (start_round_cells (set_started s true) r W1) as [A [B C]].
      destruct (start_round c (set_started s true) r) as [s1 a]. cbn [fst snd] in *.
      destruct (loop_cells FUEL s1 None A) as [A2 [B2 C2]].
      destruct (loop c FUEL s1 None) as [[s2 acts] ex]. cbn [fst snd] in *. simpl in B.
      split; [exact A2|]. split; [eapply above_trans; [exact C|exact B|exact B2]|lia].
    - destruct (add_proposal_cells s p _ W L eq_refl) as [A [B C]].
      destruct (vc_add_proposal c (s_vc s) p) as [vc ok]. cbn [fst snd] in *.
      destruct (negb ok || negb (s_started (set_vc s vc))); [cbn [fst snd]; repeat split; auto; lia|].
      destruct (process_message_cells (set_vc s vc) (AWalProposal p) (p_h p) (p_r p) A) as [A2 [B2 C2]].
      split; [exact A2|]. split; [eapply above_trans; [exact C|exact B|exact B2]|lia].
    - destruct (add_vote_cells s Prevote v _ W L eq_refl) as [A [B C]].
      destruct (vc_add_vote c (s_vc s) Prevote v) as [vc ok]. cbn [fst snd] in *.
      destruct (negb ok || negb (s_started (set_vc s vc))); [cbn [fst snd]; repeat split; auto; lia|].
      destruct (process_message_cells (set_vc s vc) (AWalPrevote v) (v_h v) (v_r v) A) as [A2 [B2 C2]].
      split; [exact A2|]. split; [eapply above_trans; [exact C|exact B|exact B2]|lia].
    - destruct (add_vote_cells s Precommit v _ W L eq_refl) as [A [B C]].
      destruct (vc_add_vote c (s_vc s) Precommit v) as [vc ok]. cbn [fst snd] in *.
      destruct (negb ok || negb (s_started (set_vc s vc))); [cbn [fst snd]; repeat split; auto; lia|].
      match goal with |- context [if ?b then _ else _] => destruct b end.
      + unfold trigger_sync. cbn [fst snd]. unfold WF in *. simpl in *. repeat split; auto; lia.
      + destruct (process_message_cells (set_vc s vc) (AWalPrecommit v) (v_h v) (v_r v) A) as [A2 [B2 C2]].
        split; [exact A2|]. split; [eapply above_trans; [exact C|exact B|exact B2]|lia].
    - destruct (on_timeout_cells s k h r W) as [A [B C]].
      destruct (on_timeout c s k h r) as [s1 a0]. cbn [fst snd] in *.
      destruct (loop_cells FUEL s1 None A) as [A2 [B2 C2]].
      destruct (loop c FUEL s1 None) as [[s2 acts] ex]. cbn [fst snd] in *.
      split; [exact A2|]. split; [eapply above_trans; [exact C|exact B|exact B2]|lia].
  Qed.
End Cells.
