(* C13 — lemmas, part 4: a Commit action is always the last action the state machine returns for a call
   (so driver.execute, which returns at the Commit, never drops an action), over C12.Model.step. *)
From Coq Require Import List NArith ZArith Bool Lia ZifyN ZifyBool.
From V Require Import C12.Model.
Import ListNotations.
Open Scope N_scope.

Definition is_commit (a : action) : bool := match a with ACommit _ => true | _ => false end.
(* commit only as the last element *)
Fixpoint col (l : list action) : bool :=
  match l with
  | [] => true
  | a :: r => match r with [] => true | _ => negb (is_commit a) && col r end
  end.

Lemma col_cons : forall a l, is_commit a = false -> col l = true -> col (a :: l) = true.
Proof. intros a l H1 H2. simpl. destruct l; [reflexivity|]. rewrite H1. exact H2. Qed.

Lemma send_prevote_nc : forall c s id, is_commit (snd (send_prevote c s id)) = false.
Proof. reflexivity. Qed.
Lemma send_precommit_nc : forall c s id, is_commit (snd (send_precommit c s id)) = false.
Proof. reflexivity. Qed.
Lemma start_round_nc : forall c s r, is_commit (snd (start_round c s r)) = false.
Proof.
  intros. unfold start_round.
  destruct (c_proposer c (vc_h (s_vc (reset_state s r))) r =? c_self c); [|reflexivity].
  destruct (s_vv (reset_state s r)); reflexivity.
Qed.

(* a rule that lets the loop continue does not emit Commit *)
Lemma apply_rule_cont : forall c s ru s' a,
  apply_rule c s ru = (s', Some a, true) -> is_commit a = false.
Proof.
  intros c s ru s' a H. destruct ru; simpl in H.
  - unfold do22 in H. inversion H. reflexivity.
  - unfold do28 in H. inversion H. reflexivity.
  - inversion H. reflexivity.
  - unfold do36 in H. destruct (step_eqb (s_step s) SPrevote); inversion H. reflexivity.
  - inversion H. reflexivity.
  - inversion H. reflexivity.
  - inversion H.
  - pose proof (start_round_nc c s r) as N. destruct (start_round c s r) as [s1 a1]. inversion H. subst. exact N.
  - inversion H.
Qed.

Lemma loop_col : forall c fuel s rr, col (snd (fst (loop c fuel s rr))) = true.
Proof.
  induction fuel as [|n IH]; intros s rr; simpl; [reflexivity|].
  destruct (apply_rule c s (select c s rr)) as [[s1 oa] cont] eqn:E. destruct cont.
  - specialize (IH s1 rr). destruct (loop c n s1 rr) as [[s2 more] ex]. simpl in *.
    destruct oa as [a|]; simpl; [|exact IH]. apply col_cons; [|exact IH]. eapply apply_rule_cont; exact E.
  - destruct oa; reflexivity.
Qed.

Lemma step_x_col : forall c s i, col (snd (fst (step_x c s i))) = true.
Proof.
  intros c s i. destruct i as [r|p|v|v|k h r]; unfold step_x.
  - destruct (s_started s); [reflexivity|].
    pose proof (start_round_nc c (set_started s true) r) as N.
    destruct (start_round c (set_started s true) r) as [s1 a]. simpl in N.
    pose proof (loop_col c FUEL s1 None) as L. destruct (loop c FUEL s1 None) as [[s2 acts] ex]. cbn [fst snd] in *.
    apply col_cons; [reflexivity|]. apply col_cons; assumption.
  - destruct (vc_add_proposal c (s_vc s) p) as [vc ok].
    destruct (negb ok || negb (s_started (set_vc s vc))); [reflexivity|]. unfold process_message.
    destruct (negb (p_h p =? s_h (set_vc s vc))); [reflexivity|].
    pose proof (loop_col c FUEL (set_vc s vc) (Some (p_r p))) as L.
    destruct (loop c FUEL (set_vc s vc) (Some (p_r p))) as [[s2 acts] ex]. cbn [fst snd] in *.
    apply col_cons; [reflexivity|exact L].
  - destruct (vc_add_vote c (s_vc s) Prevote v) as [vc ok].
    destruct (negb ok || negb (s_started (set_vc s vc))); [reflexivity|]. unfold process_message.
    destruct (negb (v_h v =? s_h (set_vc s vc))); [reflexivity|].
    pose proof (loop_col c FUEL (set_vc s vc) (Some (v_r v))) as L.
    destruct (loop c FUEL (set_vc s vc) (Some (v_r v))) as [[s2 acts] ex]. cbn [fst snd] in *.
    apply col_cons; [reflexivity|exact L].
  - destruct (vc_add_vote c (s_vc s) Precommit v) as [vc ok].
    destruct (negb ok || negb (s_started (set_vc s vc))); [reflexivity|].
    match goal with |- context [if ?b then _ else _] => destruct b end; [reflexivity|].
    unfold process_message.
    destruct (negb (v_h v =? s_h (set_vc s vc))); [reflexivity|].
    pose proof (loop_col c FUEL (set_vc s vc) (Some (v_r v))) as L.
    destruct (loop c FUEL (set_vc s vc) (Some (v_r v))) as [[s2 acts] ex]. cbn [fst snd] in *.
    apply col_cons; [reflexivity|exact L].
  - assert (T : forall s1 acts0, on_timeout c s k h r = (s1, acts0) ->
                acts0 = [] \/ exists a, acts0 = [AWalTimeout k h r; a] /\ is_commit a = false).
    { intros s1 acts0 H. unfold on_timeout in H. destruct k.
      - destruct ((s_h s =? h) && (s_r s =? r)%Z && step_eqb (s_step s) SPropose); inversion H; auto.
        right. eexists. split; reflexivity.
      - destruct ((s_h s =? h) && (s_r s =? r)%Z && step_eqb (s_step s) SPrevote); inversion H; auto.
        right. eexists. split; reflexivity.
      - destruct ((s_h s =? h) && (s_r s =? r)%Z); [|inversion H; auto].
        pose proof (start_round_nc c s (r + 1)%Z) as N. destruct (start_round c s (r + 1)%Z) as [s' a].
        inversion H. right. exists a. split; [reflexivity|exact N]. }
    destruct (on_timeout c s k h r) as [s1 acts0] eqn:E. specialize (T s1 acts0 eq_refl).
    pose proof (loop_col c FUEL s1 None) as L. destruct (loop c FUEL s1 None) as [[s2 acts] ex]. cbn [fst snd] in *.
    destruct T as [->|[a [-> N]]]; [exact L|]. cbn [app]. apply col_cons; [reflexivity|]. apply col_cons; assumption.
Qed.

Lemma step_col : forall c s i, col (snd (step c s i)) = true.
Proof.
  intros. pose proof (step_x_col c s i) as H. unfold step. destruct (step_x c s i) as [[s' a] e]. exact H.
Qed.
