(* C13 — lemmas, part 18: the log of a life with messages for future heights.  The entries of the current
   height, replayed in log order, give the "core" state; the entries above it are pure updates that can be
   applied in any order that keeps the order inside a height (in particular in LoadAllEntries' order). *)
From Coq Require Import List NArith ZArith Bool Lia ZifyN ZifyBool.
From V Require Import C12.Model C12.Proofs C13.Model C13.Proofs C13.Proofs_Votes C13.Proofs_Commit C13.Proofs_Replay C13.Proofs_Resume
  C13.Proofs_Obs C13.Proofs_ObsStep C13.Proofs_Cells C13.Proofs_Shape C13.Proofs_Wal C13.Proofs_Crash
  C13.Proofs_Fut C13.Proofs_Upd.
Import ListNotations.
Open Scope N_scope.

Lemma upd_cfg : forall E a b n s e, upd (cfg_at E a b n) s e = upd (c0 E) s e.
Proof. intros. destruct e; reflexivity. Qed.

Lemma set_nval_upds : forall c l s n, set_nval (upds c s l) n = upds c (set_nval s n) l.
Proof. induction l as [|e l IH]; intros s n; simpl; [reflexivity|]. rewrite IH. reflexivity. Qed.

Section Core.
  Variable E : env.
  Hypothesis Hdet : value_deterministic E.
  Hypothesis Qpos : quorum_positive E.
  Let cE := c0 E.

  (* one pure call at the sm_step level *)
  Lemma sm_step_pure : forall s n e, is_msg e = true -> s_nval s = 0 ->
    (s_h s < ht e \/ s_started s = false) ->
    obs_eq (fst (fst (sm_step E s n (input_of_entry e)))) (upd cE s e) /\
    vis (snd (sm_step E s n (input_of_entry e))) = [].
  Proof.
    intros s n e M Nv Hc. unfold sm_step.
    set (c := cfg_at E (s_h s) (in_round (input_of_entry e)) n).
    rewrite (step_step_x c (set_nval s 0) (input_of_entry e)).
    destruct (pure_step c (set_nval s 0) e M Hc) as [A B].
    destruct (step_x c (set_nval s 0) (input_of_entry e)) as [[s1 acts] ex]. cbn [fst snd] in *.
    split; [|exact B].
    assert (X : obs_eq (set_nval s1 0) (set_nval (upd c (set_nval s 0) e) 0)) by (apply set_nval_obs; exact A).
    eapply obs_eq_trans; [exact X|]. unfold c. rewrite upd_cfg. fold cE.
    change (set_nval (upd cE (set_nval s 0) e) 0) with (upd cE (set_nval s 0) e).
    apply upd_obs. apply obs_eq_sym. apply obs_eq_set_nval0. exact Nv.
  Qed.
  Lemma sm_step_nval : forall s n i, s_nval (fst (fst (sm_step E s n i))) = 0.
  Proof. intros. unfold sm_step. destruct (step _ (set_nval s 0) i). reflexivity. Qed.

  Lemma scal_h : forall a b, scal a = scal b -> s_h a = s_h b /\ s_started a = s_started b /\ s_nval a = s_nval b.
  Proof. intros a b H. unfold scal in H. inversion H. auto. Qed.

  (* a list of messages none of which is for the started current height: replaying it = applying the updates *)
  Definition pure_for (s : state) (m : entry) : Prop :=
    is_msg m = true /\ s_h s <= ht m /\ (s_h s < ht m \/ s_started s = false).

  Lemma replay_pure : forall l s n, s_nval s = 0 -> Forall (pure_for s) l ->
    obs_eq (fst (fst (sm_replay_acts E s n l))) (upds cE s l) /\ vis (snd (sm_replay_acts E s n l)) = [].
  Proof.
    induction l as [|m l IH]; intros s n Nv HF; cbn [sm_replay_acts upds fold_left]; [split; [apply obs_eq_refl|reflexivity]|].
    inversion HF as [|a b [M [Hge Hc]] HF']. subst. fold ht.
    destruct (ht m <? s_h s) eqn:El; [lia|].
    destruct (sm_step_pure s n m M Nv Hc) as [A B]. pose proof (sm_step_nval s n (input_of_entry m)) as Nv1.
    destruct (sm_step E s n (input_of_entry m)) as [[s1 n1] a1]. cbn [fst snd] in *.
    assert (Sc : s_h s1 = s_h s /\ s_started s1 = s_started s).
    { destruct A as [A _]. rewrite upd_scal in A. destruct (scal_h _ _ A) as [X [Y _]]. auto. }
    destruct Sc as [Sh Ss].
    assert (HF1 : Forall (pure_for s1) l).
    { eapply Forall_impl; [|exact HF']. intros x [X1 [X2 X3]]. unfold pure_for. rewrite Sh, Ss. auto. }
    destruct (IH s1 n1 Nv1 HF1) as [A2 B2].
    destruct (sm_replay_acts E s1 n1 l) as [[s2 n2] a2]. cbn [fst snd] in *. split.
    - eapply obs_eq_trans; [exact A2|]. apply upds_obs. exact A.
    - rewrite vis_app, B, B2. reflexivity.
  Qed.

  (* the commutation at the sm_step level *)
  Lemma sm_step_upds_comm : forall F x n i, WF x -> s_nval x = 0 ->
    Forall (fun m => is_msg m = true /\ s_h x < ht m) F -> input_low x i ->
    obs_eq (fst (fst (sm_step E (upds cE x F) n i))) (upds cE (fst (fst (sm_step E x n i))) F) /\
    vis (snd (sm_step E (upds cE x F) n i)) = vis (snd (sm_step E x n i)).
  Proof.
    intros F x n i W Nv HF L. unfold sm_step.
    assert (Sh : s_h (upds cE x F) = s_h x).
    { destruct (scal_h _ _ (upds_scal cE F x)) as [X _]. exact X. }
    rewrite Sh. set (c := cfg_at E (s_h x) (in_round i) n).
    rewrite !(step_step_x c _ i), set_nval_upds.
    assert (Ec : forall s l, upds cE s l = upds c s l).
    { intros s l. revert s. induction l as [|e l IH]; intros s; simpl; [reflexivity|]. unfold c at 2. rewrite upd_cfg. apply IH. }
    rewrite Ec.
    assert (HF' : Forall (fun m => is_msg m = true /\ s_h (set_nval x 0) < ht m) F) by exact HF.
    assert (L' : input_low (set_nval x 0) i) by (destruct i; exact L).
    destruct (step_upds_comm c F (set_nval x 0) i W HF' L') as [A B].
    destruct (step_x c (upds c (set_nval x 0) F) i) as [[s1 a1] e1], (step_x c (set_nval x 0) i) as [[s2 a2] e2].
    cbn [fst snd] in *. subst a2. split; [|reflexivity].
    rewrite Ec, <- set_nval_upds. apply set_nval_obs. exact A.
  Qed.

  (* ---------- the order of updates only matters inside a height ---------- *)
  Lemma upd_past : forall l s e, is_msg e = true -> Forall (fun x => is_msg x = true /\ ht x <> ht e) l ->
    obs_eq (upd cE (upds cE s l) e) (upds cE (upd cE s e) l).
  Proof.
    induction l as [|x l IH]; intros s e M HF; simpl; [apply obs_eq_refl|].
    inversion HF as [|a b [Mx Hne] HF']. subst.
    eapply obs_eq_trans; [apply (IH (upd cE s x) e M HF')|]. apply upds_obs.
    apply upd_comm; auto.
  Qed.

  Lemma upds_insert : forall l s e, is_msg e = true -> Forall (fun x => is_msg x = true) l -> hsorted l ->
    obs_eq (upds cE s (insert_h e l)) (upd cE (upds cE s l) e).
  Proof.
    induction l as [|x l IH]; intros s e M HF S; cbn [insert_h]; [apply obs_eq_refl|].
    inversion HF as [|a b Mx HF']. subst. destruct S as [Sx S]. fold ht.
    destruct (ht e <? ht x) eqn:El.
    - cbn [upds fold_left]. fold (upds cE (upd cE (upd cE s e) x) l). apply obs_eq_sym.
      change (upds cE (upd cE (upd cE s e) x) l) with (upds cE (upd cE s e) (x :: l)).
      change (fold_left (upd cE) l (upd cE s x)) with (upds cE s (x :: l)).
      apply upd_past; [exact M|]. constructor; [split; [exact Mx|lia]|].
      rewrite Forall_forall in *. intros y Hy. split; [apply HF'; exact Hy|]. specialize (Sx y Hy). lia.
    - cbn [upds fold_left]. apply (IH (upd cE s x) e M HF' S).
  Qed.
End Core.

(* ---------- facts about the stable sort by height ---------- *)
Lemma insert_In : forall e l x, In x (insert_h e l) <-> x = e \/ In x l.
Proof.
  induction l as [|y l IH]; intros x; simpl.
  - split; [intros [->|[]]; auto|intros [->|[]]; auto].
  - destruct (entry_height e <? entry_height y); simpl.
    + split; [intros [->|H]; auto|intros [->|H]; auto].
    + rewrite IH. split; [intros [->|[->|H]]; auto|intros [->|[->|H]]; auto].
Qed.
Lemma sort_In : forall l x, In x (sort_h l) <-> In x l.
Proof.
  induction l as [|e l IH] using rev_ind; intros x; [reflexivity|].
  rewrite sort_h_snoc, insert_In, IH, in_app_iff. simpl.
  split; [intros [->|H]; auto|intros [H|[->|[]]]; auto].
Qed.
Lemma insert_sorted : forall e l, hsorted l -> hsorted (insert_h e l).
Proof.
  induction l as [|y l IH]; intros S; simpl; [auto|]. destruct S as [F S]. fold ht.
  destruct (ht e <? ht y) eqn:El.
  - simpl. split; [|auto]. constructor; [lia|]. eapply Forall_impl; [|exact F]. intros z Hz. simpl in Hz. lia.
  - simpl. split; [|apply IH; exact S]. apply Forall_forall. intros z Hz. apply insert_In in Hz.
    destruct Hz as [->|Hz]; [lia|]. rewrite Forall_forall in F. apply F. exact Hz.
Qed.
Lemma sort_sorted : forall l, hsorted (sort_h l).
Proof.
  induction l as [|e l IH] using rev_ind; [exact I|]. rewrite sort_h_snoc. apply insert_sorted. exact IH.
Qed.

Lemma above_f_insert : forall H e l,
  above_f H (insert_h e l) = if H <=? ht e then insert_h e (above_f H l) else above_f H l.
Proof.
  induction l as [|y l IH]; simpl.
  - unfold above_f. simpl. destruct (H <=? ht e); reflexivity.
  - fold ht. destruct (ht e <? ht y) eqn:El.
    + unfold above_f. simpl. fold ht. destruct (H <=? ht e) eqn:E1, (H <=? ht y) eqn:E2; simpl; fold ht;
        rewrite ?El; try reflexivity; try lia.
    + unfold above_f in *. simpl. fold ht. destruct (H <=? ht y) eqn:E2; simpl; fold ht; rewrite ?El, IH;
        destruct (H <=? ht e); reflexivity.
Qed.

Lemma above_f_sort : forall H l, above_f H (sort_h l) = sort_h (above_f H l).
Proof.
  induction l as [|e l IH] using rev_ind; [reflexivity|].
  rewrite sort_h_snoc, above_f_insert, IH, above_f_app. unfold above_f at 3. simpl. fold ht.
  destruct (H <=? ht e); [rewrite sort_h_snoc; reflexivity|rewrite app_nil_r; reflexivity].
Qed.

Definition curs (H : N) (l : list entry) : list entry := filter (fun e => ht e =? H) l.
Definition futs (H : N) (l : list entry) : list entry := filter (fun e => H <? ht e) l.
Lemma curs_app : forall H a b, curs H (a ++ b) = curs H a ++ curs H b.
Proof. intros. unfold curs. apply filter_app. Qed.
Lemma futs_app : forall H a b, futs H (a ++ b) = futs H a ++ futs H b.
Proof. intros. unfold futs. apply filter_app. Qed.

Lemma insert_app_le : forall e a b, Forall (fun x => ht x <= ht e) a -> insert_h e (a ++ b) = a ++ insert_h e b.
Proof.
  induction a as [|x a IH]; intros b F; [reflexivity|]. inversion F as [|p q Hx Ha]. subst.
  simpl. fold ht. destruct (ht e <? ht x) eqn:El; [lia|]. rewrite IH by exact Ha. reflexivity.
Qed.
Lemma insert_front : forall e b, Forall (fun x => ht e < ht x) b -> insert_h e b = e :: b.
Proof.
  intros e [|x b] F; [reflexivity|]. inversion F as [|p q Hx Hb]. subst. simpl. fold ht.
  destruct (ht e <? ht x) eqn:El; [reflexivity|lia].
Qed.

(* entries at or above H, sorted: those of height H in log order, then the higher ones sorted *)
Lemma sort_split : forall H l, Forall (fun e => H <= ht e) l -> sort_h l = curs H l ++ sort_h (futs H l).
Proof.
  induction l as [|e l IH] using rev_ind; intros F; [reflexivity|].
  apply Forall_app in F. destruct F as [Fl Fe]. inversion Fe as [|p q He _]. subst.
  rewrite sort_h_snoc, (IH Fl), curs_app, futs_app. unfold curs at 3, futs at 3. simpl. fold ht.
  assert (Cle : Forall (fun x => ht x <= ht e) (curs H l)).
  { apply Forall_forall. intros x Hx. unfold curs in Hx. apply filter_In in Hx. destruct Hx as [_ Hx]. lia. }
  rewrite insert_app_le by exact Cle.
  destruct (ht e =? H) eqn:E1.
  - assert (E2 : (H <? ht e) = false) by lia. rewrite E2, app_nil_r.
    rewrite insert_front; [rewrite <- app_assoc; reflexivity|].
    apply Forall_forall. intros x Hx. apply (proj1 (sort_In _ _)) in Hx. unfold futs in Hx. apply filter_In in Hx. lia.
  - assert (E2 : (H <? ht e) = true) by lia. rewrite E2, app_nil_r, sort_h_snoc. reflexivity.
Qed.

Section Core2.
  Variable E : env.
  Hypothesis Hdet : value_deterministic E.
  Hypothesis Qpos : quorum_positive E.
  Let cE := c0 E.

  Lemma upds_sort : forall l s, Forall (fun x => is_msg x = true) l ->
    obs_eq (upds cE s (sort_h l)) (upds cE s l).
  Proof.
    induction l as [|e l IH] using rev_ind; intros s HF; [apply obs_eq_refl|].
    apply Forall_app in HF. destruct HF as [HF He]. inversion He as [|p q M _]. subst.
    rewrite sort_h_snoc, upds_app. cbn [upds fold_left].
    eapply obs_eq_trans.
    - apply (upds_insert E (sort_h l) s e M); [|apply sort_sorted].
      apply Forall_forall. intros x Hx. apply (proj1 (sort_In _ _)) in Hx. rewrite Forall_forall in HF. auto.
    - apply upd_obs. apply IH. exact HF.
  Qed.

  (* one call, cells and height *)
  Lemma sm_step_cells : forall s n i, WF s -> input_low s i ->
    WF (fst (fst (sm_step E s n i))) /\ above s (fst (fst (sm_step E s n i))) /\
    s_h (fst (fst (sm_step E s n i))) = s_h s + hbump (snd (sm_step E s n i)) /\
    (has_commit (snd (sm_step E s n i)) = true -> s_started (fst (fst (sm_step E s n i))) = false).
  Proof.
    intros s n i W L. unfold sm_step. set (c := cfg_at E (s_h s) (in_round i) n).
    rewrite (step_step_x c (set_nval s 0) i).
    assert (L' : input_low (set_nval s 0) i) by (destruct i; exact L).
    destruct (step_x_cells c (set_nval s 0) i W L') as [W1 [Ab _]].
    pose proof (step_x_h c (set_nval s 0) i) as Hh. pose proof (step_x_commit_state c (set_nval s 0) i) as Cs.
    destruct (step_x c (set_nval s 0) i) as [[s1 acts] ex]. cbn [fst snd] in *.
    split; [exact W1|]. split; [exact Ab|]. split; [exact Hh|].
    intro Hc. specialize (Cs Hc). unfold reset_scal in Cs. unfold scal in Cs. inversion Cs. reflexivity.
  Qed.

  (* replaying entries that all carry the height of the machine *)
  Lemma replay_cur : forall l s n H, WF s -> s_nval s = 0 -> s_h s = H ->
    Forall (fun e => ht e = H) l ->
    let y := fst (fst (sm_replay_acts E s n l)) in
    WF y /\ s_nval y = 0 /\ (s_h y = H \/ (s_h y = H + 1 /\ s_started y = false)) /\
    (forall h' r, H < h' -> cell (s_vc y) h' r = cell (s_vc s) h' r).
  Proof.
    induction l as [|e l IH]; intros s n H W Nv Sh HF; cbn [sm_replay_acts fst].
    - auto.
    - inversion HF as [|a b He HF']. subst. fold ht. destruct (ht e <? s_h s) eqn:El; [lia|].
      assert (L : input_low s (input_of_entry e)).
      { destruct e; simpl; auto; unfold ht in He; simpl in He; lia. }
      destruct (sm_step_cells s n (input_of_entry e) W L) as [W1 [Ab [Hh Hc]]].
      pose proof (sm_step_nval E s n (input_of_entry e)) as Nv1.
      destruct (sm_step E s n (input_of_entry e)) as [[s1 n1] a1]. cbn [fst snd] in *.
      unfold hbump in Hh. destruct (has_commit a1) eqn:Ec.
      + (* committed: the remaining entries (height H) are below the machine and skipped *)
        assert (Sk : sm_replay_acts E s1 n1 l = sm_replay_acts E s1 n1 []).
        { rewrite <- (app_nil_r l) at 1. apply sm_replay_acts_skip.
          eapply Forall_impl; [|exact HF']. intros x Hx. simpl in Hx. fold ht. lia. }
        rewrite Sk. cbn [sm_replay_acts fst snd].
        split; [exact W1|]. split; [exact Nv1|]. split.
        * right. split; [lia|]. apply Hc. reflexivity.
        * intros h' r Hlt. apply Ab. lia.
      + assert (Sh1 : s_h s1 = s_h s) by lia.
        destruct (IH s1 n1 (s_h s) W1 Nv1 Sh1 HF') as [A [B [C D]]].
        destruct (sm_replay_acts E s1 n1 l) as [[s2 n2] a2]. cbn [fst snd] in *.
        split; [exact A|]. split; [exact B|]. split; [exact C|].
        intros h' r Hlt. rewrite D by exact Hlt. apply Ab. exact Hlt.
  Qed.

  Definition core (H : N) (A : list entry) := sm_replay_acts E (init_state H) 0 (curs H A).

  Lemma core_facts : forall H A, let y := fst (fst (core H A)) in
    WF y /\ s_nval y = 0 /\ (s_h y = H \/ (s_h y = H + 1 /\ s_started y = false)) /\
    (forall h' r, H < h' -> cell (s_vc y) h' r = r_empty).
  Proof.
    intros H A. unfold core.
    assert (HF : Forall (fun e => ht e = H) (curs H A)).
    { apply Forall_forall. intros x Hx. unfold curs in Hx. apply filter_In in Hx. lia. }
    destruct (replay_cur (curs H A) (init_state H) 0 H eq_refl eq_refl eq_refl HF) as [A1 [A2 [A3 A4]]].
    repeat split; auto. intros h' r Hlt. rewrite A4 by exact Hlt. apply vc_new_cell.
  Qed.
  Lemma curs_above : forall H l, curs H (above_f H l) = curs H l.
  Proof.
    intros. unfold curs, above_f. apply filter_filter_imp. intros x Hx. lia.
  Qed.
  Lemma futs_above : forall H l, futs H (above_f H l) = futs H l.
  Proof.
    intros. unfold futs, above_f. apply filter_filter_imp. intros x Hx. lia.
  Qed.

  (* replaying the sorted log from height H = core, then the future updates in any order *)
  Lemma rep_sorted : forall H A n2, Forall (fun x => is_msg x = true) (futs H A) ->
    obs_eq (fst (fst (sm_replay_acts E (init_state H) n2 (sort_h (above_f H A)))))
           (upds cE (fst (fst (core H A))) (futs H A)) /\
    (forall k, votes_of k (snd (sm_replay_acts E (init_state H) n2 (sort_h (above_f H A)))) =
               votes_of k (snd (core H A))).
  Proof.
    intros H A n2 HM.
    assert (Hge : Forall (fun e => H <= ht e) (above_f H A)).
    { apply Forall_forall. intros x Hx. unfold above_f in Hx. apply filter_In in Hx. lia. }
    rewrite (sort_split H _ Hge), curs_above, futs_above, sm_replay_acts_app.
    destruct (sm_replay_acts_det E Hdet (curs H A) (init_state H) n2 0) as [D1 D2].
    destruct (core_facts H A) as [W [Nv [Shape _]]]. unfold core in *.
    destruct (sm_replay_acts E (init_state H) n2 (curs H A)) as [[x nx] ax].
    destruct (sm_replay_acts E (init_state H) 0 (curs H A)) as [[x0 nx0] ax0]. cbn [fst snd] in *. subst x0 ax0.
    assert (HP : Forall (pure_for x) (sort_h (futs H A))).
    { apply Forall_forall. intros m Hm. apply (proj1 (sort_In _ _)) in Hm.
      rewrite Forall_forall in HM. specialize (HM m Hm). unfold futs in Hm. apply filter_In in Hm. destruct Hm as [_ Hm].
      unfold pure_for. destruct Shape as [S|[S1 S2]].
      - split; [exact HM|]. split; [lia|left; lia].
      - split; [exact HM|]. split; [lia|right; exact S2]. }
    destruct (replay_pure E (sort_h (futs H A)) x nx Nv HP) as [A1 B1].
    destruct (sm_replay_acts E x nx (sort_h (futs H A))) as [[s2 n3] a2]. cbn [fst snd] in *. split.
    - eapply obs_eq_trans; [exact A1|].
      apply upds_sort. exact HM.
    - intro k. rewrite votes_of_app, <- (votes_of_vis k a2), B1. simpl. apply app_nil_r.
  Qed.

  Lemma recover_link : forall H D n2, 0 < H -> prunes_below H D ->
    Forall (fun x => is_msg x = true) (futs H (rents D)) ->
    obs_eq (d_sm (fst (recover E H D n2))) (upds cE (fst (fst (core H (rents D)))) (futs H (rents D))) /\
    (forall k, votes_in k (flat (snd (recover E H D n2))) = votes_of k (snd (core H (rents D)))).
  Proof.
    intros H D n2 HH P HM. unfold recover.
    destruct (replay_acts_link E (load D) (boot H D n2)) as [L1 L2]. cbn [boot d_sm d_calls] in L1, L2.
    destruct (index_of_spec H D HH P) as [_ [I2 _]].
    assert (EQ : sm_replay_acts E (init_state H) n2 (load D) =
                 sm_replay_acts E (init_state H) n2 (sort_h (above_f H (rents D)))).
    { unfold load. rewrite (replay_above E (init_state H) n2 _ (sort_sorted _)). cbn [init_state s_h].
      rewrite above_f_sort, I2. reflexivity. }
    rewrite EQ in L1, L2. destruct (rep_sorted H (rents D) n2 HM) as [R1 R2].
    split; [rewrite L1; exact R1|]. intro k. rewrite L2. apply R2.
  Qed.
End Core2.

Lemma curs_above_g : forall H l, curs H (above_f H l) = curs H l.
Proof. intros. unfold curs, above_f. apply filter_filter_imp. intros x Hx. lia. Qed.
Lemma futs_above_g : forall H l, futs H (above_f H l) = futs H l.
Proof. intros. unfold futs, above_f. apply filter_filter_imp. intros x Hx. lia. Qed.

(* ---------- the calling discipline of a replay, at the level of the state machine ---------- *)
Fixpoint sm_disc (E : env) (s : state) (n : N) (es : list entry) : bool :=
  match es with
  | [] => true
  | e :: rest =>
      if entry_height e <? s_h s then sm_disc E s n rest
      else ok_input s (input_of_entry e) &&
           (let '(s', n', _) := sm_step E s n (input_of_entry e) in sm_disc E s' n' rest)
  end.

Lemma replay_disc_sm : forall E es d, replay_disc E d es = sm_disc E (d_sm d) (d_calls d) es.
Proof.
  induction es as [|e rest IH]; intros d; cbn [replay_disc sm_disc]; [reflexivity|].
  destruct (entry_height e <? s_h (d_sm d)); [apply IH|]. f_equal.
  rewrite IH, dstep_spec. unfold sm_of. cbn [fst snd d_sm d_calls].
  destruct (sm_step E (d_sm d) (d_calls d) (input_of_entry e)) as [[s' n'] acts]. reflexivity.
Qed.

Lemma sm_disc_app : forall E l1 l2 s n,
  sm_disc E s n (l1 ++ l2) =
  sm_disc E s n l1 && sm_disc E (fst (fst (sm_replay_acts E s n l1))) (snd (fst (sm_replay_acts E s n l1))) l2.
Proof.
  induction l1 as [|e l1 IH]; intros l2 s n; cbn [sm_disc sm_replay_acts app fst snd]; [reflexivity|].
  destruct (entry_height e <? s_h s); [apply IH|].
  destruct (sm_step E s n (input_of_entry e)) as [[s' n'] acts]. rewrite IH, andb_assoc.
  destruct (sm_replay_acts E s' n' l1) as [[s2 n2] a2]. reflexivity.
Qed.

Lemma sm_disc_skip : forall E l1 l2 s n,
  Forall (fun e => entry_height e < s_h s) l1 -> sm_disc E s n (l1 ++ l2) = sm_disc E s n l2.
Proof.
  induction l1 as [|e l1 IH]; intros l2 s n F; [reflexivity|]. inversion F as [|x y Hx Hy]. subst.
  cbn [sm_disc app]. destruct (entry_height e <? s_h s) eqn:El; [apply IH; assumption|lia].
Qed.

Lemma sm_disc_msgs : forall E l s n, Forall (fun x => is_msg x = true) l -> sm_disc E s n l = true.
Proof.
  induction l as [|e l IH]; intros s n F; [reflexivity|]. inversion F as [|x y Mx My]. subst.
  cbn [sm_disc]. destruct (entry_height e <? s_h s); [apply IH; exact My|].
  assert (Ok : ok_input s (input_of_entry e) = true) by (destruct e; try discriminate; reflexivity).
  rewrite Ok. destruct (sm_step E s n (input_of_entry e)) as [[s' n'] acts]. apply IH. exact My.
Qed.

Lemma sm_disc_det : forall E, value_deterministic E -> forall es s n m, sm_disc E s n es = sm_disc E s m es.
Proof.
  intros E H. induction es as [|e rest IH]; intros s n m; cbn [sm_disc]; [reflexivity|].
  destruct (entry_height e <? s_h s); [apply IH|]. f_equal.
  destruct (sm_step_det E H s n m (input_of_entry e)) as [A _].
  destruct (sm_step E s n (input_of_entry e)) as [[s1 n1] a1], (sm_step E s m (input_of_entry e)) as [[s2 n2] a2].
  cbn [fst] in A. subst s2. apply IH.
Qed.

Definition core_disc (E : env) (H : N) (A : list entry) : bool := sm_disc E (init_state H) 0 (curs H A).

(* the discipline of the driver's replay of a log directory = the discipline of its core *)
Lemma replay_disc_core : forall E, value_deterministic E -> forall H D n, 0 < H -> prunes_below H D ->
  Forall (fun x => is_msg x = true) (futs H (rents D)) ->
  replay_disc E (boot H D n) (load D) = core_disc E H (rents D).
Proof.
  intros E Hdet H D n HH P HM. rewrite replay_disc_sm. cbn [boot d_sm d_calls].
  destruct (index_of_spec H D HH P) as [_ [I2 _]].
  destruct (sorted_split H (load D)) as [l1 [E1 F1]]; [unfold load; apply sort_sorted|].
  rewrite E1, sm_disc_skip by exact F1. unfold load. rewrite above_f_sort, I2.
  assert (Hge : Forall (fun e => H <= ht e) (above_f H (rents D))).
  { apply Forall_forall. intros x Hx. unfold above_f in Hx. apply filter_In in Hx. lia. }
  rewrite (sort_split H _ Hge), curs_above_g, futs_above_g, sm_disc_app.
  rewrite (sm_disc_msgs E (sort_h (futs H (rents D)))).
  - rewrite andb_true_r. unfold core_disc. apply sm_disc_det. exact Hdet.
  - apply Forall_forall. intros x Hx. apply (proj1 (sort_In _ _)) in Hx. rewrite Forall_forall in HM. auto.
Qed.

Section Core3.
  Variable E : env.

  Lemma sm_step_reset : forall s n i, has_commit (snd (sm_step E s n i)) = true ->
    scal (fst (fst (sm_step E s n i))) = scal (init_state (s_h (fst (fst (sm_step E s n i))))).
  Proof.
    intros s n i. unfold sm_step. set (c := cfg_at E (s_h s) (in_round i) n).
    rewrite (step_step_x c (set_nval s 0) i). pose proof (step_x_commit_state c (set_nval s 0) i) as Cs.
    destruct (step_x c (set_nval s 0) i) as [[s1 acts] ex]. cbn [fst snd] in *. intro Hc. exact (Cs Hc).
  Qed.

  (* replaying entries of the machine's height: if it ends one height up, it is a freshly reset machine *)
  Lemma replay_cur_reset : forall l s n H, WF s -> s_h s = H -> Forall (fun e => ht e = H) l ->
    s_h (fst (fst (sm_replay_acts E s n l))) = H + 1 ->
    scal (fst (fst (sm_replay_acts E s n l))) = scal (init_state (H + 1)).
  Proof.
    induction l as [|e l IH]; intros s n H W Sh HF; cbn [sm_replay_acts fst]; [lia|].
    inversion HF as [|a b He HF']. subst. fold ht. destruct (ht e <? s_h s) eqn:El; [lia|].
    assert (L : input_low s (input_of_entry e)).
    { destruct e; simpl; auto; unfold ht in He; simpl in He; lia. }
    destruct (sm_step_cells E s n (input_of_entry e) W L) as [W1 [_ [Hh _]]].
    pose proof (sm_step_reset s n (input_of_entry e)) as Rs.
    destruct (sm_step E s n (input_of_entry e)) as [[s1 n1] a1]. cbn [fst snd] in *.
    unfold hbump in Hh. destruct (has_commit a1) eqn:Ec.
    - assert (Sk : sm_replay_acts E s1 n1 l = sm_replay_acts E s1 n1 []).
      { rewrite <- (app_nil_r l) at 1. apply sm_replay_acts_skip.
        eapply Forall_impl; [|exact HF']. intros x Hx. simpl in Hx. fold ht. lia. }
      rewrite Sk. cbn [sm_replay_acts fst snd]. intros _. rewrite (Rs eq_refl).
      replace (s_h s1) with (s_h s + 1) by lia. reflexivity.
    - assert (Sh1 : s_h s1 = s_h s) by lia. specialize (IH s1 n1 (s_h s) W1 Sh1 HF').
      destruct (sm_replay_acts E s1 n1 l) as [[s2 n2] a2]. cbn [fst snd] in *. exact IH.
  Qed.

  Lemma core_reset : forall H A, s_h (fst (fst (core E H A))) = H + 1 ->
    scal (fst (fst (core E H A))) = scal (init_state (H + 1)).
  Proof.
    intros H A. unfold core. apply replay_cur_reset; [reflexivity|reflexivity|].
    apply Forall_forall. intros x Hx. unfold curs in Hx. apply filter_In in Hx. lia.
  Qed.

  (* under the discipline, every vote the core returns carries the core's height *)
  Lemma replay_cur_votes : forall l s n H m, Rel (c0 E) s m -> s_h s = H -> Forall (fun e => ht e = H) l ->
    sm_disc E s n l = true ->
    forall k v, In v (votes_of k (snd (sm_replay_acts E s n l))) -> v_h v = H.
  Proof.
    induction l as [|e l IH]; intros s n H m R Sh HF D k v Hin; cbn [sm_replay_acts snd sm_disc] in *; [contradiction|].
    inversion HF as [|a b He HF']. subst. fold ht in *. destruct (ht e <? s_h s) eqn:El; [lia|].
    apply andb_prop in D. destruct D as [Hok D].
    destruct (sm_step_sim E s n (input_of_entry e) m R Hok) as [m' [M R']].
    pose proof (sm_step_col E s n (input_of_entry e)) as Col.
    assert (W : WF s) by (unfold WF; apply (R_h _ _ _ R)).
    assert (L : input_low s (input_of_entry e)).
    { destruct e; simpl; auto; unfold ht in He; simpl in He; lia. }
    destruct (sm_step_cells E s n (input_of_entry e) W L) as [_ [_ [Hh _]]].
    assert (Hm : vc_h (m_vc m) = s_h s) by (rewrite (R_vc _ _ _ R); apply (R_h _ _ _ R)).
    destruct (sm_step E s n (input_of_entry e)) as [[s1 n1] a1]. cbn [fst snd] in *.
    unfold hbump in Hh. destruct (has_commit a1) eqn:Ec.
    - assert (Sk : sm_replay_acts E s1 n1 l = sm_replay_acts E s1 n1 []).
      { rewrite <- (app_nil_r l) at 1. apply sm_replay_acts_skip.
        eapply Forall_impl; [|exact HF']. intros x Hx. simpl in Hx. fold ht. lia. }
      rewrite Sk in Hin. cbn [sm_replay_acts snd] in Hin. rewrite app_nil_r in Hin.
      rewrite (mon_actions_vote_h _ _ _ _ k v M Col Hin), mon_input_h. exact Hm.
    - assert (Sh1 : s_h s1 = s_h s) by lia.
      destruct (sm_replay_acts E s1 n1 l) as [[s2 n2] a2] eqn:ER. cbn [snd] in Hin.
      rewrite votes_of_app in Hin. apply in_app_or in Hin. destruct Hin as [Hin|Hin].
      + rewrite (mon_actions_vote_h _ _ _ _ k v M Col Hin), mon_input_h. exact Hm.
      + rewrite <- Sh1. apply (IH s1 n1 (s_h s1) m' R' eq_refl ltac:(rewrite Sh1; exact HF') D k v).
        rewrite ER. exact Hin.
  Qed.

  Lemma core_votes : forall H A, core_disc E H A = true ->
    forall k v, In v (votes_of k (snd (core E H A))) -> v_h v = H.
  Proof.
    intros H A D k v Hin. unfold core, core_disc in *.
    assert (HF : Forall (fun e => ht e = H) (curs H A)).
    { apply Forall_forall. intros x Hx. unfold curs in Hx. apply filter_In in Hx. lia. }
    exact (replay_cur_votes (curs H A) (init_state H) 0 H (mon_init H) (Rel_init _ H) eq_refl HF D k v Hin).
  Qed.
End Core3.
