(* C13 — lemmas, part 12: the crash invariant of a plain life.  At every boundary between two calls of the
   state machine: replaying everything appended so far from the current height gives (up to obs_eq) the
   current state and re-broadcasts every vote of the current height; and for EVERY prefix of the effect trace
   (= every kill point) the recovery from what is then on disk re-broadcasts every vote of the resume height
   that had been broadcast before the kill. *)
From Coq Require Import List NArith ZArith Bool Lia ZifyN ZifyBool.
From V Require Import C12.Model C12.Proofs C13.Model C13.Proofs C13.Proofs_Votes C13.Proofs_Commit
  C13.Proofs_Life C13.Proofs_Resume C13.Proofs_Replay C13.Proofs_Obs C13.Proofs_ObsStep C13.Proofs_Cells
  C13.Proofs_Shape C13.Proofs_Wal.
Import ListNotations.
Open Scope N_scope.

(* ---------- a Commit resets the consensus fields ---------- *)
Lemma has_commit_app : forall a b, has_commit (a ++ b) = has_commit a || has_commit b.
Proof. intros. unfold has_commit. apply existsb_app. Qed.

Lemma apply_rule_commit_state : forall c s ru s' p cont,
  apply_rule c s ru = (s', Some (ACommit p), cont) -> s' = fst (do49 s p).
Proof.
  intros c s ru s' p cont H. destruct ru; simpl in H.
  - unfold do22, send_prevote in H. inversion H.
  - unfold do28, send_prevote in H. inversion H.
  - inversion H.
  - unfold do36 in H. destruct (step_eqb (s_step s) SPrevote); inversion H.
  - inversion H.
  - inversion H.
  - inversion H. subst. reflexivity.
  - pose proof (start_round_nc c s r) as N. destruct (start_round c s r) as [s1 a1]. inversion H. subst. discriminate.
  - inversion H.
Qed.

Definition reset_scal (s : state) : Prop := scal (set_nval s 0) = scal (init_state (s_h s)).

Lemma loop_commit_state : forall c fuel s rr,
  has_commit (snd (fst (loop c fuel s rr))) = true -> reset_scal (fst (fst (loop c fuel s rr))).
Proof.
  induction fuel as [|n IH]; intros s rr; cbn [loop]; [discriminate|].
  destruct (apply_rule c s (select c s rr)) as [[s1 oa] cont] eqn:E. destruct cont.
  - specialize (IH s1 rr). destruct (loop c n s1 rr) as [[s2 more] ex]. cbn [fst snd] in *.
    rewrite has_commit_app. destruct oa as [a|]; simpl.
    + pose proof (apply_rule_cont c s _ s1 a E) as N. destruct a; try discriminate; simpl; exact IH.
    + exact IH.
  - cbn [fst snd]. destruct oa as [a|]; simpl; [|discriminate].
    destruct a; simpl; try discriminate. intros _.
    rewrite (apply_rule_commit_state c s _ s1 p false E). reflexivity.
Qed.

Lemma step_x_commit_state : forall c s i,
  has_commit (snd (fst (step_x c s i))) = true -> reset_scal (fst (fst (step_x c s i))).
Proof.
  intros c s i. destruct i as [r|p|v|v|k h r]; unfold step_x.
  - destruct (s_started s); [discriminate|].
    pose proof (start_round_nc c (set_started s true) r) as N.
    destruct (start_round c (set_started s true) r) as [s1 a].
    pose proof (loop_commit_state c FUEL s1 None) as L.
    destruct (loop c FUEL s1 None) as [[s2 acts] ex]. cbn [fst snd] in *.
    simpl. destruct a; try discriminate; simpl; exact L.
  - destruct (vc_add_proposal c (s_vc s) p) as [vc ok].
    destruct (negb ok || negb (s_started (set_vc s vc))); [discriminate|]. unfold process_message.
    destruct (negb (p_h p =? s_h (set_vc s vc))); [discriminate|].
    pose proof (loop_commit_state c FUEL (set_vc s vc) (Some (p_r p))) as L.
    destruct (loop c FUEL (set_vc s vc) (Some (p_r p))) as [[s2 acts] ex]. cbn [fst snd] in *. exact L.
  - destruct (vc_add_vote c (s_vc s) Prevote v) as [vc ok].
    destruct (negb ok || negb (s_started (set_vc s vc))); [discriminate|]. unfold process_message.
    destruct (negb (v_h v =? s_h (set_vc s vc))); [discriminate|].
    pose proof (loop_commit_state c FUEL (set_vc s vc) (Some (v_r v))) as L.
    destruct (loop c FUEL (set_vc s vc) (Some (v_r v))) as [[s2 acts] ex]. cbn [fst snd] in *. exact L.
  - destruct (vc_add_vote c (s_vc s) Precommit v) as [vc ok].
    destruct (negb ok || negb (s_started (set_vc s vc))); [discriminate|].
    match goal with |- context [if ?b then _ else _] => destruct b end; [discriminate|].
    unfold process_message.
    destruct (negb (v_h v =? s_h (set_vc s vc))); [discriminate|].
    pose proof (loop_commit_state c FUEL (set_vc s vc) (Some (v_r v))) as L.
    destruct (loop c FUEL (set_vc s vc) (Some (v_r v))) as [[s2 acts] ex]. cbn [fst snd] in *. exact L.
  - assert (T : has_commit (snd (on_timeout c s k h r)) = false).
    { unfold on_timeout. destruct k.
      - destruct ((s_h s =? h) && (s_r s =? r)%Z && step_eqb (s_step s) SPropose); reflexivity.
      - destruct ((s_h s =? h) && (s_r s =? r)%Z && step_eqb (s_step s) SPrevote); reflexivity.
      - destruct ((s_h s =? h) && (s_r s =? r)%Z); [|reflexivity].
        pose proof (start_round_nc c s (r + 1)%Z) as N. destruct (start_round c s (r + 1)%Z) as [s' a].
        simpl in *. destruct a; try discriminate; reflexivity. }
    destruct (on_timeout c s k h r) as [s1 acts0]. cbn [snd] in T.
    pose proof (loop_commit_state c FUEL s1 None) as L.
    destruct (loop c FUEL s1 None) as [[s2 acts] ex]. cbn [fst snd] in *.
    rewrite has_commit_app, T. exact L.
Qed.

(* ---------- votes carry the height of the machine (monitor code 5), a Commit is last ---------- *)
Lemma has_commit_hs : forall acts, has_commit acts = false <-> commit_hs acts = [].
Proof.
  induction acts as [|a acts IH]; simpl; [tauto|]. unfold commit_hs in *. simpl.
  destruct a; simpl; try exact IH. split; discriminate.
Qed.

Lemma mon_action_vote_h : forall c m a m' k v, mon_action c m a = (m', []) ->
  In v (votes_of k [a]) -> v_h v = vc_h (m_vc m) /\ is_commit a = false.
Proof.
  intros c m a m' k v H Hin. destruct a; destruct k; simpl in Hin; try contradiction; destruct Hin as [<-|[]].
  - simpl in H. inversion H as [[H1 H2]]. apply app_eq_nil in H2. destruct H2 as [H2 _]. apply chk_nil in H2.
    apply andb_prop in H2. destruct H2 as [_ H2]. apply N.eqb_eq in H2. split; [exact H2|reflexivity].
  - simpl in H. inversion H as [[H1 H2]]. apply app_eq_nil in H2. destruct H2 as [H2 _]. apply chk_nil in H2.
    apply andb_prop in H2. destruct H2 as [_ H2]. apply N.eqb_eq in H2. split; [exact H2|reflexivity].
Qed.

Lemma votes_of_cons : forall k a l, votes_of k (a :: l) = votes_of k [a] ++ votes_of k l.
Proof. intros. unfold votes_of. simpl. rewrite app_nil_r. reflexivity. Qed.

Lemma mon_actions_vote_h : forall c acts m m' k v, mon_actions c m acts = (m', []) -> col acts = true ->
  In v (votes_of k acts) -> v_h v = vc_h (m_vc m).
Proof.
  induction acts as [|a rest IH]; intros m m' k v H C Hin; [contradiction|].
  simpl in H. destruct (mon_action c m a) as [m1 e1] eqn:E1. destruct (mon_actions c m1 rest) as [m2 e2] eqn:E2.
  inversion H as [[H1 H2]]. apply app_eq_nil in H2. destruct H2 as [-> ->]. subst m2.
  rewrite votes_of_cons in Hin. apply in_app_or in Hin. destruct Hin as [Hin|Hin].
  - apply (mon_action_vote_h c m a m1 k v E1 Hin).
  - assert (Crest : col rest = true).
    { simpl in C. destruct rest; [reflexivity|]. apply andb_prop in C. apply C. }
    rewrite (IH m1 m' k v E2 Crest Hin).
    destruct (mon_action_commits c m a m1 E1) as [_ A2]. rewrite A2.
    assert (Nc : is_commit a = false).
    { simpl in C. destruct rest; [contradiction|]. apply andb_prop in C. destruct C as [C _].
      apply negb_true_iff in C. exact C. }
    unfold commit_hs. destruct a; simpl in *; try discriminate; lia.
Qed.

Lemma col_commit_hs : forall acts p, col acts = true -> In (ACommit p) acts -> commit_hs acts = [p_h p].
Proof.
  induction acts as [|a rest IH]; intros p C Hin; [contradiction|].
  assert (Crest : col rest = true).
  { simpl in C. destruct rest; [reflexivity|]. apply andb_prop in C. apply C. }
  destruct Hin as [->|Hin].
  - simpl in C. destruct rest; [reflexivity|]. simpl in C. discriminate.
  - assert (Nc : is_commit a = false).
    { simpl in C. destruct rest; [contradiction|]. apply andb_prop in C. destruct C as [C _].
      apply negb_true_iff in C. exact C. }
    unfold commit_hs in *. simpl. rewrite (IH p Crest Hin). destruct a; try discriminate; reflexivity.
Qed.

(* ---------- everything the invariant needs to know about one call in a plain run ---------- *)
Lemma obs_eq_set_nval0 : forall s, s_nval s = 0 -> obs_eq s (set_nval s 0).
Proof. intros s H. split; [unfold scal; simpl; rewrite H; reflexivity|apply vc_eq_refl]. Qed.

Record step_facts (E : env) (s : state) (i : input) (s' : state) (acts : list action) : Prop := mkSF {
  sf_rel : exists m', Rel (c0 E) s' m';
  sf_wf : WF s';
  sf_nval : s_nval s' = 0;
  sf_above : input_low s i -> above s s';
  sf_col : col acts = true;
  sf_h : s_h s' = s_h s + N.of_nat (length (commit_hs acts));
  sf_votes : forall k v, In v (votes_of k acts) -> v_h v = s_h s;
  sf_commit : forall p, In (ACommit p) acts -> p_h p = s_h s;
  sf_shape : shape s i s' acts;
  sf_reset : has_commit acts = true -> scal s' = scal (init_state (s_h s'));
  sf_start : match i with IStart _ => has_commit acts = false /\ i = IStart 0 | _ => True end
}.

Lemma sm_step_facts : forall E s w n i m, Rel (c0 E) s m -> WF s -> s_nval s = 0 ->
  good_step E (mkD s w n) i = true ->
  step_facts E s i (fst (fst (sm_step E s n i))) (snd (sm_step E s n i)).
Proof.
  intros E s w n i m R W Nv G. unfold good_step, good_body in G. cbn [d_sm d_calls] in G.
  apply andb_prop in G. destruct G as [Hok G].
  destruct (sm_step_sim E s n i m R Hok) as [m' [M R']].
  pose proof (sm_step_col E s n i) as Col.
  destruct (mon_actions_commits _ _ _ _ M) as [H0 H1]. rewrite mon_input_h in H0, H1.
  assert (Hm : vc_h (m_vc m) = s_h s) by (rewrite (R_vc _ _ _ R); apply (R_h _ _ _ R)).
  assert (Hm' : vc_h (m_vc m') = s_h (fst (fst (sm_step E s n i)))) by (rewrite (R_vc _ _ _ R'); apply (R_h _ _ _ R')).
  assert (Vh : forall k v, In v (votes_of k (snd (sm_step E s n i))) -> v_h v = s_h s).
  { intros k v Hin. rewrite (mon_actions_vote_h _ _ _ _ k v M Col Hin), mon_input_h. exact Hm. }
  assert (Ch : forall p, In (ACommit p) (snd (sm_step E s n i)) -> p_h p = s_h s).
  { intros p Hin. rewrite (col_commit_hs _ p Col Hin) in H0. simpl in H0. rewrite andb_true_r in H0.
    apply N.eqb_eq in H0. rewrite H0. exact Hm. }
  revert G R' Col H1 Hm' Vh Ch M. unfold sm_step.
  set (c := cfg_at E (s_h s) (in_round i) n). rewrite (step_step_x c (set_nval s 0) i).
  pose proof (step_x_shape c (set_nval s 0) i W) as Sh.
  pose proof (step_x_commit_state c (set_nval s 0) i) as Cs.
  pose proof (step_x_cells c (set_nval s 0) i W) as Ce.
  destruct (step_x c (set_nval s 0) i) as [[s1 acts] ex]. cbn [fst snd] in *.
  intros G R' Col H1 Hm' Vh Ch M.
  assert (Low : plain_cond c (set_nval s 0) i s1 acts /\
                match i with IStart _ => has_commit acts = false /\ i = IStart 0 | _ => True end).
  { destruct i as [r|p|v|v|k h r]; cbn [plain_cond msg_pos] in *.
    - apply andb_prop in G. destruct G as [G1 G2]. apply Z.eqb_eq in G1. apply negb_true_iff in G2. subst. auto.
    - apply andb_prop in G. destruct G as [G G3]. apply andb_prop in G. destruct G as [G1 G2].
      apply negb_true_iff in G2. repeat split; auto. intro Ea. subst acts. apply rdata_eqb_eq in G3. symmetry. exact G3.
    - apply andb_prop in G. destruct G as [G G3]. apply andb_prop in G. destruct G as [G1 G2].
      apply negb_true_iff in G2. repeat split; auto. intro Ea. subst acts. apply rdata_eqb_eq in G3. symmetry. exact G3.
    - apply andb_prop in G. destruct G as [G G3]. apply andb_prop in G. destruct G as [G1 G2].
      apply negb_true_iff in G2. repeat split; auto. intro Ea. subst acts. apply rdata_eqb_eq in G3. symmetry. exact G3.
    - apply andb_prop in G. destruct G as [_ G]. apply orb_prop in G. repeat split; auto.
      destruct G as [G|G]; [left; exact G|right].
      destruct (select c (set_nval s 0) None); try discriminate. reflexivity. }
  destruct Low as [Pc St].
  constructor; cbn [fst snd].
  - eauto.
  - unfold WF. apply (R_h _ _ _ R').
  - reflexivity.
  - intro Lw. assert (Lw' : input_low (set_nval s 0) i) by (destruct i; exact Lw). apply (Ce Lw').
  - exact Col.
  - rewrite <- Hm', H1, Hm. reflexivity.
  - exact Vh.
  - exact Ch.
  - destruct (Sh Pc) as [Ea Ho|e rest Ea Hv Hi|e Ea Hi Me Hlt].
    + apply sh_quiet; [exact Ea|].
      eapply obs_eq_trans; [apply obs_eq_set_nval0; exact Nv|]. apply (set_nval_obs _ _ 0 Ho).
    + apply (sh_logged _ _ _ _ e rest Ea Hv). exact Hi.
    + apply (sh_future _ _ _ _ e Ea Hi Me). exact Hlt.
  - intro Hc. specialize (Cs Hc). unfold reset_scal in Cs. exact Cs.
  - exact St.
Qed.

(* ---------- small facts about effect lists ---------- *)
Definition apps (effs : list effect) : list entry :=
  flat_map (fun e => match e with Append x => [x] | _ => [] end) effs.
Lemma apps_app : forall a b, apps (a ++ b) = apps a ++ apps b.
Proof. intros. unfold apps. apply flat_map_app. Qed.

Lemma resume_height_app : forall h a b, resume_height h (a ++ b) = resume_height (resume_height h a) b.
Proof. intros. unfold resume_height. rewrite commits_in_app, fold_left_app. reflexivity. Qed.

Lemma firstn_app_le : forall {A} (l1 l2 : list A) j, (j <= length l1)%nat -> firstn j (l1 ++ l2) = firstn j l1.
Proof.
  intros A l1 l2 j H. rewrite firstn_app. replace (j - length l1)%nat with 0%nat by lia.
  simpl. apply app_nil_r.
Qed.
Lemma firstn_app_ge : forall {A} (l1 l2 : list A) j, (length l1 <= j)%nat ->
  firstn j (l1 ++ l2) = l1 ++ firstn (j - length l1) l2.
Proof. intros A l1 l2 j H. rewrite firstn_app, firstn_all2 by exact H. reflexivity. Qed.

Section Crash.
  Variable E : env.
  Hypothesis Hdet : value_deterministic E.
  Hypothesis Qpos : quorum_positive E.
  Variable h0 : N.
  Hypothesis Hh0 : 1 <= h0.
  (* what the life booted on: the log directory content, and the effects of the earlier lives of this validator *)
  Variable D0 : list wrec.
  Variable E0 : list effect.

  Definition disk (pre : list effect) : list wrec := w_durable (apply_effects (mkWal D0 []) pre).

  (* recovery after a kill at the end of pre re-broadcasts every vote of pre at or above the resume height *)
  Definition CrashCov (pre : list effect) : Prop :=
    (forall n2 k v, In v (votes_in k (E0 ++ pre)) -> resume_height h0 pre <= v_h v ->
       In v (votes_in k (flat (snd (recover E (resume_height h0 pre) (disk pre) n2))))) /\
    (* and no vote so far is for a height above the resume height *)
    (forall k v, In v (votes_in k (E0 ++ pre)) -> v_h v <= resume_height h0 pre).

  Lemma CrashCov_ext : forall pre pre', disk pre' = disk pre -> resume_height h0 pre' = resume_height h0 pre ->
    (forall k v, In v (votes_in k pre') -> In v (votes_in k pre)) -> CrashCov pre -> CrashCov pre'.
  Proof.
    intros pre pre' Hd Hr Hv [C1 C2].
    assert (Sub : forall k v, In v (votes_in k (E0 ++ pre')) -> In v (votes_in k (E0 ++ pre))).
    { intros k v Hin. rewrite votes_in_app in *. apply in_app_or in Hin. apply in_or_app.
      destruct Hin as [Hin|Hin]; [left; exact Hin|right; auto]. }
    split.
    - intros n2 k v Hin Hh. rewrite Hd, Hr in *. apply C1; auto.
    - intros k v Hin. rewrite Hr. apply (C2 k v). auto.
  Qed.

  Lemma disk_snoc : forall pre e, disk (pre ++ [e]) = w_durable (apply_effect (apply_effects (mkWal D0 []) pre) e).
  Proof. intros. unfold disk. rewrite apply_effects_app. reflexivity. Qed.
  Definition vote_cov (H : N) (V : list effect) (acts : list action) : Prop :=
    forall k v, In v (votes_in k V) -> H <= v_h v -> In v (votes_of k acts).

  Definition rep (H : N) (l : list entry) := sm_replay_acts E (init_state H) 0 (above_f H l).

  Lemma obs_eq_h : forall a b, obs_eq a b -> s_h a = s_h b.
  Proof. intros a b [H _]. unfold scal in H. inversion H. reflexivity. Qed.

  (* replaying one more logged input follows the live call *)
  Lemma rep_next : forall s n i effs e,
    obs_eq (fst (fst (rep (s_h s) (apps effs)))) s ->
    ht e = s_h s -> input_of_entry e = i ->
    obs_eq (fst (fst (rep (s_h s) (apps effs ++ [e])))) (fst (fst (sm_step E s n i))) /\
    (forall k v, In v (votes_of k (snd (rep (s_h s) (apps effs)))) \/ In v (votes_of k (snd (sm_step E s n i))) ->
                 In v (votes_of k (snd (rep (s_h s) (apps effs ++ [e]))))).
  Proof.
    intros s n i effs e Ho He Hi. unfold rep in *. rewrite above_f_app.
    assert (Ke : above_f (s_h s) [e] = [e]).
    { unfold above_f. simpl. fold ht. rewrite He. rewrite N.leb_refl. reflexivity. }
    rewrite Ke, sm_replay_acts_app.
    destruct (sm_replay_acts E (init_state (s_h s)) 0 (above_f (s_h s) (apps effs))) as [[sr nr] ar].
    cbn [fst snd] in *. cbn [sm_replay_acts]. fold ht. rewrite He, (obs_eq_h _ _ Ho), N.ltb_irrefl, Hi.
    destruct (sm_step_obs E Qpos sr s nr i Ho) as [A [_ C]].
    destruct (sm_step_det E Hdet s nr n i) as [D1 D2]. rewrite D1, D2 in *.
    destruct (sm_step E sr nr i) as [[s1 n1] a1]. cbn [fst snd] in *. rewrite app_nil_r. split; [exact A|].
    intros k v [Hin|Hin]; rewrite votes_of_app; apply in_or_app; [left; exact Hin|right].
    rewrite <- votes_of_vis, C, votes_of_vis. exact Hin.
  Qed.

  (* what recovery broadcasts = what the state machine returns when it replays the loaded entries *)
  Lemma recover_votes : forall H D n2 k, 0 < H -> prunes_below H D -> hsorted (rents D) ->
    votes_in k (flat (snd (recover E H D n2))) = votes_of k (snd (rep H (rents D))).
  Proof.
    intros H D n2 k HH P S. unfold recover.
    destruct (replay_acts_link E (load D) (boot H D n2)) as [_ L]. rewrite L. cbn [boot d_sm d_calls].
    rewrite (replay_load E (init_state H) n2 D HH P S). unfold rep. cbn [init_state s_h].
    destruct (sm_replay_acts_det E Hdet (above_f H (rents D)) (init_state H) n2 0) as [_ X]. rewrite X. reflexivity.
  Qed.

  Lemma recover_state : forall H D n2, 0 < H -> prunes_below H D -> hsorted (rents D) ->
    d_sm (fst (recover E H D n2)) = fst (fst (rep H (rents D))).
  Proof.
    intros H D n2 HH P S. unfold recover.
    destruct (replay_acts_link E (load D) (boot H D n2)) as [L _]. rewrite L. cbn [boot d_sm d_calls].
    rewrite (replay_load E (init_state H) n2 D HH P S). unfold rep. cbn [init_state s_h].
    destruct (sm_replay_acts_det E Hdet (above_f H (rents D)) (init_state H) n2 0) as [X _]. rewrite X. reflexivity.
  Qed.
  (* ---------- inside one call: every prefix of execute's effects ---------- *)
  Lemma filter_len : forall {A} (f : A -> bool) l, (length (filter f l) <= length l)%nat.
  Proof. induction l as [|x l IH]; simpl; [lia|]. destruct (f x); simpl; lia. Qed.

  Lemma all_vis_inv : forall a l, all_vis (a :: l) -> quiet_act a = false /\ all_vis l.
  Proof.
    intros a l H. unfold all_vis, vis in *. simpl in H. destruct (quiet_act a) eqn:Q; simpl in H.
    - exfalso. assert (L : (length (filter (fun a0 => negb (quiet_act a0)) l) <= length l)%nat) by apply filter_len.
      rewrite H in L. simpl in L. lia.
    - split; [reflexivity|]. inversion H as [H1]. rewrite H1. exact H1.
  Qed.

  Lemma votes_of_In : forall k a l v, In a l -> In v (votes_of k [a]) -> In v (votes_of k l).
  Proof.
    intros k a l v Ha Hv. induction l as [|b l IH]; [contradiction|].
    rewrite votes_of_cons. apply in_or_app. destruct Ha as [->|Ha]; [left; exact Hv|right; auto].
  Qed.

  Section Mid.
    Variable effs : list effect.
    Variable Hs : N.
    Variable D1 : list wrec.
    Variable rest0 : list action.
    Hypothesis HsPos : 0 < Hs.
    Hypothesis VH : forall k v, In v (votes_in k (E0 ++ effs)) \/ In v (votes_of k rest0) -> v_h v <= Hs.
    Hypothesis Cov1 : forall n2 k v, (In v (votes_in k (E0 ++ effs)) /\ Hs <= v_h v) \/ In v (votes_of k rest0) ->
      In v (votes_in k (flat (snd (recover E Hs D1 n2)))).
    Hypothesis CH : forall p, In (ACommit p) rest0 -> p_h p = Hs.
    Hypothesis PB : prunes_below Hs D1.

    Definition allowed (pre : list effect) : Prop :=
      forall k v, In v (votes_in k (E0 ++ pre)) -> In v (votes_in k (E0 ++ effs)) \/ In v (votes_of k rest0).

    Record Mid (wm : wal) (pre : list effect) : Prop := mkMid {
      m_cc : CrashCov pre;
      m_wal : wm = apply_effects (mkWal D0 []) pre;
      m_res : resume_height h0 pre = Hs;
      m_allowed : allowed pre;
      m_recs : w_durable wm ++ w_pending wm = D1;
      m_np : no_prune (w_pending wm)
    }.

    Lemma cc_flushed : forall pre, disk pre = D1 -> resume_height h0 pre = Hs -> allowed pre -> CrashCov pre.
    Proof.
      intros pre Hd Hr Ha. split.
      - intros n2 k v Hin Hh. rewrite Hd, Hr in *. apply Cov1.
        destruct (Ha k v Hin) as [X|X]; [left; split; assumption|right; exact X].
      - intros k v Hin. rewrite Hr. apply (VH k v (Ha k v Hin)).
    Qed.
    Lemma cc_vacuous : forall pre, resume_height h0 pre = Hs + 1 -> allowed pre -> CrashCov pre.
    Proof.
      intros pre Hr Ha. split.
      - intros n2 k v Hin Hh. rewrite Hr in Hh. pose proof (VH k v (Ha k v Hin)). lia.
      - intros k v Hin. rewrite Hr. pose proof (VH k v (Ha k v Hin)). lia.
    Qed.

    Lemma allowed_same : forall pre l, (forall k, votes_in k l = []) -> allowed pre -> allowed (pre ++ l).
    Proof. intros pre l Hl Ha k v Hin. rewrite app_assoc, votes_in_app, Hl, app_nil_r in Hin. apply Ha. exact Hin. Qed.

    Lemma exec_mid : forall rest wm pre, all_vis rest -> col rest = true ->
      (forall a, In a rest -> In a rest0) -> Mid wm pre ->
      (forall j, CrashCov (pre ++ firstn j (snd (fst (exec false wm rest))))) /\
      allowed (pre ++ snd (fst (exec false wm rest))) /\
      (snd (exec false wm rest) = false ->
         w_durable (fst (fst (exec false wm rest))) ++ w_pending (fst (fst (exec false wm rest))) = D1 /\
         no_prune (w_pending (fst (fst (exec false wm rest)))) /\
         resume_height h0 (pre ++ snd (fst (exec false wm rest))) = Hs) /\
      (snd (exec false wm rest) = true ->
         fst (fst (exec false wm rest)) = mkWal (D1 ++ [RPrune Hs]) [] /\
         resume_height h0 (pre ++ snd (fst (exec false wm rest))) = Hs + 1).
    Proof.
      induction rest as [|a rest IH]; intros wm pre AV C Inc M.
      - cbn [exec fst snd]. rewrite app_nil_r. destruct M as [Mcc Mw Mr Ma Mrec Mnp].
        split; [intro j; rewrite firstn_nil, app_nil_r; exact Mcc|]. split; [exact Ma|].
        split; [intros _; auto|discriminate].
      - destruct (all_vis_inv _ _ AV) as [Qa AV'].
        assert (Crest : col rest = true).
        { simpl in C. destruct rest; [reflexivity|]. apply andb_prop in C. apply C. }
        assert (Ca : is_commit a = true -> rest = []).
        { intro Hc. simpl in C. destruct rest; [reflexivity|]. rewrite Hc in C. discriminate. }
        assert (Inc' : forall b, In b rest -> In b rest0) by (intros b Hb; apply Inc; right; exact Hb).
        assert (Ina : In a rest0) by (apply Inc; left; reflexivity).
        destruct M as [Mcc Mw Mr Ma Mrec Mnp].
        (* the log right after a Flush *)
        assert (Fw : wal_flush wm = mkWal D1 []) by (unfold wal_flush; rewrite Mrec; reflexivity).
        assert (DF : disk (pre ++ [Flush]) = D1).
        { rewrite disk_snoc, <- Mw. cbn [apply_effect]. rewrite Fw. reflexivity. }
        assert (RF : resume_height h0 (pre ++ [Flush]) = Hs) by (rewrite resume_height_app; exact Mr).
        assert (AF : allowed (pre ++ [Flush])) by (apply allowed_same; [intro k; reflexivity|exact Ma]).
        assert (CF : CrashCov (pre ++ [Flush])) by (apply cc_flushed; assumption).
        destruct a; try discriminate.
        + (* BroadcastProposal *)
          cbn [exec pre_flush requires_flush negb andb exec_one]. rewrite Fw.
          set (ea := [Flush; Bcast (MProposal p)]).
          assert (M' : Mid (mkWal D1 []) (pre ++ ea)).
          { constructor.
            - apply cc_flushed.
              + unfold ea. change (pre ++ [Flush; Bcast (MProposal p)]) with (pre ++ [Flush] ++ [Bcast (MProposal p)]).
                rewrite app_assoc, disk_snoc. cbn [apply_effect]. exact DF.
              + rewrite resume_height_app. exact Mr.
              + apply allowed_same; [intro k; reflexivity|exact Ma].
            - unfold ea. rewrite apply_effects_app, <- Mw. cbn [apply_effects fold_left apply_effect]. exact (eq_sym Fw).
            - rewrite resume_height_app. exact Mr.
            - apply allowed_same; [intro k; reflexivity|exact Ma].
            - cbn [w_durable w_pending]. apply app_nil_r.
            - constructor. }
          destruct (IH _ _ AV' Crest Inc' M') as [I1 [I2 [I3 I4]]].
          destruct (exec false (mkWal D1 []) rest) as [[wf more] com]. cbn [fst snd] in *.
          change ([Flush] ++ [Bcast (MProposal p)] ++ more) with (ea ++ more). rewrite app_assoc.
          split; [|auto].
          intro j. destruct (Nat.le_gt_cases j 2) as [Hj|Hj].
          * rewrite firstn_app_le by exact Hj.
            destruct j as [|[|[|j]]]; [rewrite app_nil_r; exact Mcc|exact CF|apply (m_cc _ _ M')|lia].
          * rewrite firstn_app_ge by (simpl; lia). rewrite app_assoc. apply I1.
        + (* BroadcastPrevote *)
          cbn [exec pre_flush requires_flush negb andb exec_one]. rewrite Fw.
          set (ea := [Flush; Bcast (MPrevote v)]).
          assert (Al : allowed (pre ++ ea)).
          { intros k x Hin. unfold ea in Hin. rewrite app_assoc, votes_in_app in Hin. apply in_app_or in Hin.
            destruct Hin as [Hin|Hin]; [apply Ma; exact Hin|right].
            apply (votes_of_In k (ABroadcastPrevote v) rest0 x Ina). destruct k; simpl in *; exact Hin. }
          assert (M' : Mid (mkWal D1 []) (pre ++ ea)).
          { constructor.
            - apply cc_flushed.
              + unfold ea. change (pre ++ [Flush; Bcast (MPrevote v)]) with (pre ++ [Flush] ++ [Bcast (MPrevote v)]).
                rewrite app_assoc, disk_snoc. cbn [apply_effect]. exact DF.
              + rewrite resume_height_app. exact Mr.
              + exact Al.
            - unfold ea. rewrite apply_effects_app, <- Mw. cbn [apply_effects fold_left apply_effect]. exact (eq_sym Fw).
            - rewrite resume_height_app. exact Mr.
            - exact Al.
            - cbn [w_durable w_pending]. apply app_nil_r.
            - constructor. }
          destruct (IH _ _ AV' Crest Inc' M') as [I1 [I2 [I3 I4]]].
          destruct (exec false (mkWal D1 []) rest) as [[wf more] com]. cbn [fst snd] in *.
          change ([Flush] ++ [Bcast (MPrevote v)] ++ more) with (ea ++ more). rewrite app_assoc.
          split; [|auto].
          intro j. destruct (Nat.le_gt_cases j 2) as [Hj|Hj].
          * rewrite firstn_app_le by exact Hj.
            destruct j as [|[|[|j]]]; [rewrite app_nil_r; exact Mcc|exact CF|apply (m_cc _ _ M')|lia].
          * rewrite firstn_app_ge by (simpl; lia). rewrite app_assoc. apply I1.
        + (* BroadcastPrecommit *)
          cbn [exec pre_flush requires_flush negb andb exec_one]. rewrite Fw.
          set (ea := [Flush; Bcast (MPrecommit v)]).
          assert (Al : allowed (pre ++ ea)).
          { intros k x Hin. unfold ea in Hin. rewrite app_assoc, votes_in_app in Hin. apply in_app_or in Hin.
            destruct Hin as [Hin|Hin]; [apply Ma; exact Hin|right].
            apply (votes_of_In k (ABroadcastPrecommit v) rest0 x Ina). destruct k; simpl in *; exact Hin. }
          assert (M' : Mid (mkWal D1 []) (pre ++ ea)).
          { constructor.
            - apply cc_flushed.
              + unfold ea. change (pre ++ [Flush; Bcast (MPrecommit v)]) with (pre ++ [Flush] ++ [Bcast (MPrecommit v)]).
                rewrite app_assoc, disk_snoc. cbn [apply_effect]. exact DF.
              + rewrite resume_height_app. exact Mr.
              + exact Al.
            - unfold ea. rewrite apply_effects_app, <- Mw. cbn [apply_effects fold_left apply_effect]. exact (eq_sym Fw).
            - rewrite resume_height_app. exact Mr.
            - exact Al.
            - cbn [w_durable w_pending]. apply app_nil_r.
            - constructor. }
          destruct (IH _ _ AV' Crest Inc' M') as [I1 [I2 [I3 I4]]].
          destruct (exec false (mkWal D1 []) rest) as [[wf more] com]. cbn [fst snd] in *.
          change ([Flush] ++ [Bcast (MPrecommit v)] ++ more) with (ea ++ more). rewrite app_assoc.
          split; [|auto].
          intro j. destruct (Nat.le_gt_cases j 2) as [Hj|Hj].
          * rewrite firstn_app_le by exact Hj.
            destruct j as [|[|[|j]]]; [rewrite app_nil_r; exact Mcc|exact CF|apply (m_cc _ _ M')|lia].
          * rewrite firstn_app_ge by (simpl; lia). rewrite app_assoc. apply I1.
        + (* ScheduleTimeout *)
          cbn [exec pre_flush requires_flush negb andb exec_one].
          set (ea := [Sched k h r]).
          assert (M' : Mid wm (pre ++ ea)).
          { constructor.
            - apply (CrashCov_ext pre); [unfold ea; rewrite disk_snoc; reflexivity|rewrite resume_height_app; reflexivity| |exact Mcc].
              intros kd x Hin. rewrite votes_in_app in Hin. destruct kd; simpl in Hin; rewrite app_nil_r in Hin; exact Hin.
            - unfold ea. rewrite apply_effects_app, <- Mw. reflexivity.
            - rewrite resume_height_app. exact Mr.
            - apply allowed_same; [intro kd; destruct kd; reflexivity|exact Ma].
            - exact Mrec.
            - exact Mnp. }
          destruct (IH _ _ AV' Crest Inc' M') as [I1 [I2 [I3 I4]]].
          destruct (exec false wm rest) as [[wf more] com]. cbn [fst snd app] in *.
          change (Sched k h r :: more) with (ea ++ more). rewrite app_assoc.
          split; [|auto].
          intro j. destruct (Nat.le_gt_cases j 1) as [Hj|Hj].
          * rewrite firstn_app_le by exact Hj.
            destruct j as [|[|j]]; [rewrite app_nil_r; exact Mcc|apply (m_cc _ _ M')|lia].
          * rewrite firstn_app_ge by (simpl; lia). rewrite app_assoc. apply I1.
        + (* Commit: last action *)
          assert (Hp : p_h p = Hs) by (apply CH; exact Ina).
          cbn [exec pre_flush requires_flush negb andb]. rewrite Fw, Hp.
          assert (Pr : pruned_upto D1 < Hs) by (apply pruned_below; assumption).
          assert (Wp : wal_prune Hs (mkWal D1 []) = mkWal D1 [RPrune Hs]).
          { unfold wal_prune. cbn [w_durable w_pending bump_prune]. destruct (Hs <=? pruned_upto D1) eqn:E1; [lia|reflexivity]. }
          rewrite Wp. cbn [fst snd wal_flush w_durable w_pending app].
          set (cb := CommitCb Hs (p_val p)).
          assert (A2 : allowed (pre ++ [Flush; cb])) by (apply allowed_same; [intro k; reflexivity|exact Ma]).
          assert (A3 : allowed (pre ++ [Flush; cb; Prune Hs])) by (apply allowed_same; [intro k; reflexivity|exact Ma]).
          assert (A4 : allowed (pre ++ [Flush; cb; Prune Hs; Flush])) by (apply allowed_same; [intro k; reflexivity|exact Ma]).
          assert (R2 : forall l, commits_in l = [Hs] -> resume_height h0 (pre ++ l) = Hs + 1).
          { intros l Hl. rewrite resume_height_app, Mr. unfold resume_height. rewrite Hl. reflexivity. }
          split; [|split; [exact A4|split; [discriminate|intros _; split; [reflexivity|apply R2; reflexivity]]]].
          intro j. destruct j as [|[|[|[|j]]]]; cbn [firstn].
          * rewrite app_nil_r. exact Mcc.
          * exact CF.
          * apply cc_vacuous; [apply R2; reflexivity|exact A2].
          * apply cc_vacuous; [apply R2; reflexivity|exact A3].
          * rewrite firstn_nil. apply cc_vacuous; [apply R2; reflexivity|exact A4].
    Qed.
  End Mid.
  (* ---------- helpers for the boundary invariant ---------- *)
  Lemma exec_logged : forall w e rest,
    exec false w (wal_of e :: rest) =
    (fst (fst (exec false (wal_append e w) rest)), Append e :: snd (fst (exec false (wal_append e w) rest)),
     snd (exec false (wal_append e w) rest)).
  Proof.
    intros w e rest. destruct e; cbn [exec wal_of pre_flush requires_flush negb andb exec_one entry_of_action];
      destruct (exec false (wal_append _ w) rest) as [[w3 more] com]; reflexivity.
  Qed.

  Lemma exec_vis_apps : forall rest w, all_vis rest -> apps (snd (fst (exec false w rest))) = [].
  Proof.
    induction rest as [|a rest IH]; intros w AV; [reflexivity|].
    destruct (all_vis_inv _ _ AV) as [Qa AV'].
    destruct a; try discriminate; cbn [exec pre_flush requires_flush negb andb exec_one]; try reflexivity;
      match goal with |- context [exec false ?W rest] =>
        specialize (IH W AV'); destruct (exec false W rest) as [[w3 more] com] end;
      cbn [fst snd] in *; rewrite ?apps_app; simpl; exact IH.
  Qed.

  Lemma above_f_none : forall H l, Forall (fun e => ht e < H) l -> above_f H l = [].
  Proof.
    induction l as [|e l IH]; intros F; [reflexivity|]. inversion F as [|x y Hx Hy]. subst.
    unfold above_f in *. simpl. destruct (H <=? ht e) eqn:El; [lia|]. apply IH. exact Hy.
  Qed.

  Lemma crash_prefixes : forall effs es,
    (forall j, CrashCov (firstn j effs)) -> (forall j, CrashCov (effs ++ firstn j es)) ->
    forall j, CrashCov (firstn j (effs ++ es)).
  Proof.
    intros effs es H1 H2 j. destruct (Nat.le_gt_cases j (length effs)) as [L|G].
    - rewrite firstn_app_le by exact L. apply H1.
    - rewrite firstn_app_ge by lia. apply H2.
  Qed.

  Lemma votes_wal_of : forall k e rest, votes_of k (wal_of e :: rest) = votes_of k rest.
  Proof. intros k e rest. destruct e, k; reflexivity. Qed.
  Lemma in_wal_of : forall p e rest, In (ACommit p) (wal_of e :: rest) -> In (ACommit p) rest.
  Proof. intros p e rest [H|H]; [destruct e; discriminate|exact H]. Qed.
  Lemma col_tail : forall a l, col (a :: l) = true -> col l = true.
  Proof. intros a l C. simpl in C. destruct l; [reflexivity|]. apply andb_prop in C. apply C. Qed.

  Lemma prunes_below_mono : forall H H' l, H <= H' -> prunes_below H l -> prunes_below H' l.
  Proof.
    intros H H' l Hle P. unfold prunes_below in *. eapply Forall_impl; [|exact P].
    intros [e|g]; [auto|]. intro; lia.
  Qed.

  Lemma vc_new_cell : forall h h' r, cell (vc_new h) h' r = r_empty.
  Proof. intros. unfold cell, row, fut, vc_new. simpl. destruct (h' =? h); reflexivity. Qed.
End Crash.
