(* C13 — lemmas, part 13: assembling C13_no_conflict for plain runs. *)
From Coq Require Import List NArith ZArith Bool Lia ZifyN ZifyBool.
From V Require Import C12.Model C12.Proofs C13.Model C13.Proofs C13.Proofs_Votes C13.Proofs_Commit
  C13.Proofs_Life C13.Proofs_Resume C13.Proofs_Wal C13.Proofs_Crash C13.Proofs_Inv.
Import ListNotations.
Open Scope N_scope.

(* ---------- every vote of a life carries a height at or above the boot height ---------- *)
Definition HInv (E : env) (h : N) (d : dstate) (effs : list effect) : Prop :=
  (exists m, Rel (c0 E) (d_sm d) m) /\ h <= s_h (d_sm d) /\
  forall k v, In v (votes_in k effs) -> h <= v_h v.

Lemma HInv_step : forall E h r d i effs, HInv E h d effs -> ok_input (d_sm d) i = true ->
  HInv E h (fst (fst (dstep E r d i))) (effs ++ snd (fst (dstep E r d i))).
Proof.
  intros E h r d i effs [[m R] [Hh Hv]] Hok. rewrite dstep_spec. cbn [fst snd d_sm].
  destruct (sm_step_sim E (d_sm d) (d_calls d) i m R Hok) as [m' [M R']].
  fold (sm_of E d i) in M, R'.
  pose proof (sm_step_col E (d_sm d) (d_calls d) i) as Col. fold (sm_of E d i) in Col.
  pose proof (sm_step_height E (d_sm d) (d_calls d) i m R Hok) as Hm. fold (sm_of E d i) in Hm.
  assert (Hmh : vc_h (m_vc m) = s_h (d_sm d)) by (rewrite (R_vc _ _ _ R); apply (R_h _ _ _ R)).
  split; [eauto|]. cbn [d_sm]. split; [lia|].
  intros k v Hin. rewrite votes_in_app in Hin. apply in_app_or in Hin. destruct Hin as [Hin|Hin]; [apply (Hv k v Hin)|].
  rewrite (exec_votes_eq k r _ _ Col) in Hin.
  rewrite (mon_actions_vote_h _ _ _ _ k v M Col Hin), mon_input_h, Hmh. exact Hh.
Qed.

Lemma life_votes_height : forall E h D n ins, life_disc E h D n ins = true ->
  forall k v, In v (votes_in k (flat (snd (lifetime E h D n ins)))) -> h <= v_h v.
Proof.
  intros E h D n ins Hd.
  assert (X : HInv E h (fst (lifetime E h D n ins)) (flat (snd (lifetime E h D n ins)))).
  { apply (life_P E (HInv E h)); [intros; apply HInv_step; assumption|exact Hd|].
    split; [exists (mon_init h); apply Rel_init|]. simpl. split; [lia|]. intros k v Hin. destruct k; contradiction. }
  destruct X as [_ [_ X]]. exact X.
Qed.

Lemma no_conflict_kind_intro : forall k pre post,
  (forall a b, In a (votes_in k pre) -> In b (votes_in k post) -> conflicts a b = false) ->
  no_conflict_kind k pre post = true.
Proof.
  intros k pre post H. unfold no_conflict_kind. apply forallb_forall. intros a Ha.
  apply forallb_forall. intros b Hb. rewrite (H a b Ha Hb). reflexivity.
Qed.

Lemma firstn_votes_incl : forall k j l v, In v (votes_in k (firstn j l)) -> In v (votes_in k l).
Proof.
  intros k j l v Hin. rewrite <- (firstn_skipn j l), votes_in_app. apply in_or_app. left. exact Hin.
Qed.

(* ---------- no conflicting vote after recovery, plain runs ---------- *)
Lemma no_conflict_plain : forall E h0 ins1 k n2 ins2,
  value_deterministic E -> quorum_positive E -> good_run E h0 ins1 = true ->
  (let '(pre, post) := crash_restart E h0 ins1 k n2 ins2 in
   life_disc E (resume_height h0 pre) (crash_at k (flat (snd (lifetime E h0 [] 0 ins1))) []) n2 ins2 = true ->
   no_conflict pre (flat (snd post)) = true).
Proof.
  intros E h0 ins1 k n2 ins2 Hdet Q G. unfold crash_restart.
  set (effs := flat (snd (lifetime E h0 [] 0 ins1))). set (pre := firstn k effs).
  set (H' := resume_height h0 pre). set (D := crash_at k effs []). intro Hd.
  assert (Hh0 : 1 <= h0).
  { unfold good_run in G. apply andb_prop in G. destruct G as [G _]. apply andb_prop in G. destruct G as [G _].
    apply N.leb_le in G. exact G. }
  pose proof (BI_run E Hdet Q h0 Hh0 [] [] eq_refl eq_refl ins1 G) as B. fold effs in B.
  pose proof (proj1 (b_crash _ _ _ _ _ _ B k)) as CC. fold pre in CC. cbn [app] in CC.
  assert (Cover : forall kd v, In v (votes_in kd pre) -> H' <= v_h v ->
            In v (votes_in kd (flat (snd (lifetime E H' D n2 ins2))))).
  { intros kd v Hin Hh. specialize (CC n2 kd v Hin Hh). unfold lifetime.
    change (disk [] pre) with D in CC. fold H' in CC.
    destruct (recover E H' D n2) as [d1 tr1]. destruct (run_live E d1 ins2) as [d2 tr2]. cbn [snd] in *.
    rewrite flat_app, votes_in_app. apply in_or_app. left. exact CC. }
  assert (NC : forall kd, no_conflict_kind kd pre (flat (snd (lifetime E H' D n2 ins2))) = true).
  { intro kd. apply no_conflict_kind_intro. intros a b Ha Hb.
    unfold conflicts. destruct (same_slot a b) eqn:S; [|reflexivity]. simpl.
    pose proof (life_votes_height E H' D n2 ins2 Hd kd b Hb) as Hbh.
    assert (Hah : H' <= v_h a) by (unfold same_slot in S; lia).
    pose proof (Cover kd a Ha Hah) as Ha'.
    rewrite (one_per_slot_unique _ a b (life_one_per_slot E H' D n2 ins2 kd Hd) Ha' Hb S).
    rewrite oid_eqb_refl. reflexivity. }
  unfold no_conflict. rewrite !NC. reflexivity.
Qed.
