(* C13 — lemmas, part 16: the future-height buffer of the vote counter is passed through untouched by every
   call that is not itself a message for a future height (it is only read when a Commit moves the next
   height's buffered rounds in).  Syntactic equalities: replacing the buffer before the call = replacing it
   after the call. *)
From Coq Require Import List NArith ZArith Bool Lia ZifyN ZifyBool.
From V Require Import C12.Model C12.Proofs C13.Model C13.Proofs_Commit C13.Proofs_Obs C13.Proofs_Cells C13.Proofs_Crash.
Import ListNotations.
Open Scope N_scope.

Definition futbuf := list (N * rmap).
Definition vwf (vc : vcounter) (F : futbuf) : vcounter := mkVC (vc_h vc) (vc_rounds vc) F.
Definition with_fut (s : state) (F : futbuf) : state := set_vc s (vwf (s_vc s) F).
Definition flook (F : futbuf) (h : N) : rmap := match aget N.eqb F h with Some m => m | None => [] end.
(* the counter after a Commit, in terms of the buffer that was there before it *)
Definition commit_fut (s' : state) (F : futbuf) : state :=
  set_vc s' (mkVC (vc_h (s_vc s')) (flook F (vc_h (s_vc s'))) (adel N.eqb F (vc_h (s_vc s')))).
Definition after_fut (s' : state) (acts : list action) (F : futbuf) : state :=
  if has_commit acts then commit_fut s' F else with_fut s' F.

Lemma with_fut_wf : forall s F, WF s -> WF (with_fut s F).
Proof. intros s F W. exact W. Qed.

Lemma vc_with_cur : forall vc h r f, h = vc_h vc -> vc_with vc h r f =
  (mkVC (vc_h vc) (aset Z.eqb (vc_rounds vc) r (fst (f (rm_get (vc_rounds vc) r)))) (vc_future vc),
   snd (f (rm_get (vc_rounds vc) r))).
Proof.
  intros vc h r f ->. unfold vc_with. rewrite N.ltb_irrefl, N.eqb_refl.
  destruct (f (rm_get (vc_rounds vc) r)). reflexivity.
Qed.

Section PT.
  Variable c : cfg.

  Lemma pt_add_vote : forall vc F k v, v_h v = vc_h vc ->
    vc_add_vote c (vwf vc F) k v = (vwf (fst (vc_add_vote c vc k v)) F, snd (vc_add_vote c vc k v)).
  Proof.
    intros vc F k v H. unfold vc_add_vote.
    rewrite (vc_with_cur (vwf vc F)) by exact H. rewrite (vc_with_cur vc) by exact H. reflexivity.
  Qed.
  Lemma pt_add_proposal : forall vc F p, p_h p = vc_h vc ->
    vc_add_proposal c (vwf vc F) p = (vwf (fst (vc_add_proposal c vc p)) F, snd (vc_add_proposal c vc p)).
  Proof.
    intros vc F p H. unfold vc_add_proposal.
    rewrite (vc_with_cur (vwf vc F)) by exact H. rewrite (vc_with_cur vc) by exact H. reflexivity.
  Qed.
  Lemma pt_add_vote_low : forall vc F k v, v_h v < vc_h vc ->
    vc_add_vote c (vwf vc F) k v = (vwf vc F, false) /\ vc_add_vote c vc k v = (vc, false).
  Proof. intros vc F k v H. unfold vc_add_vote. rewrite !vc_with_low by exact H. auto. Qed.
  Lemma pt_add_proposal_low : forall vc F p, p_h p < vc_h vc ->
    vc_add_proposal c (vwf vc F) p = (vwf vc F, false) /\ vc_add_proposal c vc p = (vc, false).
  Proof. intros vc F p H. unfold vc_add_proposal. rewrite !vc_with_low by exact H. auto. Qed.

  Lemma pt_send_prevote : forall s F id, WF s ->
    send_prevote c (with_fut s F) id = (with_fut (fst (send_prevote c s id)) F, snd (send_prevote c s id)).
  Proof.
    intros s F id W. unfold send_prevote. cbn [with_fut set_vc s_vc s_h s_r].
    rewrite pt_add_vote by (symmetry; exact W). reflexivity.
  Qed.
  Lemma pt_send_precommit : forall s F id, WF s ->
    send_precommit c (with_fut s F) id = (with_fut (fst (send_precommit c s id)) F, snd (send_precommit c s id)).
  Proof.
    intros s F id W. unfold send_precommit. cbn [with_fut set_vc s_vc s_h s_r].
    rewrite pt_add_vote by (symmetry; exact W). reflexivity.
  Qed.
  Lemma pt_send_proposal : forall s F v, WF s ->
    send_proposal c (with_fut s F) v = (with_fut (fst (send_proposal c s v)) F, snd (send_proposal c s v)).
  Proof.
    intros s F v W. unfold send_proposal. cbn [with_fut set_vc s_vc s_h s_r s_vr].
    rewrite pt_add_proposal by (symmetry; exact W). reflexivity.
  Qed.

  Lemma pt_start_round : forall s F r, WF s ->
    start_round c (with_fut s F) r = (with_fut (fst (start_round c s r)) F, snd (start_round c s r)).
  Proof.
    intros s F r W. unfold start_round, send_proposal.
    cbn [with_fut set_vc reset_state s_vc s_h s_r s_vr s_vv s_nval s_step s_lv s_lr s_tpv s_tpc s_lvs s_started s_lts s_lq vwf vc_h].
    destruct (c_proposer c (vc_h (s_vc s)) r =? c_self c); [|reflexivity].
    destruct (s_vv s); cbn [s_vc s_h s_r s_vr];
      rewrite pt_add_proposal by (symmetry; exact W); reflexivity.
  Qed.
  Lemma pt_select : forall s F rr, select c (with_fut s F) rr = select c s rr.
  Proof. reflexivity. Qed.

  Lemma pt_apply_rule : forall s F ru, WF s ->
    apply_rule c (with_fut s F) ru =
    (after_fut (fst (fst (apply_rule c s ru))) (olist (snd (fst (apply_rule c s ru)))) F,
     snd (fst (apply_rule c s ru)), snd (apply_rule c s ru)).
  Proof.
    intros s F ru W. destruct ru; cbn [apply_rule].
    - unfold do22. change (s_lr (with_fut s F)) with (s_lr s).
      change (lock_matches c (with_fut s F)) with (lock_matches c s).
      rewrite pt_send_prevote by exact W. destruct (send_prevote c s _) as [s1 a] eqn:Es.
      unfold send_prevote in Es. inversion Es. reflexivity.
    - unfold do28. change (s_lr (with_fut s F)) with (s_lr s).
      change (lock_matches c (with_fut s F)) with (lock_matches c s).
      rewrite pt_send_prevote by exact W. destruct (send_prevote c s _) as [s1 a] eqn:Es.
      unfold send_prevote in Es. inversion Es. reflexivity.
    - reflexivity.
    - unfold do36. change (s_step (with_fut s F)) with (s_step s). destruct (step_eqb (s_step s) SPrevote); [|reflexivity].
      change (set_lock (with_fut s F) (p_val p)) with (with_fut (set_lock s (p_val p)) F).
      rewrite pt_send_precommit by exact W.
      destruct (send_precommit c (set_lock s (p_val p)) _) as [s1 a] eqn:Es.
      unfold send_precommit in Es. inversion Es. reflexivity.
    - rewrite pt_send_precommit by exact W. destruct (send_precommit c s None) as [s1 a] eqn:Es.
      unfold send_precommit in Es. inversion Es. reflexivity.
    - reflexivity.
    - reflexivity.
    - rewrite pt_start_round by exact W.
      pose proof (start_round_nc c s r) as N. destruct (start_round c s r) as [s1 a]. cbn [fst snd olist] in *.
      unfold after_fut, has_commit. simpl. destruct a; try discriminate; reflexivity.
    - reflexivity.
  Qed.

  Lemma pt_loop : forall fuel s F rr, WF s ->
    loop c fuel (with_fut s F) rr =
    (after_fut (fst (fst (loop c fuel s rr))) (snd (fst (loop c fuel s rr))) F,
     snd (fst (loop c fuel s rr)), snd (loop c fuel s rr)).
  Proof.
    induction fuel as [|n IH]; intros s F rr W; cbn [loop]; [reflexivity|].
    rewrite pt_select, pt_apply_rule by exact W.
    destruct (apply_rule_cells c s (select c s rr) W) as [W1 _].
    pose proof (apply_rule_cont c s (select c s rr)) as NC.
    destruct (apply_rule c s (select c s rr)) as [[s1 oa] cont]. cbn [fst snd] in *. destruct cont.
    - assert (Hoa : has_commit (olist oa) = false).
      { destruct oa as [a|]; [|reflexivity]. specialize (NC s1 a eq_refl). simpl. destruct a; try discriminate; reflexivity. }
      unfold after_fut at 1. rewrite Hoa. rewrite (IH s1 F rr W1).
      destruct (loop c n s1 rr) as [[s2 more] ex]. cbn [fst snd].
      unfold after_fut. rewrite has_commit_app, Hoa. reflexivity.
    - cbn [fst snd]. reflexivity.
  Qed.
  Lemma after_fut_h : forall s acts F, s_h (after_fut s acts F) = s_h s.
  Proof. intros. unfold after_fut. destruct (has_commit acts); reflexivity. Qed.

  Lemma pt_on_timeout : forall s F k h r, WF s ->
    on_timeout c (with_fut s F) k h r = (with_fut (fst (on_timeout c s k h r)) F, snd (on_timeout c s k h r)).
  Proof.
    intros s F k h r W. unfold on_timeout.
    change (s_h (with_fut s F)) with (s_h s). change (s_r (with_fut s F)) with (s_r s).
    change (s_step (with_fut s F)) with (s_step s). destruct k.
    - destruct ((s_h s =? h) && (s_r s =? r)%Z && step_eqb (s_step s) SPropose); [|reflexivity].
      rewrite pt_send_prevote by exact W. destruct (send_prevote c s None). reflexivity.
    - destruct ((s_h s =? h) && (s_r s =? r)%Z && step_eqb (s_step s) SPrevote); [|reflexivity].
      rewrite pt_send_precommit by exact W. destruct (send_precommit c s None). reflexivity.
    - destruct ((s_h s =? h) && (s_r s =? r)%Z); [|reflexivity].
      rewrite pt_start_round by exact W. destruct (start_round c s (r + 1)%Z). reflexivity.
  Qed.

  Lemma on_timeout_nc : forall s k h r, has_commit (snd (on_timeout c s k h r)) = false.
  Proof.
    intros. unfold on_timeout. destruct k.
    - destruct ((s_h s =? h) && (s_r s =? r)%Z && step_eqb (s_step s) SPropose); reflexivity.
    - destruct ((s_h s =? h) && (s_r s =? r)%Z && step_eqb (s_step s) SPrevote); reflexivity.
    - destruct ((s_h s =? h) && (s_r s =? r)%Z); [|reflexivity].
      pose proof (start_round_nc c s (r + 1)%Z) as N. destruct (start_round c s (r + 1)%Z) as [s' a].
      simpl in *. destruct a; try discriminate; reflexivity.
  Qed.

  Lemma pt_process_message : forall s F w h r, WF s -> is_commit w = false ->
    process_message c (with_fut s F) w h r =
    (after_fut (fst (fst (process_message c s w h r))) (snd (fst (process_message c s w h r))) F,
     snd (fst (process_message c s w h r)), snd (process_message c s w h r)).
  Proof.
    intros s F w h r W Hw. unfold process_message. change (s_h (with_fut s F)) with (s_h s).
    destruct (negb (h =? s_h s)).
    - cbn [fst snd]. unfold after_fut, has_commit. simpl. destruct w; try discriminate; reflexivity.
    - rewrite pt_loop by exact W. destruct (loop c FUEL s (Some r)) as [[s1 acts] ex]. cbn [fst snd].
      unfold after_fut, has_commit. simpl. destruct w; try discriminate; reflexivity.
  Qed.

  Lemma pt_step_x : forall s F i, WF s -> input_low s i ->
    step_x c (with_fut s F) i =
    (after_fut (fst (fst (step_x c s i))) (snd (fst (step_x c s i))) F,
     snd (fst (step_x c s i)), snd (step_x c s i)).
  Proof.
    intros s F i W L. destruct i as [r|p|v|v|k h r]; unfold step_x; simpl in L.
    - change (s_started (with_fut s F)) with (s_started s). destruct (s_started s); [reflexivity|].
      change (set_started (with_fut s F) true) with (with_fut (set_started s true) F).
      rewrite pt_start_round by exact W.
      destruct (start_round_cells c (set_started s true) r W) as [W1 _].
      pose proof (start_round_nc c (set_started s true) r) as N.
      destruct (start_round c (set_started s true) r) as [s1 a]. cbn [fst snd] in *.
      rewrite pt_loop by exact W1. destruct (loop c FUEL s1 None) as [[s2 acts] ex]. cbn [fst snd].
      rewrite after_fut_h. unfold after_fut, has_commit. simpl. destruct a; try discriminate; reflexivity.
    - change (s_vc (with_fut s F)) with (vwf (s_vc s) F).
      destruct (N.lt_ge_cases (p_h p) (vc_h (s_vc s))) as [Lt|Ge].
      + destruct (pt_add_proposal_low (s_vc s) F p Lt) as [E1 E2]. rewrite E1, E2. reflexivity.
      + rewrite pt_add_proposal by (unfold WF in W; lia).
        destruct (add_proposal_cells c s p _ W L eq_refl) as [W1 _].
        destruct (vc_add_proposal c (s_vc s) p) as [vc ok]. cbn [fst snd] in *.
        change (set_vc (with_fut s F) (vwf vc F)) with (with_fut (set_vc s vc) F).
        change (s_started (with_fut (set_vc s vc) F)) with (s_started (set_vc s vc)).
        destruct (negb ok || negb (s_started (set_vc s vc))); [reflexivity|].
        apply pt_process_message; [exact W1|reflexivity].
    - change (s_vc (with_fut s F)) with (vwf (s_vc s) F).
      destruct (N.lt_ge_cases (v_h v) (vc_h (s_vc s))) as [Lt|Ge].
      + destruct (pt_add_vote_low (s_vc s) F Prevote v Lt) as [E1 E2]. rewrite E1, E2. reflexivity.
      + rewrite pt_add_vote by (unfold WF in W; lia).
        destruct (add_vote_cells c s Prevote v _ W L eq_refl) as [W1 _].
        destruct (vc_add_vote c (s_vc s) Prevote v) as [vc ok]. cbn [fst snd] in *.
        change (set_vc (with_fut s F) (vwf vc F)) with (with_fut (set_vc s vc) F).
        change (s_started (with_fut (set_vc s vc) F)) with (s_started (set_vc s vc)).
        destruct (negb ok || negb (s_started (set_vc s vc))); [reflexivity|].
        apply pt_process_message; [exact W1|reflexivity].
    - change (s_vc (with_fut s F)) with (vwf (s_vc s) F).
      destruct (N.lt_ge_cases (v_h v) (vc_h (s_vc s))) as [Lt|Ge].
      + destruct (pt_add_vote_low (s_vc s) F Precommit v Lt) as [E1 E2]. rewrite E1, E2. reflexivity.
      + rewrite pt_add_vote by (unfold WF in W; lia).
        destruct (add_vote_cells c s Precommit v _ W L eq_refl) as [W1 _].
        destruct (vc_add_vote c (s_vc s) Precommit v) as [vc ok]. cbn [fst snd] in *.
        change (set_vc (with_fut s F) (vwf vc F)) with (with_fut (set_vc s vc) F).
        change (s_started (with_fut (set_vc s vc) F)) with (s_started (set_vc s vc)).
        destruct (negb ok || negb (s_started (set_vc s vc))); [reflexivity|].
        change (s_h (with_fut (set_vc s vc) F)) with (s_h s). change (s_h (set_vc s vc)) with (s_h s).
        assert (NoTS : (s_h s <? v_h v) = false) by lia. rewrite NoTS. cbn [andb].
        assert (X : forall (A : Type) (a b : A), (if match v_id v with Some _ => false | None => false end then a else b) = b)
          by (intros; destruct (v_id v); reflexivity).
        rewrite !X. apply pt_process_message; [exact W1|reflexivity].
    - rewrite pt_on_timeout by exact W.
      destruct (on_timeout_cells c s k h r W) as [W1 _]. pose proof (on_timeout_nc s k h r) as N.
      destruct (on_timeout c s k h r) as [s1 a0]. cbn [fst snd] in *.
      rewrite pt_loop by exact W1. destruct (loop c FUEL s1 None) as [[s2 acts] ex]. cbn [fst snd].
      unfold after_fut. rewrite has_commit_app, N. reflexivity.
  Qed.
End PT.
