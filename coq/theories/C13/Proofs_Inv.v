(* C13 — lemmas, part 19: the boundary invariant of a plain life (messages for future heights allowed).
   At every boundary between two calls: the entries of the current height, replayed in log order, give a
   core state; the live state is (up to obs_eq) that core plus the updates of the logged future-height
   messages; the core's actions contain every vote broadcast at the current height; and for EVERY prefix of
   the effect trace the recovery from what is then on disk re-broadcasts the pre-kill votes of the resume
   height. *)
From Coq Require Import List NArith ZArith Bool Lia ZifyN ZifyBool.
From V Require Import C12.Model C12.Proofs C13.Model C13.Proofs C13.Proofs_Votes C13.Proofs_Commit
  C13.Proofs_Life C13.Proofs_Resume C13.Proofs_Replay C13.Proofs_Obs C13.Proofs_ObsStep C13.Proofs_Cells
  C13.Proofs_Shape C13.Proofs_Wal C13.Proofs_Crash C13.Proofs_MidGen C13.Proofs_Fut C13.Proofs_Upd C13.Proofs_Core.
Import ListNotations.
Open Scope N_scope.

Lemma curs_futs : forall H g l, H < g -> curs g (futs H l) = curs g l.
Proof. intros. unfold curs, futs. apply filter_filter_imp. intros x Hx. lia. Qed.
Lemma futs_futs : forall H g l, H <= g -> futs g (futs H l) = futs g l.
Proof. intros. unfold curs, futs. apply filter_filter_imp. intros x Hx. lia. Qed.
Lemma futs_msgs_sub : forall H g l, H <= g -> Forall (fun x => is_msg x = true) (futs H l) ->
  Forall (fun x => is_msg x = true) (futs g l).
Proof.
  intros H g l Hle F. rewrite <- (futs_futs H g l Hle). unfold futs at 1. apply Forall_forall. intros x Hx.
  apply filter_In in Hx. rewrite Forall_forall in F. apply F. apply Hx.
Qed.

Section Inv.
  Variable E : env.
  Hypothesis Hdet : value_deterministic E.
  Hypothesis Qpos : quorum_positive E.
  Variable h0 : N.
  Hypothesis Hh0 : 1 <= h0.
  (* what the life booted on: the log directory content and the effects of the earlier lives *)
  Variable D0 : list wrec.
  Variable E0 : list effect.
  Let cE := c0 E.
  Definition LL (effs : list effect) : list entry := rents D0 ++ apps effs.
  Lemma LL_app : forall a b, LL (a ++ b) = LL a ++ apps b.
  Proof. intros. unfold LL. rewrite apps_app, app_assoc. reflexivity. Qed.

  (* splitting a list of updates by height keeps the result *)
  Lemma upds_split : forall g F s, Forall (fun x => is_msg x = true) F -> Forall (fun x => g <= ht x) F ->
    obs_eq (upds cE s F) (upds cE (upds cE s (curs g F)) (futs g F)).
  Proof.
    intros g F s HM HG.
    eapply obs_eq_trans; [apply obs_eq_sym; apply (upds_sort E F s HM)|].
    rewrite (sort_split g F HG), upds_app. apply upds_sort.
    apply Forall_forall. intros x Hx. unfold futs in Hx. apply filter_In in Hx. rewrite Forall_forall in HM. apply HM. apply Hx.
  Qed.

  (* ---------- one logged call of the current height, seen from the log ---------- *)
  Lemma logged_next : forall s n i A e s' n' acts,
    obs_eq s (upds cE (fst (fst (core E (s_h s) A))) (futs (s_h s) A)) ->
    Forall (fun x => is_msg x = true) (futs (s_h s) A) ->
    ht e = s_h s -> input_of_entry e = i -> sm_step E s n i = (s', n', acts) ->
    obs_eq s' (upds cE (fst (fst (core E (s_h s) (A ++ [e])))) (futs (s_h s) (A ++ [e]))) /\
    (forall k, votes_of k (snd (core E (s_h s) (A ++ [e]))) = votes_of k (snd (core E (s_h s) A)) ++ votes_of k acts) /\
    futs (s_h s) (A ++ [e]) = futs (s_h s) A.
  Proof.
    intros s n i A e s' n' acts Ho HM He Hi Hst. unfold cE in *. set (Hs := s_h s) in *.
    assert (Fe : futs Hs (A ++ [e]) = futs Hs A).
    { rewrite futs_app. unfold futs at 2. simpl. destruct (Hs <? ht e) eqn:E1; [lia|]. apply app_nil_r. }
    assert (Ce : curs Hs (A ++ [e]) = curs Hs A ++ [e]).
    { rewrite curs_app. unfold curs at 2. simpl. destruct (ht e =? Hs) eqn:E1; [reflexivity|lia]. }
    destruct (core_facts E Hs A) as [Wx [Nx _]].
    unfold core in *. rewrite Ce, sm_replay_acts_app.
    destruct (sm_replay_acts E (init_state Hs) 0 (curs Hs A)) as [[x nx] ax]. cbn [fst snd] in *.
    assert (Shx : s_h x = Hs).
    { destruct Ho as [Hsc _]. rewrite upds_scal in Hsc. destruct (scal_h _ _ Hsc) as [X _]. symmetry. exact X. }
    cbn [sm_replay_acts]. fold ht. rewrite He, Shx, N.ltb_irrefl, Hi.
    assert (Low : input_low x i).
    { subst i. destruct e; simpl; auto; unfold ht in He; simpl in He; lia. }
    assert (HF : Forall (fun m => is_msg m = true /\ s_h x < ht m) (futs Hs A)).
    { apply Forall_forall. intros m Hm. rewrite Forall_forall in HM. split; [apply HM; exact Hm|].
      unfold futs in Hm. apply filter_In in Hm. lia. }
    destruct (sm_step_obs E Qpos s _ n i Ho) as [A1 [_ C1]]. rewrite Hst in A1, C1. cbn [fst snd] in A1, C1.
    destruct (sm_step_upds_comm E (futs Hs A) x n i Wx Nx HF Low) as [A2 C2].
    destruct (sm_step_det E Hdet x n nx i) as [D1 D2]. rewrite D1 in A2. rewrite D2 in C2.
    destruct (sm_step E x nx i) as [[x1 n1] a1]. cbn [fst snd] in *. rewrite Fe, app_nil_r.
    split; [eapply obs_eq_trans; [exact A1|exact A2]|]. split; [|reflexivity].
    intro k. rewrite votes_of_app. f_equal. rewrite <- (votes_of_vis k a1), <- C2, <- C1, votes_of_vis. reflexivity.
  Qed.

  (* the state right after a Commit, seen from the log at the new height *)
  Lemma commit_next : forall Hs A' s',
    obs_eq s' (upds cE (fst (fst (core E Hs A'))) (futs Hs A')) ->
    Forall (fun x => is_msg x = true) (futs Hs A') ->
    s_h s' = Hs + 1 -> scal s' = scal (init_state (s_h s')) ->
    obs_eq s' (upds cE (fst (fst (core E (Hs + 1) A'))) (futs (Hs + 1) A')).
  Proof.
    intros Hs A' s' Ho HM Eh Hsc. set (F := futs Hs A') in *. set (x' := fst (fst (core E Hs A'))) in *.
    destruct (core_facts E Hs A') as [Wx [Nx [Shape Em]]]. fold x' in Wx, Nx, Shape, Em.
    assert (Scx : scal x' = scal s').
    { destruct Ho as [X _]. rewrite upds_scal in X. symmetry. exact X. }
    assert (Xi : obs_eq x' (init_state (Hs + 1))).
    { split; [rewrite Scx, Hsc, Eh; reflexivity|].
      destruct (scal_h _ _ Scx) as [Shx _]. split.
      - cbn [init_state s_vc vc_new vc_h]. unfold WF in Wx. rewrite Wx, Shx. exact Eh.
      - intros h' r Hh'. unfold WF in Wx. rewrite Wx, Shx, Eh in Hh'. cbn [init_state s_vc]. rewrite vc_new_cell.
        apply Em. lia. }
    assert (HG : Forall (fun x => Hs + 1 <= ht x) F).
    { apply Forall_forall. intros m Hm. unfold F, futs in Hm. apply filter_In in Hm. lia. }
    assert (C1 : curs (Hs + 1) F = curs (Hs + 1) A') by (apply curs_futs; lia).
    assert (F2 : futs (Hs + 1) F = futs (Hs + 1) A') by (apply futs_futs; lia).
    assert (HP : Forall (pure_for (init_state (Hs + 1))) (curs (Hs + 1) A')).
    { rewrite <- C1. apply Forall_forall. intros m Hm. unfold curs in Hm. apply filter_In in Hm. destruct Hm as [Hin Hm].
      rewrite Forall_forall in HM. unfold pure_for. cbn [init_state s_h s_started]. split; [apply HM; exact Hin|]. split; [lia|right; reflexivity]. }
    destruct (replay_pure E (curs (Hs + 1) A') (init_state (Hs + 1)) 0 eq_refl HP) as [R1 _].
    eapply obs_eq_trans; [exact Ho|]. fold F x'.
    eapply obs_eq_trans; [apply (upds_obs cE F _ _ Xi)|].
    eapply obs_eq_trans; [apply (upds_split (Hs + 1) F _ HM HG)|].
    rewrite C1, F2. apply upds_obs. apply obs_eq_sym. exact R1.
  Qed.
  (* what is on disk at a kill point is a log a recovery can work with *)
  Definition DiskGood (pre : list effect) : Prop :=
    0 < resume_height h0 pre /\ prunes_below (resume_height h0 pre) (disk D0 pre) /\
    Forall (fun x => is_msg x = true) (futs (resume_height h0 pre) (rents (disk D0 pre))) /\
    core_disc E (resume_height h0 pre) (rents (disk D0 pre)) = true.
  Lemma DiskGood_ext : forall pre pre', disk D0 pre' = disk D0 pre ->
    resume_height h0 pre' = resume_height h0 pre -> DiskGood pre -> DiskGood pre'.
  Proof. intros pre pre' Hd Hr G. unfold DiskGood in *. rewrite Hd, Hr. exact G. Qed.

  Lemma ok_input_scal : forall a b i, scal a = scal b -> ok_input a i = ok_input b i.
  Proof. intros a b i H. destruct (scal_h _ _ H) as [_ [St _]]. destruct i; simpl; auto. Qed.

  (* ---------- the boundary invariant ---------- *)
  Record BI (d : dstate) (effs : list effect) : Prop := mkBI {
    b_wf : WF (d_sm d);
    b_nv : s_nval (d_sm d) = 0;
    b_cinv : CInv E h0 d effs;
    b_msgs : Forall (fun x => is_msg x = true) (futs (s_h (d_sm d)) (LL effs));
    b_live : obs_eq (d_sm d) (upds cE (fst (fst (core E (s_h (d_sm d)) (LL effs)))) (futs (s_h (d_sm d)) (LL effs)));
    b_cover : vote_cov (s_h (d_sm d)) (E0 ++ effs) (snd (core E (s_h (d_sm d)) (LL effs)));
    b_vh : forall k v, In v (votes_in k (E0 ++ effs)) -> v_h v <= s_h (d_sm d);
    b_wal : d_wal d = apply_effects (mkWal D0 []) effs;
    b_recs : rents (w_durable (d_wal d) ++ w_pending (d_wal d)) = LL effs;
    b_prunes : prunes_below (s_h (d_sm d)) (w_durable (d_wal d) ++ w_pending (d_wal d));
    b_noprune : no_prune (w_pending (d_wal d));
    b_crash : forall j, CrashCov E h0 D0 E0 (firstn j effs);
    b_disc : core_disc E (s_h (d_sm d)) (LL effs) = true;
    b_disk : forall j, DiskGood (firstn j effs)
  }.

  Lemma prefixes_any : forall (Good : list effect -> Prop) effs es,
    (forall j, Good (firstn j effs)) -> (forall j, Good (effs ++ firstn j es)) ->
    forall j, Good (firstn j (effs ++ es)).
  Proof.
    intros Good effs es H1 H2 j. destruct (Nat.le_gt_cases j (length effs)) as [L|G].
    - rewrite firstn_app_le by exact L. apply H1.
    - rewrite firstn_app_ge by lia. apply H2.
  Qed.

  Lemma BI_height : forall d effs, BI d effs -> s_h (d_sm d) = resume_height h0 effs /\ 0 < s_h (d_sm d).
  Proof.
    intros d effs B. destruct (b_cinv _ _ B) as [_ [C H]].
    rewrite (resume_height_count effs h0 C). split; [exact H|lia].
  Qed.

  Lemma BI_init : D0 = [] -> E0 = [] -> BI (boot h0 [] 0) [].
  Proof.
    intros HD HE.
    constructor; unfold LL; rewrite ?HD, ?HE;
      cbn [boot d_sm d_wal d_calls apps rents flat_map init_state s_h s_vc s_nval w_durable w_pending app].
    - reflexivity.
    - reflexivity.
    - split; [exists (mon_init h0); apply Rel_init|]. simpl. split; [reflexivity|lia].
    - constructor.
    - unfold core. simpl. apply obs_eq_refl.
    - intros k v Hin. destruct k; contradiction.
    - intros k v Hin. destruct k; contradiction.
    - reflexivity.
    - reflexivity.
    - constructor.
    - constructor.
    - intros j. rewrite firstn_nil. unfold CrashCov. rewrite ?HE. split; [intros n2 k v Hin|intros k v Hin]; simpl in Hin; destruct k; contradiction.
    - reflexivity.
    - intros j. rewrite firstn_nil. unfold DiskGood, disk. rewrite ?HD. cbn [resume_height commits_in flat_map fold_left apply_effects w_durable rents].
      split; [lia|]. split; [constructor|]. split; [constructor|reflexivity].
  Qed.

  Lemma BI_quiet : forall s w n effs i s' n',
    BI (mkD s w n) effs -> step_facts E s i s' [] -> obs_eq s s' -> CInv E h0 (mkD s' w n') effs ->
    BI (mkD s' w n') effs.
  Proof.
    intros s w n effs i s' n' B SF Ho CI. destruct B as [Bwf Bnv Bci Bms Bli Bco Bvh Bwal Brec Bpr Bnp Bcr Bdc Bdk].
    cbn [d_sm d_wal] in *.
    assert (Eh : s_h s' = s_h s) by (rewrite (sf_h _ _ _ _ _ SF); simpl; lia).
    constructor; cbn [d_sm d_wal]; rewrite ?Eh; auto.
    - apply (sf_wf _ _ _ _ _ SF).
    - apply (sf_nval _ _ _ _ _ SF).
    - eapply obs_eq_trans; [apply obs_eq_sym; exact Ho|exact Bli].
  Qed.

  (* a logged message for a future height: one more update, nothing else *)
  Lemma BI_future : forall s w n effs i s' n' e,
    BI (mkD s w n) effs -> sm_step E s n i = (s', n', [wal_of e]) ->
    step_facts E s i s' [wal_of e] -> input_of_entry e = i -> is_msg e = true -> s_h s < ht e ->
    CInv E h0 (mkD s' (fst (fst (exec false w [wal_of e]))) n') (effs ++ snd (fst (exec false w [wal_of e]))) ->
    BI (mkD s' (fst (fst (exec false w [wal_of e]))) n') (effs ++ snd (fst (exec false w [wal_of e]))).
  Proof.
    intros s w n effs i s' n' e B Hst SF Hi Me Hlt CI.
    destruct (BI_height _ _ B) as [Hres Hpos]. cbn [d_sm] in Hres, Hpos.
    destruct B as [Bwf Bnv Bci Bms Bli Bco Bvh Bwal Brec Bpr Bnp Bcr Bdc Bdk]. cbn [d_sm d_wal] in *.
    assert (PBd : prunes_below (s_h s) (w_durable w)).
    { unfold prunes_below in *. apply Forall_app in Bpr. apply Bpr. }
    assert (Wa : wal_append e w = mkWal (w_durable w) (w_pending w ++ [REntry e])).
    { unfold wal_append. pose proof (pruned_below (s_h s) (w_durable w) Hpos PBd).
      fold ht. destruct (ht e <=? pruned_upto (w_durable w)) eqn:El; [lia|reflexivity]. }
    rewrite exec_logged in *. cbn [exec fst snd] in *. rewrite Wa in *.
    assert (Eh : s_h s' = s_h s).
    { pose proof (sf_h _ _ _ _ _ SF) as Z. assert (X : commit_hs [wal_of e] = []) by (destruct e; reflexivity).
      rewrite X in Z. simpl in Z. lia. }
    destruct (sm_step_pure E s n e Me Bnv (or_introl Hlt)) as [Pu _]. rewrite Hi, Hst in Pu. cbn [fst] in Pu.
    assert (Ap : LL (effs ++ [Append e]) = LL effs ++ [e]) by (rewrite LL_app; reflexivity).
    assert (Ce : curs (s_h s) (LL effs ++ [e]) = curs (s_h s) (LL effs)).
    { rewrite curs_app. unfold curs at 2. simpl. destruct (ht e =? s_h s) eqn:E1; [lia|]. apply app_nil_r. }
    assert (Fe : futs (s_h s) (LL effs ++ [e]) = futs (s_h s) (LL effs) ++ [e]).
    { rewrite futs_app. unfold futs at 2. simpl. destruct (s_h s <? ht e) eqn:E1; [reflexivity|lia]. }
    assert (Vs : forall k l, votes_in k (l ++ [Append e]) = votes_in k l).
    { intros k l. rewrite votes_in_app. destruct k; simpl; apply app_nil_r. }
    constructor; cbn [d_sm d_wal]; rewrite ?Eh, ?Ap.
    - apply (sf_wf _ _ _ _ _ SF).
    - apply (sf_nval _ _ _ _ _ SF).
    - exact CI.
    - rewrite Fe. apply Forall_app. split; [exact Bms|]. constructor; [exact Me|constructor].
    - unfold core in *. rewrite Ce, Fe, upds_app. cbn [upds fold_left].
      eapply obs_eq_trans; [exact Pu|]. apply upd_obs. exact Bli.
    - unfold core in *. rewrite Ce. intros k v Hin Hh. rewrite app_assoc, Vs in Hin. apply (Bco k v Hin Hh).
    - intros k v Hin. rewrite app_assoc, Vs in Hin. apply (Bvh k v Hin).
    - rewrite apply_effects_app, <- Bwal. cbn [apply_effects fold_left apply_effect]. symmetry. exact Wa.
    - cbn [w_durable w_pending]. rewrite app_assoc, rents_app, Brec. reflexivity.
    - cbn [w_durable w_pending]. rewrite app_assoc. unfold prunes_below. apply Forall_app. split; [exact Bpr|].
      constructor; [exact I|constructor].
    - cbn [w_pending]. unfold no_prune. apply Forall_app. split; [exact Bnp|]. constructor; [exact I|constructor].
    - apply (crash_prefixes E h0 Hh0 D0 E0); [exact Bcr|].
      intros [|j]; cbn [firstn]; [rewrite app_nil_r; specialize (Bcr (length effs)); rewrite firstn_all in Bcr; exact Bcr|].
      rewrite firstn_nil. apply (CrashCov_ext E h0 D0 E0 effs).
      + rewrite (disk_snoc D0), <- Bwal. cbn [apply_effect]. rewrite Wa. unfold disk. rewrite <- Bwal. reflexivity.
      + rewrite resume_height_app. reflexivity.
      + intros k v X. rewrite Vs in X. exact X.
      + specialize (Bcr (length effs)). rewrite firstn_all in Bcr. exact Bcr.
    - unfold core_disc in *. rewrite Ce. exact Bdc.
    - apply prefixes_any; [exact Bdk|].
      intros [|j]; cbn [firstn]; [rewrite app_nil_r; specialize (Bdk (length effs)); rewrite firstn_all in Bdk; exact Bdk|].
      rewrite firstn_nil. apply (DiskGood_ext effs).
      + rewrite (disk_snoc D0), <- Bwal. cbn [apply_effect]. rewrite Wa. unfold disk. rewrite <- Bwal. reflexivity.
      + rewrite resume_height_app. reflexivity.
      + specialize (Bdk (length effs)). rewrite firstn_all in Bdk. exact Bdk.
  Qed.
  (* the facts about a logged call of the current height that the invariants use *)
  Lemma logged_ctx : forall s w n effs i s' n' e rest,
    BI (mkD s w n) effs ->
    sm_step E s n i = (s', n', wal_of e :: rest) ->
    step_facts E s i s' (wal_of e :: rest) ->
    input_of_entry e = i -> ht e = s_h s -> ok_input s i = true ->
    let Hs := s_h s in let A' := LL effs ++ [e] in
    let D1 := (w_durable w ++ w_pending w) ++ [REntry e] in
    0 < Hs /\
    wal_append e w = mkWal (w_durable w) (w_pending w ++ [REntry e]) /\
    prunes_below Hs D1 /\ rents D1 = A' /\
    Forall (fun x => is_msg x = true) (futs Hs A') /\
    obs_eq s' (upds cE (fst (fst (core E Hs A'))) (futs Hs A')) /\
    (forall k v, (In v (votes_in k (E0 ++ effs)) /\ Hs <= v_h v) \/ In v (votes_of k rest) ->
                 In v (votes_of k (snd (core E Hs A')))) /\
    (has_commit (wal_of e :: rest) = true ->
       s_h s' = Hs + 1 /\ obs_eq s' (upds cE (fst (fst (core E (Hs + 1) A'))) (futs (Hs + 1) A'))) /\
    resume_height h0 effs = Hs /\ disk D0 effs = w_durable w /\
    core_disc E Hs A' = true /\ core_disc E (Hs + 1) A' = true.
  Proof.
    intros s w n effs i s' n' e rest B Hst SF Hi He Hok Hs A' D1.
    destruct (BI_height _ _ B) as [Hres Hpos]. cbn [d_sm] in Hres, Hpos.
    destruct B as [Bwf Bnv Bci Bms Bli Bco Bvh Bwal Brec Bpr Bnp Bcr Bdc Bdk]. cbn [d_sm d_wal] in *.
    assert (PBd : prunes_below (s_h s) (w_durable w)).
    { unfold prunes_below in *. apply Forall_app in Bpr. apply Bpr. }
    destruct (logged_next s n i (LL effs) e s' n' _ Bli Bms He Hi Hst) as [LN1 [LN2 LN3]].
    fold Hs A' in LN1, LN2, LN3.
    assert (Ms : Forall (fun x => is_msg x = true) (futs Hs A')) by (rewrite LN3; exact Bms).
    split; [exact Hpos|]. split.
    { unfold wal_append. pose proof (pruned_below (s_h s) (w_durable w) Hpos PBd).
      fold ht. destruct (ht e <=? pruned_upto (w_durable w)) eqn:El; [lia|reflexivity]. }
    split. { unfold prunes_below, D1. apply Forall_app. split; [exact Bpr|]. constructor; [exact I|constructor]. }
    split. { unfold D1. rewrite rents_app, Brec. reflexivity. }
    split; [exact Ms|]. split; [exact LN1|]. split.
    { intros k v X. rewrite LN2. apply in_or_app. destruct X as [[X1 X2]|X]; [left; apply Bco; assumption|right].
      rewrite votes_wal_of. exact X. }
    split.
    { intro Hc.
      assert (Eh : s_h s' = Hs + 1).
      { pose proof (sf_h _ _ _ _ _ SF) as Z. unfold has_commit in Hc. apply existsb_exists in Hc.
        destruct Hc as [a [Hin Ha]]. destruct a; try discriminate.
        rewrite (col_commit_hs _ p (sf_col _ _ _ _ _ SF) Hin) in Z. simpl in Z. unfold Hs. lia. }
      split; [exact Eh|]. apply (commit_next Hs A' s' LN1 Ms Eh). apply (sf_reset _ _ _ _ _ SF Hc). }
    split; [symmetry; exact Hres|]. split; [unfold disk; rewrite <- Bwal; reflexivity|]. split.
    { (* the discipline of the extended core *)
      unfold core_disc in *. unfold A'. unfold Hs in *.
      assert (Ce : curs (s_h s) (LL effs ++ [e]) = curs (s_h s) (LL effs) ++ [e]).
      { rewrite curs_app. unfold curs at 2. simpl. destruct (ht e =? s_h s) eqn:E1; [reflexivity|lia]. }
      rewrite Ce, sm_disc_app, Bdc. cbn [andb].
      assert (Scx : scal (fst (fst (sm_replay_acts E (init_state (s_h s)) 0 (curs (s_h s) (LL effs))))) = scal s).
      { destruct Bli as [X _]. unfold core in X. rewrite upds_scal in X. symmetry. exact X. }
      destruct (sm_replay_acts E (init_state (s_h s)) 0 (curs (s_h s) (LL effs))) as [[x nx] ax]. cbn [fst snd] in *.
      destruct (scal_h _ _ Scx) as [Shx _]. cbn [sm_disc]. fold ht. rewrite He, Shx, N.ltb_irrefl.
      rewrite Hi, (ok_input_scal x s i Scx), Hok. cbn [andb].
      destruct (sm_step E x nx i) as [[x1 n1] a1]. reflexivity. }
    unfold core_disc. apply sm_disc_msgs. rewrite <- (curs_futs Hs (Hs + 1) A') by lia.
    apply Forall_forall. intros x Hx. unfold curs in Hx. apply filter_In in Hx. rewrite Forall_forall in Ms. apply Ms. apply Hx.
  Qed.

  Lemma BI_logged : forall s w n effs i s' n' e rest,
    BI (mkD s w n) effs ->
    sm_step E s n i = (s', n', wal_of e :: rest) ->
    step_facts E s i s' (wal_of e :: rest) -> all_vis rest ->
    input_of_entry e = i -> ht e = s_h s -> ok_input s i = true ->
    CInv E h0 (mkD s' (fst (fst (exec false w (wal_of e :: rest)))) n')
         (effs ++ snd (fst (exec false w (wal_of e :: rest)))) ->
    BI (mkD s' (fst (fst (exec false w (wal_of e :: rest)))) n')
       (effs ++ snd (fst (exec false w (wal_of e :: rest)))).
  Proof.
    intros s w n effs i s' n' e rest B Hst SF AV Hi He Hok CI.
    destruct (logged_ctx s w n effs i s' n' e rest B Hst SF Hi He Hok)
      as [Hpos [Wa [PB1 [Rn [Ms [Live [Cov [Fresh [Hres [Hdisk [Dc1 Dc2]]]]]]]]]]].
    destruct B as [Bwf Bnv Bci Bms Bli Bco Bvh Bwal Brec Bpr Bnp Bcr Bdc Bdk]. cbn [d_sm d_wal] in *.
    set (Hs := s_h s) in *. set (dur := w_durable w) in *. set (pend := w_pending w) in *.
    set (D1 := (dur ++ pend) ++ [REntry e]) in *. set (A' := LL effs ++ [e]) in *.
    assert (Col : col (wal_of e :: rest) = true) by apply (sf_col _ _ _ _ _ SF).
    assert (Crest : col rest = true) by (eapply col_tail; exact Col).
    rewrite exec_logged, Wa in *. cbn [fst snd] in *.
    assert (VH : forall k v, In v (votes_in k (E0 ++ effs)) \/ In v (votes_of k rest) -> v_h v <= Hs).
    { intros k v [X|X]; [apply (Bvh k v X)|].
      rewrite <- (votes_wal_of k e rest) in X. rewrite (sf_votes _ _ _ _ _ SF k v X). unfold Hs. lia. }
    assert (Cov1 : forall n2 k v, (In v (votes_in k (E0 ++ effs)) /\ Hs <= v_h v) \/ In v (votes_of k rest) ->
              In v (votes_in k (flat (snd (recover E Hs D1 n2))))).
    { intros n2 k v X. destruct (recover_link E Hdet Hs D1 n2 Hpos PB1) as [_ RL]; [rewrite Rn; exact Ms|].
      rewrite RL, Rn. apply Cov. exact X. }
    assert (CH : forall p, In (ACommit p) rest -> p_h p = Hs).
    { intros p X. apply (sf_commit _ _ _ _ _ SF p). right. exact X. }
    assert (M0 : Mid E h0 D0 E0 effs Hs D1 rest (mkWal dur (pend ++ [REntry e])) (effs ++ [Append e])).
    { constructor.
      - apply (CrashCov_ext E h0 D0 E0 effs).
        + rewrite (disk_snoc D0), <- Bwal. cbn [apply_effect]. rewrite Wa. exact (eq_sym Hdisk).
        + rewrite resume_height_app. reflexivity.
        + intros k v X. rewrite votes_in_app in X. destruct k; simpl in X; rewrite app_nil_r in X; exact X.
        + specialize (Bcr (length effs)). rewrite firstn_all in Bcr. exact Bcr.
      - rewrite apply_effects_app, <- Bwal. cbn [apply_effects fold_left apply_effect]. symmetry. exact Wa.
      - rewrite resume_height_app. exact Hres.
      - intros k v X. left. rewrite app_assoc, votes_in_app in X. destruct k; simpl in X; rewrite app_nil_r in X; exact X.
      - cbn [w_durable w_pending]. unfold D1. rewrite app_assoc. reflexivity.
      - cbn [w_pending]. unfold no_prune in *. apply Forall_app. split; [exact Bnp|]. constructor; [exact I|constructor]. }
    destruct (exec_mid E h0 Hh0 D0 E0 effs Hs D1 rest Hpos VH Cov1 CH PB1 rest _ _ AV Crest (fun a H => H) M0) as [X1 [X2 [X3 X4]]].
    assert (XD : forall j, DiskGood ((effs ++ [Append e]) ++ firstn j (snd (fst (exec false (mkWal dur (pend ++ [REntry e])) rest))))).
    { assert (Gfl : forall pre, disk D0 pre = D1 -> resume_height h0 pre = Hs -> DiskGood pre).
      { intros pre Hd Hr. unfold DiskGood. rewrite Hd, Hr, Rn. auto. }
      assert (Gco : forall pre, (exists p, In (ACommit p) rest) ->
                (disk D0 pre = D1 \/ disk D0 pre = D1 ++ [RPrune Hs]) -> resume_height h0 pre = Hs + 1 -> DiskGood pre).
      { intros pre _ Hd Hr. unfold DiskGood. rewrite Hr.
        assert (X : rents (disk D0 pre) = A' /\ prunes_below (Hs + 1) (disk D0 pre)).
        { destruct Hd as [-> | ->].
          - split; [exact Rn|apply (prunes_below_mono h0 Hh0 Hs); [lia|exact PB1]].
          - split; [rewrite rents_app, Rn; simpl; apply app_nil_r|].
            unfold prunes_below. apply Forall_app. split.
            + apply (prunes_below_mono h0 Hh0 Hs); [lia|exact PB1].
            + constructor; [lia|constructor]. }
        destruct X as [X1' X2']. rewrite X1'. split; [lia|]. split; [exact X2'|]. split; [|exact Dc2].
        apply (futs_msgs_sub Hs (Hs + 1) A'); [lia|exact Ms]. }
      apply (exec_mid_gen h0 D0 Hs D1 rest DiskGood Hpos DiskGood_ext Gfl Gco CH PB1 rest _ _ AV Crest (fun a H => H)).
      constructor.
      - apply (DiskGood_ext effs).
        + rewrite (disk_snoc D0), <- Bwal. cbn [apply_effect]. rewrite Wa. exact (eq_sym Hdisk).
        + rewrite resume_height_app. reflexivity.
        + specialize (Bdk (length effs)). rewrite firstn_all in Bdk. exact Bdk.
      - rewrite apply_effects_app, <- Bwal. cbn [apply_effects fold_left apply_effect]. symmetry. exact Wa.
      - rewrite resume_height_app. exact Hres.
      - cbn [w_durable w_pending]. unfold D1. rewrite app_assoc. reflexivity.
      - cbn [w_pending]. unfold no_prune in *. apply Forall_app. split; [exact Bnp|]. constructor; [exact I|constructor]. }
    pose proof (exec_vis_apps h0 Hh0 rest (mkWal dur (pend ++ [REntry e])) AV) as NoApp.
    pose proof (exec_wal false rest (mkWal dur (pend ++ [REntry e]))) as Wf.
    destruct (exec false (mkWal dur (pend ++ [REntry e])) rest) as [[wf more] com]. cbn [fst snd] in *.
    assert (EA : effs ++ Append e :: more = (effs ++ [Append e]) ++ more) by (rewrite <- app_assoc; reflexivity).
    assert (Ap : LL (effs ++ Append e :: more) = A').
    { rewrite EA, !LL_app, NoApp, app_nil_r. reflexivity. }
    assert (Vin : forall k v, In v (votes_in k (E0 ++ effs ++ Append e :: more)) ->
                   In v (votes_in k (E0 ++ effs)) \/ In v (votes_of k rest)).
    { intros k v X. rewrite EA in X. apply (X2 k v X). }
    assert (Hnew : s_h s' = resume_height h0 (effs ++ Append e :: more)).
    { destruct CI as [_ [C H]]. cbn [d_sm] in H. rewrite (resume_height_count _ h0 C). exact H. }
    assert (Crash' : forall j, CrashCov E h0 D0 E0 (firstn j (effs ++ Append e :: more))).
    { apply (crash_prefixes E h0 Hh0 D0 E0); [exact Bcr|]. intros [|j]; [rewrite app_nil_r; specialize (Bcr (length effs)); rewrite firstn_all in Bcr; exact Bcr|].
      cbn [firstn]. change (effs ++ Append e :: firstn j more) with (effs ++ [Append e] ++ firstn j more).
      rewrite app_assoc. apply X1. }
    assert (Disk' : forall j, DiskGood (firstn j (effs ++ Append e :: more))).
    { apply prefixes_any; [exact Bdk|]. intros [|j]; [rewrite app_nil_r; specialize (Bdk (length effs)); rewrite firstn_all in Bdk; exact Bdk|].
      cbn [firstn]. change (effs ++ Append e :: firstn j more) with (effs ++ [Append e] ++ firstn j more).
      rewrite app_assoc. apply XD. }
    assert (Wal' : wf = apply_effects (mkWal D0 []) (effs ++ Append e :: more)).
    { rewrite Wf, EA, apply_effects_app. f_equal. apply (m_wal _ _ _ _ _ _ _ _ _ _ M0). }
    destruct com.
    - destruct (X4 eq_refl) as [Y1 Y2]. rewrite <- EA in Y2.
      assert (Eh : s_h s' = Hs + 1) by (rewrite Hnew; exact Y2).
      assert (Hc : has_commit (wal_of e :: rest) = true).
      { destruct (has_commit (wal_of e :: rest)) eqn:Hc; [reflexivity|]. apply has_commit_hs in Hc.
        pose proof (sf_h _ _ _ _ _ SF) as Z. rewrite Hc in Z. simpl in Z. fold Hs in Z. lia. }
      destruct (Fresh Hc) as [_ Fr].
      constructor; cbn [d_sm d_wal]; rewrite ?Eh, ?Ap.
      + apply (sf_wf _ _ _ _ _ SF).
      + apply (sf_nval _ _ _ _ _ SF).
      + exact CI.
      + apply (futs_msgs_sub Hs (Hs + 1) A'); [lia|exact Ms].
      + exact Fr.
      + intros k v X Hh. pose proof (VH k v (Vin k v X)). lia.
      + intros k v X. pose proof (VH k v (Vin k v X)). lia.
      + exact Wal'.
      + rewrite Y1. cbn [w_durable w_pending]. rewrite app_nil_r, rents_app, Rn. simpl. apply app_nil_r.
      + rewrite Y1. cbn [w_durable w_pending]. rewrite app_nil_r. unfold prunes_below. apply Forall_app. split.
        * apply (prunes_below_mono h0 Hh0 Hs); [lia|exact PB1].
        * constructor; [lia|constructor].
      + rewrite Y1. constructor.
      + exact Crash'.
      + exact Dc2.
      + exact Disk'.
    - destruct (X3 eq_refl) as [Y1 [Y2 Y3]]. rewrite <- EA in Y3.
      assert (Eh : s_h s' = Hs) by (rewrite Hnew; exact Y3).
      constructor; cbn [d_sm d_wal]; rewrite ?Eh, ?Ap.
      + apply (sf_wf _ _ _ _ _ SF).
      + apply (sf_nval _ _ _ _ _ SF).
      + exact CI.
      + exact Ms.
      + exact Live.
      + intros k v X Hh. apply Cov. destruct (Vin k v X) as [Z|Z]; [left; split; assumption|right; exact Z].
      + intros k v X. apply (VH k v (Vin k v X)).
      + exact Wal'.
      + rewrite Y1. exact Rn.
      + rewrite Y1. exact PB1.
      + exact Y2.
      + exact Crash'.
      + exact Dc1.
      + exact Disk'.
  Qed.

  Lemma BI_step : forall d i effs, BI d effs -> good_step E d i = true ->
    BI (fst (fst (dstep E false d i))) (effs ++ snd (fst (dstep E false d i))).
  Proof.
    intros [s w n] i effs B G.
    assert (Hok : ok_input s i = true).
    { unfold good_step, good_body in G. cbn [d_sm d_calls] in G. apply andb_prop in G. apply G. }
    pose proof (CInv_step E h0 false (mkD s w n) i effs (b_cinv _ _ B) Hok) as CI.
    destruct (b_cinv _ _ B) as [[m R] _]. cbn [d_sm] in R.
    pose proof (sm_step_facts E s w n i m R (b_wf _ _ B) (b_nv _ _ B) G) as SF.
    revert CI. rewrite dstep_spec. unfold sm_of. cbn [d_sm d_calls d_wal fst snd].
    destruct (sm_step E s n i) as [[s' n'] acts] eqn:Hst. cbn [fst snd] in *. intro CI.
    destruct (sf_shape _ _ _ _ _ SF) as [Ea Ho|e rest Ea AV Hi|e Ea Hi Me Hlt].
    - subst acts. cbn [exec fst snd] in *. rewrite app_nil_r in *. eapply BI_quiet; eassumption.
    - subst acts.
      assert (Hie : input_of_entry e = i /\ ht e = s_h s).
      { destruct i as [r|p|v|v|k h r]; try exact Hi.
        destruct (sf_start _ _ _ _ _ SF) as [Hc Hi0]. subst e. split; [symmetry; exact Hi0|].
        apply has_commit_hs in Hc. pose proof (sf_h _ _ _ _ _ SF) as Z. rewrite Hc in Z. simpl in Z.
        unfold ht. simpl. lia. }
      destruct Hie as [Hi1 Hi2]. eapply BI_logged; eassumption.
    - subst acts. eapply BI_future; eassumption.
  Qed.

  Lemma BI_run : D0 = [] -> E0 = [] -> forall ins, good_run E h0 ins = true ->
    BI (fst (lifetime E h0 [] 0 ins)) (flat (snd (lifetime E h0 [] 0 ins))).
  Proof.
    intros HD HE ins G. apply (run_PG E BI); [intros; apply BI_step; assumption|exact G|apply BI_init; assumption].
  Qed.
End Inv.
