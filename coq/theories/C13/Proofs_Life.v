(* C13 — lemmas, part 5: an induction principle over a whole life of the process (replay + starts + listen):
   a predicate on (driver state, effects so far) that every disciplined driver step preserves holds at the end. *)
From Coq Require Import List NArith ZArith Bool Lia.
From V Require Import C12.Model C13.Model C13.Proofs.
Import ListNotations.
Open Scope N_scope.

Section LifeInd.
  Variable E : env.
  Variable P : dstate -> list effect -> Prop.
  Hypothesis Pstep : forall r d i effs, P d effs -> ok_input (d_sm d) i = true ->
    P (fst (fst (dstep E r d i))) (effs ++ snd (fst (dstep E r d i))).

  Lemma starts_P : forall fuel d effs, P d effs ->
    P (fst (starts E fuel d)) (effs ++ flat (snd (starts E fuel d))).
  Proof.
    induction fuel as [|n IH]; intros d effs H; cbn [starts].
    - cbn [fst snd flat flat_map]. rewrite app_nil_r. exact H.
    - pose proof (Pstep false d (IStart 0) effs H eq_refl) as H1.
      destruct (dstep E false d (IStart 0)) as [[d1 eff] com]. cbn [fst snd] in *. destruct com.
      + specialize (IH d1 _ H1). destruct (starts E n d1) as [d2 tr]. cbn [fst snd] in *.
        rewrite flat_cons, app_assoc. exact IH.
      + cbn [fst snd]. rewrite flat_cons. cbn [flat flat_map]. rewrite app_nil_r. exact H1.
  Qed.

  Lemma listen_P : forall ins d effs, P d effs -> listen_disc E d ins = true ->
    P (fst (listen E d ins)) (effs ++ flat (snd (listen E d ins))).
  Proof.
    induction ins as [|i rest IH]; intros d effs H D; cbn [listen listen_disc] in *.
    - cbn [fst snd flat flat_map]. rewrite app_nil_r. exact H.
    - apply andb_prop in D. destruct D as [Hok D].
      pose proof (Pstep false d i effs H Hok) as H1.
      destruct (dstep E false d i) as [[d1 eff] com]. cbn [fst snd] in *.
      assert (S : P (fst (if com then starts E SFUEL d1 else (d1, [])))
                    ((effs ++ eff) ++ flat (snd (if com then starts E SFUEL d1 else (d1, []))))).
      { destruct com; [apply starts_P; exact H1|]. cbn [fst snd flat flat_map]. rewrite app_nil_r. exact H1. }
      assert (D2 : listen_disc E (fst (if com then starts E SFUEL d1 else (d1, []))) rest = true)
        by (destruct com; exact D).
      destruct (if com then starts E SFUEL d1 else (d1, [])) as [d2 tr2]. cbn [fst snd] in *.
      specialize (IH d2 _ S D2). destruct (listen E d2 rest) as [d3 tr3]. cbn [fst snd] in *.
      rewrite flat_cons, flat_app, !app_assoc. exact IH.
  Qed.

  Lemma replay_P : forall es d effs, P d effs -> replay_disc E d es = true ->
    P (fst (replay E d es)) (effs ++ flat (snd (replay E d es))).
  Proof.
    induction es as [|e rest IH]; intros d effs H D; cbn [replay replay_disc] in *.
    - cbn [fst snd flat flat_map]. rewrite app_nil_r. exact H.
    - destruct (entry_height e <? s_h (d_sm d)); [apply IH; assumption|].
      apply andb_prop in D. destruct D as [Hok D].
      pose proof (Pstep true d (input_of_entry e) effs H Hok) as H1.
      destruct (dstep E true d (input_of_entry e)) as [[d1 eff] com]. cbn [fst snd] in *.
      specialize (IH d1 _ H1 D). destruct (replay E d1 rest) as [d2 tr]. cbn [fst snd] in *.
      rewrite flat_cons, app_assoc. exact IH.
  Qed.

  Lemma life_P : forall h D n ins, life_disc E h D n ins = true -> P (boot h D n) [] ->
    P (fst (lifetime E h D n ins)) (flat (snd (lifetime E h D n ins))).
  Proof.
    intros h D n ins Hd H0. unfold life_disc in Hd. apply andb_prop in Hd. destruct Hd as [D1 D2].
    unfold lifetime. unfold recover in *.
    pose proof (replay_P (load D) (boot h D n) [] H0 D1) as H1.
    destruct (replay E (boot h D n) (load D)) as [d1 tr1]. cbn [fst snd] in *.
    unfold run_live. pose proof (starts_P SFUEL d1 _ H1) as H2.
    destruct (starts E SFUEL d1) as [d2 tr2]. cbn [fst snd] in *.
    pose proof (listen_P ins d2 _ H2 D2) as H3.
    destruct (listen E d2 ins) as [d3 tr3]. cbn [fst snd] in *.
    rewrite !flat_app, app_assoc. exact H3.
  Qed.
End LifeInd.

(* the same for the live phase of a plain run (good_step as the per-step guard) *)
Section LiveIndG.
  Variable E : env.
  Variable P : dstate -> list effect -> Prop.
  Hypothesis Pstep : forall d i effs, P d effs -> good_step E d i = true ->
    P (fst (fst (dstep E false d i))) (effs ++ snd (fst (dstep E false d i))).

  Lemma starts_PG : forall fuel d effs, P d effs -> starts_good E fuel d = true ->
    P (fst (starts E fuel d)) (effs ++ flat (snd (starts E fuel d))).
  Proof.
    induction fuel as [|n IH]; intros d effs H G; cbn [starts starts_good] in *.
    - cbn [fst snd flat flat_map]. rewrite app_nil_r. exact H.
    - apply andb_prop in G. destruct G as [G1 G2].
      pose proof (Pstep d (IStart 0) effs H G1) as H1.
      destruct (dstep E false d (IStart 0)) as [[d1 eff] com]. cbn [fst snd] in *. destruct com.
      + specialize (IH d1 _ H1 G2). destruct (starts E n d1) as [d2 tr]. cbn [fst snd] in *.
        rewrite flat_cons, app_assoc. exact IH.
      + cbn [fst snd]. rewrite flat_cons. cbn [flat flat_map]. rewrite app_nil_r. exact H1.
  Qed.

  Lemma listen_PG : forall ins d effs, P d effs -> listen_good E d ins = true ->
    P (fst (listen E d ins)) (effs ++ flat (snd (listen E d ins))).
  Proof.
    induction ins as [|i rest IH]; intros d effs H G; cbn [listen listen_good] in *.
    - cbn [fst snd flat flat_map]. rewrite app_nil_r. exact H.
    - apply andb_prop in G. destruct G as [G1 G].
      pose proof (Pstep d i effs H G1) as H1.
      destruct (dstep E false d i) as [[d1 eff] com]. cbn [fst snd] in *.
      apply andb_prop in G. destruct G as [G2 G3].
      assert (S : P (fst (if com then starts E SFUEL d1 else (d1, [])))
                    ((effs ++ eff) ++ flat (snd (if com then starts E SFUEL d1 else (d1, []))))).
      { destruct com; [apply starts_PG; assumption|]. cbn [fst snd flat flat_map]. rewrite app_nil_r. exact H1. }
      assert (D2 : listen_good E (fst (if com then starts E SFUEL d1 else (d1, []))) rest = true)
        by (destruct com; exact G3).
      destruct (if com then starts E SFUEL d1 else (d1, [])) as [d2 tr2]. cbn [fst snd] in *.
      specialize (IH d2 _ S D2). destruct (listen E d2 rest) as [d3 tr3]. cbn [fst snd] in *.
      rewrite flat_cons, flat_app, !app_assoc. exact IH.
  Qed.

  Lemma run_PG : forall h0 ins, good_run E h0 ins = true -> P (boot h0 [] 0) [] ->
    P (fst (lifetime E h0 [] 0 ins)) (flat (snd (lifetime E h0 [] 0 ins))).
  Proof.
    intros h0 ins G H0. unfold good_run in G. apply andb_prop in G. destruct G as [G G3].
    apply andb_prop in G. destruct G as [_ G2].
    unfold lifetime, recover. cbn [load live_entries index_of fold_left sort_h snd replay].
    unfold run_live. pose proof (starts_PG SFUEL _ [] H0 G2) as H2.
    destruct (starts E SFUEL (boot h0 [] 0)) as [d2 tr2]. cbn [fst snd] in *.
    pose proof (listen_PG ins d2 _ H2 G3) as H3.
    destruct (listen E d2 ins) as [d3 tr3]. cbn [fst snd app] in *.
    rewrite flat_app. exact H3.
  Qed.
End LiveIndG.

(* the same, also accumulating the boundary states *)
Section LiveIndS.
  Variable E : env.
  Variable P : dstate -> list effect -> list bstate -> Prop.
  Hypothesis Pstep : forall d i effs sts rest, P d effs sts -> good_step E d i = true ->
    P (fst (fst (dstep E false d i))) (effs ++ snd (fst (dstep E false d i)))
      (sts ++ [(d_sm (fst (fst (dstep E false d i))), rest)]).

  Lemma starts_PS : forall fuel d effs sts rest, P d effs sts -> starts_good E fuel d = true ->
    P (fst (starts E fuel d)) (effs ++ flat (snd (starts E fuel d))) (sts ++ starts_states E fuel d rest).
  Proof.
    induction fuel as [|n IH]; intros d effs sts rest H G; cbn [starts starts_good starts_states] in *.
    - cbn [fst snd flat flat_map]. rewrite !app_nil_r. exact H.
    - apply andb_prop in G. destruct G as [G1 G2].
      pose proof (Pstep d (IStart 0) effs sts rest H G1) as H1.
      destruct (dstep E false d (IStart 0)) as [[d1 eff] com]. cbn [fst snd] in *. destruct com.
      + specialize (IH d1 _ _ rest H1 G2). destruct (starts E n d1) as [d2 tr]. cbn [fst snd] in *.
        rewrite flat_cons, app_assoc.
        change ((d_sm d1, rest) :: starts_states E n d1 rest) with ([(d_sm d1, rest)] ++ starts_states E n d1 rest).
        rewrite app_assoc. exact IH.
      + cbn [fst snd]. rewrite flat_cons. cbn [flat flat_map]. rewrite app_nil_r. exact H1.
  Qed.

  Lemma listen_PS : forall ins d effs sts, P d effs sts -> listen_good E d ins = true ->
    P (fst (listen E d ins)) (effs ++ flat (snd (listen E d ins))) (sts ++ listen_states E d ins).
  Proof.
    induction ins as [|i rest IH]; intros d effs sts H G; cbn [listen listen_good listen_states] in *.
    - cbn [fst snd flat flat_map]. rewrite !app_nil_r. exact H.
    - apply andb_prop in G. destruct G as [G1 G].
      pose proof (Pstep d i effs sts rest H G1) as H1.
      destruct (dstep E false d i) as [[d1 eff] com]. cbn [fst snd] in *.
      apply andb_prop in G. destruct G as [G2 G3].
      assert (S : P (fst (if com then starts E SFUEL d1 else (d1, [])))
                    ((effs ++ eff) ++ flat (snd (if com then starts E SFUEL d1 else (d1, []))))
                    ((sts ++ [(d_sm d1, rest)]) ++ (if com then starts_states E SFUEL d1 rest else []))).
      { destruct com; [apply starts_PS; assumption|]. cbn [fst snd flat flat_map]. rewrite !app_nil_r. exact H1. }
      assert (D2 : listen_good E (fst (if com then starts E SFUEL d1 else (d1, []))) rest = true)
        by (destruct com; exact G3).
      assert (EqD : (if com then fst (starts E SFUEL d1) else d1) = fst (if com then starts E SFUEL d1 else (d1, [])))
        by (destruct com; reflexivity).
      rewrite EqD.
      destruct (if com then starts E SFUEL d1 else (d1, [])) as [d2 tr2]. cbn [fst snd] in *.
      specialize (IH d2 _ _ S D2). destruct (listen E d2 rest) as [d3 tr3]. cbn [fst snd] in *.
      rewrite flat_cons, flat_app, !app_assoc.
      change ((d_sm d1, rest) :: (if com then starts_states E SFUEL d1 rest else []) ++ listen_states E d2 rest)
        with ([(d_sm d1, rest)] ++ (if com then starts_states E SFUEL d1 rest else []) ++ listen_states E d2 rest).
      rewrite !app_assoc. exact IH.
  Qed.

  Lemma run_PS : forall h0 ins, good_run E h0 ins = true -> P (boot h0 [] 0) [] [(init_state h0, ins)] ->
    P (fst (lifetime E h0 [] 0 ins)) (flat (snd (lifetime E h0 [] 0 ins))) (life_states E h0 ins).
  Proof.
    intros h0 ins G H0. unfold good_run in G. apply andb_prop in G. destruct G as [G G3].
    apply andb_prop in G. destruct G as [_ G2].
    unfold lifetime, recover, life_states. cbn [load live_entries index_of fold_left sort_h snd replay].
    unfold run_live. pose proof (starts_PS SFUEL _ [] _ ins H0 G2) as H2.
    destruct (starts E SFUEL (boot h0 [] 0)) as [d2 tr2]. cbn [fst snd] in *.
    pose proof (listen_PS ins d2 _ _ H2 G3) as H3.
    destruct (listen E d2 ins) as [d3 tr3]. cbn [fst snd app] in *.
    rewrite flat_app. exact H3.
  Qed.
End LiveIndS.
