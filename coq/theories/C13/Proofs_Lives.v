(* C13 — lemmas, part 20: any number of crashes.  A "coherent" world (resume height, log directory, effects of
   all earlier lives) stays coherent across a life that recovers from it, runs a plain live phase and is killed
   at ANY effect boundary (also during recovery); a life on a coherent world never contradicts an earlier one. *)
From Coq Require Import List NArith ZArith Bool Lia ZifyN ZifyBool.
From V Require Import C12.Model C12.Proofs C13.Model C13.Proofs C13.Proofs_Votes C13.Proofs_Commit
  C13.Proofs_Life C13.Proofs_Resume C13.Proofs_Replay C13.Proofs_Obs C13.Proofs_ObsStep C13.Proofs_Cells
  C13.Proofs_Shape C13.Proofs_Wal C13.Proofs_Crash C13.Proofs_MidGen C13.Proofs_Fut C13.Proofs_Upd
  C13.Proofs_Core C13.Proofs_Inv C13.Proofs_Final.
Import ListNotations.
Open Scope N_scope.

(* ---------- the effects of a recovery: broadcasts and timers; a commit = callback, prune, flush ---------- *)
Inductive RepEffs : list effect -> Prop :=
| re_nil : RepEffs []
| re_bcast : forall m l, RepEffs l -> RepEffs (Bcast m :: l)
| re_sched : forall k h r l, RepEffs l -> RepEffs (Sched k h r :: l)
| re_commit : forall h v l, RepEffs l -> RepEffs (CommitCb h v :: Prune h :: Flush :: l).

Lemma RepEffs_app : forall a b, RepEffs a -> RepEffs b -> RepEffs (a ++ b).
Proof. intros a b Ha Hb. induction Ha; simpl; try constructor; auto. Qed.

Lemma exec_true_rep : forall acts w, RepEffs (snd (fst (exec true w acts))).
Proof.
  induction acts as [|a rest IH]; intros w; [constructor|].
  simpl. destruct a; simpl; try (fin_exec true IH; try constructor; exact IH').
  repeat constructor.
Qed.

Lemma replay_rep : forall E es d, RepEffs (flat (snd (replay E d es))).
Proof.
  induction es as [|e rest IH]; intros d; cbn [replay]; [constructor|].
  destruct (entry_height e <? s_h (d_sm d)); [apply IH|].
  pose proof (dstep_spec E true d (input_of_entry e)) as S.
  pose proof (exec_true_rep (snd (sm_of E d (input_of_entry e))) (d_wal d)) as R.
  destruct (dstep E true d (input_of_entry e)) as [[d1 eff] com]. injection S as _ -> _.
  specialize (IH d1). destruct (replay E d1 rest) as [d2 tr]. cbn [fst snd] in *.
  rewrite flat_cons. apply RepEffs_app; assumption.
Qed.

(* what a (prefix of a) recovery can do to the log: nothing is appended, and a prune follows its callback *)
Fixpoint rp_ok (seen : list N) (l : list effect) : Prop :=
  match l with
  | [] => True
  | Append _ :: _ => False
  | CommitCb h _ :: r => rp_ok (h :: seen) r
  | Prune h :: r => In h seen /\ rp_ok seen r
  | _ :: r => rp_ok seen r
  end.

Lemma rp_ok_mono : forall l s1 s2, (forall x, In x s1 -> In x s2) -> rp_ok s1 l -> rp_ok s2 l.
Proof.
  induction l as [|e l IH]; intros s1 s2 Hs H; [exact I|]. destruct e; simpl in *; try (eapply IH; eassumption).
  - contradiction.
  - eapply IH; [|exact H]. intros x [->|Hx]; [left; reflexivity|right; auto].
  - destruct H as [H1 H2]. split; [auto|eapply IH; eassumption].
Qed.

Lemma RepEffs_rp_ok : forall l, RepEffs l -> forall seen, rp_ok seen l.
Proof.
  intros l H. induction H; intros seen; simpl; auto.
Qed.

Lemma rp_ok_firstn : forall l seen j, rp_ok seen l -> rp_ok seen (firstn j l).
Proof.
  induction l as [|e l IH]; intros seen j H; [rewrite firstn_nil; exact I|].
  destruct j as [|j]; [exact I|]. cbn [firstn]. destruct e; simpl in *; auto.
  destruct H as [H1 H2]. split; auto.
Qed.

Lemma bump_prune_spec : forall l h l', bump_prune l h = Some l' ->
  rents l' = rents l /\ forall g, In (RPrune g) l' -> In (RPrune g) l \/ g = h.
Proof.
  induction l as [|x l IH]; intros h l' H; simpl in H; [discriminate|]. destruct x as [e|h0].
  - destruct (bump_prune l h) as [r'|] eqn:E; [|discriminate]. inversion H. subst l'.
    destruct (IH h r' eq_refl) as [A B]. split; [unfold rents in *; simpl; rewrite A; reflexivity|].
    intros g [Hg|Hg]; [discriminate|]. destruct (B g Hg) as [X|X]; [left; right; exact X|right; exact X].
  - inversion H. subst l'. split; [reflexivity|]. intros g [Hg|Hg].
    + inversion Hg. destruct (N.max_spec h0 h) as [[_ M]|[_ M]]; rewrite M; [right; reflexivity|left; left; reflexivity].
    + left. right. exact Hg.
Qed.

(* the log after (a prefix of) a recovery's effects *)
Lemma rp_wal : forall l seen w, rp_ok seen l -> rents (w_pending w) = [] ->
  rents (w_durable (apply_effects w l)) = rents (w_durable w) /\
  rents (w_pending (apply_effects w l)) = [] /\
  forall g, In (RPrune g) (w_durable (apply_effects w l) ++ w_pending (apply_effects w l)) ->
            In (RPrune g) (w_durable w ++ w_pending w) \/ In g seen \/ In g (commits_in l).
Proof.
  induction l as [|e l IH]; intros seen w Hok Hp; cbn [apply_effects fold_left]; [auto|].
  fold (apply_effects (apply_effect w e) l). destruct e; simpl in Hok; cbn [apply_effect].
  - contradiction.
  - (* Flush *)
    assert (Hp' : rents (w_pending (wal_flush w)) = []) by reflexivity.
    destruct (IH seen (wal_flush w) Hok Hp') as [A [B C]]. split; [|split; [exact B|]].
    + rewrite A. unfold wal_flush. cbn [w_durable]. rewrite rents_app, Hp, app_nil_r. reflexivity.
    + intros g Hg. destruct (C g Hg) as [X|X]; [left|right; exact X].
      unfold wal_flush in X. cbn [w_durable w_pending] in X. rewrite app_nil_r in X. exact X.
  - destruct (IH seen w Hok Hp) as [A [B C]]. auto.
  - destruct (IH seen w Hok Hp) as [A [B C]]. auto.
  - (* CommitCb *)
    destruct (IH (h :: seen) w Hok Hp) as [A [B C]]. split; [exact A|]. split; [exact B|].
    intros g Hg. destruct (C g Hg) as [X|[[->|X]|X]]; auto.
    + right. right. left. reflexivity.
    + right. right. right. exact X.
  - (* Prune *)
    destruct Hok as [Hin Hok].
    assert (W : rents (w_durable (wal_prune h w)) = rents (w_durable w) /\ rents (w_pending (wal_prune h w)) = [] /\
                forall g, In (RPrune g) (w_durable (wal_prune h w) ++ w_pending (wal_prune h w)) ->
                          In (RPrune g) (w_durable w ++ w_pending w) \/ g = h).
    { unfold wal_prune. destruct (h <=? pruned_upto (w_durable w)); [auto|].
      destruct (bump_prune (w_pending w) h) as [l'|] eqn:Eb; cbn [w_durable w_pending].
      - destruct (bump_prune_spec _ _ _ Eb) as [R1 R2]. split; [reflexivity|]. split; [rewrite R1; exact Hp|].
        intros g Hg. apply in_app_or in Hg. destruct Hg as [Hg|Hg]; [left; apply in_or_app; left; exact Hg|].
        destruct (R2 g Hg) as [X|X]; [left; apply in_or_app; right; exact X|right; exact X].
      - split; [reflexivity|]. split; [rewrite rents_app, Hp; reflexivity|].
        intros g Hg. rewrite app_assoc in Hg. apply in_app_or in Hg. destruct Hg as [Hg|[Hg|[]]]; [left; exact Hg|].
        inversion Hg. right. reflexivity. }
    destruct W as [W1 [W2 W3]]. destruct (IH seen (wal_prune h w) Hok W2) as [A [B C]].
    split; [rewrite A; exact W1|]. split; [exact B|].
    intros g Hg. destruct (C g Hg) as [X|X]; [|right; exact X].
    destruct (W3 g X) as [Y|->]; [left; exact Y|right; left; exact Hin].
Qed.
