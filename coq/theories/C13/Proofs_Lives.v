(* C13 — lemmas, part 20: any number of crashes.  A "coherent" world (resume height, log directory, effects of
   all earlier lives) stays coherent across a life that recovers from it, runs a plain live phase and is killed
   at ANY effect boundary (also during recovery); a life on a coherent world never contradicts an earlier one. *)
From Coq Require Import List NArith ZArith Bool Lia ZifyN ZifyBool.
From V Require Import C12.Model C12.Proofs C13.Model C13.Proofs C13.Proofs_Votes C13.Proofs_Commit
  C13.Proofs_Life C13.Proofs_Resume C13.Proofs_Replay C13.Proofs_Obs C13.Proofs_ObsStep C13.Proofs_Cells
  C13.Proofs_Shape C13.Proofs_Wal C13.Proofs_Crash C13.Proofs_MidGen C13.Proofs_Fut C13.Proofs_Upd
  C13.Proofs_Core C13.Proofs_Inv C13.Proofs_Final C13.Proofs_State C13.Proofs_Tail.
Import ListNotations.
Open Scope N_scope.

(* ---------- the effects of a recovery: broadcasts and timers; a commit = callback, prune, flush ---------- *)
Inductive RepEffs : list effect -> Prop :=
| re_nil : RepEffs []
| re_bcast : forall m l, RepEffs l -> RepEffs (Bcast m :: l)
| re_sched : forall k h r l, RepEffs l -> RepEffs (Sched k h r :: l)
| re_commit : forall h v l, RepEffs l -> RepEffs (CommitCb h v :: Prune h :: Flush :: l).

Lemma RepEffs_app : forall a b, RepEffs a -> RepEffs b -> RepEffs (a ++ b).
Proof. intros a b Ha Hb. induction Ha; simpl; try constructor; auto. Qed.

Lemma exec_true_rep : forall acts w, RepEffs (snd (fst (exec true w acts))).
Proof.
  induction acts as [|a rest IH]; intros w; [constructor|].
  simpl. destruct a; simpl; try (fin_exec true IH; try constructor; exact IH').
  repeat constructor.
Qed.

Lemma replay_rep : forall E es d, RepEffs (flat (snd (replay E d es))).
Proof.
  induction es as [|e rest IH]; intros d; cbn [replay]; [constructor|].
  destruct (entry_height e <? s_h (d_sm d)); [apply IH|].
  pose proof (dstep_spec E true d (input_of_entry e)) as S.
  pose proof (exec_true_rep (snd (sm_of E d (input_of_entry e))) (d_wal d)) as R.
  destruct (dstep E true d (input_of_entry e)) as [[d1 eff] com]. injection S as _ -> _.
  specialize (IH d1). destruct (replay E d1 rest) as [d2 tr]. cbn [fst snd] in *.
  rewrite flat_cons. apply RepEffs_app; assumption.
Qed.

(* what a (prefix of a) recovery can do to the log: nothing is appended, and a prune follows its callback *)
Fixpoint rp_ok (seen : list N) (l : list effect) : Prop :=
  match l with
  | [] => True
  | Append _ :: _ => False
  | CommitCb h _ :: r => rp_ok (h :: seen) r
  | Prune h :: r => In h seen /\ rp_ok seen r
  | _ :: r => rp_ok seen r
  end.

Lemma rp_ok_mono : forall l s1 s2, (forall x, In x s1 -> In x s2) -> rp_ok s1 l -> rp_ok s2 l.
Proof.
  induction l as [|e l IH]; intros s1 s2 Hs H; [exact I|]. destruct e; simpl in *; try (eapply IH; eassumption).
  - contradiction.
  - eapply IH; [|exact H]. intros x [->|Hx]; [left; reflexivity|right; auto].
  - destruct H as [H1 H2]. split; [auto|eapply IH; eassumption].
Qed.

Lemma RepEffs_rp_ok : forall l, RepEffs l -> forall seen, rp_ok seen l.
Proof.
  intros l H. induction H; intros seen; simpl; auto.
Qed.

Lemma rp_ok_firstn : forall l seen j, rp_ok seen l -> rp_ok seen (firstn j l).
Proof.
  induction l as [|e l IH]; intros seen j H; [rewrite firstn_nil; exact I|].
  destruct j as [|j]; [exact I|]. cbn [firstn]. destruct e; simpl in *; auto.
  destruct H as [H1 H2]. split; auto.
Qed.

Lemma bump_prune_spec : forall l h l', bump_prune l h = Some l' ->
  rents l' = rents l /\ forall g, In (RPrune g) l' -> In (RPrune g) l \/ g = h.
Proof.
  induction l as [|x l IH]; intros h l' H; simpl in H; [discriminate|]. destruct x as [e|h0].
  - destruct (bump_prune l h) as [r'|] eqn:E; [|discriminate]. inversion H. subst l'.
    destruct (IH h r' E) as [A B]. split; [unfold rents in *; simpl; rewrite A; reflexivity|].
    intros g [Hg|Hg]; [discriminate|]. destruct (B g Hg) as [X|X]; [left; right; exact X|right; exact X].
  - inversion H. subst l'. split; [reflexivity|]. intros g [Hg|Hg].
    + inversion Hg. destruct (N.max_spec h0 h) as [[_ M]|[_ M]]; rewrite M; [right; reflexivity|left; left; reflexivity].
    + left. right. exact Hg.
Qed.

(* the log after (a prefix of) a recovery's effects *)
Lemma rp_wal : forall l seen w, rp_ok seen l -> rents (w_pending w) = [] ->
  rents (w_durable (apply_effects w l)) = rents (w_durable w) /\
  rents (w_pending (apply_effects w l)) = [] /\
  forall g, In (RPrune g) (w_durable (apply_effects w l) ++ w_pending (apply_effects w l)) ->
            In (RPrune g) (w_durable w ++ w_pending w) \/ In g seen \/ In g (commits_in l).
Proof.
  induction l as [|e l IH]; intros seen w Hok Hp; cbn [apply_effects fold_left]; [auto|].
  fold (apply_effects (apply_effect w e) l). destruct e; simpl in Hok; cbn [apply_effect].
  - contradiction.
  - (* Flush *)
    assert (Hp' : rents (w_pending (wal_flush w)) = []) by reflexivity.
    destruct (IH seen (wal_flush w) Hok Hp') as [A [B C]]. split; [|split; [exact B|]].
    + rewrite A. unfold wal_flush. cbn [w_durable]. rewrite rents_app, Hp, app_nil_r. reflexivity.
    + intros g Hg. destruct (C g Hg) as [X|X]; [left|right; exact X].
      unfold wal_flush in X. cbn [w_durable w_pending] in X. rewrite app_nil_r in X. exact X.
  - destruct (IH seen w Hok Hp) as [A [B C]]. auto.
  - destruct (IH seen w Hok Hp) as [A [B C]]. auto.
  - (* CommitCb *)
    destruct (IH (h :: seen) w Hok Hp) as [A [B C]]. split; [exact A|]. split; [exact B|].
    intros g Hg. destruct (C g Hg) as [X|[[X|X]|X]]; auto.
    + subst g. right. right. left. reflexivity.
    + right. right. right. exact X.
  - (* Prune *)
    destruct Hok as [Hin Hok].
    assert (W : rents (w_durable (wal_prune h w)) = rents (w_durable w) /\ rents (w_pending (wal_prune h w)) = [] /\
                forall g, In (RPrune g) (w_durable (wal_prune h w) ++ w_pending (wal_prune h w)) ->
                          In (RPrune g) (w_durable w ++ w_pending w) \/ g = h).
    { unfold wal_prune. destruct (h <=? pruned_upto (w_durable w)); [auto|].
      destruct (bump_prune (w_pending w) h) as [l'|] eqn:Eb; cbn [w_durable w_pending].
      - destruct (bump_prune_spec _ _ _ Eb) as [R1 R2]. split; [reflexivity|]. split; [rewrite R1; exact Hp|].
        intros g Hg. apply in_app_or in Hg. destruct Hg as [Hg|Hg]; [left; apply in_or_app; left; exact Hg|].
        destruct (R2 g Hg) as [X|X]; [left; apply in_or_app; right; exact X|right; exact X].
      - split; [reflexivity|]. split; [rewrite rents_app, Hp; reflexivity|].
        intros g Hg. rewrite app_assoc in Hg. apply in_app_or in Hg. destruct Hg as [Hg|[Hg|[]]]; [left; exact Hg|].
        inversion Hg. right. reflexivity. }
    destruct W as [W1 [W2 W3]]. destruct (IH seen (wal_prune h w) Hok W2) as [A [B C]].
    split; [rewrite A; exact W1|]. split; [exact B|].
    intros g Hg. destruct (C g Hg) as [X|X]; [|right; exact X].
    destruct (W3 g X) as [Y|Y]; [left; exact Y|subst g; right; left; exact Hin].
Qed.

Lemma rp_ok_apps : forall l seen, rp_ok seen l -> apps l = [].
Proof.
  induction l as [|e l IH]; intros seen H; [reflexivity|]. destruct e; simpl in *; try (eapply IH; eassumption).
  - contradiction.
  - destruct H as [_ H]. eapply IH; eassumption.
Qed.

Lemma rep_pending : forall l, RepEffs l -> forall w, w_pending w = [] -> w_pending (apply_effects w l) = [].
Proof.
  intros l H. induction H; intros w Hp; cbn [apply_effects fold_left apply_effect]; auto.
  - apply IHRepEffs. exact Hp.
  - apply IHRepEffs. exact Hp.
  - fold (apply_effects (wal_flush (wal_prune h w)) l). apply IHRepEffs. reflexivity.
Qed.

(* before the first commit callback a recovery does not touch the log *)
Lemma rp_nocommit : forall l Dx, rp_ok [] l -> commits_in l = [] ->
  w_durable (apply_effects (mkWal Dx []) l) = Dx /\ w_pending (apply_effects (mkWal Dx []) l) = [].
Proof.
  induction l as [|e l IH]; intros Dx Hok Hc; cbn [apply_effects fold_left]; [auto|].
  fold (apply_effects (apply_effect (mkWal Dx []) e) l). destruct e; simpl in Hok; cbn [apply_effect].
  - contradiction.
  - unfold wal_flush. cbn [w_durable w_pending]. rewrite app_nil_r. apply IH; assumption.
  - apply IH; assumption.
  - apply IH; assumption.
  - unfold commits_in in Hc. simpl in Hc. discriminate.
  - destruct Hok as [[] _].
Qed.

Lemma consecutive_lt : forall l h x, consecutive_from h l = true -> In x l -> x < h + N.of_nat (length l).
Proof.
  induction l as [|y l IH]; intros h x C Hin; [contradiction|]. simpl in C. apply andb_prop in C. destruct C as [C1 C2].
  apply N.eqb_eq in C1. subst y. destruct Hin as [<-|Hin]; [simpl; lia|].
  specialize (IH (h + 1) x C2 Hin). simpl length. lia.
Qed.

Lemma consecutive_firstn : forall l h j, consecutive_from h (commits_in l) = true ->
  consecutive_from h (commits_in (firstn j l)) = true.
Proof.
  intros l h j C. rewrite <- (firstn_skipn j l), commits_in_app, consecutive_app in C.
  apply andb_prop in C. apply C.
Qed.

Section Lives.
  Variable E : env.
  Hypothesis Hdet : value_deterministic E.
  Hypothesis Qpos : quorum_positive E.
  Let cE := c0 E.

  (* a world a validator process can be started in: resume height H, log directory D, effects EH of all
     earlier lives *)
  Record Coh (H : N) (D : list wrec) (EH : list effect) : Prop := mkCoh {
    c_pos : 0 < H;
    c_prunes : prunes_below H D;
    c_msgs : Forall (fun x => is_msg x = true) (futs H (rents D));
    c_disc : core_disc E H (rents D) = true;
    c_cover : forall k v, In v (votes_in k EH) -> H <= v_h v -> In v (votes_of k (snd (core E H (rents D))));
    c_vh : forall k v, In v (votes_in k EH) -> v_h v <= H
  }.

  Lemma Coh_init : forall h0, 1 <= h0 -> Coh h0 [] [].
  Proof.
    intros h0 Hh. constructor; try (constructor; fail); try reflexivity; try lia;
      intros k v Hin; destruct k; contradiction.
  Qed.

  Lemma curs_msgs_above : forall H g A, H < g -> Forall (fun x => is_msg x = true) (futs H A) ->
    Forall (fun x => is_msg x = true) (curs g A).
  Proof.
    intros H g A Hlt F. rewrite <- (curs_futs H g A Hlt). apply Forall_forall. intros x Hx.
    unfold curs in Hx. apply filter_In in Hx. rewrite Forall_forall in F. apply F. apply Hx.
  Qed.

  (* ---------- the recovery phase establishes the boundary invariant of the life ---------- *)
  Lemma recovery_BI : forall H D EH n, Coh H D EH ->
    BI E H D EH (fst (recover E H D n)) (flat (snd (recover E H D n))).
  Proof.
    intros H D EH n [Cp Cpr Cm Cd Cc Cv].
    assert (Hh0 : 1 <= H) by lia.
    set (A := rents D) in *.
    destruct (core_facts E H A) as [Wx [Nx [Shape Em]]].
    pose proof (core_reset E H A) as Rst. pose proof (core_votes E H A Cd) as Cvh.
    assert (RL : forall n2, obs_eq (d_sm (fst (recover E H D n2))) (upds cE (fst (fst (core E H A))) (futs H A)) /\
                 (forall k, votes_in k (flat (snd (recover E H D n2))) = votes_of k (snd (core E H A)))).
    { intro n2. apply (recover_link E Hdet H D n2 Cp Cpr Cm). }
    destruct (RL n) as [R1 R2].
    assert (Dsc : replay_disc E (boot H D n) (load D) = true) by (rewrite (replay_disc_core E Hdet H D n Cp Cpr Cm); exact Cd).
    assert (CI : CInv E H (fst (recover E H D n)) (flat (snd (recover E H D n)))).
    { unfold recover. apply (replay_P E (CInv E H) (fun r d i effs => CInv_step E H r d i effs) (load D) (boot H D n) []); [|exact Dsc].
      split; [exists (mon_init H); apply Rel_init|]. simpl. split; [reflexivity|lia]. }
    pose proof (replay_nval E (load D) (boot H D n) eq_refl) as Nv1.
    pose proof (replay_rep E (load D) (boot H D n)) as RE.
    destruct (replay_ok E (load D) (boot H D n)) as [_ [_ Wal1]]. cbn [boot d_wal] in Wal1.
    unfold recover in *. set (d1 := fst (replay E (boot H D n) (load D))) in *.
    set (effs1 := flat (snd (replay E (boot H D n) (load D)))) in *.
    assert (Rok : rp_ok [] effs1) by (apply RepEffs_rp_ok; exact RE).
    assert (Ap : apps effs1 = []) by (eapply rp_ok_apps; exact Rok).
    assert (LLe : LL D effs1 = A) by (unfold LL; rewrite Ap, app_nil_r; reflexivity).
    destruct CI as [Rl [Cons Hh]]. 
    assert (Scx : scal (fst (fst (core E H A))) = scal (d_sm d1)).
    { destruct R1 as [X _]. rewrite upds_scal in X. symmetry. exact X. }
    destruct (scal_h _ _ Scx) as [Shx [Stx _]].
    destruct (rp_wal effs1 [] (mkWal D []) Rok eq_refl) as [Wr [Wp Wg]]. rewrite <- Wal1 in Wr, Wp, Wg. cbn [w_durable w_pending app] in Wr, Wg.
    assert (Pend : w_pending (d_wal d1) = []) by (rewrite Wal1; apply rep_pending; [exact RE|reflexivity]).
    assert (VE : forall k v, In v (votes_in k effs1) -> v_h v = H) by (intros k v Hin; rewrite R2 in Hin; apply (Cvh k v Hin)).
    assert (Vall : forall k v, In v (votes_in k (EH ++ effs1)) -> v_h v <= H).
    { intros k v Hin. rewrite votes_in_app in Hin. apply in_app_or in Hin. destruct Hin as [X|X]; [apply (Cv k v X)|rewrite (VE k v X); lia]. }
    assert (Prn : forall X, H + N.of_nat (length (commits_in effs1)) <= X -> prunes_below X (w_durable (d_wal d1) ++ w_pending (d_wal d1))).
    { intros X HX. unfold prunes_below. apply Forall_forall. intros [e|g] Hin; [exact I|].
      destruct (Wg g Hin) as [Y|[[]|Y]].
      - rewrite app_nil_r in Y. unfold prunes_below in Cpr. rewrite Forall_forall in Cpr. specialize (Cpr _ Y). simpl in Cpr. lia.
      - pose proof (consecutive_lt _ _ _ Cons Y). lia. }
    (* every prefix of the recovery's effects *)
    assert (Pre : forall j, let pre := firstn j effs1 in
              resume_height H pre = H + N.of_nat (length (commits_in pre)) /\
              rents (disk D pre) = A /\ prunes_below (resume_height H pre) (disk D pre) /\
              (commits_in pre = [] -> disk D pre = D) /\
              (forall k v, In v (votes_in k (EH ++ pre)) -> v_h v <= H)).
    { intros j pre. assert (Rp : rp_ok [] pre) by (apply rp_ok_firstn; exact Rok).
      assert (Cp' : consecutive_from H (commits_in pre) = true) by (apply consecutive_firstn; exact Cons).
      pose proof (resume_height_count pre H Cp') as Rh.
      destruct (rp_wal pre [] (mkWal D []) Rp eq_refl) as [Q1 [_ Q3]]. cbn [w_durable w_pending app] in Q1, Q3.
      split; [exact Rh|]. split; [exact Q1|]. split.
      - rewrite Rh. unfold prunes_below, disk. apply Forall_forall. intros [e|g] Hin; [exact I|].
        destruct (Q3 g (in_or_app _ _ _ (or_introl Hin))) as [Y|[[]|Y]].
        + rewrite app_nil_r in Y. unfold prunes_below in Cpr. rewrite Forall_forall in Cpr. specialize (Cpr _ Y). simpl in Cpr. lia.
        + pose proof (consecutive_lt _ _ _ Cp' Y). lia.
      - split; [intro Hc; apply (rp_nocommit pre D Rp Hc)|].
        intros k v Hin. rewrite votes_in_app in Hin. apply in_app_or in Hin. destruct Hin as [X|X]; [apply (Cv k v X)|].
        apply firstn_votes_incl in X. rewrite (VE k v X). lia. }
    assert (Crash : forall j, CrashCov E H D EH (firstn j effs1)).
    { intro j. destruct (Pre j) as [Rh [_ [_ [Dk Vh]]]]. split.
      - intros n2 k v Hin Hge. destruct (commits_in (firstn j effs1)) eqn:Ec.
        + rewrite Rh in *. simpl in *. rewrite N.add_0_r in *. rewrite (Dk eq_refl).
          destruct (RL n2) as [_ R2']. rewrite R2'.
          rewrite votes_in_app in Hin. apply in_app_or in Hin. destruct Hin as [X|X]; [apply (Cc k v X Hge)|].
          apply firstn_votes_incl in X. rewrite <- R2. exact X.
        + rewrite Rh in Hge. pose proof (Vh k v Hin). simpl in Hge. lia.
      - intros k v Hin. rewrite Rh. pose proof (Vh k v Hin). lia. }
    assert (Disk : forall j, DiskGood E H D (firstn j effs1)).
    { intro j. destruct (Pre j) as [Rh [Rn [Pb _]]]. unfold DiskGood. rewrite Rn.
      split; [rewrite Rh; lia|]. split; [exact Pb|].
      destruct (N.eq_dec (resume_height H (firstn j effs1)) H) as [Eq|Ne].
      - rewrite Eq. auto.
      - assert (Hgt : H < resume_height H (firstn j effs1)) by (rewrite Rh in *; lia).
        split; [apply (futs_msgs_sub H _ A); [lia|exact Cm]|].
        unfold core_disc. apply sm_disc_msgs. apply (curs_msgs_above H _ A Hgt Cm). }
    assert (Wf1 : WF (d_sm d1)).
    { unfold WF. destruct R1 as [_ [Vh _]]. rewrite Vh.
      pose proof (upds_wf cE (futs H A) _ Wx) as W2. unfold WF in W2. rewrite W2.
      destruct (scal_h _ _ (upds_scal cE (futs H A) (fst (fst (core E H A))))) as [X _]. rewrite X. exact Shx. }
    (* the boundary fields, at the height the recovery ended in *)
    destruct Shape as [Sh|[Sh Su]].
    - (* the recovery did not commit *)
      assert (Eh : s_h (d_sm d1) = H) by lia.
      constructor; rewrite ?LLe, ?Eh; auto.
      + split; [exact Rl|]. split; [exact Cons|exact Hh].
      + intros k v Hin Hge. rewrite votes_in_app in Hin. apply in_app_or in Hin. destruct Hin as [X|X]; [apply (Cc k v X Hge)|].
        rewrite <- R2. exact X.
      + rewrite rents_app, Wr, Wp, app_nil_r. reflexivity.
      + apply Prn. lia.
      + rewrite Pend. constructor.
    - (* the recovery re-derived the commit of H *)
      assert (Eh : s_h (d_sm d1) = H + 1) by lia.
      assert (Rs : scal (d_sm d1) = scal (init_state (s_h (d_sm d1)))) by (rewrite <- Scx, Eh; apply Rst; exact Sh).
      constructor; rewrite ?LLe, ?Eh; auto.
      + split; [exact Rl|]. split; [exact Cons|exact Hh].
      + apply (futs_msgs_sub H (H + 1) A); [lia|exact Cm].
      + apply (commit_next E H Hh0 H A (d_sm d1) R1 Cm Eh Rs).
      + intros k v Hin Hge. pose proof (Vall k v Hin). lia.
      + intros k v Hin. pose proof (Vall k v Hin). lia.
      + rewrite rents_app, Wr, Wp, app_nil_r. reflexivity.
      + apply Prn. lia.
      + rewrite Pend. constructor.
      + unfold core_disc. apply sm_disc_msgs. apply (curs_msgs_above H (H + 1) A ltac:(lia) Cm).
  Qed.
  (* ---------- a whole life on a coherent world ---------- *)
  Lemma life_BI : forall H D EH n ins, Coh H D EH ->
    live_good E (fst (recover E H D n)) ins = true ->
    BI E H D EH (fst (lifetime E H D n ins)) (flat (snd (lifetime E H D n ins))).
  Proof.
    intros H D EH n ins C G. assert (Hh0 : 1 <= H) by (pose proof (c_pos _ _ _ C); lia).
    pose proof (recovery_BI H D EH n C) as B1.
    unfold live_good in G. apply andb_prop in G. destruct G as [G1 G2].
    unfold lifetime. destruct (recover E H D n) as [d1 tr1]. cbn [fst snd] in *.
    assert (Ps : forall d i effs, BI E H D EH d effs -> good_step E d i = true ->
               BI E H D EH (fst (fst (dstep E false d i))) (effs ++ snd (fst (dstep E false d i))))
      by (intros; apply (BI_step E Hdet Qpos H Hh0 D EH); assumption).
    unfold run_live. pose proof (starts_PG E (BI E H D EH) Ps SFUEL d1 _ B1 G1) as B2.
    destruct (starts E SFUEL d1) as [d2 tr2]. cbn [fst snd] in *.
    pose proof (listen_PG E (BI E H D EH) Ps ins d2 _ B2 G2) as B3.
    destruct (listen E d2 ins) as [d3 tr3]. cbn [fst snd] in *.
    rewrite !flat_app, app_assoc. exact B3.
  Qed.

  (* whatever prefix of its effects a life got to perform, the world it leaves is coherent *)
  Lemma BI_next_Coh : forall H D EH d effs k, BI E H D EH d effs ->
    Coh (resume_height H (firstn k effs)) (crash_at k effs D) (EH ++ firstn k effs).
  Proof.
    intros H D EH d effs k B. destruct (b_crash _ _ _ _ _ _ B k) as [C1 C2].
    destruct (b_disk _ _ _ _ _ _ B k) as [Dp [Dpr [Dm Dd]]].
    change (crash_at k effs D) with (disk D (firstn k effs)).
    constructor; auto.
    intros kd v Hin Hge. specialize (C1 0 kd v Hin Hge).
    destruct (recover_link E Hdet _ _ 0 Dp Dpr Dm) as [_ RL]. rewrite RL in C1. exact C1.
  Qed.

  Lemma listen_good_disc : forall ins d, listen_good E d ins = true -> listen_disc E d ins = true.
  Proof.
    induction ins as [|i rest IH]; intros d G; cbn [listen_good listen_disc] in *; [reflexivity|].
    apply andb_prop in G. destruct G as [G1 G].
    assert (Hok : ok_input (d_sm d) i = true).
    { unfold good_step, good_body in G1. apply andb_prop in G1. apply G1. }
    rewrite Hok. cbn [andb]. destruct (dstep E false d i) as [[d1 eff] com].
    apply andb_prop in G. destruct G as [_ G]. apply IH. exact G.
  Qed.

  Lemma life_disc_of : forall H D EH n ins, Coh H D EH ->
    listen_disc E (fst (starts E SFUEL (fst (recover E H D n)))) ins = true ->
    life_disc E H D n ins = true.
  Proof.
    intros H D EH n ins [Cp Cpr Cm Cd _ _] L. unfold life_disc.
    rewrite (replay_disc_core E Hdet H D n Cp Cpr Cm), Cd. exact L.
  Qed.

  (* a life on a coherent world does not contradict any earlier life *)
  Lemma life_no_conflict : forall H D EH n ins, Coh H D EH ->
    listen_disc E (fst (starts E SFUEL (fst (recover E H D n)))) ins = true ->
    no_conflict EH (flat (snd (lifetime E H D n ins))) = true.
  Proof.
    intros H D EH n ins C L. pose proof (life_disc_of H D EH n ins C L) as Hd.
    destruct C as [Cp Cpr Cm Cd Cc Cv].
    assert (Cover : forall kd v, In v (votes_in kd EH) -> H <= v_h v ->
              In v (votes_in kd (flat (snd (lifetime E H D n ins))))).
    { intros kd v Hin Hge. destruct (recover_link E Hdet H D n Cp Cpr Cm) as [_ RL].
      unfold lifetime. destruct (recover E H D n) as [d1 tr1]. destruct (run_live E d1 ins) as [d2 tr2]. cbn [snd] in *.
      rewrite flat_app, votes_in_app. apply in_or_app. left. rewrite RL. apply (Cc kd v Hin Hge). }
    assert (NC : forall kd, no_conflict_kind kd EH (flat (snd (lifetime E H D n ins))) = true).
    { intro kd. apply no_conflict_kind_intro. intros a b Ha Hb.
      unfold conflicts. destruct (same_slot a b) eqn:S; [|reflexivity]. simpl.
      pose proof (life_votes_height E H D n ins Hd kd b Hb) as Hbh.
      assert (Hah : H <= v_h a) by (unfold same_slot in S; lia).
      pose proof (Cover kd a Ha Hah) as Ha'.
      rewrite (one_per_slot_unique _ a b (life_one_per_slot E H D n ins kd Hd) Ha' Hb S).
      rewrite oid_eqb_refl. reflexivity. }
    unfold no_conflict. rewrite !NC. reflexivity.
  Qed.

  (* ---------- induction over the lives ---------- *)
  Theorem Worlds_Coh : forall H D EH, Worlds E H D EH -> Coh H D EH.
  Proof.
    intros H D EH W. induction W as [h0 Hh|H D EH n ins k W IH G].
    - apply Coh_init. exact Hh.
    - apply (BI_next_Coh H D EH _ _ k (life_BI H D EH n ins IH G)).
  Qed.

  Theorem no_conflict_any_crashes : forall H D EH n ins, Worlds E H D EH ->
    listen_disc E (fst (starts E SFUEL (fst (recover E H D n)))) ins = true ->
    no_conflict EH (flat (snd (lifetime E H D n ins))) = true /\ life_disc E H D n ins = true.
  Proof.
    intros H D EH n ins W L. pose proof (Worlds_Coh H D EH W) as C.
    split; [apply life_no_conflict; assumption|eapply life_disc_of; eassumption].
  Qed.

  Theorem resume_any_crashes : forall H D EH n ins, Worlds E H D EH ->
    listen_disc E (fst (starts E SFUEL (fst (recover E H D n)))) ins = true ->
    consecutive_from H (commits_in (flat (snd (lifetime E H D n ins)))) = true /\
    s_h (d_sm (fst (lifetime E H D n ins))) = H + N.of_nat (length (commits_in (flat (snd (lifetime E H D n ins))))).
  Proof.
    intros H D EH n ins W L. apply resume_height_lemma.
    eapply life_disc_of; [apply Worlds_Coh; exact W|exact L].
  Qed.
End Lives.
