(* C13 — lemmas, part 23: what the log directory holds at the end of ANY life (no hypothesis on inputs, log
   content or environment), whatever way it ends: nothing is pending at the moment of a visible effect; a
   prune is only ever performed right after the commit callback of that height returned true; every entry
   appended before a visible effect is read back from the directory unless a completed commit pruned it. *)
From Coq Require Import List NArith ZArith Bool Lia ZifyN ZifyBool.
From V Require Import C12.Model C12.Proofs_SimB C13.Model C13.Proofs C13.Proofs_Wal C13.Proofs_Core.
Import ListNotations.
Open Scope N_scope.

(* ---------- a life's trace is a concatenation of execute() outputs: first replaying, then live ---------- *)
Section TraceInd.
  Variable P : bool -> list effect -> Prop.     (* P live l *)
  Hypothesis P0 : P false [].
  Hypothesis Prep : forall l acts w, P false l -> P false (l ++ snd (fst (exec true w acts))).
  Hypothesis Pswitch : forall l, P false l -> P true l.
  Hypothesis Plive : forall l acts w, P true l -> P true (l ++ snd (fst (exec false w acts))).

  Lemma dstep_effs : forall E r d i, exists acts, snd (fst (dstep E r d i)) = snd (fst (exec r (d_wal d) acts)).
  Proof. intros. rewrite dstep_spec. cbn [fst snd]. eexists. reflexivity. Qed.

  Lemma replay_tr : forall E es d l, P false l -> P false (l ++ flat (snd (replay E d es))).
  Proof.
    induction es as [|e rest IH]; intros d l H; cbn [replay].
    - cbn [snd flat flat_map]. rewrite app_nil_r. exact H.
    - destruct (entry_height e <? s_h (d_sm d)); [apply IH; exact H|].
      destruct (dstep_effs E true d (input_of_entry e)) as [acts Ea].
      destruct (dstep E true d (input_of_entry e)) as [[d1 eff] com]. cbn [fst snd] in Ea. subst eff.
      specialize (IH d1 _ (Prep l acts (d_wal d) H)). destruct (replay E d1 rest) as [d2 tr]. cbn [snd] in *.
      rewrite flat_cons, app_assoc. exact IH.
  Qed.
  Lemma starts_tr : forall E fuel d l, P true l -> P true (l ++ flat (snd (starts E fuel d))).
  Proof.
    induction fuel as [|n IH]; intros d l H; cbn [starts].
    - cbn [snd flat flat_map]. rewrite app_nil_r. exact H.
    - destruct (dstep_effs E false d (IStart 0)) as [acts Ea].
      destruct (dstep E false d (IStart 0)) as [[d1 eff] com]. cbn [fst snd] in Ea. subst eff.
      pose proof (Plive l acts (d_wal d) H) as H1. destruct com.
      + specialize (IH d1 _ H1). destruct (starts E n d1) as [d2 tr]. cbn [snd] in *. rewrite flat_cons, app_assoc. exact IH.
      + cbn [snd]. rewrite flat_cons. cbn [flat flat_map]. rewrite app_nil_r. exact H1.
  Qed.
  Lemma listen_tr : forall E ins d l, P true l -> P true (l ++ flat (snd (listen E d ins))).
  Proof.
    induction ins as [|i rest IH]; intros d l H; cbn [listen].
    - cbn [snd flat flat_map]. rewrite app_nil_r. exact H.
    - destruct (dstep_effs E false d i) as [acts Ea].
      destruct (dstep E false d i) as [[d1 eff] com]. cbn [fst snd] in Ea. subst eff.
      pose proof (Plive l acts (d_wal d) H) as H1.
      assert (S : P true ((l ++ snd (fst (exec false (d_wal d) acts))) ++
                          flat (snd (if com then starts E SFUEL d1 else (d1, []))))).
      { destruct com; [apply starts_tr; exact H1|]. cbn [snd flat flat_map]. rewrite app_nil_r. exact H1. }
      destruct (if com then starts E SFUEL d1 else (d1, [])) as [d2 tr2]. cbn [snd] in S.
      specialize (IH d2 _ S). destruct (listen E d2 rest) as [d3 tr3]. cbn [snd] in *.
      rewrite flat_cons, flat_app, !app_assoc. exact IH.
  Qed.
  Lemma lifetime_tr : forall E h D n ins, P true (flat (snd (lifetime E h D n ins))).
  Proof.
    intros. unfold lifetime, recover.
    pose proof (replay_tr E (load D) (boot h D n) [] P0) as H1.
    destruct (replay E (boot h D n) (load D)) as [d1 tr1]. cbn [fst snd app] in *.
    unfold run_live. pose proof (starts_tr E SFUEL d1 _ (Pswitch _ H1)) as H2.
    destruct (starts E SFUEL d1) as [d2 tr2]. cbn [snd] in *.
    pose proof (listen_tr E ins d2 _ H2) as H3. destruct (listen E d2 ins) as [d3 tr3]. cbn [snd] in *.
    rewrite !flat_app, app_assoc. exact H3.
  Qed.
End TraceInd.

(* ---------- nothing pending at a visible effect ---------- *)
Definition cdirty_step (d : bool) (e : effect) : bool :=
  match e with Append _ | Prune _ => true | Flush => false | _ => d end.
Definition cdirty_after (d : bool) (l : list effect) : bool := fold_left cdirty_step l d.

Lemma clean_app : forall l1 l2 d,
  clean_when_visible d (l1 ++ l2) = clean_when_visible d l1 && clean_when_visible (cdirty_after d l1) l2.
Proof.
  induction l1 as [|e l1 IH]; intros l2 d; simpl; [reflexivity|].
  destruct e; simpl; rewrite ?IH; try reflexivity; rewrite andb_assoc; reflexivity.
Qed.
Lemma cdirty_after_app : forall l1 l2 d, cdirty_after d (l1 ++ l2) = cdirty_after (cdirty_after d l1) l2.
Proof. intros. unfold cdirty_after. apply fold_left_app. Qed.

Lemma exec_live_clean : forall acts w d, clean_when_visible d (snd (fst (exec false w acts))) = true.
Proof.
  induction acts as [|a rest IH]; intros w d; [reflexivity|].
  simpl. destruct a; simpl; try reflexivity; fin_exec false IH; rewrite ?IH'; reflexivity.
Qed.
Lemma exec_replay_clean : forall acts w,
  clean_when_visible false (snd (fst (exec true w acts))) = true /\
  cdirty_after false (snd (fst (exec true w acts))) = false.
Proof.
  induction acts as [|a rest IH]; intros w; [split; reflexivity|].
  simpl. destruct a; simpl; try (split; reflexivity); fin_exec true IH; destruct IH' as [H1 H2];
    rewrite ?H1, ?H2; split; try reflexivity; assumption.
Qed.

Lemma lifetime_clean : forall E h D n ins, clean_when_visible false (flat (snd (lifetime E h D n ins))) = true.
Proof.
  intros. apply (lifetime_tr (fun live l => clean_when_visible false l = true /\ (live = false -> cdirty_after false l = false))).
  - split; reflexivity.
  - intros l acts w [A B]. destruct (exec_replay_clean acts w) as [C1 C2]. split.
    + rewrite clean_app, A, (B eq_refl), C1. reflexivity.
    + intros _. rewrite cdirty_after_app, (B eq_refl). exact C2.
  - intros l [A _]. split; [exact A|discriminate].
  - intros l acts w [A _]. split; [|discriminate]. rewrite clean_app, A, exec_live_clean. reflexivity.
Qed.

Lemma clean_firstn : forall l d k, clean_when_visible d l = true -> clean_when_visible d (firstn k l) = true.
Proof.
  intros l d k H. rewrite <- (firstn_skipn k l), clean_app in H. apply andb_prop in H. apply H.
Qed.

(* the reading of the flag: clean means nothing is pending *)
Lemma cdirty_inv : forall e w d, (d = false -> w_pending w = []) ->
  (cdirty_step d e = false -> w_pending (apply_effect w e) = []).
Proof.
  intros e w d H. destruct e; simpl; try exact H; try discriminate. intros _. reflexivity.
Qed.
Lemma cdirty_inv_l : forall l w d, (d = false -> w_pending w = []) ->
  (cdirty_after d l = false -> w_pending (apply_effects w l) = []).
Proof.
  induction l as [|e l IH]; intros w d H; [exact H|].
  cbn [cdirty_after fold_left apply_effects]. apply IH. apply cdirty_inv. exact H.
Qed.

Lemma clean_visible_dirty : forall l1 x l2 d, is_visible x = true ->
  clean_when_visible d (l1 ++ x :: l2) = true -> cdirty_after d l1 = false.
Proof.
  intros l1 x l2 d V H. rewrite clean_app in H. apply andb_prop in H. destruct H as [_ H].
  destruct x; try discriminate; simpl in H; apply andb_prop in H; destruct H as [H _]; apply negb_true_iff in H; exact H.
Qed.

Lemma nothing_pending_when_visible : forall E h D n ins l1 x l2,
  flat (snd (lifetime E h D n ins)) = l1 ++ x :: l2 -> is_visible x = true ->
  w_pending (apply_effects (mkWal D []) l1) = [].
Proof.
  intros E h D n ins l1 x l2 Eq V. pose proof (lifetime_clean E h D n ins) as C. rewrite Eq in C.
  apply (cdirty_inv_l l1 (mkWal D []) false); [reflexivity|]. eapply clean_visible_dirty; eassumption.
Qed.

(* ---------- a prune follows the completed commit callback of its height ---------- *)
Definition last_or (prev : option effect) (l : list effect) : option effect :=
  match rev l with [] => prev | x :: _ => Some x end.
Lemma last_or_cons : forall e l prev, last_or prev (e :: l) = last_or (Some e) l.
Proof.
  intros e l prev. unfold last_or. simpl. destruct (rev l) as [|x r] eqn:Er; reflexivity.
Qed.
Lemma pf_app : forall l1 l2 prev,
  prunes_follow_cb prev (l1 ++ l2) = prunes_follow_cb prev l1 && prunes_follow_cb (last_or prev l1) l2.
Proof.
  induction l1 as [|e l1 IH]; intros l2 prev; [reflexivity|].
  rewrite last_or_cons. cbn [app]. destruct e; cbn [prunes_follow_cb]; rewrite ?IH; try reflexivity.
  rewrite andb_assoc. reflexivity.
Qed.
Lemma exec_pf : forall r acts w prev, prunes_follow_cb prev (snd (fst (exec r w acts))) = true.
Proof.
  induction acts as [|a rest IH]; intros w prev; [reflexivity|].
  simpl. destruct r, a; simpl; rewrite ?N.eqb_refl; try reflexivity;
    (fin_exec true IH || fin_exec false IH); simpl; rewrite ?IH'; try reflexivity;
    match goal with |- context [exec _ ?W rest] => idtac | _ => idtac end.
Qed.
Lemma lifetime_pf : forall E h D n ins, forall prev, prunes_follow_cb prev (flat (snd (lifetime E h D n ins))) = true.
Proof.
  intros E h D n ins. apply (lifetime_tr (fun _ l => forall prev, prunes_follow_cb prev l = true)).
  - reflexivity.
  - intros l acts w H prev. rewrite pf_app, H, exec_pf. reflexivity.
  - auto.
  - intros l acts w H prev. rewrite pf_app, H, exec_pf. reflexivity.
Qed.
Lemma lifetime_pf_none : forall E h D n ins, prunes_follow_cb None (flat (snd (lifetime E h D n ins))) = true.
Proof. intros. apply lifetime_pf. Qed.
Lemma pf_firstn : forall l prev k, prunes_follow_cb prev l = true -> prunes_follow_cb prev (firstn k l) = true.
Proof.
  intros l prev k H. rewrite <- (firstn_skipn k l), pf_app in H. apply andb_prop in H. apply H.
Qed.
(* ... so the height of every performed prune is the height of a commit callback performed before it *)
Lemma pf_prune_committed : forall l prev g, prunes_follow_cb prev l = true -> In (Prune g) l ->
  In g (commits_in l) \/ (exists v, prev = Some (CommitCb g v)).
Proof.
  induction l as [|e l IH]; intros prev g H Hin; [contradiction|].
  destruct Hin as [->|Hin].
  - cbn [prunes_follow_cb] in H. apply andb_prop in H. destruct H as [H _].
    destruct prev as [[| | | |h v|]|]; try discriminate. apply N.eqb_eq in H. subst. right. eauto.
  - destruct e; cbn [prunes_follow_cb] in H;
      try (destruct (IH _ g H Hin) as [X|[v X]]; [left; unfold commits_in in *; simpl; exact X|discriminate]).
    + destruct (IH _ g H Hin) as [X|[v' X]]; [left; unfold commits_in in *; simpl; right; exact X|].
      inversion X. subst. left. unfold commits_in. simpl. left. reflexivity.
    + apply andb_prop in H. destruct H as [_ H]. destruct (IH _ g H Hin) as [X|[v X]]; [left; unfold commits_in in *; simpl; exact X|discriminate].
Qed.

(* the prune records of the log come from performed prunes *)
Definition prune_hs (l : list wrec) : list N := flat_map (fun r => match r with RPrune g => [g] | _ => [] end) l.
Definition prunes_of (l : list effect) : list N := flat_map (fun e => match e with Prune g => [g] | _ => [] end) l.

Lemma bump_prune_hs : forall l h l', bump_prune l h = Some l' ->
  forall g, In (RPrune g) l' -> In (RPrune g) l \/ g = h.
Proof.
  induction l as [|x l IH]; intros h l' H g Hg; simpl in H; [discriminate|]. destruct x as [e|h0].
  - destruct (bump_prune l h) as [r'|] eqn:Eb; [|discriminate]. inversion H. subst l'.
    destruct Hg as [Hg|Hg]; [discriminate|]. destruct (IH h r' Eb g Hg) as [X|X]; [left; right; exact X|right; exact X].
  - inversion H. subst l'. destruct Hg as [Hg|Hg].
    + inversion Hg. destruct (N.max_spec h0 h) as [[_ M]|[_ M]]; rewrite M; [right; reflexivity|left; left; reflexivity].
    + left. right. exact Hg.
Qed.

Lemma wal_prunes_from : forall l w g,
  In (RPrune g) (w_durable (apply_effects w l) ++ w_pending (apply_effects w l)) ->
  In (RPrune g) (w_durable w ++ w_pending w) \/ In (Prune g) l.
Proof.
  induction l as [|e l IH]; intros w g H; [left; exact H|].
  cbn [apply_effects fold_left] in H. fold (apply_effects (apply_effect w e) l) in H.
  destruct (IH _ g H) as [X|X]; [|right; right; exact X].
  destruct e; cbn [apply_effect] in X; try (left; exact X).
  - (* Append *)
    unfold wal_append in X. destruct (entry_height e <=? pruned_upto (w_durable w)); [left; exact X|].
    cbn [w_durable w_pending] in X. rewrite app_assoc in X. apply in_app_or in X. destruct X as [X|[X|[]]]; [left; exact X|discriminate].
  - (* Flush *)
    unfold wal_flush in X. cbn [w_durable w_pending] in X. rewrite app_nil_r in X. left. exact X.
  - (* Prune *)
    unfold wal_prune in X. destruct (h <=? pruned_upto (w_durable w)); [left; exact X|].
    destruct (bump_prune (w_pending w) h) as [l'|] eqn:Eb; cbn [w_durable w_pending] in X.
    + apply in_app_or in X. destruct X as [X|X]; [left; apply in_or_app; left; exact X|].
      destruct (bump_prune_hs _ _ _ Eb g X) as [Y|Y]; [left; apply in_or_app; right; exact Y|subst; right; left; reflexivity].
    + rewrite app_assoc in X. apply in_app_or in X. destruct X as [X|[X|[]]]; [left; exact X|]. inversion X. right. left. reflexivity.
Qed.

Lemma in_durable_flush : forall w r, In r (w_durable w) -> In r (w_durable (wal_flush w)).
Proof. intros. unfold wal_flush. cbn [w_durable]. apply in_or_app. left. assumption. Qed.

(* whatever way a life ends: a prune record on disk that was not there before stands for a completed commit *)
Lemma end_disk_prunes : forall E h D n ins fl k g,
  let effs := flat (snd (lifetime E h D n ins)) in
  In (RPrune g) (end_disk fl k effs D) -> In (RPrune g) D \/ In g (commits_in (firstn k effs)).
Proof.
  intros E h D n ins fl k g effs Hin.
  assert (X : In (RPrune g) (w_durable (wal_at D effs k) ++ w_pending (wal_at D effs k))).
  { unfold end_disk, stop_disk, crash_at in Hin. fold (wal_at D effs k) in Hin. destruct fl.
    - unfold wal_flush in Hin. exact Hin.
    - apply in_or_app. left. exact Hin. }
  destruct (wal_prunes_from (firstn k effs) (mkWal D []) g X) as [Y|Y].
  - left. cbn [w_durable w_pending] in Y. rewrite app_nil_r in Y. exact Y.
  - right. pose proof (pf_firstn effs None k (lifetime_pf E h D n ins None)) as P.
    destruct (pf_prune_committed _ None g P Y) as [Z|[v Z]]; [exact Z|discriminate].
Qed.

(* ---------- the log on disk covers what was made visible ---------- *)
Lemma pruned_upto_snoc : forall l r, pruned_upto l <= pruned_upto (l ++ [r]).
Proof.
  intros l r. unfold pruned_upto. rewrite index_of_snoc. destruct (index_of l) as [p es]. destruct r as [e|g]; cbn [apply_rec fst snd].
  - destruct (entry_height e <=? p); simpl; lia.
  - destruct (g <=? p) eqn:El; simpl; lia.
Qed.
Lemma pruned_upto_mono : forall l l', pruned_upto l <= pruned_upto (l ++ l').
Proof.
  intros l l'. induction l' as [|r l' IH] using rev_ind; [rewrite app_nil_r; lia|].
  rewrite app_assoc. pose proof (pruned_upto_snoc (l ++ l') r). lia.
Qed.

Lemma index_of_in : forall l e, In (REntry e) l -> In e (live_entries l) \/ entry_height e <= pruned_upto l.
Proof.
  induction l as [|r l IH] using rev_ind; intros e Hin; [contradiction|].
  unfold live_entries, pruned_upto in *. rewrite index_of_snoc. apply in_app_or in Hin.
  destruct (index_of l) as [p es] eqn:Ei. cbn [fst snd] in IH.
  destruct r as [e'|g]; cbn [apply_rec fst snd].
  - destruct Hin as [Hin|[Hin|[]]].
    + destruct (IH e Hin) as [X|X]; destruct (entry_height e' <=? p); cbn [fst snd]; auto. left. apply in_or_app. left. exact X.
    + inversion Hin. subst e'. destruct (entry_height e <=? p) eqn:El; cbn [fst snd]; [right; lia|left; apply in_or_app; right; left; reflexivity].
  - destruct Hin as [Hin|[Hin|[]]]; [|discriminate].
    destruct (IH e Hin) as [X|X]; destruct (g <=? p) eqn:El; cbn [fst snd]; auto.
    + destruct (entry_height e <=? g) eqn:Eh; [right; lia|]. left. apply filter_In. split; [exact X|]. unfold keep_above. rewrite Eh. reflexivity.
    + right. lia.
Qed.

(* e is accounted for by the durable part / by the whole log *)
Definition acc (w : wal) (e : entry) : Prop :=
  In (REntry e) (w_durable w) \/ entry_height e <= pruned_upto (w_durable w).
Definition accp (w : wal) (e : entry) : Prop :=
  In (REntry e) (w_durable w ++ w_pending w) \/ entry_height e <= pruned_upto (w_durable w).

Lemma bump_prune_keeps : forall l h l' e, bump_prune l h = Some l' -> In (REntry e) l -> In (REntry e) l'.
Proof.
  induction l as [|x l IH]; intros h l' e H Hin; simpl in H; [discriminate|]. destruct x as [e0|h0].
  - destruct (bump_prune l h) as [r'|] eqn:Eb; [|discriminate]. inversion H. subst l'.
    destruct Hin as [Hin|Hin]; [left; exact Hin|right; eapply IH; eauto].
  - inversion H. subst l'. destruct Hin as [Hin|Hin]; [discriminate|right; exact Hin].
Qed.

Lemma effect_durable : forall w x, exists ext, w_durable (apply_effect w x) = w_durable w ++ ext.
Proof.
  intros w x. destruct x; cbn [apply_effect]; try (exists []; rewrite app_nil_r; reflexivity).
  - unfold wal_append. destruct (_ <=? _); exists []; rewrite app_nil_r; reflexivity.
  - exists (w_pending w). reflexivity.
  - unfold wal_prune. destruct (_ <=? _); [exists []; rewrite app_nil_r; reflexivity|].
    destruct (bump_prune (w_pending w) h); exists []; rewrite app_nil_r; reflexivity.
Qed.
Lemma acc_step : forall w e x, acc w e -> acc (apply_effect w x) e.
Proof.
  intros w e x [A|A]; destruct (effect_durable w x) as [ext Ed]; unfold acc; rewrite Ed.
  - left. apply in_or_app. left. exact A.
  - right. pose proof (pruned_upto_mono (w_durable w) ext). lia.
Qed.
Lemma acc_steps : forall l w e, acc w e -> acc (apply_effects w l) e.
Proof.
  induction l as [|x l IH]; intros w e A; [exact A|]. cbn [apply_effects fold_left]. apply IH. apply acc_step. exact A.
Qed.
Lemma accp_step : forall w e x, accp w e -> accp (apply_effect w x) e.
Proof.
  intros w e x [A|A].
  - destruct x; cbn [apply_effect]; try (left; exact A).
    + unfold wal_append. destruct (_ <=? _); [left; exact A|]. left. cbn [w_durable w_pending]. rewrite app_assoc. apply in_or_app. left. exact A.
    + left. unfold wal_flush. cbn [w_durable w_pending]. rewrite app_nil_r. exact A.
    + unfold wal_prune. destruct (_ <=? _); [left; exact A|].
      destruct (bump_prune (w_pending w) h) as [l'|] eqn:Eb; left; cbn [w_durable w_pending].
      * apply in_app_or in A. apply in_or_app. destruct A as [A|A]; [left; exact A|right; eapply bump_prune_keeps; eauto].
      * rewrite app_assoc. apply in_or_app. left. exact A.
  - right. destruct (effect_durable w x) as [ext Ed]. rewrite Ed. pose proof (pruned_upto_mono (w_durable w) ext). lia.
Qed.
Lemma accp_append : forall w e, accp (wal_append e w) e.
Proof.
  intros w e. unfold wal_append. destruct (entry_height e <=? pruned_upto (w_durable w)) eqn:El.
  - right. lia.
  - left. cbn [w_durable w_pending]. rewrite app_assoc. apply in_or_app. right. left. reflexivity.
Qed.

Lemma seen_acc : forall l w pend dirty,
  (forall e, In e pend -> accp w e) -> (dirty = false -> w_pending w = []) ->
  clean_when_visible dirty l = true ->
  forall e, In e (seen_appends l pend) -> acc (apply_effects w l) e.
Proof.
  induction l as [|x l IH]; intros w pend dirty Hp Hd C e Hin; [contradiction|].
  cbn [apply_effects fold_left]. fold (apply_effects (apply_effect w x) l).
  assert (Vis : is_visible x = true -> apply_effect w x = w ->
                clean_when_visible dirty (x :: l) = negb dirty && clean_when_visible dirty l ->
                In e (pend ++ seen_appends l []) -> acc (apply_effects w l) e).
  { intros _ _ Ec Hi. rewrite Ec in C. apply andb_prop in C. destruct C as [C1 C2]. apply negb_true_iff in C1.
    apply in_app_or in Hi. destruct Hi as [Hi|Hi].
    - apply acc_steps. destruct (Hp e Hi) as [A|A]; [left|right; exact A]. rewrite (Hd C1), app_nil_r in A. exact A.
    - apply (IH w [] dirty); [intros e' []|exact Hd|exact C2|exact Hi]. }
  destruct x; cbn [seen_appends clean_when_visible] in *.
  - (* Append *)
    apply (IH (wal_append e0 w) (pend ++ [e0]) true); [|discriminate|exact C|exact Hin].
    intros e' He'. apply in_app_or in He'. destruct He' as [He'|[<-|[]]]; [apply (accp_step w e' (Append e0)); auto|apply accp_append].
  - (* Flush *)
    apply (IH (wal_flush w) pend false); [|reflexivity|exact C|exact Hin].
    intros e' He'. apply (accp_step w e' Flush). auto.
  - (* Bcast *) apply Vis; auto.
  - (* Sched *) apply (IH w pend dirty); auto.
  - (* CommitCb *) apply Vis; auto.
  - (* Prune *)
    apply (IH (wal_prune h w) pend true); [|discriminate|exact C|exact Hin].
    intros e' He'. apply (accp_step w e' (Prune h)). auto.
Qed.

Lemma entry_eqb_refl : forall e, entry_eqb e e = true.
Proof.
  destruct e; simpl; rewrite ?N.eqb_refl, ?Z.eqb_refl; try reflexivity.
  - apply proposal_eqb_spec. reflexivity.
  - destruct (v_id v); simpl; rewrite ?N.eqb_refl; reflexivity.
  - destruct (v_id v); simpl; rewrite ?N.eqb_refl; reflexivity.
  - destruct k; reflexivity.
Qed.

Lemma sort_In_iff : forall l x, In x (sort_h l) <-> In x l.
Proof. exact sort_In. Qed.

Lemma log_covers_mono : forall lo lo' effs L, lo <= lo' -> log_covers_visible lo effs L = true -> log_covers_visible lo' effs L = true.
Proof.
  intros lo lo' effs L Hle H. unfold log_covers_visible in *. rewrite forallb_forall in *. intros e He.
  specialize (H e He). apply orb_prop in H. apply orb_true_intro. destruct H as [H|H]; [left; lia|right; exact H].
Qed.

(* C13_durable_log_covers_visible: ANY life, ANY number k of performed effects, killed or returned through Close *)
Lemma end_disk_covers : forall E h D n ins fl k,
  let effs := flat (snd (lifetime E h D n ins)) in
  log_covers_visible (pruned_upto (end_disk fl k effs D)) (firstn k effs) (load (end_disk fl k effs D)) = true.
Proof.
  intros E h D n ins fl k effs. unfold log_covers_visible. apply forallb_forall. intros e He.
  pose proof (clean_firstn effs false k (lifetime_clean E h D n ins)) as C.
  pose proof (seen_acc (firstn k effs) (mkWal D []) [] false (fun e' (F : In e' []) => match F with end) (fun _ => eq_refl) C e He) as A.
  fold (wal_at D effs k) in A.
  assert (A' : In (REntry e) (end_disk fl k effs D) \/ entry_height e <= pruned_upto (end_disk fl k effs D)).
  { unfold end_disk, stop_disk, crash_at. fold (wal_at D effs k). destruct fl; [|exact A].
    apply (acc_step _ e Flush) in A. exact A. }
  apply orb_true_intro. destruct A' as [A'|A']; [|left; lia].
  destruct (index_of_in _ e A') as [X|X]; [right|left; lia].
  apply existsb_exists. exists e. split; [|apply entry_eqb_refl]. unfold load. apply sort_In_iff. exact X.
Qed.

(* ---------- whatever the fault script: the life performed a prefix of the fault-free life's effects ---------- *)
Definition is_prefix {A} (p l : list A) : Prop := exists rest, l = p ++ rest.
Lemma prefix_firstn : forall {A} (p l : list A), is_prefix p l -> p = firstn (length p) l.
Proof. intros A p l [rest ->]. rewrite firstn_app, firstn_all, Nat.sub_diag. simpl. symmetry. apply app_nil_r. Qed.
Lemma prefix_cons_step : forall (l : label) es p tr, is_prefix p (flat tr) -> is_prefix (es ++ p) (flat ((l, es) :: tr)).
Proof. intros l es p tr [rest E]. exists rest. rewrite flat_cons, E, app_assoc. reflexivity. Qed.
Lemma prefix_part_step : forall (l : label) es es' tr, is_prefix es' es -> is_prefix es' (flat ((l, es) :: tr)).
Proof. intros l es es' tr [rest ->]. exists (rest ++ flat tr). rewrite flat_cons, app_assoc. reflexivity. Qed.
Lemma firstn_prefix : forall {A} k (l : list A), is_prefix (firstn k l) l.
Proof. intros. exists (skipn k l). symmetry. apply firstn_skipn. Qed.

Lemma take_until_cb_prefix : forall es, is_prefix (fst (take_until_cb es)) es.
Proof.
  induction es as [|e es IH]; [exists []; reflexivity|].
  destruct IH as [rest E]. destruct e; cbn [take_until_cb];
    try (destruct (take_until_cb es) as [l o]; cbn [fst] in *; exists rest; rewrite E at 1; reflexivity).
  exists (CommitCb h v :: es). reflexivity.
Qed.

Lemma cancel_steps_prefix : forall tr k c, is_prefix (flat (fst (cancel_steps tr k c))) (flat tr).
Proof.
  induction tr as [|[l es] tr IH]; intros k c; cbn [cancel_steps]; [exists []; reflexivity|].
  destruct c.
  - destruct l.
    + exists (es ++ flat tr). reflexivity.
    + pose proof (take_until_cb_prefix es) as P. destruct (take_until_cb es) as [pre o]. cbn [fst] in P. destruct o.
      * cbn [fst]. rewrite flat_cons. cbn [flat flat_map]. rewrite app_nil_r. apply prefix_part_step. exact P.
      * specialize (IH k true). destruct (cancel_steps tr k true) as [more o']. cbn [fst] in *.
        rewrite flat_cons. apply prefix_cons_step. exact IH.
  - destruct (Nat.ltb k (length es)).
    + pose proof (take_until_cb_prefix (skipn k es)) as [rest P]. destruct (take_until_cb (skipn k es)) as [pre o]. cbn [fst] in P.
      assert (Q : is_prefix (firstn k es ++ pre) es).
      { exists rest. rewrite <- app_assoc, <- P. symmetry. apply firstn_skipn. }
      destruct o.
      * cbn [fst]. rewrite flat_cons. cbn [flat flat_map]. rewrite app_nil_r. apply prefix_part_step. exact Q.
      * destruct l.
        -- cbn [fst]. rewrite flat_cons. cbn [flat flat_map]. rewrite app_nil_r. apply prefix_part_step. exists []. symmetry. apply app_nil_r.
        -- specialize (IH 0%nat true). destruct (cancel_steps tr 0 true) as [more o']. cbn [fst] in *.
           rewrite flat_cons. apply prefix_cons_step. exact IH.
    + specialize (IH (k - length es)%nat false). destruct (cancel_steps tr (k - length es) false) as [more o']. cbn [fst] in *.
      rewrite flat_cons. apply prefix_cons_step. exact IH.
Qed.

Lemma fail_steps_prefix : forall tr k x, is_prefix (flat (fail_steps tr k x)) (flat tr).
Proof.
  induction tr as [|[l es] tr IH]; intros k x; cbn [fail_steps]; [exists []; reflexivity|].
  destruct (Nat.ltb k (length es)).
  - rewrite flat_cons. cbn [flat flat_map]. rewrite app_nil_r. apply prefix_part_step. apply firstn_prefix.
  - rewrite flat_cons. apply prefix_cons_step. apply IH.
Qed.
Lemma cut_steps_prefix : forall tr k, is_prefix (flat (cut_steps tr k)) (flat tr).
Proof.
  induction tr as [|[l es] tr IH]; intros k; cbn [cut_steps]; [exists []; reflexivity|].
  destruct (Nat.leb (length es) k).
  - rewrite flat_cons. apply prefix_cons_step. apply IH.
  - rewrite flat_cons. cbn [flat flat_map]. rewrite app_nil_r. apply prefix_part_step. apply firstn_prefix.
Qed.

Lemma fault_outcome_prefix : forall tr f,
  flat (o_steps (fault_outcome tr f)) = firstn (length (flat (o_steps (fault_outcome tr f)))) (flat tr).
Proof.
  intros tr f. apply prefix_firstn. destruct f as [|k|k p c|k c]; cbn [fault_outcome].
  - exists []. symmetry. apply app_nil_r.
  - apply cut_steps_prefix.
  - destruct (first_fallible (flat tr) k 0) as [[k' x]|]; cbn [o_steps]; [apply fail_steps_prefix|exists []; symmetry; apply app_nil_r].
  - pose proof (cancel_steps_prefix tr k false) as P. destruct (cancel_steps tr k false) as [st o]. exact P.
Qed.
