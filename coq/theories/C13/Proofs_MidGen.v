(* C13 — lemmas, part 14a: the induction over the prefixes of execute's effects, for a generic predicate on
   prefixes that only depends on what is on disk and on the resume height. *)
From Coq Require Import List NArith ZArith Bool Lia ZifyN ZifyBool.
From V Require Import C12.Model C12.Proofs C13.Model C13.Proofs C13.Proofs_Votes C13.Proofs_Commit
  C13.Proofs_Life C13.Proofs_Resume C13.Proofs_Replay C13.Proofs_Obs C13.Proofs_ObsStep C13.Proofs_Cells
  C13.Proofs_Shape C13.Proofs_Wal C13.Proofs_Crash.
Import ListNotations.
Open Scope N_scope.

Lemma avi : forall a l, all_vis (a :: l) -> quiet_act a = false /\ all_vis l.
Proof. exact (all_vis_inv 1 (N.le_refl 1)). Qed.

Section MidGen.
  Variable h0 : N.
  Variable D0 : list wrec.
  Variable Hs : N.
  Variable D1 : list wrec.
  Variable rest0 : list action.
  Variable Good : list effect -> Prop.
  Hypothesis HsPos : 0 < Hs.
  Hypothesis G_ext : forall pre pre', disk D0 pre' = disk D0 pre ->
    resume_height h0 pre' = resume_height h0 pre -> Good pre -> Good pre'.
  Hypothesis G_flushed : forall pre, disk D0 pre = D1 -> resume_height h0 pre = Hs -> Good pre.
  Hypothesis G_committed : forall pre, (exists p, In (ACommit p) rest0) ->
    (disk D0 pre = D1 \/ disk D0 pre = D1 ++ [RPrune Hs]) -> resume_height h0 pre = Hs + 1 -> Good pre.
  Hypothesis CH : forall p, In (ACommit p) rest0 -> p_h p = Hs.
  Hypothesis PB : prunes_below Hs D1.

  Record MidG (wm : wal) (pre : list effect) : Prop := mkMidG {
    g_good : Good pre;
    g_wal : wm = apply_effects (mkWal D0 []) pre;
    g_res : resume_height h0 pre = Hs;
    g_recs : w_durable wm ++ w_pending wm = D1;
    g_np : no_prune (w_pending wm)
  }.

  Lemma disk_app : forall wm pre l, wm = apply_effects (mkWal D0 []) pre -> disk D0 (pre ++ l) = w_durable (apply_effects wm l).
  Proof. intros wm pre l H. unfold disk. rewrite apply_effects_app, <- H. reflexivity. Qed.

  Lemma exec_mid_gen : forall rest wm pre, all_vis rest -> col rest = true ->
    (forall a, In a rest -> In a rest0) -> MidG wm pre ->
    forall j, Good (pre ++ firstn j (snd (fst (exec false wm rest)))).
  Proof.
    induction rest as [|a rest IH]; intros wm pre AV C Inc M j.
    - cbn [exec fst snd]. rewrite firstn_nil, app_nil_r. apply (g_good _ _ M).
    - destruct (avi _ _ AV) as [Qa AV'].
      assert (Crest : col rest = true) by (eapply col_tail; exact C).
      assert (Inc' : forall b, In b rest -> In b rest0) by (intros b Hb; apply Inc; right; exact Hb).
      assert (Ina : In a rest0) by (apply Inc; left; reflexivity).
      destruct M as [Mg Mw Mr Mrec Mnp].
      assert (Fw : wal_flush wm = mkWal D1 []) by (unfold wal_flush; rewrite Mrec; reflexivity).
      assert (GF : forall l, commits_in l = [] -> w_durable (apply_effects wm l) = D1 -> Good (pre ++ l)).
      { intros l Hc Hd. apply G_flushed; [rewrite (disk_app wm pre l Mw); exact Hd|].
        rewrite resume_height_app, Mr. unfold resume_height. rewrite Hc. reflexivity. }
      assert (MF : forall l, commits_in l = [] -> apply_effects wm l = mkWal D1 [] -> MidG (mkWal D1 []) (pre ++ l)).
      { intros l Hc Hw. constructor.
        - apply GF; [exact Hc|rewrite Hw; reflexivity].
        - rewrite apply_effects_app, <- Mw. symmetry. exact Hw.
        - rewrite resume_height_app, Mr. unfold resume_height. rewrite Hc. reflexivity.
        - cbn [w_durable w_pending]. apply app_nil_r.
        - constructor. }
      assert (Bc : forall m, apply_effects wm [Flush; Bcast m] = mkWal D1 []).
      { intro m. cbn [apply_effects fold_left apply_effect]. exact Fw. }
      assert (Hbc : forall m more, Good (pre ++ firstn j ([Flush] ++ [Bcast m] ++ more)) \/
                 (2 < j)%nat).
      { intros m more. destruct j as [|[|[|j']]]; [left|left|left|right; lia]; cbn [firstn app].
        - rewrite app_nil_r. exact Mg.
        - apply GF; [reflexivity|]. cbn [apply_effects fold_left apply_effect]. rewrite Fw. reflexivity.
        - apply GF; [reflexivity|]. rewrite Bc. reflexivity. }
      destruct a; try discriminate.
      + cbn [exec pre_flush requires_flush negb andb exec_one]. rewrite Fw.
        pose proof (IH (mkWal D1 []) (pre ++ [Flush; Bcast (MProposal p)]) AV' Crest Inc' (MF [Flush; Bcast (MProposal p)] eq_refl (Bc _))) as I1.
        destruct (exec false (mkWal D1 []) rest) as [[wf more] com]. cbn [fst snd] in *.
        destruct (Hbc (MProposal p) more) as [X|X]; [exact X|].
        change ([Flush] ++ [Bcast (MProposal p)] ++ more) with ([Flush; Bcast (MProposal p)] ++ more).
        rewrite firstn_app_ge by (simpl; lia). rewrite app_assoc. apply I1.
      + cbn [exec pre_flush requires_flush negb andb exec_one]. rewrite Fw.
        pose proof (IH (mkWal D1 []) (pre ++ [Flush; Bcast (MPrevote v)]) AV' Crest Inc' (MF [Flush; Bcast (MPrevote v)] eq_refl (Bc _))) as I1.
        destruct (exec false (mkWal D1 []) rest) as [[wf more] com]. cbn [fst snd] in *.
        destruct (Hbc (MPrevote v) more) as [X|X]; [exact X|].
        change ([Flush] ++ [Bcast (MPrevote v)] ++ more) with ([Flush; Bcast (MPrevote v)] ++ more).
        rewrite firstn_app_ge by (simpl; lia). rewrite app_assoc. apply I1.
      + cbn [exec pre_flush requires_flush negb andb exec_one]. rewrite Fw.
        pose proof (IH (mkWal D1 []) (pre ++ [Flush; Bcast (MPrecommit v)]) AV' Crest Inc' (MF [Flush; Bcast (MPrecommit v)] eq_refl (Bc _))) as I1.
        destruct (exec false (mkWal D1 []) rest) as [[wf more] com]. cbn [fst snd] in *.
        destruct (Hbc (MPrecommit v) more) as [X|X]; [exact X|].
        change ([Flush] ++ [Bcast (MPrecommit v)] ++ more) with ([Flush; Bcast (MPrecommit v)] ++ more).
        rewrite firstn_app_ge by (simpl; lia). rewrite app_assoc. apply I1.
      + cbn [exec pre_flush requires_flush negb andb exec_one].
        assert (M' : MidG wm (pre ++ [Sched k h r])).
        { constructor.
          - apply (G_ext pre); [rewrite (disk_app wm pre _ Mw); unfold disk; rewrite <- Mw; reflexivity|
                                rewrite resume_height_app; reflexivity|exact Mg].
          - rewrite apply_effects_app, <- Mw. reflexivity.
          - rewrite resume_height_app. exact Mr.
          - exact Mrec.
          - exact Mnp. }
        pose proof (IH wm _ AV' Crest Inc' M') as I1.
        destruct (exec false wm rest) as [[wf more] com]. cbn [fst snd app] in *.
        destruct j as [|j']; cbn [firstn]; [rewrite app_nil_r; exact Mg|].
        change (pre ++ Sched k h r :: firstn j' more) with (pre ++ [Sched k h r] ++ firstn j' more).
        rewrite app_assoc. apply I1.
      + assert (Hp : p_h p = Hs) by (apply CH; exact Ina).
        assert (Ex : exists q, In (ACommit q) rest0) by (exists p; exact Ina).
        cbn [exec pre_flush requires_flush negb andb]. rewrite Fw, Hp.
        assert (Pr : pruned_upto D1 < Hs) by (apply pruned_below; assumption).
        assert (Wp : wal_prune Hs (mkWal D1 []) = mkWal D1 [RPrune Hs]).
        { unfold wal_prune. cbn [w_durable w_pending bump_prune]. destruct (Hs <=? pruned_upto D1) eqn:E1; [lia|reflexivity]. }
        rewrite Wp. cbn [fst snd wal_flush w_durable w_pending app].
        assert (R2 : forall l, commits_in l = [Hs] -> resume_height h0 (pre ++ l) = Hs + 1).
        { intros l Hl. rewrite resume_height_app, Mr. unfold resume_height. rewrite Hl. reflexivity. }
        destruct j as [|[|[|[|j']]]]; cbn [firstn].
        * rewrite app_nil_r. exact Mg.
        * apply GF; [reflexivity|]. cbn [apply_effects fold_left apply_effect]. rewrite Fw. reflexivity.
        * apply G_committed; [exact Ex| |apply R2; reflexivity]. left.
          rewrite (disk_app wm pre _ Mw). cbn [apply_effects fold_left apply_effect]. rewrite Fw. reflexivity.
        * apply G_committed; [exact Ex| |apply R2; reflexivity]. left.
          rewrite (disk_app wm pre _ Mw). cbn [apply_effects fold_left apply_effect]. rewrite Fw, Wp. reflexivity.
        * rewrite firstn_nil. apply G_committed; [exact Ex| |apply R2; reflexivity]. right.
          rewrite (disk_app wm pre _ Mw). cbn [apply_effects fold_left apply_effect]. rewrite Fw, Wp. reflexivity.
  Qed.
End MidGen.

Lemma has_commit_in : forall acts, has_commit acts = true -> exists p, In (ACommit p) acts.
Proof.
  intros acts H. unfold has_commit in H. apply existsb_exists in H. destruct H as [a [Hin Ha]].
  destruct a; try discriminate. eauto.
Qed.
Lemma in_has_commit : forall acts p, In (ACommit p) acts -> has_commit acts = true.
Proof. intros acts p H. unfold has_commit. apply existsb_exists. exists (ACommit p). split; [exact H|reflexivity]. Qed.

