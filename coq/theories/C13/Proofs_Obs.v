(* C13 — lemmas, part 7: observational equivalence of Tendermint states (obs_eq) and the proof that
   C12.Model.step respects it.  Two vote counters are equivalent when they are at the same height and hold
   the same round data in every cell (height >= current, round): association-list order, empty entries
   created by rejected messages, and the split current-rounds / future-height buffer are not observable.
   Two states are equivalent when all consensus fields agree and the counters are equivalent; the sync
   bookkeeping (lastTriggerSync, lastQuorum) is not part of it. *)
From Coq Require Import List NArith ZArith Bool Lia ZifyN ZifyBool.
From V Require Import C12.Model.
Import ListNotations.
Open Scope N_scope.

(* ---------- association lists ---------- *)
Lemma aget_aset_N : forall {V} (l : list (N * V)) k v k',
  aget N.eqb (aset N.eqb l k v) k' = if k' =? k then Some v else aget N.eqb l k'.
Proof.
  induction l as [|[k0 v0] l IH]; intros k v k'; simpl.
  - reflexivity.
  - destruct (k =? k0) eqn:E; simpl.
    + apply N.eqb_eq in E. subst k0. destruct (k' =? k); reflexivity.
    + rewrite IH. destruct (k' =? k0) eqn:E2; [|reflexivity].
      apply N.eqb_eq in E2. subst k0. destruct (k' =? k) eqn:E3; [|reflexivity].
      apply N.eqb_eq in E3. subst. rewrite N.eqb_refl in E. discriminate.
Qed.
Lemma aget_aset_Z : forall {V} (l : list (Z * V)) k v k',
  aget Z.eqb (aset Z.eqb l k v) k' = if (k' =? k)%Z then Some v else aget Z.eqb l k'.
Proof.
  induction l as [|[k0 v0] l IH]; intros k v k'; simpl.
  - reflexivity.
  - destruct (k =? k0)%Z eqn:E; simpl.
    + apply Z.eqb_eq in E. subst k0. destruct (k' =? k)%Z; reflexivity.
    + rewrite IH. destruct (k' =? k0)%Z eqn:E2; [|reflexivity].
      apply Z.eqb_eq in E2. subst k0. destruct (k' =? k)%Z eqn:E3; [|reflexivity].
      apply Z.eqb_eq in E3. subst. rewrite Z.eqb_refl in E. discriminate.
Qed.
Lemma aget_adel_N : forall {V} (l : list (N * V)) k k',
  aget N.eqb (adel N.eqb l k) k' = if k' =? k then None else aget N.eqb l k'.
Proof.
  induction l as [|[k0 v0] l IH]; intros k k'; simpl.
  - destruct (k' =? k); reflexivity.
  - destruct (k =? k0) eqn:E; simpl.
    + apply N.eqb_eq in E. subst k0. rewrite IH. destruct (k' =? k); reflexivity.
    + rewrite IH. destruct (k' =? k0) eqn:E2; [|reflexivity].
      apply N.eqb_eq in E2. subst k0. destruct (k' =? k) eqn:E3; [|reflexivity].
      apply N.eqb_eq in E3. subst. rewrite N.eqb_refl in E. discriminate.
Qed.

Lemma rm_get_aset : forall m r x r', rm_get (aset Z.eqb m r x) r' = if (r' =? r)%Z then x else rm_get m r'.
Proof. intros. unfold rm_get. rewrite aget_aset_Z. destruct (r' =? r)%Z; reflexivity. Qed.

(* ---------- cells ---------- *)
Definition fut (vc : vcounter) (h : N) : rmap :=
  match aget N.eqb (vc_future vc) h with Some m => m | None => [] end.
Definition row (vc : vcounter) (h : N) : rmap := if h =? vc_h vc then vc_rounds vc else fut vc h.
Definition cell (vc : vcounter) (h : N) (r : Z) : rdata := rm_get (row vc h) r.

Definition vc_eq (a b : vcounter) : Prop :=
  vc_h a = vc_h b /\ forall h r, vc_h a <= h -> cell a h r = cell b h r.

Lemma vc_eq_refl : forall a, vc_eq a a.
Proof. split; auto. Qed.
Lemma vc_eq_sym : forall a b, vc_eq a b -> vc_eq b a.
Proof. intros a b [H1 H2]. split; [auto|]. intros h r Hh. symmetry. apply H2. lia. Qed.
Lemma vc_eq_trans : forall a b c, vc_eq a b -> vc_eq b c -> vc_eq a c.
Proof. intros a b c [H1 H2] [H3 H4]. split; [congruence|]. intros h r Hh. rewrite H2, H4; auto. lia. Qed.

(* ---------- writes ---------- *)
Lemma vc_with_spec : forall vc h r f, vc_h vc <= h ->
  vc_h (fst (vc_with vc h r f)) = vc_h vc /\
  snd (vc_with vc h r f) = snd (f (cell vc h r)) /\
  forall h' r', vc_h vc <= h' ->
    cell (fst (vc_with vc h r f)) h' r' = if (h' =? h) && (r' =? r)%Z then fst (f (cell vc h r)) else cell vc h' r'.
Proof.
  intros vc h r f Hh. unfold vc_with. destruct (h <? vc_h vc) eqn:E1; [lia|].
  destruct (h =? vc_h vc) eqn:E2.
  - apply N.eqb_eq in E2. subst h.
    assert (C : cell vc (vc_h vc) r = rm_get (vc_rounds vc) r) by (unfold cell, row; rewrite N.eqb_refl; reflexivity).
    rewrite C.
    destruct (f (rm_get (vc_rounds vc) r)) as [rd' ok] eqn:Ef. simpl. repeat split.
    intros h' r' Hh'. unfold cell, row, fut. simpl.
    destruct (h' =? vc_h vc) eqn:E3; simpl; [apply rm_get_aset|reflexivity].
  - assert (C : cell vc h r = rm_get (fut vc h) r) by (unfold cell, row; rewrite E2; reflexivity).
    rewrite C. unfold fut at 1 2.
    destruct (f (rm_get match aget N.eqb (vc_future vc) h with Some m => m | None => [] end r)) as [rd' ok] eqn:Ef.
    simpl. repeat split. intros h' r' Hh'. unfold cell, row, fut. simpl.
    destruct (h' =? vc_h vc) eqn:E3.
    + apply N.eqb_eq in E3. subst h'. rewrite N.eqb_sym, E2. reflexivity.
    + rewrite aget_aset_N. destruct (h' =? h) eqn:E4; simpl; [|reflexivity].
      apply N.eqb_eq in E4. subst h'. apply rm_get_aset.
Qed.

Lemma vc_with_low : forall vc h r f, h < vc_h vc -> vc_with vc h r f = (vc, false).
Proof. intros. unfold vc_with. destruct (h <? vc_h vc) eqn:E; [reflexivity|lia]. Qed.

Lemma vc_with_eq : forall a b h r f, vc_eq a b ->
  vc_eq (fst (vc_with a h r f)) (fst (vc_with b h r f)) /\ snd (vc_with a h r f) = snd (vc_with b h r f).
Proof.
  intros a b h r f [H1 H2]. destruct (N.lt_ge_cases h (vc_h a)) as [L|G].
  - rewrite !vc_with_low by lia. split; [split; assumption|reflexivity].
  - destruct (vc_with_spec a h r f G) as [A1 [A2 A3]].
    destruct (vc_with_spec b h r f ltac:(lia)) as [B1 [B2 B3]].
    split; [split|].
    + congruence.
    + intros h' r' Hh'. rewrite A1 in Hh'. rewrite A3, B3 by lia. rewrite (H2 h r G), (H2 h' r' Hh'). reflexivity.
    + rewrite A2, B2, (H2 h r G). reflexivity.
Qed.

Lemma vc_add_proposal_eq : forall c a b p, vc_eq a b ->
  vc_eq (fst (vc_add_proposal c a p)) (fst (vc_add_proposal c b p)) /\
  snd (vc_add_proposal c a p) = snd (vc_add_proposal c b p).
Proof. intros. unfold vc_add_proposal. apply vc_with_eq. assumption. Qed.
Lemma vc_add_vote_eq : forall c a b k v, vc_eq a b ->
  vc_eq (fst (vc_add_vote c a k v)) (fst (vc_add_vote c b k v)) /\
  snd (vc_add_vote c a k v) = snd (vc_add_vote c b k v).
Proof. intros. unfold vc_add_vote. apply vc_with_eq. assumption. Qed.

Lemma vc_start_new_height_eq : forall a b, vc_eq a b -> vc_eq (vc_start_new_height a) (vc_start_new_height b).
Proof.
  intros a b [H1 H2]. unfold vc_start_new_height. split; simpl; [congruence|].
  intros h r Hh.
  assert (X : forall v, vc_h v + 1 <= h ->
     cell (mkVC (vc_h v + 1) (fut v (vc_h v + 1)) (adel N.eqb (vc_future v) (vc_h v + 1))) h r = cell v h r).
  { intros v Hv. unfold cell, row, fut. simpl. destruct (h =? vc_h v) eqn:E0; [lia|].
    destruct (h =? vc_h v + 1) eqn:E.
    - apply N.eqb_eq in E. subst h. reflexivity.
    - rewrite aget_adel_N, E. reflexivity. }
  unfold fut in X. rewrite (X a Hh), (X b ltac:(lia)). apply H2. lia.
Qed.
