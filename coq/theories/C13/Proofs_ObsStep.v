(* C13 — lemmas, part 8: one call of the state machine respects obs_eq: equivalent states go to equivalent
   states and return the same actions up to the ones that are invisible in replay (log writes, TriggerSync). *)
From Coq Require Import List NArith ZArith Bool Lia ZifyN ZifyBool.
From V Require Import C12.Model C13.Model C13.Proofs_Obs.
Import ListNotations.
Open Scope N_scope.

Definition quiet_act (a : action) : bool :=
  match a with
  | AWalStart _ | AWalProposal _ | AWalPrevote _ | AWalPrecommit _ | AWalTimeout _ _ _ | ATriggerSync _ _ => true
  | _ => false
  end.
Definition vis (l : list action) : list action := filter (fun a => negb (quiet_act a)) l.

Lemma vis_app : forall a b, vis (a ++ b) = vis a ++ vis b.
Proof. intros. unfold vis. apply filter_app. Qed.

Section StepObs.
  Variable c : cfg.
  Hypothesis Qpos : forall h, 0 < q_of (c_total c h).

  Lemma trigger_sync_obs : forall s h, obs_eq s (fst (trigger_sync s h)).
  Proof. intros. unfold trigger_sync. simpl. split; [reflexivity|apply vc_eq_refl]. Qed.

  Lemma step_x_obs : forall s s' i, obs_eq s s' ->
    obs_eq (fst (fst (step_x c s i))) (fst (fst (step_x c s' i))) /\
    vis (snd (fst (step_x c s i))) = vis (snd (fst (step_x c s' i))).
  Proof.
    intros s s' i H. destruct (scal_fields s s' H) as [Eh [_ [_ [_ [_ [Est _]]]]]].
    destruct i as [r|p|v|v|k h r]; unfold step_x.
    - rewrite Est. destruct (s_started s); [simpl; auto|].
      assert (H1 : obs_eq (set_started s true) (set_started s' true)).
      { clear Eh Est. norm_obs H. split; [reflexivity|exact Hv]. }
      destruct (start_round_obs c _ _ r H1) as [A B].
      destruct (start_round c (set_started s true) r) as [s1 a], (start_round c (set_started s' true) r) as [s1' a'].
      simpl in A, B. subst a'.
      destruct (loop_obs c Qpos FUEL s1 s1' None A) as [A2 [B2 _]].
      destruct (loop c FUEL s1 None) as [[s2 acts] ex], (loop c FUEL s1' None) as [[s2' acts'] ex'].
      simpl in *. subst acts'. split; [exact A2|]. reflexivity.
    - destruct H as [Hs Hv]. destruct (vc_add_proposal_eq c _ _ p Hv) as [V1 V2].
      destruct (vc_add_proposal c (s_vc s) p) as [vc ok], (vc_add_proposal c (s_vc s') p) as [vc' ok']. simpl in V1, V2. subst ok'.
      assert (H1 : obs_eq (set_vc s vc) (set_vc s' vc')) by (apply set_vc_obs; [split; assumption|exact V1]).
      assert (Es : s_started (set_vc s' vc') = s_started (set_vc s vc)) by (simpl; exact Est). rewrite Es.
      destruct (negb ok || negb (s_started (set_vc s vc))); [simpl; auto|].
      destruct (process_message_obs c Qpos _ _ (AWalProposal p) (p_h p) (p_r p) H1) as [A B].
      destruct (process_message c (set_vc s vc) _ _ _) as [[x1 x2] x3], (process_message c (set_vc s' vc') _ _ _) as [[y1 y2] y3].
      simpl in *. subst. auto.
    - destruct H as [Hs Hv]. destruct (vc_add_vote_eq c _ _ Prevote v Hv) as [V1 V2].
      destruct (vc_add_vote c (s_vc s) Prevote v) as [vc ok], (vc_add_vote c (s_vc s') Prevote v) as [vc' ok']. simpl in V1, V2. subst ok'.
      assert (H1 : obs_eq (set_vc s vc) (set_vc s' vc')) by (apply set_vc_obs; [split; assumption|exact V1]).
      assert (Es : s_started (set_vc s' vc') = s_started (set_vc s vc)) by (simpl; exact Est). rewrite Es.
      destruct (negb ok || negb (s_started (set_vc s vc))); [simpl; auto|].
      destruct (process_message_obs c Qpos _ _ (AWalPrevote v) (v_h v) (v_r v) H1) as [A B].
      destruct (process_message c (set_vc s vc) _ _ _) as [[x1 x2] x3], (process_message c (set_vc s' vc') _ _ _) as [[y1 y2] y3].
      simpl in *. subst. auto.
    - destruct H as [Hs Hv]. destruct (vc_add_vote_eq c _ _ Precommit v Hv) as [V1 V2].
      destruct (vc_add_vote c (s_vc s) Precommit v) as [vc ok], (vc_add_vote c (s_vc s') Precommit v) as [vc' ok']. simpl in V1, V2. subst ok'.
      assert (H1 : obs_eq (set_vc s vc) (set_vc s' vc')) by (apply set_vc_obs; [split; assumption|exact V1]).
      assert (Es : s_started (set_vc s' vc') = s_started (set_vc s vc)) by (simpl; exact Est). rewrite Es.
      destruct (negb ok || negb (s_started (set_vc s vc))); [simpl; auto|].
      set (s1 := set_vc s vc) in *. set (s1' := set_vc s' vc') in *.
      assert (Eh1 : s_h s1' = s_h s1) by (simpl; exact Eh).
      assert (PM : forall t, (s_h t <? v_h v) = true ->
                 process_message c t (AWalPrecommit v) (v_h v) (v_r v) = (t, [AWalPrecommit v], false)).
      { intros t Ht. unfold process_message. destruct (v_h v =? s_h t) eqn:E; [lia|]. reflexivity. }
      destruct (v_id v) as [id|].
      + assert (FQ : vc_has_future_precommit_quorum c (s_vc s1') (v_h v) (v_r v) id =
                     vc_has_future_precommit_quorum c (s_vc s1) (v_h v) (v_r v) id)
          by (apply future_quorum_eq; [exact Qpos|apply vc_eq_sym; exact V1]).
        rewrite Eh1, FQ. clear FQ.
        set (TS := fun t : state => let '(s2, acts) := trigger_sync t (v_h v) in (s2, acts, false)).
        assert (TS1 : forall t, obs_eq t (fst (fst (TS t)))) by (intro t; apply (trigger_sync_obs t (v_h v))).
        assert (TS2 : forall t, vis (snd (fst (TS t))) = []) by (intro t; reflexivity).
        fold (TS s1). fold (TS s1').
        set (q := vc_has_future_precommit_quorum c (s_vc s1) (v_h v) (v_r v) id).
        set (l1 := s_lts s1 <? v_h v). set (l2 := s_lts s1' <? v_h v).
        destruct (s_h s1 <? v_h v) eqn:EH.
        * assert (P1 := PM s1 EH). assert (P2 := PM s1' ltac:(rewrite Eh1; exact EH)).
          destruct q, l1, l2; cbn [andb]; rewrite ?P1, ?P2, ?TS2; cbn [fst snd]; (split; [|reflexivity]).
          all: try exact H1.
        * cbn [andb].
          destruct (process_message_obs c Qpos _ _ (AWalPrecommit v) (v_h v) (v_r v) H1) as [A B].
          destruct (process_message c s1 _ _ _) as [[x1 x2] x3], (process_message c s1' _ _ _) as [[y1 y2] y3].
          simpl in *. subst. auto.
      + destruct (process_message_obs c Qpos _ _ (AWalPrecommit v) (v_h v) (v_r v) H1) as [A B].
        destruct (process_message c s1 _ _ _) as [[x1 x2] x3], (process_message c s1' _ _ _) as [[y1 y2] y3].
        simpl in *. subst. auto.
    - destruct (on_timeout_obs c s s' k h r H) as [A B].
      destruct (on_timeout c s k h r) as [s1 a0], (on_timeout c s' k h r) as [s1' a0']. simpl in A, B. subst a0'.
      destruct (loop_obs c Qpos FUEL s1 s1' None A) as [A2 [B2 _]].
      destruct (loop c FUEL s1 None) as [[s2 acts] ex], (loop c FUEL s1' None) as [[s2' acts'] ex'].
      simpl in *. subst. auto.
  Qed.
End StepObs.

(* ---------- C13's wrapper sm_step ---------- *)
Lemma set_nval_obs : forall s s' n, obs_eq s s' -> obs_eq (set_nval s n) (set_nval s' n).
Proof.
  intros s s' n H. pose proof (obs_eq_repl _ _ H) as E. destruct H as [_ Hv]. rewrite E.
  split; [reflexivity|exact Hv].
Qed.

Section SmStepObs.
  Variable E : env.
  Hypothesis Qpos : forall h, 0 < q_of (c_total (e_cfg E) h).

  Lemma sm_step_obs : forall s s' n i, obs_eq s s' ->
    obs_eq (fst (fst (sm_step E s n i))) (fst (fst (sm_step E s' n i))) /\
    snd (fst (sm_step E s n i)) = snd (fst (sm_step E s' n i)) /\
    vis (snd (sm_step E s n i)) = vis (snd (sm_step E s' n i)).
  Proof.
    intros s s' n i H. unfold sm_step.
    assert (Eh : s_h s' = s_h s) by (destruct H as [H _]; unfold scal in H; inversion H; auto).
    rewrite Eh. set (c := cfg_at E (s_h s) (in_round i) n).
    pose proof (step_x_obs c Qpos (set_nval s 0) (set_nval s' 0) i (set_nval_obs _ _ 0 H)) as [A B].
    unfold step. destruct (step_x c (set_nval s 0) i) as [[s1 a1] e1], (step_x c (set_nval s' 0) i) as [[s2 a2] e2].
    cbn [fst snd] in *. split; [apply set_nval_obs; exact A|]. split; [|exact B].
    destruct A as [A _]. unfold scal in A. inversion A. reflexivity.
  Qed.
End SmStepObs.
