(* C13 — lemmas, part 21: the per-run clause of good_run about rejected messages is discharged.
   C12/Proofs_WalReplay.v proves, for every vote counter a state machine can reach (vc_wf, kept by every
   call: step_wf), that a REJECTED proposal / vote leaves every cell untouched (vc_add_proposal_reject,
   vc_add_vote_reject).  Hence plain_* (Model.v, no rdata_eqb clause) implies good_*, along every life. *)
From Coq Require Import List NArith ZArith Bool Lia ZifyN ZifyBool.
From V Require Import C12.Model C12.Proofs C12.Proofs_Sim C12.Proofs_SimB C12.Proofs_WalReplay C13.Model C13.Proofs C13.Proofs_Replay.
Import ListNotations.
Open Scope N_scope.

Lemma list_eqb_refl : forall {A} (eqb : A -> A -> bool), (forall x, eqb x x = true) -> forall l, list_eqb eqb l l = true.
Proof. intros A eqb H. induction l as [|x l IH]; simpl; [reflexivity|]. rewrite H, IH. reflexivity. Qed.
Lemma bset_eqb_refl : forall b, bset_eqb b b = true.
Proof.
  intro b. unfold bset_eqb. rewrite !N.eqb_refl, list_eqb_refl; [reflexivity|].
  intros [a [x y]]. unfold ballot_eqb. simpl. rewrite N.eqb_refl, !Bool.eqb_reflx. reflexivity.
Qed.
Lemma rdata_eqb_refl : forall rd, rdata_eqb rd rd = true.
Proof.
  intro rd. unfold rdata_eqb. rewrite N.eqb_refl, !bset_eqb_refl.
  assert (P : oprop_eqb (r_prop rd) (r_prop rd) = true).
  { destruct (r_prop rd) as [p|]; [|reflexivity]. simpl. apply proposal_eqb_spec. reflexivity. }
  rewrite P, list_eqb_refl; [reflexivity|]. intros [i b]. simpl. rewrite N.eqb_refl, bset_eqb_refl. reflexivity.
Qed.

(* the rejected message's own cell *)
Lemma vc_with_reject_cell : forall vc h r f,
  (forall rd, rd_wf rd -> snd (f rd) = false -> fst (f rd) = rd) -> vc_wf vc ->
  snd (vc_with vc h r f) = false -> vcell (fst (vc_with vc h r f)) h r = vcell vc h r.
Proof.
  intros vc h r f Hf W Hs. destruct (N.lt_ge_cases h (vc_h vc)) as [L|G].
  - rewrite vc_with_low by assumption. reflexivity.
  - destruct (vc_with_reject vc h r f Hf W Hs) as [_ C]. symmetry. apply C. exact G.
Qed.
Lemma add_proposal_reject_cell : forall c vc p, vc_wf vc -> snd (vc_add_proposal c vc p) = false ->
  vcell (fst (vc_add_proposal c vc p)) (p_h p) (p_r p) = vcell vc (p_h p) (p_r p).
Proof.
  intros c vc p W. unfold vc_add_proposal. apply vc_with_reject_cell; [|exact W].
  intros rd _. destruct (negb (p_from p =? c_proposer c (p_h p) (p_r p))); [reflexivity|apply r_set_proposal_reject].
Qed.
Lemma add_vote_reject_cell : forall c vc k v, vc_wf vc -> snd (vc_add_vote c vc k v) = false ->
  vcell (fst (vc_add_vote c vc k v)) (v_h v) (v_r v) = vcell vc (v_h v) (v_r v).
Proof.
  intros c vc k v W. unfold vc_add_vote. apply vc_with_reject_cell; [|exact W].
  intros rd Wr. apply r_add_vote_reject. exact Wr.
Qed.

Lemma process_message_nonempty : forall c s w h r, snd (fst (process_message c s w h r)) <> [].
Proof.
  intros c s w h r. unfold process_message. destruct (negb (h =? s_h s)); [discriminate|].
  destruct (loop c FUEL s (Some r)) as [[s' acts] ex]. discriminate.
Qed.

(* a call that returns no action for a message, in a started state: the message was rejected by the counter,
   and its cell is what it was *)
Lemma rejected_cell : forall c s i h r, swf s -> s_started s = true -> msg_pos i = Some (h, r) ->
  snd (step c s i) = [] -> vc_cell (s_vc (fst (step c s i))) h r = vc_cell (s_vc s) h r.
Proof.
  intros c s i h r W St Hp. rewrite (step_step_x c s i).
  destruct i as [r0|p|v|v|k h0 r0]; try discriminate; cbn [msg_pos] in Hp; inversion Hp; subst; unfold step_x.
  - pose proof (add_proposal_reject_cell c (s_vc s) p W) as Rj.
    destruct (vc_add_proposal c (s_vc s) p) as [vc ok]. cbn [fst snd] in Rj. cbn [set_vc s_started]. rewrite St.
    destruct ok; cbn [negb orb].
    + intro H. exfalso. exact (process_message_nonempty _ _ _ _ _ H).
    + intros _. cbn [fst s_vc set_vc]. exact (Rj eq_refl).
  - pose proof (add_vote_reject_cell c (s_vc s) Prevote v W) as Rj.
    destruct (vc_add_vote c (s_vc s) Prevote v) as [vc ok]. cbn [fst snd] in Rj. cbn [set_vc s_started]. rewrite St.
    destruct ok; cbn [negb orb].
    + intro H. exfalso. exact (process_message_nonempty _ _ _ _ _ H).
    + intros _. cbn [fst s_vc set_vc]. exact (Rj eq_refl).
  - pose proof (add_vote_reject_cell c (s_vc s) Precommit v W) as Rj.
    destruct (vc_add_vote c (s_vc s) Precommit v) as [vc ok]. cbn [fst snd] in Rj. cbn [set_vc s_started]. rewrite St.
    destruct ok; cbn [negb orb].
    + match goal with |- context [if ?b then _ else _] => destruct b end.
      * unfold trigger_sync. cbn [fst snd]. discriminate.
      * intro H. exfalso. exact (process_message_nonempty _ _ _ _ _ H).
    + intros _. cbn [fst s_vc set_vc]. exact (Rj eq_refl).
Qed.

(* ---------- one call ---------- *)
Lemma swf_set_nval : forall s n, swf s -> swf (set_nval s n).
Proof. intros s n H. exact H. Qed.

Lemma sm_step_swf : forall E s n i, swf s -> swf (fst (fst (sm_step E s n i))).
Proof.
  intros E s n i W. unfold sm_step.
  pose proof (step_wf (cfg_at E (s_h s) (in_round i) n) (set_nval s 0) i W) as H.
  destruct (step (cfg_at E (s_h s) (in_round i) n) (set_nval s 0) i) as [s1 acts]. exact H.
Qed.

Lemma plain_good_step : forall E d i, swf (d_sm d) -> plain_step E d i = true -> good_step E d i = true.
Proof.
  intros E d i W P. unfold plain_step, plain_body, good_step, good_body in *.
  apply andb_prop in P. destruct P as [Hok P]. rewrite Hok. cbn [andb].
  destruct i as [r|p|v|v|k h r]; try exact P; cbn [msg_pos];
    apply andb_prop in P; destruct P as [St Tr]; rewrite St, Tr; cbn [andb];
    unfold sm_step in *;
    match goal with |- context [step ?c ?s0 ?i0] =>
      pose proof (rejected_cell c s0 i0 _ _ (swf_set_nval _ 0 W) St eq_refl) as Rj;
      destruct (step c s0 i0) as [s1 acts] end;
    cbn [fst snd] in *; destruct acts; try reflexivity;
    cbn [set_nval s_vc] in *; rewrite (Rj eq_refl); apply rdata_eqb_refl.
Qed.

Lemma dstep_swf : forall E r d i, swf (d_sm d) -> swf (d_sm (fst (fst (dstep E r d i)))).
Proof.
  intros E r d i W. rewrite dstep_spec. cbn [fst d_sm]. apply sm_step_swf. exact W.
Qed.

(* ---------- along a life ---------- *)
Lemma starts_swf : forall E fuel d, swf (d_sm d) -> swf (d_sm (fst (starts E fuel d))).
Proof.
  induction fuel as [|n IH]; intros d W; cbn [starts]; [exact W|].
  pose proof (dstep_swf E false d (IStart 0) W) as W1.
  destruct (dstep E false d (IStart 0)) as [[d1 eff] com]. cbn [fst] in W1. destruct com.
  - specialize (IH d1 W1). destruct (starts E n d1) as [d2 tr]. exact IH.
  - exact W1.
Qed.

Lemma starts_plain_good : forall E fuel d, swf (d_sm d) -> starts_plain E fuel d = true -> starts_good E fuel d = true.
Proof.
  induction fuel as [|n IH]; intros d W P; cbn [starts_plain starts_good] in *; [reflexivity|].
  apply andb_prop in P. destruct P as [P1 P2]. rewrite (plain_good_step E d (IStart 0) W P1). cbn [andb].
  pose proof (dstep_swf E false d (IStart 0) W) as W1.
  destruct (dstep E false d (IStart 0)) as [[d1 eff] com]. cbn [fst] in W1. destruct com; [apply IH; assumption|reflexivity].
Qed.

Lemma listen_plain_good : forall E ins d, swf (d_sm d) -> listen_plain E d ins = true -> listen_good E d ins = true.
Proof.
  induction ins as [|i rest IH]; intros d W P; cbn [listen_plain listen_good] in *; [reflexivity|].
  apply andb_prop in P. destruct P as [P1 P]. rewrite (plain_good_step E d i W P1). cbn [andb].
  pose proof (dstep_swf E false d i W) as W1.
  destruct (dstep E false d i) as [[d1 eff] com]. cbn [fst] in W1.
  apply andb_prop in P. destruct P as [P2 P3]. destruct com.
  - rewrite (starts_plain_good E SFUEL d1 W1 P2). cbn [andb]. apply IH; [apply starts_swf; exact W1|exact P3].
  - cbn [andb]. apply IH; assumption.
Qed.

Lemma replay_swf : forall E es d, swf (d_sm d) -> swf (d_sm (fst (replay E d es))).
Proof.
  induction es as [|e rest IH]; intros d W; cbn [replay]; [exact W|].
  destruct (entry_height e <? s_h (d_sm d)); [apply IH; exact W|].
  pose proof (dstep_swf E true d (input_of_entry e) W) as W1.
  destruct (dstep E true d (input_of_entry e)) as [[d1 eff] com]. cbn [fst] in W1.
  specialize (IH d1 W1). destruct (replay E d1 rest) as [d2 tr]. exact IH.
Qed.

Lemma recover_swf : forall E H D n, swf (d_sm (fst (recover E H D n))).
Proof. intros. unfold recover. apply replay_swf. cbn [boot d_sm]. apply init_state_wf. Qed.

Lemma plain_run_good : forall E h0 ins, plain_run E h0 ins = true -> good_run E h0 ins = true.
Proof.
  intros E h0 ins P. unfold plain_run, good_run in *.
  apply andb_prop in P. destruct P as [P P3]. apply andb_prop in P. destruct P as [P1 P2].
  assert (W : swf (d_sm (boot h0 [] 0))) by (cbn [boot d_sm]; apply init_state_wf).
  rewrite P1, (starts_plain_good E SFUEL _ W P2). cbn [andb].
  apply listen_plain_good; [apply starts_swf; exact W|exact P3].
Qed.

Lemma live_plain_good : forall E d ins, swf (d_sm d) -> live_plain E d ins = true -> live_good E d ins = true.
Proof.
  intros E d ins W P. unfold live_plain, live_good in *. apply andb_prop in P. destruct P as [P1 P2].
  rewrite (starts_plain_good E SFUEL d W P1). cbn [andb].
  apply listen_plain_good; [apply starts_swf; exact W|exact P2].
Qed.

Lemma live_plain_good_recover : forall E H D n ins,
  live_plain E (fst (recover E H D n)) ins = true -> live_good E (fst (recover E H D n)) ins = true.
Proof. intros. apply live_plain_good; [apply recover_swf|assumption]. Qed.
