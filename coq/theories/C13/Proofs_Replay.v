(* C13 — lemmas, part 3: what recovery does is a function of the log alone (given a reproducible Value()). *)
From Coq Require Import List NArith ZArith Bool Lia.
From V Require Import C12.Model C13.Model C13.Proofs.
Import ListNotations.
Open Scope N_scope.

Lemma sm_step_det : forall E, value_deterministic E -> forall s n m i,
  fst (fst (sm_step E s n i)) = fst (fst (sm_step E s m i)) /\ snd (sm_step E s n i) = snd (sm_step E s m i).
Proof.
  intros E H s n m i. unfold sm_step.
  replace (cfg_at E (s_h s) (in_round i) n) with (cfg_at E (s_h s) (in_round i) m)
    by (unfold cfg_at; rewrite (H (s_h s) (in_round i) n m); reflexivity).
  destruct (step (cfg_at E (s_h s) (in_round i) m) (set_nval s 0) i). split; reflexivity.
Qed.

(* two driver states that differ only in how often the application has been asked *)
Definition deq (d d' : dstate) : Prop := d_sm d = d_sm d' /\ d_wal d = d_wal d'.

Lemma dstep_det : forall E, value_deterministic E -> forall r d d' i, deq d d' ->
  deq (fst (fst (dstep E r d i))) (fst (fst (dstep E r d' i))) /\
  snd (fst (dstep E r d i)) = snd (fst (dstep E r d' i)) /\ snd (dstep E r d i) = snd (dstep E r d' i).
Proof.
  intros E H r d d' i [A B]. rewrite !dstep_spec. unfold sm_of, deq. cbn [fst snd d_sm d_wal].
  rewrite <- A, <- B.
  destruct (sm_step_det E H (d_sm d) (d_calls d) (d_calls d') i) as [X Y]. rewrite X, Y. auto.
Qed.

Lemma replay_det : forall E, value_deterministic E -> forall es d d', deq d d' ->
  deq (fst (replay E d es)) (fst (replay E d' es)) /\ snd (replay E d es) = snd (replay E d' es).
Proof.
  intros E H. induction es as [|e rest IH]; intros d d' Q; cbn [replay]; [auto|].
  destruct Q as [A B]. rewrite <- A.
  destruct (entry_height e <? s_h (d_sm d)); [apply IH; split; assumption|].
  destruct (dstep_det E H true d d' (input_of_entry e) (conj A B)) as [Q1 [Q2 _]].
  destruct (dstep E true d (input_of_entry e)) as [[d1 eff] com].
  destruct (dstep E true d' (input_of_entry e)) as [[d1' eff'] com']. cbn [fst snd] in *.
  destruct (IH d1 d1' Q1) as [I1 I2].
  destruct (replay E d1 rest) as [d2 tr]. destruct (replay E d1' rest) as [d2' tr']. cbn [fst snd] in *.
  subst. auto.
Qed.

Lemma recover_det : forall E, value_deterministic E -> forall h D n m,
  snd (recover E h D n) = snd (recover E h D m) /\
  d_sm (fst (recover E h D n)) = d_sm (fst (recover E h D m)) /\
  d_wal (fst (recover E h D n)) = d_wal (fst (recover E h D m)).
Proof.
  intros E H h D n m. unfold recover.
  destruct (replay_det E H (load D) (boot h D n) (boot h D m)) as [[A B] C]; [split; reflexivity|]. auto.
Qed.

(* replay only re-runs the state machine: the recovered consensus state is the fold of ProcessWAL over the
   loaded entries at or above the machine's height, whatever the driver's effects are *)
Fixpoint sm_replay (E : env) (s : state) (calls : N) (es : list entry) : state * N :=
  match es with
  | [] => (s, calls)
  | e :: rest =>
      if entry_height e <? s_h s then sm_replay E s calls rest
      else let '(s', n', _) := sm_step E s calls (input_of_entry e) in sm_replay E s' n' rest
  end.

Lemma replay_sm : forall E es d,
  (d_sm (fst (replay E d es)), d_calls (fst (replay E d es))) = sm_replay E (d_sm d) (d_calls d) es.
Proof.
  induction es as [|e rest IH]; intros d; cbn [replay sm_replay]; [reflexivity|].
  destruct (entry_height e <? s_h (d_sm d)); [apply IH|].
  pose proof (dstep_spec E true d (input_of_entry e)) as S. unfold sm_of in S.
  destruct (sm_step E (d_sm d) (d_calls d) (input_of_entry e)) as [[s' n'] acts]. cbn [fst snd] in S.
  destruct (dstep E true d (input_of_entry e)) as [[d1 eff] com]. injection S as -> _ _.
  specialize (IH (mkD s' (fst (fst (exec true (d_wal d) acts))) n')).
  destruct (replay E _ rest) as [d2 tr]. cbn [fst snd] in *. exact IH.
Qed.
