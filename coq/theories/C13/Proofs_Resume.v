(* C13 — lemmas, part 6: commit callbacks of a life are for consecutive heights starting at the boot height,
   and the state machine's height is the boot height plus their number. *)
From Coq Require Import List NArith ZArith Bool Lia ZifyN ZifyBool ZifyNat.
From V Require Import C12.Model C12.Proofs C13.Model C13.Proofs C13.Proofs_Votes C13.Proofs_Commit C13.Proofs_Life.
Import ListNotations.
Open Scope N_scope.

Definition commit_hs (acts : list action) : list N :=
  flat_map (fun a => match a with ACommit p => [p_h p] | _ => [] end) acts.

Lemma commits_in_app : forall a b, commits_in (a ++ b) = commits_in a ++ commits_in b.
Proof. intros. unfold commits_in. apply flat_map_app. Qed.

(* execute never drops a Commit (there is at most one, and it is last) *)
Lemma exec_commits : forall r acts w, col acts = true ->
  commits_in (snd (fst (exec r w acts))) = commit_hs acts.
Proof.
  induction acts as [|a rest IH]; intros w C; [reflexivity|].
  assert (Crest : col rest = true).
  { simpl in C. destruct rest; [reflexivity|]. apply andb_prop in C. apply C. }
  assert (Ca : is_commit a = true -> rest = []).
  { intro Hc. simpl in C. destruct rest; [reflexivity|]. rewrite Hc in C. discriminate. }
  simpl. destruct r, a; simpl;
    try (rewrite (Ca eq_refl); reflexivity);
    (fin_exec true IH || fin_exec false IH); rewrite ?commits_in_app; simpl; rewrite (IH' Crest); reflexivity.
Qed.

Lemma consecutive_app : forall l1 l2 h,
  consecutive_from h (l1 ++ l2) = consecutive_from h l1 && consecutive_from (h + N.of_nat (length l1)) l2.
Proof.
  induction l1 as [|x l1 IH]; intros l2 h; simpl.
  - rewrite N.add_0_r. reflexivity.
  - rewrite IH, andb_assoc. replace (h + 1 + N.of_nat (length l1)) with (h + N.pos (Pos.of_succ_nat (length l1))) by lia.
    reflexivity.
Qed.

(* the monitor (code 4) sees every Commit at its own counter height and moves on by one *)
Lemma mon_action_commits : forall c m a m', mon_action c m a = (m', []) ->
  consecutive_from (vc_h (m_vc m)) (commit_hs [a]) = true /\
  vc_h (m_vc m') = vc_h (m_vc m) + N.of_nat (length (commit_hs [a])).
Proof.
  intros c m a m' H. destruct a; simpl in *; try (inversion H; subst; simpl; split; [reflexivity|lia]).
  - inversion H. simpl. rewrite vc_add_proposal_h. split; [reflexivity|lia].
  - inversion H. simpl. rewrite vc_add_vote_h. split; [reflexivity|lia].
  - inversion H. simpl. rewrite vc_add_vote_h. split; [reflexivity|lia].
  - inversion H as [[H1 H2]]. apply chk_nil in H2.
    repeat (apply andb_prop in H2; destruct H2 as [H2 ?]). simpl. rewrite H2. split; [reflexivity|lia].
Qed.

Lemma mon_actions_commits : forall c acts m m', mon_actions c m acts = (m', []) ->
  consecutive_from (vc_h (m_vc m)) (commit_hs acts) = true /\
  vc_h (m_vc m') = vc_h (m_vc m) + N.of_nat (length (commit_hs acts)).
Proof.
  induction acts as [|a rest IH]; intros m m' H; simpl in H.
  - inversion H. subst. simpl. split; [reflexivity|lia].
  - destruct (mon_action c m a) as [m1 e1] eqn:E1. destruct (mon_actions c m1 rest) as [m2 e2] eqn:E2.
    inversion H as [[H1 H2]]. apply app_eq_nil in H2. destruct H2 as [-> ->]. subst m2.
    destruct (mon_action_commits c m a m1 E1) as [A1 A2]. destruct (IH m1 m' E2) as [B1 B2].
    replace (commit_hs (a :: rest)) with (commit_hs [a] ++ commit_hs rest)
      by (unfold commit_hs; simpl; rewrite app_nil_r; reflexivity).
    rewrite consecutive_app, app_length, A1, <- A2, B1, B2, A2. split; [reflexivity|lia].
Qed.

Lemma mon_input_h : forall c m i, vc_h (m_vc (mon_input c m i)) = vc_h (m_vc m).
Proof. intros c m []; simpl; rewrite ?vc_add_proposal_h, ?vc_add_vote_h; reflexivity. Qed.

Definition CInv (E : env) (h0 : N) (d : dstate) (effs : list effect) : Prop :=
  (exists m, Rel (c0 E) (d_sm d) m) /\
  consecutive_from h0 (commits_in effs) = true /\
  s_h (d_sm d) = h0 + N.of_nat (length (commits_in effs)).

Lemma CInv_step : forall E h0 r d i effs, CInv E h0 d effs -> ok_input (d_sm d) i = true ->
  CInv E h0 (fst (fst (dstep E r d i))) (effs ++ snd (fst (dstep E r d i))).
Proof.
  intros E h0 r d i effs [[m R] [C H]] Hok. rewrite dstep_spec. cbn [fst snd d_sm].
  destruct (sm_step_sim E (d_sm d) (d_calls d) i m R Hok) as [m' [M R']].
  fold (sm_of E d i) in M, R'.
  destruct (mon_actions_commits _ _ _ _ M) as [C1 H1]. rewrite mon_input_h in C1, H1.
  assert (Hm : vc_h (m_vc m) = s_h (d_sm d)) by (rewrite (R_vc _ _ _ R); apply (R_h _ _ _ R)).
  assert (Hm' : vc_h (m_vc m') = s_h (fst (fst (sm_of E d i)))) by (rewrite (R_vc _ _ _ R'); apply (R_h _ _ _ R')).
  assert (Col : col (snd (sm_of E d i)) = true).
  { unfold sm_of, sm_step.
    pose proof (step_col (cfg_at E (s_h (d_sm d)) (in_round i) (d_calls d)) (set_nval (d_sm d) 0) i) as X.
    destruct (step _ _ i) as [s1 acts]. exact X. }
  unfold CInv. cbn [d_sm]. rewrite commits_in_app, exec_commits by exact Col.
  split; [eauto|]. rewrite consecutive_app, app_length, C, <- H, <- Hm, C1. split; [reflexivity|]. lia.
Qed.

Lemma resume_height_lemma : forall E h D n ins, life_disc E h D n ins = true ->
  consecutive_from h (commits_in (flat (snd (lifetime E h D n ins)))) = true /\
  s_h (d_sm (fst (lifetime E h D n ins))) = h + N.of_nat (length (commits_in (flat (snd (lifetime E h D n ins))))).
Proof.
  intros E h D n ins Hd.
  assert (X : CInv E h (fst (lifetime E h D n ins)) (flat (snd (lifetime E h D n ins)))).
  { apply (life_P E (CInv E h)); [intros; apply CInv_step; assumption|exact Hd|].
    split; [exists (mon_init h); apply Rel_init|]. simpl. split; [reflexivity|lia]. }
  destruct X as [_ X]. exact X.
Qed.

(* resume_height = boot height + number of completed commit callbacks, when they are consecutive *)
Lemma resume_height_count : forall l h, consecutive_from h (commits_in l) = true ->
  resume_height h l = h + N.of_nat (length (commits_in l)).
Proof.
  intros l h. unfold resume_height. generalize (commits_in l). clear l.
  intro l. revert h. induction l as [|x l IH]; intros h C; simpl in *; [lia|].
  apply andb_prop in C. destruct C as [C1 C2]. apply N.eqb_eq in C1. subst x.
  assert (G : forall a b, fold_left (fun (_ : N) (h1 : N) => h1 + 1) l a = fold_left (fun (_ : N) (h1 : N) => h1 + 1) l b
              \/ l = []).
  { destruct l; [right; reflexivity|left]. reflexivity. }
  destruct l as [|y l']; simpl; [lia|].
  specialize (IH (h + 1) C2). simpl in IH. rewrite IH. lia.
Qed.

(* across a crash: the callbacks before the kill and those of the restarted life form one consecutive run *)
Lemma resume_across_crash : forall E h0 ins1 k n2 ins2,
  life_disc E h0 [] 0 ins1 = true ->
  (let '(pre, post) := crash_restart E h0 ins1 k n2 ins2 in
   life_disc E (resume_height h0 pre) (crash_at k (flat (snd (lifetime E h0 [] 0 ins1))) []) n2 ins2 = true ->
   consecutive_from h0 (commits_in pre ++ commits_in (flat (snd post))) = true /\
   s_h (d_sm (fst post)) = h0 + N.of_nat (length (commits_in pre ++ commits_in (flat (snd post))))).
Proof.
  intros E h0 ins1 k n2 ins2 D1. unfold crash_restart.
  set (effs := flat (snd (lifetime E h0 [] 0 ins1))). set (pre := firstn k effs). intro D2.
  destruct (resume_height_lemma E h0 [] 0 ins1 D1) as [C1 _]. fold effs in C1.
  rewrite <- (firstn_skipn k effs), commits_in_app, consecutive_app in C1. fold pre in C1.
  apply andb_prop in C1. destruct C1 as [C1 _].
  destruct (resume_height_lemma E _ _ n2 ins2 D2) as [C2 H2].
  pose proof (resume_height_count pre h0 C1) as RH.
  rewrite consecutive_app, app_length, C1, <- RH, C2, H2. split; [reflexivity|lia].
Qed.
