(* C13 — lemmas, part 10: the shape of what one call of the state machine returns: a log write of the call's
   own input first (or nothing at all), then only actions that are visible / schedule timers. *)
From Coq Require Import List NArith ZArith Bool Lia ZifyN ZifyBool.
From V Require Import C12.Model C13.Model C13.Proofs_Obs C13.Proofs_ObsStep.
Import ListNotations.
Open Scope N_scope.

(* ---------- soundness of the decidable equalities ---------- *)
Lemma list_eqb_eq : forall {A} (eqb : A -> A -> bool), (forall x y, eqb x y = true -> x = y) ->
  forall l1 l2, list_eqb eqb l1 l2 = true -> l1 = l2.
Proof.
  intros A eqb H. induction l1 as [|x r1 IH]; destruct l2 as [|y r2]; simpl; intro E; try discriminate; auto.
  apply andb_prop in E. destruct E as [E1 E2]. rewrite (H _ _ E1), (IH _ E2). reflexivity.
Qed.
Lemma bset_eqb_eq : forall a b, bset_eqb a b = true -> a = b.
Proof.
  intros [b1 p1 c1 t1] [b2 p2 c2 t2] H. unfold bset_eqb in H. simpl in H.
  apply andb_prop in H. destruct H as [H Ht]. apply andb_prop in H. destruct H as [H Hc].
  apply andb_prop in H. destruct H as [H Hp].
  apply N.eqb_eq in Ht. apply N.eqb_eq in Hc. apply N.eqb_eq in Hp.
  apply list_eqb_eq in H.
  - subst. reflexivity.
  - intros [a1 [x1 y1]] [a2 [x2 y2]] E. simpl in E. unfold ballot_eqb in E. simpl in E.
    apply andb_prop in E. destruct E as [E1 E2]. apply andb_prop in E2. destruct E2 as [E2 E3].
    apply N.eqb_eq in E1. apply Bool.eqb_prop in E2. apply Bool.eqb_prop in E3. subst. reflexivity.
Qed.
Lemma proposal_eqb_eq : forall p q, proposal_eqb p q = true -> p = q.
Proof.
  intros [a b c0 d e] [a' b' c' d' e'] H. unfold proposal_eqb in H. simpl in H.
  apply andb_prop in H. destruct H as [H H5]. apply andb_prop in H. destruct H as [H H4].
  apply andb_prop in H. destruct H as [H H3]. apply andb_prop in H. destruct H as [H1 H2].
  apply N.eqb_eq in H1. apply Z.eqb_eq in H2. apply N.eqb_eq in H3. apply Z.eqb_eq in H4. apply N.eqb_eq in H5.
  subst. reflexivity.
Qed.
Lemma rdata_eqb_eq : forall a b, rdata_eqb a b = true -> a = b.
Proof.
  intros [p1 u1 i1 n1 a1] [p2 u2 i2 n2 a2] H. unfold rdata_eqb in H. simpl in H.
  apply andb_prop in H. destruct H as [H Ha]. apply andb_prop in H. destruct H as [H Hn].
  apply andb_prop in H. destruct H as [H Hi]. apply andb_prop in H. destruct H as [Hp Hu].
  apply bset_eqb_eq in Ha. apply bset_eqb_eq in Hn. apply N.eqb_eq in Hu.
  apply list_eqb_eq in Hi.
  - assert (p1 = p2).
    { destruct p1, p2; simpl in Hp; try discriminate; auto. apply proposal_eqb_eq in Hp. subst. reflexivity. }
    subst. reflexivity.
  - intros [x1 y1] [x2 y2] E. simpl in E. apply andb_prop in E. destruct E as [E1 E2].
    apply N.eqb_eq in E1. apply bset_eqb_eq in E2. subst. reflexivity.
Qed.

Lemma vc_cell_cell : forall vc h r, vc_cell vc h r = cell vc h r.
Proof. reflexivity. Qed.

(* a call of vc_with whose cell comes out unchanged leaves an equivalent counter *)
Lemma vc_with_same : forall vc h r f,
  cell (fst (vc_with vc h r f)) h r = cell vc h r -> vc_eq vc (fst (vc_with vc h r f)).
Proof.
  intros vc h r f Hc. destruct (N.lt_ge_cases h (vc_h vc)) as [L|G].
  - rewrite vc_with_low by exact L. apply vc_eq_refl.
  - destruct (vc_with_spec vc h r f G) as [A [_ B]]. split; [symmetry; exact A|].
    intros h' r' Hh'. rewrite B by exact Hh'.
    destruct ((h' =? h) && (r' =? r)%Z) eqn:E; [|reflexivity].
    apply andb_prop in E. destruct E as [E1 E2]. apply N.eqb_eq in E1. apply Z.eqb_eq in E2. subst.
    rewrite B in Hc by exact G. rewrite N.eqb_refl, Z.eqb_refl in Hc. simpl in Hc. symmetry. exact Hc.
Qed.

(* ---------- only visible actions come out of the rules ---------- *)
Definition all_vis (l : list action) : Prop := vis l = l.
Lemma all_vis_cons : forall a l, quiet_act a = false -> all_vis l -> all_vis (a :: l).
Proof. intros a l H1 H2. unfold all_vis, vis in *. simpl. rewrite H1. simpl. f_equal. exact H2. Qed.
Lemma all_vis_nil : all_vis [].
Proof. reflexivity. Qed.

Lemma start_round_vis : forall c s r, quiet_act (snd (start_round c s r)) = false.
Proof.
  intros. unfold start_round.
  destruct (c_proposer c (vc_h (s_vc (reset_state s r))) r =? c_self c); [|reflexivity].
  destruct (s_vv (reset_state s r)); reflexivity.
Qed.

Lemma apply_rule_vis : forall c s ru s' a cont, apply_rule c s ru = (s', Some a, cont) -> quiet_act a = false.
Proof.
  intros c s ru s' a cont H. destruct ru; simpl in H.
  - unfold do22 in H. inversion H. reflexivity.
  - unfold do28 in H. inversion H. reflexivity.
  - inversion H. reflexivity.
  - unfold do36 in H. destruct (step_eqb (s_step s) SPrevote); inversion H. reflexivity.
  - inversion H. reflexivity.
  - inversion H. reflexivity.
  - inversion H. reflexivity.
  - pose proof (start_round_vis c s r) as N. destruct (start_round c s r) as [s1 a1]. inversion H. subst. exact N.
  - inversion H.
Qed.

Lemma loop_vis : forall c fuel s rr, all_vis (snd (fst (loop c fuel s rr))).
Proof.
  induction fuel as [|n IH]; intros s rr; cbn [loop]; [apply all_vis_nil|].
  destruct (apply_rule c s (select c s rr)) as [[s1 oa] cont] eqn:E. destruct cont.
  - specialize (IH s1 rr). destruct (loop c n s1 rr) as [[s2 more] ex]. cbn [fst snd] in *.
    destruct oa as [a|]; simpl; [|exact IH]. apply all_vis_cons; [|exact IH]. eapply apply_rule_vis; exact E.
  - cbn [fst snd]. destruct oa as [a|]; simpl; [|apply all_vis_nil].
    apply all_vis_cons; [eapply apply_rule_vis; exact E|apply all_vis_nil].
Qed.

Lemma loop_rnone : forall c fuel s rr, select c s rr = RNone -> loop c (S fuel) s rr = (s, [], false).
Proof. intros c fuel s rr H. cbn [loop]. rewrite H. reflexivity. Qed.

(* ---------- the shape of a call ---------- *)
Definition wal_of (e : entry) : action :=
  match e with
  | EStart h => AWalStart h
  | EProposal p => AWalProposal p
  | EPrevote v => AWalPrevote v
  | EPrecommit v => AWalPrecommit v
  | ETimeout k h r => AWalTimeout k h r
  end.

Definition entry_is_msg (e : entry) : bool :=
  match e with EProposal _ | EPrevote _ | EPrecommit _ => true | _ => false end.

Inductive shape (s : state) (i : input) (s' : state) (acts : list action) : Prop :=
| sh_quiet : acts = [] -> obs_eq s s' -> shape s i s' acts
| sh_logged : forall e rest, acts = wal_of e :: rest -> all_vis rest ->
    (match i with IStart _ => e = EStart (s_h s') | _ => input_of_entry e = i /\ entry_height e = s_h s end) ->
    shape s i s' acts
| sh_future : forall e, acts = [wal_of e] -> input_of_entry e = i -> entry_is_msg e = true ->
    s_h s < entry_height e -> shape s i s' acts.

Definition plain_cond (c : cfg) (s : state) (i : input) (s' : state) (acts : list action) : Prop :=
  match i with
  | IStart _ => True
  | ITimeout k h r => timeout_matches s k h r = true \/ select c s None = RNone
  | _ => match msg_pos i with
         | Some (h, r) => s_started s = true /\ has_trigger acts = false /\
                          (acts = [] -> cell (s_vc s') h r = cell (s_vc s) h r)
         | None => True
         end
  end.

Lemma set_vc_self_obs : forall s vc, vc_eq (s_vc s) vc -> obs_eq s (set_vc s vc).
Proof. intros. split; [reflexivity|assumption]. Qed.

Lemma step_x_shape : forall c s i, vc_h (s_vc s) = s_h s ->
  plain_cond c s i (fst (fst (step_x c s i))) (snd (fst (step_x c s i))) ->
  shape s i (fst (fst (step_x c s i))) (snd (fst (step_x c s i))).
Proof.
  intros c s i W. destruct i as [r|p|v|v|k h r]; unfold step_x, plain_cond; cbn [msg_pos].
  - intros _. destruct (s_started s); [apply sh_quiet; [reflexivity|apply obs_eq_refl]|].
    pose proof (start_round_vis c (set_started s true) r) as V.
    destruct (start_round c (set_started s true) r) as [s1 a].
    pose proof (loop_vis c FUEL s1 None) as L. destruct (loop c FUEL s1 None) as [[s2 acts] ex]. cbn [fst snd] in *.
    apply (sh_logged _ _ _ _ (EStart (s_h s2)) (a :: acts)); [reflexivity|apply all_vis_cons; assumption|reflexivity].
  - destruct (vc_add_proposal c (s_vc s) p) as [vc ok] eqn:EA. cbn [fst snd].
    assert (Hvc : vc = fst (vc_add_proposal c (s_vc s) p)) by (rewrite EA; reflexivity).
    destruct ok; cbn [negb orb].
    + destruct (s_started (set_vc s vc)) eqn:St1; cbn [negb].
      2:{ cbn [fst snd]. intros [St _]. simpl in St1. congruence. }
      intros [St [Ht _]].
      assert (Ge : s_h s <= p_h p).
      { destruct (N.lt_ge_cases (p_h p) (vc_h (s_vc s))) as [L|G]; [|lia].
        unfold vc_add_proposal in EA. rewrite vc_with_low in EA by exact L. inversion EA. }
      unfold process_message. cbn [s_h set_vc].
      destruct (p_h p =? s_h s) eqn:Eh; cbn [negb].
      * apply N.eqb_eq in Eh.
        pose proof (loop_vis c FUEL (set_vc s vc) (Some (p_r p))) as L.
        destruct (loop c FUEL (set_vc s vc) (Some (p_r p))) as [[s2 acts] ex]. cbn [fst snd] in *.
        apply (sh_logged _ _ _ _ (EProposal p) acts); [reflexivity|exact L|split; [reflexivity|exact Eh]].
      * cbn [fst snd]. apply (sh_future _ _ _ _ (EProposal p)); [reflexivity|reflexivity|reflexivity|simpl; lia].
    + cbn [fst snd]. intros [_ [_ Hc]]. apply sh_quiet; [reflexivity|].
      apply set_vc_self_obs. rewrite Hvc. unfold vc_add_proposal. apply vc_with_same.
      specialize (Hc eq_refl). cbn [s_vc set_vc] in Hc. rewrite Hvc in Hc. exact Hc.
  - destruct (vc_add_vote c (s_vc s) Prevote v) as [vc ok] eqn:EA. cbn [fst snd].
    assert (Hvc : vc = fst (vc_add_vote c (s_vc s) Prevote v)) by (rewrite EA; reflexivity).
    destruct ok; cbn [negb orb].
    + destruct (s_started (set_vc s vc)) eqn:St1; cbn [negb].
      2:{ cbn [fst snd]. intros [St _]. simpl in St1. congruence. }
      intros [St [Ht _]].
      assert (Ge : s_h s <= v_h v).
      { destruct (N.lt_ge_cases (v_h v) (vc_h (s_vc s))) as [L|G]; [|lia].
        unfold vc_add_vote in EA. rewrite vc_with_low in EA by exact L. inversion EA. }
      unfold process_message. cbn [s_h set_vc].
      destruct (v_h v =? s_h s) eqn:Eh; cbn [negb].
      * apply N.eqb_eq in Eh.
        pose proof (loop_vis c FUEL (set_vc s vc) (Some (v_r v))) as L.
        destruct (loop c FUEL (set_vc s vc) (Some (v_r v))) as [[s2 acts] ex]. cbn [fst snd] in *.
        apply (sh_logged _ _ _ _ (EPrevote v) acts); [reflexivity|exact L|split; [reflexivity|exact Eh]].
      * cbn [fst snd]. apply (sh_future _ _ _ _ (EPrevote v)); [reflexivity|reflexivity|reflexivity|simpl; lia].
    + cbn [fst snd]. intros [_ [_ Hc]]. apply sh_quiet; [reflexivity|].
      apply set_vc_self_obs. rewrite Hvc. unfold vc_add_vote. apply vc_with_same.
      specialize (Hc eq_refl). cbn [s_vc set_vc] in Hc. rewrite Hvc in Hc. exact Hc.
  - destruct (vc_add_vote c (s_vc s) Precommit v) as [vc ok] eqn:EA. cbn [fst snd].
    assert (Hvc : vc = fst (vc_add_vote c (s_vc s) Precommit v)) by (rewrite EA; reflexivity).
    destruct ok; cbn [negb orb].
    + destruct (s_started (set_vc s vc)) eqn:St1; cbn [negb].
      2:{ cbn [fst snd]. intros [St _]. simpl in St1. congruence. }
      match goal with |- context [if ?b then _ else _] => destruct b eqn:ETS end.
      { unfold trigger_sync. cbn [fst snd]. intros [_ [Ht _]]. discriminate. }
      intros [St [Ht _]].
      assert (Ge : s_h s <= v_h v).
      { destruct (N.lt_ge_cases (v_h v) (vc_h (s_vc s))) as [L|G]; [|lia].
        unfold vc_add_vote in EA. rewrite vc_with_low in EA by exact L. inversion EA. }
      unfold process_message. cbn [s_h set_vc].
      destruct (v_h v =? s_h s) eqn:Eh; cbn [negb].
      * apply N.eqb_eq in Eh.
        pose proof (loop_vis c FUEL (set_vc s vc) (Some (v_r v))) as L.
        destruct (loop c FUEL (set_vc s vc) (Some (v_r v))) as [[s2 acts] ex]. cbn [fst snd] in *.
        apply (sh_logged _ _ _ _ (EPrecommit v) acts); [reflexivity|exact L|split; [reflexivity|exact Eh]].
      * cbn [fst snd]. apply (sh_future _ _ _ _ (EPrecommit v)); [reflexivity|reflexivity|reflexivity|simpl; lia].
    + cbn [fst snd]. intros [_ [_ Hc]]. apply sh_quiet; [reflexivity|].
      apply set_vc_self_obs. rewrite Hvc. unfold vc_add_vote. apply vc_with_same.
      specialize (Hc eq_refl). cbn [s_vc set_vc] in Hc. rewrite Hvc in Hc. exact Hc.
  - intros [M|Q].
    + unfold timeout_matches in M. apply andb_prop in M. destruct M as [M M3]. apply andb_prop in M. destruct M as [M1 M2].
      unfold on_timeout. destruct k.
      * rewrite M1, M2, M3. cbn [andb].
        pose proof (loop_vis c FUEL (fst (send_prevote c s None)) None) as L.
        destruct (send_prevote c s None) as [s1 a] eqn:ES. cbn [fst] in L.
        destruct (loop c FUEL s1 None) as [[s2 acts] ex]. cbn [fst snd app] in *.
        apply (sh_logged _ _ _ _ (ETimeout SPropose h r) (a :: acts)); [reflexivity| |split; [reflexivity|cbn; lia]].
        apply all_vis_cons; [|exact L]. unfold send_prevote in ES. inversion ES. reflexivity.
      * rewrite M1, M2, M3. cbn [andb].
        pose proof (loop_vis c FUEL (fst (send_precommit c s None)) None) as L.
        destruct (send_precommit c s None) as [s1 a] eqn:ES. cbn [fst] in L.
        destruct (loop c FUEL s1 None) as [[s2 acts] ex]. cbn [fst snd app] in *.
        apply (sh_logged _ _ _ _ (ETimeout SPrevote h r) (a :: acts)); [reflexivity| |split; [reflexivity|cbn; lia]].
        apply all_vis_cons; [|exact L]. unfold send_precommit in ES. inversion ES. reflexivity.
      * rewrite M1, M2. cbn [andb].
        pose proof (start_round_vis c s (r + 1)%Z) as V.
        destruct (start_round c s (r + 1)%Z) as [s1 a].
        pose proof (loop_vis c FUEL s1 None) as L.
        destruct (loop c FUEL s1 None) as [[s2 acts] ex]. cbn [fst snd app] in *.
        apply (sh_logged _ _ _ _ (ETimeout SPrecommit h r) (a :: acts)); [reflexivity| |split; [reflexivity|cbn; lia]].
        apply all_vis_cons; assumption.
    + (* stale or matching, but nothing pending *)
      destruct (timeout_matches s k h r) eqn:M.
      * (* matching: same as above, re-use by recursion on the disjunction *)
        unfold timeout_matches in M. apply andb_prop in M. destruct M as [M M3]. apply andb_prop in M. destruct M as [M1 M2].
        unfold on_timeout. destruct k.
        -- rewrite M1, M2, M3. cbn [andb].
           pose proof (loop_vis c FUEL (fst (send_prevote c s None)) None) as L.
           destruct (send_prevote c s None) as [s1 a] eqn:ES. cbn [fst] in L.
           destruct (loop c FUEL s1 None) as [[s2 acts] ex]. cbn [fst snd app] in *.
           apply (sh_logged _ _ _ _ (ETimeout SPropose h r) (a :: acts)); [reflexivity| |split; [reflexivity|cbn; lia]].
           apply all_vis_cons; [|exact L]. unfold send_prevote in ES. inversion ES. reflexivity.
        -- rewrite M1, M2, M3. cbn [andb].
           pose proof (loop_vis c FUEL (fst (send_precommit c s None)) None) as L.
           destruct (send_precommit c s None) as [s1 a] eqn:ES. cbn [fst] in L.
           destruct (loop c FUEL s1 None) as [[s2 acts] ex]. cbn [fst snd app] in *.
           apply (sh_logged _ _ _ _ (ETimeout SPrevote h r) (a :: acts)); [reflexivity| |split; [reflexivity|cbn; lia]].
           apply all_vis_cons; [|exact L]. unfold send_precommit in ES. inversion ES. reflexivity.
        -- rewrite M1, M2. cbn [andb].
           pose proof (start_round_vis c s (r + 1)%Z) as V.
           destruct (start_round c s (r + 1)%Z) as [s1 a].
           pose proof (loop_vis c FUEL s1 None) as L.
           destruct (loop c FUEL s1 None) as [[s2 acts] ex]. cbn [fst snd app] in *.
           apply (sh_logged _ _ _ _ (ETimeout SPrecommit h r) (a :: acts)); [reflexivity| |split; [reflexivity|cbn; lia]].
           apply all_vis_cons; assumption.
      * assert (OT : on_timeout c s k h r = (s, [])).
        { unfold on_timeout, timeout_matches in *. destruct k.
          - destruct ((s_h s =? h) && (s_r s =? r)%Z && step_eqb (s_step s) SPropose); [discriminate|reflexivity].
          - destruct ((s_h s =? h) && (s_r s =? r)%Z && step_eqb (s_step s) SPrevote); [discriminate|reflexivity].
          - rewrite andb_true_r in M. rewrite M. reflexivity. }
        rewrite OT. unfold FUEL. rewrite (loop_rnone c 15 s None Q). cbn [fst snd app].
        apply sh_quiet; [reflexivity|apply obs_eq_refl].
Qed.
