(* C13 — lemmas, part 14: the recovered consensus state at every kill point.  Same induction over the
   prefixes of execute's effects as for the votes, for a generic predicate on prefixes that only depends on
   what is on disk and on the resume height. *)
From Coq Require Import List NArith ZArith Bool Lia ZifyN ZifyBool.
From V Require Import C12.Model C12.Proofs C13.Model C13.Proofs C13.Proofs_Votes C13.Proofs_Commit
  C13.Proofs_Life C13.Proofs_Resume C13.Proofs_Replay C13.Proofs_Obs C13.Proofs_ObsStep C13.Proofs_Cells
  C13.Proofs_Shape C13.Proofs_Wal C13.Proofs_Crash C13.Proofs_MidGen C13.Proofs_Fut C13.Proofs_Upd C13.Proofs_Core C13.Proofs_Inv.
Import ListNotations.
Open Scope N_scope.

Section StateInv.
  Variable E : env.
  Hypothesis Hdet : value_deterministic E.
  Hypothesis Qpos : quorum_positive E.
  Variable h0 : N.
  Hypothesis Hh0 : 1 <= h0.
  Variable D0 : list wrec.
  Variable E0 : list effect.

  Definition rec_state (pre : list effect) (n2 : N) : state :=
    d_sm (fst (recover E (resume_height h0 pre) (disk D0 pre) n2)).
  (* the recovered state is (up to obs_eq) the state at one of the call boundaries *)
  Definition StGood (sts : list bstate) (pre : list effect) : Prop :=
    exists sd rest, In (sd, rest) sts /\ forall n2, obs_eq (rec_state pre n2) sd.

  Lemma StGood_mono : forall sts more pre, StGood sts pre -> StGood (sts ++ more) pre.
  Proof. intros sts more pre [sd [rest [Hin H]]]. exists sd, rest. split; [apply in_or_app; left; exact Hin|exact H]. Qed.
  Lemma StGood_ext : forall sts pre pre', disk D0 pre' = disk D0 pre ->
    resume_height h0 pre' = resume_height h0 pre -> StGood sts pre -> StGood sts pre'.
  Proof.
    intros sts pre pre' Hd Hr [sd [rest [Hin H]]]. exists sd, rest. split; [exact Hin|].
    intro n2. unfold rec_state. rewrite Hd, Hr. apply H.
  Qed.

  Lemma prefixes_gen : forall (Good : list effect -> Prop) effs es,
    (forall j, Good (firstn j effs)) -> (forall j, Good (effs ++ firstn j es)) ->
    forall j, Good (firstn j (effs ++ es)).
  Proof.
    intros Good effs es H1 H2 j. destruct (Nat.le_gt_cases j (length effs)) as [L|G].
    - rewrite firstn_app_le by exact L. apply H1.
    - rewrite firstn_app_ge by lia. apply H2.
  Qed.

  Definition BS (d : dstate) (effs : list effect) (sts : list bstate) : Prop :=
    BI E h0 D0 E0 d effs /\ forall j, StGood sts (firstn j effs).

  Lemma BS_step : forall d i effs sts rest, BS d effs sts -> good_step E d i = true ->
    BS (fst (fst (dstep E false d i))) (effs ++ snd (fst (dstep E false d i)))
       (sts ++ [(d_sm (fst (fst (dstep E false d i))), rest)]).
  Proof.
    intros [s w n] i effs sts rest0 [B St] G. split; [apply (BI_step E Hdet Qpos h0 Hh0 D0 E0); assumption|].
    assert (Hok : ok_input s i = true).
    { unfold good_step, good_body in G. cbn [d_sm d_calls] in G. apply andb_prop in G. apply G. }
    destruct (b_cinv _ _ _ _ _ _ B) as [[m R] _]. cbn [d_sm] in R.
    pose proof (sm_step_facts E s w n i m R (b_wf _ _ _ _ _ _ B) (b_nv _ _ _ _ _ _ B) G) as SF.
    rewrite dstep_spec. unfold sm_of. cbn [d_sm d_calls d_wal fst snd].
    destruct (sm_step E s n i) as [[s' n'] acts] eqn:Hst. cbn [fst snd] in *.
    set (sts' := sts ++ [(s', rest0)]).
    assert (Old : forall j, StGood sts' (firstn j effs)) by (intro j; apply StGood_mono; apply St).
    assert (OldAll : StGood sts' effs) by (specialize (Old (length effs)); rewrite firstn_all in Old; exact Old).
    destruct (sf_shape _ _ _ _ _ SF) as [Ea Ho|e rest Ea AV Hi|e Ea Hi Me Hlt].
    - subst acts. cbn [exec fst snd]. rewrite app_nil_r. exact Old.
    - subst acts.
      assert (Hie : input_of_entry e = i /\ ht e = s_h s).
      { destruct i as [r|p|v|v|k h r]; try exact Hi.
        destruct (sf_start _ _ _ _ _ SF) as [Hc Hi0]. subst e. split; [symmetry; exact Hi0|].
        apply has_commit_hs in Hc. pose proof (sf_h _ _ _ _ _ SF) as Z. rewrite Hc in Z. simpl in Z.
        unfold ht. simpl. lia. }
      destruct Hie as [Hi1 Hi2].
      destruct (logged_ctx E Hdet Qpos h0 Hh0 D0 E0 s w n effs i s' n' e rest B Hst SF Hi1 Hi2 Hok)
        as [Hpos [Wa [PB1 [Rn [Ms [Live [_ [Fresh [Hres [Hdisk _]]]]]]]]]].
      set (Hs := s_h s) in *. set (D1 := (w_durable w ++ w_pending w) ++ [REntry e]) in *.
      set (A' := LL D0 effs ++ [e]) in *.
      assert (Col : col (wal_of e :: rest) = true) by apply (sf_col _ _ _ _ _ SF).
      assert (Crest : col rest = true) by (eapply col_tail; exact Col).
      rewrite exec_logged, Wa. cbn [fst snd].
      apply prefixes_gen; [exact Old|].
      assert (Gfl : forall pre, disk D0 pre = D1 -> resume_height h0 pre = Hs -> StGood sts' pre).
      { intros pre Hd Hr. exists s', rest0. split; [apply in_or_app; right; left; reflexivity|].
        intro n2. unfold rec_state. rewrite Hd, Hr.
        destruct (recover_link E Hdet Hs D1 n2 Hpos PB1) as [RL _]; [rewrite Rn; exact Ms|].
        rewrite Rn in RL. eapply obs_eq_trans; [exact RL|apply obs_eq_sym; exact Live]. }
      assert (Gco : forall pre, (exists p, In (ACommit p) rest) ->
                (disk D0 pre = D1 \/ disk D0 pre = D1 ++ [RPrune Hs]) -> resume_height h0 pre = Hs + 1 -> StGood sts' pre).
      { intros pre [p Hp] Hd Hr. exists s', rest0. split; [apply in_or_app; right; left; reflexivity|].
        assert (Hc : has_commit (wal_of e :: rest) = true) by (apply (in_has_commit _ p); right; exact Hp).
        destruct (Fresh Hc) as [_ Fr].
        intro n2. unfold rec_state. rewrite Hr.
        assert (X : rents (disk D0 pre) = A' /\ prunes_below (Hs + 1) (disk D0 pre)).
        { destruct Hd as [-> | ->].
          - split; [exact Rn|apply (prunes_below_mono h0 Hh0 Hs); [lia|exact PB1]].
          - split; [rewrite rents_app, Rn; simpl; apply app_nil_r|].
            unfold prunes_below. apply Forall_app. split.
            + apply (prunes_below_mono h0 Hh0 Hs); [lia|exact PB1].
            + constructor; [lia|constructor]. }
        destruct X as [X1 X2].
        destruct (recover_link E Hdet (Hs + 1) (disk D0 pre) n2 ltac:(lia) X2) as [RL _].
        { rewrite X1. apply (futs_msgs_sub Hs (Hs + 1) A'); [lia|exact Ms]. }
        rewrite X1 in RL. eapply obs_eq_trans; [exact RL|apply obs_eq_sym; exact Fr]. }
      intros [|j]; [rewrite app_nil_r; exact OldAll|].
      cbn [firstn]. change (effs ++ Append e :: firstn j ?x) with (effs ++ [Append e] ++ firstn j x).
      rewrite app_assoc.
      apply (exec_mid_gen h0 D0 Hs D1 rest (StGood sts') Hpos (StGood_ext sts') Gfl Gco).
      + intros p Hp. apply (sf_commit _ _ _ _ _ SF p). right. exact Hp.
      + exact PB1.
      + exact AV.
      + exact Crest.
      + auto.
      + constructor.
        * apply (StGood_ext sts' effs).
          -- rewrite (disk_snoc D0), <- (b_wal _ _ _ _ _ _ B). cbn [apply_effect d_wal]. rewrite Wa. exact (eq_sym Hdisk).
          -- rewrite resume_height_app. reflexivity.
          -- exact OldAll.
        * rewrite apply_effects_app, <- (b_wal _ _ _ _ _ _ B). cbn [apply_effects fold_left apply_effect d_wal]. symmetry. exact Wa.
        * rewrite resume_height_app. exact Hres.
        * cbn [w_durable w_pending]. unfold D1. rewrite app_assoc. reflexivity.
        * cbn [w_pending]. unfold no_prune. apply Forall_app. split; [apply (b_noprune _ _ _ _ _ _ B)|].
          constructor; [exact I|constructor].
    - (* a logged message for a future height: only an Append, nothing on disk changes *)
      subst acts. rewrite exec_logged. cbn [exec fst snd].
      apply prefixes_gen; [exact Old|].
      intros [|j]; cbn [firstn]; [rewrite app_nil_r; exact OldAll|]. rewrite firstn_nil.
      apply (StGood_ext sts' effs); [|rewrite resume_height_app; reflexivity|exact OldAll].
      rewrite (disk_snoc D0), <- (b_wal _ _ _ _ _ _ B). cbn [apply_effect d_wal].
      unfold wal_append. destruct (entry_height e <=? pruned_upto (w_durable w)); unfold disk; rewrite <- (b_wal _ _ _ _ _ _ B); reflexivity.
  Qed.
End StateInv.

(* ---------- the recovered state at every kill point of a plain life ---------- *)
Lemma BS_run : forall E, value_deterministic E -> quorum_positive E -> forall h0 ins,
  good_run E h0 ins = true ->
  BS E h0 [] [] (fst (lifetime E h0 [] 0 ins)) (flat (snd (lifetime E h0 [] 0 ins))) (life_states E h0 ins).
Proof.
  intros E Hdet Q h0 ins G.
  assert (Hh0 : 1 <= h0).
  { unfold good_run in G. apply andb_prop in G. destruct G as [G _]. apply andb_prop in G. destruct G as [G _].
    apply N.leb_le in G. exact G. }
  apply (run_PS E (BS E h0 [] [])); [intros; apply BS_step; assumption|exact G|].
  split; [apply BI_init; [exact Hh0|reflexivity|reflexivity]|].
  intro j. rewrite firstn_nil. exists (init_state h0), ins. split; [left; reflexivity|].
  intro n2. unfold rec_state. apply obs_eq_refl.
Qed.

Lemma replay_prefix_plain : forall E h0 ins1 k n2,
  value_deterministic E -> quorum_positive E -> good_run E h0 ins1 = true ->
  let effs := flat (snd (lifetime E h0 [] 0 ins1)) in
  let pre := firstn k effs in
  (exists sd rest, In (sd, rest) (life_states E h0 ins1) /\
     obs_eq (d_sm (fst (recover E (resume_height h0 pre) (crash_at k effs []) n2))) sd) /\
  (forall kd v, In v (votes_in kd pre) -> resume_height h0 pre <= v_h v ->
     In v (votes_in kd (flat (snd (recover E (resume_height h0 pre) (crash_at k effs []) n2))))).
Proof.
  intros E h0 ins1 k n2 Hdet Q G effs pre.
  destruct (BS_run E Hdet Q h0 ins1 G) as [B St]. fold effs in B, St. split.
  - destruct (St k) as [sd [rest [Hin H]]]. exists sd, rest. split; [exact Hin|]. apply (H n2).
  - intros kd v Hin Hh. apply (proj1 (b_crash _ _ _ _ _ _ B k) n2 kd v Hin Hh).
Qed.
