(* C13 — lemmas, part 22: lives that end through the regular return path of driver.Run (refusing commit
   listener, failing store call, cancelled context): the deferred Close flushes what is pending.  The world
   such a life leaves is coherent (Proofs_Lives.Coh), so everything proved about a restart after a kill holds
   after such an ending too, for any number and mix of endings (Model.Worlds2). *)
From Coq Require Import List NArith ZArith Bool Lia ZifyN ZifyBool.
From V Require Import C12.Model C12.Proofs C13.Model C13.Proofs C13.Proofs_Votes C13.Proofs_Commit
  C13.Proofs_Life C13.Proofs_Resume C13.Proofs_Replay C13.Proofs_Obs C13.Proofs_ObsStep C13.Proofs_Cells
  C13.Proofs_Shape C13.Proofs_Wal C13.Proofs_Crash C13.Proofs_MidGen C13.Proofs_Fut C13.Proofs_Upd
  C13.Proofs_Core C13.Proofs_Inv C13.Proofs_Final C13.Proofs_State C13.Proofs_Tail C13.Proofs_Lives C13.Proofs_Plain.
Import ListNotations.
Open Scope N_scope.

(* ---------- timers and broadcasts up to the next Flush ---------- *)
Definition mute (e : effect) : Prop := match e with Sched _ _ _ | Bcast _ => True | _ => False end.

Lemma quiet_split : forall l, quiet_until_flush l = true ->
  exists mid rest, l = mid ++ rest /\ Forall mute mid /\ (rest = [] \/ exists r, rest = Flush :: r).
Proof.
  induction l as [|e l IH]; intro Q.
  - exists [], []. repeat split; auto.
  - destruct e; simpl in Q; try discriminate.
    + exists [], (Flush :: l). repeat split; eauto.
    + destruct (IH Q) as [mid [rest [E [F R]]]]. exists (Bcast m :: mid), rest. subst l.
      repeat split; [constructor; [exact I|exact F]|exact R].
    + destruct (IH Q) as [mid [rest [E [F R]]]]. exists (Sched k h r :: mid), rest. subst l.
      repeat split; [constructor; [exact I|exact F]|exact R].
Qed.

Lemma mute_wal : forall mid w, Forall mute mid -> apply_effects w mid = w.
Proof.
  induction mid as [|e mid IH]; intros w F; [reflexivity|]. inversion F as [|x y Hx Hy]. subst.
  cbn [apply_effects fold_left]. fold (apply_effects (apply_effect w e) mid).
  destruct e; try contradiction; cbn [apply_effect]; apply IH; exact Hy.
Qed.
Lemma mute_commits : forall mid, Forall mute mid -> commits_in mid = [].
Proof.
  induction mid as [|e mid IH]; intros F; [reflexivity|]. inversion F as [|x y Hx Hy]. subst.
  unfold commits_in in *. destruct e; try contradiction; simpl; apply IH; exact Hy.
Qed.

Lemma votes_in_incl_app : forall k a b v, In v (votes_in k a) -> In v (votes_in k (a ++ b)).
Proof. intros. rewrite votes_in_app. apply in_or_app. left. assumption. Qed.

Section Stop.
  Variable E : env.
  Hypothesis Hdet : value_deterministic E.
  Hypothesis Qpos : quorum_positive E.

  (* coherence only gets easier with fewer earlier votes to answer for *)
  Lemma Coh_antimono : forall H D EH EH', Coh E H D EH ->
    (forall k v, In v (votes_in k EH') -> In v (votes_in k EH)) -> Coh E H D EH'.
  Proof.
    intros H D EH EH' [Cp Cpr Cm Cd Cc Cv] Sub. constructor; [exact Cp|exact Cpr|exact Cm|exact Cd| |].
    - intros k v Hin Hge. apply Cc; auto.
    - intros k v Hin. apply (Cv k v). auto.
  Qed.

  (* a life that ran to the end of its inputs and returned through Close: everything it appended is on disk *)
  Lemma BI_stop_Coh : forall H D EH d effs, 1 <= H -> BI E H D EH d effs ->
    Coh E (resume_height H effs) (stop_disk (length effs) effs D) (EH ++ effs).
  Proof.
    intros H D EH d effs Hh B. destruct (BI_height E H Hh D EH d effs B) as [Hres Hpos].
    assert (Dk : stop_disk (length effs) effs D = w_durable (d_wal d) ++ w_pending (d_wal d)).
    { unfold stop_disk, wal_at. rewrite firstn_all, <- (b_wal _ _ _ _ _ _ B). reflexivity. }
    rewrite Dk, <- Hres. pose proof (b_recs _ _ _ _ _ _ B) as Rn.
    constructor.
    - exact Hpos.
    - apply (b_prunes _ _ _ _ _ _ B).
    - rewrite Rn. apply (b_msgs _ _ _ _ _ _ B).
    - rewrite Rn. apply (b_disc _ _ _ _ _ _ B).
    - rewrite Rn. intros k v Hin Hge. apply (b_cover _ _ _ _ _ _ B k v Hin Hge).
    - apply (b_vh _ _ _ _ _ _ B).
  Qed.

  Lemma stop_disk_clean : forall k effs D, w_pending (wal_at D effs k) = [] -> stop_disk k effs D = crash_at k effs D.
  Proof.
    intros k effs D Hp. unfold stop_disk, crash_at, wal_at in *. unfold wal_flush. cbn [w_durable].
    rewrite Hp. apply app_nil_r.
  Qed.

  (* whatever way a life ends (any prefix of its effects; with Close's flush at the places of stop_ok), the
     world it leaves is coherent *)
  Lemma BI_stop_next_Coh : forall H D EH d effs k, 1 <= H -> BI E H D EH d effs -> stop_ok D effs k = true ->
    Coh E (resume_height H (firstn k effs)) (stop_disk k effs D) (EH ++ firstn k effs).
  Proof.
    intros H D EH d effs k Hh B S. unfold stop_ok in S. apply orb_prop in S. destruct S as [S|S].
    - destruct (w_pending (wal_at D effs k)) eqn:Ep; [|discriminate].
      rewrite (stop_disk_clean k effs D Ep). apply (BI_next_Coh E Hdet H D EH d effs k B).
    - destruct (quiet_split _ S) as [mid [rest [Es [Fm Rr]]]].
      assert (Ee : effs = firstn k effs ++ mid ++ rest) by (rewrite <- Es; symmetry; apply firstn_skipn).
      remember (firstn k effs) as pre eqn:Hpre.
      assert (Wm : apply_effects (mkWal D []) (pre ++ mid) = wal_at D effs k).
      { rewrite apply_effects_app. unfold wal_at. rewrite <- Hpre. apply mute_wal. exact Fm. }
      assert (Rm : forall tail, commits_in tail = [] -> resume_height H (pre ++ mid ++ tail) = resume_height H pre).
      { intros tail Ht.
        assert (Z : forall x l, commits_in l = [] -> resume_height x l = x) by (intros x l Hl; unfold resume_height; rewrite Hl; reflexivity).
        rewrite !resume_height_app, (Z _ tail Ht), (Z _ mid (mute_commits mid Fm)). reflexivity. }
      assert (Sub : forall tail kd v, In v (votes_in kd (EH ++ pre)) -> In v (votes_in kd (EH ++ pre ++ tail))).
      { intros tail kd v Hin. rewrite app_assoc. apply votes_in_incl_app. exact Hin. }
      destruct Rr as [->|[r' ->]].
      + (* nothing is flushed any more in this life: the stop is as good as a stop at its end *)
        rewrite app_nil_r in Ee.
        assert (Dk : stop_disk k effs D = stop_disk (length effs) effs D).
        { unfold stop_disk. f_equal. f_equal. rewrite <- Wm. unfold wal_at. rewrite firstn_all. f_equal. symmetry. exact Ee. }
        assert (Rk : resume_height H pre = resume_height H effs).
        { transitivity (resume_height H (pre ++ mid ++ [])); [symmetry; apply Rm; reflexivity|].
          rewrite app_nil_r. f_equal. symmetry. exact Ee. }
        rewrite Dk, Rk. apply (Coh_antimono _ _ (EH ++ effs)); [apply (BI_stop_Coh H D EH d effs Hh B)|].
        intros kd v Hin. replace (EH ++ effs) with (EH ++ pre ++ mid) by (f_equal; symmetry; exact Ee). apply Sub. exact Hin.
      + (* the next thing the log sees is a Flush: the stop leaves what a kill right after that Flush leaves *)
        set (j := (length (pre ++ mid ++ [Flush]))).
        assert (Fj : firstn j effs = pre ++ mid ++ [Flush]).
        { replace effs with ((pre ++ mid ++ [Flush]) ++ r') by (rewrite <- !app_assoc; symmetry; exact Ee).
          unfold j. rewrite firstn_app, firstn_all, Nat.sub_diag. simpl. apply app_nil_r. }
        pose proof (BI_next_Coh E Hdet H D EH d effs j B) as C. rewrite Fj in C.
        assert (Dj : crash_at j effs D = stop_disk k effs D).
        { unfold crash_at, stop_disk. rewrite Fj, app_assoc, apply_effects_app, Wm. reflexivity. }
        rewrite Dj, (Rm [Flush] eq_refl) in C.
        apply (Coh_antimono _ _ _ _ C). intros kd v Hin. apply Sub. exact Hin.
  Qed.

  (* ---------- induction over lives with any mix of endings ---------- *)
  Theorem Worlds2_Coh : forall H D EH, Worlds2 E H D EH -> Coh E H D EH.
  Proof.
    intros H D EH W. induction W as [h0 Hh|H D EH n ins k W IH G effs|H D EH n ins k W IH G effs S].
    - apply Coh_init. exact Hh.
    - apply (BI_next_Coh E Hdet H D EH (fst (lifetime E H D n ins)) _ k).
      apply (life_BI E Hdet Qpos H D EH n ins IH). apply live_plain_good_recover. exact G.
    - assert (Hh : 1 <= H) by (pose proof (c_pos _ _ _ _ IH); lia).
      apply (BI_stop_next_Coh H D EH (fst (lifetime E H D n ins)) effs k Hh); [|exact S].
      apply (life_BI E Hdet Qpos H D EH n ins IH). apply live_plain_good_recover. exact G.
  Qed.

  Theorem no_conflict_any_endings : forall H D EH n ins, Worlds2 E H D EH ->
    listen_disc E (fst (starts E SFUEL (fst (recover E H D n)))) ins = true ->
    no_conflict EH (flat (snd (lifetime E H D n ins))) = true /\ life_disc E H D n ins = true.
  Proof.
    intros H D EH n ins W L. pose proof (Worlds2_Coh H D EH W) as C.
    split; [apply (life_no_conflict E Hdet); assumption|eapply (life_disc_of E Hdet); eassumption].
  Qed.

  Theorem resume_any_endings : forall H D EH n ins, Worlds2 E H D EH ->
    listen_disc E (fst (starts E SFUEL (fst (recover E H D n)))) ins = true ->
    consecutive_from H (commits_in (flat (snd (lifetime E H D n ins)))) = true /\
    s_h (d_sm (fst (lifetime E H D n ins))) = H + N.of_nat (length (commits_in (flat (snd (lifetime E H D n ins))))).
  Proof.
    intros H D EH n ins W L. apply resume_height_lemma.
    eapply (life_disc_of E Hdet); [apply Worlds2_Coh; exact W|exact L].
  Qed.
End Stop.
