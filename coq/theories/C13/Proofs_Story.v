(* C13 — lemmas, part 25: the consensus state the log stands for (Model.logged_state), for any number of lives
   ended in any way: the state recovered from a log directory, and the state of a life at the end of its
   inputs, are (up to C12's st_sim) the state a fresh state machine reaches when it is given exactly the logged
   entries.  Consequences: a life that returns through Close and is restarted resumes in the state it left;
   the state recovered after a kill is the state of a crash-free run that logged exactly the durable entries. *)
From Coq Require Import List NArith ZArith Bool Lia ZifyN ZifyBool.
From V Require Import C12.Model C12.Proofs C12.Proofs_Sim C13.Model C13.Proofs C13.Proofs_Votes C13.Proofs_Commit
  C13.Proofs_Life C13.Proofs_Resume C13.Proofs_Replay C13.Proofs_Obs C13.Proofs_ObsStep C13.Proofs_Cells
  C13.Proofs_Shape C13.Proofs_Wal C13.Proofs_Crash C13.Proofs_MidGen C13.Proofs_Fut C13.Proofs_Upd
  C13.Proofs_Core C13.Proofs_Inv C13.Proofs_Final C13.Proofs_State C13.Proofs_Tail C13.Proofs_Lives
  C13.Proofs_Plain C13.Proofs_Stop C13.Proofs_Sync C13.Proofs_Log.
From V Require C12.Proofs_CfgEq.
Import ListNotations.
Open Scope N_scope.

(* ---------- logged_state in the vocabulary of the proofs ---------- *)
Lemma set_vc_id : forall s, set_vc s (s_vc s) = s.
Proof. destruct s. reflexivity. Qed.
Lemma count_msg_upd : forall c s e, count_msg c s e = upd c s e.
Proof.
  intros c s e. unfold upd. rewrite vc_upd_add. destruct e; cbn [count_msg]; try reflexivity; symmetry; apply set_vc_id.
Qed.
Lemma count_msgs_upds : forall c l s, fold_left (count_msg c) l s = upds c s l.
Proof.
  induction l as [|e l IH]; intros s; [reflexivity|]. cbn [fold_left upds]. rewrite count_msg_upd. apply IH.
Qed.
Lemma sm_feed_acts : forall E es s n, sm_feed E s n es = fst (sm_replay_acts E s n es).
Proof.
  induction es as [|e rest IH]; intros s n; cbn [sm_feed sm_replay_acts]; [reflexivity|].
  destruct (entry_height e <? s_h s); [apply IH|].
  destruct (sm_step E s n (input_of_entry e)) as [[s' n'] acts]. rewrite IH.
  destruct (sm_replay_acts E s' n' rest) as [[s2 n2] more]. reflexivity.
Qed.
Lemma entries_rents : forall l, entries_of l = rents l.
Proof. reflexivity. Qed.
Lemma logged_state_spec : forall E H A,
  logged_state E H A = upds (c0 E) (fst (fst (core E H A))) (futs H A).
Proof.
  intros. unfold logged_state. rewrite count_msgs_upds, sm_feed_acts. reflexivity.
Qed.

Lemma filter_idem : forall {A} (f : A -> bool) l, filter f (filter f l) = filter f l.
Proof. intros. apply filter_filter_imp. auto. Qed.
Lemma logged_state_above : forall E H A, logged_state E H (above_f H A) = logged_state E H A.
Proof.
  intros. rewrite !logged_state_spec. unfold core. rewrite curs_above_g, futs_above_g. reflexivity.
Qed.

(* ---------- the sync bookkeeping of logged_state: never touched ---------- *)
Lemma upds_ltq : forall c l s, ltq (upds c s l) = ltq s.
Proof. induction l as [|e l IH]; intros s; [reflexivity|]. cbn [upds fold_left]. fold (upds c (upd c s e) l). rewrite IH. reflexivity. Qed.

Lemma sm_step_h_le : forall E s n i, s_h s <= s_h (fst (fst (sm_step E s n i))).
Proof.
  intros. unfold sm_step. set (c := cfg_at E (s_h s) (in_round i) n).
  rewrite (step_step_x c (set_nval s 0) i). pose proof (step_x_h c (set_nval s 0) i) as H.
  destruct (step_x c (set_nval s 0) i) as [[s1 acts] ex]. cbn [fst snd] in *. cbn [set_nval s_h] in *. lia.
Qed.

Lemma replay_low_ltq : forall E l s n, Forall (fun e => ht e <= s_h s) l ->
  ltq (fst (fst (sm_replay_acts E s n l))) = ltq s.
Proof.
  induction l as [|e l IH]; intros s n F; cbn [sm_replay_acts]; [reflexivity|].
  inversion F as [|x y He Hl]. subst. fold ht.
  destruct (ht e <? s_h s); [apply IH; exact Hl|].
  assert (Low : match input_of_entry e with IPrecommit v => v_h v <= s_h s | _ => True end).
  { destruct e; cbn [input_of_entry]; auto. }
  pose proof (sm_step_low_nt E s n _ Low) as Nt. pose proof (sm_step_ltq E s n _ Nt) as L1.
  pose proof (sm_step_h_le E s n (input_of_entry e)) as Hh.
  destruct (sm_step E s n (input_of_entry e)) as [[s' n'] acts]. cbn [fst snd] in *.
  assert (F' : Forall (fun e0 => ht e0 <= s_h s') l) by (eapply Forall_impl; [|exact Hl]; intros a Ha; simpl in *; lia).
  specialize (IH s' n' F'). destruct (sm_replay_acts E s' n' l) as [[s2 n2] more]. cbn [fst] in *. congruence.
Qed.

Lemma logged_state_ltq : forall E H A, ltq (logged_state E H A) = (0, 0).
Proof.
  intros. rewrite logged_state_spec, upds_ltq. unfold core.
  rewrite replay_low_ltq; [reflexivity|]. apply Forall_forall. intros x Hx. unfold curs in Hx. apply filter_In in Hx.
  cbn [init_state s_h]. lia.
Qed.

(* a recovery none of whose calls returns TriggerSync ends with untouched bookkeeping *)
Lemma feed_quiet_ltq : forall E es s n, feed_quiet E s n es = true -> ltq (fst (sm_replay E s n es)) = ltq s.
Proof.
  induction es as [|e rest IH]; intros s n Q; cbn [feed_quiet sm_replay] in *; [reflexivity|].
  destruct (entry_height e <? s_h s); [apply IH; exact Q|].
  pose proof (sm_step_ltq E s n (input_of_entry e)) as L1.
  destruct (sm_step E s n (input_of_entry e)) as [[s' n'] acts]. cbn [fst snd] in *.
  apply andb_prop in Q. destruct Q as [Q1 Q2]. apply negb_true_iff in Q1.
  rewrite (IH s' n' Q2). apply L1. exact Q1.
Qed.
Lemma recover_quiet_ltq : forall E h D n, replay_quiet E h D n = true -> ltq (d_sm (fst (recover E h D n))) = (0, 0).
Proof.
  intros E h D n Q. unfold recover. pose proof (replay_sm E (load D) (boot h D n)) as R.
  cbn [boot d_sm d_calls] in R.
  pose proof (feed_quiet_ltq E (load D) (init_state h) n Q) as L. rewrite <- R in L. exact L.
Qed.

(* a plain live phase never returns TriggerSync *)
Lemma plain_step_nt : forall E d i, plain_step E d i = true ->
  has_trigger (snd (sm_step E (d_sm d) (d_calls d) i)) = false.
Proof.
  intros E d i P. unfold plain_step, plain_body in P. apply andb_prop in P. destruct P as [_ P].
  destruct i as [r|p|v|v|k h r]; try (apply sm_step_low_nt; exact I).
  apply andb_prop in P. destruct P as [_ P]. apply negb_true_iff in P. exact P.
Qed.
Lemma dstep_plain_ltq : forall E d i, plain_step E d i = true ->
  ltq (d_sm (fst (fst (dstep E false d i)))) = ltq (d_sm d).
Proof.
  intros E d i P. rewrite dstep_spec. cbn [fst d_sm]. unfold sm_of. apply sm_step_ltq. apply plain_step_nt. exact P.
Qed.
Lemma starts_plain_ltq : forall E fuel d, starts_plain E fuel d = true -> ltq (d_sm (fst (starts E fuel d))) = ltq (d_sm d).
Proof.
  induction fuel as [|n IH]; intros d P; cbn [starts starts_plain] in *; [reflexivity|].
  apply andb_prop in P. destruct P as [P1 P2]. pose proof (dstep_plain_ltq E d (IStart 0) P1) as L1.
  destruct (dstep E false d (IStart 0)) as [[d1 eff] com]. cbn [fst] in *. destruct com; [|exact L1].
  specialize (IH d1 P2). destruct (starts E n d1) as [d2 tr]. cbn [fst] in *. congruence.
Qed.
Lemma listen_plain_ltq : forall E ins d, listen_plain E d ins = true -> ltq (d_sm (fst (listen E d ins))) = ltq (d_sm d).
Proof.
  induction ins as [|i rest IH]; intros d P; cbn [listen listen_plain] in *; [reflexivity|].
  apply andb_prop in P. destruct P as [P1 P]. pose proof (dstep_plain_ltq E d i P1) as L1.
  destruct (dstep E false d i) as [[d1 eff] com]. cbn [fst] in *.
  apply andb_prop in P. destruct P as [P2 P3].
  assert (L2 : ltq (d_sm (fst (if com then starts E SFUEL d1 else (d1, [])))) = ltq (d_sm d1)).
  { destruct com; [apply starts_plain_ltq; exact P2|reflexivity]. }
  assert (P3' : listen_plain E (fst (if com then starts E SFUEL d1 else (d1, []))) rest = true) by (destruct com; exact P3).
  destruct (if com then starts E SFUEL d1 else (d1, [])) as [d2 tr2]. cbn [fst] in *.
  specialize (IH d2 P3'). destruct (listen E d2 rest) as [d3 tr3]. cbn [fst] in *. congruence.
Qed.
Lemma life_plain_ltq : forall E H D n ins, live_plain E (fst (recover E H D n)) ins = true ->
  ltq (d_sm (fst (lifetime E H D n ins))) = ltq (d_sm (fst (recover E H D n))).
Proof.
  intros E H D n ins P. unfold live_plain in P. apply andb_prop in P. destruct P as [P1 P2].
  unfold lifetime. destruct (recover E H D n) as [d1 tr1]. cbn [fst] in *. unfold run_live.
  pose proof (starts_plain_ltq E SFUEL d1 P1) as L1. destruct (starts E SFUEL d1) as [d2 tr2]. cbn [fst] in *.
  pose proof (listen_plain_ltq E ins d2 P2) as L2. destruct (listen E d2 ins) as [d3 tr3]. cbn [fst] in *. congruence.
Qed.

Section Story.
  Variable E : env.
  Hypothesis Hdet : value_deterministic E.
  Hypothesis Qpos : quorum_positive E.

  (* the state recovered from a coherent world is the state its log stands for *)
  Lemma recovered_logged : forall H D EH n, Coh E H D EH ->
    obs_eq (d_sm (fst (recover E H D n))) (logged_state E H (entries_of D)) /\
    (replay_quiet E H D n = true -> st_sim (d_sm (fst (recover E H D n))) (logged_state E H (entries_of D))).
  Proof.
    intros H D EH n [Cp Cpr Cm _ _ _]. destruct (recover_link E Hdet H D n Cp Cpr Cm) as [R _].
    rewrite logged_state_spec, entries_rents. split; [exact R|].
    intro Q. apply obs_ltq_sim; [exact R|]. rewrite (recover_quiet_ltq E H D n Q), <- logged_state_spec, logged_state_ltq. reflexivity.
  Qed.

  (* the state of a life at the end of its inputs is the state its log (everything appended so far) stands for *)
  Lemma live_logged : forall H D EH n ins, Coh E H D EH -> live_plain E (fst (recover E H D n)) ins = true ->
    let d := fst (lifetime E H D n ins) in
    let A := entries_of (w_durable (d_wal d) ++ w_pending (d_wal d)) in
    obs_eq (d_sm d) (logged_state E (s_h (d_sm d)) A) /\
    (replay_quiet E H D n = true -> st_sim (d_sm d) (logged_state E (s_h (d_sm d)) A)).
  Proof.
    intros H D EH n ins C G d A.
    pose proof (life_BI E Hdet Qpos H D EH n ins C (live_plain_good_recover E H D n ins G)) as B. fold d in B.
    assert (O : obs_eq (d_sm d) (logged_state E (s_h (d_sm d)) A)).
    { unfold A. rewrite logged_state_spec, entries_rents, (b_recs _ _ _ _ _ _ B). apply (b_live _ _ _ _ _ _ B). }
    split; [exact O|]. intro Q. apply obs_ltq_sim; [exact O|].
    unfold d. rewrite (life_plain_ltq E H D n ins G), (recover_quiet_ltq E H D n Q), logged_state_ltq. reflexivity.
  Qed.

  (* the log determines the state: a recovery and a life that was never killed, in whatever worlds, agree when the
     entries at or above the height are the same *)
  Lemma recovered_is_crash_free_run : forall H D EH n H2 D2 EH2 n2 ins2,
    Coh E H D EH -> Coh E H2 D2 EH2 -> live_plain E (fst (recover E H2 D2 n2)) ins2 = true ->
    let d2 := fst (lifetime E H2 D2 n2 ins2) in
    s_h (d_sm d2) = H ->
    above_f H (entries_of D) = above_f H (entries_of (w_durable (d_wal d2) ++ w_pending (d_wal d2))) ->
    obs_eq (d_sm (fst (recover E H D n))) (d_sm d2) /\
    (replay_quiet E H D n = true -> replay_quiet E H2 D2 n2 = true -> st_sim (d_sm (fst (recover E H D n))) (d_sm d2)).
  Proof.
    intros H D EH n H2 D2 EH2 n2 ins2 C C2 G d2 Hh Eq.
    destruct (recovered_logged H D EH n C) as [R1 R2].
    destruct (live_logged H2 D2 EH2 n2 ins2 C2 G) as [L1 L2]. fold d2 in L1, L2. rewrite Hh in L1, L2.
    assert (Same : logged_state E H (entries_of D) =
                   logged_state E H (entries_of (w_durable (d_wal d2) ++ w_pending (d_wal d2)))).
    { rewrite <- (logged_state_above E H (entries_of D)), Eq. apply logged_state_above. }
    rewrite Same in R1, R2. split.
    - eapply obs_eq_trans; [exact R1|apply obs_eq_sym; exact L1].
    - intros Q Q2. eapply st_sim_trans; [exact (R2 Q)|apply st_sim_sym; exact (L2 Q2)].
  Qed.

  (* a life that consumed its inputs and returned through Close (flush succeeded), restarted at the height it
     had reached: the recovered state is the state it left *)
  Lemma stop_restart_same : forall H D EH n ins n', Coh E H D EH -> live_plain E (fst (recover E H D n)) ins = true ->
    let effs := flat (snd (lifetime E H D n ins)) in
    let d := fst (lifetime E H D n ins) in
    let H' := resume_height H effs in
    let D' := stop_disk (length effs) effs D in
    s_h (d_sm d) = H' /\
    obs_eq (d_sm (fst (recover E H' D' n'))) (d_sm d) /\
    (replay_quiet E H D n = true -> replay_quiet E H' D' n' = true -> st_sim (d_sm (fst (recover E H' D' n'))) (d_sm d)).
  Proof.
    intros H D EH n ins n' C G effs d H' D'.
    assert (Hh : 1 <= H) by (pose proof (c_pos _ _ _ _ C); lia).
    pose proof (life_BI E Hdet Qpos H D EH n ins C (live_plain_good_recover E H D n ins G)) as B. fold d effs in B.
    destruct (BI_height E H Hh D EH d effs B) as [Hres _]. fold H' in Hres.
    pose proof (BI_stop_Coh E H D EH d effs Hh B) as C'. fold H' D' in C'.
    assert (Dk : D' = w_durable (d_wal d) ++ w_pending (d_wal d)).
    { unfold D', stop_disk, wal_at. rewrite firstn_all, <- (b_wal _ _ _ _ _ _ B). reflexivity. }
    split; [exact Hres|].
    destruct (recovered_is_crash_free_run H' D' (EH ++ effs) n' H D EH n ins C' C G) as [X1 X2]; fold d.
    - exact Hres.
    - rewrite Dk. reflexivity.
    - split; [exact X1|]. intros Q Q'. exact (X2 Q' Q).
  Qed.
End Story.

(* ---------- the one-kill theorems of a first life, restated without the per-run clause and up to st_sim ---------- *)
Lemma good_step_nt : forall E d i, good_step E d i = true ->
  has_trigger (snd (sm_step E (d_sm d) (d_calls d) i)) = false.
Proof.
  intros E d i G. unfold good_step, good_body in G. apply andb_prop in G. destruct G as [_ G].
  destruct i as [r|p|v|v|k h r]; try (apply sm_step_low_nt; exact I).
  cbn [msg_pos] in G. apply andb_prop in G. destruct G as [G _]. apply andb_prop in G. destruct G as [_ G].
  apply negb_true_iff in G. exact G.
Qed.

Lemma life_states_ltq : forall E h0 ins, good_run E h0 ins = true ->
  forall sd rest, In (sd, rest) (life_states E h0 ins) -> ltq sd = (0, 0).
Proof.
  intros E h0 ins G.
  assert (X : (fun (d : dstate) (_ : list effect) (sts : list bstate) =>
                 ltq (d_sm d) = (0, 0) /\ Forall (fun bs => ltq (fst bs) = (0, 0)) sts)
              (fst (lifetime E h0 [] 0 ins)) (flat (snd (lifetime E h0 [] 0 ins))) (life_states E h0 ins)).
  { apply (run_PS E (fun d _ sts => ltq (d_sm d) = (0, 0) /\ Forall (fun bs => ltq (fst bs) = (0, 0)) sts)); [|exact G|].
    - intros d i effs sts rest [L F] Gs.
      assert (L1 : ltq (d_sm (fst (fst (dstep E false d i)))) = (0, 0)).
      { rewrite dstep_spec. cbn [fst d_sm]. unfold sm_of. rewrite sm_step_ltq; [exact L|apply good_step_nt; exact Gs]. }
      split; [exact L1|]. apply Forall_app. split; [exact F|]. constructor; [exact L1|constructor].
    - split; [reflexivity|]. constructor; [reflexivity|constructor]. }
  destruct X as [_ F]. intros sd rest Hin. rewrite Forall_forall in F. exact (F _ Hin).
Qed.

Lemma recover_empty : forall E h n, recover E h [] n = (boot h [] n, []).
Proof. reflexivity. Qed.

Lemma plain_run_live : forall E h0 ins, plain_run E h0 ins = true -> live_plain E (fst (recover E h0 [] 0)) ins = true.
Proof.
  intros E h0 ins P. rewrite recover_empty. cbn [fst]. unfold plain_run in P. unfold live_plain.
  apply andb_prop in P. destruct P as [P P3]. apply andb_prop in P. destruct P as [_ P2]. rewrite P2, P3. reflexivity.
Qed.

Lemma replay_prefix_sim : forall E h0 ins1 k n2,
  value_deterministic E -> quorum_positive E -> plain_run E h0 ins1 = true ->
  let effs := flat (snd (lifetime E h0 [] 0 ins1)) in
  let pre := firstn k effs in
  let H' := resume_height h0 pre in
  let D' := crash_at k effs [] in
  (exists sd rest, In (sd, rest) (life_states E h0 ins1) /\
     obs_eq (d_sm (fst (recover E H' D' n2))) sd /\
     (replay_quiet E H' D' n2 = true -> st_sim (d_sm (fst (recover E H' D' n2))) sd)) /\
  (forall kd v, In v (votes_in kd pre) -> H' <= v_h v -> In v (votes_in kd (flat (snd (recover E H' D' n2))))).
Proof.
  intros E h0 ins1 k n2 Hdet Qpos P effs pre H' D'. pose proof (plain_run_good E h0 ins1 P) as G.
  destruct (replay_prefix_plain E h0 ins1 k n2 Hdet Qpos G) as [[sd [rest [Hin O]]] V]. split; [|exact V].
  exists sd, rest. split; [exact Hin|]. split; [exact O|]. intro Q. apply obs_ltq_sim; [exact O|].
  fold effs pre H' D' in O. rewrite (recover_quiet_ltq E H' D' n2 Q), (life_states_ltq E h0 ins1 G sd rest Hin). reflexivity.
Qed.

Lemma same_final_sim : forall E h0 ins1 k n2,
  value_deterministic E -> quorum_positive E -> plain_run E h0 ins1 = true ->
  let effs := flat (snd (lifetime E h0 [] 0 ins1)) in
  let pre := firstn k effs in
  let H' := resume_height h0 pre in
  let D' := crash_at k effs [] in
  exists sd rest, In (sd, rest) (life_states E h0 ins1) /\
    obs_eq (d_sm (fst (recover E H' D' n2))) sd /\
    obs_eq (d_sm (fst (lifetime E H' D' n2 rest))) (d_sm (fst (lifetime E h0 [] 0 ins1))) /\
    (replay_quiet E H' D' n2 = true -> live_plain E (fst (recover E H' D' n2)) rest = true ->
     st_sim (d_sm (fst (lifetime E H' D' n2 rest))) (d_sm (fst (lifetime E h0 [] 0 ins1)))).
Proof.
  intros E h0 ins1 k n2 Hdet Qpos P effs pre H' D'. pose proof (plain_run_good E h0 ins1 P) as G.
  destruct (same_final_plain E h0 ins1 k n2 Hdet Qpos G) as [sd [rest [Hin [O1 O2]]]].
  exists sd, rest. split; [exact Hin|]. split; [exact O1|]. split; [exact O2|].
  intros Q L. apply obs_ltq_sim; [exact O2|]. fold effs pre H' D' in O2.
  rewrite (life_plain_ltq E H' D' n2 rest L), (recover_quiet_ltq E H' D' n2 Q).
  rewrite (life_plain_ltq E h0 [] 0 ins1 (plain_run_live E h0 ins1 P)). reflexivity.
Qed.

(* ---------- the statements over Worlds2 (any number of lives, ended in any way) ---------- *)
Section StoryW.
  Variable E : env.
  Hypothesis Hdet : value_deterministic E.
  Hypothesis Qpos : quorum_positive E.

  Lemma recovered_logged_w : forall H D EH n, Worlds2 E H D EH ->
    obs_eq (d_sm (fst (recover E H D n))) (logged_state E H (entries_of D)) /\
    (replay_quiet E H D n = true -> st_sim (d_sm (fst (recover E H D n))) (logged_state E H (entries_of D))).
  Proof. intros H D EH n W. apply (recovered_logged E Hdet H D EH n). apply Worlds2_Coh; assumption. Qed.

  Lemma live_logged_w : forall H D EH n ins, Worlds2 E H D EH -> live_plain E (fst (recover E H D n)) ins = true ->
    let d := fst (lifetime E H D n ins) in
    let A := entries_of (w_durable (d_wal d) ++ w_pending (d_wal d)) in
    obs_eq (d_sm d) (logged_state E (s_h (d_sm d)) A) /\
    (replay_quiet E H D n = true -> st_sim (d_sm d) (logged_state E (s_h (d_sm d)) A)).
  Proof. intros H D EH n ins W. apply (live_logged E Hdet Qpos H D EH n ins). apply Worlds2_Coh; assumption. Qed.

  Lemma recovered_is_crash_free_run_w : forall H D EH n H2 D2 EH2 n2 ins2,
    Worlds2 E H D EH -> Worlds2 E H2 D2 EH2 -> live_plain E (fst (recover E H2 D2 n2)) ins2 = true ->
    let d2 := fst (lifetime E H2 D2 n2 ins2) in
    s_h (d_sm d2) = H ->
    above_f H (entries_of D) = above_f H (entries_of (w_durable (d_wal d2) ++ w_pending (d_wal d2))) ->
    obs_eq (d_sm (fst (recover E H D n))) (d_sm d2) /\
    (replay_quiet E H D n = true -> replay_quiet E H2 D2 n2 = true -> st_sim (d_sm (fst (recover E H D n))) (d_sm d2)).
  Proof.
    intros H D EH n H2 D2 EH2 n2 ins2 W W2. apply (recovered_is_crash_free_run E Hdet Qpos H D EH n H2 D2 EH2 n2 ins2); apply Worlds2_Coh; assumption.
  Qed.

  Lemma stop_restart_same_w : forall H D EH n ins n', Worlds2 E H D EH -> live_plain E (fst (recover E H D n)) ins = true ->
    let effs := flat (snd (lifetime E H D n ins)) in
    let d := fst (lifetime E H D n ins) in
    let H' := resume_height H effs in
    let D' := stop_disk (length effs) effs D in
    s_h (d_sm d) = H' /\
    obs_eq (d_sm (fst (recover E H' D' n'))) (d_sm d) /\
    (replay_quiet E H D n = true -> replay_quiet E H' D' n' = true -> st_sim (d_sm (fst (recover E H' D' n'))) (d_sm d)).
  Proof. intros H D EH n ins n' W. apply (stop_restart_same E Hdet Qpos H D EH n ins n'). apply Worlds2_Coh; assumption. Qed.

  (* whatever way a life in a reachable world ends: every logged input of a height above the last completed
     commit whose effects were visible is read back from the directory it leaves *)
  Lemma log_keeps_uncommitted : forall H D EH n ins k fl, Worlds2 E H D EH ->
    live_plain E (fst (recover E H D n)) ins = true ->
    let effs := flat (snd (lifetime E H D n ins)) in
    (fl = true -> stop_ok D effs k = true) ->
    log_covers_visible (resume_height H (firstn k effs) - 1) (firstn k effs) (load (end_disk fl k effs D)) = true.
  Proof.
    intros H D EH n ins k fl W G effs S.
    assert (C : Coh E (resume_height H (firstn k effs)) (end_disk fl k effs D) (EH ++ firstn k effs)).
    { apply Worlds2_Coh; try assumption. destruct fl; cbn [end_disk].
      - apply (w2_stop E H D EH n ins k W G). apply S. reflexivity.
      - apply (w2_kill E H D EH n ins k W G). }
    pose proof (pruned_below _ _ (c_pos _ _ _ _ C) (c_prunes _ _ _ _ C)) as P.
    apply (log_covers_mono (pruned_upto (end_disk fl k effs D))); [lia|]. apply (end_disk_covers E H D n ins fl k).
  Qed.

  Lemma no_conflict_plain_run : forall h0 ins1 k n2 ins2, plain_run E h0 ins1 = true ->
    (let '(pre, post) := crash_restart E h0 ins1 k n2 ins2 in
     life_disc E (resume_height h0 pre) (crash_at k (flat (snd (lifetime E h0 [] 0 ins1))) []) n2 ins2 = true ->
     no_conflict pre (flat (snd post)) = true).
  Proof. intros h0 ins1 k n2 ins2 P. apply (no_conflict_plain E h0 ins1 k n2 ins2 Hdet Qpos). apply plain_run_good. exact P. Qed.
End StoryW.

(* a reproducible application is the same environment for the process that replays: C12's cfg_same *)
Lemma cfg_at_same : forall E, value_deterministic E -> forall h r n m, C12.Proofs_CfgEq.cfg_same (cfg_at E h r n) (cfg_at E h r m).
Proof. intros E Hd h r n m. constructor; try reflexivity. intro k. cbn [cfg_at c_value_at]. apply Hd. Qed.

(* C12_wal_replay_same_state, read for the calls of one (height, round) of the driver's state machine: what the
   restarted process re-derives from the entries such calls logged is what the calls did *)
Lemma height_round_replay_by_C12 : forall E, value_deterministic E -> quorum_positive E -> forall h r n m ins,
  wal_disciplined (cfg_at E h r n) (init_state h) ins = true ->
  st_sim (fst (replay_wal (cfg_at E h r m) (init_state h) (wal_written (snd (run (cfg_at E h r n) (init_state h) ins)))))
         (fst (run (cfg_at E h r n) (init_state h) ins)) /\
  replay_actions (snd (replay_wal (cfg_at E h r m) (init_state h) (wal_written (snd (run (cfg_at E h r n) (init_state h) ins))))) =
  all_actions (snd (run (cfg_at E h r n) (init_state h) ins)).
Proof.
  intros E Hd Q h r n m ins W. apply C12.Proofs_CfgEq.wal_replay_two_env; [apply cfg_at_same; exact Hd|exact Q|exact W].
Qed.
