(* C13 — lemmas, part 24: the sync bookkeeping (lastTriggerSync, lastQuorum) only moves in a call that returns
   TriggerSync; with it, obs_eq becomes C12's st_sim. *)
From Coq Require Import List NArith ZArith Bool Lia ZifyN ZifyBool.
From V Require Import C12.Model C12.Proofs C12.Proofs_Sim C13.Model C13.Proofs C13.Proofs_Replay C13.Proofs_Obs.
Import ListNotations.
Open Scope N_scope.

Definition ltq (s : state) : N * N := (s_lts s, s_lq s).

Lemma send_proposal_ltq : forall c s v, ltq (fst (send_proposal c s v)) = ltq s.
Proof. reflexivity. Qed.
Lemma send_prevote_ltq : forall c s id, ltq (fst (send_prevote c s id)) = ltq s.
Proof. reflexivity. Qed.
Lemma send_precommit_ltq : forall c s id, ltq (fst (send_precommit c s id)) = ltq s.
Proof. reflexivity. Qed.
Lemma start_round_ltq : forall c s r, ltq (fst (start_round c s r)) = ltq s.
Proof.
  intros. unfold start_round. destruct (c_proposer c _ r =? c_self c); [|reflexivity].
  destruct (s_vv (reset_state s r)); reflexivity.
Qed.
Lemma apply_rule_ltq : forall c s ru, ltq (fst (fst (apply_rule c s ru))) = ltq s.
Proof.
  intros c s ru. destruct ru; cbn [apply_rule]; try reflexivity.
  - unfold do36. destruct (step_eqb (s_step s) SPrevote); reflexivity.
  - pose proof (start_round_ltq c s r) as H. destruct (start_round c s r) as [s1 a]. exact H.
Qed.
Lemma loop_ltq : forall c fuel s rr, ltq (fst (fst (loop c fuel s rr))) = ltq s.
Proof.
  induction fuel as [|n IH]; intros s rr; cbn [loop]; [reflexivity|].
  pose proof (apply_rule_ltq c s (select c s rr)) as H1.
  destruct (apply_rule c s (select c s rr)) as [[s1 oa] cont]. cbn [fst] in H1. destruct cont; [|exact H1].
  pose proof (IH s1 rr) as H2. destruct (loop c n s1 rr) as [[s2 more] ex]. cbn [fst] in *. congruence.
Qed.
Lemma on_timeout_ltq : forall c s k h r, ltq (fst (on_timeout c s k h r)) = ltq s.
Proof.
  intros. unfold on_timeout. destruct k.
  - destruct (_ && _); reflexivity.
  - destruct (_ && _); reflexivity.
  - destruct (_ && _); [|reflexivity]. pose proof (start_round_ltq c s (r + 1)%Z) as H.
    destruct (start_round c s (r + 1)%Z) as [s1 a]. exact H.
Qed.
Lemma process_message_ltq : forall c s w h r, ltq (fst (fst (process_message c s w h r))) = ltq s.
Proof.
  intros. unfold process_message. destruct (negb (h =? s_h s)); [reflexivity|].
  pose proof (loop_ltq c FUEL s (Some r)) as H. destruct (loop c FUEL s (Some r)) as [[s1 a] e]. exact H.
Qed.

(* a call that does not return TriggerSync leaves lastTriggerSync / lastQuorum alone *)
Lemma step_x_ltq : forall c s i, has_trigger (snd (fst (step_x c s i))) = false ->
  ltq (fst (fst (step_x c s i))) = ltq s.
Proof.
  intros c s i. destruct i as [r|p|v|v|k h r]; unfold step_x.
  - destruct (s_started s); [reflexivity|]. intros _.
    pose proof (start_round_ltq c (set_started s true) r) as H1.
    destruct (start_round c (set_started s true) r) as [s1 a].
    pose proof (loop_ltq c FUEL s1 None) as H2. destruct (loop c FUEL s1 None) as [[s2 acts] ex]. cbn [fst] in *.
    rewrite H2, H1. reflexivity.
  - destruct (vc_add_proposal c (s_vc s) p) as [vc ok]. intros _.
    destruct (negb ok || _); [reflexivity|]. change (ltq s) with (ltq (set_vc s vc)). apply process_message_ltq.
  - destruct (vc_add_vote c (s_vc s) Prevote v) as [vc ok]. intros _.
    destruct (negb ok || _); [reflexivity|]. change (ltq s) with (ltq (set_vc s vc)). apply process_message_ltq.
  - destruct (vc_add_vote c (s_vc s) Precommit v) as [vc ok].
    destruct (negb ok || _); [reflexivity|].
    match goal with |- context [if ?b then _ else _] => destruct b end.
    + unfold trigger_sync. cbn [fst snd has_trigger existsb]. discriminate.
    + intros _. change (ltq s) with (ltq (set_vc s vc)). apply process_message_ltq.
  - intros _. pose proof (on_timeout_ltq c s k h r) as H1. destruct (on_timeout c s k h r) as [s1 a0].
    pose proof (loop_ltq c FUEL s1 None) as H2. destruct (loop c FUEL s1 None) as [[s2 acts] ex]. cbn [fst] in *.
    rewrite H2, H1. reflexivity.
Qed.

(* only a precommit for a height above the machine's can return TriggerSync *)
Lemma has_trigger_app : forall a b, has_trigger (a ++ b) = has_trigger a || has_trigger b.
Proof. intros. unfold has_trigger. apply existsb_app. Qed.
Lemma start_round_nt : forall c s r, has_trigger [snd (start_round c s r)] = false.
Proof.
  intros. unfold start_round. destruct (c_proposer c _ r =? c_self c); [|reflexivity].
  destruct (s_vv (reset_state s r)); reflexivity.
Qed.
Lemma apply_rule_nt : forall c s ru, has_trigger (olist (snd (fst (apply_rule c s ru)))) = false.
Proof.
  intros c s ru. destruct ru; cbn [apply_rule]; try reflexivity.
  - unfold do36. destruct (step_eqb (s_step s) SPrevote); reflexivity.
  - pose proof (start_round_nt c s r) as H. destruct (start_round c s r) as [s1 a]. exact H.
Qed.
Lemma loop_nt : forall c fuel s rr, has_trigger (snd (fst (loop c fuel s rr))) = false.
Proof.
  induction fuel as [|n IH]; intros s rr; cbn [loop]; [reflexivity|].
  pose proof (apply_rule_nt c s (select c s rr)) as H1.
  destruct (apply_rule c s (select c s rr)) as [[s1 oa] cont]. cbn [fst snd] in H1. destruct cont; [|exact H1].
  pose proof (IH s1 rr) as H2. destruct (loop c n s1 rr) as [[s2 more] ex]. cbn [fst snd] in *.
  rewrite has_trigger_app, H1, H2. reflexivity.
Qed.
Lemma process_message_nt : forall c s w h r, has_trigger [w] = false ->
  has_trigger (snd (fst (process_message c s w h r))) = false.
Proof.
  intros c s w h r Hw. unfold process_message. destruct (negb (h =? s_h s)); [exact Hw|].
  pose proof (loop_nt c FUEL s (Some r)) as H. destruct (loop c FUEL s (Some r)) as [[s1 a] e]. cbn [fst snd] in *.
  change (w :: a) with ([w] ++ a). rewrite has_trigger_app, Hw, H. reflexivity.
Qed.
Lemma step_x_low_nt : forall c s i,
  match i with IPrecommit v => v_h v <= s_h s | _ => True end ->
  has_trigger (snd (fst (step_x c s i))) = false.
Proof.
  intros c s i L. destruct i as [r|p|v|v|k h r]; unfold step_x.
  - destruct (s_started s); [reflexivity|].
    pose proof (start_round_nt c (set_started s true) r) as H1.
    destruct (start_round c (set_started s true) r) as [s1 a].
    pose proof (loop_nt c FUEL s1 None) as H2. destruct (loop c FUEL s1 None) as [[s2 acts] ex]. cbn [fst snd] in *.
    change (AWalStart (s_h s2) :: a :: acts) with ([AWalStart (s_h s2)] ++ [a] ++ acts).
    rewrite !has_trigger_app, H1, H2. reflexivity.
  - destruct (vc_add_proposal c (s_vc s) p) as [vc ok].
    destruct (negb ok || _); [reflexivity|]. apply process_message_nt. reflexivity.
  - destruct (vc_add_vote c (s_vc s) Prevote v) as [vc ok].
    destruct (negb ok || _); [reflexivity|]. apply process_message_nt. reflexivity.
  - destruct (vc_add_vote c (s_vc s) Precommit v) as [vc ok].
    destruct (negb ok || _); [reflexivity|].
    assert (Hl : (s_h (set_vc s vc) <? v_h v) = false) by (simpl; lia).
    destruct (v_id v) as [id|]; [rewrite Hl; cbn [andb]|]; apply process_message_nt; reflexivity.
  - assert (T : has_trigger (snd (on_timeout c s k h r)) = false).
    { unfold on_timeout. destruct k.
      - destruct (_ && _); reflexivity.
      - destruct (_ && _); reflexivity.
      - destruct (_ && _); [|reflexivity]. pose proof (start_round_nt c s (r + 1)%Z) as X.
        destruct (start_round c s (r + 1)%Z) as [s' a]. cbn [snd] in *.
        change ([AWalTimeout SPrecommit h r; a]) with ([AWalTimeout SPrecommit h r] ++ [a]). rewrite has_trigger_app, X. reflexivity. }
    destruct (on_timeout c s k h r) as [s1 a0]. cbn [snd] in T.
    pose proof (loop_nt c FUEL s1 None) as H2. destruct (loop c FUEL s1 None) as [[s2 acts] ex]. cbn [fst snd] in *.
    rewrite has_trigger_app, T, H2. reflexivity.
Qed.

(* ---------- at the level of sm_step ---------- *)
Lemma sm_step_ltq : forall E s n i, has_trigger (snd (sm_step E s n i)) = false ->
  ltq (fst (fst (sm_step E s n i))) = ltq s.
Proof.
  intros E s n i. unfold sm_step. set (c := cfg_at E (s_h s) (in_round i) n).
  rewrite (step_step_x c (set_nval s 0) i). pose proof (step_x_ltq c (set_nval s 0) i) as H.
  destruct (step_x c (set_nval s 0) i) as [[s1 acts] ex]. cbn [fst snd] in *. intro T. exact (H T).
Qed.
Lemma sm_step_low_nt : forall E s n i,
  match i with IPrecommit v => v_h v <= s_h s | _ => True end -> has_trigger (snd (sm_step E s n i)) = false.
Proof.
  intros E s n i L. unfold sm_step. set (c := cfg_at E (s_h s) (in_round i) n).
  rewrite (step_step_x c (set_nval s 0) i). pose proof (step_x_low_nt c (set_nval s 0) i) as H.
  destruct (step_x c (set_nval s 0) i) as [[s1 acts] ex]. cbn [fst snd] in *. apply H. destruct i; exact L.
Qed.

(* obs_eq + equal sync bookkeeping = C12's st_sim *)
Lemma obs_ltq_sim : forall a b, obs_eq a b -> ltq a = ltq b -> st_sim a b.
Proof.
  intros a b [Hs Hv] Hl. unfold ltq in Hl. inversion Hl as [[H1 H2]]. unfold scal in Hs. inversion Hs.
  split; [unfold sscal; congruence|]. destruct Hv as [V1 V2]. split; [exact V1|]. intros h r Hh. exact (V2 h r Hh).
Qed.
Lemma sim_obs : forall a b, st_sim a b -> obs_eq a b /\ ltq a = ltq b.
Proof.
  intros a b [Hs Hv]. unfold sscal in Hs. inversion Hs. split; [|unfold ltq; congruence].
  split; [unfold scal; congruence|]. destruct Hv as [V1 V2]. split; [exact V1|]. intros h r Hh. exact (V2 h r Hh).
Qed.
