(* C13 — lemmas, part 15: continuing from a call boundary.  The live phase respects obs_eq, a call that does
   not commit leaves the height started, and therefore a process that is (up to obs_eq) in the state of a
   boundary of the killed life and is given the inputs that life had not yet consumed ends in the same
   consensus state as the life that was never killed. *)
From Coq Require Import List NArith ZArith Bool Lia ZifyN ZifyBool.
From V Require Import C12.Model C12.Proofs C13.Model C13.Proofs C13.Proofs_Commit C13.Proofs_Replay
  C13.Proofs_Obs C13.Proofs_ObsStep C13.Proofs_Shape C13.Proofs_Wal C13.Proofs_Crash C13.Proofs_Inv C13.Proofs_State.
Import ListNotations.
Open Scope N_scope.

Lemma exec_com : forall r acts w, snd (exec r w acts) = has_commit acts.
Proof.
  induction acts as [|a rest IH]; intros w; [reflexivity|].
  simpl. destruct r, a; simpl; try reflexivity; (fin_exec true IH || fin_exec false IH); exact IH'.
Qed.

Lemma has_commit_vis : forall l, has_commit (vis l) = has_commit l.
Proof.
  induction l as [|a l IH]; [reflexivity|]. unfold vis, has_commit in *. simpl.
  destruct a; simpl; rewrite ?IH; reflexivity.
Qed.

(* ---------- a call that does not commit keeps the height started ---------- *)
Lemma apply_rule_started : forall c s ru s' oa cont, apply_rule c s ru = (s', oa, cont) ->
  has_commit (olist oa) = false -> s_started s' = s_started s.
Proof.
  intros c s ru s' oa cont H Hc. destruct ru; simpl in H.
  - unfold do22, send_prevote in H. inversion H. reflexivity.
  - unfold do28, send_prevote in H. inversion H. reflexivity.
  - inversion H. reflexivity.
  - unfold do36 in H. destruct (step_eqb (s_step s) SPrevote); inversion H; reflexivity.
  - inversion H. reflexivity.
  - inversion H. reflexivity.
  - inversion H. subst. discriminate.
  - unfold start_round in H. destruct (c_proposer c (vc_h (s_vc (reset_state s r))) r =? c_self c).
    + destruct (s_vv (reset_state s r)); inversion H; reflexivity.
    + inversion H. reflexivity.
  - inversion H. reflexivity.
Qed.

Lemma loop_started : forall c fuel s rr, has_commit (snd (fst (loop c fuel s rr))) = false ->
  s_started (fst (fst (loop c fuel s rr))) = s_started s.
Proof.
  induction fuel as [|n IH]; intros s rr; cbn [loop]; [reflexivity|].
  destruct (apply_rule c s (select c s rr)) as [[s1 oa] cont] eqn:E. destruct cont.
  - specialize (IH s1 rr). destruct (loop c n s1 rr) as [[s2 more] ex]. cbn [fst snd] in *.
    rewrite has_commit_app. intro Hc. apply orb_false_iff in Hc. destruct Hc as [H1 H2].
    rewrite (IH H2). eapply apply_rule_started; eassumption.
  - cbn [fst snd]. intro Hc. eapply apply_rule_started; eassumption.
Qed.

Lemma start_round_started : forall c s r, s_started (fst (start_round c s r)) = s_started s.
Proof.
  intros. unfold start_round. destruct (c_proposer c (vc_h (s_vc (reset_state s r))) r =? c_self c).
  - destruct (s_vv (reset_state s r)); reflexivity.
  - reflexivity.
Qed.

Lemma step_x_started : forall c s i, has_commit (snd (fst (step_x c s i))) = false ->
  (s_started s = true \/ exists r, i = IStart r) -> s_started (fst (fst (step_x c s i))) = true.
Proof.
  intros c s i. destruct i as [r|p|v|v|k h r]; unfold step_x.
  - destruct (s_started s) eqn:St; [intros; cbn [fst snd]; exact St|].
    pose proof (start_round_started c (set_started s true) r) as S1.
    pose proof (start_round_nc c (set_started s true) r) as N.
    destruct (start_round c (set_started s true) r) as [s1 a].
    pose proof (loop_started c FUEL s1 None) as L. destruct (loop c FUEL s1 None) as [[s2 acts] ex]. cbn [fst snd] in *.
    intros Hc _. rewrite L; [exact S1|]. simpl in Hc. destruct a; try discriminate; simpl in Hc; exact Hc.
  - destruct (vc_add_proposal c (s_vc s) p) as [vc ok].
    destruct (negb ok || negb (s_started (set_vc s vc))); cbn [fst snd];
      [intros _ [H|[r H]]; [exact H|discriminate]|]. unfold process_message.
    destruct (negb (p_h p =? s_h (set_vc s vc))); cbn [fst snd]; [intros _ [H|[r H]]; [exact H|discriminate]|].
    pose proof (loop_started c FUEL (set_vc s vc) (Some (p_r p))) as L.
    destruct (loop c FUEL (set_vc s vc) (Some (p_r p))) as [[s2 acts] ex]. cbn [fst snd] in *.
    intros Hc [H|[r H]]; [|discriminate]. rewrite L; [exact H|exact Hc].
  - destruct (vc_add_vote c (s_vc s) Prevote v) as [vc ok].
    destruct (negb ok || negb (s_started (set_vc s vc))); cbn [fst snd];
      [intros _ [H|[r H]]; [exact H|discriminate]|]. unfold process_message.
    destruct (negb (v_h v =? s_h (set_vc s vc))); cbn [fst snd]; [intros _ [H|[r H]]; [exact H|discriminate]|].
    pose proof (loop_started c FUEL (set_vc s vc) (Some (v_r v))) as L.
    destruct (loop c FUEL (set_vc s vc) (Some (v_r v))) as [[s2 acts] ex]. cbn [fst snd] in *.
    intros Hc [H|[r H]]; [|discriminate]. rewrite L; [exact H|exact Hc].
  - destruct (vc_add_vote c (s_vc s) Precommit v) as [vc ok].
    destruct (negb ok || negb (s_started (set_vc s vc))); cbn [fst snd];
      [intros _ [H|[r H]]; [exact H|discriminate]|].
    match goal with |- context [if ?b then _ else _] => destruct b end;
      [unfold trigger_sync; cbn [fst snd]; intros _ [H|[r H]]; [exact H|discriminate]|].
    unfold process_message.
    destruct (negb (v_h v =? s_h (set_vc s vc))); cbn [fst snd]; [intros _ [H|[r H]]; [exact H|discriminate]|].
    pose proof (loop_started c FUEL (set_vc s vc) (Some (v_r v))) as L.
    destruct (loop c FUEL (set_vc s vc) (Some (v_r v))) as [[s2 acts] ex]. cbn [fst snd] in *.
    intros Hc [H|[r H]]; [|discriminate]. rewrite L; [exact H|exact Hc].
  - assert (T : s_started (fst (on_timeout c s k h r)) = s_started s /\ has_commit (snd (on_timeout c s k h r)) = false).
    { unfold on_timeout. destruct k.
      - destruct ((s_h s =? h) && (s_r s =? r)%Z && step_eqb (s_step s) SPropose); split; reflexivity.
      - destruct ((s_h s =? h) && (s_r s =? r)%Z && step_eqb (s_step s) SPrevote); split; reflexivity.
      - destruct ((s_h s =? h) && (s_r s =? r)%Z); [|split; reflexivity].
        pose proof (start_round_started c s (r + 1)%Z) as S1. pose proof (start_round_nc c s (r + 1)%Z) as N.
        destruct (start_round c s (r + 1)%Z) as [s' a]. cbn [fst snd] in *. split; [exact S1|].
        simpl. destruct a; try discriminate; reflexivity. }
    destruct (on_timeout c s k h r) as [s1 acts0]. cbn [fst snd] in T. destruct T as [T1 T2].
    pose proof (loop_started c FUEL s1 None) as L. destruct (loop c FUEL s1 None) as [[s2 acts] ex]. cbn [fst snd] in *.
    rewrite has_commit_app, T2. cbn [orb]. intros Hc [H|[r0 H]]; [|discriminate]. rewrite L; [rewrite T1; exact H|exact Hc].
Qed.

Section Tail.
  Variable E : env.
  Hypothesis Hdet : value_deterministic E.
  Hypothesis Qpos : quorum_positive E.

  (* ---------- the live phase respects obs_eq (the log plays no role for the state machine) ---------- *)
  Lemma dstep_obs : forall r d d' i, obs_eq (d_sm d) (d_sm d') ->
    obs_eq (d_sm (fst (fst (dstep E r d i)))) (d_sm (fst (fst (dstep E r d' i)))) /\
    snd (dstep E r d i) = snd (dstep E r d' i).
  Proof.
    intros r d d' i H. rewrite !dstep_spec. unfold sm_of. cbn [fst snd d_sm]. rewrite !exec_com.
    destruct (sm_step_det E Hdet (d_sm d') (d_calls d') (d_calls d) i) as [D1 D2]. rewrite D1, D2.
    destruct (sm_step_obs E Qpos (d_sm d) (d_sm d') (d_calls d) i H) as [A [_ C]].
    split; [exact A|]. rewrite <- has_commit_vis, C, has_commit_vis. reflexivity.
  Qed.

  Lemma starts_obs : forall fuel d d', obs_eq (d_sm d) (d_sm d') ->
    obs_eq (d_sm (fst (starts E fuel d))) (d_sm (fst (starts E fuel d'))).
  Proof.
    induction fuel as [|n IH]; intros d d' H; cbn [starts]; [exact H|].
    destruct (dstep_obs false d d' (IStart 0) H) as [A B].
    destruct (dstep E false d (IStart 0)) as [[d1 e1] c1], (dstep E false d' (IStart 0)) as [[d2 e2] c2].
    cbn [fst snd] in *. subst c2. destruct c1; [|exact A].
    specialize (IH d1 d2 A). destruct (starts E n d1), (starts E n d2). exact IH.
  Qed.

  Lemma listen_obs : forall ins d d', obs_eq (d_sm d) (d_sm d') ->
    obs_eq (d_sm (fst (listen E d ins))) (d_sm (fst (listen E d' ins))).
  Proof.
    induction ins as [|i rest IH]; intros d d' H; cbn [listen]; [exact H|].
    destruct (dstep_obs false d d' i H) as [A B].
    destruct (dstep E false d i) as [[d1 e1] c1], (dstep E false d' i) as [[d2 e2] c2].
    cbn [fst snd] in *. subst c2.
    assert (S : obs_eq (d_sm (fst (if c1 then starts E SFUEL d1 else (d1, []))))
                       (d_sm (fst (if c1 then starts E SFUEL d2 else (d2, []))))).
    { destruct c1; [apply starts_obs; exact A|exact A]. }
    destruct (if c1 then starts E SFUEL d1 else (d1, [])) as [x1 t1], (if c1 then starts E SFUEL d2 else (d2, [])) as [x2 t2].
    cbn [fst] in S. specialize (IH x1 x2 S). destruct (listen E x1 rest), (listen E x2 rest). exact IH.
  Qed.

  Lemma run_live_obs : forall ins d d', obs_eq (d_sm d) (d_sm d') ->
    obs_eq (d_sm (fst (run_live E d ins))) (d_sm (fst (run_live E d' ins))).
  Proof.
    intros ins d d' H. unfold run_live. pose proof (starts_obs SFUEL d d' H) as S.
    destruct (starts E SFUEL d) as [x1 t1], (starts E SFUEL d') as [x2 t2]. cbn [fst] in S.
    pose proof (listen_obs ins x1 x2 S) as L. destruct (listen E x1 ins), (listen E x2 ins). exact L.
  Qed.

  (* ProcessStart on a started height does nothing *)
  Lemma run_live_started : forall ins d, s_started (d_sm d) = true -> s_nval (d_sm d) = 0 ->
    obs_eq (d_sm (fst (run_live E d ins))) (d_sm (fst (listen E d ins))).
  Proof.
    intros ins d St Nv. unfold run_live, SFUEL. cbn [starts].
    pose proof (dstep_spec E false d (IStart 0)) as S. unfold sm_of, sm_step in S.
    rewrite (step_step_x _ (set_nval (d_sm d) 0) (IStart 0)) in S. unfold step_x in S.
    assert (St' : s_started (set_nval (d_sm d) 0) = true) by exact St. rewrite St' in S. cbn [fst snd exec] in S.
    rewrite S. cbn [fst snd].
    match goal with |- context [listen E ?x ins] => assert (O : obs_eq (d_sm x) (d_sm d)) end.
    { cbn [d_sm]. apply obs_eq_sym. apply obs_eq_set_nval0 in Nv.
      eapply obs_eq_trans; [exact Nv|]. apply (set_nval_obs _ _ 0 Nv). }
    pose proof (listen_obs ins _ _ O) as L.
    match goal with |- context [listen E ?x ins] => destruct (listen E x ins) end. exact L.
  Qed.
  (* ---------- what good_step tells about one call of the live phase ---------- *)
  Lemma good_step_after : forall d i, good_step E d i = true ->
    (s_started (d_sm d) = true \/ exists r, i = IStart r) ->
    snd (dstep E false d i) = false ->
    s_started (d_sm (fst (fst (dstep E false d i)))) = true /\ s_nval (d_sm (fst (fst (dstep E false d i)))) = 0.
  Proof.
    intros d i G St. rewrite dstep_spec. unfold sm_of. cbn [fst snd d_sm]. rewrite exec_com.
    unfold sm_step. rewrite (step_step_x _ (set_nval (d_sm d) 0) i).
    pose proof (step_x_started (cfg_at E (s_h (d_sm d)) (in_round i) (d_calls d)) (set_nval (d_sm d) 0) i) as X.
    destruct (step_x _ (set_nval (d_sm d) 0) i) as [[s1 acts] ex]. cbn [fst snd] in *.
    intro Hc. split; [|reflexivity]. apply X; [exact Hc|exact St].
  Qed.

  Lemma good_start_shape : forall n d rest, starts_good E (S n) d = true ->
    snd (dstep E false d (IStart 0)) = false /\
    fst (starts E (S n) d) = fst (fst (dstep E false d (IStart 0))) /\
    starts_states E (S n) d rest = [(d_sm (fst (fst (dstep E false d (IStart 0)))), rest)] /\
    s_started (d_sm (fst (starts E (S n) d))) = true /\ s_nval (d_sm (fst (starts E (S n) d))) = 0.
  Proof.
    intros n d rest G. cbn [starts_good] in G. apply andb_prop in G. destruct G as [G1 _].
    assert (Hc : snd (dstep E false d (IStart 0)) = false).
    { pose proof G1 as G. unfold good_step, good_body in G. apply andb_prop in G. destruct G as [_ G].
      apply andb_prop in G. destruct G as [_ G]. apply negb_true_iff in G.
      rewrite dstep_spec. cbn [snd]. rewrite exec_com. exact G. }
    destruct (good_step_after d (IStart 0) G1 (or_intror (ex_intro _ 0%Z eq_refl)) Hc) as [A B].
    cbn [starts starts_states]. destruct (dstep E false d (IStart 0)) as [[d1 eff] com]. cbn [fst snd] in *.
    subst com. cbn [fst snd]. auto.
  Qed.

  (* ---------- continuing from any boundary of a plain life ---------- *)
  Lemma tail_listen : forall ins d, listen_good E d ins = true ->
    s_started (d_sm d) = true -> s_nval (d_sm d) = 0 ->
    forall sd rest, In (sd, rest) (listen_states E d ins) ->
    forall d', obs_eq (d_sm d') sd -> s_nval (d_sm d') = 0 ->
      obs_eq (d_sm (fst (run_live E d' rest))) (d_sm (fst (listen E d ins))).
  Proof.
    induction ins as [|i rest0 IH]; intros d G St Nv sd rest Hin d' Ho Nv'; [contradiction|].
    cbn [listen_good listen_states listen] in *. apply andb_prop in G. destruct G as [G1 G].
    pose proof (good_step_after d i G1 (or_introl St)) as After.
    destruct (dstep E false d i) as [[d1 eff] com]. cbn [fst snd] in *.
    apply andb_prop in G. destruct G as [G2 G3].
    (* the state the listen loop continues from *)
    assert (Next : exists d2, (if com then starts E SFUEL d1 else (d1, [])) = (d2, snd (if com then starts E SFUEL d1 else (d1, []))) /\
              (if com then fst (starts E SFUEL d1) else d1) = d2 /\
              s_started (d_sm d2) = true /\ s_nval (d_sm d2) = 0 /\
              (com = true -> In (d_sm d2, rest0) (starts_states E SFUEL d1 rest0) /\ fst (starts E SFUEL d1) = d2) /\
              forall sd' r', In (sd', r') (if com then starts_states E SFUEL d1 rest0 else []) -> sd' = d_sm d2 /\ r' = rest0).
    { destruct com.
      - destruct (good_start_shape 31 d1 rest0 G2) as [_ [S2 [S3 [S4 S5]]]]. fold SFUEL in *.
        exists (fst (starts E SFUEL d1)). split; [destruct (starts E SFUEL d1); reflexivity|].
        split; [reflexivity|]. split; [exact S4|]. split; [exact S5|]. split.
        + intros _. split; [rewrite S3, S2; left; reflexivity|reflexivity].
        + intros sd' r' Hx. rewrite S3 in Hx. destruct Hx as [Hx|[]]. inversion Hx. rewrite S2. auto.
      - destruct (After eq_refl) as [A B]. exists d1.
        split; [reflexivity|]. split; [reflexivity|]. split; [exact A|]. split; [exact B|].
        split; [discriminate|]. intros x y []. }
    destruct Next as [d2 [E1 [E2 [St2 [Nv2 [Cm Only]]]]]]. rewrite E2 in G3.
    assert (Goal2 : forall dd, obs_eq (d_sm dd) (d_sm d2) -> s_nval (d_sm dd) = 0 ->
              obs_eq (d_sm (fst (run_live E dd rest0))) (d_sm (fst (listen E d2 rest0)))).
    { intros dd Hd Hn. eapply obs_eq_trans; [apply (run_live_obs rest0 dd d2 Hd)|].
      apply run_live_started; assumption. }
    rewrite E1. cbn [fst snd]. destruct (listen E d2 rest0) as [d3 tr3] eqn:EL. cbn [fst snd].
    rewrite E2 in Hin.
    destruct Hin as [Hin|Hin].
    - inversion Hin. subst sd rest. destruct com.
      + (* boundary right after the committing call: the life continues with the starts *)
        destruct (Cm eq_refl) as [_ Cm2].
        pose proof (run_live_obs rest0 d' d1 Ho) as R. unfold run_live in R at 2.
        rewrite <- Cm2 in EL. destruct (starts E SFUEL d1) as [x t]. cbn [fst] in EL. rewrite EL in R. exact R.
      + assert (d1 = d2) by (inversion E1; reflexivity). subst d2.
        exact (Goal2 d' Ho Nv').
    - apply in_app_or in Hin. destruct Hin as [Hin|Hin].
      + destruct (Only _ _ Hin) as [-> ->]. exact (Goal2 d' Ho Nv').
      + pose proof (IH d2 G3 St2 Nv2 sd rest Hin d' Ho Nv') as R. rewrite EL in R. exact R.
  Qed.
End Tail.

Lemma replay_nval : forall E es d, s_nval (d_sm d) = 0 -> s_nval (d_sm (fst (replay E d es))) = 0.
Proof.
  induction es as [|e rest IH]; intros d H; cbn [replay]; [exact H|].
  destruct (entry_height e <? s_h (d_sm d)); [apply IH; exact H|].
  pose proof (dstep_spec E true d (input_of_entry e)) as S. unfold sm_of, sm_step in S.
  destruct (step _ (set_nval (d_sm d) 0) (input_of_entry e)) as [s1 acts]. cbn [fst snd] in S.
  destruct (dstep E true d (input_of_entry e)) as [[d1 eff] com]. injection S as -> _ _.
  specialize (IH (mkD (set_nval s1 0) (fst (fst (exec true (d_wal d) acts))) (d_calls d + s_nval s1)) eq_refl).
  destruct (replay E _ rest) as [d2 tr]. exact IH.
Qed.

Lemma tail_life : forall E, value_deterministic E -> quorum_positive E -> forall h0 ins,
  good_run E h0 ins = true ->
  forall sd rest, In (sd, rest) (life_states E h0 ins) ->
  forall d', obs_eq (d_sm d') sd -> s_nval (d_sm d') = 0 ->
    obs_eq (d_sm (fst (run_live E d' rest))) (d_sm (fst (lifetime E h0 [] 0 ins))).
Proof.
  intros E Hdet Q h0 ins G sd rest Hin d' Ho Nv.
  unfold good_run in G. apply andb_prop in G. destruct G as [G G3]. apply andb_prop in G. destruct G as [_ G2].
  unfold lifetime, recover. cbn [load live_entries index_of fold_left sort_h snd replay app].
  unfold life_states in Hin.
  destruct (good_start_shape E 31 (boot h0 [] 0) ins G2) as [_ [S2 [S3 [S4 S5]]]]. fold SFUEL in *.
  assert (RL : obs_eq (d_sm (fst (run_live E (boot h0 [] 0) ins)))
                      (d_sm (fst (listen E (fst (starts E SFUEL (boot h0 [] 0))) ins)))).
  { unfold run_live. destruct (starts E SFUEL (boot h0 [] 0)) as [x t]. cbn [fst].
    destruct (listen E x ins). apply obs_eq_refl. }
  assert (Fin : d_sm (fst (let '(d2, tr2) := run_live E (boot h0 [] 0) ins in (d2, tr2))) =
                d_sm (fst (run_live E (boot h0 [] 0) ins))) by (destruct (run_live E (boot h0 [] 0) ins); reflexivity).
  rewrite Fin.
  destruct Hin as [Hin|Hin].
  - inversion Hin. subst sd rest. apply (run_live_obs E Hdet Q ins d' (boot h0 [] 0)). exact Ho.
  - apply in_app_or in Hin. destruct Hin as [Hin|Hin].
    + rewrite S3 in Hin. destruct Hin as [Hin|[]]. inversion Hin. subst sd rest. rewrite <- S2 in Ho.
      eapply obs_eq_trans; [apply (run_live_obs E Hdet Q ins d' _ Ho)|].
      eapply obs_eq_trans; [apply (run_live_started E Hdet Q ins _ S4 S5)|]. apply obs_eq_sym. exact RL.
    + eapply obs_eq_trans; [apply (tail_listen E Hdet Q ins _ G3 S4 S5 sd rest Hin d' Ho Nv)|].
      apply obs_eq_sym. exact RL.
Qed.

(* C13_same_final_state, plain runs *)
Lemma same_final_plain : forall E h0 ins1 k n2,
  value_deterministic E -> quorum_positive E -> good_run E h0 ins1 = true ->
  let effs := flat (snd (lifetime E h0 [] 0 ins1)) in
  let pre := firstn k effs in
  exists sd rest, In (sd, rest) (life_states E h0 ins1) /\
    obs_eq (d_sm (fst (recover E (resume_height h0 pre) (crash_at k effs []) n2))) sd /\
    obs_eq (d_sm (fst (lifetime E (resume_height h0 pre) (crash_at k effs []) n2 rest)))
           (d_sm (fst (lifetime E h0 [] 0 ins1))).
Proof.
  intros E h0 ins1 k n2 Hdet Q G effs pre.
  destruct (replay_prefix_plain E h0 ins1 k n2 Hdet Q G) as [[sd [rest [Hin Ho]]] _]. fold effs pre in Ho.
  exists sd, rest. split; [exact Hin|]. split; [exact Ho|].
  unfold lifetime at 1.
  pose proof (replay_nval E (load (crash_at k effs [])) (boot (resume_height h0 pre) (crash_at k effs []) n2) eq_refl) as Nv.
  unfold recover in *.
  destruct (replay E (boot (resume_height h0 pre) (crash_at k effs []) n2) (load (crash_at k effs []))) as [d1 tr1].
  cbn [fst] in *.
  pose proof (tail_life E Hdet Q h0 ins1 G sd rest Hin d1 Ho Nv) as T.
  destruct (run_live E d1 rest) as [d2 tr2]. exact T.
Qed.
