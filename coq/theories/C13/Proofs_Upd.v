(* C13 — lemmas, part 17: messages as pure updates of one vote-counter cell, and the commutation of such an
   update for a FUTURE height with any call of the current height (up to obs_eq). *)
From Coq Require Import List NArith ZArith Bool Lia ZifyN ZifyBool.
From V Require Import C12.Model C12.Proofs C13.Model C13.Proofs_Commit C13.Proofs_Obs C13.Proofs_ObsStep
  C13.Proofs_Cells C13.Proofs_Shape C13.Proofs_Wal C13.Proofs_Crash C13.Proofs_Fut.
Import ListNotations.
Open Scope N_scope.

(* ---------- the height moves by exactly one per Commit ---------- *)
Definition hbump (acts : list action) : N := if has_commit acts then 1 else 0.

Lemma apply_rule_h : forall c s ru s' oa cont, apply_rule c s ru = (s', oa, cont) ->
  s_h s' = s_h s + hbump (olist oa).
Proof.
  intros c s ru s' oa cont H. unfold hbump. destruct ru; simpl in H.
  - unfold do22, send_prevote in H. inversion H. simpl. lia.
  - unfold do28, send_prevote in H. inversion H. simpl. lia.
  - inversion H. simpl. lia.
  - unfold do36 in H. destruct (step_eqb (s_step s) SPrevote); inversion H; simpl; lia.
  - inversion H. simpl. lia.
  - inversion H. simpl. lia.
  - inversion H. simpl. lia.
  - pose proof (start_round_cells c s r) as X. pose proof (start_round_nc c s r) as N.
    unfold start_round in *. destruct (c_proposer c (vc_h (s_vc (reset_state s r))) r =? c_self c).
    + destruct (s_vv (reset_state s r)); inversion H; simpl; lia.
    + inversion H. simpl. lia.
  - inversion H. simpl. lia.
Qed.

Lemma loop_h : forall c fuel s rr,
  s_h (fst (fst (loop c fuel s rr))) = s_h s + hbump (snd (fst (loop c fuel s rr))).
Proof.
  induction fuel as [|n IH]; intros s rr; cbn [loop]; [unfold hbump; simpl; lia|].
  destruct (apply_rule c s (select c s rr)) as [[s1 oa] cont] eqn:E.
  pose proof (apply_rule_h _ _ _ _ _ _ E) as H1. destruct cont.
  - specialize (IH s1 rr). destruct (loop c n s1 rr) as [[s2 more] ex]. cbn [fst snd] in *.
    assert (Hoa : has_commit (olist oa) = false).
    { destruct oa as [a|]; [|reflexivity]. pose proof (apply_rule_cont c s _ s1 a E). simpl. destruct a; try discriminate; reflexivity. }
    unfold hbump in *. rewrite has_commit_app, Hoa in *. simpl in *. lia.
  - cbn [fst snd]. exact H1.
Qed.

Lemma start_round_h : forall c s r, s_h (fst (start_round c s r)) = s_h s.
Proof.
  intros. unfold start_round. destruct (c_proposer c (vc_h (s_vc (reset_state s r))) r =? c_self c).
  - destruct (s_vv (reset_state s r)); reflexivity.
  - reflexivity.
Qed.

Lemma step_x_h : forall c s i,
  s_h (fst (fst (step_x c s i))) = s_h s + hbump (snd (fst (step_x c s i))).
Proof.
  intros c s i. destruct i as [r|p|v|v|k h r]; unfold step_x.
  - destruct (s_started s); [unfold hbump; simpl; lia|].
    pose proof (start_round_h c (set_started s true) r) as S1. pose proof (start_round_nc c (set_started s true) r) as N.
    destruct (start_round c (set_started s true) r) as [s1 a].
    pose proof (loop_h c FUEL s1 None) as L. destruct (loop c FUEL s1 None) as [[s2 acts] ex]. cbn [fst snd] in *.
    unfold hbump in *. simpl. destruct a; try discriminate; simpl in *; lia.
  - destruct (vc_add_proposal c (s_vc s) p) as [vc ok].
    destruct (negb ok || negb (s_started (set_vc s vc))); [unfold hbump; simpl; lia|]. unfold process_message.
    destruct (negb (p_h p =? s_h (set_vc s vc))); [unfold hbump; simpl; lia|].
    pose proof (loop_h c FUEL (set_vc s vc) (Some (p_r p))) as L.
    destruct (loop c FUEL (set_vc s vc) (Some (p_r p))) as [[s2 acts] ex]. cbn [fst snd] in *. unfold hbump in *. simpl in *. exact L.
  - destruct (vc_add_vote c (s_vc s) Prevote v) as [vc ok].
    destruct (negb ok || negb (s_started (set_vc s vc))); [unfold hbump; simpl; lia|]. unfold process_message.
    destruct (negb (v_h v =? s_h (set_vc s vc))); [unfold hbump; simpl; lia|].
    pose proof (loop_h c FUEL (set_vc s vc) (Some (v_r v))) as L.
    destruct (loop c FUEL (set_vc s vc) (Some (v_r v))) as [[s2 acts] ex]. cbn [fst snd] in *. unfold hbump in *. simpl in *. exact L.
  - destruct (vc_add_vote c (s_vc s) Precommit v) as [vc ok].
    destruct (negb ok || negb (s_started (set_vc s vc))); [unfold hbump; simpl; lia|].
    match goal with |- context [if ?b then _ else _] => destruct b end; [unfold hbump, trigger_sync; simpl; lia|].
    unfold process_message.
    destruct (negb (v_h v =? s_h (set_vc s vc))); [unfold hbump; simpl; lia|].
    pose proof (loop_h c FUEL (set_vc s vc) (Some (v_r v))) as L.
    destruct (loop c FUEL (set_vc s vc) (Some (v_r v))) as [[s2 acts] ex]. cbn [fst snd] in *. unfold hbump in *. simpl in *. exact L.
  - pose proof (on_timeout_cells c s k h r) as OT. pose proof (on_timeout_nc c s k h r) as N.
    assert (Hh : s_h (fst (on_timeout c s k h r)) = s_h s).
    { unfold on_timeout. destruct k.
      - destruct ((s_h s =? h) && (s_r s =? r)%Z && step_eqb (s_step s) SPropose); reflexivity.
      - destruct ((s_h s =? h) && (s_r s =? r)%Z && step_eqb (s_step s) SPrevote); reflexivity.
      - destruct ((s_h s =? h) && (s_r s =? r)%Z); [|reflexivity].
        pose proof (start_round_h c s (r + 1)%Z) as X. destruct (start_round c s (r + 1)%Z). exact X. }
    destruct (on_timeout c s k h r) as [s1 a0]. cbn [fst snd] in *.
    pose proof (loop_h c FUEL s1 None) as L. destruct (loop c FUEL s1 None) as [[s2 acts] ex]. cbn [fst snd] in *.
    unfold hbump in *. rewrite has_commit_app, N. simpl. lia.
Qed.

(* ---------- messages as updates of one cell ---------- *)
Definition is_msg (e : entry) : bool :=
  match e with EProposal _ | EPrevote _ | EPrecommit _ => true | _ => false end.
Definition msg_round (e : entry) : Z :=
  match e with EProposal p => p_r p | EPrevote v => v_r v | EPrecommit v => v_r v | _ => 0%Z end.
(* what the message does to the round data of its own cell *)
Definition cell_fn (c : cfg) (e : entry) : rdata -> rdata * bool :=
  match e with
  | EProposal p => fun rd => if negb (p_from p =? c_proposer c (p_h p) (p_r p)) then (rd, false)
                            else r_set_proposal rd p (c_power c (p_h p) (p_from p))
  | EPrevote v => fun rd => r_add_vote rd v (c_power c (v_h v) (v_from v)) Prevote
  | EPrecommit v => fun rd => r_add_vote rd v (c_power c (v_h v) (v_from v)) Precommit
  | _ => fun rd => (rd, false)
  end.
Definition vc_upd (c : cfg) (vc : vcounter) (e : entry) : vcounter :=
  if is_msg e then fst (vc_with vc (ht e) (msg_round e) (cell_fn c e)) else vc.
Definition upd (c : cfg) (s : state) (e : entry) : state := set_vc s (vc_upd c (s_vc s) e).
Definition upds (c : cfg) (s : state) (l : list entry) : state := fold_left (upd c) l s.

Lemma vc_upd_add : forall c vc e,
  vc_upd c vc e = match e with
                  | EProposal p => fst (vc_add_proposal c vc p)
                  | EPrevote v => fst (vc_add_vote c vc Prevote v)
                  | EPrecommit v => fst (vc_add_vote c vc Precommit v)
                  | _ => vc end.
Proof. intros c vc e. destruct e; reflexivity. Qed.

Lemma vc_upd_h : forall c vc e, vc_h (vc_upd c vc e) = vc_h vc.
Proof. intros. unfold vc_upd. destruct (is_msg e); [apply vc_with_h|reflexivity]. Qed.

(* cells after an update: only the message's own cell changes *)
Lemma vc_upd_cell : forall c vc e h' r', is_msg e = true -> vc_h vc <= h' ->
  cell (vc_upd c vc e) h' r' =
  if (h' =? ht e) && (r' =? msg_round e)%Z then fst (cell_fn c e (cell vc (ht e) (msg_round e))) else cell vc h' r'.
Proof.
  intros c vc e h' r' M Hh. unfold vc_upd. rewrite M.
  destruct (N.lt_ge_cases (ht e) (vc_h vc)) as [L|G].
  - rewrite vc_with_low by exact L. cbn [fst]. destruct (h' =? ht e) eqn:E1; [lia|reflexivity].
  - destruct (vc_with_spec vc (ht e) (msg_round e) (cell_fn c e) G) as [_ [_ A]]. apply A. exact Hh.
Qed.

Lemma upd_scal : forall c s e, scal (upd c s e) = scal s.
Proof. reflexivity. Qed.
Lemma upd_wf : forall c s e, WF s -> WF (upd c s e).
Proof. intros c s e W. unfold WF, upd in *. simpl. rewrite vc_upd_h. exact W. Qed.

(* an update respects the equivalence *)
Lemma upd_obs : forall c s s' e, obs_eq s s' -> obs_eq (upd c s e) (upd c s' e).
Proof.
  intros c s s' e [Hs Hv]. split; [exact Hs|]. unfold upd, vc_upd. cbn [s_vc set_vc].
  destruct (is_msg e); [|exact Hv]. apply vc_with_eq. exact Hv.
Qed.
Lemma upds_obs : forall c l s s', obs_eq s s' -> obs_eq (upds c s l) (upds c s' l).
Proof. induction l as [|e l IH]; intros s s' H; simpl; [exact H|]. apply IH. apply upd_obs. exact H. Qed.
Lemma upds_app : forall c s a b, upds c s (a ++ b) = upds c (upds c s a) b.
Proof. intros. unfold upds. apply fold_left_app. Qed.
Lemma upds_scal : forall c l s, scal (upds c s l) = scal s.
Proof. induction l as [|e l IH]; intros s; simpl; [reflexivity|]. rewrite IH. apply upd_scal. Qed.
Lemma upds_wf : forall c l s, WF s -> WF (upds c s l).
Proof. induction l as [|e l IH]; intros s W; simpl; [exact W|]. apply IH. apply upd_wf. exact W. Qed.

(* updates of different heights commute *)
Lemma upd_comm : forall c s a b, is_msg a = true -> is_msg b = true -> ht a <> ht b ->
  obs_eq (upd c (upd c s a) b) (upd c (upd c s b) a).
Proof.
  intros c s a b Ma Mb Hne. split; [reflexivity|]. unfold upd. cbn [s_vc set_vc].
  split; [rewrite !vc_upd_h; reflexivity|]. intros h' r' Hh. rewrite !vc_upd_h in Hh.
  assert (Low : forall x v, is_msg x = true -> ht x < vc_h v -> vc_upd c v x = v).
  { intros x v Mx Lx. unfold vc_upd. rewrite Mx, vc_with_low by exact Lx. reflexivity. }
  destruct (N.lt_ge_cases (ht a) (vc_h (s_vc s))) as [La|Ga].
  { rewrite (Low a (s_vc s) Ma La). rewrite (Low a (vc_upd c (s_vc s) b) Ma) by (rewrite vc_upd_h; exact La). reflexivity. }
  destruct (N.lt_ge_cases (ht b) (vc_h (s_vc s))) as [Lb|Gb].
  { rewrite (Low b (s_vc s) Mb Lb). rewrite (Low b (vc_upd c (s_vc s) a) Mb) by (rewrite vc_upd_h; exact Lb). reflexivity. }
  rewrite (vc_upd_cell c (vc_upd c (s_vc s) a) b h' r' Mb) by (rewrite vc_upd_h; exact Hh).
  rewrite (vc_upd_cell c (vc_upd c (s_vc s) b) a h' r' Ma) by (rewrite vc_upd_h; exact Hh).
  rewrite (vc_upd_cell c (s_vc s) a (ht b) (msg_round b) Ma Gb).
  rewrite (vc_upd_cell c (s_vc s) b (ht a) (msg_round a) Mb Ga).
  rewrite (vc_upd_cell c (s_vc s) a h' r' Ma Hh), (vc_upd_cell c (s_vc s) b h' r' Mb Hh).
  assert (N1 : (ht b =? ht a) = false) by lia. assert (N2 : (ht a =? ht b) = false) by lia.
  rewrite N1, N2. cbn [andb].
  destruct (h' =? ht a) eqn:E1, (h' =? ht b) eqn:E2; cbn [andb]; try reflexivity. lia.
Qed.

(* ---------- an update for a future height commutes with a call of the current height ---------- *)
Lemma vc_upd_vwf : forall c vc e, is_msg e = true -> vc_h vc < ht e ->
  vc_upd c vc e = vwf vc (vc_future (vc_upd c vc e)).
Proof.
  intros c vc e M L. unfold vc_upd. rewrite M. unfold vc_with, vwf.
  destruct (ht e <? vc_h vc) eqn:E1; [lia|]. destruct (ht e =? vc_h vc) eqn:E2; [lia|].
  match goal with |- context [let '(rd', ok) := ?X in _] => destruct X as [rd' ok] end. reflexivity.
Qed.

Lemma cell_mk_cur : forall g R F r', cell (mkVC g R F) g r' = rm_get R r'.
Proof. intros. unfold cell, row. simpl. rewrite N.eqb_refl. reflexivity. Qed.
Lemma cell_mk_fut : forall g R F h' r', h' <> g -> cell (mkVC g R F) h' r' = rm_get (flook F h') r'.
Proof. intros. unfold cell, row, fut, flook. simpl. destruct (h' =? g) eqn:E; [lia|reflexivity]. Qed.

Lemma step_upd_comm : forall c y m i, WF y -> is_msg m = true -> s_h y < ht m -> input_low y i ->
  obs_eq (fst (fst (step_x c (upd c y m) i))) (upd c (fst (fst (step_x c y i))) m) /\
  snd (fst (step_x c (upd c y m) i)) = snd (fst (step_x c y i)).
Proof.
  intros c y m i W M Hm L.
  assert (Wv : vc_h (s_vc y) = s_h y) by exact W.
  set (F' := vc_future (vc_upd c (s_vc y) m)).
  assert (Eu : upd c y m = with_fut y F').
  { unfold upd, with_fut. f_equal. apply vc_upd_vwf; [exact M|lia]. }
  rewrite Eu, (pt_step_x c y F' i W L).
  destruct (step_x_cells c y i W L) as [W' [Ab _]]. pose proof (step_x_h c y i) as Hh.
  destruct (step_x c y i) as [[s' acts] ex]. cbn [fst snd] in *. split; [|reflexivity].
  assert (Wv' : vc_h (s_vc s') = s_h s') by exact W'.
  (* cells of the counter of (upd y m), i.e. of the buffer F' *)
  assert (CF : forall h' r', s_h y < h' -> rm_get (flook F' h') r' =
             if (h' =? ht m) && (r' =? msg_round m)%Z then fst (cell_fn c m (cell (s_vc y) (ht m) (msg_round m)))
             else cell (s_vc y) h' r').
  { intros h' r' Hlt. rewrite <- (vc_upd_cell c (s_vc y) m h' r' M) by lia.
    rewrite (vc_upd_vwf c (s_vc y) m M) by lia. fold F'. unfold vwf. rewrite cell_mk_fut by lia. reflexivity. }
  split; [unfold after_fut; destruct (has_commit acts); reflexivity|].
  unfold after_fut, hbump in *. destruct (has_commit acts).
  - (* committed *)
    unfold commit_fut, upd. cbn [s_vc set_vc]. split; [cbn [vc_h]; rewrite vc_upd_h; reflexivity|].
    cbn [vc_h]. intros h' r' Hge. rewrite (vc_upd_cell c (s_vc s') m h' r' M Hge).
    rewrite (Ab (ht m) (msg_round m)) by lia.
    destruct (N.eq_dec h' (vc_h (s_vc s'))) as [->|Hne].
    + rewrite cell_mk_cur, CF by lia. rewrite (Ab (vc_h (s_vc s'))) by lia. reflexivity.
    + rewrite cell_mk_fut by exact Hne. unfold flook. rewrite aget_adel_N.
      destruct (h' =? vc_h (s_vc s')) eqn:E; [lia|]. fold (flook F' h'). rewrite CF by lia.
      rewrite (Ab h') by lia. reflexivity.
  - (* no commit *)
    unfold with_fut, upd, vwf. cbn [s_vc set_vc]. split; [cbn [vc_h]; rewrite vc_upd_h; reflexivity|].
    cbn [vc_h]. intros h' r' Hge. rewrite (vc_upd_cell c (s_vc s') m h' r' M Hge).
    rewrite (Ab (ht m) (msg_round m)) by lia.
    destruct (N.eq_dec h' (vc_h (s_vc s'))) as [->|Hne].
    + rewrite cell_mk_cur. destruct (vc_h (s_vc s') =? ht m) eqn:E; [lia|]. cbn [andb].
      unfold cell, row. rewrite N.eqb_refl. reflexivity.
    + rewrite cell_mk_fut by exact Hne. rewrite CF by lia. rewrite (Ab h') by lia. reflexivity.
Qed.

Lemma step_upds_comm : forall c F y i, WF y -> Forall (fun m => is_msg m = true /\ s_h y < ht m) F -> input_low y i ->
  obs_eq (fst (fst (step_x c (upds c y F) i))) (upds c (fst (fst (step_x c y i))) F) /\
  snd (fst (step_x c (upds c y F) i)) = snd (fst (step_x c y i)).
Proof.
  intros c F. induction F as [|m F IH] using rev_ind; intros y i W HF L.
  - simpl. split; [apply obs_eq_refl|reflexivity].
  - apply Forall_app in HF. destruct HF as [HF Hm]. inversion Hm as [|a b [M Hlt] _]. subst.
    rewrite !upds_app. cbn [upds fold_left].
    assert (Sh : s_h (upds c y F) = s_h y).
    { pose proof (upds_scal c F y) as X. unfold scal in X. inversion X. reflexivity. }
    assert (L' : input_low (upds c y F) i) by (destruct i; simpl in *; rewrite ?Sh; exact L).
    destruct (step_upd_comm c (upds c y F) m i (upds_wf c F y W) M ltac:(lia) L') as [A B].
    destruct (IH y i W HF L) as [A2 B2]. split; [|congruence].
    eapply obs_eq_trans; [exact A|]. apply upd_obs. exact A2.
Qed.

(* ---------- a message that is not for the started current height is nothing but its update ---------- *)
Lemma pure_step : forall c s e, is_msg e = true -> (s_h s < ht e \/ s_started s = false) ->
  obs_eq (fst (fst (step_x c s (input_of_entry e)))) (upd c s e) /\ vis (snd (fst (step_x c s (input_of_entry e)))) = [].
Proof.
  intros c s e M Hc. assert (Eu : upd c s e = set_vc s (vc_upd c (s_vc s) e)) by reflexivity.
  rewrite Eu, vc_upd_add. destruct e as [h|p|v|v|k h r]; try discriminate; cbn [input_of_entry]; unfold step_x.
  - destruct (vc_add_proposal c (s_vc s) p) as [vc ok]. cbn [fst].
    destruct (negb ok || negb (s_started (set_vc s vc))) eqn:Eb; [split; [apply obs_eq_refl|reflexivity]|].
    apply orb_false_iff in Eb. destruct Eb as [_ Eb]. apply negb_false_iff in Eb.
    destruct Hc as [Hc|Hc]; [|simpl in Eb; congruence]. unfold process_message.
    destruct (p_h p =? s_h (set_vc s vc)) eqn:E; [simpl in *; unfold ht in Hc; simpl in Hc; lia|].
    cbn [negb fst snd]. split; [apply obs_eq_refl|reflexivity].
  - destruct (vc_add_vote c (s_vc s) Prevote v) as [vc ok]. cbn [fst].
    destruct (negb ok || negb (s_started (set_vc s vc))) eqn:Eb; [split; [apply obs_eq_refl|reflexivity]|].
    apply orb_false_iff in Eb. destruct Eb as [_ Eb]. apply negb_false_iff in Eb.
    destruct Hc as [Hc|Hc]; [|simpl in Eb; congruence]. unfold process_message.
    destruct (v_h v =? s_h (set_vc s vc)) eqn:E; [simpl in *; unfold ht in Hc; simpl in Hc; lia|].
    cbn [negb fst snd]. split; [apply obs_eq_refl|reflexivity].
  - destruct (vc_add_vote c (s_vc s) Precommit v) as [vc ok]. cbn [fst].
    destruct (negb ok || negb (s_started (set_vc s vc))) eqn:Eb; [split; [apply obs_eq_refl|reflexivity]|].
    apply orb_false_iff in Eb. destruct Eb as [_ Eb]. apply negb_false_iff in Eb.
    destruct Hc as [Hc|Hc]; [|simpl in Eb; congruence].
    match goal with |- context [if ?b then _ else _] => destruct b end.
    + unfold trigger_sync. cbn [fst snd]. split; [split; [reflexivity|apply vc_eq_refl]|reflexivity].
    + unfold process_message.
      destruct (v_h v =? s_h (set_vc s vc)) eqn:E; [simpl in *; unfold ht in Hc; simpl in Hc; lia|].
      cbn [negb fst snd]. split; [apply obs_eq_refl|reflexivity].
Qed.
