(* C13 — lemmas, part 2: inside one life of the process the driver never broadcasts two different votes of
   one kind for one (height, round).  Built on the C12 simulation (Rel / step_sim) and its chain lemmas;
   the only new work is that the C13 model hands the state machine a configuration whose Value() answer
   changes from call to call, which C12's invariant does not look at. *)
From Coq Require Import List NArith ZArith Bool Lia ZifyN ZifyBool.
From V Require Import C12.Model C12.Proofs C13.Model C13.Proofs.
Import ListNotations.
Open Scope N_scope.

(* ---------- C12's invariant and monitor do not depend on c_value_at ---------- *)
Definition c0 (E : env) : cfg := cfg_at E 0 0 0.

Lemma Rel_cfg : forall E h r n h' r' n' s m, Rel (cfg_at E h r n) s m -> Rel (cfg_at E h' r' n') s m.
Proof. intros E h r n h' r' n' s m [A B C D F G H]. constructor; assumption. Qed.

Lemma Rel_set_nval : forall c s m n, Rel c s m -> Rel c (set_nval s n) m.
Proof. intros c s m n [A B C D F G H]. constructor; assumption. Qed.
Lemma Rel_unset_nval : forall c s m n, Rel c (set_nval s n) m -> Rel c s m.
Proof. intros c s m n [A B C D F G H]. constructor; assumption. Qed.

Lemma mon_action_cfg : forall E h r n h' r' n' m a,
  mon_action (cfg_at E h r n) m a = mon_action (cfg_at E h' r' n') m a.
Proof. intros. destruct a; reflexivity. Qed.
Lemma mon_actions_cfg : forall E h r n h' r' n' acts m,
  mon_actions (cfg_at E h r n) m acts = mon_actions (cfg_at E h' r' n') m acts.
Proof.
  induction acts as [|a rest IH]; intros m; simpl; [reflexivity|].
  rewrite (mon_action_cfg E h r n h' r' n'). destruct (mon_action (cfg_at E h' r' n') m a) as [m1 e1].
  rewrite IH. reflexivity.
Qed.
Lemma mon_input_cfg : forall E h r n h' r' n' m i,
  mon_input (cfg_at E h r n) m i = mon_input (cfg_at E h' r' n') m i.
Proof. intros. destruct i; reflexivity. Qed.

Lemma ok_input_set_nval : forall s n i, ok_input (set_nval s n) i = ok_input s i.
Proof. intros. destruct i; reflexivity. Qed.

(* one call of the state machine, as the C13 model makes it, keeps C12's simulation *)
Lemma sm_step_sim : forall E s calls i m,
  Rel (c0 E) s m -> ok_input s i = true ->
  exists m', mon_actions (c0 E) (mon_input (c0 E) m i) (snd (sm_step E s calls i)) = (m', []) /\
             Rel (c0 E) (fst (fst (sm_step E s calls i))) m'.
Proof.
  intros E s calls i m R Hok. unfold sm_step.
  set (c := cfg_at E (s_h s) (in_round i) calls).
  assert (R1 : Rel c (set_nval s 0) m) by (apply Rel_set_nval; unfold c; eapply Rel_cfg; exact R).
  assert (Hok1 : ok_input (set_nval s 0) i = true) by (rewrite ok_input_set_nval; exact Hok).
  pose proof (step_step_x c (set_nval s 0) i) as SX.
  destruct (step_x c (set_nval s 0) i) as [[s1 acts] ex] eqn:Es. simpl in SX. rewrite SX. simpl.
  destruct (step_sim c _ m i s1 acts ex R1 Hok1 Es) as [m' [H1 [H2 _]]].
  exists m'. split.
  - unfold c0. rewrite (mon_input_cfg E 0 0 0 (s_h s) (in_round i) calls).
    rewrite (mon_actions_cfg E 0 0 0 (s_h s) (in_round i) calls). exact H1.
  - apply Rel_set_nval. unfold c0. eapply Rel_cfg. exact H2.
Qed.

(* ---------- sublists ---------- *)
Inductive Sub {A : Type} : list A -> list A -> Prop :=
| Sub_nil : Sub [] []
| Sub_skip : forall x l l', Sub l l' -> Sub l (x :: l')
| Sub_keep : forall x l l', Sub l l' -> Sub (x :: l) (x :: l').

Lemma Sub_nil_l : forall {A} (l : list A), Sub [] l.
Proof. induction l; constructor; assumption. Qed.
Lemma Sub_refl : forall {A} (l : list A), Sub l l.
Proof. induction l; constructor; assumption. Qed.
Lemma Sub_app : forall {A} (a a' b b' : list A), Sub a a' -> Sub b b' -> Sub (a ++ b) (a' ++ b').
Proof. intros A a a' b b' H1 H2. induction H1; simpl; try constructor; assumption. Qed.

(* a strictly increasing list stays strictly increasing when elements are removed *)
Lemma chain_lower : forall l x o, chain (Some x) l ->
  match o with None => True | Some y => pos_lt y x = true end -> chain o l.
Proof.
  destruct l as [|p l]; intros x o H Ho; simpl in *; [exact I|].
  destruct H as [H1 H2]. split; [|assumption]. destruct o as [y|]; [|exact I].
  eapply pos_lt_trans; eassumption.
Qed.
Lemma chain_Sub : forall l l', Sub l l' -> forall o, chain o l' -> chain o l.
Proof.
  intros l l' H. induction H as [|x l l' H IH|x l l' H IH]; intros o C; simpl in *.
  - exact I.
  - destruct C as [C1 C2]. eapply chain_lower; [apply IH; exact C2|exact C1].
  - destruct C as [C1 C2]. split; [exact C1|apply IH; exact C2].
Qed.

(* ---------- vote positions of effects ---------- *)
Definition acts_of (e : effect) : list action :=
  match e with
  | Bcast (MPrevote v) => [ABroadcastPrevote v]
  | Bcast (MPrecommit v) => [ABroadcastPrecommit v]
  | _ => []
  end.
Definition epos (e : effect) : list vpos := flat_map apos (acts_of e).

Lemma votes_in_acts : forall k l, votes_in k l = votes_of k (flat_map acts_of l).
Proof.
  intros k l. induction l as [|e l IH]; simpl; [reflexivity|].
  unfold votes_in in *. simpl. rewrite IH. unfold votes_of. rewrite flat_map_app.
  destruct e as [| |[]| | |]; destruct k; reflexivity.
Qed.
Lemma epos_acts : forall l, flat_map epos l = flat_map apos (flat_map acts_of l).
Proof.
  induction l as [|e l IH]; simpl; [reflexivity|]. rewrite flat_map_app, IH. reflexivity.
Qed.

Lemma exec_votes_sub : forall r acts w,
  Sub (flat_map epos (snd (fst (exec r w acts)))) (flat_map apos acts).
Proof.
  induction acts as [|a rest IH]; intros w; [constructor|].
  simpl. destruct r, a; simpl; try apply Sub_nil_l;
    (fin_exec true IH || fin_exec false IH); try exact IH'; apply Sub_keep; exact IH'.
Qed.

(* ---------- the invariant of a life ---------- *)
Record VInv (E : env) (d : dstate) (m : mon) (PE PA : list vpos) : Prop := mkVInv {
  vi_rel : Rel (c0 E) (d_sm d) m;
  vi_sub : Sub PE PA;
  vi_chain : chain None PA;
  vi_last : m_last m = lastp None PA
}.

Lemma dstep_inv : forall E r d i m PE PA,
  VInv E d m PE PA -> ok_input (d_sm d) i = true ->
  exists m' PA', VInv E (fst (fst (dstep E r d i))) m' (PE ++ flat_map epos (snd (fst (dstep E r d i)))) PA'.
Proof.
  intros E r d i m PE PA [R S C L] Hok. rewrite dstep_spec. cbn [fst snd d_sm].
  destruct (sm_step_sim E (d_sm d) (d_calls d) i m R Hok) as [m' [M R']].
  fold (sm_of E d i) in M, R'.
  destruct (mon_actions_chain _ _ _ _ M) as [C1 L1]. rewrite mon_input_last in C1, L1.
  exists m', (PA ++ flat_map apos (snd (sm_of E d i))). constructor.
  - exact R'.
  - apply Sub_app; [exact S|apply exec_votes_sub].
  - apply chain_app. split; [exact C|]. rewrite <- L. exact C1.
  - rewrite lastp_app, <- L. exact L1.
Qed.

Lemma starts_inv : forall E fuel d m PE PA,
  VInv E d m PE PA ->
  exists m' PA', VInv E (fst (starts E fuel d)) m' (PE ++ flat_map epos (flat (snd (starts E fuel d)))) PA'.
Proof.
  induction fuel as [|n IH]; intros d m PE PA V; cbn [starts].
  - cbn [fst snd flat flat_map]. rewrite app_nil_r. eauto.
  - destruct (dstep_inv E false d (IStart 0) m PE PA V eq_refl) as [m1 [PA1 V1]].
    destruct (dstep E false d (IStart 0)) as [[d1 eff] com]. cbn [fst snd] in *. destruct com.
    + destruct (IH d1 m1 _ _ V1) as [m2 [PA2 V2]]. destruct (starts E n d1) as [d2 tr]. cbn [fst snd] in *.
      rewrite flat_cons, flat_map_app, app_assoc. eauto.
    + cbn [fst snd]. rewrite flat_cons. cbn [flat flat_map]. rewrite app_nil_r. eauto.
Qed.

Lemma listen_inv : forall E ins d m PE PA,
  VInv E d m PE PA -> listen_disc E d ins = true ->
  exists m' PA', VInv E (fst (listen E d ins)) m' (PE ++ flat_map epos (flat (snd (listen E d ins)))) PA'.
Proof.
  induction ins as [|i rest IH]; intros d m PE PA V D; cbn [listen listen_disc] in *.
  - cbn [fst snd flat flat_map]. rewrite app_nil_r. eauto.
  - apply andb_prop in D. destruct D as [Hok D].
    destruct (dstep_inv E false d i m PE PA V Hok) as [m1 [PA1 V1]].
    destruct (dstep E false d i) as [[d1 eff] com]. cbn [fst snd] in *.
    assert (S : exists m2 PA2, VInv E (fst (if com then starts E SFUEL d1 else (d1, []))) m2
              ((PE ++ flat_map epos eff) ++ flat_map epos (flat (snd (if com then starts E SFUEL d1 else (d1, []))))) PA2).
    { destruct com; [apply (starts_inv E SFUEL d1 m1 _ _ V1)|].
      cbn [fst snd flat flat_map]. rewrite app_nil_r. eauto. }
    assert (D2 : listen_disc E (fst (if com then starts E SFUEL d1 else (d1, []))) rest = true)
      by (destruct com; exact D).
    destruct (if com then starts E SFUEL d1 else (d1, [])) as [d2 tr2]. cbn [fst snd] in *.
    destruct S as [m2 [PA2 V2]]. destruct (IH d2 m2 _ _ V2 D2) as [m3 [PA3 V3]].
    destruct (listen E d2 rest) as [d3 tr3]. cbn [fst snd] in *.
    rewrite flat_cons, flat_app, !flat_map_app, !app_assoc. eauto.
Qed.

Lemma replay_inv : forall E es d m PE PA,
  VInv E d m PE PA -> replay_disc E d es = true ->
  exists m' PA', VInv E (fst (replay E d es)) m' (PE ++ flat_map epos (flat (snd (replay E d es)))) PA'.
Proof.
  induction es as [|e rest IH]; intros d m PE PA V D; cbn [replay replay_disc] in *.
  - cbn [fst snd flat flat_map]. rewrite app_nil_r. eauto.
  - destruct (entry_height e <? s_h (d_sm d)); [apply (IH d m PE PA V D)|].
    apply andb_prop in D. destruct D as [Hok D].
    destruct (dstep_inv E true d (input_of_entry e) m PE PA V Hok) as [m1 [PA1 V1]].
    destruct (dstep E true d (input_of_entry e)) as [[d1 eff] com]. cbn [fst snd] in *.
    destruct (IH d1 m1 _ _ V1 D) as [m2 [PA2 V2]]. destruct (replay E d1 rest) as [d2 tr]. cbn [fst snd] in *.
    rewrite flat_cons, flat_map_app, app_assoc. eauto.
Qed.

(* ---------- one vote per (height, round, kind) inside a life ---------- *)
Lemma life_one_per_slot : forall E h D n ins k,
  life_disc E h D n ins = true ->
  one_per_slot (votes_in k (flat (snd (lifetime E h D n ins)))) = true.
Proof.
  intros E h D n ins k H. unfold life_disc in H. apply andb_prop in H. destruct H as [D1 D2].
  unfold lifetime. unfold recover in *.
  assert (V0 : VInv E (boot h D n) (mon_init h) [] []).
  { constructor; [apply Rel_init|constructor|exact I|reflexivity]. }
  destruct (replay_inv E (load D) (boot h D n) _ _ _ V0 D1) as [m1 [PA1 V1]].
  destruct (replay E (boot h D n) (load D)) as [d1 tr1]. cbn [fst snd] in *.
  unfold run_live.
  destruct (starts_inv E SFUEL d1 m1 _ _ V1) as [m2 [PA2 V2]].
  destruct (starts E SFUEL d1) as [d2 tr2]. cbn [fst snd] in *.
  destruct (listen_inv E ins d2 m2 _ _ V2 D2) as [m3 [PA3 V3]].
  destruct (listen E d2 ins) as [d3 tr3]. cbn [fst snd] in *.
  rewrite votes_in_acts. apply chain_one_per_slot with (o := None). rewrite <- epos_acts.
  eapply chain_Sub; [|apply (vi_chain _ _ _ _ _ V3)].
  pose proof (vi_sub _ _ _ _ _ V3) as S. simpl in S.
  rewrite !flat_app, !flat_map_app, app_assoc. exact S.
Qed.

Lemma same_slot_sym : forall a b, same_slot a b = same_slot b a.
Proof. intros. unfold same_slot. rewrite (N.eqb_sym (v_h a)), (Z.eqb_sym (v_r a)). reflexivity. Qed.
Lemma same_slot_trans : forall a b c, same_slot a b = true -> same_slot b c = true -> same_slot a c = true.
Proof. unfold same_slot. intros. lia. Qed.
Lemma oid_eqb_eq : forall x y, oid_eqb x y = true -> x = y.
Proof. intros [x|] [y|] H; simpl in H; try discriminate; [apply N.eqb_eq in H; subst|]; reflexivity. Qed.
Lemma oid_eqb_refl : forall x, oid_eqb x x = true.
Proof. intros [x|]; simpl; [apply N.eqb_refl|reflexivity]. Qed.

Lemma one_per_slot_unique : forall l b c,
  one_per_slot l = true -> In b l -> In c l -> same_slot b c = true -> b = c.
Proof.
  induction l as [|v l IH]; intros b c H Hb Hc S; [contradiction|].
  simpl in H. apply andb_prop in H. destruct H as [H1 H2]. apply negb_true_iff in H1.
  destruct Hb as [<-|Hb], Hc as [<-|Hc]; auto.
  - exfalso. assert (X : existsb (same_slot v) l = true) by (apply existsb_exists; eauto). congruence.
  - exfalso. rewrite same_slot_sym in S.
    assert (X : existsb (same_slot v) l = true) by (apply existsb_exists; eauto). congruence.
Qed.

Lemma no_conflict_kind_of_covers : forall k pre post,
  one_per_slot (votes_in k post) = true -> covers_kind k pre post = true ->
  no_conflict_kind k pre post = true.
Proof.
  intros k pre post U C. unfold no_conflict_kind, covers_kind in *.
  rewrite forallb_forall in *. intros a Ha. apply forallb_forall. intros c Hc.
  specialize (C a Ha). apply existsb_exists in C. destruct C as [b [Hb C]].
  apply andb_prop in C. destruct C as [C _]. apply andb_prop in C. destruct C as [S I].
  unfold conflicts. destruct (same_slot a c) eqn:Sac; [|reflexivity]. simpl.
  assert (b = c).
  { eapply one_per_slot_unique; eauto. eapply same_slot_trans; [|exact Sac]. rewrite same_slot_sym. exact S. }
  subst c. apply oid_eqb_eq in I. rewrite I, oid_eqb_refl. reflexivity.
Qed.

(* C13_no_conflict: a life that is disciplined and re-broadcasts what had been broadcast before the crash
   cannot contradict it *)
Lemma no_conflict_lemma : forall E h D n ins pre,
  life_disc E h D n ins = true ->
  replay_covers pre (flat (snd (lifetime E h D n ins))) = true ->
  no_conflict pre (flat (snd (lifetime E h D n ins))) = true.
Proof.
  intros E h D n ins pre Hd Hc. unfold replay_covers in Hc. apply andb_prop in Hc. destruct Hc as [C1 C2].
  unfold no_conflict. rewrite !no_conflict_kind_of_covers; auto using life_one_per_slot.
Qed.

(* ---------- the recovered state machine is never below the boot height ---------- *)
Lemma sm_step_height : forall E s calls i m,
  Rel (c0 E) s m -> ok_input s i = true -> s_h s <= s_h (fst (fst (sm_step E s calls i))).
Proof.
  intros E s calls i m R Hok. unfold sm_step.
  set (c := cfg_at E (s_h s) (in_round i) calls).
  assert (R1 : Rel c (set_nval s 0) m) by (apply Rel_set_nval; unfold c; eapply Rel_cfg; exact R).
  assert (Hok1 : ok_input (set_nval s 0) i = true) by (rewrite ok_input_set_nval; exact Hok).
  pose proof (step_step_x c (set_nval s 0) i) as SX.
  destruct (step_x c (set_nval s 0) i) as [[s1 acts] ex] eqn:Es. simpl in SX. rewrite SX. simpl.
  destruct (step_sim c _ m i s1 acts ex R1 Hok1 Es) as [m' [_ [_ H3]]].
  unfold spos_le in H3. simpl in H3. lia.
Qed.

Lemma replay_height : forall E es d m PE PA,
  VInv E d m PE PA -> replay_disc E d es = true -> s_h (d_sm d) <= s_h (d_sm (fst (replay E d es))).
Proof.
  induction es as [|e rest IH]; intros d m PE PA V D; cbn [replay replay_disc] in *; [cbn [fst]; lia|].
  destruct (entry_height e <? s_h (d_sm d)); [apply (IH d m PE PA V D)|].
  apply andb_prop in D. destruct D as [Hok D].
  destruct (dstep_inv E true d (input_of_entry e) m PE PA V Hok) as [m1 [PA1 V1]].
  pose proof (sm_step_height E (d_sm d) (d_calls d) (input_of_entry e) m (vi_rel _ _ _ _ _ V) Hok) as Hh.
  pose proof (dstep_spec E true d (input_of_entry e)) as S. unfold sm_of in S.
  destruct (dstep E true d (input_of_entry e)) as [[d1 eff] com]. cbn [fst snd] in *.
  specialize (IH d1 m1 _ _ V1 D). destruct (replay E d1 rest) as [d2 tr]. cbn [fst snd] in *.
  injection S as -> _ _. cbn [d_sm] in IH. lia.
Qed.

Lemma recover_height : forall E h D n,
  replay_disc E (boot h D n) (load D) = true -> h <= s_h (d_sm (fst (recover E h D n))).
Proof.
  intros E h D n Hd. unfold recover.
  assert (V0 : VInv E (boot h D n) (mon_init h) [] []).
  { constructor; [apply Rel_init|constructor|exact I|reflexivity]. }
  apply (replay_height E (load D) (boot h D n) _ _ _ V0 Hd).
Qed.
