(* C13 — lemmas, part 11: replay at the level of the state machine (states + returned actions), its links
   to the driver-level replay, and the bookkeeping of the abstract log (what load returns for a log whose
   entries were appended with non-decreasing heights). *)
From Coq Require Import List NArith ZArith Bool Lia ZifyN ZifyBool Sorting.Sorted.
From V Require Import C12.Model C13.Model C13.Proofs C13.Proofs_Commit C13.Proofs_Replay
                      C13.Proofs_Obs C13.Proofs_ObsStep.
Import ListNotations.
Open Scope N_scope.

(* ---------- replay of a list of entries by the state machine alone ---------- *)
Fixpoint sm_replay_acts (E : env) (s : state) (n : N) (es : list entry) : state * N * list action :=
  match es with
  | [] => (s, n, [])
  | e :: rest =>
      if entry_height e <? s_h s then sm_replay_acts E s n rest
      else
        let '(s', n', acts) := sm_step E s n (input_of_entry e) in
        let '(s2, n2, more) := sm_replay_acts E s' n' rest in
        (s2, n2, acts ++ more)
  end.

Lemma sm_replay_acts_app : forall E l1 l2 s n,
  sm_replay_acts E s n (l1 ++ l2) =
  let '(s1, n1, a1) := sm_replay_acts E s n l1 in
  let '(s2, n2, a2) := sm_replay_acts E s1 n1 l2 in (s2, n2, a1 ++ a2).
Proof.
  induction l1 as [|e l1 IH]; intros l2 s n; cbn [sm_replay_acts app].
  - destruct (sm_replay_acts E s n l2) as [[s2 n2] a2]. reflexivity.
  - destruct (entry_height e <? s_h s); [apply IH|].
    destruct (sm_step E s n (input_of_entry e)) as [[s' n'] acts]. rewrite IH.
    destruct (sm_replay_acts E s' n' l1) as [[s1 n1] a1].
    destruct (sm_replay_acts E s1 n1 l2) as [[s2 n2] a2]. rewrite app_assoc. reflexivity.
Qed.

(* entries below the machine's height at the front are skipped *)
Lemma sm_replay_acts_skip : forall E l1 l2 s n,
  Forall (fun e => entry_height e < s_h s) l1 -> sm_replay_acts E s n (l1 ++ l2) = sm_replay_acts E s n l2.
Proof.
  induction l1 as [|e l1 IH]; intros l2 s n F; [reflexivity|]. inversion F as [|x y Hx Hy]. subst.
  cbn [sm_replay_acts app]. destruct (entry_height e <? s_h s) eqn:El; [apply IH; assumption|lia].
Qed.

(* votes come through execute unchanged (a Commit is last, nothing is dropped) *)
Lemma votes_in_app : forall k a b, votes_in k (a ++ b) = votes_in k a ++ votes_in k b.
Proof. intros. unfold votes_in. apply flat_map_app. Qed.
Lemma votes_of_app : forall k a b, votes_of k (a ++ b) = votes_of k a ++ votes_of k b.
Proof. intros. unfold votes_of. apply flat_map_app. Qed.

Lemma exec_votes_eq : forall k r acts w, col acts = true ->
  votes_in k (snd (fst (exec r w acts))) = votes_of k acts.
Proof.
  induction acts as [|a rest IH]; intros w C; [reflexivity|].
  assert (Crest : col rest = true).
  { simpl in C. destruct rest; [reflexivity|]. apply andb_prop in C. apply C. }
  assert (Ca : is_commit a = true -> rest = []).
  { intro Hc. simpl in C. destruct rest; [reflexivity|]. rewrite Hc in C. discriminate. }
  simpl. destruct r, a; simpl;
    try (rewrite (Ca eq_refl); destruct k; reflexivity);
    (fin_exec true IH || fin_exec false IH); rewrite ?votes_in_app; simpl;
    rewrite (IH' Crest); destruct k; reflexivity.
Qed.

Lemma sm_step_col : forall E s n i, col (snd (sm_step E s n i)) = true.
Proof.
  intros. unfold sm_step.
  pose proof (step_col (cfg_at E (s_h s) (in_round i) n) (set_nval s 0) i) as X.
  destruct (step _ _ i) as [s1 acts]. exact X.
Qed.

Lemma replay_acts_link : forall E es d,
  d_sm (fst (replay E d es)) = fst (fst (sm_replay_acts E (d_sm d) (d_calls d) es)) /\
  forall k, votes_in k (flat (snd (replay E d es))) = votes_of k (snd (sm_replay_acts E (d_sm d) (d_calls d) es)).
Proof.
  induction es as [|e rest IH]; intros d; cbn [replay sm_replay_acts]; [split; reflexivity|].
  destruct (entry_height e <? s_h (d_sm d)); [apply IH|].
  pose proof (dstep_spec E true d (input_of_entry e)) as S. unfold sm_of in S.
  pose proof (sm_step_col E (d_sm d) (d_calls d) (input_of_entry e)) as C.
  destruct (sm_step E (d_sm d) (d_calls d) (input_of_entry e)) as [[s' n'] acts]. cbn [fst snd] in *.
  destruct (dstep E true d (input_of_entry e)) as [[d1 eff] com]. injection S as -> -> _.
  specialize (IH (mkD s' (fst (fst (exec true (d_wal d) acts))) n')). cbn [d_sm d_calls] in IH.
  destruct (replay E _ rest) as [d2 tr]. destruct (sm_replay_acts E s' n' rest) as [[s2 n2] more].
  cbn [fst snd] in *. destruct IH as [I1 I2]. split; [exact I1|].
  intro k. rewrite flat_cons, votes_in_app, votes_of_app, I2, (exec_votes_eq k true acts _ C). reflexivity.
Qed.

(* with a reproducible Value() the replay does not depend on the call counter *)
Lemma sm_replay_acts_det : forall E, value_deterministic E -> forall es s n m,
  fst (fst (sm_replay_acts E s n es)) = fst (fst (sm_replay_acts E s m es)) /\
  snd (sm_replay_acts E s n es) = snd (sm_replay_acts E s m es).
Proof.
  intros E H. induction es as [|e rest IH]; intros s n m; cbn [sm_replay_acts]; [split; reflexivity|].
  destruct (entry_height e <? s_h s); [apply IH|].
  destruct (sm_step_det E H s n m (input_of_entry e)) as [A B].
  destruct (sm_step E s n (input_of_entry e)) as [[s1 n1] a1], (sm_step E s m (input_of_entry e)) as [[s2 n2] a2].
  cbn [fst snd] in *. subst s2 a2. specialize (IH s1 n1 n2).
  destruct (sm_replay_acts E s1 n1 rest) as [[x1 x2] x3], (sm_replay_acts E s1 n2 rest) as [[y1 y2] y3].
  cbn [fst snd] in *. destruct IH as [-> ->]. split; reflexivity.
Qed.

(* replay respects obs_eq: equivalent start states, same entries => equivalent end states, same visible actions *)
Lemma sm_replay_acts_obs : forall E, quorum_positive E -> forall es s s' n,
  obs_eq s s' ->
  obs_eq (fst (fst (sm_replay_acts E s n es))) (fst (fst (sm_replay_acts E s' n es))) /\
  snd (fst (sm_replay_acts E s n es)) = snd (fst (sm_replay_acts E s' n es)) /\
  vis (snd (sm_replay_acts E s n es)) = vis (snd (sm_replay_acts E s' n es)).
Proof.
  intros E Q. induction es as [|e rest IH]; intros s s' n H; cbn [sm_replay_acts]; [simpl; auto|].
  assert (Eh : s_h s' = s_h s) by (destruct H as [H _]; unfold scal in H; inversion H; auto).
  rewrite Eh. destruct (entry_height e <? s_h s); [apply IH; exact H|].
  destruct (sm_step_obs E Q s s' n (input_of_entry e) H) as [A [B C]].
  destruct (sm_step E s n (input_of_entry e)) as [[s1 n1] a1], (sm_step E s' n (input_of_entry e)) as [[s2 n2] a2].
  cbn [fst snd] in *. subst n2. destruct (IH s1 s2 n1 A) as [A2 [B2 C2]].
  destruct (sm_replay_acts E s1 n1 rest) as [[x1 x2] x3], (sm_replay_acts E s2 n1 rest) as [[y1 y2] y3].
  cbn [fst snd] in *. rewrite !vis_app, C, C2. auto.
Qed.

Lemma votes_of_vis : forall k l, votes_of k (vis l) = votes_of k l.
Proof.
  intros k l. induction l as [|a l IH]; [reflexivity|].
  unfold vis in *. simpl. destruct a; simpl; rewrite ?IH; try reflexivity;
    unfold votes_of in *; simpl; rewrite IH; reflexivity.
Qed.

(* ---------- the abstract log, for entries appended with non-decreasing heights ---------- *)
Definition ht := entry_height.
Definition rents (l : list wrec) : list entry :=
  flat_map (fun r => match r with REntry e => [e] | RPrune _ => [] end) l.
Definition prunes_below (H : N) (l : list wrec) : Prop :=
  Forall (fun r => match r with RPrune g => g < H | REntry _ => True end) l.
Definition no_prune (l : list wrec) : Prop :=
  Forall (fun r => match r with RPrune _ => False | REntry _ => True end) l.
Fixpoint hsorted (l : list entry) : Prop :=
  match l with [] => True | e :: r => Forall (fun x => ht e <= ht x) r /\ hsorted r end.
Definition above_f (H : N) (l : list entry) : list entry := filter (fun e => H <=? ht e) l.

Lemma rents_app : forall a b, rents (a ++ b) = rents a ++ rents b.
Proof. intros. unfold rents. apply flat_map_app. Qed.
Lemma above_f_app : forall H a b, above_f H (a ++ b) = above_f H a ++ above_f H b.
Proof. intros. unfold above_f. apply filter_app. Qed.

Lemma hsorted_app : forall a b, hsorted (a ++ b) <->
  hsorted a /\ hsorted b /\ (forall x y, In x a -> In y b -> ht x <= ht y).
Proof.
  induction a as [|e a IH]; intros b; simpl.
  - split; [intro H; repeat split; auto; intros x y []|intros [_ [H _]]; exact H].
  - rewrite IH, Forall_app. split.
    + intros [[F1 F2] [S1 [S2 C]]]. repeat split; auto.
      intros x y [<-|Hx] Hy; [rewrite Forall_forall in F2; auto|auto].
    + intros [[F1 S1] [S2 C]]. repeat split; auto.
      apply Forall_forall. intros y Hy. apply C; auto.
Qed.

Lemma hsorted_filter : forall f l, hsorted l -> hsorted (filter f l).
Proof.
  induction l as [|e l IH]; simpl; [auto|]. intros [F S]. destruct (f e); simpl; [|auto].
  split; [|auto]. apply Forall_forall. intros x Hx. apply filter_In in Hx. destruct Hx as [Hx _].
  rewrite Forall_forall in F. auto.
Qed.

(* insertion sort is the identity on a sorted list *)
Lemma insert_h_last : forall e l, Forall (fun x => ht x <= ht e) l -> insert_h e l = l ++ [e].
Proof.
  induction l as [|x l IH]; intros F; simpl; [reflexivity|]. inversion F as [|a b Hx Hl]. subst.
  fold ht. destruct (ht e <? ht x) eqn:El; [lia|]. rewrite IH by assumption. reflexivity.
Qed.
Lemma sort_h_snoc : forall l e, sort_h (l ++ [e]) = insert_h e (sort_h l).
Proof. intros. unfold sort_h. rewrite fold_left_app. reflexivity. Qed.
Lemma sort_h_sorted : forall l, hsorted l -> sort_h l = l.
Proof.
  induction l as [|e l IH] using rev_ind; intros S; [reflexivity|].
  apply hsorted_app in S. destruct S as [S1 [_ C]]. rewrite sort_h_snoc, IH by exact S1.
  apply insert_h_last. apply Forall_forall. intros x Hx. apply C; simpl; auto.
Qed.

Lemma filter_all : forall {A} (f : A -> bool) l, (forall x, In x l -> f x = true) -> filter f l = l.
Proof.
  induction l as [|x l IH]; intros H; simpl; [reflexivity|].
  rewrite (H x (or_introl eq_refl)), IH; [reflexivity|]. intros y Hy. apply H. right. exact Hy.
Qed.

(* a sorted list splits into the part below H and the part at or above H *)
Lemma sorted_split : forall H l, hsorted l ->
  exists l1, l = l1 ++ above_f H l /\ Forall (fun e => ht e < H) l1.
Proof.
  induction l as [|e l IH]; intros S; [exists []; split; [reflexivity|constructor]|].
  simpl in S. destruct S as [F S]. unfold above_f. simpl. fold (above_f H l).
  destruct (H <=? ht e) eqn:El.
  - exists []. split; [|constructor]. simpl. f_equal.
    unfold above_f. symmetry. apply filter_all. intros x Hx.
    rewrite Forall_forall in F. specialize (F x Hx). lia.
  - destruct (IH S) as [l1 [E1 F1]]. exists (e :: l1). split; [simpl; f_equal; exact E1|].
    constructor; [lia|exact F1].
Qed.

Lemma replay_above : forall E s n l, hsorted l ->
  sm_replay_acts E s n l = sm_replay_acts E s n (above_f (s_h s) l).
Proof.
  intros E s n l S. destruct (sorted_split (s_h s) l S) as [l1 [E1 F1]].
  rewrite E1 at 1. apply sm_replay_acts_skip. exact F1.
Qed.

(* ---------- what load returns ---------- *)
Lemma index_of_snoc : forall l r, index_of (l ++ [r]) = apply_rec (index_of l) r.
Proof. intros. unfold index_of. rewrite fold_left_app. reflexivity. Qed.

Lemma filter_filter_imp : forall {A} (f g : A -> bool) l,
  (forall x, f x = true -> g x = true) -> filter f (filter g l) = filter f l.
Proof.
  induction l as [|x l IH]; intros H; simpl; [reflexivity|].
  destruct (g x) eqn:G; simpl.
  - destruct (f x); rewrite IH by exact H; reflexivity.
  - destruct (f x) eqn:F; [rewrite (H x F) in G; discriminate|]. apply IH. exact H.
Qed.

(* prunes below H: the pruned height stays below H, nothing at or above H is ever lost, and the live
   entries are a sub-sequence of the appended ones *)
Lemma index_of_spec : forall H l, 0 < H -> prunes_below H l ->
  pruned_upto l < H /\
  above_f H (live_entries l) = above_f H (rents l) /\
  (forall x, In x (live_entries l) -> In x (rents l)) /\
  (hsorted (rents l) -> hsorted (live_entries l)).
Proof.
  intros H l HH. induction l as [|r l IH] using rev_ind; intros P.
  - unfold pruned_upto, live_entries, index_of. simpl. repeat split; auto.
  - unfold prunes_below in P. apply Forall_app in P. destruct P as [P1 P2]. inversion P2 as [|a b Pr _]. subst.
    destruct (IH P1) as [I1 [I2 [I3 I4]]]. clear IH.
    unfold pruned_upto, live_entries in *. rewrite index_of_snoc, rents_app.
    destruct (index_of l) as [p es]. cbn [fst snd] in *. destruct r as [e|g]; cbn [apply_rec fst snd rents flat_map app].
    + destruct (entry_height e <=? p) eqn:Ed; cbn [fst snd].
      * split; [exact I1|]. rewrite above_f_app. split.
        { unfold above_f at 3. simpl. fold ht. destruct (H <=? ht e) eqn:E2; [unfold ht in *; lia|]. rewrite app_nil_r. exact I2. }
        split; [intros x Hx; apply in_or_app; left; auto|].
        intro S. apply hsorted_app in S. apply I4. apply S.
      * split; [exact I1|]. rewrite !above_f_app, I2. split; [reflexivity|].
        split.
        { intros x Hx. apply in_app_or in Hx. apply in_or_app. destruct Hx as [Hx|Hx]; [left; auto|right; exact Hx]. }
        intro S. apply hsorted_app in S. destruct S as [S1 [S2 C]]. apply hsorted_app.
        split; [apply I4; exact S1|]. split; [exact S2|]. intros x y Hx Hy. apply C; auto.
    + rewrite app_nil_r. destruct (g <=? p) eqn:Eg; cbn [fst snd].
      * repeat split; auto.
      * split; [exact Pr|]. split.
        { unfold above_f. rewrite filter_filter_imp; [exact I2|].
          intros x Hx. unfold keep_above. fold ht in *. apply N.leb_le in Hx. unfold ht in *.
          destruct (entry_height x <=? g) eqn:E3; [lia|reflexivity]. }
        split; [intros x Hx; apply filter_In in Hx; apply I3; apply Hx|].
        intro S. apply hsorted_filter. apply I4. exact S.
Qed.

Lemma replay_load : forall E s n l, 0 < s_h s -> prunes_below (s_h s) l -> hsorted (rents l) ->
  sm_replay_acts E s n (load l) = sm_replay_acts E s n (above_f (s_h s) (rents l)).
Proof.
  intros E s n l HH P S. destruct (index_of_spec (s_h s) l HH P) as [_ [I2 [_ I4]]].
  unfold load. rewrite sort_h_sorted by (apply I4; exact S).
  rewrite replay_above by (apply I4; exact S). rewrite I2. reflexivity.
Qed.

Lemma pruned_below : forall H l, 0 < H -> prunes_below H l -> pruned_upto l < H.
Proof. intros H l HH P. apply (index_of_spec H l HH P). Qed.
