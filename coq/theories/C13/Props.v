(* C13 — property theorems only. Each is closed by [exact] of a lemma from Proofs*.v;
   Print Assumptions is run on every Theorem by bin/check. *)
From Coq Require Import List NArith ZArith Bool Lia.
From V Require Import C12.Model C13.Model C13.Proofs C13.Proofs_Votes C13.Proofs_Replay C13.Proofs_Commit C13.Proofs_Resume
  C13.Proofs_Obs C13.Proofs_ObsStep C13.Proofs_Crash C13.Proofs_Inv C13.Proofs_Final C13.Proofs_State C13.Proofs_Tail C13.Proofs_Lives.
Import ListNotations.
Open Scope N_scope.

(* ---------- every input whose effects became visible was durably logged first ---------- *)
(* In the effect trace of every life of the process (any log directory content, any inputs, any
   environment): each Bcast / CommitCb is preceded by a Flush that comes after every earlier Append.
   flush_before_visible is the boolean the harness evaluates on the real driver's effects. *)
Theorem C13_flush_before_visible : forall E h durable calls ins,
  flush_before_visible (flat (snd (lifetime E h durable calls ins))) = true.
Proof. exact lifetime_flush_ok. Qed.

(* the same, spelled out *)
Theorem C13_flush_between_append_and_visible : forall E h durable calls ins l1 e l2 x l3,
  flat (snd (lifetime E h durable calls ins)) = l1 ++ Append e :: l2 ++ x :: l3 ->
  is_visible x = true -> In Flush l2.
Proof.
  intros E h durable calls ins. exact (flush_ok_spec _ false (lifetime_flush_ok E h durable calls ins)).
Qed.

(* the log is a function of the effect trace: crash_at is "what is on disk after the first k effects" *)
Theorem C13_wal_follows_trace : forall E h durable calls ins,
  d_wal (fst (lifetime E h durable calls ins)) =
  apply_effects (mkWal durable []) (flat (snd (lifetime E h durable calls ins))).
Proof. exact lifetime_wal. Qed.

(* ---------- the candidate: a proposer that is asked for its value again ---------- *)
(* four validators of power 1, proposer of round r is r mod 4, this validator is 0 *)
Definition ex_cfg : cfg :=
  mkCfg 0 (fun _ => 4) (fun _ a => if a <? 4 then 1 else 0) (fun _ r => Z.to_N (r mod 4)%Z)
        (fun _ => true) (fun v => v) (fun _ => 0).
(* an application whose n-th answer is 7 + n / one that always answers 7 *)
Definition ex_env_fresh : env := mkEnv ex_cfg (fun _ _ n => 7 + n).
Definition ex_env_fixed : env := mkEnv ex_cfg (fun _ _ _ => 7).

(* start => ws:1 fl bp(7) fl bv(7); killed after the prevote; restart replays Start, Value() answers 8:
   bp(8) bv(8) for the same height and round *)
Theorem C13_proposer_refuted : exists E k n2,
  let '(pre, post) := crash_restart E 1 [] k n2 [] in
  pre = [Append (EStart 1); Flush; Bcast (MProposal (mkP 1 0 0 (-1) 7)); Flush; Bcast (MPrevote (mkV 1 0 0 (Some 7)))] /\
  flat (snd post) = [Bcast (MProposal (mkP 1 0 0 (-1) 8)); Bcast (MPrevote (mkV 1 0 0 (Some 8)))] /\
  no_conflict pre (flat (snd post)) = false /\
  replay_covers pre (flat (snd post)) = false.
Proof. exists ex_env_fresh, 5%nat, 1. vm_compute. repeat split; reflexivity. Qed.

(* with a reproducible application the same kill is harmless, at every kill point of that life *)
Example ex_fixed_app_no_conflict :
  forallb (fun k => let '(pre, post) := crash_restart ex_env_fixed 1 [] k 1 [] in no_conflict pre (flat (snd post)) && replay_covers pre (flat (snd post)))
          [0; 1; 2; 3; 4; 5]%nat = true.
Proof. vm_compute. reflexivity. Qed.
Example ex_value_deterministic : value_deterministic ex_env_fixed.
Proof. intros h r n m. reflexivity. Qed.

(* ---------- no conflicting vote after recovery ---------- *)
(* Inside one life (replay of any log content + live phase on any inputs), under the calling discipline
   C12 needs (life_disc: no timeout reaches a state machine whose height is not started), the driver
   broadcasts at most one prevote and one precommit per (height, round).  Uses the C12 simulation
   (step_sim / Rel) and chain lemmas behind C12_no_double_vote, for a Value() that changes between calls. *)
Theorem C13_no_double_vote_in_life : forall E h D n ins k,
  life_disc E h D n ins = true ->
  one_per_slot (votes_in k (flat (snd (lifetime E h D n ins)))) = true.
Proof. exact life_one_per_slot. Qed.

(* FULL STATEMENT (not proved):
     value_deterministic E -> forall h0 ins1 k n2 ins2,
       let '(pre, post) := crash_restart E h0 ins1 k n2 ins2 in no_conflict pre (flat (snd post)) = true.
   PROVED: the restarted life cannot contradict a vote broadcast before the crash if it broadcasts that vote
   again (replay_covers: every pre-crash vote re-appears after the restart) - for ANY log content, boot
   height and inputs, and any list pre (instantiate it with at_or_above h pre: the votes of heights the
   restarted process can still vote in; older heights were committed and pruned).  Missing link: value_deterministic -> replay_covers (replay of the durable prefix
   reproduces the pre-crash votes); checked on every run by the harness on the real driver, and it is
   exactly what fails in C13_proposer_refuted. *)
Theorem C13_no_conflict_if_covers : forall E h D n ins pre,
  life_disc E h D n ins = true ->
  replay_covers pre (flat (snd (lifetime E h D n ins))) = true ->
  no_conflict pre (flat (snd (lifetime E h D n ins))) = true.
Proof. exact no_conflict_lemma. Qed.

(* C13_no_conflict.  For EVERY kill point k (before / after every individual effect) of a plain life:
   the process restarted on what is then on disk, at the height after the last completed commit callback,
   with any inputs ins2, never broadcasts a prevote / precommit that conflicts with one broadcast before the
   kill.  Hypotheses, all named:
     value_deterministic E   Value() does not depend on how often it was asked (C13_proposer_refuted: needed);
     quorum_positive E       the quorum of every height is > 0 (total voting power >= 1);
     good_run E h0 ins1      the killed life is "plain" (executable predicate, Model.good_step): it starts on an
                             empty log at h0 >= 1; messages of ANY height (also future heights: LoadAllEntries
                             then re-orders the log) but none takes the unlogged TriggerSync path;
                             ProcessStart does not itself commit; a stale timeout finds no rule pending; a
                             rejected message leaves its counter cell unchanged;
     life_disc (2nd life)    no timeout reaches a state machine whose height is not started (C12's discipline).
   Messages for future heights are covered: a future-height message is a pure update of its counter cell and
   commutes with every call of the current height up to obs_eq (Proofs_Fut / Proofs_Upd / Proofs_Core). *)
Theorem C13_no_conflict : forall E h0 ins1 k n2 ins2,
  value_deterministic E -> quorum_positive E -> good_run E h0 ins1 = true ->
  (let '(pre, post) := crash_restart E h0 ins1 k n2 ins2 in
   life_disc E (resume_height h0 pre) (crash_at k (flat (snd (lifetime E h0 [] 0 ins1))) []) n2 ins2 = true ->
   no_conflict pre (flat (snd post)) = true).
Proof. exact no_conflict_plain. Qed.

(* C13_replay_prefix.  For every kill point of a plain life: the consensus state recovered from what is on
   disk is, up to obs_eq, the state the killed life had at one of its call boundaries (life_states: the states
   between two calls of the state machine, each with the inputs not yet consumed) - the state after the durable
   input prefix; and every vote broadcast before the kill for the resume height is broadcast again by the
   replay (every pre-crash broadcast lies within what that prefix produces). *)
Theorem C13_replay_prefix : forall E h0 ins1 k n2,
  value_deterministic E -> quorum_positive E -> good_run E h0 ins1 = true ->
  let effs := flat (snd (lifetime E h0 [] 0 ins1)) in
  let pre := firstn k effs in
  (exists sd rest, In (sd, rest) (life_states E h0 ins1) /\
     obs_eq (d_sm (fst (recover E (resume_height h0 pre) (crash_at k effs []) n2))) sd) /\
  (forall kd v, In v (votes_in kd pre) -> resume_height h0 pre <= v_h v ->
     In v (votes_in kd (flat (snd (recover E (resume_height h0 pre) (crash_at k effs []) n2))))).
Proof. exact replay_prefix_plain. Qed.

(* C13_same_final_state.  ... and if the restarted process is then given the inputs the killed life had not
   consumed at that boundary, it ends (up to obs_eq) in the consensus state the life reaches when it is never
   killed. *)
Theorem C13_same_final_state : forall E h0 ins1 k n2,
  value_deterministic E -> quorum_positive E -> good_run E h0 ins1 = true ->
  let effs := flat (snd (lifetime E h0 [] 0 ins1)) in
  let pre := firstn k effs in
  exists sd rest, In (sd, rest) (life_states E h0 ins1) /\
    obs_eq (d_sm (fst (recover E (resume_height h0 pre) (crash_at k effs []) n2))) sd /\
    obs_eq (d_sm (fst (lifetime E (resume_height h0 pre) (crash_at k effs []) n2 rest)))
           (d_sm (fst (lifetime E h0 [] 0 ins1))).
Proof. exact same_final_plain. Qed.

(* the state machine respects the observational equivalence the replay theorems are stated with *)
Theorem C13_step_respects_obs_eq : forall c, (forall h, 0 < q_of (c_total c h)) -> forall s s' i,
  obs_eq s s' ->
  obs_eq (fst (fst (step_x c s i))) (fst (fst (step_x c s' i))) /\
  vis (snd (fst (step_x c s i))) = vis (snd (fst (step_x c s' i))).
Proof. exact step_x_obs. Qed.

(* ---------- replay ---------- *)
(* FULL STATEMENT (not proved): recovered state = state of the crashed life after the durable input prefix.
   PROVED: (1) recovery is a function of the log alone: with a reproducible Value(), the effects of the
   replay, the recovered consensus state and the log do not depend on what the application was asked
   before; (2) the recovered consensus state is the fold of ProcessWAL (the same step function, effects
   play no role) over the loaded entries that are not below the machine's height. *)
Theorem C13_replay_deterministic : forall E, value_deterministic E -> forall h D n m,
  snd (recover E h D n) = snd (recover E h D m) /\
  d_sm (fst (recover E h D n)) = d_sm (fst (recover E h D m)) /\
  d_wal (fst (recover E h D n)) = d_wal (fst (recover E h D m)).
Proof. exact recover_det. Qed.

Theorem C13_replay_reruns_state_machine : forall E h D n,
  (d_sm (fst (recover E h D n)), d_calls (fst (recover E h D n))) = sm_replay E (init_state h) n (load D).
Proof. intros. unfold recover. rewrite replay_sm. reflexivity. Qed.

(* ---------- resume height ---------- *)
(* a Commit action is always the last action the state machine returns for one call, so execute (which
   returns at the Commit) never drops an action; proved over C12.Model.step *)
Theorem C13_commit_is_last_action : forall c s i, col (snd (step c s i)) = true.
Proof. exact step_col. Qed.

(* in every disciplined life the commit callbacks are for consecutive heights starting at the boot height,
   and the state machine ends at boot height + their number *)
Theorem C13_resume_height : forall E h D n ins, life_disc E h D n ins = true ->
  consecutive_from h (commits_in (flat (snd (lifetime E h D n ins)))) = true /\
  s_h (d_sm (fst (lifetime E h D n ins))) = h + N.of_nat (length (commits_in (flat (snd (lifetime E h D n ins))))).
Proof. exact resume_height_lemma. Qed.

(* across a kill at ANY effect boundary k: the process restarted at resume_height (the height after the last
   completed callback) continues the consecutive run of callbacks: no height is committed twice or skipped,
   and it ends at h0 + (callbacks before the kill) + (callbacks after) *)
Theorem C13_resume_height_across_crash : forall E h0 ins1 k n2 ins2,
  life_disc E h0 [] 0 ins1 = true ->
  (let '(pre, post) := crash_restart E h0 ins1 k n2 ins2 in
   life_disc E (resume_height h0 pre) (crash_at k (flat (snd (lifetime E h0 [] 0 ins1))) []) n2 ins2 = true ->
   consecutive_from h0 (commits_in pre ++ commits_in (flat (snd post))) = true /\
   s_h (d_sm (fst post)) = h0 + N.of_nat (length (commits_in pre ++ commits_in (flat (snd post))))).
Proof. exact resume_across_crash. Qed.

(* the recovered state machine is never below the boot height *)
Theorem C13_recovered_height_lower_bound : forall E h D n,
  replay_disc E (boot h D n) (load D) = true -> h <= s_h (d_sm (fst (recover E h D n))).
Proof. exact recover_height. Qed.

(* ---------- examples: the hypotheses are satisfiable on a non-trivial run; resume height; same final state ---------- *)
(* validator 0 (proposer of round 0) proposes 7, gets prevotes and precommits for 7 from 1, 2, 3, commits
   height 1 and starts height 2 (24 effects).  At EVERY kill point: the restarted life is disciplined, covers
   the pre-crash votes, does not conflict, commits consecutively from the resume height, keeps
   flush-before-visible / logged-first, and - given the inputs again - ends in the same consensus state
   (height, round, step, lock, valid value) as the life that was never killed. *)
Definition ex_ins : list input :=
  [IPrevote (mkV 1 0 1 (Some 7)); IPrevote (mkV 1 0 2 (Some 7)); IPrevote (mkV 1 0 3 (Some 7));
   IPrecommit (mkV 1 0 1 (Some 7)); IPrecommit (mkV 1 0 2 (Some 7)); IPrecommit (mkV 1 0 3 (Some 7));
   IPrevote (mkV 2 0 0 None)].
Definition core (s : state) := (s_h s, s_r s, s_step s, s_lv s, s_lr s, s_vv s, s_vr s, s_started s).
Definition core_eqb (a b : state) : bool :=
  (s_h a =? s_h b) && (s_r a =? s_r b)%Z && step_eqb (s_step a) (s_step b) && (s_lr a =? s_lr b)%Z &&
  (s_vr a =? s_vr b)%Z && Bool.eqb (s_started a) (s_started b).

Example ex_every_kill_point :
  length (flat (snd (lifetime ex_env_fixed 1 [] 0 ex_ins))) = 24%nat /\
  forallb (fun k =>
    let effs := flat (snd (lifetime ex_env_fixed 1 [] 0 ex_ins)) in
    let pre := firstn k effs in
    let h1 := resume_height 1 pre in
    let D := crash_at k effs [] in
    let post := lifetime ex_env_fixed h1 D 5 ex_ins in
    life_disc ex_env_fixed h1 D 5 ex_ins &&
    replay_covers (at_or_above h1 pre) (flat (snd post)) && no_conflict pre (flat (snd post)) &&
    consecutive_from h1 (commits_in (flat (snd post))) &&
    flush_before_visible (flat (snd post)) && logged_first (snd post) &&
    core_eqb (d_sm (fst post)) (d_sm (fst (lifetime ex_env_fixed 1 [] 0 ex_ins))))
    (seq 0 26) = true.
Proof. vm_compute. split; reflexivity. Qed.

(* ---------- the hypotheses of C13_no_conflict are satisfiable / not decorative ---------- *)
Example ex_plain_run : good_run ex_env_fixed 1 ex_ins = true /\ good_run ex_env_fresh 1 [] = true.
Proof. vm_compute. split; reflexivity. Qed.
Example ex_quorum_positive : quorum_positive ex_env_fixed /\ quorum_positive ex_env_fresh.
Proof. split; intro h; vm_compute; reflexivity. Qed.

(* value_deterministic is needed: the refuting run satisfies every other hypothesis of C13_no_conflict *)
Example C13_value_deterministic_needed :
  good_run ex_env_fresh 1 [] = true /\ quorum_positive ex_env_fresh /\
  (let '(pre, post) := crash_restart ex_env_fresh 1 [] 5 1 [] in
   life_disc ex_env_fresh (resume_height 1 pre) (crash_at 5 (flat (snd (lifetime ex_env_fresh 1 [] 0 []))) []) 1 [] = true /\
   no_conflict pre (flat (snd post)) = false).
Proof. split; [vm_compute; reflexivity|]. split; [intro h; vm_compute; reflexivity|]. vm_compute. split; reflexivity. Qed.

(* quorum_positive is needed for step to respect obs_eq: with total power 0 the quorum is 0, and an empty
   round entry (as a rejected message creates it) makes "quorum of any prevotes" true *)
Definition zero_cfg : cfg :=
  mkCfg 0 (fun _ => 0) (fun _ _ => 0) (fun _ _ => 1) (fun _ => true) (fun v => v) (fun _ => 0).
Definition st_a : state := mkS 1 0 SPrevote None (-1) None (-1) false false false true (vc_new 1) 0 0 0.
Definition st_b : state := mkS 1 0 SPrevote None (-1) None (-1) false false false true (mkVC 1 [(0%Z, r_empty)] []) 0 0 0.
Example C13_quorum_positive_needed :
  select zero_cfg st_a None = RNone /\ select zero_cfg st_b None = R34 /\
  (forall h r, cell (s_vc st_a) h r = cell (s_vc st_b) h r).
Proof.
  split; [vm_compute; reflexivity|]. split; [vm_compute; reflexivity|].
  intros h r. unfold cell, row, fut, st_a, st_b. simpl. destruct (h =? 1); [|reflexivity].
  unfold rm_get. simpl. destruct (r =? 0)%Z; reflexivity.
Qed.

(* the "stale timeout finds no rule pending" clause of good_run is not decorative (reproduced on the real
   driver: class recovery:stale-timeout-commits-unlogged).  Validator 3 of 4; the round-1 proposal re-proposes
   11 with valid round 0; the last round-0 prevote arrives late: the validator prevotes and precommits, its
   own precommit completes the quorum, but processLoop only looks at the proposal of the round of the message
   just received (round 0), so the commit stays pending; then a stale propose timeout (not logged: it matches
   nothing) runs processLoop and commits: a commit callback in a call none of whose input was logged. *)
Definition ex_cfg3 : cfg :=
  mkCfg 3 (fun _ => 4) (fun _ a => if a <? 4 then 1 else 0) (fun _ r => Z.to_N (r mod 4)%Z)
        (fun _ => true) (fun v => v) (fun _ => 0).
Definition ex_env3 : env := mkEnv ex_cfg3 (fun _ _ _ => 7).
Definition stale_ins : list input :=
  [ITimeout SPropose 1 0; IPrevote (mkV 1 0 0 (Some 11)); IPrevote (mkV 1 0 1 (Some 11));
   IPrecommit (mkV 1 0 0 None); IPrecommit (mkV 1 0 1 None); IPrecommit (mkV 1 0 2 None);
   ITimeout SPrecommit 1 0; IProposal (mkP 1 1 1 0 11);
   IPrevote (mkV 1 1 0 (Some 11)); IPrevote (mkV 1 1 1 (Some 11));
   IPrecommit (mkV 1 1 0 (Some 11)); IPrecommit (mkV 1 1 1 (Some 11));
   IPrevote (mkV 1 0 2 (Some 11))].
Example C13_stale_timeout_needed :
  good_run ex_env3 1 stale_ins = true /\
  good_run ex_env3 1 (stale_ins ++ [ITimeout SPropose 1 1]) = false /\
  logged_first (snd (lifetime ex_env3 1 [] 0 stale_ins)) = true /\
  logged_first (snd (lifetime ex_env3 1 [] 0 (stale_ins ++ [ITimeout SPropose 1 1]))) = false /\
  In (LIn (ITimeout SPropose 1 1), [Flush; CommitCb 1 11; Prune 1; Flush])
     (snd (lifetime ex_env3 1 [] 0 (stale_ins ++ [ITimeout SPropose 1 1]))).
Proof. vm_compute. repeat split; auto 20. Qed.

(* why the replay theorems exclude messages for future heights: a precommit that completes a quorum for a
   FUTURE height is added to the vote counter but is not logged (process.go returns TriggerSync before
   processMessage).  Validator 3 of 4 at height 1 receives precommits for (height 2, round 0, id 5) from 0, 1, 2:
   the first two are logged, the third only triggers the sync.  After a kill at the very end (everything
   flushed by the later prevote) the recovered counter holds 2 of them, the live one 3: the recovered state is
   not obs_eq to the state the life ended in, although all its inputs were "consumed". *)
Definition fut_ins : list input :=
  [IPrecommit (mkV 2 0 0 (Some 5)); IPrecommit (mkV 2 0 1 (Some 5)); IPrecommit (mkV 2 0 2 (Some 5));
   ITimeout SPropose 1 0].
Definition pc_count (s : state) : N := r_count_vote (cell (s_vc s) 2 0) Precommit (Some 5).
Example C13_future_quorum_precommit_lost :
  good_run ex_env3 1 fut_ins = false /\
  (let effs := flat (snd (lifetime ex_env3 1 [] 0 fut_ins)) in
   let k := length effs in
   pc_count (d_sm (fst (lifetime ex_env3 1 [] 0 fut_ins))) = 3 /\
   pc_count (d_sm (fst (recover ex_env3 (resume_height 1 (firstn k effs)) (crash_at k effs []) 0))) = 2).
Proof. vm_compute. repeat split; reflexivity. Qed.

(* a plain run WITH messages for future heights (logged at height 1 for heights 2 and 3, replayed after the
   height-1 entries): every kill point satisfies the conclusions of the theorems *)
Definition fut_ok_ins : list input :=
  [IPrevote (mkV 2 0 1 (Some 9)); IPrevote (mkV 1 0 1 (Some 7)); IPrecommit (mkV 3 1 2 None);
   IPrevote (mkV 1 0 2 (Some 7)); IProposal (mkP 2 0 1 (-1) 9); IPrevote (mkV 1 0 3 (Some 7));
   IPrecommit (mkV 1 0 1 (Some 7)); IPrecommit (mkV 1 0 2 (Some 7)); IPrecommit (mkV 1 0 3 (Some 7));
   IPrevote (mkV 2 0 2 (Some 9))].
Example ex_plain_run_with_future_messages :
  good_run ex_env_fixed 1 fut_ok_ins = true /\
  forallb (fun k =>
    let effs := flat (snd (lifetime ex_env_fixed 1 [] 0 fut_ok_ins)) in
    let pre := firstn k effs in
    let h1 := resume_height 1 pre in
    let D := crash_at k effs [] in
    let post := lifetime ex_env_fixed h1 D 5 [] in
    life_disc ex_env_fixed h1 D 5 [] && no_conflict pre (flat (snd post)) &&
    replay_covers (at_or_above h1 pre) (flat (snd post)))
    (seq 0 (S (length (flat (snd (lifetime ex_env_fixed 1 [] 0 fut_ok_ins)))))) = true.
Proof. vm_compute. split; reflexivity. Qed.

(* ---------- any number of crashes ---------- *)
(* Worlds E H D EH (Model.v): the worlds a validator process can be started in - initially an empty log at
   h0 >= 1; then ANY number of lives, each recovering from the log the previous one left, running a plain live
   phase (live_good) and being killed after ANY number k of its effects (also in the middle of its recovery).
   EH collects the effects of all those earlier lives.  A life started in such a world (any inputs that respect
   the calling discipline in its live phase) never broadcasts a prevote / precommit that conflicts with one
   broadcast by ANY earlier life; its own recovery respects the calling discipline (life_disc is derived, not
   assumed); its commit callbacks continue consecutively from H. *)
Theorem C13_no_conflict_any_number_of_crashes : forall E, value_deterministic E -> quorum_positive E ->
  forall H D EH n ins, Worlds E H D EH ->
  listen_disc E (fst (starts E SFUEL (fst (recover E H D n)))) ins = true ->
  no_conflict EH (flat (snd (lifetime E H D n ins))) = true /\ life_disc E H D n ins = true.
Proof. exact no_conflict_any_crashes. Qed.

Theorem C13_resume_height_any_number_of_crashes : forall E, value_deterministic E -> quorum_positive E ->
  forall H D EH n ins, Worlds E H D EH ->
  listen_disc E (fst (starts E SFUEL (fst (recover E H D n)))) ins = true ->
  consecutive_from H (commits_in (flat (snd (lifetime E H D n ins)))) = true /\
  s_h (d_sm (fst (lifetime E H D n ins))) = H + N.of_nat (length (commits_in (flat (snd (lifetime E H D n ins))))).
Proof. exact resume_any_crashes. Qed.

(* every reachable world is coherent: the log on disk can be recovered from (prunes below the resume height,
   only messages above it, replay respects the calling discipline) and its replay re-broadcasts every vote any
   earlier life broadcast for the resume height; no earlier vote is for a higher height *)
Theorem C13_worlds_coherent : forall E, value_deterministic E -> quorum_positive E ->
  forall H D EH, Worlds E H D EH -> Coh E H D EH.
Proof. exact Worlds_Coh. Qed.

(* a world reached through two kills (the second life killed while it is still recovering) *)
Example ex_world_after_two_kills :
  live_good ex_env_fixed (fst (recover ex_env_fixed 1 [] 0)) fut_ok_ins = true /\
  (let effs1 := flat (snd (lifetime ex_env_fixed 1 [] 0 fut_ok_ins)) in
   let H1 := resume_height 1 (firstn 12 effs1) in let D1 := crash_at 12 effs1 [] in
   live_good ex_env_fixed (fst (recover ex_env_fixed H1 D1 3)) ex_ins = true /\
   (let effs2 := flat (snd (lifetime ex_env_fixed H1 D1 3 ex_ins)) in
    let H2 := resume_height H1 (firstn 2 effs2) in let D2 := crash_at 2 effs2 D1 in
    no_conflict (firstn 12 effs1 ++ firstn 2 effs2) (flat (snd (lifetime ex_env_fixed H2 D2 9 ex_ins))) = true)).
Proof. vm_compute. repeat split; reflexivity. Qed.
