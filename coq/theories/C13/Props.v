(* C13 — property theorems only. Each is closed by [exact] of a lemma from Proofs*.v;
   Print Assumptions is run on every Theorem by bin/check. *)
From Coq Require Import List NArith ZArith Bool Lia.
From V Require Import C12.Model C13.Model C13.Proofs C13.Proofs_Votes C13.Proofs_Replay C13.Proofs_Commit C13.Proofs_Resume
  C13.Proofs_Obs C13.Proofs_ObsStep C13.Proofs_Crash C13.Proofs_Inv C13.Proofs_Final C13.Proofs_State C13.Proofs_Tail C13.Proofs_Lives
  C13.Proofs_Wal C13.Proofs_Plain C13.Proofs_Stop C13.Proofs_Log C13.Proofs_Sync C13.Proofs_Story.
From V Require C12.Proofs_Sim C12.Proofs_CfgEq C12.Props.
Import ListNotations.
Open Scope N_scope.

(* ---------- every input whose effects became visible was durably logged first ---------- *)
(* In the effect trace of every life of the process (any log directory content, any inputs, any
   environment): each Bcast / CommitCb is preceded by a Flush that comes after every earlier Append.
   flush_before_visible is the boolean the harness evaluates on the real driver's effects. *)
Theorem C13_flush_before_visible : forall E h durable calls ins,
  flush_before_visible (flat (snd (lifetime E h durable calls ins))) = true.
Proof. exact lifetime_flush_ok. Qed.

(* the same, spelled out *)
Theorem C13_flush_between_append_and_visible : forall E h durable calls ins l1 e l2 x l3,
  flat (snd (lifetime E h durable calls ins)) = l1 ++ Append e :: l2 ++ x :: l3 ->
  is_visible x = true -> In Flush l2.
Proof.
  intros E h durable calls ins. exact (flush_ok_spec _ false (lifetime_flush_ok E h durable calls ins)).
Qed.

(* the log is a function of the effect trace: crash_at is "what is on disk after the first k effects" *)
Theorem C13_wal_follows_trace : forall E h durable calls ins,
  d_wal (fst (lifetime E h durable calls ins)) =
  apply_effects (mkWal durable []) (flat (snd (lifetime E h durable calls ins))).
Proof. exact lifetime_wal. Qed.

(* ---------- the candidate: a proposer that is asked for its value again ---------- *)
(* four validators of power 1, proposer of round r is r mod 4, this validator is 0 *)
Definition ex_cfg : cfg :=
  mkCfg 0 (fun _ => 4) (fun _ a => if a <? 4 then 1 else 0) (fun _ r => Z.to_N (r mod 4)%Z)
        (fun _ => true) (fun v => v) (fun _ => 0).
(* an application whose n-th answer is 7 + n / one that always answers 7 *)
Definition ex_env_fresh : env := mkEnv ex_cfg (fun _ _ n => 7 + n).
Definition ex_env_fixed : env := mkEnv ex_cfg (fun _ _ _ => 7).

(* start => ws:1 fl bp(7) fl bv(7); killed after the prevote; restart replays Start, Value() answers 8:
   bp(8) bv(8) for the same height and round *)
Theorem C13_proposer_refuted : exists E k n2,
  let '(pre, post) := crash_restart E 1 [] k n2 [] in
  pre = [Append (EStart 1); Flush; Bcast (MProposal (mkP 1 0 0 (-1) 7)); Flush; Bcast (MPrevote (mkV 1 0 0 (Some 7)))] /\
  flat (snd post) = [Bcast (MProposal (mkP 1 0 0 (-1) 8)); Bcast (MPrevote (mkV 1 0 0 (Some 8)))] /\
  no_conflict pre (flat (snd post)) = false /\
  replay_covers pre (flat (snd post)) = false.
Proof. exists ex_env_fresh, 5%nat, 1. vm_compute. repeat split; reflexivity. Qed.

(* with a reproducible application the same kill is harmless, at every kill point of that life *)
Example ex_fixed_app_no_conflict :
  forallb (fun k => let '(pre, post) := crash_restart ex_env_fixed 1 [] k 1 [] in no_conflict pre (flat (snd post)) && replay_covers pre (flat (snd post)))
          [0; 1; 2; 3; 4; 5]%nat = true.
Proof. vm_compute. reflexivity. Qed.
Example ex_value_deterministic : value_deterministic ex_env_fixed.
Proof. intros h r n m. reflexivity. Qed.

(* ---------- no conflicting vote after recovery ---------- *)
(* Inside one life (replay of any log content + live phase on any inputs), under the calling discipline
   C12 needs (life_disc: no timeout reaches a state machine whose height is not started), the driver
   broadcasts at most one prevote and one precommit per (height, round).  Uses the C12 simulation
   (step_sim / Rel) and chain lemmas behind C12_no_double_vote, for a Value() that changes between calls. *)
Theorem C13_no_double_vote_in_life : forall E h D n ins k,
  life_disc E h D n ins = true ->
  one_per_slot (votes_in k (flat (snd (lifetime E h D n ins)))) = true.
Proof. exact life_one_per_slot. Qed.

(* FULL STATEMENT (not proved):
     value_deterministic E -> forall h0 ins1 k n2 ins2,
       let '(pre, post) := crash_restart E h0 ins1 k n2 ins2 in no_conflict pre (flat (snd post)) = true.
   PROVED: the restarted life cannot contradict a vote broadcast before the crash if it broadcasts that vote
   again (replay_covers: every pre-crash vote re-appears after the restart) - for ANY log content, boot
   height and inputs, and any list pre (instantiate it with at_or_above h pre: the votes of heights the
   restarted process can still vote in; older heights were committed and pruned).  Missing link: value_deterministic -> replay_covers (replay of the durable prefix
   reproduces the pre-crash votes); checked on every run by the harness on the real driver, and it is
   exactly what fails in C13_proposer_refuted. *)
Theorem C13_no_conflict_if_covers : forall E h D n ins pre,
  life_disc E h D n ins = true ->
  replay_covers pre (flat (snd (lifetime E h D n ins))) = true ->
  no_conflict pre (flat (snd (lifetime E h D n ins))) = true.
Proof. exact no_conflict_lemma. Qed.

(* C13_no_conflict.  For EVERY kill point k (before / after every individual effect) of a plain life:
   the process restarted on what is then on disk, at the height after the last completed commit callback,
   with any inputs ins2, never broadcasts a prevote / precommit that conflicts with one broadcast before the
   kill.  Hypotheses, all named:
     value_deterministic E   Value() does not depend on how often it was asked (C13_proposer_refuted: needed);
     quorum_positive E       the quorum of every height is > 0 (total voting power >= 1);
     good_run E h0 ins1      the killed life is "plain" (executable predicate, Model.good_step): it starts on an
                             empty log at h0 >= 1; messages of ANY height (also future heights: LoadAllEntries
                             then re-orders the log) but none takes the unlogged TriggerSync path;
                             ProcessStart does not itself commit; a stale timeout finds no rule pending; a
                             rejected message leaves its counter cell unchanged;
     life_disc (2nd life)    no timeout reaches a state machine whose height is not started (C12's discipline).
   Messages for future heights are covered: a future-height message is a pure update of its counter cell and
   commutes with every call of the current height up to obs_eq (Proofs_Fut / Proofs_Upd / Proofs_Core). *)
Theorem C13_no_conflict : forall E h0 ins1 k n2 ins2,
  value_deterministic E -> quorum_positive E -> good_run E h0 ins1 = true ->
  (let '(pre, post) := crash_restart E h0 ins1 k n2 ins2 in
   life_disc E (resume_height h0 pre) (crash_at k (flat (snd (lifetime E h0 [] 0 ins1))) []) n2 ins2 = true ->
   no_conflict pre (flat (snd post)) = true).
Proof. exact no_conflict_plain. Qed.

(* C13_replay_prefix.  For every kill point of a plain life: the consensus state recovered from what is on
   disk is, up to obs_eq, the state the killed life had at one of its call boundaries (life_states: the states
   between two calls of the state machine, each with the inputs not yet consumed) - the state after the durable
   input prefix; and every vote broadcast before the kill for the resume height is broadcast again by the
   replay (every pre-crash broadcast lies within what that prefix produces). *)
Theorem C13_replay_prefix : forall E h0 ins1 k n2,
  value_deterministic E -> quorum_positive E -> good_run E h0 ins1 = true ->
  let effs := flat (snd (lifetime E h0 [] 0 ins1)) in
  let pre := firstn k effs in
  (exists sd rest, In (sd, rest) (life_states E h0 ins1) /\
     obs_eq (d_sm (fst (recover E (resume_height h0 pre) (crash_at k effs []) n2))) sd) /\
  (forall kd v, In v (votes_in kd pre) -> resume_height h0 pre <= v_h v ->
     In v (votes_in kd (flat (snd (recover E (resume_height h0 pre) (crash_at k effs []) n2))))).
Proof. exact replay_prefix_plain. Qed.

(* C13_same_final_state.  ... and if the restarted process is then given the inputs the killed life had not
   consumed at that boundary, it ends (up to obs_eq) in the consensus state the life reaches when it is never
   killed. *)
Theorem C13_same_final_state : forall E h0 ins1 k n2,
  value_deterministic E -> quorum_positive E -> good_run E h0 ins1 = true ->
  let effs := flat (snd (lifetime E h0 [] 0 ins1)) in
  let pre := firstn k effs in
  exists sd rest, In (sd, rest) (life_states E h0 ins1) /\
    obs_eq (d_sm (fst (recover E (resume_height h0 pre) (crash_at k effs []) n2))) sd /\
    obs_eq (d_sm (fst (lifetime E (resume_height h0 pre) (crash_at k effs []) n2 rest)))
           (d_sm (fst (lifetime E h0 [] 0 ins1))).
Proof. exact same_final_plain. Qed.

(* the state machine respects the observational equivalence the replay theorems are stated with *)
Theorem C13_step_respects_obs_eq : forall c, (forall h, 0 < q_of (c_total c h)) -> forall s s' i,
  obs_eq s s' ->
  obs_eq (fst (fst (step_x c s i))) (fst (fst (step_x c s' i))) /\
  vis (snd (fst (step_x c s i))) = vis (snd (fst (step_x c s' i))).
Proof. exact step_x_obs. Qed.

(* ---------- replay ---------- *)
(* FULL STATEMENT (not proved): recovered state = state of the crashed life after the durable input prefix.
   PROVED: (1) recovery is a function of the log alone: with a reproducible Value(), the effects of the
   replay, the recovered consensus state and the log do not depend on what the application was asked
   before; (2) the recovered consensus state is the fold of ProcessWAL (the same step function, effects
   play no role) over the loaded entries that are not below the machine's height. *)
Theorem C13_replay_deterministic : forall E, value_deterministic E -> forall h D n m,
  snd (recover E h D n) = snd (recover E h D m) /\
  d_sm (fst (recover E h D n)) = d_sm (fst (recover E h D m)) /\
  d_wal (fst (recover E h D n)) = d_wal (fst (recover E h D m)).
Proof. exact recover_det. Qed.

Theorem C13_replay_reruns_state_machine : forall E h D n,
  (d_sm (fst (recover E h D n)), d_calls (fst (recover E h D n))) = sm_replay E (init_state h) n (load D).
Proof. intros. unfold recover. rewrite replay_sm. reflexivity. Qed.

(* ---------- resume height ---------- *)
(* a Commit action is always the last action the state machine returns for one call, so execute (which
   returns at the Commit) never drops an action; proved over C12.Model.step *)
Theorem C13_commit_is_last_action : forall c s i, col (snd (step c s i)) = true.
Proof. exact step_col. Qed.

(* in every disciplined life the commit callbacks are for consecutive heights starting at the boot height,
   and the state machine ends at boot height + their number *)
Theorem C13_resume_height : forall E h D n ins, life_disc E h D n ins = true ->
  consecutive_from h (commits_in (flat (snd (lifetime E h D n ins)))) = true /\
  s_h (d_sm (fst (lifetime E h D n ins))) = h + N.of_nat (length (commits_in (flat (snd (lifetime E h D n ins))))).
Proof. exact resume_height_lemma. Qed.

(* across a kill at ANY effect boundary k: the process restarted at resume_height (the height after the last
   completed callback) continues the consecutive run of callbacks: no height is committed twice or skipped,
   and it ends at h0 + (callbacks before the kill) + (callbacks after) *)
Theorem C13_resume_height_across_crash : forall E h0 ins1 k n2 ins2,
  life_disc E h0 [] 0 ins1 = true ->
  (let '(pre, post) := crash_restart E h0 ins1 k n2 ins2 in
   life_disc E (resume_height h0 pre) (crash_at k (flat (snd (lifetime E h0 [] 0 ins1))) []) n2 ins2 = true ->
   consecutive_from h0 (commits_in pre ++ commits_in (flat (snd post))) = true /\
   s_h (d_sm (fst post)) = h0 + N.of_nat (length (commits_in pre ++ commits_in (flat (snd post))))).
Proof. exact resume_across_crash. Qed.

(* the recovered state machine is never below the boot height *)
Theorem C13_recovered_height_lower_bound : forall E h D n,
  replay_disc E (boot h D n) (load D) = true -> h <= s_h (d_sm (fst (recover E h D n))).
Proof. exact recover_height. Qed.

(* ---------- examples: the hypotheses are satisfiable on a non-trivial run; resume height; same final state ---------- *)
(* validator 0 (proposer of round 0) proposes 7, gets prevotes and precommits for 7 from 1, 2, 3, commits
   height 1 and starts height 2 (24 effects).  At EVERY kill point: the restarted life is disciplined, covers
   the pre-crash votes, does not conflict, commits consecutively from the resume height, keeps
   flush-before-visible / logged-first, and - given the inputs again - ends in the same consensus state
   (height, round, step, lock, valid value) as the life that was never killed. *)
Definition ex_ins : list input :=
  [IPrevote (mkV 1 0 1 (Some 7)); IPrevote (mkV 1 0 2 (Some 7)); IPrevote (mkV 1 0 3 (Some 7));
   IPrecommit (mkV 1 0 1 (Some 7)); IPrecommit (mkV 1 0 2 (Some 7)); IPrecommit (mkV 1 0 3 (Some 7));
   IPrevote (mkV 2 0 0 None)].
Definition core (s : state) := (s_h s, s_r s, s_step s, s_lv s, s_lr s, s_vv s, s_vr s, s_started s).
Definition core_eqb (a b : state) : bool :=
  (s_h a =? s_h b) && (s_r a =? s_r b)%Z && step_eqb (s_step a) (s_step b) && (s_lr a =? s_lr b)%Z &&
  (s_vr a =? s_vr b)%Z && Bool.eqb (s_started a) (s_started b).

Example ex_every_kill_point :
  length (flat (snd (lifetime ex_env_fixed 1 [] 0 ex_ins))) = 24%nat /\
  forallb (fun k =>
    let effs := flat (snd (lifetime ex_env_fixed 1 [] 0 ex_ins)) in
    let pre := firstn k effs in
    let h1 := resume_height 1 pre in
    let D := crash_at k effs [] in
    let post := lifetime ex_env_fixed h1 D 5 ex_ins in
    life_disc ex_env_fixed h1 D 5 ex_ins &&
    replay_covers (at_or_above h1 pre) (flat (snd post)) && no_conflict pre (flat (snd post)) &&
    consecutive_from h1 (commits_in (flat (snd post))) &&
    flush_before_visible (flat (snd post)) && logged_first (snd post) &&
    core_eqb (d_sm (fst post)) (d_sm (fst (lifetime ex_env_fixed 1 [] 0 ex_ins))))
    (seq 0 26) = true.
Proof. vm_compute. split; reflexivity. Qed.

(* ---------- the hypotheses of C13_no_conflict are satisfiable / not decorative ---------- *)
Example ex_plain_run : good_run ex_env_fixed 1 ex_ins = true /\ good_run ex_env_fresh 1 [] = true.
Proof. vm_compute. split; reflexivity. Qed.
Example ex_quorum_positive : quorum_positive ex_env_fixed /\ quorum_positive ex_env_fresh.
Proof. split; intro h; vm_compute; reflexivity. Qed.

(* value_deterministic is needed: the refuting run satisfies every other hypothesis of C13_no_conflict *)
Example C13_value_deterministic_needed :
  good_run ex_env_fresh 1 [] = true /\ quorum_positive ex_env_fresh /\
  (let '(pre, post) := crash_restart ex_env_fresh 1 [] 5 1 [] in
   life_disc ex_env_fresh (resume_height 1 pre) (crash_at 5 (flat (snd (lifetime ex_env_fresh 1 [] 0 []))) []) 1 [] = true /\
   no_conflict pre (flat (snd post)) = false).
Proof. split; [vm_compute; reflexivity|]. split; [intro h; vm_compute; reflexivity|]. vm_compute. split; reflexivity. Qed.

(* quorum_positive is needed for step to respect obs_eq: with total power 0 the quorum is 0, and an empty
   round entry (as a rejected message creates it) makes "quorum of any prevotes" true *)
Definition zero_cfg : cfg :=
  mkCfg 0 (fun _ => 0) (fun _ _ => 0) (fun _ _ => 1) (fun _ => true) (fun v => v) (fun _ => 0).
Definition st_a : state := mkS 1 0 SPrevote None (-1) None (-1) false false false true (vc_new 1) 0 0 0.
Definition st_b : state := mkS 1 0 SPrevote None (-1) None (-1) false false false true (mkVC 1 [(0%Z, r_empty)] []) 0 0 0.
Example C13_quorum_positive_needed :
  select zero_cfg st_a None = RNone /\ select zero_cfg st_b None = R34 /\
  (forall h r, cell (s_vc st_a) h r = cell (s_vc st_b) h r).
Proof.
  split; [vm_compute; reflexivity|]. split; [vm_compute; reflexivity|].
  intros h r. unfold cell, row, fut, st_a, st_b. simpl. destruct (h =? 1); [|reflexivity].
  unfold rm_get. simpl. destruct (r =? 0)%Z; reflexivity.
Qed.

(* the "stale timeout finds no rule pending" clause of good_run is not decorative (reproduced on the real
   driver: class recovery:stale-timeout-commits-unlogged).  Validator 3 of 4; the round-1 proposal re-proposes
   11 with valid round 0; the last round-0 prevote arrives late: the validator prevotes and precommits, its
   own precommit completes the quorum, but processLoop only looks at the proposal of the round of the message
   just received (round 0), so the commit stays pending; then a stale propose timeout (not logged: it matches
   nothing) runs processLoop and commits: a commit callback in a call none of whose input was logged. *)
Definition ex_cfg3 : cfg :=
  mkCfg 3 (fun _ => 4) (fun _ a => if a <? 4 then 1 else 0) (fun _ r => Z.to_N (r mod 4)%Z)
        (fun _ => true) (fun v => v) (fun _ => 0).
Definition ex_env3 : env := mkEnv ex_cfg3 (fun _ _ _ => 7).
Definition stale_ins : list input :=
  [ITimeout SPropose 1 0; IPrevote (mkV 1 0 0 (Some 11)); IPrevote (mkV 1 0 1 (Some 11));
   IPrecommit (mkV 1 0 0 None); IPrecommit (mkV 1 0 1 None); IPrecommit (mkV 1 0 2 None);
   ITimeout SPrecommit 1 0; IProposal (mkP 1 1 1 0 11);
   IPrevote (mkV 1 1 0 (Some 11)); IPrevote (mkV 1 1 1 (Some 11));
   IPrecommit (mkV 1 1 0 (Some 11)); IPrecommit (mkV 1 1 1 (Some 11));
   IPrevote (mkV 1 0 2 (Some 11))].
Example C13_stale_timeout_needed :
  good_run ex_env3 1 stale_ins = true /\
  good_run ex_env3 1 (stale_ins ++ [ITimeout SPropose 1 1]) = false /\
  logged_first (snd (lifetime ex_env3 1 [] 0 stale_ins)) = true /\
  logged_first (snd (lifetime ex_env3 1 [] 0 (stale_ins ++ [ITimeout SPropose 1 1]))) = false /\
  In (LIn (ITimeout SPropose 1 1), [Flush; CommitCb 1 11; Prune 1; Flush])
     (snd (lifetime ex_env3 1 [] 0 (stale_ins ++ [ITimeout SPropose 1 1]))).
Proof. vm_compute. repeat split; auto 20. Qed.

(* why the replay theorems exclude messages for future heights: a precommit that completes a quorum for a
   FUTURE height is added to the vote counter but is not logged (process.go returns TriggerSync before
   processMessage).  Validator 3 of 4 at height 1 receives precommits for (height 2, round 0, id 5) from 0, 1, 2:
   the first two are logged, the third only triggers the sync.  After a kill at the very end (everything
   flushed by the later prevote) the recovered counter holds 2 of them, the live one 3: the recovered state is
   not obs_eq to the state the life ended in, although all its inputs were "consumed". *)
Definition fut_ins : list input :=
  [IPrecommit (mkV 2 0 0 (Some 5)); IPrecommit (mkV 2 0 1 (Some 5)); IPrecommit (mkV 2 0 2 (Some 5));
   ITimeout SPropose 1 0].
Definition pc_count (s : state) : N := r_count_vote (cell (s_vc s) 2 0) Precommit (Some 5).
Example C13_future_quorum_precommit_lost :
  good_run ex_env3 1 fut_ins = false /\
  (let effs := flat (snd (lifetime ex_env3 1 [] 0 fut_ins)) in
   let k := length effs in
   pc_count (d_sm (fst (lifetime ex_env3 1 [] 0 fut_ins))) = 3 /\
   pc_count (d_sm (fst (recover ex_env3 (resume_height 1 (firstn k effs)) (crash_at k effs []) 0))) = 2).
Proof. vm_compute. repeat split; reflexivity. Qed.

(* a plain run WITH messages for future heights (logged at height 1 for heights 2 and 3, replayed after the
   height-1 entries): every kill point satisfies the conclusions of the theorems *)
Definition fut_ok_ins : list input :=
  [IPrevote (mkV 2 0 1 (Some 9)); IPrevote (mkV 1 0 1 (Some 7)); IPrecommit (mkV 3 1 2 None);
   IPrevote (mkV 1 0 2 (Some 7)); IProposal (mkP 2 0 1 (-1) 9); IPrevote (mkV 1 0 3 (Some 7));
   IPrecommit (mkV 1 0 1 (Some 7)); IPrecommit (mkV 1 0 2 (Some 7)); IPrecommit (mkV 1 0 3 (Some 7));
   IPrevote (mkV 2 0 2 (Some 9))].
Example ex_plain_run_with_future_messages :
  good_run ex_env_fixed 1 fut_ok_ins = true /\
  forallb (fun k =>
    let effs := flat (snd (lifetime ex_env_fixed 1 [] 0 fut_ok_ins)) in
    let pre := firstn k effs in
    let h1 := resume_height 1 pre in
    let D := crash_at k effs [] in
    let post := lifetime ex_env_fixed h1 D 5 [] in
    life_disc ex_env_fixed h1 D 5 [] && no_conflict pre (flat (snd post)) &&
    replay_covers (at_or_above h1 pre) (flat (snd post)))
    (seq 0 (S (length (flat (snd (lifetime ex_env_fixed 1 [] 0 fut_ok_ins)))))) = true.
Proof. vm_compute. split; reflexivity. Qed.

(* ---------- any number of crashes ---------- *)
(* Worlds E H D EH (Model.v): the worlds a validator process can be started in - initially an empty log at
   h0 >= 1; then ANY number of lives, each recovering from the log the previous one left, running a plain live
   phase (live_good) and being killed after ANY number k of its effects (also in the middle of its recovery).
   EH collects the effects of all those earlier lives.  A life started in such a world (any inputs that respect
   the calling discipline in its live phase) never broadcasts a prevote / precommit that conflicts with one
   broadcast by ANY earlier life; its own recovery respects the calling discipline (life_disc is derived, not
   assumed); its commit callbacks continue consecutively from H. *)
Theorem C13_no_conflict_any_number_of_crashes : forall E, value_deterministic E -> quorum_positive E ->
  forall H D EH n ins, Worlds E H D EH ->
  listen_disc E (fst (starts E SFUEL (fst (recover E H D n)))) ins = true ->
  no_conflict EH (flat (snd (lifetime E H D n ins))) = true /\ life_disc E H D n ins = true.
Proof. exact no_conflict_any_crashes. Qed.

Theorem C13_resume_height_any_number_of_crashes : forall E, value_deterministic E -> quorum_positive E ->
  forall H D EH n ins, Worlds E H D EH ->
  listen_disc E (fst (starts E SFUEL (fst (recover E H D n)))) ins = true ->
  consecutive_from H (commits_in (flat (snd (lifetime E H D n ins)))) = true /\
  s_h (d_sm (fst (lifetime E H D n ins))) = H + N.of_nat (length (commits_in (flat (snd (lifetime E H D n ins))))).
Proof. exact resume_any_crashes. Qed.

(* every reachable world is coherent: the log on disk can be recovered from (prunes below the resume height,
   only messages above it, replay respects the calling discipline) and its replay re-broadcasts every vote any
   earlier life broadcast for the resume height; no earlier vote is for a higher height *)
Theorem C13_worlds_coherent : forall E, value_deterministic E -> quorum_positive E ->
  forall H D EH, Worlds E H D EH -> Coh E H D EH.
Proof. exact Worlds_Coh. Qed.

(* a world reached through two kills (the second life killed while it is still recovering) *)
Example ex_world_after_two_kills :
  live_good ex_env_fixed (fst (recover ex_env_fixed 1 [] 0)) fut_ok_ins = true /\
  (let effs1 := flat (snd (lifetime ex_env_fixed 1 [] 0 fut_ok_ins)) in
   let H1 := resume_height 1 (firstn 12 effs1) in let D1 := crash_at 12 effs1 [] in
   live_good ex_env_fixed (fst (recover ex_env_fixed H1 D1 3)) ex_ins = true /\
   (let effs2 := flat (snd (lifetime ex_env_fixed H1 D1 3 ex_ins)) in
    let H2 := resume_height H1 (firstn 2 effs2) in let D2 := crash_at 2 effs2 D1 in
    no_conflict (firstn 12 effs1 ++ firstn 2 effs2) (flat (snd (lifetime ex_env_fixed H2 D2 9 ex_ins))) = true)).
Proof. vm_compute. repeat split; reflexivity. Qed.

(* ====================================================================================================
   2026-09-26.  (A) the per-run assumption about rejected messages is discharged with C12's vote-counter
   invariant, "same consensus state" is C12's st_sim, the state-level statements hold for any number of
   lives; (B) lives that end through the regular return path of driver.Run (refusing commit listener,
   failing store call, cancelled context: the deferred Close flushes what is pending).
   ==================================================================================================== *)
Notation st_sim := C12.Proofs_Sim.st_sim.

(* ---------- (A1) plain_run: good_run without "a rejected message leaves its counter cell unchanged" ---------- *)
(* C12/Proofs_WalReplay.v: every counter a state machine reaches is well-formed (rd_wf: a ballot in a per-id / nil
   set is in allVotes, uncountedProposerPower > 0 only while the proposer has not voted), and on a well-formed
   counter a rejected proposal / vote changes no cell (vc_add_proposal_reject, vc_add_vote_reject).  So the clause
   holds in every run and every theorem stated with good_run / live_good holds with plain_run / live_plain. *)
Theorem C13_plain_run_is_good_run : forall E h0 ins, plain_run E h0 ins = true -> good_run E h0 ins = true.
Proof. exact plain_run_good. Qed.
Theorem C13_live_plain_is_live_good : forall E H D n ins,
  live_plain E (fst (recover E H D n)) ins = true -> live_good E (fst (recover E H D n)) ins = true.
Proof. exact live_plain_good_recover. Qed.

Theorem C13_no_conflict_plain : forall E, value_deterministic E -> quorum_positive E ->
  forall h0 ins1 k n2 ins2, plain_run E h0 ins1 = true ->
  (let '(pre, post) := crash_restart E h0 ins1 k n2 ins2 in
   life_disc E (resume_height h0 pre) (crash_at k (flat (snd (lifetime E h0 [] 0 ins1))) []) n2 ins2 = true ->
   no_conflict pre (flat (snd post)) = true).
Proof. exact no_conflict_plain_run. Qed.

(* C13_replay_prefix / C13_same_final_state with plain_run, and up to st_sim: all scalar fields INCLUDING
   lastTriggerSync / lastQuorum and equal round data in every cell - provided no call of the recovery returns
   TriggerSync (replay_quiet, executable; C13_recovery_trigger_sync_refuted below: it can) *)
Theorem C13_replay_prefix_st_sim : forall E h0 ins1 k n2,
  value_deterministic E -> quorum_positive E -> plain_run E h0 ins1 = true ->
  let effs := flat (snd (lifetime E h0 [] 0 ins1)) in
  let pre := firstn k effs in
  let H' := resume_height h0 pre in
  let D' := crash_at k effs [] in
  (exists sd rest, In (sd, rest) (life_states E h0 ins1) /\
     obs_eq (d_sm (fst (recover E H' D' n2))) sd /\
     (replay_quiet E H' D' n2 = true -> st_sim (d_sm (fst (recover E H' D' n2))) sd)) /\
  (forall kd v, In v (votes_in kd pre) -> H' <= v_h v -> In v (votes_in kd (flat (snd (recover E H' D' n2))))).
Proof. exact replay_prefix_sim. Qed.

Theorem C13_same_final_state_st_sim : forall E h0 ins1 k n2,
  value_deterministic E -> quorum_positive E -> plain_run E h0 ins1 = true ->
  let effs := flat (snd (lifetime E h0 [] 0 ins1)) in
  let pre := firstn k effs in
  let H' := resume_height h0 pre in
  let D' := crash_at k effs [] in
  exists sd rest, In (sd, rest) (life_states E h0 ins1) /\
    obs_eq (d_sm (fst (recover E H' D' n2))) sd /\
    obs_eq (d_sm (fst (lifetime E H' D' n2 rest))) (d_sm (fst (lifetime E h0 [] 0 ins1))) /\
    (replay_quiet E H' D' n2 = true -> live_plain E (fst (recover E H' D' n2)) rest = true ->
     st_sim (d_sm (fst (lifetime E H' D' n2 rest))) (d_sm (fst (lifetime E h0 [] 0 ins1)))).
Proof. exact same_final_sim. Qed.

(* obs_eq and st_sim differ by the sync bookkeeping only, and that only moves in a call that returns TriggerSync *)
Theorem C13_obs_eq_plus_sync_is_st_sim : forall a b, obs_eq a b -> ltq a = ltq b -> st_sim a b.
Proof. exact obs_ltq_sim. Qed.
Theorem C13_sync_bookkeeping_moves_with_trigger_only : forall E s n i,
  has_trigger (snd (sm_step E s n i)) = false -> ltq (fst (fst (sm_step E s n i))) = ltq s.
Proof. exact sm_step_ltq. Qed.

(* C12_wal_replay_same_state read for the driver's state machine: for the calls made with one (height, round)
   environment, what a restarted process (another Application object, n vs m earlier Value() calls) re-derives
   from the entries they logged is what the calls did - same state up to st_sim, same actions. *)
Theorem C13_height_round_replay_by_C12 : forall E, value_deterministic E -> quorum_positive E -> forall h r n m ins,
  wal_disciplined (cfg_at E h r n) (init_state h) ins = true ->
  st_sim (fst (replay_wal (cfg_at E h r m) (init_state h) (wal_written (snd (run (cfg_at E h r n) (init_state h) ins)))))
         (fst (run (cfg_at E h r n) (init_state h) ins)) /\
  replay_actions (snd (replay_wal (cfg_at E h r m) (init_state h) (wal_written (snd (run (cfg_at E h r n) (init_state h) ins))))) =
  all_actions (snd (run (cfg_at E h r n) (init_state h) ins)).
Proof. exact height_round_replay_by_C12. Qed.

(* ---------- (B) any number of lives, ended in any way ---------- *)
(* Worlds2 (Model.v): initially an empty log at h0 >= 1; then any number of lives, each recovering from what its
   predecessor left and running a plain live phase, ended EITHER by a kill after any number k of its effects OR
   through the regular return path of driver.Run after k effects with Close flushing what is pending (stop_ok:
   nothing pending, or only timers / broadcasts until the next Flush or the end of the life - i.e. a failing
   Flush, a SetWALEntry that stored and reported an error, the end of a call; every other return of Run happens
   right after a Flush).  A refused commit callback is NOT an effect: it does not count as a completed commit. *)
Theorem C13_worlds2_coherent : forall E, value_deterministic E -> quorum_positive E ->
  forall H D EH, Worlds2 E H D EH -> Coh E H D EH.
Proof. exact Worlds2_Coh. Qed.

Theorem C13_no_conflict_after_any_endings : forall E, value_deterministic E -> quorum_positive E ->
  forall H D EH n ins, Worlds2 E H D EH ->
  listen_disc E (fst (starts E SFUEL (fst (recover E H D n)))) ins = true ->
  no_conflict EH (flat (snd (lifetime E H D n ins))) = true /\ life_disc E H D n ins = true.
Proof. exact no_conflict_any_endings. Qed.

Theorem C13_resume_height_after_any_endings : forall E, value_deterministic E -> quorum_positive E ->
  forall H D EH n ins, Worlds2 E H D EH ->
  listen_disc E (fst (starts E SFUEL (fst (recover E H D n)))) ins = true ->
  consecutive_from H (commits_in (flat (snd (lifetime E H D n ins)))) = true /\
  s_h (d_sm (fst (lifetime E H D n ins))) = H + N.of_nat (length (commits_in (flat (snd (lifetime E H D n ins))))).
Proof. exact resume_any_endings. Qed.

(* the state recovered in a reachable world is the state the log stands for: a fresh state machine at the
   resume height given exactly the durable entries (logged_state: those of the resume height through the
   Process* calls in log order, those above it counted) *)
Theorem C13_recovered_state_is_logged_state : forall E, value_deterministic E -> quorum_positive E ->
  forall H D EH n, Worlds2 E H D EH ->
  obs_eq (d_sm (fst (recover E H D n))) (logged_state E H (entries_of D)) /\
  (replay_quiet E H D n = true -> st_sim (d_sm (fst (recover E H D n))) (logged_state E H (entries_of D))).
Proof. exact recovered_logged_w. Qed.

(* ... and so is the state of a life at the end of its inputs, for everything it appended (flushed or not) *)
Theorem C13_live_state_is_logged_state : forall E, value_deterministic E -> quorum_positive E ->
  forall H D EH n ins, Worlds2 E H D EH -> live_plain E (fst (recover E H D n)) ins = true ->
  let d := fst (lifetime E H D n ins) in
  let A := entries_of (w_durable (d_wal d) ++ w_pending (d_wal d)) in
  obs_eq (d_sm d) (logged_state E (s_h (d_sm d)) A) /\
  (replay_quiet E H D n = true -> st_sim (d_sm d) (logged_state E (s_h (d_sm d)) A)).
Proof. exact live_logged_w. Qed.

(* after a kill at ANY point of ANY life (any number of earlier kills / stops): the state reached by replaying
   the durable log equals the state of a crash-free run - any life, in any reachable world, that was never
   killed - whose logged inputs at or above the height are exactly the durable ones *)
Theorem C13_recovered_state_is_crash_free_run : forall E, value_deterministic E -> quorum_positive E ->
  forall H D EH n H2 D2 EH2 n2 ins2,
  Worlds2 E H D EH -> Worlds2 E H2 D2 EH2 -> live_plain E (fst (recover E H2 D2 n2)) ins2 = true ->
  let d2 := fst (lifetime E H2 D2 n2 ins2) in
  s_h (d_sm d2) = H ->
  above_f H (entries_of D) = above_f H (entries_of (w_durable (d_wal d2) ++ w_pending (d_wal d2))) ->
  obs_eq (d_sm (fst (recover E H D n))) (d_sm d2) /\
  (replay_quiet E H D n = true -> replay_quiet E H2 D2 n2 = true -> st_sim (d_sm (fst (recover E H D n))) (d_sm d2)).
Proof. exact recovered_is_crash_free_run_w. Qed.

(* regular shutdown: a life that consumed its inputs and returned through Close (flush succeeded) is, after the
   restart at the height it had reached, in the state it left *)
Theorem C13_stop_restart_same_state : forall E, value_deterministic E -> quorum_positive E ->
  forall H D EH n ins n', Worlds2 E H D EH -> live_plain E (fst (recover E H D n)) ins = true ->
  let effs := flat (snd (lifetime E H D n ins)) in
  let d := fst (lifetime E H D n ins) in
  let H' := resume_height H effs in
  let D' := stop_disk (length effs) effs D in
  s_h (d_sm d) = H' /\
  obs_eq (d_sm (fst (recover E H' D' n'))) (d_sm d) /\
  (replay_quiet E H D n = true -> replay_quiet E H' D' n' = true -> st_sim (d_sm (fst (recover E H' D' n'))) (d_sm d)).
Proof. exact stop_restart_same_w. Qed.

(* ---------- what the log directory holds, for ANY life (no hypothesis at all), whatever way it ends ---------- *)
(* at the moment of every broadcast / commit callback nothing is pending in the log: whatever was appended
   (or pruned) before is on disk, so no later failure can make the log claim less than what was visible *)
Theorem C13_nothing_pending_when_visible : forall E h D n ins l1 x l2,
  flat (snd (lifetime E h D n ins)) = l1 ++ x :: l2 -> is_visible x = true ->
  w_pending (apply_effects (mkWal D []) l1) = [].
Proof. exact nothing_pending_when_visible. Qed.
Theorem C13_clean_when_visible : forall E h D n ins,
  clean_when_visible false (flat (snd (lifetime E h D n ins))) = true.
Proof. exact lifetime_clean. Qed.

(* a prune record that a life adds to the directory (kill after k effects, or return through Close) stands for a
   commit callback that returned true in that life: the log of a height whose commit did not complete is kept *)
Theorem C13_prune_only_after_completed_commit : forall E h D n ins fl k g,
  let effs := flat (snd (lifetime E h D n ins)) in
  In (RPrune g) (end_disk fl k effs D) -> In (RPrune g) D \/ In g (commits_in (firstn k effs)).
Proof. exact end_disk_prunes. Qed.
Theorem C13_prunes_follow_commit_callback : forall E h D n ins,
  prunes_follow_cb None (flat (snd (lifetime E h D n ins))) = true.
Proof. exact lifetime_pf_none. Qed.

(* every entry appended before a visible effect is read back (LoadAllEntries) from the directory the life leaves,
   unless a prune record on that disk covers its height *)
Theorem C13_durable_log_covers_visible : forall E h D n ins fl k,
  let effs := flat (snd (lifetime E h D n ins)) in
  log_covers_visible (pruned_upto (end_disk fl k effs D)) (firstn k effs) (load (end_disk fl k effs D)) = true.
Proof. exact end_disk_covers. Qed.

(* in a reachable world: ... unless its height is at or below the last COMPLETED commit (the predicate the
   harness evaluates on the driver's effects and the entries read back from its directory) *)
Theorem C13_log_keeps_uncommitted_heights : forall E, value_deterministic E -> quorum_positive E ->
  forall H D EH n ins k fl, Worlds2 E H D EH -> live_plain E (fst (recover E H D n)) ins = true ->
  let effs := flat (snd (lifetime E H D n ins)) in
  (fl = true -> stop_ok D effs k = true) ->
  log_covers_visible (resume_height H (firstn k effs) - 1) (firstn k effs) (load (end_disk fl k effs D)) = true.
Proof. exact log_keeps_uncommitted. Qed.

(* the fault scripts of the correspondence run (Model.fault_outcome: the first store call / commit callback at or
   after effect k fails, performed or not; the context is cancelled after k effects): whatever the script, the life
   performed a PREFIX of the effects of the fault-free life on the same inputs - so the theorems above, which speak
   about firstn k of a life's effects and the two ways the log can be left (end_disk), cover it *)
Theorem C13_fault_outcome_is_a_prefix : forall tr f,
  flat (o_steps (fault_outcome tr f)) = firstn (length (flat (o_steps (fault_outcome tr f)))) (flat tr).
Proof. exact fault_outcome_prefix. Qed.

(* ---------- examples: a refusing listener, a failing flush, a shutdown ---------- *)
(* the committing life of ex_every_kill_point (24 effects; the commit callback is effect number 15) *)
Definition ex_tr := snd (lifetime ex_env_fixed 1 [] 0 ex_ins).
Definition ex_effs := flat ex_tr.
Example ex_listener_refuses :
  nth_error ex_effs 15 = Some (CommitCb 1 7) /\
  (let o := fault_outcome ex_tr (FFail 15 false true) in
   let pre := flat (o_steps o) in
   o_failed o = Some (CommitCb 1 7) /\ length pre = 15%nat /\ commits_in pre = [] /\
   stop_ok [] ex_effs 15 = true /\
   let D := end_disk (o_flushed o) 15 ex_effs [] in
   (* the whole log of height 1 is still there, nothing was pruned *)
   pruned_upto D = 0 /\ length (load D) = 6%nat /\
   (* restarted at height 1 (the commit did not complete): the replay re-derives the commit, the callback is called again *)
   let post := lifetime ex_env_fixed (resume_height 1 pre) D 5 ex_ins in
   resume_height 1 pre = 1 /\ commits_in (flat (snd post)) = [1] /\
   no_conflict pre (flat (snd post)) = true /\ replay_covers (at_or_above 1 pre) (flat (snd post)) = true /\
   log_covers_visible 0 pre (load D) = true).
Proof. vm_compute. repeat split; reflexivity. Qed.

(* every store call / the callback fails (performed or not, Close flushing or not) and the context is cancelled at
   every point: the world left satisfies the hypothesis of the theorems (where Close flushed: stop_ok, or the life
   stopped at the end of a call, which is the end of a life with fewer inputs), the restarted
   life is disciplined, does not conflict, commits consecutively, and the log covers what was visible *)
Definition ex_faults : list fault :=
  flat_map (fun k => [FFail k false true; FFail k false false; FFail k true true; FFail k true false;
                      FCancel k true; FCancel k false]) (seq 0 26).
Example ex_every_way_out :
  forallb (fun f =>
    let o := fault_outcome ex_tr f in
    let pre := flat (o_steps o) in
    let k := length pre in
    let D := end_disk (o_flushed o) k ex_effs [] in
    let h1 := resume_height 1 pre in
    let post := lifetime ex_env_fixed h1 D 5 ex_ins in
    o_valid o &&
    (negb (o_flushed o) || stop_ok [] ex_effs k ||
     (* the end of a call = the end of the life that was given only the inputs up to that call *)
     existsb (fun j => Nat.eqb k (length (flat (snd (lifetime ex_env_fixed 1 [] 0 (firstn j ex_ins)))))) (seq 0 8)) &&
    list_eqb (fun a b => true) pre (firstn k ex_effs) &&
    life_disc ex_env_fixed h1 D 5 ex_ins && no_conflict pre (flat (snd post)) &&
    consecutive_from h1 (commits_in (flat (snd post))) &&
    log_covers_visible (h1 - 1) pre (load D) && prunes_follow_cb None pre && clean_when_visible false pre)
    ex_faults = true.
Proof. vm_compute. reflexivity. Qed.

(* regular shutdown at the end of the inputs, Close flushes, restart: same state (st_sim as a boolean) *)
Example ex_stop_restart_same_state :
  let d := fst (lifetime ex_env_fixed 1 [] 0 ex_ins) in
  let D' := stop_disk (length ex_effs) ex_effs [] in
  let H' := resume_height 1 ex_effs in
  plain_run ex_env_fixed 1 ex_ins = true /\ replay_quiet ex_env_fixed H' D' 9 = true /\
  st_sim_b (d_sm (fst (recover ex_env_fixed H' D' 9))) (d_sm d) = true /\
  st_sim_b (d_sm d) (logged_state ex_env_fixed H' (entries_of D')) = true.
Proof. vm_compute. repeat split; reflexivity. Qed.

(* ---------- st_sim can fail where obs_eq holds: the recovery itself can return TriggerSync ---------- *)
(* vote_counter.go compares a FUTURE height's precommits with the CURRENT height's quorum.  Validator 3; total
   voting power 4 at height 1 (quorum 3), 2 at height 2 (quorum 2).  At height 1 it logs two precommits for
   (height 3, round 0, id 5) - no quorum of 3 -, commits height 1, starts height 2, a propose timeout flushes.
   Killed at the end and restarted at height 2: the replay processes the two precommits at height 2, where two ARE
   a quorum: TriggerSync, lastTriggerSync 0 -> 3.  Every hypothesis of the replay theorems holds; the recovered
   state is obs_eq to the state the life ended in (C13_replay_prefix) but not st_sim.  Harmless (the restarted node
   asks the block fetcher for a height it has a quorum for), and it is why st_sim is conditional on replay_quiet. *)
Definition pw_cfg : cfg :=
  mkCfg 3 (fun h => if h =? 2 then 2 else 4) (fun _ a => if a <? 4 then 1 else 0) (fun _ r => Z.to_N (r mod 4)%Z)
        (fun _ => true) (fun v => v) (fun _ => 0).
Definition pw_env : env := mkEnv pw_cfg (fun _ _ _ => 7).
Definition pw_ins : list input :=
  [IPrecommit (mkV 3 0 0 (Some 5)); IPrecommit (mkV 3 0 1 (Some 5));
   IProposal (mkP 1 0 0 (-1) 11); IPrevote (mkV 1 0 0 (Some 11)); IPrevote (mkV 1 0 1 (Some 11));
   IPrecommit (mkV 1 0 0 (Some 11)); IPrecommit (mkV 1 0 1 (Some 11)); ITimeout SPropose 2 0].
Theorem C13_recovery_trigger_sync_refuted :
  value_deterministic pw_env /\ quorum_positive pw_env /\ plain_run pw_env 1 pw_ins = true /\
  (let effs := flat (snd (lifetime pw_env 1 [] 0 pw_ins)) in
   let k := length effs in
   let H' := resume_height 1 (firstn k effs) in let D' := crash_at k effs [] in
   H' = 2 /\ replay_quiet pw_env H' D' 0 = false /\
   s_lts (d_sm (fst (recover pw_env H' D' 0))) = 3 /\ s_lts (d_sm (fst (lifetime pw_env 1 [] 0 pw_ins))) = 0 /\
   st_sim_b (d_sm (fst (recover pw_env H' D' 0))) (d_sm (fst (lifetime pw_env 1 [] 0 pw_ins))) = false).
Proof.
  split; [intros h r n m; reflexivity|]. split; [intro h; unfold pw_env, pw_cfg; simpl; destruct (h =? 2); vm_compute; reflexivity|].
  vm_compute. repeat split; reflexivity.
Qed.

(* ---------- the refuting runs of C13 and of C12 are the same runs ---------- *)
(* stale, unlogged timeout: the calls the driver makes in C13_stale_timeout_needed are the inputs of
   C12_wal_replay_stale_timeout_refuted; C12's log discipline (wal_disciplined) fails on the last one, C13's
   plain_run / logged_first too; C12: the replay of the log stays at height 1; C13: a process killed between the
   flush and the commit callback of that call and restarted from the log stays at height 1 and does not commit *)
Example C13_stale_timeout_same_run_as_C12 :
  map fst (snd (lifetime ex_env3 1 [] 0 (stale_ins ++ [ITimeout SPropose 1 1]))) =
    map LIn (C12.Props.stale_ins ++ [ITimeout SPropose 1 1]) ++ [LIn (IStart 0)] /\
  wal_disciplined (cfg_at ex_env3 1 0 0) (init_state 1) (C12.Props.stale_ins ++ [ITimeout SPropose 1 1]) = false /\
  wal_disciplined (cfg_at ex_env3 1 0 0) (init_state 1) C12.Props.stale_ins = true /\
  plain_run ex_env3 1 stale_ins = true /\ plain_run ex_env3 1 (stale_ins ++ [ITimeout SPropose 1 1]) = false /\
  s_h (C12.Props.replayed (C12.Props.ex_cfg 3) 1 (C12.Props.stale_ins ++ [ITimeout SPropose 1 1])) = 1 /\
  (let effs := flat (snd (lifetime ex_env3 1 [] 0 (stale_ins ++ [ITimeout SPropose 1 1]))) in
   nth_error effs 27 = Some (CommitCb 1 11) /\
   let pre := firstn 27 effs in
   resume_height 1 pre = 1 /\
   s_h (d_sm (fst (recover ex_env3 1 (crash_at 27 effs []) 0))) = 1 /\
   commits_in (flat (snd (recover ex_env3 1 (crash_at 27 effs []) 0))) = [] /\
   s_h (d_sm (fst (lifetime ex_env3 1 [] 0 (stale_ins ++ [ITimeout SPropose 1 1])))) = 2).
Proof. vm_compute. repeat split; reflexivity. Qed.

(* unlogged precommit that completes a future-height quorum: C13_future_quorum_precommit_lost is
   C12_wal_replay_same_state_refuted (three precommits for (2, 0, id 5) to validator 3 at height 1) *)
Example C13_future_quorum_same_run_as_C12 :
  map fst (snd (lifetime ex_env3 1 [] 0 (firstn 3 fut_ins))) = map LIn C12.Props.trig_ins /\
  wal_disciplined (cfg_at ex_env3 1 0 0) (init_state 1) C12.Props.trig_ins = false /\
  plain_run ex_env3 1 (firstn 3 fut_ins) = false /\ plain_run ex_env3 1 (firstn 2 fut_ins) = true /\
  s_lts (d_sm (fst (lifetime ex_env3 1 [] 0 (firstn 3 fut_ins)))) = 2 /\
  s_lts (fst (run (C12.Props.ex_cfg 3) (init_state 1) C12.Props.trig_ins)) = 2.
Proof. vm_compute. repeat split; reflexivity. Qed.

(* Value() asked again while replaying Start: C13_proposer_refuted is C12_wal_replay_value_needed at the level of the
   driver.  The environment of the restarted process (one earlier Value() call) is not cfg_same to the first
   one's - cs_value fails at call index 0 -, with the reproducible application it is (cfg_at_same, which is what
   C13_height_round_replay_by_C12 uses) *)
Example C13_proposer_value_same_as_C12 :
  c_value_at (cfg_at ex_env_fresh 1 0 0) 0 = 7 /\ c_value_at (cfg_at ex_env_fresh 1 0 1) 0 = 8 /\
  wal_disciplined (cfg_at ex_env_fresh 1 0 0) (init_state 1) [IStart 0] = true /\
  votes_of Prevote (all_actions (snd (run (cfg_at ex_env_fresh 1 0 0) (init_state 1) [IStart 0]))) = [mkV 1 0 0 (Some 7)] /\
  votes_of Prevote (replay_actions (snd (replay_wal (cfg_at ex_env_fresh 1 0 1) (init_state 1)
     (wal_written (snd (run (cfg_at ex_env_fresh 1 0 0) (init_state 1) [IStart 0])))))) = [mkV 1 0 0 (Some 8)] /\
  votes_of Prevote (replay_actions (snd (replay_wal (cfg_at ex_env_fixed 1 0 1) (init_state 1)
     (wal_written (snd (run (cfg_at ex_env_fixed 1 0 0) (init_state 1) [IStart 0])))))) = [mkV 1 0 0 (Some 7)].
Proof. vm_compute. repeat split; reflexivity. Qed.
