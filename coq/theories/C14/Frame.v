(* C14 — byte-level executable model of the record framing of the consensus log files.

   What consensus/walstore ends up using (read from the sources, Pebble v2.1.6):
     wal_store.go   NewTendermintWALStore: pebblewal.Init(Options{Primary: dir, WriteWALSyncOffsets: false,
                    PreallocateSize: 0, MinSyncInterval: 0}) -> wal.StandaloneManager (no Secondary);
                    noRecycle = true in Obsolete, so files are never recycled.
     wal_writer.go  ensureWriter: manager.Create(n) -> record.NewLogWriter(file, n, {WriteWALSyncOffsets:
                    false}) => emitFragment = LogWriter.emitFragmentRecyclable (the RECYCLABLE chunk format,
                    11-byte header); appendSync: standaloneWriter.WriteRecord -> LogWriter.SyncRecord ->
                    SyncRecordGeneralized (one emitFragment call at least, then until the payload is used up);
                    close / rotateAfterSynced / abortUncommitted: LogWriter.Close -> emitEOFTrailer.
     replay.go / recoverLatestWALTail: LogicalLog.OpenForRead -> wal.virtualWALReader.NextRecord ->
                    record.Reader.Next + io.Copy of the singleReader (Reader.nextChunk), offsets from
                    Reader.Offset before every Next.
   The payload of a record is the batch (batchrepr header: 8 bytes sequence number, 4 bytes count, then
   the records); this file knows nothing about it: a record payload is any byte string.

   On disk (record/record.go, record/log_writer.go): the file is a sequence of 32 KiB blocks. A chunk is
       checksum (4, LE) | payload length (2, LE) | type (1) | log number (4, LE) | payload
   with checksum = masked CRC-32C of type .. payload; type 5/6/7/8 = FULL/FIRST/MIDDLE/LAST of the
   recyclable format. A chunk never crosses a block boundary; when fewer than 11 bytes are left in a block
   after a chunk, they are zero-filled and the next chunk starts the next block. Close appends the EOF
   trailer: a payload-less recyclable FULL header with checksum 0, length 0 and log number + 1.

   [encode] transcribes LogWriter.emitFragmentRecyclable / SyncRecordGeneralized, [rstep] transcribes one
   iteration of Reader.nextChunk together with its two callers (Reader.Next with wantFirst = true,
   singleReader.Read with wantFirst = false) for ALL three wire formats the reader accepts, so that the
   reader's behaviour on damaged files is the code's, not an idealisation.  Not modelled:
   readAheadForCorruption (it only chooses WHICH of ErrInvalidChunk / ErrZeroedChunk / ErrUnexpectedEOF is
   reported; walstore treats all three alike through record.IsInvalidRecord = [Torn]); I/O errors.

   Bytes are N (only values below 256 occur in files; nothing here depends on it).  Definitions only;
   the proofs are in Proofs_frame.v, the statements in Props.v. *)
From Coq Require Import List NArith Bool.
Import ListNotations.
Open Scope N_scope.

Definition bytes := list N.

Definition BS : N := 32768.   (* record.blockSize *)
Definition HS : N := 11.      (* record.recyclableHeaderSize *)
Definition CAP : N := 32757.  (* BS - HS: the largest chunk payload *)
Definition W32 : N := 4294967296.

(* ---------- lengths and fuel without deep recursion in the extracted code ---------- *)
Fixpoint nlen_acc (l : bytes) (a : N) : N := match l with [] => a | _ :: r => nlen_acc r (N.succ a) end.
Definition nlen (l : bytes) : N := nlen_acc l 0.
Fixpoint fuel_acc (l : bytes) (a : nat) : nat := match l with [] => a | _ :: r => fuel_acc r (S a) end.

(* ---------- little-endian fields ---------- *)
Definition le16 (x : N) : bytes := [x mod 256; (x / 256) mod 256].
Definition le32 (x : N) : bytes := [x mod 256; (x / 256) mod 256; (x / 65536) mod 256; (x / 16777216) mod 256].
Definition le16d (a b : N) : N := a + 256 * b.
Definition le32d (a b c d : N) : N := a + 256 * (b + 256 * (c + 256 * d)).

Fixpoint zeros (k : nat) : bytes := match k with O => [] | S j => 0 :: zeros j end.
Fixpoint all_zero (l : bytes) : bool := match l with [] => true | b :: r => (b =? 0) && all_zero r end.

(* ---------- what the file is made of ---------- *)
Inductive item := IChunk (ty : N) (frag : bytes) | IPad (k : N).
Inductive tail_status := Clean | Torn.

Definition isize (it : item) : N := match it with IChunk _ f => HS + nlen f | IPad k => k end.

(* headerFormatMappings *)
Definition hdr_size (ty : N) : N := if ty <=? 4 then 7 else if ty <=? 8 then 11 else 19.
Definition is_first_pos (ty : N) : bool := let p := (ty - 1) mod 4 in (p =? 0) || (p =? 1).  (* full | first *)
Definition is_last_pos (ty : N) : bool := let p := (ty - 1) mod 4 in (p =? 0) || (p =? 3).   (* full | last *)

(* the end of a block is the start of the next one *)
Definition adv (e k : N) : N := if BS <=? e + k then 0 else e + k.

(* a valid chunk reaches the reader: Next (cur = None, wantFirst) skips chunks that do not start a record;
   Read appends whatever comes; a FULL / LAST chunk completes the record. Fragments are kept newest first. *)
Definition absorb (ty : N) (f : bytes) (off' : N) (cur : option (list bytes)) (acc : list bytes) (good : N)
  : option (list bytes) * list bytes * N :=
  let frs := f :: match cur with None => [] | Some fr => fr end in
  let take := if is_last_pos ty then (None, concat (rev' frs) :: acc, off') else (Some frs, acc, good) in
  match cur with
  | None => if is_first_pos ty then take else (None, acc, good)
  | Some _ => take
  end.

Section Frame.
Variable crc : bytes -> N.     (* crc.New(b).Value() *)
Variable lognum : N.           (* uint32(file number) *)

(* ---------- the writer ---------- *)
Definition body (ty : N) (f : bytes) : bytes := ty :: le32 lognum ++ f.
Definition chunk (ty : N) (f : bytes) : bytes := le32 (crc (body ty f)) ++ le16 (nlen f) ++ body ty f.

Definition item_bytes (it : item) : bytes :=
  match it with IChunk ty f => chunk ty f | IPad k => zeros (N.to_nat k) end.
Definition iflat (its : list item) : bytes := flat_map item_bytes its.

(* after a chunk that ends at block offset j: "if blockSize - written < recyclableHeaderSize: clear, queueBlock" *)
Definition pad_after (j : N) : list item * N :=
  if BS - j <? HS then ((if BS - j =? 0 then [] else [IPad (BS - j)]), 0) else ([], j).

(* emitFragmentRecyclable called by the loop of SyncRecordGeneralized; i = block.written *)
Fixpoint emit (fuel : nat) (first : bool) (i : N) (p : bytes) : list item * N :=
  let avail := BS - i - HS in
  if nlen p <=? avail then
    let (pd, i') := pad_after (i + HS + nlen p) in
    (IChunk (if first then 5 else 8) p :: pd, i')
  else
    match fuel with
    | O => ([], i)
    | S f =>
        let (its, i') := emit f false 0 (skipn (N.to_nat avail) p) in
        (IChunk (if first then 6 else 7) (firstn (N.to_nat avail) p) :: its, i')
    end.
Definition emit_rec (i : N) (p : bytes) : list item * N := emit (S (N.to_nat (nlen p / CAP))) true i p.

Fixpoint layout (i : N) (rs : list bytes) : list item :=
  match rs with
  | [] => []
  | r :: rs' => let (its, i') := emit_rec i r in its ++ layout i' rs'
  end.

Definition encode (rs : list bytes) : bytes := iflat (layout 0 rs).
(* emitEOFTrailer *)
Definition trailer : bytes := [0; 0; 0; 0; 0; 0; 5] ++ le32 ((lognum + 1) mod W32).
Definition encode_closed (rs : list bytes) : bytes := encode rs ++ trailer.

(* ---------- the reader ---------- *)
Record dstate := mkD {
  de : N;                       (* r.end within the current block, < BS *)
  doff : N;                     (* absolute offset of r.end: blockNum * blockSize + r.end *)
  dl : N;                       (* bytes from r.end to the end of the file *)
  drest : bytes;                (* those bytes *)
  dcur : option (list bytes);   (* None: between records (wantFirst); Some frs: inside a record *)
  dacc : list bytes;            (* records returned so far, newest first *)
  dgood : N }.                  (* Reader.Offset() before the Next that is running: end of the last record *)
Inductive sres := Stop (st : tail_status) | Cont (s : dstate).
Inductive lcheck := LOk | LEof | LBad.

Definition lognum_check (want_first : bool) (bdy : bytes) : lcheck :=
  match bdy with
  | n0 :: n1 :: n2 :: n3 :: _ =>
      let ln := le32d n0 n1 n2 n3 in
      if ln =? lognum then LOk
      else if (ln =? (lognum + 1) mod W32) && want_first then LEof else LBad
  | _ => LBad
  end.

(* one iteration of the loop of Reader.nextChunk (a block load is part of the iteration that needs it),
   split into the three situations the code distinguishes *)
Definition rem_of (s : dstate) : N := N.min (BS - de s) (dl s).      (* r.n - r.end *)
Definition same (s : dstate) : option (list bytes) * list bytes * N := (dcur s, dacc s, dgood s).
Definition skip_to (s : dstate) (k : N) (c : option (list bytes) * list bytes * N) : sres :=
  let '(cur, acc, good) := c in
  Cont (mkD (adv (de s) k) (doff s + k) (dl s - k) (skipn (N.to_nat k) (drest s)) cur acc good).

(* checksum = 0, length = 0, type = 0: the zeroed rest of a block *)
Definition on_zero_hdr (s : dstate) : sres :=
  let rem := rem_of s in
  if rem <? 11 then skip_to s rem (same s)
  else if rem <? 19 then
    if all_zero (firstn (N.to_nat rem) (drest s)) then skip_to s rem (same s) else Stop Torn
  else Stop Torn.

(* a header with 1 <= type <= 12 *)
Definition on_chunk (s : dstate) (ck ln ty : N) (bdy : bytes) : sres :=
  let rem := rem_of s in
  let hs := hdr_size ty in
  if (5 <=? ty) && (rem <? hs) then Stop Torn
  else
    match (if 5 <=? ty then lognum_check (match dcur s with None => true | Some _ => false end) bdy
           else LOk) with
    | LEof => Stop Clean
    | LBad => Stop Torn
    | LOk =>
        if rem <? hs + ln then Stop Torn            (* the chunk straddles the block / the end of the file *)
        else if negb (ck =? crc (firstn (N.to_nat (hs - 6 + ln)) (ty :: bdy)) mod W32) then Stop Torn
        else
          skip_to s (hs + ln)
            (absorb ty (firstn (N.to_nat ln) (skipn (N.to_nat (hs - 7)) bdy)) (doff s + (hs + ln))
                    (dcur s) (dacc s) (dgood s))
    end.

Definition rstep (s : dstate) : sres :=
  match drest s with
  | [] => Stop (match dcur s with None => Clean | Some _ => Torn end)
  | _ :: _ =>
    if rem_of s <? 7 then
      if BS <=? de s + dl s then skip_to s (rem_of s) (same s)   (* the block is full: load the next one *)
      else Stop Torn                                             (* r.n < blockSize, r.end <> r.n *)
    else
      match drest s with
      | c0 :: c1 :: c2 :: c3 :: l0 :: l1 :: ty :: bdy =>
          let ck := le32d c0 c1 c2 c3 in
          let ln := le16d l0 l1 in
          if 13 <=? ty then Stop Torn
          else if (ck =? 0) && (ln =? 0) && (ty =? 0) then on_zero_hdr s
          else if ty =? 0 then Stop Torn
          else on_chunk s ck ln ty bdy
      | _ => Stop Torn
      end
  end.

Fixpoint rrun (fuel : nat) (s : dstate) : list bytes * tail_status * N :=
  match fuel with
  | O => (rev' (dacc s), Torn, dgood s)
  | S f => match rstep s with
           | Stop st => (rev' (dacc s), st, dgood s)
           | Cont s' => rrun f s'
           end
  end.

Definition rstart (e off : N) (b : bytes) (cur : option (list bytes)) (acc : list bytes) (good : N) : dstate :=
  mkD e off (nlen b) b cur acc good.

(* records, tail status, length of the valid prefix (what recoverLatestWALTail truncates the file to) *)
Definition decode_full (b : bytes) : list bytes * tail_status * N := rrun (fuel_acc b 1) (rstart 0 0 b None [] 0).
Definition decode (b : bytes) : list bytes * tail_status := fst (decode_full b).
Definition valid_len (b : bytes) : N := snd (decode_full b).

(* ---------- what a cut file must read as, computed from the layout (specification, no bytes) ---------- *)
Record astate := mkA { ae : N; aoff : N; acur : option (list bytes); aacc : list bytes; agood : N }.

Definition istep (a : astate) (it : item) : astate :=
  match it with
  | IPad k => mkA (adv (ae a) k) (aoff a + k) (acur a) (aacc a) (agood a)
  | IChunk ty f =>
      let k := HS + nlen f in
      let '(cur, acc, good) := absorb ty f (aoff a + k) (acur a) (aacc a) (agood a) in
      mkA (adv (ae a) k) (aoff a + k) cur acc good
  end.

Definition finish (a : astate) : list bytes * tail_status * N :=
  (rev' (aacc a), match acur a with None => Clean | Some _ => Torn end, agood a).

Fixpoint cut_items (its : list item) (n : N) (a : astate) : list bytes * tail_status * N :=
  match its with
  | [] => finish a
  | it :: r =>
      if isize it <=? n then cut_items r (n - isize it) (istep a it)
      else if n =? 0 then finish a
      else match it with
           | IChunk _ _ => (rev' (aacc a), Torn, agood a)
           | IPad _ => if n <? 7 then (rev' (aacc a), Torn, agood a) else finish a
           end
  end.

(* the same at record level: how many records are complete in the first n bytes, the tail status, the
   end of the last complete record *)
Fixpoint chunks_size (its : list item) : N :=
  match its with
  | [] => 0
  | IChunk _ f :: r => HS + nlen f + chunks_size r
  | IPad _ :: r => chunks_size r
  end.
Fixpoint pad_size (its : list item) : N :=
  match its with
  | [] => 0
  | IChunk _ _ :: r => pad_size r
  | IPad k :: r => k + pad_size r
  end.

(* [good]: end of the last complete record so far; [off]: offset at which the next record starts *)
Fixpoint cut_spec (i : N) (rs : list bytes) (n : N) (good off : N) : nat * tail_status * N :=
  match rs with
  | [] => (O, Clean, good)
  | r :: rs' =>
      let (its, i') := emit_rec i r in
      let raw := chunks_size its in
      let pad := pad_size its in
      if n =? 0 then (O, Clean, good)
      else if n <? raw then (O, Torn, good)                 (* inside the chunks of r *)
      else if n <? raw + pad then                            (* r is complete, its block padding is not *)
        (1%nat, (if (n =? raw) || (raw + 7 <=? n) then Clean else Torn), off + raw)
      else
        let '(k, st, g) := cut_spec i' rs' (n - (raw + pad)) (off + raw) (off + (raw + pad)) in
        (S k, st, g)
  end.
Definition cut_view (rs : list bytes) (n : N) : list bytes * tail_status * N :=
  let '(k, st, g) := cut_spec 0 rs n 0 0 in (firstn k rs, st, g).

(* offset just past record number k (1-based) including its block padding = what WriteRecord returns *)
Definition boundary (rs : list bytes) (k : nat) : N := nlen (encode (firstn k rs)).

End Frame.

(* ---------- CRC-32C (Castagnoli), reflected, table driven; Pebble's masked value ---------- *)
Definition crc_poly : N := 2197175160.  (* 0x82F63B78 *)
Fixpoint crc_bits (n : nat) (c : N) : N :=
  match n with
  | O => c
  | S k => crc_bits k (if N.odd c then N.lxor (N.shiftr c 1) crc_poly else N.shiftr c 1)
  end.
Inductive ptrie := PLeaf | PNode (l : ptrie) (v : N) (r : ptrie).
Fixpoint pget (t : ptrie) (p : positive) : N :=
  match t with
  | PLeaf => 0
  | PNode l v r => match p with xH => v | xO q => pget l q | xI q => pget r q end
  end.
Fixpoint pset (t : ptrie) (p : positive) (x : N) : ptrie :=
  let '(l, v, r) := match t with PLeaf => (PLeaf, 0, PLeaf) | PNode l v r => (l, v, r) end in
  match p with
  | xH => PNode l x r
  | xO q => PNode (pset l q x) v r
  | xI q => PNode l v (pset r q x)
  end.
Definition crc_table : ptrie :=
  Eval vm_compute in
    fold_left (fun t i => pset t (N.succ_pos i) (crc_bits 8 i)) (map N.of_nat (seq 0 256)) PLeaf.
Definition crc_byte (c b : N) : N :=
  N.lxor (pget crc_table (N.succ_pos (N.land (N.lxor c b) 255))) (N.shiftr c 8).
Definition crc32c (b : bytes) : N := N.lxor (fold_left crc_byte b 4294967295) 4294967295.
(* crc.CRC.Value: uint32(c>>15 | c<<17) + 0xa282ead8 *)
Definition crc_mask (c : N) : N :=
  (N.lor (N.shiftr c 15) (N.land (N.shiftl c 17) 4294967295) + 2726488792) mod W32.
Definition pebble_crc (b : bytes) : N := crc_mask (crc32c b).
